#!/usr/bin/env python3
"""asviol.py <dir> <index> [tail] — replay violation #index of an actorsys run and print the last steps."""
import json,subprocess,sys
d=sys.argv[1]; idx=int(sys.argv[2]); tail=int(sys.argv[3]) if len(sys.argv)>3 else 12
s=json.load(open(d+'/stats.json'))
v=s['violations'][idx]
print(v['detail'])
for o in v['ops']:
    if o.startswith('script'): print(o)
open('/tmp/r.txt','w').write('\n'.join(v['ops'])+'\n')
out=subprocess.run(['/verif/harness/bin/vh','actorsys','-replay','/tmp/r.txt'],stdout=subprocess.PIPE).stdout.decode().split('\n')
for o,l in list(zip(v['ops'],out))[-tail:]: print(o,'\n    ',l[:500])
