#!/usr/bin/env python3
"""asdiff.py <dir> [n] — show the first n diverging cases of a lock-step run (ops since reset, last lines both sides)."""
import sys, json
d=sys.argv[1]; want=int(sys.argv[2]) if len(sys.argv)>2 else 1
ops=open(d+'/ops.txt',errors='replace').read().split('\n'); go=open(d+'/go.out',errors='replace').read().split('\n'); le=open(d+'/lean.out',errors='replace').read().split('\n')
cases=0;bad=0;inbad=False;shown=0
for i,(g,l) in enumerate(zip(go,le)):
    if ops[i].startswith('reset'):
        cases+=1; inbad=False
    if g!=l and not inbad:
        inbad=True; bad+=1
        if shown<want:
            shown+=1
            j=i
            while not ops[j].startswith('reset'): j-=1
            print('---- case at line',j)
            for k in range(j,i+1):
                print(ops[k])
                if k>=i-2:
                    print('   G',go[k]); print('   L',le[k] if go[k]!=le[k] else '=')
print('cases',cases,'diverging',bad)
try:
    s=json.load(open(d+'/stats.json')); print('monitor violations',len(s['violations']))
    seen=set()
    for v in s['violations']:
        k=v['detail'][:60]
        if k in seen: continue
        seen.add(k); print('  ',v['detail'][:300])
except Exception as e: print(e)
