#!/usr/bin/env python3
"""Regenerate MANIFEST.json from props_table.py (checks) + the static header."""
import json, sys, os, subprocess
ROOT = os.path.dirname(os.path.dirname(os.path.abspath(__file__)))
sys.path.insert(0, ROOT)
from props_table import PROPS, LEVEL_TEXT, NOT_APPLICABLE
ids = [json.loads(l)['id'] for l in open(os.path.join(ROOT, 'properties.jsonl'))]
hook_commits = subprocess.run(['git', '-C', '/repo', 'log', '--format=%h %s'], stdout=subprocess.PIPE).stdout.decode().strip().split('\n')
hook_commits = [l.split()[0] for l in hook_commits if 'verif hooks' in l]
man = {
 "version": 1,
 "setup_cmd": "./check --setup",
 "hooks": {
  "guard": "verif",
  "enable": "go1.26 build -tags verif (harness module github.com/kercylan98/vivid/verifharness, replace => /repo)",
  "baseline_off_cmd": "cd /repo && go test -mod=mod -json -vet=off -count=1 -timeout 25m ./...",
  "source_commits": hook_commits[::-1],
  "add_only": True
 },
 "engines": [
  {"name": "lean", "path": "lean/", "serves_properties": sorted(PROPS), "kind_free_text": "Lean 4 project: executable models (Vivid/Model), proofs (Vivid/Proofs), property theorems (Vivid/Props), ties (Vivid/Tie, Vivid/Generated), line-protocol driver (Driver/Main.lean -> lean_exe driver)"},
  {"name": "harness", "path": "harness/", "serves_properties": sorted(PROPS), "kind_free_text": "Go module built against /repo with -tags verif: correspondence engines (differential / lock-step under the baton scheduler), generators, monitors"},
 ],
 "checks": [],
 "not_applicable": [{"property_id": k, "reason": v} for k, v in sorted(NOT_APPLICABLE.items()) if k not in PROPS],
 "notes": "Every check: ./check Cxx [--tier quick|thorough]; VERIF_SEED seeds the single PRNG; evidence in evidence/Cxx.json; replays in replays/."
}
for pid in ids:
    if pid not in PROPS:
        if pid not in NOT_APPLICABLE:
            man["not_applicable"].append({"property_id": pid, "reason": "not yet claimed: machinery for this property is not built (see DESIGN.md section 14)"})
        continue
    P = PROPS[pid]
    man["checks"].append({
        "property_id": pid,
        "quick_cmd": "./check %s --tier quick" % pid,
        "thorough_cmd": "./check %s --tier thorough" % pid,
        "evidence_file": "evidence/%s.json" % pid,
        "replay_cmd_template": "./check %s --replay {path}" % pid,
        "engine": "lean+harness",
        "level_claimed": {"category": "proof", "text": LEVEL_TEXT.get(pid, P.get('explanation', '')), "design_ref": "DESIGN.md section 7 (%s), section 14" % pid},
        "level_note": "; ".join(P['trusted_base'] + P['assumptions'])[:1500],
        "technique": P.get('technique', 'Lean 4 theorems about an executable model + correspondence check (differential / lock-step) against /repo'),
    })
man["not_applicable"].sort(key=lambda x: x["property_id"])
json.dump(man, open(os.path.join(ROOT, 'MANIFEST.json'), 'w'), indent=1)
print('checks:', [c['property_id'] for c in man['checks']], 'n/a:', [c['property_id'] for c in man['not_applicable']])
