#!/bin/bash
# usage: collect_seed.sh <seed-id> <Cxx>  — phase 1 of process_seed.sh (collect, confirm, keep) without touching /repo's working tree
id=$1; prop=$2; src=/tmp/seedwt-$id/seed-out; dst=/tmp/newseeds/$id
[ -d "$src" ] || { echo "no $src"; exit 1; }
mkdir -p /tmp/newseeds; rm -rf "$dst"; cp -r "$src" "$dst"
find "$dst" -maxdepth 1 -type f \( -name '*.log' -o -name 'suite*' -o -name 'with*.txt' -o -name 'demo-with*' \) -delete; rm -rf "$dst/logs" "$dst/suite-logs"
run=$(grep -o "go test.*" "$dst/demo/RUN.txt" | head -1); echo "$run" > "$dst/demo/RUN.txt"
echo "RUN: $run"
unshare -n sh -c "ip link set lo up; /verif/tools/confirm_seed.sh $dst" 2>&1 | tail -1 | tee /tmp/newseeds/$id.confirm
if grep -q "build=0 demo_without=0 demo_with=1" /tmp/newseeds/$id.confirm; then
  python3 /verif/tools/keep_seed.py "$dst" "$prop"
else
  echo "NOT CONFIRMED: $id"; tail -20 "$dst/confirm.log"
fi
