#!/usr/bin/env python3
"""keep_seed.py <seed-dir> <property>  — copy a confirmed seeded change into /verif/seeded/<name>/ with meta.json"""
import sys, os, shutil, json, re
sd, prop = sys.argv[1].rstrip('/'), sys.argv[2]
name = prop + '-' + os.path.basename(sd)
dst = os.path.join('/verif/seeded', name)
os.makedirs(dst, exist_ok=True)
shutil.copy(os.path.join(sd, 'patch.diff'), dst)
if os.path.exists(os.path.join(dst, 'demo')):
    shutil.rmtree(os.path.join(dst, 'demo'))
shutil.copytree(os.path.join(sd, 'demo'), os.path.join(dst, 'demo'))
notes = open(os.path.join(sd, 'notes.md')).read() if os.path.exists(os.path.join(sd, 'notes.md')) else ''
if notes:
    open(os.path.join(dst, 'notes.md'), 'w').write(notes)
confirm = open(os.path.join(sd, 'confirm.log')).read()[-1500:] if os.path.exists(os.path.join(sd, 'confirm.log')) else ''
meta = {
    'breaks_property': prop,
    'origin': 'independent sub-agent given only the property text and a scratch worktree',
    'needs_to_manifest': (re.search(r'(?is)(needs?|trigger|manifest)[^\n]*\n(.{0,600})', notes) or [None, None, ''])[2].strip()[:600] if notes else '',
    'confirmed_by': 'tools/confirm_seed.sh: scratch worktree of /repo HEAD; go build ./...; demo passes without patch, fails with patch; existing suite (minus known-hanging TestSystem_Start/Stop) passes with patch',
    'demo_run': open(os.path.join(sd, 'demo', 'RUN.txt')).read().strip() if os.path.exists(os.path.join(sd, 'demo', 'RUN.txt')) else '',
    'detected_by': 'see DESIGN.md section 15',
}
json.dump(meta, open(os.path.join(dst, 'meta.json'), 'w'), indent=1)
print(dst)
