#!/bin/bash
# usage: confirm_seed.sh <seed-dir>   — confirms in a scratch worktree of /repo@HEAD:
#   patch applies, builds, demo passes WITHOUT the patch, demo fails WITH it, existing suite passes WITH it.
# Prints one summary line; details in <seed-dir>/confirm.log. Removes the worktree afterwards.
sd=$(readlink -f "$1"); name=$(basename "$sd"); wt=/tmp/confirm-$name
export GOFLAGS=-mod=mod GOPROXY=off
log=$sd/confirm.log; : > "$log"
git -C /repo worktree remove --force "$wt" >/dev/null 2>&1
git -C /repo worktree add -q --detach "$wt" HEAD >>"$log" 2>&1 || { echo "$name: worktree failed"; exit 1; }
cd "$wt"
run=$(head -1 "$sd/demo/RUN.txt" 2>/dev/null)
# copy demo files to where RUN.txt expects them: demo files named zz_seed_*_test.go go to the package dir mentioned in RUN.txt
for f in "$sd"/demo/*; do
  b=$(basename "$f"); [ "$b" = RUN.txt ] && continue
  if [ -d "$f" ]; then cp -r "$f" "$wt/"; continue; fi
  pkg=$(echo "$run" | grep -o '\./[A-Za-z0-9_/.-]*' | head -1)
  [ -z "$pkg" ] && pkg=.
  mkdir -p "$wt/$pkg"; cp "$f" "$wt/$pkg/"
done
echo "RUN: $run" >>"$log"
( ulimit -v 16000000; timeout 300 bash -c "$run" ) >>"$log" 2>&1; without=$?
if ! git apply "$sd/patch.diff" >>"$log" 2>&1; then echo "$name: PATCH-DOES-NOT-APPLY"; cd /; git -C /repo worktree remove --force "$wt"; exit 1; fi
go build ./... >>"$log" 2>&1; build=$?
echo "---- with patch" >>"$log"
( ulimit -v 16000000; timeout 300 bash -c "$run" ) >>"$log" 2>&1; with=$?
echo "---- suite with patch" >>"$log"
rm -f $(git ls-files --others --exclude-standard | grep zz_seed) 2>/dev/null
( ulimit -v 16000000; timeout 1200 go test -mod=mod -vet=off -count=1 -timeout 15m -skip 'TestSystem_Start$|TestSystem_Stop$' ./... ) > "$sd/suite.log" 2>&1; suite=$?
fails=$(grep -E "^(--- FAIL|FAIL)" "$sd/suite.log" | tr '\n' ' ' | cut -c1-300)
echo "$name: build=$build demo_without=$without demo_with=$with suite=$suite $fails"
cd /; git -C /repo worktree remove --force "$wt"
