#!/bin/bash
# usage: tools/trymutant.sh <patch.diff> <Cxx> [Cyy ...]   — apply to /repo, run checks, always revert
patch=$1; shift
cd /repo && git apply "$patch" || { echo "patch does not apply"; exit 3; }
for p in "$@"; do
  echo "== $p"; (cd /verif && timeout 1800 ./check $p 2>&1 | head -${LINES_MAX:-8})
done
cd /repo && git checkout -- . && git clean -fdq
