import Vivid.Model.Mailbox

/-! Per-label source / target program points (the label table of M2 read as a control-flow
graph).  Used by the lock-step driver to follow every real goroutine individually, and tied
to `fire` by `Proofs/MailboxSites.lean` (`fire` moves exactly one thread from `src` to `dst`). -/
namespace Vivid.Mailbox
open Pc

/-- Program point a thread must be at to take the label (`none`: the label creates the thread). -/
def src : Label → Option Pc
  | .newEnqU | .newEnqS | .newPause | .newResume => none
  | .uPush => eU0 | .uInc => eU1 | .sPush => eS0 | .sInc => eS1
  | .pCasWin | .pCasLose => eC | .pGo => eGo
  | .pause => pz0 | .rCasPWin | .rCasPLose => r0 | .rCasSWin | .rCasSLose => r1 | .rGo => rGo
  | .popSSome | .popSNone => cStart | .decS => cDecS | .hndS => cHndS
  | .loadPPaused | .loadPRun => cLoadP | .popUSome | .popUNone => cPopU
  | .decU => cDecU | .hndU => cHndU | .hEnd => H
  | .store => cStore | .loadNPos | .loadNNon => cLoadN
  | .loadSyTPos | .loadSyTNon => cLoadSyT | .loadSyFPos | .loadSyFNon => cLoadSyF
  | .loadPzRun | .loadPzPaused => cLoadPz | .reWin | .reLose => cReCas
  | .hUPush | .hSPush | .hPause | .hRCasPWin | .hRCasPLose => H
  | .hUInc => hU1 | .hSInc => hS1 | .hCasWin | .hCasLose => hC | .hSpawnGo => hSpawn
  | .hRCasSWin | .hRCasSLose => hR1 | .hRSpawnGo => hRSpawn

/-- Program point of the thread after the label (`none`: the thread is gone). -/
def dst (fixed : Bool) : Label → Option Pc
  | .newEnqU => eU0 | .newEnqS => eS0 | .newPause => pz0 | .newResume => r0
  | .uPush => eU1 | .uInc => eC | .sPush => eS1 | .sInc => eC
  | .pCasWin => eGo | .pCasLose => none | .pGo => none
  | .pause => none | .rCasPWin => r1 | .rCasPLose => none | .rCasSWin => rGo | .rCasSLose => none | .rGo => none
  | .popSSome => cDecS | .popSNone => cLoadP | .decS => cHndS | .hndS => H
  | .loadPPaused => cStore | .loadPRun => cPopU | .popUSome => cDecU | .popUNone => cStore
  | .decU => cHndU | .hndU => H | .hEnd => cStart
  | .store => cLoadN | .loadNPos => cLoadSyT | .loadNNon => cLoadSyF
  | .loadSyTPos => cReCas | .loadSyTNon => if fixed then cLoadPz else cReCas
  | .loadSyFPos => cReCas | .loadSyFNon => none
  | .loadPzRun => cReCas | .loadPzPaused => none | .reWin => cStart | .reLose => none
  | .hUPush => hU1 | .hUInc => hC | .hSPush => hS1 | .hSInc => hC
  | .hCasWin => hSpawn | .hCasLose => H | .hSpawnGo => H
  | .hPause => H | .hRCasPWin => hR1 | .hRCasPLose => H
  | .hRCasSWin => hRSpawn | .hRCasSLose => H | .hRSpawnGo => H

/-- Labels that start a new processing goroutine (at `cStart`). -/
def spawns : Label → Bool
  | .pGo | .rGo | .hSpawnGo | .hRSpawnGo => true
  | _ => false

def pcName : Pc → String
  | eU0 => "eU0" | eU1 => "eU1" | eS0 => "eS0" | eS1 => "eS1" | eC => "eC" | eGo => "eGo"
  | pz0 => "pz0" | r0 => "r0" | r1 => "r1" | rGo => "rGo"
  | cStart => "cStart" | cDecS => "cDecS" | cHndS => "cHndS" | cLoadP => "cLoadP" | cPopU => "cPopU"
  | cDecU => "cDecU" | cHndU => "cHndU" | cStore => "cStore" | cLoadN => "cLoadN"
  | cLoadSyT => "cLoadSyT" | cLoadSyF => "cLoadSyF" | cLoadPz => "cLoadPz" | cReCas => "cReCas"
  | H => "H" | hU1 => "hU1" | hS1 => "hS1" | hC => "hC" | hSpawn => "hSpawn" | hR1 => "hR1" | hRSpawn => "hRSpawn"

/-- Candidate labels for a thread at `pc` performing the action named by the yield site
(only `H` needs the action to disambiguate); the first enabled one fires. -/
def candidates (pc : Pc) (action : String) : List Label :=
  match pc with
  | eU0 => [.uPush] | eU1 => [.uInc] | eS0 => [.sPush] | eS1 => [.sInc]
  | eC => [.pCasWin, .pCasLose] | eGo => [.pGo]
  | pz0 => [.pause] | r0 => [.rCasPWin, .rCasPLose] | r1 => [.rCasSWin, .rCasSLose] | rGo => [.rGo]
  | cStart => [.popSSome, .popSNone] | cDecS => [.decS] | cHndS => [.hndS]
  | cLoadP => [.loadPPaused, .loadPRun] | cPopU => [.popUSome, .popUNone]
  | cDecU => [.decU] | cHndU => [.hndU] | cStore => [.store]
  | cLoadN => [.loadNPos, .loadNNon] | cLoadSyT => [.loadSyTPos, .loadSyTNon]
  | cLoadSyF => [.loadSyFPos, .loadSyFNon] | cLoadPz => [.loadPzRun, .loadPzPaused]
  | cReCas => [.reWin, .reLose]
  | H =>
    if action = "pushu" then [.hUPush]
    else if action = "pushs" then [.hSPush]
    else if action = "pause" then [.hPause]
    else if action = "resume" then [.hRCasPWin, .hRCasPLose]
    else if action = "end" then [.hEnd]
    else []
  | hU1 => [.hUInc] | hS1 => [.hSInc] | hC => [.hCasWin, .hCasLose] | hSpawn => [.hSpawnGo]
  | hR1 => [.hRCasSWin, .hRCasSLose] | hRSpawn => [.hRSpawnGo]

end Vivid.Mailbox
