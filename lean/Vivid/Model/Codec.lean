/-
M3 — the wire codec (`internal/messages/{writer,reader}.go`, `internal/cluster/serialize.go`,
`internal/cluster/version_vector.go` Read/Write, `internal/remoting/serialize/remoting_envelop.go`).

A schema `Ty` describes how the hand-written reader/writer pair of one message lays out its
fields; `enc`/`dec` are the generic big-endian writer and reader.  `enc` returns `none` exactly
on the values the Go writer cannot represent (`WT`: counts and lengths below 2^32, integers in
range); `dec` returns `err` where the Go reader returns an error.  `alloc` counts the units the
Go reader allocates *from a wire-supplied count before having read the elements*.
-/
namespace Vivid.Codec

abbrev Bytes := List Nat

inductive Ty where
  | unit
  | u8 | u16 | u32 | u64
  | i32 | i64
  | bool
  | bytes                      -- 4-byte length + data (also `string`)
  | pair (a b : Ty)
  | list (cap : Option Nat) (prealloc : Bool) (a : Ty)   -- u32 count (≤ cap), then the elements
  | opt32 (a : Ty)             -- u32 presence (0 / non-zero), then the value
  | opt8 (a : Ty)              -- u8 presence
  | chk (c : Nat) (a : Ty)     -- `a`, plus the validation rule number `c` applied by writer and reader
  deriving Repr

inductive V where
  | unit
  | n (x : Nat)
  | i (x : Int)
  | b (x : Bool)
  | bytes (bs : Bytes)
  | pair (a b : V)
  | nil
  | cons (h t : V)
  | none
  | some (v : V)
  deriving Repr, DecidableEq

inductive Res (α : Type) where
  | ok (a : α)
  | err
  deriving Repr, DecidableEq

/-- `k` big-endian bytes of `n`. -/
def be : Nat → Nat → Bytes
  | 0, _ => []
  | k + 1, n => (n / 256 ^ k) % 256 :: be k n

def unbe : Bytes → Nat → Nat
  | [], acc => acc
  | b :: t, acc => unbe t (acc * 256 + b)

def wellBytes (bs : Bytes) : Bool := bs.all (· < 256)

def toTwos (bits : Nat) (z : Int) : Option Nat :=
  if z ≥ 0 then (if z.toNat < 2 ^ (bits - 1) then some z.toNat else none)
  else (if (-z).toNat ≤ 2 ^ (bits - 1) then some (2 ^ bits - (-z).toNat) else none)

def fromTwos (bits : Nat) (n : Nat) : Int :=
  if n < 2 ^ (bits - 1) then (n : Int) else (n : Int) - (2 ^ bits : Nat)

def encNat (k : Nat) (x : Nat) : Option Bytes :=
  if x < 256 ^ k then some (be k x) else none

/-- Validation rules. 0: a version-vector entry `(node, counter)` — node address of 1..256
bytes, counter ≤ 2^63-1 (`validateNodeAddress`, `maxCounterValue`). -/
def chkOk : Nat → V → Bool
  | 0, .pair (.bytes nm) (.n c) => decide (0 < nm.length ∧ nm.length ≤ 256 ∧ c ≤ 2 ^ 63 - 1)
  | 0, _ => false
  | _, _ => true

/-- `cnt ≤ cap` for an optional cap. -/
def capOk (cap : Option Nat) (cnt : Nat) : Bool :=
  match cap with
  | Option.some c => decide (cnt ≤ c)
  | Option.none => true

def vlen : V → Nat
  | .cons _ t => vlen t + 1
  | _ => 0

def encList (f : V → Option Bytes) : V → Option Bytes
  | .nil => some []
  | .cons h t =>
    match f h, encList f t with
    | some a, some b => some (a ++ b)
    | _, _ => Option.none
  | _ => Option.none

def enc : Ty → V → Option Bytes
  | .unit, .unit => some []
  | .u8, .n x => encNat 1 x
  | .u16, .n x => encNat 2 x
  | .u32, .n x => encNat 4 x
  | .u64, .n x => encNat 8 x
  | .i32, .i z => (toTwos 32 z).map (be 4)
  | .i64, .i z => (toTwos 64 z).map (be 8)
  | .bool, .b x => some [if x then 1 else 0]
  | .bytes, .bytes bs =>
    if bs.length < 2 ^ 32 ∧ wellBytes bs then some (be 4 bs.length ++ bs) else Option.none
  | .pair a b, .pair x y =>
    match enc a x, enc b y with
    | some p, some q => some (p ++ q)
    | _, _ => Option.none
  | .list cap _ a, v =>
    if vlen v < 2 ^ 32 ∧ capOk cap (vlen v) = true then
      (encList (enc a) v).map (fun bs => be 4 (vlen v) ++ bs)
    else Option.none
  | .opt32 _, .none => some (be 4 0)
  | .opt32 a, .some v => (enc a v).map (fun bs => be 4 1 ++ bs)
  | .opt8 _, .none => some [0]
  | .opt8 a, .some v => (enc a v).map (fun bs => 1 :: bs)
  | .chk c a, v => if chkOk c v = true then enc a v else Option.none
  | _, _ => Option.none

/-- Read `k` bytes. -/
def take (k : Nat) (bs : Bytes) : Res (Bytes × Bytes) :=
  if k ≤ bs.length then .ok (bs.take k, bs.drop k) else .err

def decNat (k : Nat) (bs : Bytes) : Res (Nat × Bytes) :=
  match take k bs with
  | .ok (h, r) => .ok (unbe h 0, r)
  | .err => .err

/-- Read `n` elements with `f`; the result list is built in order. `al` threads the allocation counter. -/
def decN (f : Bytes → Res ((V × Nat) × Bytes)) : Nat → Bytes → Res ((V × Nat) × Bytes)
  | 0, bs => .ok ((.nil, 0), bs)
  | n + 1, bs =>
    match f bs with
    | .err => .err
    | .ok ((h, a1), r) =>
      match decN f n r with
      | .err => .err
      | .ok ((t, a2), r') => .ok ((.cons h t, a1 + a2), r')

/-- Decoder with allocation counter: result `((value, alloc), rest)`. -/
def decA : Ty → Bytes → Res ((V × Nat) × Bytes)
  | .unit, bs => .ok ((.unit, 0), bs)
  | .u8, bs => match decNat 1 bs with | .ok (x, r) => .ok ((.n x, 0), r) | .err => .err
  | .u16, bs => match decNat 2 bs with | .ok (x, r) => .ok ((.n x, 0), r) | .err => .err
  | .u32, bs => match decNat 4 bs with | .ok (x, r) => .ok ((.n x, 0), r) | .err => .err
  | .u64, bs => match decNat 8 bs with | .ok (x, r) => .ok ((.n x, 0), r) | .err => .err
  | .i32, bs => match decNat 4 bs with | .ok (x, r) => .ok ((.i (fromTwos 32 x), 0), r) | .err => .err
  | .i64, bs => match decNat 8 bs with | .ok (x, r) => .ok ((.i (fromTwos 64 x), 0), r) | .err => .err
  | .bool, bs => match decNat 1 bs with | .ok (x, r) => .ok ((.b (x ≠ 0), 0), r) | .err => .err
  | .bytes, bs =>
    match decNat 4 bs with
    | .err => .err
    | .ok (len, r) =>
      match take len r with
      | .ok (d, r') => .ok ((.bytes d, 0), r')     -- the copy is made after the bounds check
      | .err => .err
  | .pair a b, bs =>
    match decA a bs with
    | .err => .err
    | .ok ((x, a1), r) =>
      match decA b r with
      | .err => .err
      | .ok ((y, a2), r') => .ok ((.pair x y, a1 + a2), r')
  | .list cap pre a, bs =>
    match decNat 4 bs with
    | .err => .err
    | .ok (cnt, r) =>
      if capOk cap cnt = true then
        match decN (decA a) cnt r with
        | .err => .err
        | .ok ((v, al), r') => .ok ((v, al + (if pre then cnt else 0)), r')
      else .err
  | .opt32 a, bs =>
    match decNat 4 bs with
    | .err => .err
    | .ok (p, r) =>
      if p = 0 then .ok ((.none, 0), r)
      else match decA a r with
        | .err => .err
        | .ok ((v, al), r') => .ok ((.some v, al), r')
  | .opt8 a, bs =>
    match decNat 1 bs with
    | .err => .err
    | .ok (p, r) =>
      if p = 0 then .ok ((.none, 0), r)
      else match decA a r with
        | .err => .err
        | .ok ((v, al), r') => .ok ((.some v, al), r')

  | .chk c a, bs =>
    match decA a bs with
    | .err => .err
    | .ok ((v, al), r) => if chkOk c v = true then .ok ((v, al), r) else .err

def dec (t : Ty) (bs : Bytes) : Res (V × Bytes) :=
  match decA t bs with
  | .ok ((v, _), r) => .ok (v, r)
  | .err => .err

end Vivid.Codec
