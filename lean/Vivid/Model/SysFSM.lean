/-
M12a — `System.Start` / `Stop` / context cancellation as a one-way state machine
(`internal/actor/system.go`).  The model is the specification the calls must follow in any
sequential history; concurrent histories are linearised by `statusLock` (each call's status
check-and-set is one critical section), so every concurrent history of complete calls is a
sequential history of the same calls in lock order.
-/
namespace Vivid.SysFSM

inductive St where
  | ready | readyCancelled | started | stopped     -- readyCancelled: context cancelled before Start
  deriving DecidableEq, Repr

inductive Op where
  | start | stop | cancel
  deriving DecidableEq, Repr

inductive Ret where
  | ok | alreadyStarted | alreadyStopped | notStarted | none
  deriving DecidableEq, Repr

/-- One call. `cancel` has the effect of `Stop` on a started system and none otherwise (the
guardian goroutine only exists after a successful Start). -/
def step (s : St) : Op → St × Ret
  | .start => match s with
    | .ready => (.started, .ok)
    | .readyCancelled => (.stopped, .ok)     -- Start succeeds; the guardian sees the cancelled context at once and stops
    | .started => (.started, .alreadyStarted)
    | .stopped => (.stopped, .alreadyStopped)
  | .stop => match s with
    | .ready => (.ready, .notStarted)
    | .readyCancelled => (.readyCancelled, .notStarted)
    | .started => (.stopped, .ok)
    | .stopped => (.stopped, .alreadyStopped)
  | .cancel => match s with
    | .started => (.stopped, .none)
    | .ready => (.readyCancelled, .none)
    | s => (s, .none)

def run (s : St) : List Op → St × List Ret
  | [] => (s, [])
  | o :: os =>
    let (s1, r) := step s o
    let (s2, rs) := run s1 os
    (s2, r :: rs)

def rank : St → Nat
  | .ready => 0 | .readyCancelled => 0 | .started => 1 | .stopped => 2

end Vivid.SysFSM
