/-
M11 — `internal/future/future.go`: one Future, any number of threads completing it
(`close`: reply / error / timeout / Close), piping it (`PipeTo`, one forwarder per call) and
awaiting it (`Result`/`Wait`), interleaved at the granularity of the statements of `close` and
`PipeTo`.  Counter-abstracted like M2.  `fixed` selects `PipeTo` on an already closed future:
`false` — the code as found reads `message`/`err` right after seeing `closed`;
`true` — repaired: it first waits for `done` (closed after the result is written).
-/
namespace Vivid.Future

inductive Pc where
  | k0 | k1 | k2 | k3 | k4 | k5     -- close: before CAS / result write / close(done) / closer() / take forwarders / tell
  | p0 | p1w | p1                    -- PipeTo: before the locked section / waiting for done / before tellForwarders
  | w0                               -- Result/Wait: before `<-f.done`
  deriving DecidableEq, Repr

structure St where
  closed : Bool
  written : Bool        -- message / err have been written
  done : Bool           -- the done channel is closed
  won : Nat             -- CAS winners so far
  closerRan : Nat       -- invocations of the closer callback (registry removal)
  fwd : Nat             -- forwarders registered and not yet taken
  inHand : Nat          -- forwarders taken by the completing thread, not yet told
  toldFinal : Nat       -- forwarders told the final result
  toldZero : Nat        -- forwarders told an unwritten (zero) result
  pipers : Nat          -- PipeTo calls made
  readZero : Nat        -- Result/Wait returns that saw an unwritten result
  c : Pc → Nat

def inc (c : Pc → Nat) (p : Pc) : Pc → Nat := fun q => if q = p then c q + 1 else c q
def dec (c : Pc → Nat) (p : Pc) : Pc → Nat := fun q => if q = p then c q - 1 else c q
def mv (c : Pc → Nat) (p q : Pc) : Pc → Nat := inc (dec c p) q

def init : St :=
  { closed := false, written := false, done := false, won := 0, closerRan := 0, fwd := 0, inHand := 0,
    toldFinal := 0, toldZero := 0, pipers := 0, readZero := 0, c := fun _ => 0 }

inductive Label where
  | newCloser | newPiper | newWaiter
  | kCasWin | kCasLose | kWrite | kDone | kCloser | kTake | kTell
  | pClosed | pAppend | pWait | pTell
  | wRead
  deriving DecidableEq, Repr

open Pc in
def fire (fixed : Bool) (l : Label) (s : St) : Option St :=
  match l with
  | .newCloser => some { s with c := inc s.c k0 }
  | .newPiper => some { s with c := inc s.c p0, pipers := s.pipers + 1 }
  | .newWaiter => some { s with c := inc s.c w0 }
  | .kCasWin => if 0 < s.c k0 ∧ s.closed = false then some { s with c := mv s.c k0 k1, closed := true, won := s.won + 1 } else none
  | .kCasLose => if 0 < s.c k0 ∧ s.closed = true then some { s with c := dec s.c k0 } else none
  | .kWrite => if 0 < s.c k1 then some { s with c := mv s.c k1 k2, written := true } else none
  | .kDone => if 0 < s.c k2 then some { s with c := mv s.c k2 k3, done := true } else none
  | .kCloser => if 0 < s.c k3 then some { s with c := mv s.c k3 k4, closerRan := s.closerRan + 1 } else none
  | .kTake => if 0 < s.c k4 then some { s with c := mv s.c k4 k5, inHand := s.fwd, fwd := 0 } else none
  | .kTell => if 0 < s.c k5 then
      some { s with c := dec s.c k5, inHand := 0,
                    toldFinal := if s.written then s.toldFinal + s.inHand else s.toldFinal,
                    toldZero := if s.written then s.toldZero else s.toldZero + s.inHand } else none
  | .pClosed => if 0 < s.c p0 ∧ s.closed = true then some { s with c := mv s.c p0 (if fixed then p1w else p1) } else none
  | .pAppend => if 0 < s.c p0 ∧ s.closed = false then some { s with c := dec s.c p0, fwd := s.fwd + 1 } else none
  | .pWait => if 0 < s.c p1w ∧ s.done = true then some { s with c := mv s.c p1w p1 } else none
  | .pTell => if 0 < s.c p1 then
      some { s with c := dec s.c p1,
                    toldFinal := if s.written then s.toldFinal + 1 else s.toldFinal,
                    toldZero := if s.written then s.toldZero else s.toldZero + 1 } else none
  | .wRead => if 0 < s.c w0 ∧ s.done = true then
      some { s with c := dec s.c w0, readZero := if s.written then s.readZero else s.readZero + 1 } else none

inductive Reach (fixed : Bool) : St → Prop where
  | init : Reach fixed init
  | step {s s' : St} (l : Label) : Reach fixed s → fire fixed l s = some s' → Reach fixed s'

/-- Nothing left to run: no thread at a non-blocking point, and blocked threads (waiting for
`done`) only while `done` is still open. -/
def Quiescent (s : St) : Prop :=
  s.c .k0 = 0 ∧ s.c .k1 = 0 ∧ s.c .k2 = 0 ∧ s.c .k3 = 0 ∧ s.c .k4 = 0 ∧ s.c .k5 = 0 ∧
  s.c .p0 = 0 ∧ s.c .p1 = 0 ∧ (s.done = true → s.c .p1w = 0 ∧ s.c .w0 = 0)

end Vivid.Future
