import Vivid.Model.Messages

/-! M14 — location transparency of the ActorRef-taking operations (C15).

The specification of an operation is its observable `effect`, which does not mention where
the target lives.  What the implementation adds for a remote target is the wire: the built-in
messages of `wire op t fwd` must each be transmissible (have a reader/writer pair that
round-trips, `Vivid.Codec`); if one is not, the operation silently has no effect (`lost`).
`observe` is what the harness sees; `C15_transparent` says it equals `effect`. -/
namespace Vivid.Transparency
open Vivid.Codec

inductive Loc | here | there
  deriving Repr, DecidableEq

inductive Op
  | tell | tellValue | ask | kill | poison | watch | unwatch | watchTwin | unwatchTwin | ping | pipeOk | pipeFail
  -- the same operations against a target that is busy (a backlog of user messages) or already stopping:
  -- system messages keep their priority and are still handled while stopping, wherever the sender is
  | killBusy | poisonBusy | watchStopping
  -- after the target was stopped and re-created under its name, a reference built afresh from address + path
  -- reaches the new actor
  | tellRespawned
  deriving Repr, DecidableEq

/-- Built-in messages the operation puts on the wire (in either direction) for a target at `t`
and, for PipeTo, a forwarder at `f`.  User payloads (the told / asked message, the reply) travel
through the user codec or their registered reader/writer: outside this table. -/
def wire (op : Op) (t f : Loc) : List String :=
  match op, t, f with
  | .kill, .there, _ => ["OnKill"]
  | .poison, .there, _ => ["OnKill"]
  | .killBusy, .there, _ => ["OnKill"]
  | .poisonBusy, .there, _ => ["OnKill"]
  | .watchStopping, .there, _ => ["OnKilled", "WatchMessage"]
  | .watch, .there, _ => ["OnKilled", "WatchMessage"]
  | .unwatch, .there, _ => ["UnwatchMessage", "WatchMessage"]
  -- a second watcher with the caller's very path lives on the other system: one of the two is remote
  | .watchTwin, _, _ => ["OnKilled", "WatchMessage"]
  | .unwatchTwin, .here, _ => ["OnKilled", "WatchMessage"]
  | .unwatchTwin, .there, _ => ["UnwatchMessage"]
  | .ping, .there, _ => ["PingMessage", "PongMessage"]
  | .pipeOk, _, .there => ["PipeResult"]
  | .pipeFail, _, .there => ["PipeResult"]
  | _, _, _ => []

/-- Payload of `PipeResult`: the nested message as `WriteMessage` writes it (body, name — `nil`
is the reserved name `<nil>` with an empty body), then id, error code, error text. -/
def pipeResultTy : Ty := .pair .bytes (.pair .bytes (.pair str (.pair .i32 str)))

/-- A built-in message can cross the wire when it has a schema (reader and writer that
round-trip, `C12_message_roundtrip`) — `PipeResult` by `pipeResultTy`. `asFound` is the
registry before the repair, where the interface-typed references of OnKill / OnKilled could
not be decoded. -/
def transmits (asFound : Bool) (name : String) : Bool :=
  if name = "PipeResult" then true
  else if asFound && (name = "OnKill" || name = "OnKilled") then false
  else (schemaOf none name).isSome

/-- The specification: what the operation does, wherever the target is. -/
def effect : Op → String
  | .tell => "caller got 1007/re; target got 7/hi from caller"
  | .tellValue => "target got value 5 from caller"
  | .ask => "caller reply 1008/re; target got 8/q from future"
  | .kill => "target onkill killer=caller poison=false reason=why; target terminated"
  | .poison => "target onkill killer=caller poison=true reason=why; target terminated"
  | .watch => "caller onkilled ref=target"
  | .unwatch => "-"
  | .watchTwin => "caller onkilled ref=target; twin onkilled ref=target"
  | .unwatchTwin => "twin onkilled ref=target"
  | .ping => "caller pong"
  | .pipeOk => "fwd piperesult msg=1009/re err=nil; target got 9/p from future"
  | .pipeFail => "fwd piperesult msg=nil err=error; target got 9/p from future"
  -- an immediate Kill is a system message: it overtakes the three user messages queued behind the one being handled
  | .killBusy => "target got 1/first from caller; target onkill killer=caller poison=false reason=why; target terminated"
  -- a poison pill waits its turn in the user queue
  | .poisonBusy => "target got 1/first from caller; target got 2/q from caller; target got 3/q from caller; target got 4/q from caller; target onkill killer=caller poison=true reason=why; target terminated"
  -- a Watch that reaches an actor which is already stopping (waiting for a child) still registers the watcher
  | .watchStopping => "caller onkilled ref=target"
  | .tellRespawned => "target got 1/a from caller; target got 2/again from caller"

/-- What remains observable when a built-in message of the operation is lost in decoding. -/
def lost : Op → String
  | .ping => "caller ping failed"
  | .pipeOk => "target got 9/p from future"
  | .pipeFail => "target got 9/p from future"
  | _ => "-"

def observe (asFound : Bool) (op : Op) (t f : Loc) : String :=
  if (wire op t f).all (transmits asFound) then effect op else lost op

end Vivid.Transparency
