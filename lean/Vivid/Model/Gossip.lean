/-! M15 — gossip membership at the level of one node's handlers (C18).

Mirrors `internal/cluster/node_actor.go` (as repaired) for the configuration the engine uses:
one datacenter, `SuspectConfirmDuration = 0`, fan-out ≥ cluster size, failure-detection timeout
`T` ms.  Version vectors only drive the change-triggered broadcast optimisation and are not part
of the membership state: omitted.  Times are milliseconds. -/
namespace Vivid.Gossip

inductive St | joining | up | suspect
  deriving Repr, DecidableEq

/-- `NodeState` essentials. `id` identifies an incarnation (a restarted process has a new id and
the same address). -/
structure Mem where
  id : Nat × Nat          -- (node index, incarnation)
  addr : Nat
  gen : Nat
  clock : Nat
  ts : Nat
  st : St
  seen : Nat
  deriving Repr, DecidableEq

/-- `NodeState.IsNewerThan`. -/
def newer (a b : Mem) : Bool :=
  if a.gen ≠ b.gen then decide (a.gen > b.gen)
  else if a.id = b.id ∧ a.clock ≠ 0 ∧ b.clock ≠ 0 then decide (a.clock > b.clock)
  else decide (a.ts > b.ts)

def has (ms : List Mem) (id : Nat × Nat) : Bool := ms.any (·.id = id)

/-- `ClusterView.AddMember` / one iteration of the merge loop. -/
def addMember (ms : List Mem) (m : Mem) : List Mem :=
  match ms.find? (·.id = m.id) with
  | some e => if newer m e then ms.map (fun x => if x.id = m.id then m else x) else ms
  | none => ms ++ [m]

/-- The member part of `MergeFromWithOptions`. -/
def mergeView (ms view : List Mem) : List Mem := view.foldl addMember ms

/-- `MemberByAddress` (repaired): the newest incarnation at that address. -/
def byAddrNewest (ms : List Mem) (addr : Nat) : Option Mem :=
  (ms.filter (·.addr = addr)).foldl
    (fun acc m => match acc with
      | none => some m
      | some a => if m.ts > a.ts then some m else some a) none

def refresh (ms : List Mem) (id : Nat × Nat) (now : Nat) : List Mem :=
  ms.map fun m => if m.id = id then { m with seen := now, st := if m.st = .suspect then .up else m.st } else m

structure Node where
  self : Mem
  mem : List Mem
  seeds : List Nat
  T : Nat
  deriving Repr

/-- A member entry is stale when, by the reporter's own account, it was last seen more than `T`
ago (`LastSeen < now − T`). -/
def stale (T now : Nat) (m : Mem) : Bool := decide (m.seen + T < now)

/-- `dropStaleUnknownMembers`: hearsay about a member we do not have, stale by the sender's
own record, is ignored; the sender itself and our own address are exempt. -/
def dropStale (n : Node) (now sender : Nat) (view : List Mem) : List Mem :=
  view.filter fun v => v.addr = n.self.addr || v.addr = sender || has n.mem v.id || !stale n.T now v

/-- `dropSupersededIncarnations`: one incarnation per address — ours at our own address,
otherwise the newest. -/
def supersede (self : Mem) (ms : List Mem) : List Mem :=
  ms.filter fun m =>
    if m.addr = self.addr ∧ has ms self.id then m.id = self.id
    else !ms.any (fun o => o.addr = m.addr ∧ o.ts > m.ts)

/-- `handleGossip`. -/
def handleGossip (n : Node) (now sender : Nat) (view : List Mem) : Node :=
  let ms1 := match byAddrNewest n.mem sender with
    | some t => refresh n.mem t.id now
    | none => n.mem
  let v := dropStale { n with mem := ms1 } now sender view
  let ms2 := supersede n.self (mergeView ms1 v)
  -- the sender may have been (re-)adopted by this very merge, carrying its own idea of LastSeen
  let ms3 := match byAddrNewest ms2 sender with
    | some t => refresh ms2 t.id now
    | none => ms2
  { n with mem := ms3 }

/-- `runFailureDetection` with `SuspectConfirmDuration = 0`. -/
def fdTick (n : Node) (now : Nat) : Node :=
  { n with mem := n.mem.filter fun m => m.addr = n.self.addr || !stale n.T now m }

/-- `runFailureDetection` with a confirmation period `D` (`SuspectConfirmDuration`): a member not
seen for more than `T + D` is removed; one that is Up and not seen for more than `T` becomes
Suspect (only when `D > 0`). -/
def fdTickD (n : Node) (D now : Nat) : Node :=
  { n with mem := (n.mem.filter fun m => m.addr = n.self.addr || !decide (m.seen + n.T + D < now)).map fun m =>
      if m.addr ≠ n.self.addr ∧ m.st = .up ∧ m.seen + n.T < now ∧ 0 < D then { m with st := .suspect } else m }

def dedup : List Nat → List Nat
  | [] => []
  | x :: t => x :: (dedup t).filter (· ≠ x)

/-- Targets of a periodic round (`SelectTargets`, fan-out not exceeded): seeds and members, not
ourselves.  After the repair every target is sent to. -/
def targets (n : Node) : List Nat :=
  dedup ((n.seeds ++ n.mem.map (·.addr)).filter (· ≠ n.self.addr))

/-- `bootstrapAsSeed`. -/
def bootstrap (n : Node) : Node :=
  let s := { n.self with st := .up }
  { n with self := s, mem := addMember n.mem s }

/-- `handleJoinRequest` at the seed (checks that apply in this configuration: the joiner's
status must be Joining). Returns the seed and the reply view. -/
def acceptJoin (s : Node) (j : Mem) : Node × Option (List Mem) :=
  if j.st ≠ .joining then (s, none)
  else
    let ms := supersede s.self (addMember s.mem { j with st := .up })
    ({ s with mem := ms }, some ms)

/-- The joiner's part of `tryJoinSeeds` after a reply. -/
def applyJoin (n : Node) (now : Nat) (resp : List Mem) : Node :=
  let s := { n.self with st := .up }
  let ms := supersede s (mergeView (addMember n.mem s) resp)
  match ms.find? (·.id = s.id) with
  | some prev =>
    if prev.gen ≥ s.gen then
      let s2 := { s with gen := prev.gen + 1, ts := now, clock := if prev.clock ≠ 0 then prev.clock + 1 else 1 }
      { n with self := s2, mem := addMember ms s2 }
    else { n with self := s, mem := ms }
  | none => { n with self := s, mem := ms }

/-- `ComputeLeaderAddr`: the smallest address among the Up members. -/
def leader (ms : List Mem) : Option Nat :=
  ((ms.filter (·.st = .up)).map (·.addr)).foldl
    (fun acc a => match acc with | none => some a | some b => some (min a b)) none

end Vivid.Gossip
