import Vivid.Model.Codec

/-
M5 — remoting frames (`internal/remoting/tcp_connection.go onReadConn`,
`internal/remoting/mailbox.go encodeEnvelopWithLength`).

Sender: 4-byte big-endian length + payload, handed to `Write` whole.  Receiver (repaired: reads
straight from the connection with `io.ReadFull`): read 4 bytes, interpret, read the payload,
hand it over, re-arm.  `io.ReadFull` reads exactly `n` bytes across however many `Read` chunks
the transport delivers (`readFull` below is that contract over an explicit chunk list).
-/
namespace Vivid.Framing
open Vivid.Codec

def limit : Nat := 4 * 1024 * 1024

def frame (p : Bytes) : Bytes := be 4 p.length ++ p

inductive Ev where
  | deliver (p : Bytes)     -- a complete payload handed to the decoder
  | closeFrame              -- zero-length frame: peer closed
  | invalidLength (n : Nat) -- length above the limit: logged, reading continues right after the 4 bytes
  | eofClean                -- stream ended on a frame boundary
  | eofMid                  -- stream ended inside a length prefix or a payload: connection killed
  deriving DecidableEq, Repr

/-- The receiver over the byte stream that `io.ReadFull` presents. `fuel` bounds the number of
frames (the stream length suffices). -/
def rx : Nat → Bytes → List Ev
  | 0, _ => []
  | fuel + 1, bs =>
    if bs.length = 0 then [.eofClean]
    else if bs.length < 4 then [.eofMid]
    else
      let n := unbe (bs.take 4) 0
      let r := bs.drop 4
      if n = 0 then [.closeFrame]
      else if n > limit then .invalidLength n :: rx fuel r
      else if r.length < n then [.eofMid]
      else .deliver (r.take n) :: rx fuel (r.drop n)

/-- `io.ReadFull(conn, buf[:n])` over the chunks the transport delivers: `none` = the stream
ended first. -/
def readFull : Nat → List Bytes → Nat → Option (Bytes × List Bytes)
  | 0, _, _ => none
  | _ + 1, cs, 0 => some ([], cs)
  | _ + 1, [], _ + 1 => none
  | f + 1, [] :: cs, n + 1 => readFull f cs (n + 1)
  | f + 1, (b :: t) :: cs, n + 1 =>
    match readFull f (t :: cs) n with
    | some (bs, r) => some (b :: bs, r)
    | none => none

def delivered : List Ev → List Bytes
  | [] => []
  | .deliver p :: t => p :: delivered t
  | _ :: t => delivered t

end Vivid.Framing
