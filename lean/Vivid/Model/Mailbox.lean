/-
M2 — `internal/mailbox/unbounded_mailbox.go` as a transition system with an unbounded number
of anonymous threads, counter-abstracted: `c p` = number of threads whose next atomic action
is the one at program point `p`.

One step = one atomic action of the Go code (an atomic load/store/CAS/add, a queue Push/Pop
— atomic because they run under the ring's mutex —, a `go` statement, or the entry/exit of
the handler).  Queues are abstracted to their lengths here (`uq`, `sq`); message identity
and order are the business of M1/C02.

`fixed` selects the re-arm decision of `process()`:
  * `false` — the code as found:   `user > 0 || system > 0`
  * `true`  — repaired:            `system > 0 || (user > 0 && paused == 0)`
-/
namespace Vivid.Mailbox

inductive Pc where
  -- external threads
  | eU0 | eU1        -- Enqueue(user):   before Push / before AddInt32(num)
  | eS0 | eS1        -- Enqueue(system): before Push / before AddInt32(systemNum)
  | eC | eGo         -- before CAS(status) / before `go m.process()`
  | pz0              -- Pause(): before Store(paused,1)
  | r0 | r1 | rGo    -- Resume(): before CAS(paused) / before CAS(status) / before `go`
  -- the processing goroutine
  | cStart           -- before systemBuffer.Pop()
  | cDecS | cHndS    -- before AddInt32(systemNum,-1) / before the handler call (system)
  | cLoadP           -- before Load(paused)
  | cPopU            -- before buffer.Pop()
  | cDecU | cHndU    -- before AddInt32(num,-1) / before the handler call (user)
  | cStore           -- before Store(status, idle)
  | cLoadN           -- before Load(num)
  | cLoadSyT | cLoadSyF  -- before Load(systemNum), having seen user>0 / user<=0
  | cLoadPz          -- (repaired variant only) before Load(paused) in the re-arm decision
  | cReCas           -- before the re-arm CAS(status)
  -- inside a handler (the processing goroutine calling its own mailbox)
  | H                -- in the handler, before its next own-mailbox call or its return
  | hU1 | hS1        -- nested Enqueue: pushed, before the counter increment
  | hC | hSpawn      -- nested Enqueue/Resume: before CAS(status) / before `go`
  | hR1 | hRSpawn    -- nested Resume: won CAS(paused), before CAS(status) / before `go`
  deriving DecidableEq, Repr

structure St where
  uq : Nat          -- user queue length
  sq : Nat          -- system queue length
  num : Int         -- the `num` counter (may be transiently negative)
  sys : Int         -- the `systemNum` counter
  proc : Bool       -- status == processing
  paused : Bool
  accU : Nat        -- user messages accepted (pushed) so far
  accS : Nat
  hndU : Nat        -- user messages handed to the handler so far
  hndS : Nat
  c : Pc → Nat

def inc (c : Pc → Nat) (p : Pc) : Pc → Nat := fun q => if q = p then c q + 1 else c q
def dec (c : Pc → Nat) (p : Pc) : Pc → Nat := fun q => if q = p then c q - 1 else c q
def mv (c : Pc → Nat) (p q : Pc) : Pc → Nat := inc (dec c p) q

def init : St :=
  { uq := 0, sq := 0, num := 0, sys := 0, proc := false, paused := false,
    accU := 0, accS := 0, hndU := 0, hndS := 0, c := fun _ => 0 }

inductive Label where
  -- environment: a new call starts
  | newEnqU | newEnqS | newPause | newResume
  -- Enqueue
  | uPush | uInc | sPush | sInc | pCasWin | pCasLose | pGo
  -- Pause / Resume
  | pause | rCasPWin | rCasPLose | rCasSWin | rCasSLose | rGo
  -- processHandle
  | popSSome | popSNone | decS | hndS | loadPPaused | loadPRun | popUSome | popUNone | decU | hndU | hEnd
  -- process (re-arm)
  | store | loadNPos | loadNNon | loadSyTPos | loadSyTNon | loadSyFPos | loadSyFNon
  | loadPzRun | loadPzPaused | reWin | reLose
  -- nested calls from inside a handler
  | hUPush | hUInc | hSPush | hSInc | hCasWin | hCasLose | hSpawnGo
  | hPause | hRCasPWin | hRCasPLose | hRCasSWin | hRCasSLose | hRSpawnGo
  deriving DecidableEq, Repr

open Pc in
/-- `fire fixed l s` = the state after label `l`, or `none` when `l` is not enabled in `s`. -/
def fire (fixed : Bool) (l : Label) (s : St) : Option St :=
  match l with
  | .newEnqU => some { s with c := inc s.c eU0 }
  | .newEnqS => some { s with c := inc s.c eS0 }
  | .newPause => some { s with c := inc s.c pz0 }
  | .newResume => some { s with c := inc s.c r0 }
  | .uPush => if 0 < s.c eU0 then some { s with c := mv s.c eU0 eU1, uq := s.uq + 1, accU := s.accU + 1 } else none
  | .uInc => if 0 < s.c eU1 then some { s with c := mv s.c eU1 eC, num := s.num + 1 } else none
  | .sPush => if 0 < s.c eS0 then some { s with c := mv s.c eS0 eS1, sq := s.sq + 1, accS := s.accS + 1 } else none
  | .sInc => if 0 < s.c eS1 then some { s with c := mv s.c eS1 eC, sys := s.sys + 1 } else none
  | .pCasWin => if 0 < s.c eC ∧ s.proc = false then some { s with c := mv s.c eC eGo, proc := true } else none
  | .pCasLose => if 0 < s.c eC ∧ s.proc = true then some { s with c := dec s.c eC } else none
  | .pGo => if 0 < s.c eGo then some { s with c := mv s.c eGo cStart } else none
  | .pause => if 0 < s.c pz0 then some { s with c := dec s.c pz0, paused := true } else none
  | .rCasPWin => if 0 < s.c r0 ∧ s.paused = true then some { s with c := mv s.c r0 r1, paused := false } else none
  | .rCasPLose => if 0 < s.c r0 ∧ s.paused = false then some { s with c := dec s.c r0 } else none
  | .rCasSWin => if 0 < s.c r1 ∧ s.proc = false then some { s with c := mv s.c r1 rGo, proc := true } else none
  | .rCasSLose => if 0 < s.c r1 ∧ s.proc = true then some { s with c := dec s.c r1 } else none
  | .rGo => if 0 < s.c rGo then some { s with c := mv s.c rGo cStart } else none
  | .popSSome => if 0 < s.c cStart ∧ 0 < s.sq then some { s with c := mv s.c cStart cDecS, sq := s.sq - 1 } else none
  | .popSNone => if 0 < s.c cStart ∧ s.sq = 0 then some { s with c := mv s.c cStart cLoadP } else none
  | .decS => if 0 < s.c cDecS then some { s with c := mv s.c cDecS cHndS, sys := s.sys - 1 } else none
  | .hndS => if 0 < s.c cHndS then some { s with c := mv s.c cHndS H, hndS := s.hndS + 1 } else none
  | .loadPPaused => if 0 < s.c cLoadP ∧ s.paused = true then some { s with c := mv s.c cLoadP cStore } else none
  | .loadPRun => if 0 < s.c cLoadP ∧ s.paused = false then some { s with c := mv s.c cLoadP cPopU } else none
  | .popUSome => if 0 < s.c cPopU ∧ 0 < s.uq then some { s with c := mv s.c cPopU cDecU, uq := s.uq - 1 } else none
  | .popUNone => if 0 < s.c cPopU ∧ s.uq = 0 then some { s with c := mv s.c cPopU cStore } else none
  | .decU => if 0 < s.c cDecU then some { s with c := mv s.c cDecU cHndU, num := s.num - 1 } else none
  | .hndU => if 0 < s.c cHndU then some { s with c := mv s.c cHndU H, hndU := s.hndU + 1 } else none
  | .hEnd => if 0 < s.c H then some { s with c := mv s.c H cStart } else none
  | .store => if 0 < s.c cStore then some { s with c := mv s.c cStore cLoadN, proc := false } else none
  | .loadNPos => if 0 < s.c cLoadN ∧ 0 < s.num then some { s with c := mv s.c cLoadN cLoadSyT } else none
  | .loadNNon => if 0 < s.c cLoadN ∧ s.num ≤ 0 then some { s with c := mv s.c cLoadN cLoadSyF } else none
  | .loadSyTPos => if 0 < s.c cLoadSyT ∧ 0 < s.sys then some { s with c := mv s.c cLoadSyT cReCas } else none
  | .loadSyTNon => if 0 < s.c cLoadSyT ∧ s.sys ≤ 0 then
      some { s with c := mv s.c cLoadSyT (if fixed then cLoadPz else cReCas) } else none
  | .loadSyFPos => if 0 < s.c cLoadSyF ∧ 0 < s.sys then some { s with c := mv s.c cLoadSyF cReCas } else none
  | .loadSyFNon => if 0 < s.c cLoadSyF ∧ s.sys ≤ 0 then some { s with c := dec s.c cLoadSyF } else none
  | .loadPzRun => if 0 < s.c cLoadPz ∧ s.paused = false then some { s with c := mv s.c cLoadPz cReCas } else none
  | .loadPzPaused => if 0 < s.c cLoadPz ∧ s.paused = true then some { s with c := dec s.c cLoadPz } else none
  | .reWin => if 0 < s.c cReCas ∧ s.proc = false then some { s with c := mv s.c cReCas cStart, proc := true } else none
  | .reLose => if 0 < s.c cReCas ∧ s.proc = true then some { s with c := dec s.c cReCas } else none
  | .hUPush => if 0 < s.c H then some { s with c := mv s.c H hU1, uq := s.uq + 1, accU := s.accU + 1 } else none
  | .hUInc => if 0 < s.c hU1 then some { s with c := mv s.c hU1 hC, num := s.num + 1 } else none
  | .hSPush => if 0 < s.c H then some { s with c := mv s.c H hS1, sq := s.sq + 1, accS := s.accS + 1 } else none
  | .hSInc => if 0 < s.c hS1 then some { s with c := mv s.c hS1 hC, sys := s.sys + 1 } else none
  | .hCasWin => if 0 < s.c hC ∧ s.proc = false then some { s with c := mv s.c hC hSpawn, proc := true } else none
  | .hCasLose => if 0 < s.c hC ∧ s.proc = true then some { s with c := mv s.c hC H } else none
  | .hSpawnGo => if 0 < s.c hSpawn then some { s with c := inc (mv s.c hSpawn H) cStart } else none
  | .hPause => if 0 < s.c H then some { s with paused := true } else none
  | .hRCasPWin => if 0 < s.c H ∧ s.paused = true then some { s with c := mv s.c H hR1, paused := false } else none
  | .hRCasPLose => if 0 < s.c H ∧ s.paused = false then some s else none
  | .hRCasSWin => if 0 < s.c hR1 ∧ s.proc = false then some { s with c := mv s.c hR1 hRSpawn, proc := true } else none
  | .hRCasSLose => if 0 < s.c hR1 ∧ s.proc = true then some { s with c := mv s.c hR1 H } else none
  | .hRSpawnGo => if 0 < s.c hRSpawn then some { s with c := inc (mv s.c hRSpawn H) cStart } else none

/-- Reachable states: any number of calls, any interleaving of their atomic actions. -/
inductive Reach (fixed : Bool) : St → Prop where
  | init : Reach fixed init
  | step {s s' : St} (l : Label) : Reach fixed s → fire fixed l s = some s' → Reach fixed s'

/-- Threads holding the "processing" token: between a successful CAS on `status` and the
next `Store(status, idle)`. -/
def holders (s : St) : Nat :=
  s.c .eGo + s.c .rGo + s.c .hSpawn + s.c .hRSpawn + s.c .cStart + s.c .cDecS + s.c .cHndS + s.c .cLoadP
    + s.c .cPopU + s.c .cDecU + s.c .cHndU + s.c .cStore + s.c .H + s.c .hU1 + s.c .hS1 + s.c .hC + s.c .hR1

/-- Handler invocations in progress. -/
def inHandler (s : St) : Nat :=
  s.c .H + s.c .hU1 + s.c .hS1 + s.c .hC + s.c .hR1 + s.c .hSpawn + s.c .hRSpawn

/-- No thread of any kind is left: every call has returned and no processing goroutine runs. -/
def Quiescent (s : St) : Prop := ∀ p, s.c p = 0

end Vivid.Mailbox
