import Vivid.Model.VersionVector

/-
M8 — `internal/cluster/{cluster_view,node_status,quorum}.go`.
`Members` is the Go `map[string]*NodeState` as an association list with distinct keys.
`now`-dependence of the clock-skew rule is the explicit parameter `skip`.
-/
namespace Vivid.View
open Vivid.VV

structure NodeState where
  id : String
  gen : Int
  lc : Nat
  ts : Int
  status : Nat      -- MemberStatus: 0 joining, 1 up, 2 suspect, ...
  addr : String
  deriving DecidableEq, Repr

abbrev Members := List (String × NodeState)

def lookup : Members → String → Option NodeState
  | [], _ => none
  | (k, s) :: t, i => if k = i then some s else lookup t i

def setM : Members → String → NodeState → Members
  | [], i, s => [(i, s)]
  | (k, s0) :: t, i, s => if k = i then (k, s) :: t else (k, s0) :: setM t i s

def eraseM : Members → String → Members
  | [], _ => []
  | (k, s0) :: t, i => if k = i then t else (k, s0) :: eraseM t i

def mkeys (m : Members) : List String := m.map (·.1)

/-- `n.IsNewerThan(other)` for a non-nil `other`. -/
def newer (n o : NodeState) : Bool :=
  if n.gen ≠ o.gen then decide (n.gen > o.gen)
  else if n.id = o.id ∧ n.lc ≠ 0 ∧ o.lc ≠ 0 then decide (n.lc > o.lc)
  else decide (n.ts > o.ts)

structure View where
  members : Members
  epoch : Int
  timestamp : Int
  vv : VV
  protocol : Nat
  maxVV : Int
  healthy : Nat
  unhealthy : Nat
  quorum : Nat

def empty : View :=
  { members := [], epoch := 0, timestamp := 0, vv := [], protocol := 1, maxVV := 0,
    healthy := 0, unhealthy := 0, quorum := 0 }

def recompute (v : View) : View :=
  let h := (v.members.filter (fun e => e.2.status = 1)).length
  let u := v.members.length - h
  let q := if h > 0 then h / 2 + 1 else 0
  -- the cap bounds what departed nodes leave behind; it is never applied below the member count
  -- (repaired: a configured cap smaller than the membership used to drop live members' entries)
  let lim : Nat := max (if v.maxVV ≤ 0 then VV.maxEntries else v.maxVV.toNat) v.members.length
  let vv := if v.members.length > 0 then pruneWithMax v.vv (mkeys v.members) (Int.ofNat lim) else v.vv
  { v with healthy := h, unhealthy := u, quorum := q, vv := vv }

def addMember (v : View) (m : NodeState) : View :=
  match lookup v.members m.id with
  | some ex => if newer m ex then recompute { v with members := setM v.members m.id m } else v
  | none => recompute { v with members := setM v.members m.id m }

def removeMember (v : View) (i : String) : View :=
  match lookup v.members i with
  | some _ => recompute { v with members := eraseM v.members i }
  | none => v

def incrementVersion (v : View) (i : String) : View :=
  if i = "" then v
  else match increment v.vv i with
    | .ok vv => { v with vv := vv }
    | .error _ => v

/-- The member loop of `MergeFromWithOptions`. -/
def mergeMembers : Members → Members → Bool → Members × Bool
  | m, [], ch => (m, ch)
  | m, (i, os) :: t, ch =>
    match lookup m i with
    | none => mergeMembers (setM m i os) t true
    | some ex => if newer os ex then mergeMembers (setM m i os) t true else mergeMembers m t ch

structure MergeOpts where
  skip : Bool        -- MaxClockSkew > 0 and |now - other.Timestamp| exceeds it
  strategy : Nat     -- 0 TakeMax, 1 PreferLocal, 2 PreferRemote

def mergeFrom (v other : View) (o : MergeOpts) : View × Bool :=
  if other.members.length = 0 then (v, false)
  else
    let concurrent := decide (VV.compare v.vv other.vv = .concurrent)
    let r := mergeMembers v.members other.members false
    let v1 := recompute { v with members := r.1 }
    let merged := VV.merge v1.vv other.vv
    let adopt := !o.skip && !(concurrent && o.strategy = 1)
    let upE := adopt && decide (other.epoch > v.epoch)
    let upT := adopt && decide (other.timestamp > v.timestamp)
    let upP := decide (other.protocol > v.protocol)
    ({ v1 with
        vv := merged,
        epoch := if upE then other.epoch else v.epoch,
        timestamp := if upT then other.timestamp else v.timestamp,
        protocol := if upP then other.protocol else v.protocol },
      r.2 || decide (VV.compare merged v1.vv ≠ .equal) || upE || upT || upP)

def minStr : List String → Option String
  | [] => none
  | x :: t => match minStr t with
    | none => some x
    | some y => if x ≤ y then some x else some y

/-- `ComputeLeaderAddr`: smallest address among Up members with a non-empty address ("" if none). -/
def leaderAddr (v : View) : String :=
  match minStr ((v.members.filter (fun e => e.2.status = 1 && e.2.addr ≠ "")).map (·.2.addr)) with
  | some a => a
  | none => ""

/-- What the property is about: member ↦ (generation, logical clock). -/
def obs (v : View) (i : String) : Option (Int × Nat) :=
  (lookup v.members i).map (fun s => (s.gen, s.lc))

end Vivid.View
