/-! M13 — lockset discipline for the shared fields of the actor core (C10).

`Acc` is one row of the access table that `vh access` regenerates from the Go source on every
run (`Vivid.Generated.AccessTable`): a read or write of a struct field, the locks held at that
program point (exclusive or shared), whether it is a `sync/atomic` operation, and the role of
the goroutine that can execute it.  `raceFree` is the decidable discipline; `Lockset` below is
the execution model that gives it its meaning (`Props/C10.lean`). -/
namespace Vivid.Access

inductive Role | any | owner | init | lifecycle
  deriving Repr, DecidableEq

structure Acc where
  field : Nat
  write : Bool
  atomic : Bool
  locks : List (Nat × Bool)     -- (lock id, exclusive?)
  role : Role
  site : Nat
  deriving Repr, DecidableEq

/-- Can two accesses be executed by two different goroutines at the same time?  `owner` accesses
of one actor are serialised by its mailbox token (C01: at most one handler at a time);
construction happens before the object is shared; Start/Stop are outside the API list of C10. -/
def concurrent (a b : Acc) : Bool :=
  match a.role, b.role with
  | .any, .any => true
  | .any, .owner => true
  | .owner, .any => true
  | _, _ => false

def conflict (a b : Acc) : Bool :=
  a.field == b.field && (a.write || b.write) && !(a.atomic && b.atomic) && concurrent a b

/-- A common lock, held exclusively by at least one side. -/
def protectedBy (a b : Acc) : Bool :=
  a.locks.any fun l => b.locks.any fun m => l.1 == m.1 && (l.2 || m.2)

def okPair (a b : Acc) : Bool := !conflict a b || protectedBy a b

def raceFree (t : List Acc) : Bool := t.all fun a => t.all fun b => okPair a b

/-- The unprotected conflicting pairs (for the report when `raceFree` fails). -/
def violations (t : List Acc) : List (Acc × Acc) :=
  t.flatMap fun a => (t.filter fun b => !okPair a b).map fun b => (a, b)

/-! ## Execution model: threads acquiring and releasing reader/writer locks -/

abbrev Held := Nat → List (Nat × Bool)

/-- `acq t l x` is enabled when no other thread holds `l` incompatibly. -/
def canAcq (h : Held) (t l : Nat) (x : Bool) : Prop :=
  ∀ u, u ≠ t → ∀ m ∈ h u, m.1 = l → x = false ∧ m.2 = false

inductive Step : Held → Held → Prop
  | acq (h : Held) (t l : Nat) (x : Bool) (en : canAcq h t l x) :
      Step h (fun u => if u = t then (l, x) :: h u else h u)
  | rel (h : Held) (t l : Nat) :
      Step h (fun u => if u = t then (h u).filter (fun m => m.1 ≠ l) else h u)

inductive Reach : Held → Prop
  | init : Reach (fun _ => [])
  | step {h h'} : Reach h → Step h h' → Reach h'

/-- Mutual exclusion of incompatible holders. -/
def LockInv (h : Held) : Prop :=
  ∀ t u, t ≠ u → ∀ l ∈ h t, ∀ m ∈ h u, l.1 = m.1 → l.2 = false ∧ m.2 = false

end Vivid.Access
