/-
M7 — version vectors (`internal/cluster/version_vector.go`).

A Go `map[string]uint64` is modelled as an association list with pairwise distinct keys
(`WF`).  Iteration order of the Go map is arbitrary; the model iterates in list order and
the theorems in `Proofs/VersionVector.lean` show every result is a function of `get`
only, hence independent of that order.  Counters are `Nat`; Go's `uint64` range is the
explicit hypothesis `InRange` where it matters (only `increment`, which guards at
`maxCounter`).
-/
namespace Vivid.VV

abbrev Node := String
abbrev VV := List (Node × Nat)

inductive Order where
  | equal | before | after | concurrent
  deriving DecidableEq, Repr

def maxCounter : Nat := 2^63 - 1
def maxEntries : Nat := 65535
def maxNodeLen : Nat := 256

/-- `v.m[k]` (0 when absent). -/
def get : VV → Node → Nat
  | [], _ => 0
  | (k', c) :: t, k => if k' = k then c else get t k

/-- `_, ok := v.m[k]`. -/
def has : VV → Node → Bool
  | [], _ => false
  | (k', _) :: t, k => if k' = k then true else has t k

/-- `v.m[k] = c` (replace in place, or append a new key). -/
def set : VV → Node → Nat → VV
  | [], k, c => [(k, c)]
  | (k', c') :: t, k, c => if k' = k then (k', c) :: t else (k', c') :: set t k c

def keys (v : VV) : List Node := v.map (·.1)

def WF (v : VV) : Prop := (keys v).Nodup

/-- First loop of `Compare`: over `v`'s entries, with the early return. `none` = returned
`VersionConcurrent` from inside the loop. -/
def cmpPass1 (other : VV) : VV → Bool → Bool → Option (Bool × Bool)
  | [], l, g => some (l, g)
  | (k, va) :: t, l, g =>
    let vb := get other k
    let l' := if va < vb then true else l
    let g' := if va < vb then g else (if va > vb then true else g)
    if l' && g' then none else cmpPass1 other t l' g'

/-- Second loop of `Compare`: over `other`'s entries not in `v`. -/
def cmpPass2 (v : VV) : VV → Bool → Bool → Option (Bool × Bool)
  | [], l, g => some (l, g)
  | (k, vb) :: t, l, g =>
    if has v k then cmpPass2 v t l g
    else
      let l' := if 0 < vb then true else l
      if l' && g then none else cmpPass2 v t l' g

def compare (v other : VV) : Order :=
  if v.length = 0 ∧ other.length = 0 then .equal
  else match cmpPass1 other v false false with
    | none => .concurrent
    | some (l, g) =>
      match cmpPass2 v other l g with
      | none => .concurrent
      | some (l, g) =>
        if l && !g then .before
        else if !l && g then .after
        else if !l && !g then .equal
        else .concurrent

/-- Second loop of `Merge`. -/
def mergeInto : VV → VV → VV
  | out, [] => out
  | out, (k, oc) :: t =>
    if !(has out k) || oc > get out k then mergeInto (set out k oc) t
    else mergeInto out t

def merge (v other : VV) : VV :=
  if other.length = 0 then v
  else if v.length = 0 then other
  else mergeInto v other

inductive IncErr where
  | invalidAddr | overflow
  deriving DecidableEq, Repr

def validAddr (n : Node) : Bool := n.utf8ByteSize ≠ 0 && n.utf8ByteSize ≤ maxNodeLen

def increment (v : VV) (n : Node) : Except IncErr VV :=
  if !validAddr n then .error .invalidAddr
  else if get v n ≥ maxCounter then .error .overflow
  else .ok (set v n (get v n + 1))

def compact (v : VV) : VV := v.filter (fun e => e.2 > 0)

/-- `PruneWithMax`: `sortTake` stands for `sort.Strings` + truncation, applied only when the
active list exceeds the limit. -/
def insertSorted (x : Node) : List Node → List Node
  | [] => [x]
  | y :: t => if x ≤ y then x :: y :: t else y :: insertSorted x t

def sortNodes : List Node → List Node
  | [] => []
  | x :: t => insertSorted x (sortNodes t)

def pruneWithMax (v : VV) (active : List Node) (maxE : Int) : VV :=
  if v.length = 0 ∨ active.length = 0 then []
  else
    let limit : Nat := if maxE ≤ 0 then maxEntries else maxE.toNat
    let act := if active.length > limit then (sortNodes active).take limit else active
    v.filter (fun e => act.contains e.1)

def prune (v : VV) (active : List Node) : VV := pruneWithMax v active 0

/-- The extensional order `Compare` is meant to decide. -/
def leq (a b : VV) : Prop := ∀ k, get a k ≤ get b k

end Vivid.VV
