/-
M1 — `internal/queues/ring.go`: ring buffer with in-place growth (doubling copy).

Items are `Nat` ids; a Go `nil` slot is `none`. `int64` indices are `Nat` (overflow would
need 2^62 queued items — stated assumption). `New(0)` is the one input the Go code cannot
handle (`% 0` panics on the first Push); `push?` makes that explicit and every theorem is
stated under `0 < mod`, which the only call site satisfies (`Generated.ringInitialSize`).
-/
namespace Vivid.Ring

structure Ring where
  buf : Array (Option Nat)
  head : Nat
  tail : Nat
  mod : Nat
  len : Nat

/-- `c.buffer[i]` (`none` also stands for an out-of-range read, excluded by `Inv`). -/
def rd (b : Array (Option Nat)) (i : Nat) : Option Nat :=
  match b[i]? with
  | some x => x
  | none => none

def new (n : Nat) : Ring :=
  { buf := Array.replicate n none, head := 0, tail := 0, mod := n, len := 0 }

/-- The doubled buffer: `newBuff[i] = c.buffer[(c.tail + i) % c.mod]` for `i < mod`, `nil` above. -/
def grown (b : Array (Option Nat)) (tail1 m : Nat) : Array (Option Nat) :=
  (Array.range (2 * m)).map (fun i => if i < m then rd b ((tail1 + i) % m) else none)

def push (r : Ring) (x : Nat) : Ring :=
  let tail1 := (r.tail + 1) % r.mod
  if tail1 = r.head then
    { buf := (grown r.buf tail1 r.mod).setIfInBounds r.mod (some x),
      head := 0, tail := r.mod, mod := 2 * r.mod, len := r.len + 1 }
  else
    { r with tail := tail1, buf := r.buf.setIfInBounds tail1 (some x), len := r.len + 1 }

/-- `Push` as the Go code behaves: `none` is the divide-by-zero panic of `New(0)`. -/
def push? (r : Ring) (x : Nat) : Option Ring :=
  if r.mod = 0 then none else some (push r x)

def pop (r : Ring) : Ring × Option (Option Nat) :=
  if r.len = 0 then (r, none)
  else
    let h := (r.head + 1) % r.mod
    ({ r with head := h, buf := r.buf.setIfInBounds h none, len := r.len - 1 }, some (rd r.buf h))

def clearRange (b : Array (Option Nat)) (head m : Nat) : Nat → Array (Option Nat)
  | 0 => b
  | n + 1 => (clearRange b head m n).setIfInBounds ((head + 1 + n) % m) none

def popMany (r : Ring) (count : Nat) : Ring × Option (List (Option Nat)) :=
  if r.len = 0 then (r, none)
  else
    let c := if count ≥ r.len then r.len else count
    let items := (List.range c).map (fun i => rd r.buf ((r.head + 1 + i) % r.mod))
    ({ r with head := (r.head + c) % r.mod, buf := clearRange r.buf r.head r.mod c, len := r.len - c },
      some items)

end Vivid.Ring
