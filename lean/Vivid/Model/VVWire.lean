import Vivid.Model.Codec
import Vivid.Model.Messages

/-! Wire form of a version vector (`WriteVersionVector` / `ReadVersionVector`,
internal/cluster/version_vector.go): a u32 entry count (at most 65535), then per entry the node
address as a length-prefixed string (1..256 bytes) and the counter as a u64 (at most 2^63-1) —
the schema `vvTy` of the message codec.  Node addresses are byte strings here, as Go strings are. -/
namespace Vivid.VVWire
open Vivid.Codec

abbrev Entries := List (Bytes × Nat)

/-- The entries as a codec value. -/
def wireV : Entries → V
  | [] => .nil
  | e :: t => .cons (.pair (.bytes e.1) (.n e.2)) (wireV t)

/-- Back from a codec value (anything that is not a list of `(bytes, nat)` pairs is rejected). -/
def unwire : V → Option Entries
  | .nil => some []
  | .cons (.pair (.bytes nm) (.n c)) t => (unwire t).map (fun r => (nm, c) :: r)
  | _ => none

/-- `WriteVersionVector` on the (sorted) entries. -/
def encodeVV (es : Entries) : Option Bytes := enc vvTy (wireV es)

/-- `ReadVersionVector`: the entries in wire order, and the unread rest. -/
def decodeVV (bs : Bytes) : Res (Entries × Bytes) :=
  match dec vvTy bs with
  | .ok (v, r) =>
    match unwire v with
    | some es => .ok (es, r)
    | none => .err
  | .err => .err

/-- What a well-formed entry is on the wire: address of 1..256 bytes, counter at most 2^63-1. -/
def entryOK (e : Bytes × Nat) : Prop :=
  0 < e.1.length ∧ e.1.length ≤ 256 ∧ wellBytes e.1 = true ∧ e.2 ≤ 2 ^ 63 - 1

end Vivid.VVWire
