/-
M10 — the actor runtime at handler granularity
(`internal/actor/{context,killed_handler,supervision_context,system,ref}.go`, `internal/guard/actor.go`).

One step = one `HandleEnvelop` of one actor (the mailbox policy — system queue first, user
queue only when not paused, one handler at a time — is what C01/C02 justify), or one
operation issued from outside the actor system.  User code is a scripted rule table
(`Script`); the lock-step harness interprets the same table inside a real `vivid.ActorFN`.

`fixedLaunch` selects what `handleRestart` does with the post-restart `OnLaunch`:
`false` — enqueued to `ctx.parent` (the code as found), `true` — handled by the restarted actor
itself, synchronously at the end of the restart (the code as repaired).
-/
namespace Vivid.ActorSys

abbrev Cid := Nat
abbrev Path := String

inductive St where
  | running | killing | killed
  deriving DecidableEq, Repr

/-- How a message names its recipient. -/
inductive Target where
  | own (c : Cid)         -- the context's own `*Ref` object (mailbox cache set at spawn): reaches that context even when dead
  | path (p : Path)       -- a fresh `*Ref` (Clone / ParseRef / CreateRef): resolved through the registry at send time
  | refobj (r : Nat)      -- a long-lived parsed `*Ref` object: resolved on first hit, sticky afterwards
  | nobody                -- nil ref (root's parent)
  deriving DecidableEq, Repr

inductive Msg where
  | user (k : Nat)                       -- user payload `k` (selects the behaviour rule)
  | onLaunch
  | onKill (poison : Bool)
  | onKilled (who : Cid)
  | supervise (chain : List (Cid × List Cid)) (supChildren : List Cid)
      -- escalation chain, newest level first: (failed actor, targets recorded at that level)
  | cmdPause | cmdResume
  | restart (poison : Bool)
  | watch | unwatch
  | deadLetter (env : Nat) (isUser : Bool) (depth : Nat)   -- DeathLetterEvent for envelope id `env`
  | event (ty : Nat) (pid : Nat)         -- a stream event of type `ty`, publication number `pid`
  deriving DecidableEq, Repr

structure Env where
  id : Nat
  sys : Bool
  sender : Option Cid
  msg : Msg
  deriving DecidableEq, Repr

inductive Action where
  | tell (t : String) (k : Nat)            -- target spec: self parent sender c:<name> p:<path> r:<n>
  | spawn (name : String) (script : Nat) (kind : Nat) (decisions : List Nat) (hooks : Nat)
  | kill (t : String) (poison : Bool)
  | panic
  | stash
  | unstash (n : Nat)                      -- 0 = the no-argument fast path (one message)
  | watch (t : String) | unwatch (t : String)
  | become (script : Nat) | unbecome
  | sub (ty : Nat) | unsub (ty : Nat) | unsubAll | pub (ty : Nat)     -- event stream
  | sched (kind : Nat) (ref : String) (k : Nat)   -- Once (0) / Loop (1) with a reference
  | cancel (ref : String) | schedClear
  | cron (valid : Bool) (ref : String)
  deriving DecidableEq, Repr

/-- Trigger of a rule: 0 launch, 1 kill, 2 own killed, 3 other's killed, 100+k user payload k. -/
abbrev Rule := Nat × List Action
abbrev Script := List Rule

structure Ctx where
  path : Path
  name : String
  parent : Option Cid
  state : St
  zombie : Bool
  restarting : Option Bool           -- `some poison` while a restart is in progress
  children : List Cid                -- contexts in `c.children` (by the refs the parent holds)
  watchers : List Cid
  stash : List Env
  sysQ : List Env
  userQ : List Env
  paused : Bool
  inc : Nat                          -- incarnation (bumped by a completed restart)
  script : Nat                       -- the actor's own OnReceive script
  behaviors : List Nat               -- behaviour stack (top first)
  strat : Nat                        -- 0 = none (system default); else 1 one-for-one / 2 one-for-all, see `decisions`
  decisions : List Nat               -- cyclic decision list of this supervisor
  decIdx : Nat
  jobs : List (String × String)      -- scheduler: reference ↦ job key (`jobKeys`)
  hooks : Nat                        -- bit 0: provider; bit 1: OnPrelaunch fails on restart; bit 2: OnRestarted fails; bit 3: PreRestart panics, bit 5: PreRestart returns an error (both recorded, the restart goes on); bit 4: the first OnPrelaunch fails
  deriving Repr

structure Sys where
  n : Nat                             -- number of contexts ever created; root is 0
  ctx : Cid → Ctx
  registry : List (Path × Cid)
  refs : List (Nat × Path × Option Cid)   -- parsed ref objects: id ↦ (path, cache)
  nextEnv : Nat                       -- id of the next *user* message (system messages carry id 0)
  scripts : List (Nat × Script)
  fixedLaunch : Bool
  log : List String                  -- observable events of the last step (cleared by the driver)
  deadLetters : List Nat             -- envelope ids published as dead letters
  guardClosed : Bool
  jobTable : List (String × Cid)     -- the shared quartz queue: job key ↦ owner
  subs : List (Nat × Path × Cid)     -- event stream: (event type, subscriber path, subscriber's ref)
  nextPub : Nat

def blankCtx : Ctx :=
  { path := "", name := "", parent := none, state := .killed, zombie := false, restarting := none,
    children := [], watchers := [], stash := [], sysQ := [], userQ := [], paused := false, inc := 0,
    script := 0, behaviors := [], strat := 0, decisions := [], decIdx := 0, jobs := [], hooks := 0 }

def rootCtx : Ctx := { blankCtx with path := "/", state := .running }

def init (fixedLaunch : Bool) : Sys :=
  { n := 1, ctx := fun c => if c = 0 then rootCtx else blankCtx, registry := [], refs := [],
    nextEnv := 1, scripts := [], fixedLaunch := fixedLaunch, log := [], deadLetters := [], guardClosed := false, jobTable := [], subs := [], nextPub := 1 }

def upd (s : Sys) (c : Cid) (f : Ctx → Ctx) : Sys :=
  { s with ctx := fun x => if x = c then f (s.ctx c) else s.ctx x }

def say (s : Sys) (e : String) : Sys := { s with log := s.log ++ [e] }

def joinPath (parent : Path) (name : String) : Path :=
  if parent = "/" then "/" ++ name else parent ++ "/" ++ name

/-- `findMailbox`: which context's mailbox receives an envelope for this target. `none` is the
dead-letter mailbox (unknown local path); a nil ref goes to the root. -/
def resolve (s : Sys) : Target → Sys × Option Cid
  | .own c => (s, some c)
  | .nobody => (s, some 0)
  | .path p =>
    if p = "/" then (s, some 0)
    else match s.registry.lookup p with
      | some c => (s, some c)
      | none => (s, none)
  | .refobj r =>
    match s.refs.lookup r with
    | none => (s, some 0)
    | some (_, some c) => (s, some c)
    | some (p, none) =>
      if p = "/" then (s, some 0)
      else match s.registry.lookup p with
        | some c => ({ s with refs := (r, p, some c) :: s.refs.filter (fun e => e.1 ≠ r) }, some c)
        | none => (s, none)

def enqueue (s : Sys) (c : Cid) (e : Env) : Sys :=
  upd s c (fun x => if e.sys then { x with sysQ := x.sysQ ++ [e] } else { x with userQ := x.userQ ++ [e] })

/-- `system.TellSelf(DeathLetterEvent{envelope})`: a user message from the root to itself. -/
def deadLetter (s : Sys) (e : Env) : Sys :=
  let depth := match e.msg with | .deadLetter _ _ d => d + 1 | _ => 0
  let orig := match e.msg with | .deadLetter x _ _ => x | _ => e.id
  let isUser := match e.msg with | .deadLetter _ u _ => u | .user _ => true | _ => false
  enqueue s 0 { id := 0, sys := false, sender := some 0, msg := .deadLetter orig isUser depth }

/-- `Context.tell`. -/
def tell (s : Sys) (sys : Bool) (sender : Option Cid) (t : Target) (m : Msg) : Sys :=
  let (s1, c?) := resolve s t
  let (s2, e) : Sys × Env := match m with
    | .user _ => ({ s1 with nextEnv := s1.nextEnv + 1 }, { id := s1.nextEnv, sys := sys, sender := sender, msg := m })
    | _ => (s1, { id := 0, sys := sys, sender := sender, msg := m })
  match c? with
  | some c => enqueue s2 c e
  | none => deadLetter s2 e

def tellAll (s : Sys) (sys : Bool) (sender : Option Cid) (ts : List Cid) (m : Msg) : Sys :=
  ts.foldl (fun acc t => tell acc sys sender (.own t) m) s

/-- Target spec of a script, evaluated in the context of the current handler. -/
def evalTarget (s : Sys) (self : Cid) (cur : Env) (spec : String) : Target :=
  if spec = "self" then .own self
  else if spec = "parent" then (match (s.ctx self).parent with | some p => .own p | none => .nobody)
  else if spec = "sender" then (match cur.sender with | some c => .own c | none => .nobody)
  else if spec.startsWith "c:" then
    -- the ref the parent holds for that child (own ref of the child context)
    let nm := (spec.drop 2).toString
    match (s.ctx self).children.find? (fun c => (s.ctx c).name = nm) with
    | some c => .own c
    | none => .path (joinPath (s.ctx self).path nm)
  else if spec.startsWith "p:" then .path (spec.drop 2).toString
  else if spec.startsWith "r:" then
    match (spec.drop 2).toString.toNat? with
    | some r => .refobj r
    | none => .nobody
  else .nobody

def triggerOf : Msg → Nat → Cid → Option Nat
  | .onLaunch, _, _ => some 0
  | .onKill _, _, _ => some 1
  | .onKilled w, _, self => if w = self then some 2 else some 3
  | .user k, _, _ => some (100 + k)
  | .event ty _, _, _ => some (200 + ty)
  | _, _, _ => none

def ruleFor (sc : Script) (trig : Nat) : List Action :=
  match sc.lookup trig with
  | some a => a
  | none => []

/-- `Context.ActorOf` (also the body of `System.ActorOf` for the root). -/
def actorOf (s : Sys) (parent : Cid) (name : String) (script strat hooks : Nat) (decisions : List Nat) : Sys :=
  let p := s.ctx parent
  if p.state = .killed then say s s!"spawn-err:{name}:dead"
  else if hooks % 32 ≥ 16 then say s s!"spawn-err:{name}:prelaunch"       -- bit 4: OnPrelaunch fails at spawn
  else
    let path := joinPath p.path name
    match s.registry.lookup path with
    | some _ => say s s!"spawn-err:{name}:exists"
    | none =>
      let c := s.n
      let nc : Ctx := { blankCtx with path := path, name := name, parent := some parent, state := .running, script := script, behaviors := [script], strat := strat, decisions := decisions, hooks := hooks }
      let s1 := { s with n := s.n + 1, ctx := fun x => if x = c then nc else s.ctx x, registry := (path, c) :: s.registry }
      -- `c.children[path] = ref`: the map is keyed by path, a stale entry of a dead namesake is overwritten
      let s2 := upd s1 parent (fun x => { x with children := x.children.filter (fun k => (s.ctx k).path ≠ path) ++ [c] })
      let s3 := tell s2 true (some parent) (.own c) .onLaunch
      let s4 := say s3 s!"spawned:{c}:{path}"
      if p.state = .killing then tell s4 true (some parent) (.own c) (.onKill false) else s4

/-- `failed`: pause own mailbox, send the supervision context to the parent. -/
def failed (s : Sys) (self : Cid) : Sys :=
  let s1 := upd s self (fun x => { x with paused := true })
  let t : Target := match (s.ctx self).parent with | some p => .own p | none => .nobody
  say (tell s1 true (some self) t (.supervise [(self, [])] [])) s!"failed:{self}"

/-! Event-stream table operations (`internal/actor/event_stream.go`); each is one critical section. -/
abbrev Subs := List (Nat × Path × Cid)

def esSub (subs : Subs) (ty : Nat) (p : Path) (c : Cid) : Subs :=
  if subs.any (fun e => e.1 = ty ∧ e.2.1 = p) then subs else subs ++ [(ty, p, c)]
def esUnsub (subs : Subs) (ty : Nat) (p : Path) : Subs := subs.filter (fun e => !(e.1 = ty ∧ e.2.1 = p))
def esUnsubAll (subs : Subs) (p : Path) : Subs := subs.filter (fun e => e.2.1 ≠ p)
/-- The snapshot `Publish` takes: the refs subscribed to the type. -/
def esTargets (subs : Subs) (ty : Nat) : List Cid := (subs.filter (fun e => e.1 = ty)).map (fun e => e.2.2)

/-- `uniqueJobKey`: path + "#" + reference (`#` cannot occur in a path). -/
def jobKey (p : Path) (ref : String) : String := p ++ "#" ++ ref

/-- `scheduleJob`: the reference is recorded; go-quartz rejects a key that is already queued and
that error is discarded. -/
def schedule (s : Sys) (self : Cid) (ref : String) : Sys :=
  let key := jobKey (s.ctx self).path ref
  let s1 := upd s self (fun x => { x with jobs := (ref, key) :: x.jobs.filter (fun e => e.1 ≠ ref) })
  if s1.jobTable.any (fun e => e.1 = key) then s1 else { s1 with jobTable := s1.jobTable ++ [(key, self)] }

/-- `Scheduler.Clear`: delete every recorded job from the shared queue. -/
def clearJobs (s : Sys) (self : Cid) : Sys :=
  let keys := (s.ctx self).jobs.map (·.2)
  upd { s with jobTable := s.jobTable.filter (fun e => !keys.contains e.1) } self (fun x => { x with jobs := [] })

structure Run where
  s : Sys
  panicked : Bool

/-- Execute the actions of one behaviour invocation, stopping at the first `panic`. -/
def runActions (s : Sys) (self : Cid) (cur : Env) : List Action → Run
  | [] => { s := s, panicked := false }
  | a :: rest =>
    match a with
    | .panic => { s := s, panicked := true }
    | .tell t k =>
      runActions (tell s false (some self) (evalTarget s self cur t) (.user k)) self cur rest
    | .spawn name script kind decisions hooks =>
      runActions (actorOf s self name script kind hooks decisions) self cur rest
    | .kill t poison =>
      runActions (tell s (!poison) (some self) (evalTarget s self cur t) (.onKill poison)) self cur rest
    | .stash => runActions (upd s self (fun x => { x with stash := x.stash ++ [cur] })) self cur rest
    | .unstash n =>
      let st := (s.ctx self).stash
      let cnt := if n = 0 then min 1 st.length else min n st.length
      let s1 := (st.take cnt).foldl (fun acc e => enqueue acc self e) s
      runActions (upd s1 self (fun x => { x with stash := x.stash.drop cnt })) self cur rest
    | .watch t => runActions (tell s true (some self) (evalTarget s self cur t) .watch) self cur rest
    | .unwatch t => runActions (tell s true (some self) (evalTarget s self cur t) .unwatch) self cur rest
    | .become sc => runActions (upd s self (fun x => { x with behaviors := [sc] })) self cur rest
    | .unbecome => runActions (upd s self (fun x => { x with behaviors := [x.script] })) self cur rest
    | .sub ty =>
      -- keyed by (type, path): subscribing twice has no additional effect
      runActions { s with subs := esSub s.subs ty (s.ctx self).path self } self cur rest
    | .unsub ty =>
      runActions { s with subs := esUnsub s.subs ty (s.ctx self).path } self cur rest
    | .unsubAll =>
      runActions { s with subs := esUnsubAll s.subs (s.ctx self).path } self cur rest
    | .sched _ ref _ => runActions (schedule s self ref) self cur rest
    | .cron valid ref =>
      if valid then runActions (schedule s self ref) self cur rest
      else runActions (say s s!"cron-err:{self}") self cur rest     -- parse error: nothing recorded, nothing scheduled
    | .cancel ref =>
      match (s.ctx self).jobs.lookup ref with
      | none => runActions (say s s!"cancel:{self}:{ref}:notfound") self cur rest
      | some key =>
        let inTable := s.jobTable.any (fun e => e.1 = key)
        let s1 := upd { s with jobTable := s.jobTable.filter (fun e => e.1 ≠ key) } self (fun x => { x with jobs := x.jobs.filter (fun e => e.1 ≠ ref) })
        runActions (say s1 (if inTable then s!"cancel:{self}:{ref}:ok" else s!"cancel:{self}:{ref}:err")) self cur rest
    | .schedClear => runActions (clearJobs s self) self cur rest
    | .pub ty =>
      -- snapshot of the current subscribers of the type, then one tell each (from the root)
      let targets := esTargets s.subs ty
      let s1 := targets.foldl (fun acc t => tell acc false (some 0) (.own t) (.event ty s.nextPub)) { s with nextPub := s.nextPub + 1 }
      runActions s1 self cur rest

/-- Run the current behaviour (top of the stack; nothing for a zombie) on the current message. -/
def guardBehave (s : Sys) (viewMsg : Msg) : Sys :=
  match viewMsg with
  | .onKilled w => if w = 0 then { s with guardClosed := true } else s
  | .deadLetter e isUser _ =>
    say { s with deadLetters := if isUser then s.deadLetters ++ [e] else s.deadLetters }
      (if isUser then s!"dead-letter:{e}" else "dead-letter:sys")
  | _ => s

def behave (s : Sys) (self : Cid) (beh : Nat) (cur : Env) (viewMsg : Msg) : Run :=
  let c := s.ctx self
  if c.zombie then { s := s, panicked := false }
  else if self = 0 then { s := guardBehave s viewMsg, panicked := false }
  else
    match triggerOf viewMsg 0 self with
    | none => { s := s, panicked := false }
    | some trig =>
      let sc := (s.scripts.lookup beh).getD []
      let s1 := say s s!"seen:{self}:{c.inc}:{trig}"
      runActions s1 self cur (ruleFor sc trig)

/-- `executeBehaviorWithRecovery` for message `m` being handled. -/
def execRecover (s : Sys) (self : Cid) (beh : Nat) (cur : Env) (m : Msg) : Sys :=
  let r := behave s self beh cur m
  if r.panicked then
    match m with
    | .onKill _ => r.s
    | .onKilled w => if (r.s.ctx self).state ≠ .running ∨ w = self then r.s else failed r.s self
    | _ => failed r.s self
  else r.s

/-- `recoverExec` around the behaviour: a panic is swallowed. -/
def execSwallow (s : Sys) (self : Cid) (beh : Nat) (cur : Env) (m : Msg) : Sys := (behave s self beh cur m).s

def unregister (s : Sys) (p : Path) : Sys := { s with registry := s.registry.filter (fun e => e.1 ≠ p) }

/-- `cleanupIfNotRestarting`: release the path, notify watchers and parent. -/
def cleanup (s : Sys) (self : Cid) : Sys :=
  let c := s.ctx self
  -- `EventStream().UnsubscribeAll(ctx)`: by path
  let s0 := { s with subs := esUnsubAll s.subs c.path }
  let s1 := unregister s0 c.path
  let s2 := tellAll s1 true (some self) c.watchers (.onKilled self)
  let s3 := match c.parent with
    | some p => tell s2 true (some self) (.own p) (.onKilled self)
    | none => s2
  -- the mailbox is resumed so that mail queued behind a failure drains into dead letters
  upd (say s3 s!"killed-event:{self}") self (fun x => { x with paused := false })

/-- `handleRestart`. -/
def handleRestart (s : Sys) (self : Cid) : Sys :=
  let c := s.ctx self
  let s1 := upd s self (fun x => { x with behaviors := [x.script] })
  let restartedFails := c.hooks / 4 % 2 = 1
  let prelaunchFails := c.hooks / 2 % 2 = 1
  if restartedFails ∨ prelaunchFails then
    say (upd s1 self (fun x => { x with zombie := true, paused := false })) s!"zombie:{self}"
  else
    let s2 := upd s1 self (fun x => { x with restarting := none, state := .running, inc := x.inc + 1 })
    if s.fixedLaunch then
      -- repaired: the new incarnation's OnLaunch is handled right here, at the end of the restart,
      -- before anything that is already queued (it used to be enqueued behind the pending system mail)
      let s3 := say (upd s2 self (fun x => { x with paused := false })) s!"restarted:{self}"
      execRecover s3 self c.script { id := 0, sys := true, sender := some self, msg := .onLaunch } .onLaunch
    else
      -- the code as found sent it to the parent
      let tgt : Target := match c.parent with | some p => .own p | none => .nobody
      let s3 := tell s2 true (some self) tgt .onLaunch
      say (upd s3 self (fun x => { x with paused := false })) s!"restarted:{self}"

/-- `onKilled`. -/
def onKilled (s : Sys) (self : Cid) (beh : Nat) (cur : Env) (who : Cid) : Sys :=
  let c := s.ctx self
  if c.zombie then cleanup s self
  else
    -- handleChildDeath
    let s1 := if who ≠ self then
        -- the entry is removed only if it still is that very child (a re-created namesake stays)
        execRecover (upd s self (fun x => { x with children := x.children.filter (· ≠ who) })) self beh cur (.onKilled who)
      else s
    let c1 := s1.ctx self
    -- checkAndMarkKilled
    if c1.children ≠ [] ∨ c1.state ≠ .killing then s1
    else
      let s2 := upd s1 self (fun x => { x with state := .killed })
      let restarting := c1.restarting.isSome
      -- executeBehavior on OnKilled(self); the envelope keeps the sender of the current one
      let cur' : Env := { cur with sys := true, msg := .onKilled self }
      let s3 := if restarting then execSwallow s2 self beh cur' (.onKilled self) else execRecover s2 self beh cur' (.onKilled self)
      let s4 := if restarting then s3 else cleanup s3 self
      -- `cleanupScheduler`: jobs are cleared on termination and on restart alike
      let s5 := clearJobs s4 self
      if restarting then handleRestart s5 self else s5

/-- `doKill`. -/
def doKill (s : Sys) (self : Cid) (beh : Nat) (cur : Env) (poison : Bool) : Sys :=
  let c := s.ctx self
  let s1 := c.children.foldl (fun acc ch => tell acc (!poison) (some self) (.own ch) (.onKill poison)) s
  let cur' : Env := { cur with msg := .onKill poison }
  let s2 := if c.restarting.isSome then execSwallow s1 self beh cur' (.onKill poison) else execRecover s1 self beh cur' (.onKill poison)
  onKilled s2 self beh cur' self

/-- `supervisionContext.applyDecision` + `onSupervise`. Decisions: 1 restart, 2 graceful restart,
3 stop, 4 graceful stop, 5 resume, 6 escalate. -/
def onSuperviseDecide (s : Sys) (self : Cid) (chain : List (Cid × List Cid)) : Sys :=
  let c := s.ctx self
  let failedChild := match chain with | (f, _) :: _ => f | [] => self
  let useDefault := c.strat = 0
  let decision := if useDefault then 3 else c.decisions.getD (c.decIdx % (max c.decisions.length 1)) 3
  let targets := if useDefault ∨ c.strat = 1 then [failedChild] else c.children
  let s0 := if useDefault then s else upd s self (fun x => { x with decIdx := x.decIdx + 1 })
  let s1 := say s0 s!"decide:{self}:{failedChild}:{decision}"
  let s2 := tellAll s1 true (some self) targets .cmdPause
  let chain' : List (Cid × List Cid) := match chain with
    | (f, _) :: rest => (f, targets) :: rest
    | [] => []
  let allTargets := (chain'.map (·.2)).flatten
  if decision = 1 then tellAll s2 true (some self) targets (.restart false)
  else if decision = 2 then
    tellAll (tellAll s2 false (some self) targets (.restart true)) true (some self) allTargets .cmdResume
  else if decision = 3 then tellAll s2 true (some self) targets (.onKill false)
  else if decision = 4 then
    tellAll (tellAll s2 false (some self) targets (.onKill true)) true (some self) allTargets .cmdResume
  else if decision = 5 then tellAll s2 true (some self) allTargets .cmdResume
  else
    -- 6 = escalate; any value outside 1..6 is escalated too (documented on `SupervisionDecision`)
    let s3 := upd s2 self (fun x => { x with paused := true })
    let t : Target := match c.parent with | some p => .own p | none => .nobody
    tell s3 true (some self) t (.supervise ((self, []) :: chain') [])

/-- `Context.onSupervise`: a supervisor that is itself stopping (or a zombie) takes no decision any more — its children go
with it. The failing child's mailbox is paused, so a poison-pill kill handed down earlier cannot be processed, and a
decision escalated from here would come back as a directive the stopping supervisor ignores: it ends the failing child
with an immediate kill instead. -/
def onSupervise (s : Sys) (self : Cid) (chain : List (Cid × List Cid)) : Sys :=
  if (s.ctx self).state = .running then onSuperviseDecide s self chain
  else
    let failedChild := match chain with | (f, _) :: _ => f | [] => self
    tell s true (some self) (.own failedChild) (.onKill false)

def samePath (s : Sys) (a b : Cid) : Bool := (s.ctx a).path = (s.ctx b).path

/-- `Context.HandleEnvelop`. -/
def handle (s : Sys) (self : Cid) (e : Env) : Sys :=
  let c := s.ctx self
  let killingOrKilled := c.state = .killed ∨ (!e.sys ∧ c.state ≠ .running)
  if killingOrKilled ∧ !c.zombie then
    -- a dead letter that cannot be delivered (the system has stopped) is dropped
    match e.msg with
    | .deadLetter _ _ _ => s
    -- a kill that is not executed (poison pill reaching an actor that is already stopping or restarting): the stop
    -- wins over a restart in progress
    | .onKill _ => deadLetter (upd s self (fun x => if x.state = .killing then { x with restarting := none } else x)) e
    | _ => deadLetter s e
  else
    -- `behavior := c.behaviorStack.Peek()` is read once, before the message is dispatched
    let beh := c.behaviors.headD c.script
    match e.msg with
    | .onLaunch => execRecover s self beh e .onLaunch
    | .onKill poison =>
      if c.zombie then doKill s self beh e poison
      else if c.state = .running then doKill (upd s self (fun x => { x with state := .killing })) self beh e poison
      else upd s self (fun x => { x with restarting := none })   -- a kill during a restart that waits for its children: the stop wins
    | .onKilled w => onKilled s self beh e w
    | .supervise chain _ => onSupervise s self chain
    | .cmdPause => upd s self (fun x => { x with paused := true })
    | .cmdResume => upd s self (fun x => { x with paused := false })
    | .restart poison =>
      -- `running -> killing` CAS: an actor that is already stopping (or a zombie) ignores the directive
      if c.state = .running then
        let s1 := upd s self (fun x => { x with state := .killing, restarting := some poison })
        doKill s1 self beh e poison
      -- the supervisor paused the mailbox before it sent the directive: the ignored directive resumes it (a stopping
      -- actor's mail drains into dead letters, a zombie keeps consuming its mail)
      else upd s self (fun x => { x with paused := false })
    | .watch =>
      match e.sender with
      | some w =>
        if (match c.parent with | some p => samePath s w p | none => false) || c.watchers.any (fun x => samePath s x w) then s
        else upd s self (fun x => { x with watchers := x.watchers ++ [w] })
      | none => s
    | .unwatch =>
      match e.sender with
      | some w => upd s self (fun x => { x with watchers := x.watchers.filter (fun y => !samePath s y w) })
      | none => s
    | .user k => execRecover s self beh e (.user k)
    | .deadLetter x u d => execRecover s self beh e (.deadLetter x u d)
    | .event ty pid => execRecover s self beh e (.event ty pid)

/-- Is there an envelope the mailbox may process now? -/
def deliverable (c : Ctx) : Bool := !c.sysQ.isEmpty || (!c.paused && !c.userQ.isEmpty)

/-- One mailbox step of context `c`: system queue first, user queue only when not paused. -/
def deliver (s : Sys) (c : Cid) : Option Sys :=
  let x := s.ctx c
  match x.sysQ with
  | e :: rest => some (handle (upd s c (fun y => { y with sysQ := rest })) c e)
  | [] =>
    if x.paused then none
    else match x.userQ with
      | e :: rest => some (handle (upd s c (fun y => { y with userQ := rest })) c e)
      | [] => none

end Vivid.ActorSys
