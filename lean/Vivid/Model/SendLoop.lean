/-! M12b — the sending side of a remote link: `remoting.Mailbox.Enqueue` with
`utils.ExponentialBackoff.Try` (internal/remoting/mailbox.go, internal/utils/backoff.go).

One `tell` runs up to `limit + 1` attempts. An attempt (the closure passed to `Try`):
  * no cached connection: dial; refused -> the attempt fails; accepted -> cache it;
  * write on the cached connection: the peer has reset it -> forget the connection, the attempt
    fails; otherwise the frame is on the wire.
After `limit + 1` failed attempts the envelope goes to `HandleFailedRemotingEnvelop` (dead letter).
The environment: the peer listens or not (`peerUp`), and may reset the established connection
(`broken`): a reset (the next write fails) or an orderly close (the reader sees end-of-stream and
marks the connection closed, so the next attempt fails before writing) — the same transition. -/
namespace Vivid.SendLoop

structure St where
  limit : Nat
  conn : Bool := false      -- Mailbox.connection ≠ nil
  broken : Bool := false    -- the cached connection was reset by the peer: the next write fails
  peerUp : Bool := false
  dials : Nat := 0          -- connections accepted by the peer so far
  delivered : List Nat := []  -- sequence numbers the peer received, oldest first
  dead : List Nat := []       -- sequence numbers dead-lettered, oldest first
  deriving Repr, DecidableEq

/-- One attempt. `true` = the frame was written. -/
def attempt (s : St) : St × Bool :=
  let s1 := if s.conn then s
            else if s.peerUp then { s with conn := true, broken := false, dials := s.dials + 1 }
            else s
  if !s1.conn then (s1, false)
  else if s1.broken then ({ s1 with conn := false, broken := false }, false)
  else (s1, true)

/-- `Try(limit, fn)`: `n` further attempts are allowed after a failure. -/
def try_ : Nat → St → St × Bool
  | 0, s => attempt s
  | n + 1, s =>
    let (s1, ok) := attempt s
    if ok then (s1, true) else try_ n s1

def tell (s : St) (seq : Nat) : St × Bool :=
  let (s1, ok) := try_ s.limit s
  if ok then ({ s1 with delivered := s1.delivered ++ [seq] }, true)
  else ({ s1 with dead := s1.dead ++ [seq] }, false)

/-- The peer resets the established connection (and keeps listening or not, as it did). -/
def break_ (s : St) : St := if s.conn then { s with broken := true } else s
def up (s : St) : St := { s with peerUp := true }
/-- The peer goes away: stops listening and resets what it had. -/
def down (s : St) : St := break_ { s with peerUp := false }

inductive Op | tell (seq : Nat) | brk | up | down
  deriving Repr, DecidableEq

def step (s : St) : Op → St
  | .tell q => (tell s q).1
  | .brk => break_ s
  | .up => up s
  | .down => down s

def run (s : St) (ops : List Op) : St := ops.foldl step s

end Vivid.SendLoop
