import Vivid.Model.Codec

/-
Schemas of the registered wire messages (one `Ty` per wire name), the `WriteMessage` /
`ReadMessage` framing and the remoting envelope.  Messages whose payload is an arbitrary nested
message (`PipeResult`, `SchedulerMessage`, `clusterSingletonForwardedMessage`) have no schema here: `schemaOf` returns
`none` for them and they are tied by the harness's round-trip monitor only (see `Props/C12`).
-/
namespace Vivid.Codec
open Ty

def str : Ty := .bytes

/-- `map[string]string`: count capped at `maxMapEntries` (65536), `make(map, n)` before reading. -/
def mapSS : Ty := .list (some 65536) true (.pair str str)

/-- Body of a `NodeState`. -/
def nodeBody : Ty :=
  .pair str (.pair str (.pair str (.pair .i32 (.pair .i64 (.pair .u64 (.pair .i32 (.pair .bool
    (.pair .i64 (.pair .u64 (.pair mapSS (.pair mapSS .u32)))))))))))

/-- `WriteVersionVector`: count ≤ 65535, entries validated. -/
def vvTy : Ty := .list (some 65535) true (.chk 0 (.pair str .u64))

/-- Body of a `ClusterView`. `memCap` is the cap on the member count (`none`: the code as found
allocates `make(map, memLen)` for any announced count). -/
def viewBody (memCap : Option Nat) : Ty :=
  .pair str (.pair .i64 (.pair .i64 (.pair (.list memCap true (.pair str (.opt8 nodeBody)))
    (.pair .i32 (.pair .i32 (.pair .i32 (.pair vvTy (.pair .u16 .i32))))))))

def viewTy (memCap : Option Nat) : Ty := .opt32 (viewBody memCap)

/-- Wire name ↦ schema, for every registered message that has one. -/
def schemaTable (memCap : Option Nat) : List (String × Ty) := [
  ("NoneArgsCommandMessage", .u8),
  ("PingMessage", .i64),
  ("PongMessage", .pair .i64 .i64),
  ("Pong", .pair .i64 .i64),
  ("WatchMessage", .unit), ("UnwatchMessage", .unit), ("OnLaunch", .unit),
  ("clusterGossipTick", .unit), ("clusterGossipCrossDCTick", .unit), ("clusterFailureDetectionTick", .unit),
  ("clusterGetViewRequest", .unit), ("clusterLeaveRequest", .unit), ("clusterLeaveAck", .unit),
  ("clusterExitingReady", .unit),
  ("clusterJoinRequest", .pair (.opt32 nodeBody) str),
  ("clusterJoinResponse", viewTy memCap),
  ("clusterGossip", viewTy memCap),
  ("clusterGetViewResponse", .pair (viewTy memCap) (.pair .bool str)),
  ("clusterLeaveBroadcastRound", .i32),
  ("clusterJoinRetryTick", .i64),
  ("clusterForceMemberDown", .pair str str),
  ("clusterTriggerViewBroadcast", str),
  ("Error", .pair .i32 str),
  -- an ActorRef travels as (address, path), nil as two empty strings; the receiver rebuilds it
  -- through actor.NewRef, whose validation of the two strings is not modelled
  ("OnKill", .pair str (.pair str (.pair str .bool))),
  ("OnKilled", .pair str str)]

def schemaOf (memCap : Option Nat) (name : String) : Option Ty := (schemaTable memCap).lookup name

def nameBytes (name : String) : Bytes := name.toUTF8.toList.map (·.toNat)

/-- `Writer.WriteMessage`: body with 4-byte length, then the wire name. -/
def encMessage (memCap : Option Nat) (name : String) (v : V) : Option Bytes :=
  match schemaOf memCap name with
  | none => none
  | some t =>
    match enc t v with
    | none => none
    | some body => enc (.pair .bytes .bytes) (.pair (.bytes body) (.bytes (nameBytes name)))

inductive MsgRes where
  | ok (name : Bytes) (v : V) (alloc : Nat) (rest : Bytes)
  | unknown (name : Bytes)      -- not an internal message: handed to the user codec
  | err
  deriving Repr

/-- `Reader.ReadMessage` for a given table of known names. -/
def decMessage (memCap : Option Nat) (known : List String) (bs : Bytes) : MsgRes :=
  match dec (.pair .bytes .bytes) bs with
  | .err => .err
  | .ok (.pair (.bytes body) (.bytes nm), rest) =>
    match known.find? (fun k => nameBytes k = nm) with
    | none => .unknown nm
    | some k =>
      match schemaOf memCap k with
      | none => .unknown nm
      | some t =>
        match decA t body with
        | .err => .err
        | .ok ((v, al), _) => .ok nm v al rest      -- trailing bytes inside the body are ignored
  | .ok _ => .err

/-- The remoting envelope around a message: body, name, system flag, sender and receiver. -/
def envTail : Ty := .pair .bool (.pair str (.pair str (.pair str str)))

def encEnvelope (memCap : Option Nat) (name : String) (v : V) (tail : V) : Option Bytes :=
  match encMessage memCap name v, enc envTail tail with
  | some m, some t => some (m ++ t)
  | _, _ => none

/-- The reflective reader (`Reader.readReflect`) on the destination types the engine exercises:
a Go slice is a `u32` count followed by the elements, a struct is its exported fields in order.
`presized = true` is the reader as found (`reflect.MakeSlice(type, count, count)` before any
element is read); `false` is the repaired reader (capacity hint bounded by the bytes that are
left, grown by `append`). -/
def reflTable (presized : Bool) : List (String × Ty) :=
  [("u64s", .list none presized .u64),
   ("strs", .list none presized .bytes),
   ("recs", .list none presized (.pair .u32 .bytes)),
   ("nested", .list none presized (.list none presized .u16)),
   ("rec", .pair .u16 (.pair (.list none presized .u32) .bytes)),
   -- element types with an empty encoding (field-less structs): the slice is a bare count
   ("units", .list none presized .unit),
   ("batch", .pair .u32 (.pair (.list none presized .unit) .u16))]

def reflTy (name : String) : Option Ty := (reflTable false).lookup name

end Vivid.Codec
