import Vivid.Engine.Util
import Vivid.Model.Transparency

/-! Driver engine `transp`: `tp <codec|registered> <op>[@<fwd loc>] <local|remote>`. -/
namespace Vivid.Engine.TranspEngine
open Vivid.Transparency Vivid.Engine

def parseLoc : String → Option Loc
  | "local" => some .here
  | "remote" => some .there
  | "twin" => some .there      -- a remote forwarder whose path equals the caller's
  | _ => none

def parseOp : String → Option Op
  | "tell" => some .tell | "tellv" => some .tellValue | "ask" => some .ask | "kill" => some .kill
  | "poison" => some .poison | "watch" => some .watch | "unwatch" => some .unwatch | "watch-twin" => some .watchTwin | "unwatch-twin" => some .unwatchTwin | "ping" => some .ping
  | "pipe-ok" => some .pipeOk | "pipe-fail" => some .pipeFail
  | "tell-respawned" => some .tellRespawned
  | "kill-busy" => some .killBusy | "poison-busy" => some .poisonBusy | "watch-stopping" => some .watchStopping
  | "pipe-err" => some .pipeFail      -- the recipient answers with a plain Go error: a failure result, like a timeout
  | _ => none

def step (_ : Unit) (line : String) : Unit × String :=
  match tokens line with
  | ["tp", _, opf, loc] =>
    let (ops, fl) := match opf.splitOn "@" with
      | [o, f] => (o, f)
      | _ => (opf, "local")
    match parseOp ops, parseLoc loc, parseLoc fl with
    | some op, some t, some f =>
      let w := sortBy (fun a b => decide (a ≤ b)) (wire op t f)
      ((), observe false op t f ++ " | wire=" ++ (if w.isEmpty then "-" else joinWith "," w))
    | _, _, _ => ((), "bad-op")
  | _ => ((), "bad-op")

def engine : Engine := { σ := Unit, init := (), step := step }

end Vivid.Engine.TranspEngine
