import Vivid.Engine.Util
import Vivid.Model.Gossip

/-! Driver engine `gossip` (see harness/engines/gossip.go for the op language). -/
namespace Vivid.Engine.GossipEngine
open Vivid.Gossip Vivid.Engine

structure Slot where
  node : Node
  alive : Bool
  inc : Nat

structure S where
  T : Nat := 0
  D : Nat := 0        -- SuspectConfirmDuration
  now : Nat := 0
  seeds : List Nat := []
  slots : List (Option Slot) := []

def stName : St → String
  | .up => "up" | .suspect => "suspect" | .joining => "joining"

def parseSt : String → Option St
  | "up" => some .up | "suspect" => some .suspect | "joining" => some .joining | _ => none

def memTok (m : Mem) : String :=
  s!"{m.id.1}.{m.id.2},{m.addr},{m.gen},{m.clock},{m.ts},{stName m.st},{m.seen}"

def viewTok (ms : List Mem) : String :=
  if ms.isEmpty then "-" else joinWith ";" (sortBy (fun a b => decide (a ≤ b)) (ms.map memTok))

def parseMem (t : String) : Option Mem :=
  match t.splitOn "," with
  | [id, a, g, c, ts, st, seen] =>
    match id.splitOn ".", a.toNat?, g.toNat?, c.toNat?, ts.toNat?, parseSt st, seen.toNat? with
    | [i, k], some a, some g, some c, some ts, some st, some seen =>
      match i.toNat?, k.toNat? with
      | some i, some k => some { id := (i, k), addr := a, gen := g, clock := c, ts := ts, st := st, seen := seen }
      | _, _ => none
    | _, _, _, _, _, _, _ => none
  | _ => none

def parseView (t : String) : Option (List Mem) :=
  if t = "-" then some [] else (t.splitOn ";").mapM parseMem

def getSlot (s : S) (i : Nat) : Option Slot := (s.slots.getD i none)

def setSlot (s : S) (i : Nat) (sl : Slot) : S := { s with slots := s.slots.set i (some sl) }

def liveNode (s : S) (tok : String) : Option (Nat × Slot) :=
  match tok.toNat? with
  | some i => match getSlot s i with
    | some sl => if sl.alive then some (i, sl) else none
    | none => none
  | none => none

def step (s : S) (line : String) : S × String :=
  match tokens line with
  | ["cfg", t, n, seeds] =>
    match t.toNat?, n.toNat? with
    | some t, some n =>
      ({ T := t, now := 1000, seeds := (seeds.splitOn ",").filterMap (·.toNat?), slots := List.replicate n none }, "ok")
    | _, _ => (s, "bad-op")
  | ["cfg", t, n, seeds, d] =>
    match t.toNat?, n.toNat?, d.toNat? with
    | some t, some n, some d =>
      ({ T := t, D := d, now := 1000, seeds := (seeds.splitOn ",").filterMap (·.toNat?), slots := List.replicate n none }, "ok")
    | _, _, _ => (s, "bad-op")
  | ["start", i, via] =>
    match i.toNat? with
    | none => (s, "bad-op")
    | some i =>
      if i ≥ s.slots.length then (s, "bad-op") else
      let old := getSlot s i
      if (old.map (·.alive)).getD false then (s, "bad-op") else
      let inc := (old.map (·.inc + 1)).getD 1
      let self : Mem := { id := (i, inc), addr := i, gen := 1, clock := 1, ts := s.now, st := .joining, seen := s.now }
      let n0 : Node := { self := self, mem := [], seeds := s.seeds, T := s.T }
      if s.seeds.isEmpty || s.seeds.contains i then
        let n := bootstrap n0
        (setSlot s i { node := n, alive := true, inc := inc }, viewTok n.mem)
      else
        -- join through the one seed the harness lets answer
        match via.toNat? with
        | none =>
          (setSlot s i { node := n0, alive := true, inc := inc }, viewTok n0.mem)
        | some v =>
          match getSlot s v with
          | some sl =>
            if !sl.alive then (setSlot s i { node := n0, alive := true, inc := inc }, viewTok n0.mem) else
            match acceptJoin sl.node self with
            | (sn, some resp) =>
              let n := applyJoin n0 s.now resp
              let s1 := setSlot s v { sl with node := sn }
              (setSlot s1 i { node := n, alive := true, inc := inc }, viewTok n.mem)
            | (_, none) => (setSlot s i { node := n0, alive := true, inc := inc }, viewTok n0.mem)
          | none => (setSlot s i { node := n0, alive := true, inc := inc }, viewTok n0.mem)
  | ["retry", i, via] =>
    match liveNode s i with
    | none => (s, "bad-op")
    | some (k, sl) =>
      if sl.node.self.st ≠ .joining then (s, "bad-op") else
      match via.toNat? with
      | none => (s, viewTok sl.node.mem)
      | some v =>
        match getSlot s v with
        | some ss =>
          if !ss.alive then (s, viewTok sl.node.mem) else
          match acceptJoin ss.node sl.node.self with
          | (sn, some resp) =>
            let n := applyJoin sl.node s.now resp
            let s1 := setSlot s v { ss with node := sn }
            (setSlot s1 k { sl with node := n }, viewTok n.mem)
          | (_, none) => (s, viewTok sl.node.mem)
        | none => (s, viewTok sl.node.mem)
  | ["tick", i] =>
    match liveNode s i with
    | some (_, sl) =>
      -- the periodic rounds exist from the moment the node has joined (either path)
      if sl.node.self.st = .joining then (s, "not-scheduled") else
      let t := sortBy (fun a b => decide (a ≤ b)) ((targets sl.node).map toString)
      (s, if t.isEmpty then "-" else joinWith "," t)
    | none => (s, "bad-op")
  | ["fd", i] =>
    match liveNode s i with
    | some (k, sl) =>
      if sl.node.self.st = .joining then (s, "not-scheduled") else
      let n := fdTickD sl.node s.D s.now
      (setSlot s k { sl with node := n }, viewTok n.mem)
    | none => (s, "bad-op")
  | ["state", i] =>
    match liveNode s i with
    | some (_, sl) => (s, viewTok sl.node.mem)
    | none => (s, "bad-op")
  | ["recv", i, _, from_, view] =>
    match liveNode s i, from_.toNat?, parseView view with
    | some (k, sl), some f, some v =>
      let n := handleGossip sl.node s.now f v
      (setSlot s k { sl with node := n }, viewTok n.mem)
    | _, _, _ => (s, "bad-op")
  | ["adv", ms] =>
    match ms.toNat? with
    | some d => ({ s with now := s.now + d }, "ok")
    | none => (s, "bad-op")
  | ["crash", i] =>
    match liveNode s i with
    | some (k, sl) => (setSlot s k { sl with alive := false }, "ok")
    | none => (s, "bad-op")
  | ["check"] =>
    let parts := (s.slots.zipIdx).filterMap fun (o, i) =>
      match o with
      | some sl =>
        if sl.alive then
          let l := match leader sl.node.mem with | some a => toString a | none => "-"
          some s!"n{i}[leader={l} {viewTok sl.node.mem}]"
        else none
      | none => none
    (s, joinWith " " parts)
  | _ => (s, "bad-op")

def engine : Engine := { σ := S, init := {}, step := step }

end Vivid.Engine.GossipEngine
