import Vivid.Engine.Util
import Vivid.Model.Messages

/-! Driver engine `codec`: `WriteMessage` / `ReadMessage` / envelope on flat token values.

    cfg <memCap|-> <known-name> ...
    enc <name> <tokens>            -> x<hex> | err
    dec x<hex>                     -> ok <name> <tokens> rest=<n> | unknown <name> | err
    encenv <name> <tokens> | <T|F> x<saddr> x<spath> x<raddr> x<rpath>
    decenv x<hex>
    rfl <kind> x<hex>                          -> ok <tokens> rest=<n> | err     (reflective reader)
    rflinto <kind> <prefill tokens> | x<hex>   -> ok <tokens> | err <tokens the destination holds afterwards>
-/
namespace Vivid.Engine.CodecEngine
open Vivid.Codec Vivid.Engine

structure CS where
  memCap : Option Nat
  known : List String

def parseBytes (t : String) : Option Bytes :=
  if t.startsWith "x" then fromHexAux (t.drop 1).toString.toList [] else none

def showBytes (bs : Bytes) : String := "x" ++ String.join (bs.map hexByte)

def parseN (f : List String → Option (V × List String)) : Nat → List String → Option (V × List String)
  | 0, ts => some (.nil, ts)
  | n + 1, ts =>
    match f ts with
    | none => none
    | some (h, r) =>
      match parseN f n r with
      | none => none
      | some (t, r') => some (.cons h t, r')

def parseV : Ty → List String → Option (V × List String)
  | .unit, ts => some (.unit, ts)
  | .u8, t :: ts | .u16, t :: ts | .u32, t :: ts | .u64, t :: ts => t.toNat?.map (fun n => (.n n, ts))
  | .i32, t :: ts | .i64, t :: ts => t.toInt?.map (fun z => (.i z, ts))
  | .bool, t :: ts => if t = "T" then some (.b true, ts) else if t = "F" then some (.b false, ts) else none
  | .bytes, t :: ts => (parseBytes t).map (fun b => (.bytes b, ts))
  | .pair a b, ts =>
    match parseV a ts with
    | none => none
    | some (x, r) => match parseV b r with
      | none => none
      | some (y, r') => some (.pair x y, r')
  | .list _ _ a, t :: ts =>
    if t.startsWith "#" then
      match (t.drop 1).toString.toNat? with
      | some n => parseN (parseV a) n ts
      | none => none
    else none
  | .opt32 a, t :: ts | .opt8 a, t :: ts =>
    if t = "?0" then some (.none, ts)
    else if t = "?1" then (parseV a ts).map (fun p => (.some p.1, p.2))
    else none
  | .chk _ a, ts => parseV a ts
  | _, _ => none

def vToList : V → List V
  | .cons h t => h :: vToList t
  | _ => []

def keyOf : V → Bytes
  | .pair (.bytes k) _ => k
  | _ => []

def bytesLe : Bytes → Bytes → Bool
  | [], _ => true
  | _ :: _, [] => false
  | a :: s, b :: t => if a < b then true else if a > b then false else bytesLe s t

/-- Go map semantics for a decoded entry list: later entries win, output sorted by key. -/
def canonMap (es : List V) : List V :=
  let dedup := es.foldl (fun acc e => (acc.filter (fun x => keyOf x ≠ keyOf e)) ++ [e]) []
  sortBy (fun a b => bytesLe (keyOf a) (keyOf b)) dedup

def isMapElem : Ty → Bool
  | .pair .bytes _ => true
  | .chk _ (.pair .bytes _) => true
  | _ => false

def isNoneEntry : V → Bool
  | .pair _ .none => true
  | _ => false

def showV : Ty → V → List String
  | .unit, _ => []
  | .u8, .n x | .u16, .n x | .u32, .n x | .u64, .n x => [toString x]
  | .i32, .i z | .i64, .i z => [toString z]
  | .bool, .b x => [if x then "T" else "F"]
  | .bytes, .bytes bs => [showBytes bs]
  | .pair a b, .pair x y => showV a x ++ showV b y
  | .list _ _ a, v =>
    let es := vToList v
    let es := if isMapElem a then canonMap (es.filter (fun e => !isNoneEntry e)) else es
    s!"#{es.length}" :: (es.map (showV a)).flatten
  | .opt32 _, .none | .opt8 _, .none => ["?0"]
  | .opt32 a, .some v | .opt8 a, .some v => "?1" :: showV a v
  | .chk _ a, v => showV a v
  | _, _ => ["<ill-typed>"]

def showTokens (ts : List String) : String := joinWith " " ts

def showNameBytes (nm : Bytes) : String := showBytes nm

def splitBar (ts : List String) : List String × List String :=
  (ts.takeWhile (· ≠ "|"), (ts.dropWhile (· ≠ "|")).drop 1)

/-- M4 (reduced): which Go kinds `Writer.Write` supports. Unexported-only structs encode to
nothing (ok); a nil `*[]byte` is documented to write a zero length. -/
def supportedKinds : List String :=
  ["uint8", "int8", "uint16", "int16", "uint32", "int32", "uint64", "int64", "float32", "float64", "bool", "string",
   "bytes", "ptr-uint32", "slice-uint16", "array-uint8", "struct-exported", "struct-unexported", "nil-bytes-ptr", "slice-any"]
def unsupportedKinds : List String :=
  ["int", "uint", "uintptr", "named-uint8", "named-string", "map", "nil", "nil-ptr", "ptr-int", "chan", "func",
   "complex128", "slice-int", "struct-iface-nil"]

def step (c : CS) (line : String) : CS × String :=
  match tokens line with
  | "cfg" :: cap :: known => ({ memCap := cap.toNat?, known := known }, "ok")
  | "enc" :: name :: ts =>
    match schemaOf c.memCap name with
    | none => (c, "no-schema")
    | some t =>
      match parseV t ts with
      | some (v, []) =>
        match encMessage c.memCap name v with
        | some bs => (c, showBytes bs)
        | none => (c, "err")
      | _ => (c, "bad-op")
  | ["dec", hx] =>
    match parseBytes hx with
    | none => (c, "bad-op")
    | some bs =>
      match decMessage c.memCap c.known bs with
      | .err => (c, "err")
      | .unknown nm => (c, s!"unknown {showNameBytes nm}")
      | .ok nm v _ rest =>
        match c.known.find? (fun k => nameBytes k = nm) with
        | some k =>
          match schemaOf c.memCap k with
          | some t => (c, showTokens (["ok", k] ++ showV t v ++ [s!"rest={rest.length}"]))
          | none => (c, "err")
        | none => (c, "err")
  | ["wnil", name] =>
    -- a nil pointer is not a message: the writer returns an error for every registered type
    if c.known.contains name then (c, "err") else (c, "bad-op")
  | ["wzero", name] =>
    -- the zero value (all pointer / interface fields nil) encodes or is rejected — it does not panic
    if c.known.contains name then (c, "nopanic") else (c, "bad-op")
  | ["rfl", kind, hx] =>
    match reflTy kind, parseBytes hx with
    | some t, some bs =>
      match dec t bs with
      | .err => (c, "err")
      | .ok (v, rest) => (c, showTokens (["ok"] ++ showV t v ++ [s!"rest={rest.length}"]))
    | _, _ => (c, "bad-op")
  | "rflinto" :: kind :: ts =>
    -- decode into a destination that holds an earlier value: on failure the destination keeps it
    let (pt, ht) := splitBar ts
    match reflTy kind, ht with
    | some t, [hx] =>
      match parseV t pt, parseBytes hx with
      | some (pre, []), some bs =>
        match dec t bs with
        | .err => (c, showTokens (["err"] ++ showV t pre))
        | .ok (v, _) => (c, showTokens (["ok"] ++ showV t v))
      | _, _ => (c, "bad-op")
    | _, _ => (c, "bad-op")
  | ["write", kind] =>
    -- `Writer.Write` on a Go value: supported kinds encode, everything else must be an error
    if supportedKinds.contains kind then (c, "ok")
    else if unsupportedKinds.contains kind then (c, "err")
    else (c, "bad-op")
  | "encenv" :: name :: ts =>
    let (vt, tt) := splitBar ts
    match schemaOf c.memCap name with
    | none => (c, "no-schema")
    | some t =>
      match parseV t vt, parseV envTail tt with
      | some (v, []), some (tl, []) =>
        match encEnvelope c.memCap name v tl with
        | some bs => (c, showBytes bs)
        | none => (c, "err")
      | _, _ => (c, "bad-op")
  | ["decenv", hx] =>
    match parseBytes hx with
    | none => (c, "bad-op")
    | some bs =>
      -- DecodeEnvelopWithRemoting reads body, name and the tail first, then decodes the body
      match dec (.pair .bytes (.pair .bytes envTail)) bs with
      | .err => (c, "err")
      | .ok (.pair (.bytes body) (.pair (.bytes nm) tl), _) =>
        match c.known.find? (fun k => nameBytes k = nm) with
        | none => (c, s!"unknown {showNameBytes nm}")
        | some k =>
          match schemaOf c.memCap k with
          | none => (c, s!"unknown {showNameBytes nm}")
          | some t =>
            match decA t body with
            | .err => (c, "err")
            | .ok ((v, _), _) => (c, showTokens (["ok", k] ++ showV t v ++ ["|"] ++ showV envTail tl))
      | .ok _ => (c, "err")
  | _ => (c, "bad-op")

def engine : Engine := { σ := CS, init := { memCap := none, known := [] }, step := step }

end Vivid.Engine.CodecEngine
