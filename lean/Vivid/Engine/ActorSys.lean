import Vivid.Engine.Util
import Vivid.Model.ActorSys

/-! Driver engine `actorsys`: lock-step with the real `actor.System` under the coarse baton. -/
namespace Vivid.Engine.ActorSysEngine
open Vivid.ActorSys Vivid.Engine

def parseAction (t : String) : Option Action :=
  match t.splitOn "." with
  | ["tell", tg, k] => k.toNat?.map (fun k => .tell tg k)
  | ["spawn", nm, sid, kind, ds, hk] =>
    match sid.toNat?, kind.toNat?, hk.toNat? with
    | some sid, some kind, some hk =>
      let dl := if ds = "-" then [] else ds.toList.map (fun ch => ch.toNat - 48)
      some (.spawn nm sid kind dl hk)
    | _, _, _ => none
  | ["kill", tg] => some (.kill tg false)
  | ["poison", tg] => some (.kill tg true)
  | ["panic"] => some .panic
  | ["stash"] => some .stash
  | ["unstash", n] => n.toNat?.map .unstash
  | ["watch", tg] => some (.watch tg)
  | ["unwatch", tg] => some (.unwatch tg)
  | ["become", sid] => sid.toNat?.map .become
  | ["unbecome"] => some .unbecome
  | ["sub", ty] => ty.toNat?.map .sub
  | ["unsub", ty] => ty.toNat?.map .unsub
  | ["unsuball"] => some .unsubAll
  | ["pub", ty] => ty.toNat?.map .pub
  | ["once", ref, k] => k.toNat?.map (fun k => .sched 0 ref k)
  | ["loop", ref, k] => k.toNat?.map (fun k => .sched 1 ref k)
  | ["cancel", ref] => some (.cancel ref)
  | ["sclear"] => some .schedClear
  | ["cron", v, ref] => some (.cron (v = "1") ref)
  | _ => none

def parseTrigger (t : String) : Option Nat :=
  if t = "launch" then some 0 else if t = "kill" then some 1 else if t = "killed" then some 2
  else if t = "okilled" then some 3
  else if t.startsWith "u" then (t.drop 1).toString.toNat?.map (· + 100)
  else if t.startsWith "e" then (t.drop 1).toString.toNat?.map (· + 200) else none

def parseRule (t : String) : Option Rule :=
  match t.splitOn ":" with
  | trig :: rest =>
    let body := ":".intercalate rest
    match parseTrigger trig with
    | none => none
    | some tr =>
      if body = "" then some (tr, [])
      else ((body.splitOn ",").mapM parseAction).map (fun acts => (tr, acts))
  | [] => none

def parseScript (t : String) : Option Script :=
  if t = "-" then some [] else (t.splitOn ";").mapM parseRule

def parseExtTarget (s : Sys) (t : String) : Target :=
  if t.startsWith "o:" then (match (t.drop 2).toString.toNat? with | some c => if c < s.n then .own c else .nobody | none => .nobody)
  else if t.startsWith "p:" then .path (t.drop 2).toString
  else if t.startsWith "r:" then (match (t.drop 2).toString.toNat? with | some r => .refobj r | none => .nobody)
  else .nobody

def showSt : St → String
  | .running => "R" | .killing => "K" | .killed => "D"

def showIds (l : List Nat) : String := if l.isEmpty then "-" else joinWith "," (l.map toString)

def showCtx (s : Sys) (c : Cid) : String :=
  let x := s.ctx c
  let flags := (if x.zombie then "z" else "") ++ (if x.paused then "p" else "") ++ (if x.restarting.isSome then "r" else "")
  let paths := fun (l : List Cid) => sortBy (· ≤ ·) (l.map (fun k => (s.ctx k).path))
  let ch := paths x.children
  let wa := paths x.watchers
  let jobs := sortBy (· ≤ ·) (x.jobs.map (·.1))
  s!"{c}={x.path}:{showSt x.state}{flags}:i{x.inc}:s{x.sysQ.length}:u{x.userQ.length}:st[{showIds (x.stash.map (·.id))}]:ch[{joinWith "," ch}]:w[{joinWith "," wa}]:j[{joinWith "," jobs}]"

def digest (s : Sys) : String :=
  let ctxs := (List.range s.n).map (showCtx s)
  let reg := sortBy (· ≤ ·) (s.registry.map (·.1))
  let ev := if s.log.isEmpty then "-" else joinWith "," s.log
  let subs := sortBy (· ≤ ·) (s.subs.map (fun e => s!"{e.1}@{e.2.1}"))
  let jt := sortBy (· ≤ ·) (s.jobTable.map (·.1))
  s!"ev={ev} | {joinWith " " ctxs} | reg[{joinWith "," reg}] dl[{showIds s.deadLetters}] subs[{joinWith "," subs}] jobs[{joinWith "," jt}]"

def finish (s : Sys) : Sys × String := ({ s with log := [] }, digest s)

def step (s : Sys) (line : String) : Sys × String :=
  match tokens line with
  | ["reset", f] => (init (f = "1"), "ok")
  | ["script", sid, body] =>
    match sid.toNat?, parseScript body with
    | some sid, some sc => ({ s with scripts := (sid, sc) :: s.scripts.filter (fun e => e.1 ≠ sid) }, "ok")
    | _, _ => (s, "bad-op")
  | ["spawn", nm, sid, kind, ds, hk] =>
    match sid.toNat?, kind.toNat?, hk.toNat? with
    | some sid, some kind, some hk =>
      let dl := if ds = "-" then [] else ds.toList.map (fun ch => ch.toNat - 48)
      finish (actorOf s 0 nm sid kind hk dl)
    | _, _, _ => (s, "bad-op")
  | ["tell", tg, k] =>
    match k.toNat? with
    | some k => finish (tell s false (some 0) (parseExtTarget s tg) (.user k))
    | none => (s, "bad-op")
  | ["kill", tg, p] =>
    let poison := p = "1"
    finish (tell s (!poison) (some 0) (parseExtTarget s tg) (.onKill poison))
  | ["mkref", r, path] =>
    match r.toNat? with
    | some r => ({ s with refs := (r, path, none) :: s.refs.filter (fun e => e.1 ≠ r) }, "ok")
    | none => (s, "bad-op")
  | ["check"] => (s, "checked")
  | ["deliver", c] =>
    match c.toNat? with
    | some c =>
      match deliver s c with
      | some s' => finish s'
      | none => (s, "nothing-to-deliver")
    | none => (s, "bad-op")
  | _ => (s, "bad-op")

def engine : Engine := { σ := Sys, init := init false, step := step }

end Vivid.Engine.ActorSysEngine
