import Vivid.Engine.Util
import Vivid.Model.Ring

/-! Driver engine `ring`: `new n | push x | pop | popmany k | len`. -/
namespace Vivid.Engine.RingEngine
open Vivid.Ring Vivid.Engine

def showItem : Option Nat → String
  | some v => toString v
  | none => "nil!"

def step (r : Ring) (line : String) : Ring × String :=
  match tokens line with
  | ["new", n] =>
    match n.toNat? with
    | some n => (new n, "ok")
    | none => (r, "bad-op")
  | ["push", x] =>
    match x.toNat? with
    | some x =>
      match push? r x with
      | some r' => (r', s!"ok len={r'.len}")
      | none => (r, "panic")
    | none => (r, "bad-op")
  | ["pop"] =>
    match pop r with
    | (r', none) => (r', s!"empty len={r'.len}")
    | (r', some v) => (r', s!"{showItem v} len={r'.len}")
  | ["popmany", k] =>
    match k.toNat? with
    | some k =>
      match popMany r k with
      | (r', none) => (r', s!"empty len={r'.len}")
      | (r', some vs) => (r', s!"[{joinWith "," (vs.map showItem)}] len={r'.len}")
    | none => (r, "bad-op")
  | _ => (r, "bad-op")

def engine : Engine := { σ := Ring, init := new 1, step := step }

end Vivid.Engine.RingEngine
