import Vivid.Engine.Util
import Vivid.Model.MailboxSites

/-! Driver engine `mailbox`: lock-step with the real `UnboundedMailbox` under the fine baton
scheduler.  The engine follows every goroutine individually (`tid ↦ pc`) on top of the
counter-abstracted state.

    reset <fixed 0|1>
    new <tid> enqU|enqS|pause|resume
    step <tid> <action> [<newtid>]      -- action matters only inside a handler
-/
namespace Vivid.Engine.MailboxEngine
open Vivid.Mailbox Vivid.Engine

structure ES where
  fixed : Bool
  st : St
  pcs : List (Nat × Pc)     -- live threads, by tid

def initES : ES := { fixed := false, st := init, pcs := [] }

def b2s (b : Bool) : String := if b then "1" else "0"

def showState (e : ES) : String :=
  let s := e.st
  let ps := sortBy (fun a b => a.1 ≤ b.1) e.pcs
  let pcs := if ps.isEmpty then "-" else joinWith "," (ps.map (fun p => s!"{p.1}:{pcName p.2}"))
  s!"proc={b2s s.proc} paused={b2s s.paused} num={s.num} sys={s.sys} uq={s.uq} sq={s.sq} hU={s.hndU} hS={s.hndS} pcs={pcs}"

def firstEnabled (fixed : Bool) (s : St) : List Label → Option (Label × St)
  | [] => none
  | l :: ls => match fire fixed l s with
    | some s' => some (l, s')
    | none => firstEnabled fixed s ls

def setPc (pcs : List (Nat × Pc)) (tid : Nat) (p : Option Pc) : List (Nat × Pc) :=
  let rest := pcs.filter (fun e => e.1 ≠ tid)
  match p with
  | some p => (tid, p) :: rest
  | none => rest

def step (e : ES) (line : String) : ES × String :=
  match tokens line with
  | ["reset", f] =>
    let e' : ES := { fixed := f = "1", st := init, pcs := [] }
    (e', "ok")
  | "new" :: tid :: kind :: _ =>
    match tid.toNat? with
    | none => (e, "bad-op")
    | some tid =>
      let l? : Option Label :=
        if kind = "enqU" then some .newEnqU else if kind = "enqS" then some .newEnqS
        else if kind = "pause" then some .newPause else if kind = "resume" then some .newResume else none
      match l? with
      | none => (e, "bad-op")
      | some l =>
        match fire e.fixed l e.st with
        | some s' =>
          let e' := { e with st := s', pcs := setPc e.pcs tid (dst e.fixed l) }
          (e', showState e')
        | none => (e, "stuck")
  | ["enter", tid] =>
    -- the thread enters its call and reaches the first yield site: no shared effect, the model does not move
    match tid.toNat? with
    | none => (e, "bad-op")
    | some tid =>
      match e.pcs.lookup tid with
      | none => (e, s!"no-such-thread {tid}")
      | some _ => (e, showState e)
  | "step" :: tid :: action :: rest =>
    match tid.toNat? with
    | none => (e, "bad-op")
    | some tid =>
      match e.pcs.lookup tid with
      | none => (e, s!"no-such-thread {tid}")
      | some pc =>
        match firstEnabled e.fixed e.st (candidates pc action) with
        | none => (e, s!"stuck at {pcName pc} action {action}")
        | some (l, s') =>
          let pcs1 := setPc e.pcs tid (dst e.fixed l)
          let pcs2 :=
            if spawns l then
              match rest with
              | [nt] => match nt.toNat? with
                | some nt => setPc pcs1 nt (some .cStart)
                | none => pcs1
              | _ => pcs1
            else pcs1
          let e' := { e with st := s', pcs := pcs2 }
          (e', showState e')
  | _ => (e, "bad-op")

def engine : Engine := { σ := ES, init := initES, step := step }

end Vivid.Engine.MailboxEngine
