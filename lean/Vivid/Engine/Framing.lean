import Vivid.Engine.Util
import Vivid.Model.Framing
import Vivid.Model.Messages

/-! Driver engine `framing`: `rx <hex>|<hex>|...` — the receiver over a chunked byte stream.
Observation: the events in order — `d<seq>` (a PingMessage envelope delivered, seq = its
UnixNano), `u` (payload does not decode), `i` (invalid length), `c` (close frame), `m` (stream
ended inside a frame). -/
namespace Vivid.Engine.FramingEngine
open Vivid.Framing Vivid.Codec Vivid.Engine

def seqOf (p : Bytes) : Option Int :=
  match dec (.pair .bytes (.pair .bytes envTail)) p with
  | .ok (.pair (.bytes body) (.pair (.bytes nm) _), _) =>
    if nm = nameBytes "PingMessage" then
      match dec .i64 body with
      | .ok (.i z, _) => some z
      | _ => none
    else none
  | _ => none

def showEv : Ev → Option String
  | .deliver p => match seqOf p with
    | some z => some s!"d{z}"
    | none => some "u"
  | .closeFrame => none     -- no log record; visible only as "nothing after it"
  | .invalidLength _ => some "i"
  | .eofClean => none
  | .eofMid => some "m"

def step (_ : Unit) (line : String) : Unit × String :=
  match tokens line with
  | ["rx", chunks] =>
    let parts := (chunks.splitOn "|").map fromHex
    if parts.any (·.isNone) then ((), "bad-op")
    else
      let stream := (parts.map (·.getD [])).flatten
      let evs := rx (stream.length + 1) stream
      let out := evs.filterMap showEv
      ((), if out.isEmpty then "-" else joinWith "," out)
  | ("burst" :: _) => ((), "-")     -- real-TCP loopback burst: harness monitor only
  | ("soak" :: _) => ((), "-")
  | ("mesh" :: _) => ((), "-")
  | ("pace" :: _) => ((), "-")
  | _ => ((), "bad-op")

def engine : Engine := { σ := Unit, init := (), step := step }

end Vivid.Engine.FramingEngine
