import Vivid.Engine.Util
import Vivid.Model.SendLoop

/-! Driver engine `sendloop`: `reset <limit>`, `up`, `down`, `break`, `tell <seq>`, `check`. -/
namespace Vivid.Engine.SendLoopEngine
open Vivid.SendLoop Vivid.Engine

def showList (l : List Nat) : String := if l.isEmpty then "-" else joinWith "," (l.map toString)

def step (s : St) (line : String) : St × String :=
  match tokens line with
  | ["reset", l] => match l.toNat? with
    | some n => ({ limit := n }, "ok")
    | none => (s, "bad-op")
  | ["up"] => (up s, "ok")
  | ["down"] => (down s, "ok")
  | ["break"] => (break_ s, "ok")
  | ["fin"] => (break_ s, "ok")     -- an orderly close: the reader marks the connection closed, the next attempt fails
  | ["tell", q] => match q.toNat? with
    | some n => let (s1, ok) := tell s n; (s1, if ok then "sent" else "dead")
    | none => (s, "bad-op")
  | ["check"] => (s, s!"got={showList s.delivered} dead={showList s.dead} dials={s.dials}")
  | _ => (s, "bad-op")

def engine : Engine := { σ := St, init := { limit := 0 }, step := step }

end Vivid.Engine.SendLoopEngine
