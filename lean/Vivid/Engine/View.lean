import Vivid.Engine.Util
import Vivid.Engine.VV
import Vivid.Model.ClusterView

/-! Driver engine `view`: named cluster views and the operations of `ClusterView`. -/
namespace Vivid.Engine.ViewEngine
open Vivid.View Vivid.Engine

abbrev Regs := List (String × View)

def getV (r : Regs) (n : String) : View := (r.lookup n).getD Vivid.View.empty
def setV (r : Regs) (n : String) (v : View) : Regs := (n, v) :: r.filter (fun e => e.1 ≠ n)

def showMember (e : String × NodeState) : String :=
  s!"{e.1}:{e.2.gen}:{e.2.lc}:{e.2.ts}:{e.2.status}:{e.2.addr}"

def dump (v : View) : String :=
  let ms := sortBy (fun a b => a.1 ≤ b.1) v.members
  let m := if ms.isEmpty then "-" else joinWith ";" (ms.map showMember)
  s!"ep={v.epoch} ts={v.timestamp} pv={v.protocol} h={v.healthy} u={v.unhealthy} q={v.quorum} vv={VVEngine.showVV v.vv} m={m}"

def step (r : Regs) (line : String) : Regs × String :=
  match tokens line with
  | ["new", a, mx] =>
    match mx.toInt? with
    | some mx => (setV r a { Vivid.View.empty with maxVV := mx }, "ok")
    | none => (r, "bad-op")
  | ["add", a, id, gen, lc, ts, st, addr] =>
    match gen.toInt?, lc.toNat?, ts.toInt?, st.toNat? with
    | some g, some l, some t, some s =>
      let v := addMember (getV r a) { id := id, gen := g, lc := l, ts := t, status := s, addr := decodeName addr }
      (setV r a v, dump v)
    | _, _, _, _ => (r, "bad-op")
  | ["rm", a, id] =>
    let v := removeMember (getV r a) id
    (setV r a v, dump v)
  | ["inc", a, id] =>
    let v := incrementVersion (getV r a) (decodeName id)
    (setV r a v, dump v)
  | ["set", a, ep, ts, pv] =>
    match ep.toInt?, ts.toInt?, pv.toNat? with
    | some e, some t, some p =>
      let v := { getV r a with epoch := e, timestamp := t, protocol := p }
      (setV r a v, dump v)
    | _, _, _ => (r, "bad-op")
  | ["merge", a, b, strat, skew] =>
    match strat.toNat? with
    | some s =>
      let (v, ch) := mergeFrom (getV r a) (getV r b) { skip := skew = "1" && (getV r b).timestamp < 1000000, strategy := s }
      (setV r a v, s!"changed={if ch then 1 else 0} {dump v}")
    | none => (r, "bad-op")
  | ["touch", a, id, st, lc] =>
    -- the node actor updates a stored member state in place (status on suspicion / recovery, clock on refresh);
    -- counts are not recomputed by that. Only view `a` changes: the views hold their own copies of every state
    match st.toNat?, lc.toNat? with
    | some s, some l =>
      let v := getV r a
      match lookup v.members id with
      | some m =>
        let v' := { v with members := setM v.members id { m with status := s, lc := l } }
        (setV r a v', dump v')
      | none => (r, dump v)
    | _, _ => (r, "bad-op")
  | ["copy", a, b] => (setV r b (getV r a), "ok")
  | ["dump", a] => (r, dump (getV r a))
  | ["leader", a] =>
    let l := leaderAddr (getV r a)
    (r, if l = "" then "~" else l)
  | ["reset"] => ([], "ok")
  | _ => (r, "bad-op")

def engine : Engine := { σ := Regs, init := [], step := step }

end Vivid.Engine.ViewEngine
