/-! Line-protocol helpers shared by all driver engines (core Lean only). -/
namespace Vivid.Engine

/-- Split a line into non-empty space-separated tokens. -/
def tokens (line : String) : List String :=
  (line.trimAscii.toString.splitOn " ").filter (· ≠ "")

def joinWith (sep : String) (xs : List String) : String := sep.intercalate xs

def insertBy {α : Type} (le : α → α → Bool) (x : α) : List α → List α
  | [] => [x]
  | y :: t => if le x y then x :: y :: t else y :: insertBy le x t

def sortBy {α : Type} (le : α → α → Bool) : List α → List α
  | [] => []
  | x :: t => insertBy le x (sortBy le t)

def hexDigit (n : Nat) : Char :=
  if n < 10 then Char.ofNat (48 + n) else Char.ofNat (87 + n)

def hexByte (b : Nat) : String :=
  String.ofList [hexDigit (b / 16 % 16), hexDigit (b % 16)]

def toHex (bs : List Nat) : String :=
  if bs.isEmpty then "-" else String.join (bs.map hexByte)

def unhexDigit (c : Char) : Option Nat :=
  if '0' ≤ c ∧ c ≤ '9' then some (c.toNat - 48)
  else if 'a' ≤ c ∧ c ≤ 'f' then some (c.toNat - 87)
  else if 'A' ≤ c ∧ c ≤ 'F' then some (c.toNat - 55)
  else none

def fromHexAux : List Char → List Nat → Option (List Nat)
  | [], acc => some acc.reverse
  | [_], _ => none
  | a :: b :: t, acc =>
    match unhexDigit a, unhexDigit b with
    | some x, some y => fromHexAux t ((x * 16 + y) :: acc)
    | _, _ => none

def fromHex (s : String) : Option (List Nat) :=
  if s = "-" then some [] else fromHexAux s.toList []

/-- Node/name tokens: `~` is the empty string, `@N` is `'n'` repeated `N` times. -/
def decodeName (t : String) : String :=
  if t = "~" then ""
  else if t.startsWith "@" then
    match (t.drop 1).toString.toNat? with
    | some n => "".pushn 'n' n
    | none => t
  else t

/-- An engine of the line protocol: one op line in, one observation line out. -/
structure Engine where
  σ : Type
  init : σ
  step : σ → String → σ × String

end Vivid.Engine
