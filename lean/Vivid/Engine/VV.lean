import Vivid.Engine.Util
import Vivid.Model.VersionVector
import Vivid.Model.VVWire

/-! Driver engine `vv`: pure ops on version vectors. -/
namespace Vivid.Engine.VVEngine
open Vivid.VV Vivid.Engine Vivid.VVWire Vivid.Codec

def parseEntry (t : String) : Option (Node × Nat) :=
  match t.splitOn ":" with
  | [k, c] => c.toNat?.map (fun n => (decodeName k, n))
  | _ => none

def parseVV (t : String) : Option VV :=
  if t = "-" then some []
  else (t.splitOn ",").mapM parseEntry

def parseNodes (t : String) : List Node :=
  if t = "-" then [] else (t.splitOn ",").map decodeName

/-- Canonical rendering: entries sorted by key. -/
def showVV (v : VV) : String :=
  if v.isEmpty then "-"
  else joinWith "," ((sortBy (fun a b => a.1 ≤ b.1) v).map (fun e => s!"{e.1}:{e.2}"))

def showOrder : Order → String
  | .equal => "equal" | .before => "before" | .after => "after" | .concurrent => "concurrent"

/-- Bytewise lexicographic order (Go's string order). -/
def bytesLe : List Nat → List Nat → Bool
  | [], _ => true
  | _ :: _, [] => false
  | a :: s, b :: t => a < b || (a == b && bytesLe s t)

/-- What `ReadVersionVector` leaves in its map: the last entry of a name wins; rendered sorted, names in hex. -/
def showEntries (es : Entries) : String :=
  let m := es.foldl (fun acc e => acc.filter (fun x => x.1 ≠ e.1) ++ [e]) ([] : Entries)
  if m.isEmpty then "-"
  else joinWith "," ((sortBy (fun a b => bytesLe a.1 b.1) m).map (fun e => s!"{toHex e.1}:{e.2}"))

def step (_ : Unit) (line : String) : Unit × String :=
  let out :=
    match tokens line with
    | ["cmp", a, b] =>
      match parseVV a, parseVV b with
      | some a, some b => showOrder (compare a b)
      | _, _ => "bad-op"
    | ["merge", a, b] =>
      match parseVV a, parseVV b with
      | some a, some b => showVV (merge a b)
      | _, _ => "bad-op"
    | ["wide", n, k] =>
      -- W = {w0..w(n-1) ↦ 1}, E = {e0..e(k-1) ↦ 2}: size of the join, its e-components, both comparisons with E
      match n.toNat?, k.toNat? with
      | some n, some k =>
        if n > 70000 ∨ k > 8 then "bad-op" else
        let w : VV := (List.range n).map (fun i => (s!"w{i}", 1))
        let e : VV := (List.range k).map (fun i => (s!"e{i}", 2))
        let r := merge w e
        let gs := joinWith "," ((List.range k).map (fun i => toString (get r s!"e{i}")))
        s!"size={r.length} get={gs} c1={showOrder (compare r e)} c2={showOrder (compare e r)}"
      | _, _ => "bad-op"
    | ["ser", a] =>
      -- WriteVersionVector, then ReadVersionVector of the bytes written ("err": either side refuses)
      match parseVV a with
      | some a =>
        let es : Entries := (sortBy (fun x y => x.1 ≤ y.1) a).map (fun e => (nameBytes e.1, e.2))
        match encodeVV es with
        | Option.none => "err"
        | Option.some bs =>
          match decodeVV bs with
          | .ok (r, rest) => s!"{toHex bs} {showEntries r} left={rest.length}"
          | .err => "err"
      | none => "bad-op"
    | ["rd", h] =>
      match fromHex h with
      | some bs =>
        match decodeVV bs with
        | .ok (r, rest) => s!"{showEntries r} left={rest.length}"
        | .err => "err"
      | none => "bad-op"
    | ["inc", a, n] =>
      match parseVV a with
      | some a =>
        match increment a (decodeName n) with
        | .ok v => showVV v
        | .error .invalidAddr => "err:invalid"
        | .error .overflow => "err:overflow"
      | none => "bad-op"
    | ["get", a, n] =>
      match parseVV a with
      | some a => toString (get a (decodeName n))
      | none => "bad-op"
    | ["compact", a] =>
      match parseVV a with
      | some a => showVV (compact a)
      | none => "bad-op"
    | ["prune", a, m, ns] =>
      match parseVV a, m.toInt? with
      | some a, some m => showVV (pruneWithMax a (parseNodes ns) m)
      | _, _ => "bad-op"
    | _ => "bad-op"
  ((), out)

def engine : Engine := { σ := Unit, init := (), step := step }

end Vivid.Engine.VVEngine
