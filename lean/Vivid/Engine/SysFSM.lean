import Vivid.Engine.Util
import Vivid.Model.SysFSM

/-! Driver engine `sysfsm`: `new | start | stop | cancel | settle`. -/
namespace Vivid.Engine.SysFSMEngine
open Vivid.SysFSM Vivid.Engine

def showSt : St → String
  | .ready => "ready" | .readyCancelled => "ready" | .started => "started" | .stopped => "stopped"
def showRet : Ret → String
  | .ok => "ok" | .alreadyStarted => "already-started" | .alreadyStopped => "already-stopped"
  | .notStarted => "not-started" | .none => "-"

def step (s : St) (line : String) : St × String :=
  match tokens line with
  | ["new"] => (.ready, "ok")
  | ["start"] => let (s', r) := Vivid.SysFSM.step s .start; (s', s!"{showRet r} status={showSt s'}")
  | ["stop"] => let (s', r) := Vivid.SysFSM.step s .stop; (s', s!"{showRet r} status={showSt s'}")
  | ["cancel"] => let (s', _) := Vivid.SysFSM.step s .cancel; (s', s!"- status={showSt s'}")
  | ["conc", _, _] => (s, "-")       -- concurrent pair: checked by the harness monitor only
  | ["many", _, _] => (s, "-")       -- n concurrent calls of one kind: harness monitor only
  | ["busystop"] => (s, "-")         -- calls during a Stop in progress, on a system of its own: harness monitor only
  | ["selfstop"] => (s, "-")
  | ["zerostop"] => (s, "-")         -- Stop(0) / Stop(negative) with a busy actor: harness monitor only         -- Stop called from an actor's OnKill handler: harness monitor only
  | ["slowstop"] => (s, "-")         -- a Stop that times out, on a system of its own: harness monitor only
  | ["census"] => (s, "-")           -- goroutine census: harness monitor only
  | _ => (s, "bad-op")

def engine : Engine := { σ := St, init := .ready, step := step }

end Vivid.Engine.SysFSMEngine
