import Vivid.Engine.Util
import Vivid.Model.Future

/-! Driver engine `future`: lock-step with the real `Future` under the fine baton. -/
namespace Vivid.Engine.FutureEngine
open Vivid.Future Vivid.Engine

structure ES where
  fixed : Bool
  st : St
  pcs : List (Nat × Pc)

def pcName : Pc → String
  | .k0 => "k0" | .k1 => "k1" | .k2 => "k2" | .k3 => "k3" | .k4 => "k4" | .k5 => "k5"
  | .p0 => "p0" | .p1w => "p1w" | .p1 => "p1" | .w0 => "w0"

def candidates : Pc → List Label
  | .k0 => [.kCasWin, .kCasLose] | .k1 => [.kWrite] | .k2 => [.kDone] | .k3 => [.kCloser]
  | .k4 => [.kTake] | .k5 => [.kTell]
  | .p0 => [.pClosed, .pAppend] | .p1w => [.pWait] | .p1 => [.pTell] | .w0 => [.wRead]

def dst (fixed : Bool) : Label → Option Pc
  | .newCloser => some .k0 | .newPiper => some .p0 | .newWaiter => some .w0
  | .kCasWin => some .k1 | .kCasLose => none | .kWrite => some .k2 | .kDone => some .k3
  | .kCloser => some .k4 | .kTake => some .k5 | .kTell => none
  | .pClosed => some (if fixed then .p1w else .p1) | .pAppend => none | .pWait => some .p1 | .pTell => none
  | .wRead => none

def b2s (b : Bool) : String := if b then "1" else "0"

def showState (e : ES) : String :=
  let s := e.st
  let ps := sortBy (fun a b => a.1 ≤ b.1) e.pcs
  let pcs := if ps.isEmpty then "-" else joinWith "," (ps.map (fun p => s!"{p.1}:{pcName p.2}"))
  s!"closed={b2s s.closed} done={b2s s.done} fwd={s.fwd} final={s.toldFinal} zero={s.toldZero} closer={s.closerRan} rz={s.readZero} pcs={pcs}"

def firstEnabled (fixed : Bool) (s : St) : List Label → Option (Label × St)
  | [] => none
  | l :: ls => match fire fixed l s with
    | some s' => some (l, s')
    | none => firstEnabled fixed s ls

def setPc (pcs : List (Nat × Pc)) (tid : Nat) (p : Option Pc) : List (Nat × Pc) :=
  let rest := pcs.filter (fun e => e.1 ≠ tid)
  match p with
  | some p => (tid, p) :: rest
  | none => rest

def step (e : ES) (line : String) : ES × String :=
  match tokens line with
  | ["reset", f] => ({ fixed := f = "1", st := init, pcs := [] }, "ok")
  | ["new", tid, kind] =>
    match tid.toNat? with
    | none => (e, "bad-op")
    | some tid =>
      let l? : Option Label := if kind = "closer" then some .newCloser else if kind = "piper" then some .newPiper
        else if kind = "waiter" then some .newWaiter else none
      match l? with
      | none => (e, "bad-op")
      | some l =>
        match fire e.fixed l e.st with
        | some s' => let e' := { e with st := s', pcs := setPc e.pcs tid (dst e.fixed l) }; (e', showState e')
        | none => (e, "stuck")
  | ["step", tid] =>
    match tid.toNat? with
    | none => (e, "bad-op")
    | some tid =>
      match e.pcs.lookup tid with
      | none => (e, s!"no-such-thread {tid}")
      | some pc =>
        match firstEnabled e.fixed e.st (candidates pc) with
        | none => (e, s!"stuck at {pcName pc}")
        | some (l, s') => let e' := { e with st := s', pcs := setPc e.pcs tid (dst e.fixed l) }; (e', showState e')
  | _ => (e, "bad-op")

def engine : Engine := { σ := ES, init := { fixed := false, st := init, pcs := [] }, step := step }

end Vivid.Engine.FutureEngine
