import Vivid.Generated.Registry
import Vivid.Model.Messages

/-! Binding tie for C12/C13/C15: the quantifier "every registered message type" is the registry
dumped from the code now.  Every registered name either has a schema in the model or is on the
explicit list of messages tied by the implementation-side round-trip monitor only. -/
namespace Vivid.Tie
open Vivid.Codec

/-- Registered messages without a schema (arbitrary nested message / interface-typed fields). -/
def unmodelled : List String :=
  ["PipeResult", "SchedulerMessage", "clusterSingletonForwardedMessage"]

theorem registry_covered :
    ∀ n ∈ Vivid.Generated.registeredNames, (schemaOf none n).isSome = true ∨ n ∈ unmodelled := by decide

theorem schemas_are_registered :
    ∀ e ∈ schemaTable none, e.1 ∈ Vivid.Generated.registeredNames := by decide

end Vivid.Tie
