import Vivid.Generated.Constants
import Vivid.Model.VersionVector

/-! Binding tie: the constants the C16 theorems mention are the ones the code uses now. -/
namespace Vivid.Tie

theorem vv_maxCounter : Vivid.Generated.vvMaxCounterValue = Vivid.VV.maxCounter := by decide
theorem vv_maxEntries : Vivid.Generated.vvMaxEntries = Vivid.VV.maxEntries := by decide
theorem vv_maxNodeLen : Vivid.Generated.vvMaxNodeAddressLength = Vivid.VV.maxNodeLen := by decide

end Vivid.Tie
