import Vivid.Model.Lockset
import Vivid.Generated.AccessTable

/-!
# C10 — the documented-concurrent API does not race on shared memory (lockset discipline)

* `lockInv_reach`: in every reachable state of the lock model, two different threads never hold
  the same lock unless both hold it shared.
* `C10_lockset_sound`: if a table is `raceFree`, then in no reachable state are two different
  threads simultaneously at program points of two conflicting accesses (each thread holding the
  locks the table records for its access).
* `C10_table_race_free`: the table regenerated from the current source is `raceFree`
  (kernel-evaluated over the whole table).
-/
namespace Vivid.Access

theorem lockInv_step {h h' : Held} (hi : LockInv h) (st : Step h h') : LockInv h' := by
  cases st with
  | acq t l x en =>
    intro a b hab la hla mb hmb heq
    by_cases hat : a = t
    · have hbt : b ≠ t := fun hb => hab (hat.trans hb.symm)
      simp only [hat, if_true, if_neg hbt] at hla hmb
      rcases List.mem_cons.1 hla with rfl | hla'
      · have := en b hbt mb hmb heq.symm
        exact ⟨this.1, this.2⟩
      · exact hi t b (fun hh => hbt hh.symm) la hla' mb hmb heq
    · by_cases hbt : b = t
      · simp only [hbt, if_true, if_neg hat] at hla hmb
        rcases List.mem_cons.1 hmb with rfl | hmb'
        · have := en a hat la hla heq
          exact ⟨this.2, this.1⟩
        · exact hi a t hat la hla mb hmb' heq
      · simp only [if_neg hat, if_neg hbt] at hla hmb
        exact hi a b hab la hla mb hmb heq
  | rel t l =>
    intro a b hab la hla mb hmb heq
    have ha : la ∈ h a := by
      by_cases hat : a = t
      · simp only [hat, if_true] at hla; rw [hat]; exact (List.mem_filter.1 hla).1
      · simpa only [if_neg hat] using hla
    have hb : mb ∈ h b := by
      by_cases hbt : b = t
      · simp only [hbt, if_true] at hmb; rw [hbt]; exact (List.mem_filter.1 hmb).1
      · simpa only [if_neg hbt] using hmb
    exact hi a b hab la ha mb hb heq

theorem lockInv_reach {h : Held} (r : Reach h) : LockInv h := by
  induction r with
  | init => intro _ _ _ l hl; simp at hl
  | step _ st ih => exact lockInv_step ih st

/-- **C10 (lockset soundness).** With a race-free table, no reachable state has two different
threads both positioned at conflicting accesses of the table while holding the locks recorded
for them: conflicting accesses exclude each other in time. -/
theorem C10_lockset_sound (tbl : List Acc) (hrf : raceFree tbl = true) {h : Held} (r : Reach h)
    (t u : Nat) (htu : t ≠ u) (a b : Acc) (ha : a ∈ tbl) (hb : b ∈ tbl)
    (hta : ∀ l ∈ a.locks, l ∈ h t) (hub : ∀ l ∈ b.locks, l ∈ h u) :
    conflict a b = false := by
  have hok : okPair a b = true := by
    have := List.all_eq_true.1 hrf a ha
    exact List.all_eq_true.1 this b hb
  cases hc : conflict a b with
  | false => rfl
  | true =>
    exfalso
    have hp : protectedBy a b = true := by simpa [okPair, hc] using hok
    obtain ⟨l, hl, hp⟩ := List.any_eq_true.1 hp
    obtain ⟨m, hm, hp⟩ := List.any_eq_true.1 hp
    simp only [Bool.and_eq_true, beq_iff_eq, Bool.or_eq_true] at hp
    have := lockInv_reach r t u htu l (hta l hl) m (hub m hm) hp.1
    rcases hp.2 with h1 | h1
    · rw [this.1] at h1; cases h1
    · rw [this.2] at h1; cases h1

/-- The same check, grouped by field id `< n` (quadratic only within a field's rows). -/
def raceFreeFast (n : Nat) (t : List Acc) : Bool :=
  t.all (fun a => decide (a.field < n)) &&
  (List.range n).all fun f =>
    let r := t.filter (·.field == f)
    r.all fun a => r.all fun b => okPair a b

theorem okPair_of_field_ne (a b : Acc) (h : a.field ≠ b.field) : okPair a b = true := by
  have : (a.field == b.field) = false := by simpa using h
  simp [okPair, conflict, this]

theorem raceFree_of_fast (n : Nat) (t : List Acc) (h : raceFreeFast n t = true) : raceFree t = true := by
  simp only [raceFreeFast, Bool.and_eq_true] at h
  apply List.all_eq_true.2; intro a ha
  apply List.all_eq_true.2; intro b hb
  by_cases hf : a.field = b.field
  · have hlt : a.field < n := by simpa using List.all_eq_true.1 h.1 a ha
    have h1 := List.all_eq_true.1 h.2 a.field (List.mem_range.2 hlt)
    have ha' : a ∈ t.filter (·.field == a.field) := List.mem_filter.2 ⟨ha, by simp⟩
    have hb' : b ∈ t.filter (·.field == a.field) := List.mem_filter.2 ⟨hb, by simp [hf]⟩
    exact List.all_eq_true.1 (List.all_eq_true.1 h1 a ha') b hb'
  · exact okPair_of_field_ne a b hf

/-- **C10 (the current source obeys the discipline).** -/
theorem C10_table_race_free : raceFree Vivid.Generated.accessTable = true :=
  raceFree_of_fast Vivid.Generated.accessFields.length _ (by decide +kernel)

/-- Non-vacuity: the table contains conflicting, concurrently executable pairs (so the
discipline is exercised), e.g. a write and a read of one field from `any`-role code. -/
theorem C10_table_has_conflicts :
    (Vivid.Generated.accessTable.any fun a => Vivid.Generated.accessTable.any fun b => conflict a b) = true := by
  decide +kernel

/-- A table with an unprotected write is rejected (the check can fail). -/
example : raceFree [⟨0, true, false, [(1, true)], .any, 0⟩, ⟨0, false, false, [], .owner, 1⟩] = false := by decide

end Vivid.Access
