import Vivid.Proofs.ActorSys

/-!
# C03 — no user message is silently lost (handler-level theorems about M10)

Proved here: the three places where the runtime decides the fate of a user envelope that it
cannot hand to a behaviour — unknown local path at send time, target not running at handling
time, dead letter after the system has stopped.  The global conservation statement
(`C03_conservation`: for every reachable state and every user message id exactly one of queued /
stashed / processed / dead-lettered / zombie-consumed) is NOT yet proved; it is checked on every
lock-step run by the harness's quiescence monitor and stated in DESIGN.md as pending.
-/
namespace Vivid.ActorSys

/-- A message for an unknown local path (fresh ref, nobody registered) is turned into a dead
letter for the root — it is not handed to the root actor as if it were addressed to it. -/
theorem C03_unknown_path_dead_letters (s : Sys) (sender : Option Cid) (p : Path) (k : Nat)
    (hp : p ≠ "/") (hr : s.registry.lookup p = none) :
    tell s false sender (.path p) (.user k) =
      enqueue { s with nextEnv := s.nextEnv + 1 } 0
        { id := 0, sys := false, sender := some 0, msg := .deadLetter s.nextEnv true 0 } := by
  simp [tell, resolve, hp, hr, deadLetter]

/-- A user envelope handled by a context that is not running (stopping, stopped, terminated) and
is not a zombie becomes a dead letter; the behaviour is not run. -/
theorem C03_not_running_dead_letters (s : Sys) (c : Cid) (e : Env) (k : Nat)
    (hm : e.msg = .user k) (hs : e.sys = false) (hst : (s.ctx c).state ≠ .running) (hz : (s.ctx c).zombie = false) :
    handle s c e = deadLetter s e := by
  unfold handle
  simp only [hs, hz, Bool.not_false, Bool.not_true, hm]
  have : ((s.ctx c).state = St.killed ∨ (true = true ∧ (s.ctx c).state ≠ St.running)) := Or.inr ⟨rfl, hst⟩
  have h2 : ((s.ctx c).state = St.killed ∨ (s.ctx c).state ≠ St.running) ∧ True := ⟨Or.inr hst, trivial⟩
  simp only [true_and]
  rw [if_pos h2]

/-- After the actor system has stopped (root terminated), an undeliverable dead letter is
dropped: handling it changes nothing — no further work. -/
theorem C03_after_stop_dropped (s : Sys) (e : Env) (x : Nat) (u : Bool) (d : Nat)
    (hm : e.msg = .deadLetter x u d) (hst : (s.ctx 0).state = .killed) (hz : (s.ctx 0).zombie = false) :
    handle s 0 e = s := by
  unfold handle
  simp [hst, hz, hm]

/-- Non-vacuity: in the initial system a message to `/nobody` is dead-lettered. -/
example : ((tell (init true) false (some 0) (.path "/nobody") (.user 1)).ctx 0).userQ.length = 1 := by decide

end Vivid.ActorSys
