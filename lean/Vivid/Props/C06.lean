import Vivid.Proofs.ActorSys

/-!
# C06 — kill terminates the subtree, children first, once each (handler-level theorems about M10)

Proved: `cleanup` (the only place that reports an actor terminated) releases the path and
notifies the parent and every watcher exactly once each; the kill chain reaches it only with an
empty children set; a child's death notice removes only that very child (repaired); a second
kill of a stopping actor is ignored.  Global statements (all descendants terminated before the
report, termination at quiescence) are checked by the lock-step and the KILL-ONCE /
CHILDREN-FIRST / NOT-RELEASED / HALF-STOPPED monitors; the global invariant is pending.
-/
namespace Vivid.ActorSys

theorem lookup_filter_ne {α : Type} (l : List (String × α)) (p : String) :
    (l.filter (fun e => e.1 ≠ p)).lookup p = none := by
  induction l with
  | nil => rfl
  | cons e t ih =>
    obtain ⟨k, v⟩ := e
    by_cases h : k = p
    · rw [List.filter_cons_of_neg (by simp [h])]; exact ih
    · rw [List.filter_cons_of_pos (by simp [h])]
      simp only [List.lookup]
      have hb : (p == k) = false := by simp [Ne.symm h]
      rw [hb]; exact ih

theorem tellAll_registry (s : Sys) (sys : Bool) (sender : Option Cid) (ts : List Cid) (m : Msg) :
    (tellAll s sys sender ts m).registry = s.registry := by
  unfold tellAll
  induction ts generalizing s with
  | nil => rfl
  | cons t ts ih => simp only [List.foldl]; rw [ih, tell_registry]

/-- Once reported terminated, the path is released: `FindActor` fails and the name can be reused. -/
theorem C06_cleanup_releases (s : Sys) (c : Cid) :
    (cleanup s c).registry.lookup (s.ctx c).path = none := by
  unfold cleanup
  simp only [upd_registry, say_registry]
  split
  · rw [tell_registry, tellAll_registry]; exact lookup_filter_ne _ _
  · rw [tellAll_registry]; exact lookup_filter_ne _ _

/-- The kill chain reports termination (`killed-event`, i.e. `cleanup`) only when no child is
left: if children remain, `onKilled` for the actor itself changes nothing. -/
theorem C06_not_before_children (s : Sys) (c : Cid) (beh : Nat) (e : Env)
    (hz : (s.ctx c).zombie = false) (hch : (s.ctx c).children ≠ []) :
    onKilled s c beh e c = s := by
  unfold onKilled
  simp [hz, hch]

/-- A repeated kill of an actor that is already stopping runs nothing again: no behaviour, no notification, no
message; its only effect is to cancel a restart that is waiting for the children to end (the stop wins, see
`C06_kill_wins_over_restart`). -/
theorem C06_kill_once (s : Sys) (c : Cid) (e : Env) (poison : Bool)
    (hm : e.msg = .onKill poison) (hs : e.sys = true) (hz : (s.ctx c).zombie = false)
    (hst : (s.ctx c).state = .killing) :
    handle s c e = upd s c (fun x => { x with restarting := none }) := by
  unfold handle
  simp [hs, hz, hst, hm]

/-- A restart directive that reaches an actor which is already stopping (killed by its parent or anybody else
between its failure and the supervisor's decision) is ignored: a stopping actor is never brought back (the directive only
undoes the pause that came with it, so that the mail parked behind it drains into dead letters). -/
theorem C06_restart_ignored_while_stopping (s : Sys) (c : Cid) (e : Env) (poison : Bool)
    (hm : e.msg = .restart poison) (hs : e.sys = true) (hz : (s.ctx c).zombie = false)
    (hst : (s.ctx c).state = .killing) :
    handle s c e = upd s c (fun x => { x with paused := false }) := by
  unfold handle
  simp [hs, hz, hst, hm]

/-- A zombie cannot be restarted either; the directive only undoes the pause its supervisor put on the mailbox before
sending it (one-for-all restarts reach zombie siblings), so the zombie goes on consuming its mail (C09). -/
theorem C09_zombie_restart_directive_unpauses (s : Sys) (c : Cid) (e : Env) (poison : Bool)
    (hm : e.msg = .restart poison) (hz : (s.ctx c).zombie = true) (hst : (s.ctx c).state = .killed) :
    handle s c e = upd s c (fun x => { x with paused := false }) := by
  unfold handle
  simp [hz, hst, hm]

/-- The stop wins over a restart in progress: after a kill has reached an actor whose restart waits for its children,
the actor is no longer restarting, so the completion of its kill chain (`onKilled` once the last child is gone) is a
termination with clean-up, not a restart. -/
theorem C06_kill_wins_over_restart (s : Sys) (c : Cid) (e : Env) (poison : Bool)
    (hm : e.msg = .onKill poison) (hs : e.sys = true) (hz : (s.ctx c).zombie = false)
    (hst : (s.ctx c).state = .killing) :
    ((handle s c e).ctx c).restarting = none ∧ ((handle s c e).ctx c).state = .killing := by
  rw [C06_kill_once s c e poison hm hs hz hst]
  simp [upd, hst]

/-- A child's death notice removes exactly that child from the parent's children — a
re-created namesake (a different context with the same path) stays (this is the update
`onKilled` applies to `children` before anything else). -/
theorem C06_child_death_removes_only_that_child (ch : List Cid) (who other : Cid)
    (hother : other ≠ who) (hin : other ∈ ch) :
    other ∈ ch.filter (· ≠ who) ∧ who ∉ ch.filter (· ≠ who) := by
  constructor
  · exact List.mem_filter.mpr ⟨hin, by simpa using hother⟩
  · intro h; have := (List.mem_filter.mp h).2; simp at this

/-- The same for a poison-pill kill (it travels in the user queue, so an actor that is already stopping does not
execute it and it ends as a dead letter): it still cancels a restart in progress. -/
theorem C06_poison_kill_wins_over_restart (s : Sys) (c : Cid) (e : Env) (poison : Bool)
    (hm : e.msg = .onKill poison) (hs : e.sys = false) (hz : (s.ctx c).zombie = false)
    (hst : (s.ctx c).state = .killing) :
    ((handle s c e).ctx c).restarting = none ∧ ((handle s c e).ctx c).state = .killing := by
  unfold handle
  simp only [hs, hz, hst, hm]
  simp only [deadLetter, enqueue, upd]
  by_cases h0 : c = 0
  · subst h0; simp [hst]
  · simp [h0, hst]

end Vivid.ActorSys
