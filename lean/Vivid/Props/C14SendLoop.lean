import Vivid.Model.SendLoop

/-!
# C14 — the send loop (retry budget, dead letters, recovery, subsequence)

Theorems over every environment history (`up`/`down`/`break` interleaved with `tell`s), every
retry budget.
-/
namespace Vivid.SendLoop

/-- Closed form of one attempt. -/
theorem attempt_ok_iff (s : St) :
    (attempt s).2 = true ↔ (s.conn = true ∧ s.broken = false) ∨ (s.conn = false ∧ s.peerUp = true) := by
  cases s with | mk l c b p d dl de =>
  cases c <;> cases b <;> cases p <;> simp [attempt]

/-- A failed attempt leaves no cached connection. -/
theorem attempt_fail_conn (s : St) (h : (attempt s).2 = false) :
    (attempt s).1.conn = false ∧ (attempt s).1.peerUp = s.peerUp ∧ (attempt s).1.limit = s.limit := by
  cases s with | mk l c b p d dl de =>
  cases c <;> cases b <;> cases p <;> simp_all [attempt]

/-- With no cached connection and the peer away, any number of attempts fail. -/
theorem try_noconn_down (n : Nat) (s : St) (hc : s.conn = false) (hp : s.peerUp = false) :
    (try_ n s).2 = false := by
  induction n generalizing s with
  | zero =>
    cases s with | mk l c b p d dl de => simp_all [try_, attempt]
  | succ n ih =>
    have ha : (attempt s).2 = false := by
      cases s with | mk l c b p d dl de => simp_all [attempt]
    have := attempt_fail_conn s ha
    simp only [try_, ha]
    exact ih _ this.1 (by rw [this.2.1]; exact hp)

/-- With no cached connection and the peer listening, the first attempt succeeds. -/
theorem try_noconn_up (n : Nat) (s : St) (hc : s.conn = false) (hp : s.peerUp = true) :
    (try_ n s).2 = true := by
  have ha : (attempt s).2 = true := (attempt_ok_iff s).2 (Or.inr ⟨hc, hp⟩)
  cases n <;> simp [try_, ha]

/-- **C14 (dead letter exactly when the budget is exhausted).** A `tell` fails — and only then is
the message dead-lettered — exactly when all `limit + 1` attempts fail: the cached connection was
reset and there is no retry left or nobody to reconnect to, or there is no connection and the
peer refuses. -/
theorem C14_try_fails_iff (s : St) :
    (try_ s.limit s).2 = false ↔
      (s.conn = true ∧ s.broken = true ∧ (s.limit = 0 ∨ s.peerUp = false)) ∨
      (s.conn = false ∧ s.peerUp = false) := by
  cases hc : s.conn
  · cases hp : s.peerUp
    · simp [try_noconn_down _ s hc hp]
    · simp [try_noconn_up _ s hc hp]
  · cases hb : s.broken
    · have ha : (attempt s).2 = true := (attempt_ok_iff s).2 (Or.inl ⟨hc, hb⟩)
      cases hl : s.limit <;> simp [try_, ha]
    · have ha : (attempt s).2 = false := by
        cases h : (attempt s).2
        · rfl
        · have := (attempt_ok_iff s).1 h; simp_all
      have hf := attempt_fail_conn s ha
      cases hl : s.limit with
      | zero => simp [try_, ha]
      | succ n =>
        simp only [try_, ha]
        cases hp : s.peerUp
        · simp [try_noconn_down n _ hf.1 (by rw [hf.2.1]; exact hp)]
        · simp [try_noconn_up n _ hf.1 (by rw [hf.2.1]; exact hp)]

/-- **C14 (recovery).** With the peer reachable and at least one reconnect attempt configured,
every `tell` is delivered, whatever happened to the connection before. -/
theorem C14_recovers (s : St) (q : Nat) (hp : s.peerUp = true) (hl : 1 ≤ s.limit) :
    (tell s q).2 = true := by
  have h := C14_try_fails_iff s
  unfold tell
  cases ht : (try_ s.limit s).2
  · have := h.1 ht
    rcases this with ⟨_, _, h0 | h0⟩ | ⟨_, h0⟩
    · omega
    · simp_all
    · simp_all
  · cases hh : try_ s.limit s with | mk s1 ok => simp_all

/-- `try_` preserves the environment and the budget, never touches the message logs. -/
theorem attempt_frame (s : St) :
    (attempt s).1.peerUp = s.peerUp ∧ (attempt s).1.limit = s.limit ∧
    (attempt s).1.delivered = s.delivered ∧ (attempt s).1.dead = s.dead ∧
    s.dials ≤ (attempt s).1.dials ∧ (attempt s).1.dials ≤ s.dials + 1 ∧
    ((attempt s).1.dials = s.dials + 1 → (attempt s).2 = true) := by
  cases s with | mk l c b p d dl de =>
  cases c <;> cases b <;> cases p <;> simp [attempt]

theorem try_frame (n : Nat) (s : St) :
    (try_ n s).1.peerUp = s.peerUp ∧ (try_ n s).1.limit = s.limit ∧
    (try_ n s).1.delivered = s.delivered ∧ (try_ n s).1.dead = s.dead ∧
    s.dials ≤ (try_ n s).1.dials ∧ (try_ n s).1.dials ≤ s.dials + 1 := by
  induction n generalizing s with
  | zero =>
    have := attempt_frame s; simp only [try_]
    exact ⟨this.1, this.2.1, this.2.2.1, this.2.2.2.1, this.2.2.2.2.1, this.2.2.2.2.2.1⟩
  | succ n ih =>
    have ha := attempt_frame s
    simp only [try_]
    cases hok : (attempt s).2
    · have := ih (attempt s).1
      have hd : (attempt s).1.dials = s.dials := by
        have h7 := ha.2.2.2.2.2.2
        have : (attempt s).1.dials ≠ s.dials + 1 := fun h => by simp [h7 h] at hok
        omega
      simp only [Bool.false_eq_true, if_false]
      refine ⟨this.1.trans ha.1, this.2.1.trans ha.2.1, this.2.2.1.trans ha.2.2.1,
        this.2.2.2.1.trans ha.2.2.2.1, ?_, ?_⟩ <;> omega
    · simp only [if_true]
      exact ⟨ha.1, ha.2.1, ha.2.2.1, ha.2.2.2.1, ha.2.2.2.2.1, ha.2.2.2.2.2.1⟩

/-- After a failed `try_` no connection is cached. -/
theorem try_fail_conn (n : Nat) (s : St) (h : (try_ n s).2 = false) : (try_ n s).1.conn = false := by
  induction n generalizing s with
  | zero => exact (attempt_fail_conn s (by simpa [try_] using h)).1
  | succ n ih =>
    simp only [try_] at h ⊢
    cases hok : (attempt s).2
    · simp only [hok, Bool.false_eq_true, if_false] at h ⊢; exact ih _ h
    · simp [hok] at h

/-- **C14 (one fault costs at most one message).** Whatever the budget, if the peer is
listening, the `tell` right after a dead-lettered one is delivered: a broken connection is
forgotten by the attempt that met it. -/
theorem C14_next_after_dead (s : St) (q q2 : Nat) (hp : s.peerUp = true)
    (hd : (tell s q).2 = false) : (tell (tell s q).1 q2).2 = true := by
  unfold tell at hd
  cases ht : (try_ s.limit s).2
  · have hc := try_fail_conn _ s ht
    have hf := try_frame s.limit s
    have hs1 : (tell s q).1 = { (try_ s.limit s).1 with dead := (try_ s.limit s).1.dead ++ [q] } := by
      unfold tell; cases hh : try_ s.limit s with | mk s1 ok => simp_all
    rw [hs1]
    unfold tell
    have : (try_ ({ (try_ s.limit s).1 with dead := (try_ s.limit s).1.dead ++ [q] } : St).limit
        { (try_ s.limit s).1 with dead := (try_ s.limit s).1.dead ++ [q] }).2 = true :=
      try_noconn_up _ _ hc (by simp [hf.1, hp])
    cases hh : try_ ({ (try_ s.limit s).1 with dead := (try_ s.limit s).1.dead ++ [q] } : St).limit
        { (try_ s.limit s).1 with dead := (try_ s.limit s).1.dead ++ [q] } with
    | mk s2 ok => simp_all
  · cases hh : try_ s.limit s with | mk s1 ok => simp_all

/-- Sequence numbers told so far, in order. -/
def sent : List Op → List Nat
  | [] => []
  | .tell q :: t => q :: sent t
  | _ :: t => sent t

theorem tell_logs (s : St) (q : Nat) :
    ((tell s q).1.delivered = s.delivered ++ [q] ∧ (tell s q).1.dead = s.dead ∧ (tell s q).2 = true) ∨
    ((tell s q).1.delivered = s.delivered ∧ (tell s q).1.dead = s.dead ++ [q] ∧ (tell s q).2 = false) := by
  have hf := try_frame s.limit s
  unfold tell
  cases hh : try_ s.limit s with | mk s1 ok =>
  rw [hh] at hf
  cases ok <;> simp_all

theorem env_logs (s : St) (o : Op) (h : ∀ q, o ≠ .tell q) :
    (step s o).delivered = s.delivered ∧ (step s o).dead = s.dead := by
  cases o with
  | tell q => exact absurd rfl (h q)
  | brk => simp [step, break_]; split <;> simp
  | up => simp [step, up]
  | down => simp [step, down, break_]; split <;> simp

/-- `l` is an interleaving of `a` and `b` (both in order, every element used exactly once). -/
inductive Interleave : List Nat → List Nat → List Nat → Prop
  | nil : Interleave [] [] []
  | left {a b l} (x) : Interleave a b l → Interleave (a ++ [x]) b (l ++ [x])
  | right {a b l} (x) : Interleave a b l → Interleave a (b ++ [x]) (l ++ [x])

theorem partition_gen (ops : List Op) : ∀ (s : St) (pre : List Nat),
    Interleave s.delivered s.dead pre →
    Interleave (run s ops).delivered (run s ops).dead (pre ++ sent ops) := by
  induction ops with
  | nil => intro s pre h; simpa [run, sent] using h
  | cons o t ih =>
    intro s pre h
    have hr : run s (o :: t) = run (step s o) t := by simp [run]
    rw [hr]
    cases o with
    | tell q =>
      have hs : pre ++ sent (.tell q :: t) = (pre ++ [q]) ++ sent t := by simp [sent]
      rw [hs]
      apply ih
      simp only [step]
      rcases tell_logs s q with ⟨h1, h2, _⟩ | ⟨h1, h2, _⟩
      · rw [h1, h2]; exact .left q h
      · rw [h1, h2]; exact .right q h
    | brk =>
      have := env_logs s .brk (by simp)
      have hs : sent (.brk :: t) = sent t := by simp [sent]
      rw [hs]; apply ih; rw [this.1, this.2]; exact h
    | up =>
      have := env_logs s .up (by simp)
      have hs : sent (.up :: t) = sent t := by simp [sent]
      rw [hs]; apply ih; rw [this.1, this.2]; exact h
    | down =>
      have := env_logs s .down (by simp)
      have hs : sent (.down :: t) = sent t := by simp [sent]
      rw [hs]; apply ih; rw [this.1, this.2]; exact h

/-- **C14 (never duplicated, reordered or invented).** Over every history of faults and sends,
the messages the peer received and the messages dead-lettered are two disjointly-indexed,
in-order subsequences that together make up exactly what was sent: each message is delivered at
most once, or reported dead, never both, and order is preserved. -/
theorem C14_partition (s0 : St) (h0 : s0.delivered = [] ∧ s0.dead = []) (ops : List Op) :
    Interleave (run s0 ops).delivered (run s0 ops).dead (sent ops) := by
  have := partition_gen ops s0 [] (by rw [h0.1, h0.2]; exact .nil)
  simpa using this

theorem Interleave.sublist_left {a b l} (h : Interleave a b l) : a.Sublist l := by
  induction h with
  | nil => exact .slnil
  | left x _ ih => exact List.Sublist.append ih (List.Sublist.refl _)
  | right x _ ih => exact ih.trans (List.sublist_append_left _ _)

/-- Corollary in the property's words: what the peer receives is a subsequence of what was sent. -/
theorem C14_received_subsequence (s0 : St) (h0 : s0.delivered = [] ∧ s0.dead = []) (ops : List Op) :
    (run s0 ops).delivered.Sublist (sent ops) :=
  (C14_partition s0 h0 ops).sublist_left

/-- Non-vacuity: a reset connection with budget 0 costs exactly the one message that meets it. -/
example : (run { limit := 0 } [.up, .tell 0, .brk, .tell 1, .tell 2]).delivered = [0, 2] ∧
    (run { limit := 0 } [.up, .tell 0, .brk, .tell 1, .tell 2]).dead = [1] := by decide
example : (run { limit := 1 } [.up, .tell 0, .brk, .tell 1, .tell 2]).delivered = [0, 1, 2] := by decide

end Vivid.SendLoop
