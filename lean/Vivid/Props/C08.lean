import Vivid.Proofs.ActorSys

/-!
# C08 — supervision applies exactly the decided directive to exactly its targets
(handler-level theorems about M10)

Proved: who is consulted and who is targeted — one-for-one targets the failing child only,
one-for-all the supervisor's current children, no strategy configured = system default Stop of the
failing child; a failure while the actor is already stopping (own OnKill / own OnKilled / a
child's OnKilled while not running) does not trigger supervision; `failed` pauses only the failing
actor and informs only its parent.  The frame statement "no other actor is touched, for every
reachable state and escalation chain of any depth" is checked by the lock-step on the full
decision x strategy x failure-site matrix; its proof is pending.
-/
namespace Vivid.ActorSys

/-- Targets of a decision as `onSuperviseDecide` computes them. -/
def targetsOf (s : Sys) (sup failed : Cid) : List Cid :=
  if (s.ctx sup).strat = 0 ∨ (s.ctx sup).strat = 1 then [failed] else (s.ctx sup).children

/-- One-for-one (and the system default) targets exactly the failing child; one-for-all exactly
the supervisor's children at decision time. -/
theorem C08_targets (s : Sys) (sup failed : Cid) :
    ((s.ctx sup).strat = 1 → targetsOf s sup failed = [failed]) ∧
    ((s.ctx sup).strat = 0 → targetsOf s sup failed = [failed]) ∧
    ((s.ctx sup).strat = 2 → targetsOf s sup failed = (s.ctx sup).children) := by
  unfold targetsOf
  refine ⟨fun h => by simp [h], fun h => by simp [h], fun h => by simp [h]⟩

/-- `failed`: only the failing actor is paused; lifecycle state of everybody is untouched; the
only message sent goes to the parent's system queue. -/
theorem C08_failed_frame (s : Sys) (c p : Cid) (hp : (s.ctx c).parent = some p) (hne : p ≠ c) :
    ((failed s c).ctx c).paused = true ∧
    (∀ d, d ≠ c → ((failed s c).ctx d).paused = (s.ctx d).paused) ∧
    (∀ d, ((failed s c).ctx d).state = (s.ctx d).state) ∧
    (∀ d, d ≠ p → ((failed s c).ctx d).sysQ = (s.ctx d).sysQ) ∧
    ((failed s c).ctx p).sysQ = (s.ctx p).sysQ ++ [{ id := 0, sys := true, sender := some c, msg := .supervise [(c, [])] [] }] := by
  have hne' : c ≠ p := Ne.symm hne
  simp only [failed, hp, say_ctx]
  refine ⟨?_, ?_, ?_, ?_, ?_⟩
  · simp [tell, resolve, enqueue, upd, hne, hne']
  · intro d hd
    simp only [tell, resolve, enqueue, upd]
    by_cases h : d = p
    · subst h; simp [hne, hne']
    · simp [h, hd]
  · intro d
    simp only [tell, resolve, enqueue, upd]
    by_cases h : d = p
    · subst h; simp [hne, hne']
    · by_cases h2 : d = c
      · subst h2; simp [h]
      · simp [h, h2]
  · intro d hd
    simp only [tell, resolve, enqueue, upd]
    by_cases h2 : d = c
    · subst h2; simp [hd]
    · simp [hd, h2]
  · simp [tell, resolve, enqueue, upd, hne, hne']

/-- A panic while handling the actor's own OnKill never triggers supervision. -/
theorem C08_no_supervision_on_kill (s : Sys) (c : Cid) (beh : Nat) (e : Env) (poison : Bool) :
    execRecover s c beh e (.onKill poison) = (behave s c beh e (.onKill poison)).s := by
  simp only [execRecover]; split <;> rfl

/-- A panic while handling OnKilled does not trigger supervision when the message names the actor
itself, or when the actor is no longer running. -/
theorem C08_no_supervision_while_stopping (s : Sys) (c : Cid) (beh : Nat) (e : Env) (w : Cid)
    (h : w = c ∨ ((behave s c beh e (.onKilled w)).s.ctx c).state ≠ .running) :
    execRecover s c beh e (.onKilled w) = (behave s c beh e (.onKilled w)).s := by
  simp only [execRecover]
  split
  · rcases h with h | h
    · simp [h]
    · simp [h]
  · rfl

end Vivid.ActorSys
