import Vivid.Proofs.Gossip
import Vivid.Proofs.GossipSpread

/-!
# C18 — gossip membership: what is proved

Per handler (every input):
* `C18_recv_marks_sender`: after a gossip from `s`, the entry kept for address `s` is seen *now*.
* `C18_fd_keeps_fresh`, `C18_fd_removes_stale`, `C18_fd_quiet`: failure detection removes exactly
  the stale entries of other addresses; with all of them fresh it changes nothing (no membership
  change is announced).
* `C18_no_readopt`: a member we do not have, reported stale and not the sender, is not adopted.
* `C18_leader_unique`, `C18_same_leader`: the leader is a function of the set of Up addresses, so
  nodes with the same members compute the same leader and at most one address is "the leader".

Over every execution of the network (any interleaving of ticks, deliveries of any message in
flight — duplicates and arbitrary delays included —, failure-detection ticks and clock advances):
* `C18_crashed_stays_absent`: once no message from a crashed node's address is in flight and
  every record of it is older than `B`, every node that drops it after `B + T` never lists it
  again, and `C18_fd_drops_crashed`: a failure-detection tick after `B + T` drops it.

Positive direction, in a phase where no address has two incarnations in play (`OnePerAddr` of
the merged list):
* `C18_recv_never_forgets`: handling a gossip loses no member;
* `C18_recv_learns`: it adopts every entry of the view that is the sender's, already known, or
  fresh by the sender's own record — so one exchange in each direction makes two nodes' member
  sets equal on everything fresh, and a joined node spreads with every round.

Not proved (observed by the engine's settle phase instead): that *every* fair schedule reaches
the fixpoint, including phases with restarts in flight (partial).
-/
namespace Vivid.Gossip

/-! ## Handlers -/

theorem C18_fd_keeps_fresh (n : Node) (now : Nat) (m : Mem) (h : m ∈ n.mem) (hf : stale n.T now m = false) :
    m ∈ (fdTick n now).mem := by
  simp [fdTick, h, hf]

theorem C18_fd_removes_stale (n : Node) (now : Nat) (m : Mem) (ha : m.addr ≠ n.self.addr)
    (hs : stale n.T now m = true) : m ∉ (fdTick n now).mem := by
  simp [fdTick, ha, hs]

/-- With every other member fresh, a failure-detection tick changes nothing. -/
theorem C18_fd_quiet (n : Node) (now : Nat)
    (h : ∀ m ∈ n.mem, m.addr ≠ n.self.addr → stale n.T now m = false) : (fdTick n now).mem = n.mem := by
  unfold fdTick
  apply List.filter_eq_self.2
  intro m hm
  by_cases ha : m.addr = n.self.addr
  · simp [ha]
  · simp [ha, h m hm ha]

theorem refresh_target {ms : List Mem} {t e : Mem} {now : Nat} (h : e ∈ refresh ms t.id now)
    (hid : e.id = t.id) : e.seen = now := by
  unfold refresh at h
  rcases List.mem_map.1 h with ⟨x, _, rfl⟩
  by_cases hc : x.id = t.id
  · simp [hc]
  · simp [hc] at hid

/-- Heartbeat: whoever the node keeps for the sender's address after handling its gossip — the
newest incarnation there — was seen now. -/
theorem C18_recv_marks_sender (n : Node) (now s : Nat) (view : List Mem) (t : Mem)
    (h : byAddrNewest (supersede n.self (mergeView (touch n.mem s now)
        (dropStale { n with mem := touch n.mem s now } now s view))) s = some t) :
    ∀ e ∈ (handleGossip n now s view).mem, e.id = t.id → e.seen = now := by
  intro e he hid
  rw [handleGossip_eq] at he
  have ht : ∀ (ms : List Mem), byAddrNewest ms s = some t → touch ms s now = refresh ms t.id now := by
    intro ms hb; unfold touch; rw [hb]
  rw [ht _ h] at he
  exact refresh_target he hid

/-- No resurrection by hearsay. -/
theorem C18_no_readopt (n : Node) (now s : Nat) (view : List Mem) (c : Nat × Nat)
    (hm : WF n.mem) (hv : WF view)
    (habs : has n.mem c = false) (hself : c.1 ≠ n.self.addr) (hs : c.1 ≠ s)
    (hstale : ∀ e ∈ view, e.id = c → stale n.T now e = true) :
    has (handleGossip n now s view).mem c = false := by
  cases hh : has (handleGossip n now s view).mem c with
  | false => rfl
  | true =>
    exfalso
    obtain ⟨e, he, hid⟩ := List.any_eq_true.1 hh
    have hid : e.id = c := by simpa using hid
    obtain ⟨e0, hsrc, h1, _, _⟩ := handle_entry hm hv he
    have hid0 : e0.id = c := h1 ▸ hid
    rcases hsrc with h0 | ⟨h0, hk⟩
    · have : has n.mem c = true := List.any_eq_true.2 ⟨e0, h0, by simp [hid0]⟩
      rw [habs] at this; cases this
    · have ha : e0.addr = c.1 := by rw [hv e0 h0, hid0]
      rcases hk with hk | hk | hk | hk
      · exact hself (ha ▸ hk)
      · exact hs (ha ▸ hk)
      · rw [hid0, habs] at hk; cases hk
      · rw [hstale e0 h0 hid0] at hk; cases hk

/-! ## Spreading (restart-free phase) -/

theorem C18_recv_never_forgets (n : Node) (now s : Nat) (view : List Mem)
    (h1 : OnePerAddr (merged n now s view))
    (hself : ∀ e ∈ merged n now s view, e.addr = n.self.addr → e.id = n.self.id)
    (i : Nat × Nat) (hi : has n.mem i = true) : has (handleGossip n now s view).mem i = true := by
  rw [handle_has_of_clean n now s view h1 hself, hi]; rfl

theorem C18_recv_learns (n : Node) (now s : Nat) (view : List Mem)
    (h1 : OnePerAddr (merged n now s view))
    (hself : ∀ e ∈ merged n now s view, e.addr = n.self.addr → e.id = n.self.id)
    (e : Mem) (he : e ∈ view)
    (hk : e.addr = n.self.addr ∨ e.addr = s ∨ has n.mem e.id = true ∨ stale n.T now e = false) :
    has (handleGossip n now s view).mem e.id = true := by
  rw [handle_has_of_clean n now s view h1 hself]
  have : has (dropStale { n with mem := touch n.mem s now } now s view) e.id = true := by
    apply (has_true_iff _ _).2
    refine ⟨e, List.mem_filter.2 ⟨he, ?_⟩, rfl⟩
    simp only [Bool.or_eq_true, decide_eq_true_eq, Bool.not_eq_true']
    rw [touch_has]
    rcases hk with h | h | h | h
    · exact Or.inl (Or.inl (Or.inl h))
    · exact Or.inl (Or.inl (Or.inr h))
    · exact Or.inl (Or.inr h)
    · exact Or.inr h
  rw [this]; simp

/-- Non-vacuity: node 0 hears from node 1 about node 2 (fresh): it ends up listing 0, 1 and 2. -/
example :
    let n : Node := { self := ⟨(0, 1), 0, 1, 1, 1000, .up, 1000⟩,
                      mem := [⟨(0, 1), 0, 1, 1, 1000, .up, 1000⟩, ⟨(1, 1), 1, 2, 2, 1000, .up, 1000⟩],
                      seeds := [0], T := 2000 }
    (handleGossip n 1500 1 [⟨(1, 1), 1, 2, 2, 1000, .up, 1000⟩, ⟨(2, 1), 2, 2, 2, 1200, .up, 1400⟩]).mem.map (·.id)
      = [(0, 1), (1, 1), (2, 1)] := by decide

/-! ## Leader -/

def upAddrs (ms : List Mem) : List Nat := (ms.filter (·.st = .up)).map (·.addr)

def minOf (l : List Nat) : Option Nat :=
  l.foldl (fun acc a => match acc with | none => some a | some b => some (min a b)) none

theorem leader_eq (ms : List Mem) : leader ms = minOf (upAddrs ms) := rfl

theorem minOf_aux (l : List Nat) (acc : Option Nat) (r : Nat)
    (h : l.foldl (fun acc a => match acc with | none => some a | some b => some (min a b)) acc = some r) :
    (r ∈ l ∨ acc = some r) ∧ (∀ x ∈ l, r ≤ x) ∧ (∀ b, acc = some b → r ≤ b) := by
  induction l generalizing acc with
  | nil => simp at h; exact ⟨Or.inr h, by simp, fun b hb => by rw [h] at hb; cases hb; exact Nat.le_refl _⟩
  | cons a t ih =>
    simp only [List.foldl_cons] at h
    obtain ⟨h1, h2, h3⟩ := ih _ h
    cases acc with
    | none =>
      simp only at h1 h3
      have hra : r ≤ a := h3 a rfl
      refine ⟨Or.inl ?_, ?_, by simp⟩
      · rcases h1 with h1 | h1
        · exact List.mem_cons_of_mem _ h1
        · cases h1; simp
      · intro x hx
        rcases List.mem_cons.1 hx with rfl | hx
        · exact hra
        · exact h2 x hx
    | some b =>
      simp only at h1 h3
      have hm : r ≤ min a b := h3 _ rfl
      refine ⟨?_, ?_, ?_⟩
      · rcases h1 with h1 | h1
        · exact Or.inl (List.mem_cons_of_mem _ h1)
        · cases h1
          by_cases hab : a ≤ b
          · left; simp [Nat.min_def, hab]
          · right; simp [Nat.min_def, hab]
      · intro x hx
        rcases List.mem_cons.1 hx with rfl | hx
        · exact Nat.le_trans hm (Nat.min_le_left _ _)
        · exact h2 x hx
      · intro b' hb'; cases hb'; exact Nat.le_trans hm (Nat.min_le_right _ _)

theorem minOf_spec {l : List Nat} {r : Nat} (h : minOf l = some r) : r ∈ l ∧ ∀ x ∈ l, r ≤ x := by
  obtain ⟨h1, h2, _⟩ := minOf_aux l none r h
  rcases h1 with h1 | h1
  · exact ⟨h1, h2⟩
  · cases h1

theorem minOf_none_aux (l : List Nat) (acc : Option Nat)
    (h : l.foldl (fun acc a => match acc with | none => some a | some b => some (min a b)) acc = none) :
    l = [] ∧ acc = none := by
  induction l generalizing acc with
  | nil => exact ⟨rfl, by simpa using h⟩
  | cons a t ih =>
    simp only [List.foldl_cons] at h
    have := (ih _ h).2
    cases acc <;> simp at this

/-- The leader is the least Up address: a function of the *set* of Up addresses. -/
theorem C18_same_leader (v w : List Mem) (h : ∀ a, a ∈ upAddrs v ↔ a ∈ upAddrs w) :
    leader v = leader w := by
  rw [leader_eq, leader_eq]
  cases hv : minOf (upAddrs v) with
  | none =>
    have := (minOf_none_aux _ none hv).1
    cases hw : minOf (upAddrs w) with
    | none => rfl
    | some r =>
      have hr := (minOf_spec hw).1
      rw [← h r, this] at hr; cases hr
  | some r =>
    obtain ⟨hr, hmin⟩ := minOf_spec hv
    cases hw : minOf (upAddrs w) with
    | none =>
      have := (minOf_none_aux _ none hw).1
      rw [h r, this] at hr; cases hr
    | some q =>
      obtain ⟨hq, hminq⟩ := minOf_spec hw
      have h1 : r ≤ q := hmin q ((h q).2 hq)
      have h2 : q ≤ r := hminq r ((h r).1 hr)
      rw [Nat.le_antisymm h1 h2]

/-- At most one address is the leader of a view; it is an Up member of that view. -/
theorem C18_leader_unique (v : List Mem) (a b : Nat) (ha : leader v = some a) (hb : leader v = some b) :
    a = b ∧ a ∈ upAddrs v := by
  rw [ha] at hb; cases hb
  exact ⟨rfl, (minOf_spec (by rw [← leader_eq]; exact ha)).1⟩

/-! ## The network: every execution -/

structure Net where
  node : Nat → Node
  bag : List (Nat × List Mem)     -- (sender address, view) in flight: never consumed, any may be delivered
  now : Nat

inductive Step : Net → Net → Prop
  | tick (w : Net) (i : Nat) :
      Step w { w with bag := ((w.node i).self.addr, (w.node i).mem) :: w.bag }
  | recv (w : Net) (i : Nat) (m : Nat × List Mem) (hm : m ∈ w.bag) :
      Step w { w with node := fun j => if j = i then handleGossip (w.node i) w.now m.1 m.2 else w.node j }
  | fd (w : Net) (i : Nat) :
      Step w { w with node := fun j => if j = i then fdTick (w.node i) w.now else w.node j }
  | adv (w : Net) (d : Nat) : Step w { w with now := w.now + d }

/-- The crashed incarnation `c` (address `c.1`, never reused): no running node has that address,
nothing from that address is in flight, every record of `c` is at most as recent as `B`. -/
structure Gone (c : Nat × Nat) (B : Nat) (w : Net) : Prop where
  wfN : ∀ i, WF (w.node i).mem
  wfB : ∀ m ∈ w.bag, WF m.2
  noNode : ∀ i, (w.node i).self.addr ≠ c.1
  noMsg : ∀ m ∈ w.bag, m.1 ≠ c.1
  oldN : ∀ i, ∀ e ∈ (w.node i).mem, e.id = c → e.seen ≤ B
  oldB : ∀ m ∈ w.bag, ∀ e ∈ m.2, e.id = c → e.seen ≤ B

theorem handle_WF {n : Node} {now s : Nat} {view : List Mem} (hm : WF n.mem) (hv : WF view) :
    WF (handleGossip n now s view).mem := by
  intro e he
  obtain ⟨e0, hsrc, h1, h2, _⟩ := handle_entry hm hv he
  rw [h2, h1]
  rcases hsrc with h | h
  · exact hm e0 h
  · exact hv e0 h.1

theorem gone_step {c : Nat × Nat} {B : Nat} {w w' : Net} (g : Gone c B w) (st : Step w w') : Gone c B w' := by
  cases st with
  | tick i =>
    refine ⟨g.wfN, ?_, g.noNode, ?_, g.oldN, ?_⟩
    · intro m hm; rcases List.mem_cons.1 hm with rfl | hm
      · exact g.wfN i
      · exact g.wfB m hm
    · intro m hm; rcases List.mem_cons.1 hm with rfl | hm
      · exact g.noNode i
      · exact g.noMsg m hm
    · intro m hm; rcases List.mem_cons.1 hm with rfl | hm
      · exact g.oldN i
      · exact g.oldB m hm
  | recv i m hm =>
    refine ⟨?_, g.wfB, ?_, g.noMsg, ?_, g.oldB⟩
    · intro j; by_cases hj : j = i
      · simp only [hj, if_true]; exact handle_WF (g.wfN i) (g.wfB m hm)
      · simp only [hj, if_false]; exact g.wfN j
    · intro j; by_cases hj : j = i
      · simp only [hj, if_true]; simpa [handleGossip] using g.noNode i
      · simp only [hj, if_false]; exact g.noNode j
    · intro j e he hid; by_cases hj : j = i
      · simp only [hj, if_true] at he
        obtain ⟨e0, hsrc, h1, h2, h3⟩ := handle_entry (g.wfN i) (g.wfB m hm) he
        have hid0 : e0.id = c := h1 ▸ hid
        have hb : e0.seen ≤ B := by
          rcases hsrc with h | h
          · exact g.oldN i e0 h hid0
          · exact g.oldB m hm e0 h.1 hid0
        rcases h3 with h3 | ⟨h3, _⟩
        · rw [h3]; exact hb
        · -- refreshed entries sit at the sender's address, which is not `c`'s
          exfalso
          have ha : e.addr = c.1 := by
            rw [h2]
            rcases hsrc with h | h
            · rw [g.wfN i e0 h, hid0]
            · rw [g.wfB m hm e0 h.1, hid0]
          exact g.noMsg m hm (h3 ▸ ha)
      · simp only [hj, if_false] at he; exact g.oldN j e he hid
  | fd i =>
    refine ⟨?_, g.wfB, ?_, g.noMsg, ?_, g.oldB⟩
    · intro j; by_cases hj : j = i
      · simp only [hj, if_true]; exact fun e he => g.wfN i e (List.mem_filter.1 he).1
      · simp only [hj, if_false]; exact g.wfN j
    · intro j; by_cases hj : j = i
      · simp only [hj, if_true]; simpa [fdTick] using g.noNode i
      · simp only [hj, if_false]; exact g.noNode j
    · intro j e he hid; by_cases hj : j = i
      · simp only [hj, if_true] at he; exact g.oldN i e (List.mem_filter.1 he).1 hid
      · simp only [hj, if_false] at he; exact g.oldN j e he hid
  | adv d => exact ⟨g.wfN, g.wfB, g.noNode, g.noMsg, g.oldN, g.oldB⟩

inductive Steps : Net → Net → Prop
  | refl (w : Net) : Steps w w
  | tail {a b c : Net} : Steps a b → Step b c → Steps a c

theorem step_now {w w' : Net} (st : Step w w') : w.now ≤ w'.now := by
  cases st <;> simp

theorem step_T {w w' : Net} (st : Step w w') (i : Nat) : (w'.node i).T = (w.node i).T := by
  cases st with
  | tick j => rfl
  | recv j m hm => by_cases h : i = j <;> simp [h, handleGossip]
  | fd j => by_cases h : i = j <;> simp [h, fdTick]
  | adv d => rfl

/-- One step keeps `c` out of a node that does not list it, once every record of `c` is stale. -/
theorem absent_step {c : Nat × Nat} {B : Nat} {w w' : Net} (g : Gone c B w) (st : Step w w') (i : Nat)
    (hlate : B + (w.node i).T < w.now) (habs : has (w.node i).mem c = false) :
    has (w'.node i).mem c = false := by
  cases st with
  | tick j => exact habs
  | adv d => exact habs
  | fd j =>
    by_cases h : i = j
    · subst h
      simp only [if_true]
      cases hh : has (fdTick (w.node i) w.now).mem c with
      | false => rfl
      | true =>
        obtain ⟨e, he, hid⟩ := List.any_eq_true.1 hh
        have : has (w.node i).mem c = true := List.any_eq_true.2 ⟨e, (List.mem_filter.1 he).1, hid⟩
        rw [habs] at this; cases this
    · simp only [h, if_false]; exact habs
  | recv j m hm =>
    by_cases h : i = j
    · subst h
      simp only [if_true]
      apply C18_no_readopt (w.node i) w.now m.1 m.2 c (g.wfN i) (g.wfB m hm) habs
      · exact fun hc => g.noNode i hc.symm
      · exact fun hc => g.noMsg m hm hc.symm
      · intro e he hid
        have := g.oldB m hm e he hid
        simp only [stale, decide_eq_true_eq]
        omega
    · simp only [h, if_false]; exact habs

/-- **C18 (a crashed node stays absent).** From any state in which the crashed incarnation `c`
is `Gone` with bound `B`, along *every* execution: a node that does not list `c` at a time later
than `B + T` never lists it again. -/
theorem C18_crashed_stays_absent {c : Nat × Nat} {B : Nat} {w w' : Net} (g : Gone c B w) (i : Nat)
    (hlate : B + (w.node i).T < w.now) (habs : has (w.node i).mem c = false) (ex : Steps w w') :
    has (w'.node i).mem c = false ∧ Gone c B w' ∧ B + (w'.node i).T < w'.now := by
  induction ex with
  | refl => exact ⟨habs, g, hlate⟩
  | tail _ st ih =>
    obtain ⟨h1, h2, h3⟩ := ih
    refine ⟨absent_step h2 st i h3 h1, gone_step h2 st, ?_⟩
    have := step_now st
    rw [step_T st i]
    omega

/-- **C18 (and failure detection drops it).** A failure-detection tick later than `B + T` removes
every record of `c` from the node's view. -/
theorem C18_fd_drops_crashed {c : Nat × Nat} {B : Nat} {w : Net} (g : Gone c B w) (i : Nat)
    (hlate : B + (w.node i).T < w.now) : has (fdTick (w.node i) w.now).mem c = false := by
  cases hh : has (fdTick (w.node i) w.now).mem c with
  | false => rfl
  | true =>
    exfalso
    obtain ⟨e, he, hid⟩ := List.any_eq_true.1 hh
    have hid : e.id = c := by simpa using hid
    have hmem := (List.mem_filter.1 he).1
    have hkeep := (List.mem_filter.1 he).2
    have hb := g.oldN i e hmem hid
    have ha : e.addr ≠ (w.node i).self.addr := by
      rw [g.wfN i e hmem, hid]; exact fun hc => g.noNode i hc.symm
    simp only [Bool.or_eq_true, decide_eq_true_eq, Bool.not_eq_true', stale, decide_eq_false_iff_not] at hkeep
    rcases hkeep with hk | hk
    · exact ha hk
    · omega

/-- Non-vacuity: a two-node network after node 1 crashed satisfies `Gone` for it. -/
example : Gone (1, 1) 1000
    { node := fun _ => { self := ⟨(0, 1), 0, 1, 1, 1000, .up, 1000⟩,
                         mem := [⟨(0, 1), 0, 1, 1, 1000, .up, 1000⟩, ⟨(1, 1), 1, 2, 2, 1000, .up, 1000⟩],
                         seeds := [0], T := 2000 },
      bag := [], now := 4000 } := by
  refine ⟨?_, by simp, by simp, by simp, ?_, by simp⟩
  · intro i e he; simp at he; rcases he with rfl | rfl <;> rfl
  · intro i e he hid; simp at he; rcases he with rfl | rfl
    · simp at hid
    · simp

/-- Without a confirmation period the general failure-detection step is the one the theorems above
are about (the engine runs `fdTickD`; `D = 0` in every scenario without suspicion). -/
theorem C18_fdTickD_zero (n : Node) (now : Nat) : fdTickD n 0 now = fdTick n now := by
  unfold fdTickD fdTick stale
  simp

/-- With a confirmation period a member is only removed after `T + D`; before that it is kept,
at worst as Suspect. -/
theorem C18_fdD_keeps_within_confirmation (n : Node) (D now : Nat) (m : Mem) (h : m ∈ n.mem)
    (hf : ¬ m.seen + n.T + D < now) : ∃ e ∈ (fdTickD n D now).mem, e.id = m.id ∧ e.seen = m.seen := by
  unfold fdTickD
  refine ⟨_, List.mem_map.2 ⟨m, List.mem_filter.2 ⟨h, by simp [hf]⟩, rfl⟩, ?_⟩
  split <;> exact ⟨rfl, rfl⟩

/-- Direct gossip clears a suspicion: after handling a gossip from address `s`, the newest entry at
that address is not Suspect. -/
theorem C18_recv_clears_suspicion (ms : List Mem) (id : Nat × Nat) (now : Nat) (e : Mem)
    (he : e ∈ refresh ms id now) (hid : e.id = id) : e.st ≠ .suspect := by
  unfold refresh at he
  obtain ⟨m, hm, rfl⟩ := List.mem_map.1 he
  by_cases h : m.id = id
  · simp only [h, if_true]
    by_cases hs : m.st = .suspect
    · simp [hs]
    · simp [hs]
  · simp only [h, if_false] at hid

end Vivid.Gossip
