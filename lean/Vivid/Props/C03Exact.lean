import Vivid.Proofs.ActorSysCount
import Vivid.Props.C03Global

/-!
# C03 — exactly one place, over every execution of M10

`total i s` counts the envelopes that carry user message `i` in all mailboxes and stashes plus the
occurrences of `i` on the published dead-letter list.  `runE` is `run` with a ghost record of what
happened to each message a mailbox handed to `HandleEnvelop`: `processed` (the behaviour of a
running actor was run on it and did not stash it), `zombie`, `dropped` (after the root stopped),
and `dup` — one entry for every *additional* copy user code made by calling `Stash` more than
once on the same message in one handler run (stashing an envelope twice duplicates it by design).

* `C03_exact_account`: in every reachable state, for every `i`,
  `total i s + #processed i + #zombie i + #dropped i = [1 ≤ i < nextEnv] + #dup i`.
* `C03_exactly_one_place`: a message the user code never double-stashed is in **exactly one**
  place: one mailbox/stash slot (as itself or as its dead-letter notice), or published exactly once,
  or processed / zombie-consumed / dropped exactly once — and an id never handed out is nowhere.
* `C03_published_at_most_once`.
-/
namespace Vivid.ActorSys

structure GhostE where
  processed : List Nat
  zombie : List Nat
  dropped : List Nat
  dup : List Nat
  deriving Repr

/-- Stash calls of the rule the current behaviour of `c` has for user payload `k`. -/
def stashOf (s0 : Sys) (c : Cid) (k : Nat) : Nat :=
  stashCount (ruleFor ((s0.scripts.lookup ((s0.ctx c).behaviors.headD (s0.ctx c).script)).getD []) (100 + k))

/-- What is appended to the ghost record when `HandleEnvelop` of `c` is given `e` in state `s0`. -/
def deltaE (s0 : Sys) (c : Cid) (e : Env) : GhostE :=
  match carried e with
  | none => ⟨[], [], [], []⟩
  | some j =>
    if ((s0.ctx c).state = .killed ∨ (!e.sys ∧ (s0.ctx c).state ≠ .running)) ∧ !(s0.ctx c).zombie then
      match e.msg with
      | .deadLetter _ _ _ => ⟨[], [], [j], []⟩
      | _ => ⟨[], [], [], []⟩
    else if (s0.ctx c).zombie then ⟨[], [j], [], []⟩
    else
      match e.msg with
      | .user k =>
        if c = 0 then ⟨[j], [], [], []⟩
        else if stashOf s0 c k = 0 then ⟨[j], [], [], []⟩
        else ⟨[], [], [], List.replicate (stashOf s0 c k - 1) j⟩
      | _ => if c = 0 then ⟨[], [], [], []⟩ else ⟨[], [], [j], []⟩

def GhostE.app (g d : GhostE) : GhostE :=
  ⟨g.processed ++ d.processed, g.zombie ++ d.zombie, g.dropped ++ d.dropped, g.dup ++ d.dup⟩

def stepE (sg : Sys × GhostE) (o : Op) : Sys × GhostE :=
  match o with
  | .deliver c =>
    match nextMail (sg.1.ctx c) with
    | none => sg
    | some e => (handle (popMail sg.1 c) c e, sg.2.app (deltaE (popMail sg.1 c) c e))
  | o => (applyOp sg.1 o, sg.2)

def runE (fixedLaunch : Bool) (ops : List Op) : Sys × GhostE :=
  ops.foldl stepE (init fixedLaunch, ⟨[], [], [], []⟩)

theorem stepE_state (sg : Sys × GhostE) (o : Op) : (stepE sg o).1 = applyOp sg.1 o := by
  cases o with
  | deliver c =>
    simp only [stepE, applyOp, deliver_eq]
    cases nextMail (sg.1.ctx c) <;> rfl
  | _ => rfl

theorem C03_runE_state (fixedLaunch : Bool) (ops : List Op) : (runE fixedLaunch ops).1 = run fixedLaunch ops := by
  unfold runE run
  have : ∀ sg : Sys × GhostE, (ops.foldl stepE sg).1 = ops.foldl applyOp sg.1 := by
    induction ops with
    | nil => intro sg; rfl
    | cons o t ih => intro sg; simp only [List.foldl_cons]; rw [ih, stepE_state]
  exact this (init fixedLaunch, ⟨[], [], [], []⟩)

def validId (s : Sys) (i : Nat) : Nat := if 1 ≤ i ∧ i < s.nextEnv then 1 else 0

def InvE (sg : Sys × GhostE) : Prop :=
  Valid sg.1 ∧ 1 ≤ sg.1.nextEnv ∧
  ∀ i, total i sg.1 + sg.2.processed.count i + sg.2.zombie.count i + sg.2.dropped.count i = validId sg.1 i + sg.2.dup.count i

theorem validId_step {s s' : Sys} (h1 : 1 ≤ s.nextEnv) (h2 : s.nextEnv ≤ s'.nextEnv) (i : Nat) :
    validId s' i = validId s i + freshI s s' i := by
  unfold validId freshI
  split <;> split <;> split <;> omega

/-- The balance of one `HandleEnvelop`: copies added by the handler plus ghost entries for `i` equal
the popped copy plus the recorded duplicates. -/
theorem balance (s0 : Sys) (c : Cid) (e : Env) (i : Nat) :
    handleD s0 c e i + (deltaE s0 c e).processed.count i + (deltaE s0 c e).zombie.count i + (deltaE s0 c e).dropped.count i =
      (if carries i e = true then 1 else 0) + (deltaE s0 c e).dup.count i := by
  unfold handleD deltaE behD pubD carried carries
  cases hm : e.msg with
  | user k =>
    simp only [triggerOf, stashOf]
    by_cases hd : ((s0.ctx c).state = .killed ∨ (!e.sys ∧ (s0.ctx c).state ≠ .running)) ∧ !(s0.ctx c).zombie
    · simp only [hd, ↓reduceIte]
      simp
    · simp only [hd, ↓reduceIte]
      by_cases hz : (s0.ctx c).zombie = true
      · simp only [hz, ↓reduceIte]
        by_cases hi : e.id = i <;> simp [hi]
      · simp only [hz, ↓reduceIte]
        by_cases hc : c = 0
        · simp only [hc, ↓reduceIte]
          by_cases hi : e.id = i <;> simp [hi]
        · simp only [hc, ↓reduceIte]
          by_cases hs : stashCount (ruleFor ((s0.scripts.lookup ((s0.ctx c).behaviors.headD (s0.ctx c).script)).getD []) (100 + k)) = 0
          · simp only [hs, ↓reduceIte]
            by_cases hi : e.id = i <;> simp [hi]
          · simp only [hs, ↓reduceIte]
            by_cases hi : e.id = i
            · simp [hi, List.count_replicate, -List.headD_eq_head?_getD]; omega
            · simp [hi, List.count_replicate, -List.headD_eq_head?_getD]
  | deadLetter x u d =>
    cases u with
    | false => simp [triggerOf]
    | true =>
      simp only [triggerOf]
      by_cases hd : ((s0.ctx c).state = .killed ∨ (!e.sys ∧ (s0.ctx c).state ≠ .running)) ∧ !(s0.ctx c).zombie
      · simp only [hd, ↓reduceIte]
        by_cases hi : x = i <;> simp [hi]
      · simp only [hd, ↓reduceIte]
        by_cases hz : (s0.ctx c).zombie = true
        · simp only [hz, ↓reduceIte]
          by_cases hi : x = i <;> simp [hi]
        · simp only [hz, ↓reduceIte]
          by_cases hc : c = 0
          · simp only [hc, ↓reduceIte]
            by_cases hi : x = i <;> simp [hi]
          · simp only [hc, ↓reduceIte]
            by_cases hi : x = i <;> simp [hi]
  | _ => simp

theorem pop_total {s : Sys} (c : Cid) (e : Env) (hv : Valid s) (hnm : nextMail (s.ctx c) = some e) (i : Nat) :
    total i (popMail s c) + (if carries i e = true then 1 else 0) = total i s := by
  obtain ⟨_, hc0, hn0, _, _, _⟩ := pop_ok c e hv hnm
  have hcn : c < s.n := by rw [← hn0]; exact hc0.self_lt
  unfold nextMail at hnm
  split at hnm
  · rename_i e0 rest hq
    cases hnm
    have hpm : popMail s c = upd s c (fun y => { y with sysQ := rest }) := by simp only [popMail, hq]
    rw [hpm]
    have hu := total_upd i s c (fun y => { y with sysQ := rest }) hcn
    have hsplit : cntC i (s.ctx c) = cntC i ({ (s.ctx c) with sysQ := rest }) + (if carries i e = true then 1 else 0) := by
      unfold cntC
      simp only [mail, hq, List.countP_append, List.countP_cons]
      omega
    dsimp only at hsplit
    omega
  · rename_i hq
    split at hnm
    · cases hnm
    · cases hql : (s.ctx c).userQ with
      | nil => rw [hql] at hnm; cases hnm
      | cons a rest =>
        rw [hql] at hnm
        have hae : a = e := by simpa using hnm
        subst hae
        have hpm : popMail s c = upd s c (fun y => { y with userQ := rest }) := by simp only [popMail, hq, hql]
        rw [hpm]
        have hu := total_upd i s c (fun y => { y with userQ := rest }) hcn
        have hsplit : cntC i (s.ctx c) = cntC i ({ (s.ctx c) with userQ := rest }) + (if carries i a = true then 1 else 0) := by
          unfold cntC
          simp only [mail, hql, List.countP_append, List.countP_cons]
          omega
        dsimp only at hsplit
        omega

theorem invE_step (sg : Sys × GhostE) (o : Op) (hi : InvE sg) (hok : opOK sg.1 o) : InvE (stepE sg o) := by
  obtain ⟨s, g⟩ := sg
  obtain ⟨hv, h1, hall⟩ := hi
  simp only at hv h1 hall hok
  have outside : ∀ (hnd : ∀ c, o ≠ .deliver c) (hx : Acct0 s (applyOp s o)), stepE (s, g) o = (applyOp s o, g) → InvE (stepE (s, g) o) := by
    intro hnd hx heq
    rw [heq]
    refine ⟨hx.ext.valid, Nat.le_trans h1 hx.ext.next_le, fun i => ?_⟩
    simp only
    have := hx.cnt i
    rw [validId_step h1 hx.ext.next_le i, this]
    have := hall i
    omega
  cases o with
  | deliver c =>
    simp only [stepE]
    cases hnm : nextMail (s.ctx c) with
    | none => exact ⟨hv, h1, hall⟩
    | some e =>
      simp only
      obtain ⟨hv0, hc0, hn0, hx0, hd0, hmem⟩ := pop_ok c e hv hnm
      have ha := acct_handle c e hv0 hc0
      refine ⟨ha.ext.valid, Nat.le_trans (by rw [hx0]; exact h1) ha.ext.next_le, fun i => ?_⟩
      simp only [GhostE.app, List.count_append]
      have hp := pop_total c e hv hnm i
      have hcnt := ha.cnt i
      have hb := balance (popMail s c) c e i
      have hvs : validId (handle (popMail s c) c e) i = validId s i + freshI (popMail s c) (handle (popMail s c) c e) i := by
        have := validId_step (s := popMail s c) (by rw [hx0]; exact h1) ha.ext.next_le i
        rw [this]
        unfold validId; rw [hx0]
      rw [hvs, hcnt]
      have := hall i
      omega
  | spawn name script kind hooks ds => exact outside (fun c h => by cases h) (acct_actorOf 0 name script kind hooks ds hv hv.pos) rfl
  | tell t k => exact outside (fun c h => by cases h) (acct_tell false (some 0) t (.user k) hv hok (fun d hd => by cases hd; exact hv.pos) trivial rfl) rfl
  | kill t poison => exact outside (fun c h => by cases h) (acct_tell (!poison) (some 0) t (.onKill poison) hv hok (fun d hd => by cases hd; exact hv.pos) trivial rfl) rfl
  | mkref r path =>
    refine outside (fun c h => by cases h) (acct_of_ext (ext_applyOp_outside (.mkref r path) hv trivial (fun c h => by cases h)) rfl rfl rfl rfl) rfl
  | setScript sid sc => exact outside (fun c h => by cases h) (acct_rec _ hv rfl rfl rfl rfl rfl rfl rfl) rfl
  | clearLog => exact outside (fun c h => by cases h) (acct_rec _ hv rfl rfl rfl rfl rfl rfl rfl) rfl

theorem invE_run (ops : List Op) : ∀ sg : Sys × GhostE, InvE sg → WF sg.1 ops → InvE (ops.foldl stepE sg) := by
  induction ops with
  | nil => intro sg h _; exact h
  | cons o t ih =>
    intro sg h hwf
    simp only [List.foldl_cons]
    exact ih _ (invE_step sg o h hwf.1) (by rw [stepE_state]; exact hwf.2)

theorem total_init (f : Bool) (i : Nat) : total i (init f) = 0 := by
  unfold total sumTo
  simp [init, cntC, mail, rootCtx, blankCtx]

theorem invE_init (f : Bool) : InvE (init f, ⟨[], [], [], []⟩) := by
  refine ⟨valid_init f, Nat.le_refl _, fun i => ?_⟩
  simp only [List.count_nil]
  rw [total_init]
  unfold validId
  have : (init f).nextEnv = 1 := rfl
  rw [this]
  split <;> omega

/-- **C03, exactly.**  In every reachable state, for every id: the copies held in mailboxes and
stashes, the publications, and the recorded fates add up to exactly one per message ever sent —
plus one per additional `Stash` call user code made on that message in one handler run. -/
theorem C03_exact_account (fixedLaunch : Bool) (ops : List Op) (hwf : WF (init fixedLaunch) ops) (i : Nat) :
    total i (runE fixedLaunch ops).1 + (runE fixedLaunch ops).2.processed.count i +
      (runE fixedLaunch ops).2.zombie.count i + (runE fixedLaunch ops).2.dropped.count i =
    validId (runE fixedLaunch ops).1 i + (runE fixedLaunch ops).2.dup.count i :=
  (invE_run ops _ (invE_init fixedLaunch) hwf).2.2 i

/-- A message that user code never double-stashed is in exactly one place; an id that was never
handed out is nowhere. -/
theorem C03_exactly_one_place (fixedLaunch : Bool) (ops : List Op) (hwf : WF (init fixedLaunch) ops) (i : Nat)
    (hnd : i ∉ (runE fixedLaunch ops).2.dup) :
    total i (runE fixedLaunch ops).1 + (runE fixedLaunch ops).2.processed.count i +
      (runE fixedLaunch ops).2.zombie.count i + (runE fixedLaunch ops).2.dropped.count i =
    (if 1 ≤ i ∧ i < (runE fixedLaunch ops).1.nextEnv then 1 else 0) := by
  have h := C03_exact_account fixedLaunch ops hwf i
  rw [List.count_eq_zero_of_not_mem hnd] at h
  exact h

/-- A message is published as a dead letter at most once (unless user code duplicated it). -/
theorem C03_published_at_most_once (fixedLaunch : Bool) (ops : List Op) (hwf : WF (init fixedLaunch) ops) (i : Nat)
    (hnd : i ∉ (runE fixedLaunch ops).2.dup) : (runE fixedLaunch ops).1.deadLetters.count i ≤ 1 := by
  have h := C03_exactly_one_place fixedLaunch ops hwf i hnd
  have : (runE fixedLaunch ops).1.deadLetters.count i ≤ total i (runE fixedLaunch ops).1 := by
    unfold total; omega
  split at h <;> omega

/-- Non-vacuity: the run of `C03Global`'s example — one message stashed (held once), two processed,
one dead-lettered and published once; and a double stash is recorded as a duplicate. -/
example :
    let r := runE true [.setScript 1 [(101, [.stash])], .spawn "a" 1 0 0 [], .deliver 1,
      .tell (.own 1) 1, .tell (.own 1) 2, .deliver 1, .deliver 1, .kill (.own 1) false, .tell (.own 1) 3,
      .deliver 1, .deliver 1, .deliver 0, .deliver 0]
    r.2.processed = [2] ∧ r.2.dup = [] ∧ r.1.deadLetters = [3] ∧ total 1 r.1 = 1 ∧ total 2 r.1 = 0 ∧ total 3 r.1 = 1 := by
  decide

example :
    let r := runE true [.setScript 1 [(101, [.stash, .stash])], .spawn "a" 1 0 0 [], .deliver 1,
      .tell (.own 1) 1, .deliver 1]
    r.2.dup = [1] ∧ total 1 r.1 = 2 := by
  decide

end Vivid.ActorSys
