import Vivid.Props.C19C20Global
import Vivid.Proofs.ActorSysPause

/-!
# C09 / C03 — a terminated actor's mailbox is never left paused, over every execution

`C09_terminated_not_paused`: in every reachable state, an actor that is terminated, is not a
zombie and has no restart in progress does not have a paused mailbox — whatever failures,
supervision decisions (Pause commands from one-for-all strategies, escalations) and kills
preceded.  So user mail that still reaches it (through an old reference) is processed by the
mailbox, i.e. dead-lettered (`C03_not_running_dead_letters`), never held forever.
-/
namespace Vivid.ActorSys

theorem C09_terminated_not_paused (fixedLaunch : Bool) (ops : List Op) (c : Cid)
    (hk : ((run fixedLaunch ops).ctx c).state = .killed) (hz : ((run fixedLaunch ops).ctx c).zombie = false)
    (hr : ((run fixedLaunch ops).ctx c).restarting = none) : ((run fixedLaunch ops).ctx c).paused = false := by
  have : ∀ (ops : List Op), TablesInv none none (run fixedLaunch ops) ∧ PauseInv none (run fixedLaunch ops) := by
    intro ops
    unfold run
    have gen : ∀ (s : Sys), TablesInv none none s ∧ PauseInv none s →
        TablesInv none none (ops.foldl applyOp s) ∧ PauseInv none (ops.foldl applyOp s) := by
      induction ops with
      | nil => intro s h; exact h
      | cons o t ih =>
        intro s h
        apply ih
        refine ⟨tinv_applyOp s o h.1, ?_⟩
        cases o with
        | deliver c =>
          simp only [applyOp]
          cases hd : deliver s c with
          | none => exact h.2
          | some s' => exact pinv_deliver s s' c hd h.1.1 h.2
        | spawn name script kind hooks ds => exact (pinv_actorOf none s 0 name script kind hooks ds h.2).1
        | tell t k => exact pinv_sameP (sameP_tell _ _ _ _ _) h.2
        | kill t poison => exact pinv_sameP (sameP_tell _ _ _ _ _) h.2
        | mkref r path => exact pinv_sameP (sameP_rec _ rfl rfl) h.2
        | setScript sid sc => exact pinv_sameP (sameP_rec _ rfl rfl) h.2
        | clearLog => exact pinv_sameP (sameP_rec _ rfl rfl) h.2
    exact gen _ ⟨tinv_init fixedLaunch, pinv_init fixedLaunch⟩
  exact (this ops).2 c (by simp) hk hz hr

/-- Non-vacuity: a child fails (its mailbox is paused), the default strategy stops it: once
terminated it is not paused. -/
example :
    let s := run true [.setScript 1 [(100, [.panic])], .spawn "a" 1 0 0 [], .deliver 1, .tell (.own 1) 0, .deliver 1]
    let t := run true [.setScript 1 [(100, [.panic])], .spawn "a" 1 0 0 [], .deliver 1, .tell (.own 1) 0, .deliver 1,
                       .deliver 0, .deliver 1, .deliver 1]
    (s.ctx 1).paused = true ∧ (t.ctx 1).state = .killed ∧ (t.ctx 1).paused = false := by decide

end Vivid.ActorSys
