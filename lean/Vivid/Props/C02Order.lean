import Vivid.Proofs.ActorSys

/-!
# C02 — processing order at the mailbox / handler level (M10)

The ring buffer refines a FIFO list (`Props/C02.lean`).  These theorems state the remaining
clauses of C02 on the actor-system model, whose `deliver` is tied to the real mailbox policy by
the lock-step engines (mailbox engine for the policy itself, actorsys engine for its use):

* `C02_system_first`: a pending system message is handled before any pending user message,
  whatever the user queue holds;
* `C02_user_fifo`: otherwise, unless paused, the *oldest* user message is handled and the rest
  keeps its order;
* `C02_enqueue_tail`: an accepted message goes to the tail of its queue (so per-sender order is
  queue order);
* `C02_kill_is_system`, `C02_poison_is_user`: an immediate Kill travels as a system message (it
  overtakes queued user mail by `C02_system_first`), a poison Kill as a user message (it is
  processed after every user message enqueued before it by `C02_user_fifo`);
* `C02_unstash_order`: `Unstash(n)` re-enqueues exactly the first `n` stashed messages, in the
  order they were stashed, and removes exactly those from the stash (each comes back once).
-/
namespace Vivid.ActorSys

theorem C02_system_first (s : Sys) (c : Cid) (e : Env) (rest : List Env) (h : (s.ctx c).sysQ = e :: rest) :
    deliver s c = some (handle (upd s c (fun y => { y with sysQ := rest })) c e) := by
  unfold deliver; simp [h]

theorem C02_user_fifo (s : Sys) (c : Cid) (e : Env) (rest : List Env)
    (hs : (s.ctx c).sysQ = []) (hp : (s.ctx c).paused = false) (hu : (s.ctx c).userQ = e :: rest) :
    deliver s c = some (handle (upd s c (fun y => { y with userQ := rest })) c e) := by
  unfold deliver; simp [hs, hp, hu]

/-- A paused mailbox with no system message pending processes nothing (user mail is held). -/
theorem C02_paused_holds (s : Sys) (c : Cid) (hs : (s.ctx c).sysQ = []) (hp : (s.ctx c).paused = true) :
    deliver s c = none := by
  unfold deliver; simp [hs, hp]

theorem C02_enqueue_tail (s : Sys) (c : Cid) (e : Env) :
    ((enqueue s c e).ctx c).sysQ = (if e.sys then (s.ctx c).sysQ ++ [e] else (s.ctx c).sysQ) ∧
    ((enqueue s c e).ctx c).userQ = (if e.sys then (s.ctx c).userQ else (s.ctx c).userQ ++ [e]) := by
  unfold enqueue
  simp only [upd_ctx_self]
  cases e.sys <;> simp

/-- `Kill(ref, poison = false)` from a handler: a *system* message to the target. -/
theorem C02_kill_is_system (s : Sys) (self : Cid) (cur : Env) (t : String) (rest : List Action) :
    runActions s self cur (.kill t false :: rest) =
      runActions (tell s true (some self) (evalTarget s self cur t) (.onKill false)) self cur rest := by
  simp [runActions]

/-- `Kill(ref, poison = true)`: a *user* message, queued behind the user mail already there. -/
theorem C02_poison_is_user (s : Sys) (self : Cid) (cur : Env) (t : String) (rest : List Action) :
    runActions s self cur (.kill t true :: rest) =
      runActions (tell s false (some self) (evalTarget s self cur t) (.onKill true)) self cur rest := by
  simp [runActions]

theorem foldl_enqueue_queues (l : List Env) (s : Sys) (self : Cid) :
    ((l.foldl (fun acc e => enqueue acc self e) s).ctx self).userQ = (s.ctx self).userQ ++ l.filter (fun e => !e.sys) ∧
    ((l.foldl (fun acc e => enqueue acc self e) s).ctx self).sysQ = (s.ctx self).sysQ ++ l.filter (fun e => e.sys) ∧
    ((l.foldl (fun acc e => enqueue acc self e) s).ctx self).stash = (s.ctx self).stash := by
  induction l generalizing s with
  | nil => simp
  | cons e t ih =>
    simp only [List.foldl_cons]
    have h := ih (enqueue s self e)
    have hq := C02_enqueue_tail s self e
    have hst : ((enqueue s self e).ctx self).stash = (s.ctx self).stash := by
      unfold enqueue; simp only [upd_ctx_self]; split <;> rfl
    rw [h.1, h.2.1, h.2.2, hq.1, hq.2, hst]
    cases hs : e.sys <;> simp [hs, List.filter_cons]

/-- `Unstash(n)` (`n ≥ 1`): the first `n` stashed envelopes come back in stash order — user
envelopes at the tail of the user queue, in order — and exactly those leave the stash. -/
theorem C02_unstash_order (s : Sys) (self : Cid) (cur : Env) (n : Nat) (hn : 0 < n) :
    let st := (s.ctx self).stash
    let s' := (runActions s self cur [.unstash n]).s
    (s'.ctx self).userQ = (s.ctx self).userQ ++ (st.take n).filter (fun e => !e.sys) ∧
    (s'.ctx self).stash = st.drop n := by
  simp only [runActions]
  have hcnt : (if n = 0 then min 1 (s.ctx self).stash.length else min n (s.ctx self).stash.length) = min n (s.ctx self).stash.length := by
    have : n ≠ 0 := by omega
    simp [this]
  rw [hcnt]
  have h := foldl_enqueue_queues ((s.ctx self).stash.take (min n (s.ctx self).stash.length)) s self
  simp only [upd_ctx_self]
  have ht : (s.ctx self).stash.take (min n (s.ctx self).stash.length) = (s.ctx self).stash.take n := by
    rw [List.take_eq_take_iff]; omega
  have hd : (s.ctx self).stash.drop (min n (s.ctx self).stash.length) = (s.ctx self).stash.drop n := by
    by_cases hle : n ≤ (s.ctx self).stash.length
    · rw [Nat.min_eq_left hle]
    · have : (s.ctx self).stash.length ≤ n := by omega
      rw [Nat.min_eq_right this, List.drop_of_length_le (Nat.le_refl _), List.drop_of_length_le this]
  refine ⟨?_, ?_⟩
  · rw [h.1, ht]
  · rw [h.2.2, hd]

/-- Non-vacuity: two messages are stashed, then `Unstash(2)`: they are handled again, in order. -/
example :
    let s0 : Sys := { (init true) with scripts := [(1, [(100, [.stash]), (101, [.stash]), (102, [.unstash 2])])] }
    let s1 := actorOf s0 0 "a" 1 0 0 []
    let s2 := (deliver s1 1).getD s1
    let s3 := tell (tell (tell s2 false (some 0) (.own 1) (.user 0)) false (some 0) (.own 1) (.user 1)) false (some 0) (.own 1) (.user 2)
    let s4 := (deliver ((deliver ((deliver s3 1).getD s3) 1).getD s3) 1).getD s3
    ((s4.ctx 1).userQ.map (·.msg)) = [.user 0, .user 1] ∧ (s4.ctx 1).stash = [] := by decide

end Vivid.ActorSys
