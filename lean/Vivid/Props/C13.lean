import Vivid.Proofs.CodecBounds
import Vivid.Model.Messages

/-!
# C13 — the codec is total

In the model `decA`/`dec` are structurally recursive total functions with exactly two outcomes,
`ok` and `err`: there is no panic outcome and no loop to state a theorem about — that part of the
property is carried by the tie (every truncation and corruption of valid encodings plus random
bytes are decoded by the real code under `recover`, an address-space limit and an allocation
meter, and the outcome class is compared with the model's).  What is proved here is what the
model can carry: the reader only ever consumes a prefix of its input, and a successful decode
allocates at most in proportion to the bytes it consumed when every pre-sized container in the
schema is capped — which `C13_registered_capped` shows for every schema of the registry once the
member count of a cluster view is capped (the `fix:` commit; `memCap = some 65536`).
-/
namespace Vivid.Codec

/-- Two outcomes only, for every schema and every byte string. -/
theorem C13_decode_total (t : Ty) (bs : Bytes) :
    (∃ v r, dec t bs = .ok (v, r)) ∨ dec t bs = .err := by
  cases h : dec t bs with
  | ok p => exact Or.inl ⟨p.1, p.2, rfl⟩
  | err => exact Or.inr rfl

/-- The reader never consumes more than it is given, and pre-sizing is proportional:
`4 * alloc ≤ maxCap t * consumed`. -/
theorem C13_decode_alloc (t : Ty) (hc : capped t = true) (bs : Bytes) (v : V) (al : Nat) (r : Bytes)
    (h : decA t bs = .ok ((v, al), r)) :
    r.length ≤ bs.length ∧ 4 * al ≤ maxCap t * (bs.length - r.length) :=
  decA_good t hc bs v al r h

theorem lookup_mem {α : Type} (l : List (String × α)) (k : String) (v : α) (h : l.lookup k = some v) :
    v ∈ l.map (·.2) := by
  induction l with
  | nil => simp [List.lookup] at h
  | cons e t ih =>
    obtain ⟨k0, v0⟩ := e
    simp only [List.lookup] at h
    split at h
    · cases h; simp
    · simp only [List.map_cons, List.mem_cons]; exact Or.inr (ih h)

/-- With the member count capped, every schema of the model is capped, with `maxCap ≤ 65536`. -/
theorem C13_registered_capped (name : String) (t : Ty) (h : schemaOf (some 65536) name = some t) :
    capped t = true ∧ maxCap t ≤ 65536 := by
  have hm := lookup_mem _ _ _ h
  have hall : ∀ x ∈ (schemaTable (some 65536)).map (·.2), capped x = true ∧ maxCap x ≤ 65536 := by decide
  exact hall t hm

/-- The code as found (`memCap = none`) is *not* capped: `readClusterView` sized its member map
from the wire count.  Witness for the finding repaired by the `fix:` commit. -/
theorem C13_view_uncapped_witness : capped (viewTy none) = false := by decide

/-- … and a 21-byte body makes the uncapped decoder "allocate" 2^32-1 units before failing is
even possible to express: here is a successful decode whose allocation is out of all proportion
(count 0x00010000 = 65536 empty-handed members would need input; the point is the count alone). -/
example : ∃ bs v al r, decA (.list none true .unit) bs = .ok ((v, al), r) ∧ bs.length = 4 ∧ al = 3 := by
  refine ⟨[0, 0, 0, 3], _, _, _, rfl, rfl, rfl⟩

/-- The reflective reader on slices and structs (what a user's `CustomMessageReader` calls), as
repaired: no container is sized from the wire count, so the allocation bound applies to every
destination type of the table. -/
theorem C13_reflective_capped (name : String) (t : Ty) (h : (reflTable false).lookup name = some t) :
    capped t = true := by
  have hm := lookup_mem _ _ _ h
  have hall : ∀ x ∈ (reflTable false).map (·.2), capped x = true := by decide
  exact hall t hm

/-- The code as found pre-sized the slice from the wire count: uncapped, and four bytes are enough
to make it "allocate" any amount (witness for the finding repaired by the `fix:` commit). -/
theorem C13_reflective_presized_witness :
    (∀ x ∈ (reflTable true).map (·.2), capped x = false) ∧
    ∃ bs v al r, decA (.list none true (.pair .u32 .bytes)) bs = .ok ((v, al), r) ∧ bs.length = 4 + 8 * 2 ∧ al = 2 := by
  refine ⟨by decide, [0, 0, 0, 2, 0, 0, 0, 7, 0, 0, 0, 0, 0, 0, 0, 9, 0, 0, 0, 0], _, _, _, rfl, rfl, rfl⟩

/-- A failed decode leaves the destination as it was — the specification the engine's `rflinto`
operation compares the real reader with (the Go side also compares every backing array reachable
from the old value). -/
def decInto (t : Ty) (dst : V) (bs : Bytes) : V × Bool :=
  match dec t bs with
  | .ok (v, _) => (v, true)
  | .err => (dst, false)

theorem C13_failed_decode_keeps_destination (t : Ty) (dst : V) (bs : Bytes) (h : (decInto t dst bs).2 = false) :
    (decInto t dst bs).1 = dst := by
  unfold decInto at *
  cases hd : dec t bs with
  | ok p => rw [hd] at h; simp at h
  | err => rfl

end Vivid.Codec
