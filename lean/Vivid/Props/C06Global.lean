import Vivid.Proofs.ActorSysReg

/-!
# C06 — the registry, over every execution

`Op` are the steps the lock-step engine takes (one handler execution of one actor, or one
operation from outside the actor system); `run` folds them from the initial system.  The
handlers run *arbitrary scripts* (every rule table, every action list), so the statements
quantify over all user code the script language expresses, all trees and all schedules.

* `C06_registry_invariant`: in every reachable state the registry has one entry per path, each
  entry points to an existing context that carries that path, and no entry points to a
  terminated actor (other than a zombie, which keeps its name by design).
* `C06_terminated_is_released`: a terminated, non-zombie actor is not registered — its path is
  free for `FindActor` and for re-use — in every reachable state.
* `C06_lookup_alive`: whatever `FindActor` resolves is not terminated (or is a zombie).
* `C06_paths_unique`: two registered contexts never share a path.
-/
namespace Vivid.ActorSys

inductive Op where
  | deliver (c : Cid)
  | spawn (name : String) (script kind hooks : Nat) (ds : List Nat)      -- System.ActorOf
  | tell (t : Target) (k : Nat)
  | kill (t : Target) (poison : Bool)
  | mkref (r : Nat) (path : Path)
  | setScript (sid : Nat) (sc : Script)
  | clearLog

def applyOp (s : Sys) : Op → Sys
  | .deliver c => (deliver s c).getD s
  | .spawn name script kind hooks ds => actorOf s 0 name script kind hooks ds
  | .tell t k => tell s false (some 0) t (.user k)
  | .kill t poison => tell s (!poison) (some 0) t (.onKill poison)
  | .mkref r path => { s with refs := (r, path, none) :: s.refs.filter (fun e => e.1 ≠ r) }
  | .setScript sid sc => { s with scripts := (sid, sc) :: s.scripts.filter (fun e => e.1 ≠ sid) }
  | .clearLog => { s with log := [] }

def run (fixedLaunch : Bool) (ops : List Op) : Sys := ops.foldl applyOp (init fixedLaunch)

theorem regInv_applyOp (s : Sys) (o : Op) (hi : RegInv none s) : RegInv none (applyOp s o) := by
  cases o with
  | deliver c =>
    simp only [applyOp]
    cases h : deliver s c with
    | none => exact hi
    | some s' => exact regInv_deliver s s' c h hi
  | spawn name script kind hooks ds => exact regInv_actorOf none s 0 name script kind hooks ds hi
  | tell t k => exact regInv_sameCore (sameCore_tell _ _ _ _ _) hi
  | kill t poison => exact regInv_sameCore (sameCore_tell _ _ _ _ _) hi
  | mkref r path => exact regInv_sameCore (sameCore_rec _ rfl rfl rfl) hi
  | setScript sid sc => exact regInv_sameCore (sameCore_rec _ rfl rfl rfl) hi
  | clearLog => exact regInv_sameCore (sameCore_rec _ rfl rfl rfl) hi

theorem C06_registry_invariant (fixedLaunch : Bool) (ops : List Op) : RegInv none (run fixedLaunch ops) := by
  unfold run
  have : ∀ (s : Sys), RegInv none s → RegInv none (ops.foldl applyOp s) := by
    induction ops with
    | nil => intro s h; exact h
    | cons o t ih => intro s h; exact ih _ (regInv_applyOp s o h)
  exact this _ (regInv_init fixedLaunch)

theorem lookup_some_mem (l : List (Path × Cid)) (p : Path) (c : Cid) (h : l.lookup p = some c) : (p, c) ∈ l := by
  induction l with
  | nil => simp at h
  | cons e t ih =>
    obtain ⟨q, d⟩ := e
    simp only [List.lookup] at h
    split at h
    · rename_i heq
      have : p = q := by simpa using heq
      cases h; subst this; simp
    · exact List.mem_cons_of_mem _ (ih h)

/-- Whatever the registry resolves is not a terminated actor (a zombie excepted). -/
theorem C06_lookup_alive (fixedLaunch : Bool) (ops : List Op) (p : Path) (c : Cid)
    (h : (run fixedLaunch ops).registry.lookup p = some c)
    (hk : ((run fixedLaunch ops).ctx c).state = .killed) : ((run fixedLaunch ops).ctx c).zombie = true :=
  (C06_registry_invariant fixedLaunch ops).2.2 (p, c) (lookup_some_mem _ p c h) (by simp) hk

/-- Once terminated (and not a zombie) an actor is registered nowhere: its name is free again. -/
theorem C06_terminated_is_released (fixedLaunch : Bool) (ops : List Op) (c : Cid)
    (hk : ((run fixedLaunch ops).ctx c).state = .killed) (hz : ((run fixedLaunch ops).ctx c).zombie = false) :
    ∀ e ∈ (run fixedLaunch ops).registry, e.2 ≠ c := by
  intro e he hc
  have := (C06_registry_invariant fixedLaunch ops).2.2 e he (by simp) (by rw [hc]; exact hk)
  rw [hc, hz] at this; cases this

/-- Two registered contexts never share a path, and an entry's context carries the entry's path. -/
theorem C06_paths_unique (fixedLaunch : Bool) (ops : List Op) :
    ((run fixedLaunch ops).registry.map (·.1)).Nodup ∧
    ∀ e ∈ (run fixedLaunch ops).registry, ((run fixedLaunch ops).ctx e.2).path = e.1 :=
  ⟨(C06_registry_invariant fixedLaunch ops).1, fun e he => ((C06_registry_invariant fixedLaunch ops).2.1 e he).2⟩

/-- Non-vacuity: spawn `/a`, kill it, let it and the root handle their mail: `/a` is released. -/
example :
    let s := run true [.spawn "a" 0 0 0 [], .deliver 1, .kill (.own 1) false, .deliver 1, .deliver 0]
    s.registry = [] ∧ (s.ctx 1).state = .killed := by decide

end Vivid.ActorSys
