import Vivid.Model.VVWire
import Vivid.Proofs.Codec

/-! # C16 — "a vector survives serialisation unchanged"

For **every** list of entries the writer accepts, reading the written bytes gives exactly those
entries back (names, counters, order) and consumes exactly the bytes written; and the writer accepts
every vector within the documented limits — in particular counters equal to the maximum 2^63-1,
explicit zeros, 256-byte addresses and 65535 entries. -/
namespace Vivid.VVWire
open Vivid.Codec

theorem unwire_wireV (es : Entries) : unwire (wireV es) = some es := by
  induction es with
  | nil => rfl
  | cons e t ih => simp [wireV, unwire, ih]

/-- Round trip, whatever follows the vector in the buffer. -/
theorem C16_wire_roundtrip (es : Entries) (bs rest : Bytes) (h : encodeVV es = some bs) :
    decodeVV (bs ++ rest) = .ok (es, rest) := by
  unfold decodeVV
  rw [roundtrip vvTy (wireV es) bs rest h]
  simp [unwire_wireV]

theorem vlen_wireV (es : Entries) : vlen (wireV es) = es.length := by
  induction es with
  | nil => rfl
  | cons e t ih => simp [wireV, vlen, ih]

theorem encEntry_some (e : Bytes × Nat) (h : entryOK e) :
    ∃ bs, enc (.chk 0 (.pair str .u64)) (.pair (.bytes e.1) (.n e.2)) = some bs := by
  obtain ⟨h1, h2, h3, h4⟩ := h
  have hlen : e.1.length < 2 ^ 32 := by
    have : (256 : Nat) < 2 ^ 32 := by decide
    omega
  have hc : e.2 < 256 ^ 8 := by
    have : (2 : Nat) ^ 63 - 1 < 256 ^ 8 := by decide
    omega
  have hchk : chkOk 0 (.pair (.bytes e.1) (.n e.2)) = true := by
    simp [chkOk, h1, h2, h4]
  simp [enc, hchk, str, hlen, h3, encNat, hc]

theorem encList_some (es : Entries) (h : ∀ e ∈ es, entryOK e) :
    ∃ bs, encList (enc (.chk 0 (.pair str .u64))) (wireV es) = some bs := by
  induction es with
  | nil => exact ⟨[], rfl⟩
  | cons e t ih =>
    obtain ⟨a, ha⟩ := encEntry_some e (h e (by simp))
    obtain ⟨b, hb⟩ := ih (fun x hx => h x (by simp [hx]))
    exact ⟨a ++ b, by simp [wireV, encList, ha, hb]⟩

theorem enc_list_eq (cap : Option Nat) (pre : Bool) (a : Ty) (v : V) :
    enc (.list cap pre a) v =
      if vlen v < 2 ^ 32 ∧ capOk cap (vlen v) = true then (encList (enc a) v).map (fun bs => be 4 (vlen v) ++ bs)
      else Option.none := by
  cases v <;> simp [enc]

/-- Every vector within the limits is representable: the writer does not refuse it (so, by
`C16_wire_roundtrip`, it comes back unchanged). -/
theorem C16_wire_representable (es : Entries) (hn : es.length ≤ 65535) (h : ∀ e ∈ es, entryOK e) :
    ∃ bs, encodeVV es = some bs := by
  obtain ⟨b, hb⟩ := encList_some es h
  have h32 : es.length < 2 ^ 32 := by
    have : (65535 : Nat) < 2 ^ 32 := by decide
    omega
  refine ⟨be 4 es.length ++ b, ?_⟩
  unfold encodeVV vvTy
  rw [enc_list_eq, hb]
  simp [vlen_wireV, h32, capOk, hn]

/-- Both together: within the limits, serialisation followed by deserialisation is the identity. -/
theorem C16_survives_serialisation (es : Entries) (rest : Bytes) (hn : es.length ≤ 65535)
    (h : ∀ e ∈ es, entryOK e) :
    ∃ bs, encodeVV es = some bs ∧ decodeVV (bs ++ rest) = .ok (es, rest) := by
  obtain ⟨bs, hb⟩ := C16_wire_representable es hn h
  exact ⟨bs, hb, C16_wire_roundtrip es bs rest hb⟩

/-- A counter above the maximum is refused (the reader's overflow guard), the maximum itself is not. -/
theorem C16_wire_counter_guard (nm : Bytes) (c : Nat) (hc : 2 ^ 63 - 1 < c) : encodeVV [(nm, c)] = none := by
  have : ¬ c ≤ 2 ^ 63 - 1 := by omega
  unfold encodeVV vvTy
  rw [enc_list_eq]
  simp [wireV, vlen, capOk, encList, enc, chkOk, this]

/-! Non-vacuity: the maximum counter, an explicit zero and a second node, round-tripped by evaluation. -/
example : entryOK ([97], 2 ^ 63 - 1) ∧ entryOK ([98], 0) := by simp [entryOK, wellBytes]
example : decodeVV ((encodeVV [([97], 2 ^ 63 - 1), ([98], 0)]).getD [] ++ [7]) = .ok ([([97], 2 ^ 63 - 1), ([98], 0)], [7]) := by
  decide

end Vivid.VVWire
