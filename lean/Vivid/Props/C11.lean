import Vivid.Model.Framing
import Vivid.Proofs.Codec

/-!
# C11 — remote delivery over a healthy link: exactly once, in order, intact (framing core)

`C11_reassembly`: for every burst of frames (any count, any payload sizes from 1 byte to the
4 MiB limit) the receiver hands over exactly the payloads that were sent, in order, nothing
else — and by `C11_readFull_chunking` what `io.ReadFull` returns does not depend on how TCP
split or coalesced the byte stream into reads.  Kernel TCP itself, the per-connection write lock
and the mailbox FIFO on both ends are outside this model (partial; see DESIGN.md): the
`framing` engine feeds the real `tcpConnectionActor` every chunking of small bursts and runs
loopback bursts between two real systems.
-/
namespace Vivid.Framing
open Vivid.Codec

theorem take_be (p r : Bytes) : (frame p ++ r).take 4 = be 4 p.length := by
  unfold frame
  have hl : (be 4 p.length).length = 4 := be_length 4 _
  rw [List.append_assoc, List.take_append_of_le_length (by omega)]
  rw [List.take_of_length_le (by omega)]

theorem drop_be (p r : Bytes) : (frame p ++ r).drop 4 = p ++ r := by
  unfold frame
  rw [List.append_assoc]
  have hl : (be 4 p.length).length = 4 := be_length 4 _
  generalize be 4 p.length = hd at hl ⊢
  rw [← hl, List.drop_left]

/-- One well-formed frame at the head of the stream is delivered whole and the receiver
continues exactly after it. -/
theorem rx_frame (fuel : Nat) (p r : Bytes) (h0 : 0 < p.length) (hl : p.length ≤ limit) :
    rx (fuel + 1) (frame p ++ r) = .deliver p :: rx fuel r := by
  have h32 : p.length < 256 ^ 4 := by
    have : limit < 256 ^ 4 := by decide
    omega
  have hlen : (frame p ++ r).length = 4 + p.length + r.length := by
    simp [frame, be_length]; omega
  simp only [rx]
  rw [take_be, drop_be, unbe_be 4 p.length 0 h32]
  have h1 : ¬ (frame p ++ r).length = 0 := by omega
  have h2 : ¬ (frame p ++ r).length < 4 := by omega
  have h3 : ¬ (0 * 256 ^ 4 + p.length = 0) := by omega
  have h4 : ¬ (0 * 256 ^ 4 + p.length > limit) := by omega
  have h5 : ¬ ((p ++ r).length < 0 * 256 ^ 4 + p.length) := by simp
  simp only [h1, h2, h3, h4, h5, if_false]
  have e : 0 * 256 ^ 4 + p.length = p.length := by omega
  rw [e, List.take_left, List.drop_left]

def encodeAll (ps : List Bytes) : Bytes := (ps.map frame).flatten

/-- Reassembly: a burst of any length, any payload sizes within the limit, is delivered exactly
once each, in order, intact, followed by a clean end of stream. -/
theorem C11_reassembly (ps : List Bytes) (hp : ∀ p ∈ ps, 0 < p.length ∧ p.length ≤ limit) :
    ∀ fuel, ps.length < fuel → rx fuel (encodeAll ps) = ps.map .deliver ++ [.eofClean] := by
  induction ps with
  | nil =>
    intro fuel hf
    cases fuel with
    | zero => omega
    | succ f => simp [encodeAll, rx]
  | cons p t ih =>
    intro fuel hf
    cases fuel with
    | zero => omega
    | succ f =>
      have ⟨h0, hl⟩ := hp p (List.mem_cons_self ..)
      have : encodeAll (p :: t) = frame p ++ encodeAll t := by simp [encodeAll]
      rw [this, rx_frame f p _ h0 hl, ih (fun q hq => hp q (List.mem_cons_of_mem _ hq)) f (by simp at hf; omega)]
      rfl

theorem C11_delivered_exact (ps : List Bytes) (hp : ∀ p ∈ ps, 0 < p.length ∧ p.length ≤ limit) :
    delivered (rx (ps.length + 1) (encodeAll ps)) = ps := by
  rw [C11_reassembly ps hp _ (Nat.lt_succ_self _)]
  induction ps with
  | nil => rfl
  | cons p t ih =>
    simp only [List.map_cons, List.cons_append, delivered]
    rw [ih (fun q hq => hp q (List.mem_cons_of_mem _ hq))]

/-- **Several concurrent senders.**  All traffic to one address is written frame by frame under
the connection lock, so the byte stream is the concatenation of whole frames in lock order: some
interleaving `m` of the senders' sequences, each entry tagged with its sender.  Whatever that
interleaving is, the receiver delivers exactly `m`'s payloads in that order, hence for every
sender `s` exactly the payloads `s` wrote, in the order `s` wrote them. -/
theorem C11_per_sender_order (m : List (Nat × Bytes)) (hp : ∀ x ∈ m, 0 < x.2.length ∧ x.2.length ≤ limit) (s : Nat) :
    delivered (rx (m.length + 1) (encodeAll (m.map (·.2)))) = m.map (·.2) ∧
    ((m.filter (fun x => x.1 == s)).map (·.2)).Sublist (delivered (rx (m.length + 1) (encodeAll (m.map (·.2))))) := by
  have hp' : ∀ p ∈ m.map (·.2), 0 < p.length ∧ p.length ≤ limit := by
    intro p hpm
    obtain ⟨x, hx, rfl⟩ := List.mem_map.mp hpm
    exact hp x hx
  have h := C11_delivered_exact (m.map (·.2)) hp'
  rw [List.length_map] at h
  refine ⟨h, ?_⟩
  rw [h]
  exact (List.filter_sublist).map _

example : delivered (rx 4 (encodeAll ([(1, [1, 2]), (2, [9]), (1, [3])].map (·.2)))) = [[1, 2], [9], [3]] := by decide

/-- `io.ReadFull` is independent of the chunking: whatever it returns is the first `n` bytes of
the concatenation, and what is left concatenates to the rest. -/
theorem C11_readFull_chunking (f : Nat) : ∀ (cs : List Bytes) (n : Nat) (bs : Bytes) (r : List Bytes),
    readFull f cs n = some (bs, r) → bs.length = n ∧ bs ++ r.flatten = cs.flatten := by
  induction f with
  | zero => intro cs n bs r h; simp [readFull] at h
  | succ f ih =>
    intro cs n bs r h
    cases n with
    | zero => simp only [readFull] at h; cases h; simp
    | succ n =>
      cases cs with
      | nil => simp [readFull] at h
      | cons c cs =>
        cases c with
        | nil =>
          simp only [readFull] at h
          have := ih cs (n + 1) bs r h
          simpa using this
        | cons b t =>
          simp only [readFull] at h
          cases hr : readFull f (t :: cs) n with
          | none => simp [hr] at h
          | some pr =>
            obtain ⟨bs', r2⟩ := pr
            simp only [hr, Option.some.injEq, Prod.mk.injEq] at h
            obtain ⟨hb, hrr⟩ := h
            subst hb; subst hrr
            have ⟨h1, h2⟩ := ih (t :: cs) n bs' r2 hr
            refine ⟨by simp [h1], ?_⟩
            simp only [List.cons_append, List.flatten_cons] at h2 ⊢
            rw [h2]

/-- Non-vacuity: two frames coalesced into one read, and split in the middle of a length prefix. -/
example : delivered (rx 3 (encodeAll [[1, 2, 3], [9]])) = [[1, 2, 3], [9]] := by decide

end Vivid.Framing
