import Vivid.Proofs.Ring
import Vivid.Spec.Fifo

/-!
# C02 (ring part) — the growing ring buffer is a FIFO queue

For every initial size `n > 0` and every sequence of `Push`/`Pop` — any length, across any
number of growth boundaries — the ring returns exactly what a list-FIFO returns and holds
exactly its contents.
-/
namespace Vivid.Ring
open Vivid.Fifo

def step (r : Ring) : Op → Ring × Out
  | .push x => (push r x, .pushed)
  | .pop =>
    match pop r with
    | (r', none) => (r', .empty)
    | (r', some (some y)) => (r', .popped y)
    | (r', some none) => (r', .nilSlot)

def run (r : Ring) : List Op → Ring × List Out
  | [] => (r, [])
  | op :: ops =>
    let (r', o) := step r op
    let (r'', os) := run r' ops
    (r'', o :: os)

theorem C02_ring_step (r : Ring) (q : List Nat) (op : Op) (h : Rel r q) :
    (step r op).2 = (Fifo.step q op).2 ∧ Rel (step r op).1 (Fifo.step q op).1 := by
  cases op with
  | push x => exact ⟨rfl, rel_push r q x h⟩
  | pop =>
    cases q with
    | nil =>
      have := pop_empty r h
      simp only [step, this, Fifo.step]
      exact ⟨trivial, h⟩
    | cons y t =>
      have ⟨h1, h2⟩ := rel_pop r y t h
      simp only [step, Fifo.step]
      generalize hp : pop r = p at h1 h2
      obtain ⟨r', o⟩ := p
      simp only at h1 h2
      subst h1
      exact ⟨rfl, h2⟩

/-- Trace refinement from any related pair of states. -/
theorem C02_ring_run (ops : List Op) : ∀ (r : Ring) (q : List Nat), Rel r q →
    (run r ops).2 = (Fifo.run q ops).2 ∧ Rel (run r ops).1 (Fifo.run q ops).1 := by
  induction ops with
  | nil => intro r q h; exact ⟨rfl, h⟩
  | cons op ops ih =>
    intro r q h
    have ⟨h1, h2⟩ := C02_ring_step r q op h
    have ⟨h3, h4⟩ := ih _ _ h2
    simp only [run, Fifo.run]
    exact ⟨by rw [h1, h3], h4⟩

/-- The ring created by `New(n)`, `n > 0`, refines the FIFO list for every operation sequence. -/
theorem C02_ring_refines_fifo (n : Nat) (hn : 0 < n) (ops : List Op) :
    (run (new n) ops).2 = (Fifo.run [] ops).2 ∧ Rel (run (new n) ops).1 (Fifo.run [] ops).1 :=
  C02_ring_run ops (new n) [] (rel_new n hn)

/-- Pop never hands out an empty slot and never reports empty while items are queued. -/
theorem C02_ring_no_nil (n : Nat) (hn : 0 < n) (ops : List Op) :
    Out.nilSlot ∉ (run (new n) ops).2 := by
  rw [(C02_ring_refines_fifo n hn ops).1]
  generalize ([] : List Nat) = q
  induction ops generalizing q with
  | nil => simp [Fifo.run]
  | cons op ops ih =>
    simp only [Fifo.run, List.mem_cons, not_or]
    refine ⟨?_, ih _⟩
    cases op with
    | push x => simp [Fifo.step]
    | pop => cases q <;> simp [Fifo.step]

/-- Non-vacuity: a size-2 ring grows on the 2nd push and still pops in order. -/
example : (run (new 2) [.push 1, .push 2, .push 3, .pop, .pop, .pop, .pop]).2
    = [.pushed, .pushed, .pushed, .popped 1, .popped 2, .popped 3, .empty] := by
  rw [(C02_ring_refines_fifo 2 (by decide) _).1]; decide

end Vivid.Ring
