import Vivid.Model.Future

/-!
# C04 — every future completes exactly once and every forwarder gets the final result once

All theorems are over every reachable state of M11: any number of concurrent completions
(reply, error, timeout, Close), `PipeTo` calls and `Result`/`Wait` calls on one future, in any
interleaving of the statements of `close` and `PipeTo`.
-/
namespace Vivid.Future

structure Inv (fixed : Bool) (s : St) : Prop where
  won : s.won = (if s.closed then 1 else 0)
  chain : s.c .k1 + s.c .k2 + s.c .k3 + s.c .k4 + s.c .k5 ≤ s.won
  wr : s.written = true ↔ (s.closed = true ∧ s.c .k1 = 0)
  dn : s.done = true → s.written = true ∧ s.c .k2 = 0
  ran : s.closerRan + s.c .k1 + s.c .k2 + s.c .k3 = s.won
  dn2 : s.closed = true → s.c .k1 + s.c .k2 = 0 → s.done = true
  opn : s.closed = false → s.toldFinal + s.toldZero + s.inHand + s.c .p1 + s.c .p1w = 0
  cons : s.pipers = s.fwd + s.inHand + s.toldFinal + s.toldZero + s.c .p0 + s.c .p1w + s.c .p1
  taken : s.closed = true → s.c .k1 + s.c .k2 + s.c .k3 + s.c .k4 = 0 → s.fwd = 0
  hand : s.c .k5 = 0 → s.inHand = 0
  p1ok : fixed = true → 0 < s.c .p1 → s.written = true
  zero : fixed = true → s.toldZero = 0
  rz : s.readZero = 0
  nofix : fixed = false → s.c .p1w = 0

theorem inv_init (fixed : Bool) : Inv fixed init := by
  constructor <;> simp [init]

set_option maxHeartbeats 1000000 in
theorem inv_step (fixed : Bool) (l : Label) (s s' : St) (h : Inv fixed s) (hf : fire fixed l s = some s') : Inv fixed s' := by
  obtain ⟨hw, hch, hwr, hdn, hr1, hd2, hop, hco, htk, hhd, hp1, hz, hrz, hnf⟩ := h
  cases l <;> simp only [fire] at hf <;> (try split at hf) <;>
    (first
      | (cases hf; done)
      | (cases hf
         cases fixed <;> cases hc : s.closed <;> cases hwt : s.written <;> cases hd : s.done <;>
         simp only [hc, hwt, hd, mv, inc, dec, reduceCtorEq, ↓reduceIte, Bool.false_eq_true, Bool.true_eq_false,
           and_true, true_and, and_false, false_and, forall_const, false_implies, implies_true, if_true, if_false,
           true_iff, false_iff, iff_true, iff_false, not_and, not_true_eq_false, not_false_eq_true] at * <;>
         first
         | omega
         | (refine ⟨?_, ?_, ?_, ?_, ?_, ?_, ?_, ?_, ?_, ?_, ?_, ?_, ?_, ?_⟩ <;>
             (try simp only [mv, inc, dec, reduceCtorEq, ↓reduceIte, Bool.false_eq_true, Bool.true_eq_false,
               and_true, true_and, and_false, false_and, forall_const, false_implies, implies_true, if_true, if_false,
               true_iff, false_iff, iff_true, iff_false, not_and, not_true_eq_false, not_false_eq_true]) <;>
             (first | omega | (intros; omega) | (constructor <;> intros <;> omega) | trivial | skip))))

theorem inv_reach (fixed : Bool) (s : St) (h : Reach fixed s) : Inv fixed s := by
  induction h with
  | init => exact inv_init fixed
  | step l _ hf ih => exact inv_step fixed l _ _ ih hf

/-- Exactly-once completion: at most one thread ever wins the CAS, the closer callback (removal
of the registration) runs at most once — and exactly once when the completing thread is past it. -/
theorem C04_one_shot (fixed : Bool) (s : St) (h : Reach fixed s) :
    s.won ≤ 1 ∧ s.closerRan ≤ 1 ∧ (s.closed = true → s.won = 1) := by
  have i := inv_reach fixed s h
  have := i.won; have := i.ran
  cases hc : s.closed <;> simp_all <;> omega

/-- `Result`/`Wait` never return an unwritten result: `done` is only closed after the write, so
every reader sees the final value. -/
theorem C04_result_final (fixed : Bool) (s : St) (h : Reach fixed s) :
    s.readZero = 0 ∧ (s.done = true → s.written = true) :=
  ⟨(inv_reach fixed s h).rz, fun hd => ((inv_reach fixed s h).dn hd).1⟩

/-- Once completion has run its course the system keeps no registration: the closer ran. -/
theorem C04_no_registration_left (fixed : Bool) (s : St) (h : Reach fixed s) (hq : Quiescent s)
    (hc : s.closed = true) : s.closerRan = 1 := by
  have i := inv_reach fixed s h
  obtain ⟨_, h1, h2, h3, _⟩ := hq
  have := i.ran; have hw := i.won; simp only [hc, if_true] at hw
  omega

/-- Repaired `PipeTo`: when nothing is left to run, every forwarder of every `PipeTo` call has
been told the final result exactly once (or, if the future never completed, is still
registered) — none is lost, none is told twice, none sees an unwritten result. -/
theorem C04_forwarders (s : St) (h : Reach true s) (hq : Quiescent s) :
    s.toldZero = 0 ∧ (s.closed = true → s.done = true → s.toldFinal = s.pipers) ∧
    (s.closed = false → s.fwd = s.pipers) := by
  have i := inv_reach true s h
  obtain ⟨q0, q1, q2, q3, q4, q5, qp0, qp1, qd⟩ := hq
  have hz := i.zero rfl
  have hhand := i.hand q5
  have hco := i.cons
  refine ⟨hz, ?_, ?_⟩
  · intro hc
    have hd := i.dn2 hc (by omega)
    have ⟨hpw, _⟩ := qd hd
    have := i.taken hc (by omega)
    omega
  · intro hc
    have := i.opn hc
    omega

def runLabels (fixed : Bool) : List Label → St → Option St
  | [], s => some s
  | l :: ls, s => match fire fixed l s with
    | some s' => runLabels fixed ls s'
    | none => none

theorem reach_runLabels (fixed : Bool) (ls : List Label) : ∀ (s s' : St), Reach fixed s →
    runLabels fixed ls s = some s' → Reach fixed s' := by
  induction ls with
  | nil => intro s s' h e; simp only [runLabels] at e; cases e; exact h
  | cons l ls ih =>
    intro s s' h e
    simp only [runLabels] at e
    split at e
    · rename_i s1 hs1; exact ih s1 s' (Reach.step l h hs1) e
    · cases e

/-- The code as found: a `PipeTo` that runs between the CAS and the result write of `close`
tells its forwarder an unwritten result.  Witness (4 steps) for the finding repaired by the
`fix:` commit; the schedule is the replay the harness runs on the real `Future`. -/
theorem C04_pipe_zero_witness : ∃ s, Reach false s ∧ s.toldZero = 1 ∧ s.written = false := by
  have h : ∃ s, runLabels false [.newCloser, .kCasWin, .newPiper, .pClosed, .pTell] init = some s ∧
      s.toldZero = 1 ∧ s.written = false := by
    simp [runLabels, fire, init, mv, inc, dec]
  obtain ⟨s, hs, rest⟩ := h
  exact ⟨s, reach_runLabels false _ _ _ Reach.init hs, rest⟩

/-- Non-vacuity of `C04_forwarders`: under the repaired rule the same race ends with the
forwarder told the final result. -/
example : ∃ s, Reach true s ∧ Quiescent s ∧ s.closed = true ∧ s.pipers = 1 := by
  have h : ∃ s, runLabels true [.newCloser, .kCasWin, .newPiper, .pClosed, .kWrite, .kDone, .pWait, .pTell,
      .kCloser, .kTake, .kTell] init = some s ∧ Quiescent s ∧ s.closed = true ∧ s.pipers = 1 := by
    simp [runLabels, fire, init, mv, inc, dec, Quiescent]
  obtain ⟨s, hs, rest⟩ := h
  exact ⟨s, reach_runLabels true _ _ _ Reach.init hs, rest⟩

end Vivid.Future
