import Vivid.Props.C14

/-!
# C14 — end to end over a sequence of connections

A link's life is a sequence of connections. On each one the sender wrote whole frames for some
payloads `ps` (in order) and the connection was cut after `k` bytes of that stream — anywhere:
inside a length prefix, inside a body, between frames, or never (`k` ≥ the stream length).
What the remote actor receives over the whole life of the link is the concatenation of what each
connection's receiver delivered.  `C14_link_subsequence`: that is a subsequence of the
concatenation of what was written — never a corrupted, duplicated, reordered or invented
payload, for every number of connections and every cut point.  Together with `C14_partition`
(what is written is, in order, exactly the messages not dead-lettered) this is the property's
"what it receives is a subsequence of what was sent".
-/
namespace Vivid.Framing
open Vivid.Codec

/-- One connection: the payloads written on it and the byte offset at which it was cut. -/
abbrev Conn := List Bytes × Nat

def received (cs : List Conn) : List Bytes :=
  (cs.map fun c => delivered (rx (c.1.length + 1) ((encodeAll c.1).take c.2))).flatten

def written (cs : List Conn) : List Bytes := (cs.map (·.1)).flatten

theorem C14_link_subsequence (cs : List Conn)
    (hp : ∀ c ∈ cs, ∀ p ∈ c.1, 0 < p.length ∧ p.length ≤ limit) :
    (received cs).Sublist (written cs) := by
  induction cs with
  | nil => simp [received, written]
  | cons c t ih =>
    have ht := ih (fun d hd => hp d (List.mem_cons_of_mem _ hd))
    obtain ⟨m, _, hd⟩ := C14_cut_prefix c.1 (hp c (List.mem_cons_self ..)) c.2 (c.1.length + 1) (Nat.lt_succ_self _)
    simp only [received, written, List.map_cons, List.flatten_cons] at ht ⊢
    rw [hd]
    exact List.Sublist.append (List.take_sublist _ _) ht

/-- Non-vacuity: two connections, the first cut inside its second frame, the second complete. -/
example : received [([[1], [2, 3]], 7), ([[4]], 100)] = [[1], [4]] := by decide

end Vivid.Framing
