import Vivid.Proofs.Mailbox
import Vivid.Proofs.MailboxNoSpin

/-!
# C01 — one handler at a time, every accepted message handled exactly once, no lost wake-up

All theorems are about every reachable state of the transition system of
`Model/Mailbox.lean`: any number of concurrent `Enqueue` (user and system), `Pause`,
`Resume` calls, the processing goroutine finishing and restarting, and handlers that call
`Enqueue`/`Pause`/`Resume` on their own mailbox — interleaved at the granularity of single
atomic actions.  `fixed` ranges over both re-arm decisions (the code as found and the
repaired rule); everything here holds for both.
-/
namespace Vivid.Mailbox

/-- The processing token: exactly one thread is between a successful `CAS(status)` and the
next `Store(status, idle)` when `status = processing`, none otherwise. -/
theorem C01_token (fixed : Bool) (s : St) (h : Reach fixed s) :
    holders s = if s.proc then 1 else 0 := by
  rw [holders_eq]; exact (inv_reach fixed s h).token

/-- At most one handler invocation is in progress at any instant. -/
theorem C01_single_handler (fixed : Bool) (s : St) (h : Reach fixed s) : inHandler s ≤ 1 := by
  have ht := C01_token fixed s h
  have : inHandler s ≤ holders s := by unfold inHandler holders; omega
  split at ht <;> omega

/-- A handler's own `Enqueue`/`Resume` never starts a second processing goroutine. -/
theorem C01_no_nested_spawn (fixed : Bool) (s : St) (h : Reach fixed s) :
    s.c .hSpawn = 0 ∧ s.c .hRSpawn = 0 := (inv_reach fixed s h).nest

/-- Conservation (exactly once, by count): every accepted message has been handed to the
handler, or is still queued, or is in the processing goroutine's hand — never dropped,
never duplicated. -/
theorem C01_conservation (fixed : Bool) (s : St) (h : Reach fixed s) :
    s.accU = s.hndU + s.uq + s.c .cDecU + s.c .cHndU ∧
    s.accS = s.hndS + s.sq + s.c .cDecS + s.c .cHndS :=
  ⟨(inv_reach fixed s h).consU, (inv_reach fixed s h).consS⟩

/-- The counters lag the queues exactly by the threads between push and increment / pop and
decrement (this is what makes the re-arm decision sound). -/
theorem C01_counters (fixed : Bool) (s : St) (h : Reach fixed s) :
    s.num = (s.uq : Int) + s.c .cDecU - s.c .eU1 - s.c .hU1 ∧
    s.sys = (s.sq : Int) + s.c .cDecS - s.c .eS1 - s.c .hS1 :=
  ⟨(inv_reach fixed s h).cntU, (inv_reach fixed s h).cntS⟩

/-- No lost wake-up: when every call has returned and no processing goroutine is left, no
system message is queued, and — unless the mailbox is paused — no user message either:
everything accepted has been handed to the handler, *without needing any later send*. -/
theorem C01_no_lost_wakeup (fixed : Bool) (s : St) (h : Reach fixed s) (hq : Quiescent s) :
    s.sq = 0 ∧ s.hndS = s.accS ∧ (s.paused = false → s.uq = 0 ∧ s.hndU = s.accU) := by
  have hi := inv_reach fixed s h
  have hproc : s.proc = false := by
    have ht := C01_token fixed s h
    unfold holders at ht
    simp only [hq _] at ht
    cases hp : s.proc
    · rfl
    · simp [hp] at ht
  have hsq : s.sq = 0 := by
    have := hi.armedS hproc
    simp only [hq _] at this
    cases hs : s.sq with
    | zero => rfl
    | succ n => rw [hs] at this; have := this (by omega); omega
  have hcS := hi.consS
  simp only [hq _, hsq] at hcS
  refine ⟨hsq, by omega, ?_⟩
  intro hz
  have huq : s.uq = 0 := by
    have := hi.armedU hproc
    simp only [hq _] at this
    cases hs : s.uq with
    | zero => rfl
    | succ n => rw [hs] at this; have := this (by omega) hz; omega
  have hcU := hi.consU
  simp only [hq _, huq] at hcU
  exact ⟨huq, by omega⟩

/-- While paused, user messages wait: at quiescence every accepted user message is either
handled or still in the queue (none lost), and all system messages were processed. -/
theorem C01_paused_holds (fixed : Bool) (s : St) (h : Reach fixed s) (hq : Quiescent s) :
    s.accU = s.hndU + s.uq ∧ s.hndS = s.accS := by
  have hcU := (inv_reach fixed s h).consU
  simp only [hq _] at hcU
  exact ⟨by omega, (C01_no_lost_wakeup fixed s h hq).2.1⟩

/-! ## Traces; non-vacuity: a concrete reachable state with two producers mid-`Enqueue`, a paused
mailbox, and a processing goroutine between `Store(idle)` and `Load(num)`. -/

def demoTrace : List Label :=
  [.newPause, .pause, .newEnqU, .uPush, .uInc, .pCasWin, .pGo, .popSNone, .loadPPaused, .store,
   .newEnqU, .uPush, .newEnqS, .sPush]

def runLabels (fixed : Bool) : List Label → St → Option St
  | [], s => some s
  | l :: ls, s => match fire fixed l s with
    | some s' => runLabels fixed ls s'
    | none => none

theorem reach_runLabels (fixed : Bool) (ls : List Label) : ∀ (s s' : St), Reach fixed s →
    runLabels fixed ls s = some s' → Reach fixed s' := by
  induction ls with
  | nil => intro s s' h e; simp only [runLabels] at e; cases e; exact h
  | cons l ls ih =>
    intro s s' h e
    simp only [runLabels] at e
    split at e
    · rename_i s1 hs1; exact ih s1 s' (Reach.step l h hs1) e
    · cases e

/-! ## No spinning (repaired re-arm decision) -/

/-- A mailbox that has nothing it is allowed to process does no work: from any reachable
state in which only processing goroutines are left and nothing is processable (`Idle`), every
continuation that starts no new call has at most `phi` steps — every processing goroutine
leaves after at most one stale re-arm.  `phi` is a weighted count of the goroutines
(≤ 12 per goroutine). Holds for the repaired decision `system > 0 || (user > 0 && !paused)`. -/
theorem C01_no_spin (ls : List Label) : ∀ (s s' : St), Reach true s → Idle s →
    (∀ l ∈ ls, isNew l = false) → runLabels true ls s = some s' →
    ls.length ≤ phi (decide (s.uq = 0)) s.c := by
  induction ls with
  | nil => intro s s' _ _ _ _; exact Nat.zero_le _
  | cons l ls ih =>
    intro s s' hr hi hn e
    simp only [runLabels] at e
    split at e
    · rename_i s1 hs1
      have hl : isNew l = false := hn l (List.mem_cons_self ..)
      have ⟨hi1, huq, hlt⟩ := ns_step_all l hl _ s s1 (inv_reach true s hr) hi rfl hs1
      have := ih s1 s' (Reach.step l hr hs1) hi1 (fun x hx => hn x (List.mem_cons_of_mem _ hx)) e
      rw [huq] at this
      simp only [List.length_cons]
      omega
    · cases e

/-! ## The code as found spins (witness for the finding repaired by the `fix:` commit) -/

/-- The state reached by `Pause(); Enqueue(user)` once the processing goroutine has started. -/
def spinState : St :=
  { uq := 1, sq := 0, num := 1, sys := 0, proc := true, paused := true,
    accU := 1, accS := 0, hndU := 0, hndS := 0, c := fun p => if p = .cStart then 1 else 0 }

def spinPrefix : List Label := [.newPause, .pause, .newEnqU, .uPush, .uInc, .pCasWin, .pGo]
def spinCycle : List Label := [.popSNone, .loadPPaused, .store, .loadNPos, .loadSyTNon, .reWin]

theorem st_ext {a b : St} (h1 : a.uq = b.uq) (h2 : a.sq = b.sq) (h3 : a.num = b.num) (h4 : a.sys = b.sys)
    (h5 : a.proc = b.proc) (h6 : a.paused = b.paused) (h7 : a.accU = b.accU) (h8 : a.accS = b.accS)
    (h9 : a.hndU = b.hndU) (h10 : a.hndS = b.hndS) (h11 : ∀ p, a.c p = b.c p) : a = b := by
  cases a; cases b; simp only [St.mk.injEq] at *
  exact ⟨h1, h2, h3, h4, h5, h6, h7, h8, h9, h10, funext h11⟩

theorem spin_prefix : runLabels false spinPrefix init = some spinState := by
  simp [runLabels, spinPrefix, fire, init, mv, inc, dec]
  apply st_ext <;> simp [spinState]
  intro p; cases p <;> simp [inc, dec]

theorem spin_cycle : runLabels false spinCycle spinState = some spinState := by
  simp [runLabels, spinCycle, fire, spinState, mv, inc, dec]
  funext p; cases p <;> simp [inc, dec]

theorem runLabels_append (fixed : Bool) (a b : List Label) (s : St) :
    runLabels fixed (a ++ b) s = (runLabels fixed a s).bind (runLabels fixed b) := by
  induction a generalizing s with
  | nil => simp [runLabels]
  | cons l a ih =>
    simp only [List.cons_append, runLabels]
    split
    · exact ih _
    · rfl

def cycles : Nat → List Label
  | 0 => []
  | n + 1 => spinCycle ++ cycles n

/-- With the original decision `user > 0 || system > 0` the property is false: from the
reachable idle state `spinState` (paused, one user message queued, nobody else alive) the
processing goroutine can take arbitrarily many steps without handling anything. -/
theorem C01_spin_witness_asis :
    Reach false spinState ∧ spinState.sq = 0 ∧ spinState.paused = true ∧
    ∀ n, runLabels false (cycles n) spinState = some spinState ∧ (cycles n).length = 6 * n ∧
      (∀ l ∈ cycles n, isNew l = false) := by
  refine ⟨reach_runLabels false _ _ _ Reach.init spin_prefix, rfl, rfl, ?_⟩
  intro n
  induction n with
  | zero => exact ⟨rfl, rfl, by simp [cycles]⟩
  | succ n ih =>
    obtain ⟨h1, h2, h3⟩ := ih
    refine ⟨?_, ?_, ?_⟩
    · simp only [cycles, runLabels_append, spin_cycle, Option.bind_some, h1]
    · simp only [cycles, List.length_append, h2]; simp [spinCycle]; omega
    · intro l hl
      simp only [cycles, List.mem_append] at hl
      rcases hl with hl | hl
      · simp only [spinCycle, List.mem_cons, List.not_mem_nil, or_false] at hl
        rcases hl with h | h | h | h | h | h <;> subst h <;> rfl
      · exact h3 l hl

/-- Non-vacuity of `C01_no_spin`: the same state is reachable and `Idle` under the repaired
decision, where the theorem bounds every continuation. -/
theorem spin_prefix_fixed : runLabels true spinPrefix init = some spinState := by
  simp [runLabels, spinPrefix, fire, init, mv, inc, dec]
  apply st_ext <;> simp [spinState]
  intro p; cases p <;> simp [inc, dec]

example : ∃ s, Reach false s ∧ s.paused = true ∧ s.c .eU1 = 1 ∧ s.c .eS1 = 1 ∧ s.c .cLoadN = 1 ∧ s.uq = 2 := by
  have h : ∃ s, runLabels false demoTrace init = some s ∧ s.paused = true ∧ s.c .eU1 = 1 ∧ s.c .eS1 = 1 ∧
      s.c .cLoadN = 1 ∧ s.uq = 2 := by
    simp [runLabels, demoTrace, fire, init, mv, inc, dec]
  obtain ⟨s, hs, rest⟩ := h
  exact ⟨s, reach_runLabels false _ _ _ Reach.init hs, rest⟩

end Vivid.Mailbox
