import Vivid.Props.C11

/-!
# C14 — remoting under connection faults (framing core)

`C14_cut_prefix`: if the connection breaks after any byte offset of a multi-frame stream —
inside a length prefix, inside a payload, or between frames — the receiver hands over a prefix
of the frames that were sent, each intact and in order: never a partial, corrupted, duplicated
or reordered payload.  Across reconnections the received sequence is the concatenation of such
prefixes of disjoint suffixes of the sent sequence (each frame is handed to `Write` whole and at
most once successfully — sender loop, observed by the `remote` engine), hence a subsequence.
Dead-lettering after the retry budget, recovery after the peer returns, and the fact that `Tell`
blocks during retries are runtime behaviour of the send loop: observed by the engine (partial).
-/
namespace Vivid.Framing
open Vivid.Codec

theorem frame_length (p : Bytes) : (frame p).length = 4 + p.length := by simp [frame, be_length]

/-- A stream cut inside its first frame delivers nothing. -/
theorem rx_cut_inside (fuel : Nat) (p : Bytes) (k : Nat) (hk : k < (frame p).length)
    (h0 : 0 < p.length) (hl : p.length ≤ limit) :
    delivered (rx (fuel + 1) ((frame p).take k)) = [] := by
  have h32 : p.length < 256 ^ 4 := by
    have : limit < 256 ^ 4 := by decide
    omega
  rw [frame_length] at hk
  have hlen : ((frame p).take k).length = k := by
    rw [List.length_take, frame_length]; omega
  simp only [rx, hlen]
  by_cases hk0 : k = 0
  · simp [hk0, delivered]
  · by_cases hk4 : k < 4
    · simp [hk0, hk4, delivered]
    · simp only [hk0, hk4, if_false]
      -- the 4-byte prefix is intact
      have ht : ((frame p).take k).take 4 = be 4 p.length := by
        rw [List.take_take, Nat.min_eq_left (by omega)]
        have := take_be p []
        simpa using this
      have hd : (((frame p).take k).drop 4).length = k - 4 := by
        rw [List.length_drop, hlen]
      rw [ht, unbe_be 4 p.length 0 h32]
      have e : 0 * 256 ^ 4 + p.length = p.length := by omega
      rw [e]
      have h3 : ¬ p.length = 0 := by omega
      have h4 : ¬ p.length > limit := by omega
      have h5 : (((frame p).take k).drop 4).length < p.length := by rw [hd]; omega
      rw [if_neg h3, if_neg h4, if_pos h5]
      rfl

/-- Cut after any byte: the delivered payloads are a prefix of the payloads sent. -/
theorem C14_cut_prefix (ps : List Bytes) (hp : ∀ p ∈ ps, 0 < p.length ∧ p.length ≤ limit) :
    ∀ (k fuel : Nat), ps.length < fuel →
      ∃ m, m ≤ ps.length ∧ delivered (rx fuel ((encodeAll ps).take k)) = ps.take m := by
  induction ps with
  | nil =>
    intro k fuel hf
    cases fuel with
    | zero => omega
    | succ f => exact ⟨0, Nat.le_refl _, by simp [encodeAll, rx, delivered]⟩
  | cons p t ih =>
    intro k fuel hf
    cases fuel with
    | zero => omega
    | succ f =>
      have ⟨h0, hl⟩ := hp p (List.mem_cons_self ..)
      have hs : encodeAll (p :: t) = frame p ++ encodeAll t := by simp [encodeAll]
      rw [hs]
      by_cases hk : k < (frame p).length
      · refine ⟨0, Nat.zero_le _, ?_⟩
        rw [List.take_append_of_le_length (by omega)]
        simpa using rx_cut_inside f p k hk h0 hl
      · have hk' : (frame p).length ≤ k := by omega
        rw [List.take_append, List.take_of_length_le hk']
        rw [rx_frame f p _ h0 hl]
        obtain ⟨m, hm, hd⟩ := ih (fun q hq => hp q (List.mem_cons_of_mem _ hq)) (k - (frame p).length) f
          (by simp at hf; omega)
        exact ⟨m + 1, by simp; omega, by simp [delivered, hd]⟩

/-- A frame whose payload fails to decode does not disturb the frames after it: the receiver's
framing never looks inside a payload. -/
theorem C14_resync (fuel : Nat) (garbage : Bytes) (rest : Bytes)
    (h0 : 0 < garbage.length) (hl : garbage.length ≤ limit) :
    rx (fuel + 1) (frame garbage ++ rest) = .deliver garbage :: rx fuel rest :=
  rx_frame fuel garbage rest h0 hl

/-- An oversized length prefix (a frame the sender should never have written) desynchronises the
receiver: it keeps parsing right after the 4 bytes, i.e. inside the oversized body.  Witness that
"an invalid frame does not stop later frames" relies on the sender never exceeding the limit. -/
example : delivered (rx 3 ([0, 64, 0, 1] ++ [0, 0, 0, 1, 7])) = [[7]] := by decide

end Vivid.Framing
