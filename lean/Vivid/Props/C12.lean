import Vivid.Proofs.Codec
import Vivid.Model.Messages

/-!
# C12 — the wire codec round-trips every value

`enc t v = some bs` is the well-typedness guard: it holds exactly for the values the Go writer
can represent (lengths and counts below 2^32, integers within their width, valid version-vector
entries, counts within the caps).  The theorems hold for every schema — in particular for the
schema of every registered message that has one (`Tie/Registry.lean` shows which do).
-/
namespace Vivid.Codec

/-- Every schema, every value: decoding the encoding gives the value back, and the reader
consumes exactly the bytes the writer produced (whatever follows is left untouched). -/
theorem C12_roundtrip (t : Ty) (v : V) (bs rest : Bytes) (h : enc t v = some bs) :
    dec t (bs ++ rest) = .ok (v, rest) := roundtrip t v bs rest h

/-- Primitive writer and reader agree (instances of the generic theorem, spelled out). -/
theorem C12_prim_u32 (x : Nat) (h : x < 2 ^ 32) (rest : Bytes) :
    dec .u32 (be 4 x ++ rest) = .ok (.n x, rest) := by
  apply roundtrip; simp only [enc, encNat]
  have : (256 : Nat) ^ 4 = 2 ^ 32 := by decide
  simp [this, h]

theorem C12_prim_string (bs rest : Bytes) (h1 : bs.length < 2 ^ 32) (h2 : wellBytes bs = true) :
    dec .bytes (be 4 bs.length ++ bs ++ rest) = .ok (.bytes bs, rest) := by
  apply roundtrip; simp [enc, h1, h2]

/-- `WriteMessage` / `ReadMessage`: for every name with a schema and every representable value,
the message comes back under its own name with nothing left over from its bytes. -/
theorem C12_message_roundtrip (memCap : Option Nat) (name : String) (v : V) (bs rest : Bytes)
    (known : List String) (hk : known.find? (fun k => nameBytes k = nameBytes name) = some name)
    (h : encMessage memCap name v = some bs) :
    ∃ al, decMessage memCap known (bs ++ rest) = .ok (nameBytes name) v al rest := by
  unfold encMessage at h
  cases hs : schemaOf memCap name with
  | none => simp [hs] at h
  | some t =>
    simp only [hs] at h
    cases he : enc t v with
    | none => simp [he] at h
    | some body =>
      simp only [he] at h
      have hd := roundtrip (.pair .bytes .bytes) _ bs rest h
      obtain ⟨al, hb⟩ := roundtripA t v body [] he
      simp only [List.append_nil] at hb
      exact ⟨al, by simp only [decMessage, hd, hk, hs, hb]⟩

/-- The envelope's system flag, sender and receiver (including absent ones, written as empty
strings) survive unchanged, after the message. -/
theorem C12_envelope_roundtrip (memCap : Option Nat) (name : String) (v tail : V) (bs : Bytes)
    (h : encEnvelope memCap name v tail = some bs) :
    ∃ body, enc (.pair .bytes .bytes) (.pair (.bytes body) (.bytes (nameBytes name))) ≠ none ∧
      dec (.pair .bytes (.pair .bytes envTail)) bs =
        .ok (.pair (.bytes body) (.pair (.bytes (nameBytes name)) tail), []) := by
  unfold encEnvelope at h
  cases hm : encMessage memCap name v with
  | none => simp [hm] at h
  | some m =>
    cases ht : enc envTail tail with
    | none => simp [hm, ht] at h
    | some tb =>
      simp only [hm, ht, Option.some.injEq] at h
      subst h
      unfold encMessage at hm
      cases hs : schemaOf memCap name with
      | none => simp [hs] at hm
      | some t =>
        simp only [hs] at hm
        cases he : enc t v with
        | none => simp [he] at hm
        | some body =>
          simp only [he] at hm
          refine ⟨body, by rw [hm]; simp, ?_⟩
          -- the message bytes are `bytes body ++ bytes name`; the tail follows
          obtain ⟨b1, b2, h1, h2, rfl⟩ := enc_pair_some hm
          have e : enc (.pair .bytes (.pair .bytes envTail))
              (.pair (.bytes body) (.pair (.bytes (nameBytes name)) tail)) = some (b1 ++ (b2 ++ tb)) :=
            enc_pair_of h1 (enc_pair_of h2 ht)
          have := roundtrip _ _ _ [] e
          simpa [List.append_assoc] using this

/-- Non-vacuity: a cluster view with one member, a label map and a version vector is
representable (`enc … = some _`), so the round-trip theorems apply to it. -/
def exView : V :=
  .some (.pair (.bytes [118]) (.pair (.i 3) (.pair (.i 7)
    (.pair (.cons (.pair (.bytes [110]) (.some
        (.pair (.bytes [110]) (.pair (.bytes []) (.pair (.bytes [104]) (.pair (.i 2) (.pair (.i (-1))
          (.pair (.n 0) (.pair (.i 1) (.pair (.b false) (.pair (.i 5) (.pair (.n 9)
            (.pair .nil (.pair (.cons (.pair (.bytes [100]) (.bytes [99])) .nil) (.n 0))))))))))))))) .nil)
    (.pair (.i 1) (.pair (.i 0) (.pair (.i 1)
      (.pair (.cons (.pair (.bytes [110]) (.n 4)) .nil) (.pair (.n 1) (.i 0))))))))))

set_option maxRecDepth 100000 in
example : (enc (viewTy (some 65536)) exView).isSome = true := by decide

end Vivid.Codec
