import Vivid.Model.Transparency
import Vivid.Props.C12

/-!
# C15 — location transparency

* `C15_transparent`: for every operation, target location and forwarder location, what is
  observed equals the operation's specification (which does not mention locations).
* `C15_wire_has_schema` / `C15_wire_roundtrip`: every built-in message those operations put on
  the wire has a schema, and (C12) comes back unchanged for every representable value —
  including `OnKill` / `OnKilled`, whose references travel as (address, path).
* `C15_pipe_result_roundtrip`: the `PipeResult` payload round-trips for every nested message,
  including the nil message of a failed pipe.
* `C15_not_transparent_as_found`: with the registry as found, remote Kill and remote Watch have
  no effect (the defect, repaired in /repo).
-/
namespace Vivid.Transparency
open Vivid.Codec

theorem C15_transparent (op : Op) (t f : Loc) : observe false op t f = effect op := by
  cases op <;> cases t <;> cases f <;> simp [observe, wire, transmits, schemaOf, schemaTable, List.lookup]

theorem C15_wire_has_schema (op : Op) (t f : Loc) (n : String) (h : n ∈ wire op t f)
    (hp : n ≠ "PipeResult") : (schemaOf none n).isSome = true := by
  cases op <;> cases t <;> cases f <;> simp [wire] at h <;>
    (try rcases h with rfl | rfl) <;> (try subst h) <;> first | (exact absurd rfl hp) | (simp [schemaOf, schemaTable, List.lookup])

/-- Every built-in wire message of every operation round-trips (instance of C12). -/
theorem C15_wire_roundtrip (op : Op) (t f : Loc) (n : String) (_h : n ∈ wire op t f)
    (v : V) (bs rest : Bytes) (known : List String)
    (hk : known.find? (fun k => nameBytes k = nameBytes n) = some n)
    (he : encMessage none n v = some bs) :
    ∃ al, decMessage none known (bs ++ rest) = .ok (nameBytes n) v al rest :=
  C12_message_roundtrip none n v bs rest known hk he

theorem C15_pipe_result_roundtrip (v : V) (bs rest : Bytes) (h : enc pipeResultTy v = some bs) :
    dec pipeResultTy (bs ++ rest) = .ok (v, rest) :=
  C12_roundtrip pipeResultTy v bs rest h

/-- The failed pipe: nil message (`<nil>`, empty body), id, code, text — representable. -/
example : (enc pipeResultTy (.pair (.bytes []) (.pair (.bytes [60, 110, 105, 108, 62])
    (.pair (.bytes [112, 49]) (.pair (.i 1001) (.bytes [116, 105, 109, 101, 111, 117, 116])))))).isSome = true := by
  decide

theorem C15_not_transparent_as_found :
    observe true .kill .there .here ≠ effect .kill ∧ observe true .watch .there .here ≠ effect .watch := by
  constructor <;> simp [observe, wire, transmits, effect, lost]

end Vivid.Transparency
