import Vivid.Props.C06Global
import Vivid.Proofs.ActorSysTables

/-!
# C19 / C20 — the event-stream table and the scheduler queue, over every execution

Same executions as in `C06Global` (`run`: any list of handler steps and outside operations,
handlers running arbitrary scripts — including Subscribe / Unsubscribe / UnsubscribeAll, Once /
Loop / Cron / Cancel / Clear at any point of any handler, also inside the own OnKill / OnKilled
handlers).

* `C19_terminated_holds_no_subscription`: in every reachable state no subscription belongs to a
  terminated actor (a zombie excepted): what a dying actor subscribed to — even in its last
  handler — is gone when its termination is complete; and every subscription is recorded under
  its subscriber's own path.
* `C20_jobs_die_with_their_actor`: in every reachable state no queued job is owned by a
  terminated actor (a zombie excepted), and `C20_queued_job_is_recorded`: every queued job is
  recorded in its owner's reference table under the key `path#reference`, so Cancel and Clear
  can always find it.
-/
namespace Vivid.ActorSys

theorem tinv_applyOp (s : Sys) (o : Op) (hi : TablesInv none none s) : TablesInv none none (applyOp s o) := by
  cases o with
  | deliver c =>
    simp only [applyOp]
    cases h : deliver s c with
    | none => exact hi
    | some s' => exact tinv_deliver s s' c h hi
  | spawn name script kind hooks ds => exact (tinv_actorOf none none s 0 name script kind hooks ds hi).1
  | tell t k => exact tinv_sameT (sameT_tell _ _ _ _ _) hi
  | kill t poison => exact tinv_sameT (sameT_tell _ _ _ _ _) hi
  | mkref r path => exact tinv_sameT (sameT_rec _ rfl rfl rfl rfl) hi
  | setScript sid sc => exact tinv_sameT (sameT_rec _ rfl rfl rfl rfl) hi
  | clearLog => exact tinv_sameT (sameT_rec _ rfl rfl rfl rfl) hi

theorem M10_tables_invariant (fixedLaunch : Bool) (ops : List Op) : TablesInv none none (run fixedLaunch ops) := by
  unfold run
  have : ∀ (s : Sys), TablesInv none none s → TablesInv none none (ops.foldl applyOp s) := by
    induction ops with
    | nil => intro s h; exact h
    | cons o t ih => intro s h; exact ih _ (tinv_applyOp s o h)
  exact this _ (tinv_init fixedLaunch)

theorem C19_terminated_holds_no_subscription (fixedLaunch : Bool) (ops : List Op) :
    ∀ e ∈ (run fixedLaunch ops).subs,
      ((run fixedLaunch ops).ctx e.2.2).path = e.2.1 ∧
      (((run fixedLaunch ops).ctx e.2.2).state = .killed → ((run fixedLaunch ops).ctx e.2.2).zombie = true) := by
  intro e he
  have := (M10_tables_invariant fixedLaunch ops).2.2.1 e he
  exact ⟨this.2.1, this.2.2 (by simp)⟩

theorem C20_jobs_die_with_their_actor (fixedLaunch : Bool) (ops : List Op) :
    ∀ e ∈ (run fixedLaunch ops).jobTable,
      ((run fixedLaunch ops).ctx e.2).state = .killed → ((run fixedLaunch ops).ctx e.2).zombie = true := by
  intro e he
  exact ((M10_tables_invariant fixedLaunch ops).2.2.2 e he).2.2 (by simp)

theorem C20_queued_job_is_recorded (fixedLaunch : Bool) (ops : List Op) :
    ∀ e ∈ (run fixedLaunch ops).jobTable,
      ∃ ref, (ref, e.1) ∈ ((run fixedLaunch ops).ctx e.2).jobs ∧
        e.1 = jobKey ((run fixedLaunch ops).ctx e.2).path ref := by
  intro e he
  obtain ⟨p, hp, hpe⟩ := ((M10_tables_invariant fixedLaunch ops).2.2.2 e he).2.1
  refine ⟨p.1, ?_, ?_⟩
  · rw [← hpe]; exact hp
  · rw [← hpe]; exact (M10_tables_invariant fixedLaunch ops).2.1 e.2 p hp

/-- Non-vacuity: an actor that subscribes and schedules in its OnLaunch and is then stopped
leaves neither a subscription nor a queued job behind. -/
example :
    let mid := run true [.setScript 1 [(0, [.sub 7, .sched 1 "tick" 3])], .spawn "a" 1 0 0 [], .deliver 1]
    let fin := run true [.setScript 1 [(0, [.sub 7, .sched 1 "tick" 3])], .spawn "a" 1 0 0 [], .deliver 1,
                         .kill (.own 1) false, .deliver 1]
    mid.subs = [(7, "/a", 1)] ∧ mid.jobTable = [("/a#tick", 1)] ∧ fin.subs = [] ∧ fin.jobTable = [] := by decide

end Vivid.ActorSys
