import Vivid.Proofs.ActorSys

/-!
# C09 — nobody stays paused; zombies are inert (handler-level theorems about M10)

Proved: every way a supervised failure ends leaves the mailbox of a surviving actor unpaused —
restart completion, zombie transition and termination all unpause; a zombie runs no user code
whatever it receives, keeps no message, and sends nothing while consuming user mail.  The global
statement (at quiescence no live actor is paused, for every decision / strategy / chain) is
checked by the STAYS-PAUSED / HALF-STOPPED / NO-ANSWER monitors over the full matrix; its proof
needs the "every Pause has a Resume in flight" invariant and is pending.
-/
namespace Vivid.ActorSys

/-- A zombie runs no user code: the behaviour invocation is a no-op for every message. -/
theorem C09_zombie_runs_nothing (s : Sys) (c : Cid) (beh : Nat) (e : Env) (m : Msg)
    (hz : (s.ctx c).zombie = true) : (behave s c beh e m).s = s ∧ (behave s c beh e m).panicked = false := by
  unfold behave; simp [hz]

/-- A zombie consumes a user message silently: handling it changes nothing at all (no dead
letter, no reply, no state change) — it keeps draining without blocking anyone. -/
theorem C09_zombie_consumes_user_mail (s : Sys) (c : Cid) (e : Env) (k : Nat)
    (hz : (s.ctx c).zombie = true) (hm : e.msg = .user k) : handle s c e = s := by
  unfold handle
  simp only [hz, Bool.not_true, Bool.false_eq_true, and_false, if_false, hm]
  simp [execRecover, (C09_zombie_runs_nothing s c _ e (.user k) hz).1, (C09_zombie_runs_nothing s c _ e (.user k) hz).2]

/-- Termination unpauses (so queued mail drains into dead letters), restart completion unpauses,
the zombie transition unpauses. -/
theorem C09_cleanup_unpauses (s : Sys) (c : Cid) : ((cleanup s c).ctx c).paused = false := by
  unfold cleanup; simp

theorem C09_zombie_transition_unpauses (s : Sys) (c : Cid)
    (h : (s.ctx c).hooks / 4 % 2 = 1 ∨ (s.ctx c).hooks / 2 % 2 = 1) : ((handleRestart s c).ctx c).paused = false := by
  simp [handleRestart, h, upd, say]

/-- Restart completion: the new incarnation starts on an unpaused mailbox (its OnLaunch runs in
that state; only a failure of that very OnLaunch can pause it again, through supervision). -/
theorem C09_restart_unpauses (s : Sys) (c : Cid) (hf : s.fixedLaunch = true)
    (h : ¬ ((s.ctx c).hooks / 4 % 2 = 1 ∨ (s.ctx c).hooks / 2 % 2 = 1)) :
    ∃ s3, handleRestart s c = execRecover s3 c (s.ctx c).script { id := 0, sys := true, sender := some c, msg := .onLaunch } .onLaunch ∧
      (s3.ctx c).paused = false ∧ (s3.ctx c).state = .running := by
  refine ⟨say (upd (upd (upd s c (fun x => { x with behaviors := [x.script] })) c
      (fun x => { x with restarting := none, state := .running, inc := x.inc + 1 })) c
      (fun x => { x with paused := false })) s!"restarted:{c}", ?_, ?_, ?_⟩
  · simp only [handleRestart, h, if_false, hf, if_true]
  · simp [upd, say]
  · simp [upd, say]

/-- Resume (decision 5) sends a resume command to every target of every level of the
escalation chain, as a system message. -/
theorem C09_resume_reaches_chain (s : Sys) (sup : Cid) (f : Cid) (rest : List (Cid × List Cid))
    (hs : (s.ctx sup).strat = 1) (hd : (s.ctx sup).decisions = [5]) :
    onSuperviseDecide s sup ((f, []) :: rest) =
      tellAll (tellAll (say (upd s sup (fun x => { x with decIdx := x.decIdx + 1 })) s!"decide:{sup}:{f}:{5}")
        true (some sup) [f] .cmdPause) true (some sup) ([f] ++ (rest.map (·.2)).flatten) .cmdResume := by
  unfold onSuperviseDecide
  simp [hs, hd, Nat.mod_one]

/-- The strategy is applied (`onSuperviseDecide`, the subject of the theorems above and of `C08*`) exactly when the
supervisor is running. -/
theorem C08_running_supervisor_decides (s : Sys) (sup : Cid) (chain : List (Cid × List Cid))
    (h : (s.ctx sup).state = .running) : onSupervise s sup chain = onSuperviseDecide s sup chain := by
  unfold onSupervise; simp [h]

/-- A supervisor that is already stopping takes no decision: it ends the failing child with an immediate (system) kill —
which a paused mailbox still processes — so the child can neither stay paused for good nor keep its stopping parent
waiting (the kill it may have been handed before as a poison pill sits behind the pause). -/
theorem C09_stopping_supervisor_kills_failing_child (s : Sys) (sup f : Cid) (ts : List Cid)
    (rest : List (Cid × List Cid)) (h : (s.ctx sup).state ≠ .running) :
    onSupervise s sup ((f, ts) :: rest) = tell s true (some sup) (.own f) (.onKill false) := by
  unfold onSupervise; simp [h]

/-- A decision value outside the defined range is escalated (as documented on `SupervisionDecision`), it does not leave
the failing child paused without a directive: the supervisor's mailbox is paused and its own parent (if any) is handed
the failure, exactly as for Escalate. Stated on the effect that matters for C09: whatever the value `d ∉ 1..5`, the
supervisor ends up paused, i.e. the failure is now *its* failure and the level above will answer it. -/
theorem C09_unknown_decision_is_escalated (s : Sys) (sup f : Cid) (rest : List (Cid × List Cid)) (d : Nat)
    (hs : (s.ctx sup).strat = 1) (hdec : (s.ctx sup).decisions = [d])
    (h1 : d ≠ 1) (h2 : d ≠ 2) (h3 : d ≠ 3) (h4 : d ≠ 4) (h5 : d ≠ 5) :
    onSuperviseDecide s sup ((f, []) :: rest) =
      (let s2 := tellAll (say (upd s sup (fun x => { x with decIdx := x.decIdx + 1 })) s!"decide:{sup}:{f}:{d}")
          true (some sup) [f] .cmdPause
       let s3 := upd s2 sup (fun x => { x with paused := true })
       let t : Target := match (s.ctx sup).parent with | some p => .own p | none => .nobody
       tell s3 true (some sup) t (.supervise ((sup, []) :: (f, [f]) :: rest) [])) := by
  unfold onSuperviseDecide
  simp [hs, hdec, Nat.mod_one, h1, h2, h3, h4, h5]
  rfl

end Vivid.ActorSys
