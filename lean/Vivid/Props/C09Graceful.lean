import Vivid.Proofs.ActorSys

/-!
# C09 — the graceful variants: the backlog is processed before the restart / stop

A graceful decision sends its `RestartMessage` / poison `OnKill` as a *user* message: it lines up
behind whatever is already queued for the target.  Proved on M10 (handler level): after the
supervisor has handled the failure with a graceful decision, the target's user queue is exactly
what it was, followed by that one message — so, by the FIFO theorems of C02 (`Props/C02Order`),
every message queued behind the failing one is handed to the *old* incarnation before the restart
(or the stop) begins; and the pause is lifted by a system message, so the backlog does get processed.
-/
namespace Vivid.ActorSys

theorem tell_own_eq (s : Sys) (sys : Bool) (sender : Option Cid) (c : Cid) (m : Msg) (hm : ∀ k, m ≠ .user k) :
    tell s sys sender (.own c) m = enqueue s c { id := 0, sys := sys, sender := sender, msg := m } := by
  unfold tell resolve
  cases m <;> first | rfl | exact absurd rfl (hm _)

theorem enqueue_userQ (s : Sys) (c d : Cid) (e : Env) :
    ((enqueue s c e).ctx d).userQ = if d = c ∧ e.sys = false then (s.ctx d).userQ ++ [e] else (s.ctx d).userQ := by
  unfold enqueue
  by_cases h : d = c
  · subst h
    rw [upd_ctx_self]
    cases hs : e.sys <;> simp
  · rw [upd_ctx_other s c d _ h]; simp [h]

/-- System messages never touch a user queue. -/
theorem tellAll_sys_userQ (ts : List Cid) (s : Sys) (sender : Option Cid) (m : Msg) (hm : ∀ k, m ≠ .user k) (d : Cid) :
    ((tellAll s true sender ts m).ctx d).userQ = (s.ctx d).userQ := by
  unfold tellAll
  induction ts generalizing s with
  | nil => rfl
  | cons t r ih =>
    simp only [List.foldl_cons]
    rw [ih, tell_own_eq s true sender t m hm, enqueue_userQ]
    simp

/-- Graceful restart (decision 2, one-for-one): pause, then the restart request as a user message,
then the resume for every level of the chain. -/
theorem C09_graceful_restart_equation (s : Sys) (sup f : Cid) (rest : List (Cid × List Cid))
    (hs : (s.ctx sup).strat = 1) (hd : (s.ctx sup).decisions = [2]) :
    onSuperviseDecide s sup ((f, []) :: rest) =
      tellAll (tellAll (tellAll (say (upd s sup (fun x => { x with decIdx := x.decIdx + 1 })) s!"decide:{sup}:{f}:{2}")
        true (some sup) [f] .cmdPause) false (some sup) [f] (.restart true))
        true (some sup) ([f] ++ (rest.map (·.2)).flatten) .cmdResume := by
  unfold onSuperviseDecide
  simp [hs, hd, Nat.mod_one]

/-- **The backlog comes first.**  After a graceful-restart decision the target's user queue is its
old user queue followed by the restart request: nothing overtakes the mail queued behind the failure. -/
theorem C09_graceful_restart_behind_backlog (s : Sys) (sup f : Cid) (rest : List (Cid × List Cid))
    (hs : (s.ctx sup).strat = 1) (hd : (s.ctx sup).decisions = [2]) :
    ((onSuperviseDecide s sup ((f, []) :: rest)).ctx f).userQ =
      (s.ctx f).userQ ++ [{ id := 0, sys := false, sender := some sup, msg := .restart true }] := by
  rw [C09_graceful_restart_equation s sup f rest hs hd]
  rw [tellAll_sys_userQ _ _ _ _ (by intro k h; cases h)]
  have h1 : tellAll (tellAll (say (upd s sup (fun x => { x with decIdx := x.decIdx + 1 })) s!"decide:{sup}:{f}:{2}")
      true (some sup) [f] .cmdPause) false (some sup) [f] (.restart true) =
      enqueue (tellAll (say (upd s sup (fun x => { x with decIdx := x.decIdx + 1 })) s!"decide:{sup}:{f}:{2}")
        true (some sup) [f] .cmdPause) f { id := 0, sys := false, sender := some sup, msg := .restart true } := by
    simp only [tellAll, List.foldl_cons, List.foldl_nil]
    exact tell_own_eq _ false (some sup) f (.restart true) (by intro k h; cases h)
  rw [h1, enqueue_userQ]
  simp only [and_self, if_true]
  rw [tellAll_sys_userQ _ _ _ _ (by intro k h; cases h)]
  congr 1
  by_cases hfs : f = sup
  · subst hfs; simp [say, upd]
  · simp [say, upd_ctx_other _ _ _ _ hfs]

/-- Graceful stop (decision 4): the poison kill lines up behind the backlog in the same way. -/
theorem C09_graceful_stop_behind_backlog (s : Sys) (sup f : Cid) (rest : List (Cid × List Cid))
    (hs : (s.ctx sup).strat = 1) (hd : (s.ctx sup).decisions = [4]) :
    ((onSuperviseDecide s sup ((f, []) :: rest)).ctx f).userQ =
      (s.ctx f).userQ ++ [{ id := 0, sys := false, sender := some sup, msg := .onKill true }] := by
  have heq : onSuperviseDecide s sup ((f, []) :: rest) =
      tellAll (tellAll (tellAll (say (upd s sup (fun x => { x with decIdx := x.decIdx + 1 })) s!"decide:{sup}:{f}:{4}")
        true (some sup) [f] .cmdPause) false (some sup) [f] (.onKill true))
        true (some sup) ([f] ++ (rest.map (·.2)).flatten) .cmdResume := by
    unfold onSuperviseDecide
    simp [hs, hd, Nat.mod_one]
  rw [heq, tellAll_sys_userQ _ _ _ _ (by intro k h; cases h)]
  have h1 : tellAll (tellAll (say (upd s sup (fun x => { x with decIdx := x.decIdx + 1 })) s!"decide:{sup}:{f}:{4}")
      true (some sup) [f] .cmdPause) false (some sup) [f] (.onKill true) =
      enqueue (tellAll (say (upd s sup (fun x => { x with decIdx := x.decIdx + 1 })) s!"decide:{sup}:{f}:{4}")
        true (some sup) [f] .cmdPause) f { id := 0, sys := false, sender := some sup, msg := .onKill true } := by
    simp only [tellAll, List.foldl_cons, List.foldl_nil]
    exact tell_own_eq _ false (some sup) f (.onKill true) (by intro k h; cases h)
  rw [h1, enqueue_userQ]
  simp only [and_self, if_true]
  rw [tellAll_sys_userQ _ _ _ _ (by intro k h; cases h)]
  congr 1
  by_cases hfs : f = sup
  · subst hfs; simp [say, upd]
  · simp [say, upd_ctx_other _ _ _ _ hfs]

/-- The immediate variants go through the system queue instead: the user queue is untouched
(the backlog is kept for the restarted actor). -/
theorem C09_immediate_restart_keeps_backlog (s : Sys) (sup f : Cid) (rest : List (Cid × List Cid))
    (hs : (s.ctx sup).strat = 1) (hd : (s.ctx sup).decisions = [1]) :
    ((onSuperviseDecide s sup ((f, []) :: rest)).ctx f).userQ = (s.ctx f).userQ := by
  have heq : onSuperviseDecide s sup ((f, []) :: rest) =
      tellAll (tellAll (say (upd s sup (fun x => { x with decIdx := x.decIdx + 1 })) s!"decide:{sup}:{f}:{1}")
        true (some sup) [f] .cmdPause) true (some sup) [f] (.restart false) := by
    unfold onSuperviseDecide
    simp [hs, hd, Nat.mod_one]
  rw [heq, tellAll_sys_userQ _ _ _ _ (by intro k h; cases h), tellAll_sys_userQ _ _ _ _ (by intro k h; cases h)]
  by_cases hfs : f = sup
  · subst hfs; simp [say, upd]
  · simp [say, upd_ctx_other _ _ _ _ hfs]

/-- Non-vacuity: two messages (ids 5 and 6) are queued for actor 2 behind its failure; supervisor 1
decides graceful restart: the restart request (id 0) is third in line, and the supervisor's pause and
resume travel through the system queue. -/
example :
    let s := upd (upd (init true) 1 (fun x => { x with strat := 1, decisions := [2] })) 2
      (fun x => { x with userQ := [⟨5, false, none, .user 1⟩, ⟨6, false, none, .user 2⟩] })
    ((onSuperviseDecide s 1 [(2, [])]).ctx 2).userQ.map (·.id) = [5, 6, 0] ∧
    ((onSuperviseDecide s 1 [(2, [])]).ctx 2).sysQ.map (·.msg) = [.cmdPause, .cmdResume] := by decide

end Vivid.ActorSys
