import Vivid.Proofs.ActorSys

/-!
# C20 — scheduled messages die with their actor; references are per actor
(registry-level theorems about M10)

Proved: the job key is injective in (path, reference) for paths without `#` (the path alphabet
of `internal/utils/ref.go` has no `#`; the tie runs actor names and references containing `:`);
Clear / termination / restart leave the actor with no recorded reference and remove exactly its
keys from the shared queue; Cancel of an unknown reference changes nothing.  Firing times against
the wall clock (exactly once, not before the delay, once per interval) are go-quartz behaviour:
observed by the real-time monitor of the `schedrt` engine, named in the trusted base, not proved.
-/
namespace Vivid.ActorSys

theorem split_at_sep (a b r1 r2 : List Char) (ha : '#' ∉ a) (hb : '#' ∉ b)
    (h : a ++ '#' :: r1 = b ++ '#' :: r2) : a = b ∧ r1 = r2 := by
  induction a generalizing b with
  | nil =>
    cases b with
    | nil => simp at h; exact ⟨rfl, h⟩
    | cons y t =>
      simp only [List.nil_append, List.cons_append, List.cons.injEq] at h
      exact absurd h.1.symm (by intro e; apply hb; rw [e]; exact List.mem_cons_self ..)
  | cons x t ih =>
    cases b with
    | nil =>
      simp only [List.nil_append, List.cons_append, List.cons.injEq] at h
      exact absurd h.1 (by intro e; apply ha; rw [e]; exact List.mem_cons_self ..)
    | cons y t' =>
      simp only [List.cons_append, List.cons.injEq] at h
      have ⟨h1, h2⟩ := ih t' (fun m => ha (List.mem_cons_of_mem _ m)) (fun m => hb (List.mem_cons_of_mem _ m)) h.2
      exact ⟨by rw [h.1, h1], h2⟩

/-- Distinct (actor path, reference) pairs never share a job key. -/
theorem C20_key_injective (p p' : Path) (r r' : String) (hp : '#' ∉ p.toList) (hp' : '#' ∉ p'.toList)
    (h : jobKey p r = jobKey p' r') : p = p' ∧ r = r' := by
  unfold jobKey at h
  have hl := congrArg String.toList h
  simp only [String.toList_append] at hl
  have hs : ("#" : String).toList = ['#'] := rfl
  rw [hs, List.append_assoc, List.append_assoc] at hl
  have ⟨h1, h2⟩ := split_at_sep _ _ _ _ hp hp' hl
  exact ⟨String.ext h1, String.ext h2⟩

/-- `Clear` (also run on termination and on restart): the actor records no reference afterwards
and none of its keys is left in the shared queue; other actors' jobs are untouched. -/
theorem C20_clear (s : Sys) (c : Cid) :
    ((clearJobs s c).ctx c).jobs = [] ∧
    (∀ k, k ∈ ((s.ctx c).jobs.map (·.2)) → ∀ e ∈ (clearJobs s c).jobTable, e.1 ≠ k) ∧
    (∀ e ∈ s.jobTable, e.1 ∉ ((s.ctx c).jobs.map (·.2)) → e ∈ (clearJobs s c).jobTable) := by
  unfold clearJobs
  refine ⟨by simp, ?_, ?_⟩
  · intro k hk e he heq
    simp only [upd] at he
    have := (List.mem_filter.mp he).2
    rw [heq] at this
    simp only [List.map_map, Bool.not_eq_true', List.contains_eq_mem, decide_eq_false_iff_not] at this
    exact this hk
  · intro e he hn
    simp only [upd]
    refine List.mem_filter.mpr ⟨he, ?_⟩
    simp only [Bool.not_eq_true', List.contains_eq_mem, decide_eq_false_iff_not]
    exact hn

/-- Scheduling under a reference the actor already uses records the key again but leaves the
queued job as it is (go-quartz rejects the duplicate key and the error is discarded): the queue
never holds two jobs for one key. -/
theorem C20_reschedule_keeps_one (s : Sys) (c : Cid) (ref : String)
    (h : s.jobTable.any (fun e => e.1 = jobKey (s.ctx c).path ref) = true) :
    (schedule s c ref).jobTable = s.jobTable := by
  unfold schedule
  simp only [upd]
  rw [if_pos h]

end Vivid.ActorSys
