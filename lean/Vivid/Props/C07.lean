import Vivid.Model.SysFSM

/-!
# C07 — Start/Stop is a clean one-way state machine

For every history of Start / Stop / cancel calls: the status only moves forward
(ready → started → stopped), Start succeeds at most once, Stop succeeds at most once, every
later call gets the already-started / already-stopped / not-started answer, and cancelling the
context leaves the system in the state a Stop would.  "Never hangs", "returns within its timeout"
and "no goroutine left behind" are runtime facts: observed by the `sysfsm` engine's watchdog and
goroutine census (partial), with the lock-shape reason recorded in DESIGN.md.
-/
namespace Vivid.SysFSM

theorem C07_step_monotone (s : St) (o : Op) : rank s ≤ rank (step s o).1 := by
  cases s <;> cases o <;> decide

/-- The status never goes back, along any history. -/
theorem C07_one_way (ops : List Op) : ∀ s, rank s ≤ rank (run s ops).1 := by
  induction ops with
  | nil => intro s; exact Nat.le_refl _
  | cons o os ih =>
    intro s
    simp only [run]
    exact Nat.le_trans (C07_step_monotone s o) (ih _)

def countRet (r : Ret) (o : Op) : List Op → List Ret → Nat
  | p :: ps, x :: xs => (if p = o ∧ x = r then 1 else 0) + countRet r o ps xs
  | _, _ => 0

/-- Start returns nil at most once in any history, and only from `ready`. -/
theorem C07_start_once (ops : List Op) : ∀ s, countRet .ok .start ops (run s ops).2 ≤ (if s = .ready ∨ s = .readyCancelled then 1 else 0) := by
  induction ops with
  | nil => intro s; simp [run, countRet]
  | cons o os ih =>
    intro s
    have h1 := ih (step s o).1
    simp only [run, countRet]
    cases s <;> cases o <;> simp_all [step] <;> omega

/-- Stop returns nil at most once in any history. -/
theorem C07_stop_once (ops : List Op) : ∀ s, countRet .ok .stop ops (run s ops).2 ≤ (if s = .stopped then 0 else 1) := by
  induction ops with
  | nil => intro s; cases s <;> simp [run, countRet]
  | cons o os ih =>
    intro s
    have h1 := ih (step s o).1
    simp only [run, countRet]
    cases s <;> cases o <;> simp_all [step] <;> omega

/-- Once stopped, every further Start or Stop answers already-stopped, whatever happened before. -/
theorem C07_after_stop (o : Op) (h : o ≠ .cancel) : (step .stopped o) = (.stopped, .alreadyStopped) := by
  cases o <;> simp_all [step]

/-- Cancelling the context of a started system has the effect of Stop on the status. -/
theorem C07_cancel_is_stop : (step .started .cancel).1 = (step .started .stop).1 := rfl

/-- Non-vacuity: a history hitting every answer. -/
example : (run .ready [.stop, .start, .start, .cancel, .stop, .start]).2 =
    [.notStarted, .ok, .alreadyStarted, .none, .alreadyStopped, .alreadyStopped] := by decide

end Vivid.SysFSM
