import Vivid.Props.C06Global
import Vivid.Proofs.ActorSysStruct

/-!
# M10 — structural invariants over every execution (C05, C06)

Same executions as in `C06Global` (`run`: any list of handler steps and outside operations,
handlers running arbitrary scripts).

* `C06_terminated_has_no_children`: an actor is marked terminated only after its last child
  entry is gone, and a terminated actor never gains a child (ActorOf on it fails): children
  first, in every reachable state.
* `C05_restart_flag_only_while_stopping`: the restart-in-progress flag is never set on a running
  actor: a restart always passes through the stopping phase of the old incarnation and is over
  (flag cleared) when the new incarnation runs.
-/
namespace Vivid.ActorSys

theorem structInv_applyOp (s : Sys) (o : Op) (hi : StructInv s) : StructInv (applyOp s o) := by
  cases o with
  | deliver c =>
    simp only [applyOp]
    cases h : deliver s c with
    | none => exact hi
    | some s' => exact structInv_deliver s s' c h hi
  | spawn name script kind hooks ds => exact structInv_actorOf s 0 name script kind hooks ds hi
  | tell t k => exact structInv_sameS (sameS_tell _ _ _ _ _) hi
  | kill t poison => exact structInv_sameS (sameS_tell _ _ _ _ _) hi
  | mkref r path => exact structInv_sameS (sameS_rec _ rfl rfl) hi
  | setScript sid sc => exact structInv_sameS (sameS_rec _ rfl rfl) hi
  | clearLog => exact structInv_sameS (sameS_rec _ rfl rfl) hi

theorem M10_struct_invariant (fixedLaunch : Bool) (ops : List Op) : StructInv (run fixedLaunch ops) := by
  unfold run
  have : ∀ (s : Sys), StructInv s → StructInv (ops.foldl applyOp s) := by
    induction ops with
    | nil => intro s h; exact h
    | cons o t ih => intro s h; exact ih _ (structInv_applyOp s o h)
  exact this _ (structInv_init fixedLaunch)

theorem C06_terminated_has_no_children (fixedLaunch : Bool) (ops : List Op) (c : Cid)
    (hk : ((run fixedLaunch ops).ctx c).state = .killed) : ((run fixedLaunch ops).ctx c).children = [] :=
  (M10_struct_invariant fixedLaunch ops).1 c hk

theorem C05_restart_flag_only_while_stopping (fixedLaunch : Bool) (ops : List Op) (c : Cid)
    (hr : ((run fixedLaunch ops).ctx c).restarting.isSome = true) : ((run fixedLaunch ops).ctx c).state ≠ .running :=
  (M10_struct_invariant fixedLaunch ops).2 c hr

/-- Non-vacuity: a parent with a child is asked to stop; after the child is gone the parent is
terminated and childless, and in between (child still there) it is only `killing`. -/
example :
    let mid := run true [.spawn "p" 1 0 0 [], .setScript 1 [(0, [.spawn "c" 0 0 [] 0])], .deliver 1, .deliver 2,
                         .kill (.own 1) false, .deliver 1]
    (mid.ctx 1).state = .killing ∧ (mid.ctx 1).children = [2] := by decide

end Vivid.ActorSys
