import Vivid.Props.C02Order

/-!
# C02 — order over whole histories of one mailbox

`Props/C02Order.lean` states the order clauses of C02 for *one* step.  This file lifts them to
every history: any interleaving of enqueues (by any number of senders), pauses, resumes and
processing steps at one mailbox.

* `pick` is the selection policy of the mailbox (system queue first, user queue only when not
  paused).  `deliver_eq_pick` shows that the actor-system model's `deliver` (the function the
  lock-step engines compare with the real mailbox + context, one handler per op) selects by
  exactly this policy, so the history theorems speak about the same policy the tie exercises.
* `Hist` is a mailbox together with its ghost history: everything ever enqueued (`inU`, `inS`,
  in arrival order) and everything processed so far (`log`, in processing order, each entry
  with the number of system messages that were pending when it was picked).
* `C02_hist_user_fifo` / `C02_hist_sys_fifo`: after every history, what was processed of each
  class followed by what is still queued **is** the arrival sequence of that class - nothing is
  reordered, lost or duplicated by the mailbox itself, for any queue length.
* `C02_hist_per_sender_prefix`: for every sender (any predicate on envelopes) the messages of
  that sender processed so far are a prefix of the messages that sender enqueued, in the order
  it enqueued them.
* `C02_hist_poison_after_earlier`: when a user message (a poison kill is one) has been
  processed, every user message enqueued before it has been processed before it.
* `C02_hist_stash_fifo` / `C02_hist_unstashed_prefix`: for every sequence of `Stash` and
  `Unstash(n)` calls, returned ++ still stashed = stashed, in stash order (each comes back once);
  `unstash_uses_stashCnt` ties the count rule to M10's `.unstash`.
* `C02_hist_user_only_when_no_system_pending`: every user message in the log was picked at a
  moment when no system message was pending (so an immediate kill, a system message, overtakes
  all queued user mail), and none was picked while paused.
-/
namespace Vivid.ActorSys

/-- The mailbox's selection policy: `(isSystem, envelope, rest of that queue)`. -/
def pick (sq uq : List Env) (paused : Bool) : Option (Bool × Env × List Env) :=
  match sq with
  | e :: rest => some (true, e, rest)
  | [] => if paused then none else
    match uq with
    | e :: rest => some (false, e, rest)
    | [] => none

/-- The model's `deliver` selects by `pick` (tie between the history model and M10). -/
theorem deliver_eq_pick (s : Sys) (c : Cid) :
    deliver s c =
      match pick (s.ctx c).sysQ (s.ctx c).userQ (s.ctx c).paused with
      | none => none
      | some (true, e, rest) => some (handle (upd s c (fun y => { y with sysQ := rest })) c e)
      | some (false, e, rest) => some (handle (upd s c (fun y => { y with userQ := rest })) c e) := by
  unfold deliver pick
  cases hs : (s.ctx c).sysQ with
  | cons e rest => simp [hs]
  | nil =>
    cases hp : (s.ctx c).paused with
    | true => simp [hs, hp]
    | false =>
      cases hu : (s.ctx c).userQ with
      | nil => simp [hs, hp, hu]
      | cons e rest => simp [hs, hp, hu]

/-- `deliverable` is exactly "pick selects something". -/
theorem deliverable_iff_pick (x : Ctx) : deliverable x = (pick x.sysQ x.userQ x.paused).isSome := by
  unfold deliverable pick
  cases x.sysQ <;> cases x.paused <;> cases x.userQ <;> simp

/-- One mailbox with its ghost history. -/
structure Hist where
  sq : List Env := []
  uq : List Env := []
  paused : Bool := false
  inS : List Env := []
  inU : List Env := []
  log : List (Env × Nat × Bool) := []     -- processed envelope, #system pending at the pick (itself excluded), paused at the pick

inductive HOp where
  | enq (e : Env)
  | pause
  | resume
  | proc
  deriving Repr

def hstep (h : Hist) : HOp → Hist
  | .enq e => if e.sys then { h with sq := h.sq ++ [e], inS := h.inS ++ [e] } else { h with uq := h.uq ++ [e], inU := h.inU ++ [e] }
  | .pause => { h with paused := true }
  | .resume => { h with paused := false }
  | .proc =>
    match pick h.sq h.uq h.paused with
    | none => h
    | some (true, e, rest) => { h with sq := rest, log := h.log ++ [(e, rest.length, h.paused)] }
    | some (false, e, rest) => { h with uq := rest, log := h.log ++ [(e, h.sq.length, h.paused)] }

def hrun (ops : List HOp) (h : Hist) : Hist := ops.foldl hstep h

def logU (h : Hist) : List Env := (h.log.map (·.1)).filter (fun e => !e.sys)
def logS (h : Hist) : List Env := (h.log.map (·.1)).filter (fun e => e.sys)

/-- The history invariant. -/
structure HInv (h : Hist) : Prop where
  sysClass : ∀ e ∈ h.sq, e.sys = true
  userClass : ∀ e ∈ h.uq, e.sys = false
  userFifo : logU h ++ h.uq = h.inU
  sysFifo : logS h ++ h.sq = h.inS
  userQuiet : ∀ x ∈ h.log, x.1.sys = false → x.2.1 = 0 ∧ x.2.2 = false

theorem hinv_init : HInv {} := by
  constructor <;> simp [logU, logS]

theorem pick_sys {sq uq : List Env} {p : Bool} {e : Env} {rest : List Env}
    (h : pick sq uq p = some (true, e, rest)) : sq = e :: rest := by
  unfold pick at h
  cases sq with
  | cons a r => simp at h; rw [h.1, h.2]
  | nil =>
    cases p <;> cases uq <;> simp at h

theorem pick_user {sq uq : List Env} {p : Bool} {e : Env} {rest : List Env}
    (h : pick sq uq p = some (false, e, rest)) : sq = [] ∧ p = false ∧ uq = e :: rest := by
  unfold pick at h
  cases sq with
  | cons a r => simp at h
  | nil =>
    cases p with
    | true => simp at h
    | false =>
      cases uq with
      | nil => simp at h
      | cons a r => simp at h; simp [h.1, h.2]

theorem hinv_step (h : Hist) (o : HOp) (inv : HInv h) : HInv (hstep h o) := by
  obtain ⟨hsc, huc, huf, hsf, huq⟩ := inv
  cases o with
  | enq e =>
    cases hes : e.sys with
    | true =>
      have hst : hstep h (.enq e) = { h with sq := h.sq ++ [e], inS := h.inS ++ [e] } := by simp [hstep, hes]
      rw [hst]
      constructor
      · intro x hx
        have hx' : x ∈ h.sq ++ [e] := hx
        simp only [List.mem_append, List.mem_singleton] at hx'
        rcases hx' with hx' | hx'
        · exact hsc x hx'
        · rw [hx']; exact hes
      · exact huc
      · exact huf
      · show logS h ++ (h.sq ++ [e]) = h.inS ++ [e]
        rw [← List.append_assoc, hsf]
      · exact huq
    | false =>
      have hst : hstep h (.enq e) = { h with uq := h.uq ++ [e], inU := h.inU ++ [e] } := by simp [hstep, hes]
      rw [hst]
      constructor
      · exact hsc
      · intro x hx
        have hx' : x ∈ h.uq ++ [e] := hx
        simp only [List.mem_append, List.mem_singleton] at hx'
        rcases hx' with hx' | hx'
        · exact huc x hx'
        · rw [hx']; exact hes
      · show logU h ++ (h.uq ++ [e]) = h.inU ++ [e]
        rw [← List.append_assoc, huf]
      · exact hsf
      · exact huq
  | pause => exact ⟨hsc, huc, huf, hsf, huq⟩
  | resume => exact ⟨hsc, huc, huf, hsf, huq⟩
  | proc =>
    unfold hstep
    cases hp : pick h.sq h.uq h.paused with
    | none => exact ⟨hsc, huc, huf, hsf, huq⟩
    | some t =>
      obtain ⟨b, e, rest⟩ := t
      cases b with
      | true =>
        have hq := pick_sys hp
        have hes : e.sys = true := hsc e (by rw [hq]; simp)
        constructor
        · intro x hx; exact hsc x (by rw [hq]; exact List.mem_cons_of_mem _ hx)
        · exact huc
        · show ((h.log ++ [(e, rest.length, h.paused)]).map (·.1)).filter (fun e => !e.sys) ++ h.uq = h.inU
          simp only [List.map_append, List.filter_append, List.map_cons, List.map_nil]
          simp only [List.filter_cons, hes, Bool.not_true, Bool.false_eq_true, if_false, List.filter_nil, List.append_nil]
          exact huf
        · show ((h.log ++ [(e, rest.length, h.paused)]).map (·.1)).filter (fun e => e.sys) ++ rest = h.inS
          simp only [List.map_append, List.filter_append, List.map_cons, List.map_nil]
          simp only [List.filter_cons, hes, if_true, List.filter_nil]
          rw [← hsf, hq]; simp [logS]
        · intro x hx hxs
          simp only [List.mem_append, List.mem_singleton] at hx
          rcases hx with hx | hx
          · exact huq x hx hxs
          · rw [hx] at hxs; simp [hes] at hxs
      | false =>
        obtain ⟨hsq, hpa, huqe⟩ := pick_user hp
        have hes : e.sys = false := huc e (by rw [huqe]; simp)
        constructor
        · exact hsc
        · intro x hx; exact huc x (by rw [huqe]; exact List.mem_cons_of_mem _ hx)
        · show ((h.log ++ [(e, h.sq.length, h.paused)]).map (·.1)).filter (fun e => !e.sys) ++ rest = h.inU
          simp only [List.map_append, List.filter_append, List.map_cons, List.map_nil]
          simp only [List.filter_cons, hes, Bool.not_false, if_true, List.filter_nil]
          rw [← huf, huqe]; simp [logU]
        · show ((h.log ++ [(e, h.sq.length, h.paused)]).map (·.1)).filter (fun e => e.sys) ++ h.sq = h.inS
          simp only [List.map_append, List.filter_append, List.map_cons, List.map_nil]
          simp only [List.filter_cons, hes, Bool.false_eq_true, if_false, List.filter_nil, List.append_nil]
          exact hsf
        · intro x hx _
          simp only [List.mem_append, List.mem_singleton] at hx
          rcases hx with hx | hx
          · exact huq x hx ‹_›
          · rw [hx]; simp [hsq, hpa]

theorem hinv_run (ops : List HOp) : ∀ h, HInv h → HInv (hrun ops h) := by
  induction ops with
  | nil => intro h inv; exact inv
  | cons o ops ih => intro h inv; exact ih _ (hinv_step h o inv)

/-- **User FIFO over every history**: processed user messages, then the queued ones, are the
arrival sequence - for every number of senders, queue length and pause/resume pattern. -/
theorem C02_hist_user_fifo (ops : List HOp) : logU (hrun ops {}) ++ (hrun ops {}).uq = (hrun ops {}).inU :=
  (hinv_run ops {} hinv_init).userFifo

/-- **System FIFO over every history.** -/
theorem C02_hist_sys_fifo (ops : List HOp) : logS (hrun ops {}) ++ (hrun ops {}).sq = (hrun ops {}).inS :=
  (hinv_run ops {} hinv_init).sysFifo

/-- **Per-sender order**: for any sender (any predicate `p` on envelopes), what was processed of
that sender's user messages is a prefix of what that sender enqueued, in its sending order. -/
theorem C02_hist_per_sender_prefix (ops : List HOp) (p : Env → Bool) :
    (logU (hrun ops {})).filter p <+: ((hrun ops {}).inU).filter p := by
  rw [← C02_hist_user_fifo ops, List.filter_append]
  exact List.prefix_append _ _

/-- **A poison kill waits for earlier user mail**: if user message `e` has been processed and
`d` was enqueued before it (`inU = a ++ d :: b ++ e :: c` with `e` not occurring earlier), then
`d` has been processed too - stated through positions: the processed user messages are a prefix
of the arrival sequence, so everything in front of a processed message is processed. -/
theorem C02_hist_poison_after_earlier (ops : List HOp) (i j : Nat) (hij : i < j)
    (hj : j < (logU (hrun ops {})).length) :
    (logU (hrun ops {}))[i]? = ((hrun ops {}).inU)[i]? ∧ (logU (hrun ops {}))[j]? = ((hrun ops {}).inU)[j]? := by
  have h := C02_hist_user_fifo ops
  rw [← h]
  constructor
  · rw [List.getElem?_append_left (by omega)]
  · rw [List.getElem?_append_left hj]

/-- **System before user, over every history**: each user message in the log was picked when no
system message was pending and the mailbox was not paused. -/
theorem C02_hist_user_only_when_no_system_pending (ops : List HOp) :
    ∀ x ∈ (hrun ops {}).log, x.1.sys = false → x.2.1 = 0 ∧ x.2.2 = false :=
  (hinv_run ops {} hinv_init).userQuiet

/-- Nothing is picked from a paused mailbox that holds no system message. -/
theorem C02_hist_paused_holds (h : Hist) (hs : h.sq = []) (hp : h.paused = true) : hstep h .proc = h := by
  unfold hstep pick; simp [hs, hp]

-- non-vacuity: a history with two senders, a pause, an immediate kill overtaking user mail
private def eU (i : Nat) (snd : Nat) : Env := { id := i, sys := false, sender := some snd, msg := .user 0 }
private def eS (i : Nat) : Env := { id := i, sys := true, sender := none, msg := .onKill false }

example :
    ((hrun [.enq (eU 1 7), .enq (eU 2 8), .enq (eU 3 7), .proc, .enq (eS 4), .pause, .proc, .proc, .resume, .proc, .proc] {}).log.map
      (fun x => (x.1.id, x.2.1, x.2.2))) = [(1, 0, false), (4, 0, true), (2, 0, false), (3, 0, false)] := by
  decide

/-! ## The stash over every history

`stashCnt` is the count rule of M10's `.unstash n` (and of `Context.Unstash`): the no-argument
fast path (`n = 0`) returns one message, `Unstash(n)` returns `min n (stash length)`.  The stash
history records every envelope ever stashed (`stLog`) and every envelope ever returned to the
mailbox (`unLog`), both in event order. -/

def stashCnt (n len : Nat) : Nat := if n = 0 then min 1 len else min n len

/-- The count M10 uses in `.unstash n` is `stashCnt` (tie to the model the lock-step compares). -/
theorem unstash_uses_stashCnt (s : Sys) (self : Cid) (cur : Env) (n : Nat) :
    ((runActions s self cur [.unstash n]).s.ctx self).stash =
      (s.ctx self).stash.drop (stashCnt n (s.ctx self).stash.length) := by
  simp only [runActions, upd_ctx_self, stashCnt]
  rw [(foldl_enqueue_queues _ s self).2.2]

structure StashH where
  stash : List Env := []
  stLog : List Env := []
  unLog : List Env := []

inductive SOp where
  | stash (e : Env)
  | unstash (n : Nat)

def sstep (h : StashH) : SOp → StashH
  | .stash e => { h with stash := h.stash ++ [e], stLog := h.stLog ++ [e] }
  | .unstash n =>
    let k := stashCnt n h.stash.length
    { h with stash := h.stash.drop k, unLog := h.unLog ++ h.stash.take k }

def srun (ops : List SOp) (h : StashH) : StashH := ops.foldl sstep h

theorem sinv_step (h : StashH) (o : SOp) (inv : h.unLog ++ h.stash = h.stLog) :
    (sstep h o).unLog ++ (sstep h o).stash = (sstep h o).stLog := by
  cases o with
  | stash e =>
    show h.unLog ++ (h.stash ++ [e]) = h.stLog ++ [e]
    rw [← List.append_assoc, inv]
  | unstash n =>
    show (h.unLog ++ h.stash.take (stashCnt n h.stash.length)) ++ h.stash.drop (stashCnt n h.stash.length) = h.stLog
    rw [List.append_assoc, List.take_append_drop, inv]

/-- **Stash order over every history**: whatever the sequence of `Stash` and `Unstash(n)` calls,
the messages returned so far followed by the messages still stashed are exactly the messages
stashed, in the order they were stashed - each comes back once, none overtakes another. -/
theorem C02_hist_stash_fifo (ops : List SOp) :
    (srun ops {}).unLog ++ (srun ops {}).stash = (srun ops {}).stLog := by
  suffices ∀ h : StashH, h.unLog ++ h.stash = h.stLog → (srun ops h).unLog ++ (srun ops h).stash = (srun ops h).stLog from
    this {} rfl
  induction ops with
  | nil => intro h inv; exact inv
  | cons o ops ih => intro h inv; exact ih _ (sinv_step h o inv)

/-- What has come back is a prefix of what was stashed. -/
theorem C02_hist_unstashed_prefix (ops : List SOp) : (srun ops {}).unLog <+: (srun ops {}).stLog := by
  rw [← C02_hist_stash_fifo ops]; exact List.prefix_append _ _

/-- `Unstash(n)` on a stash of at least `n > 0` messages returns exactly `n`; the fast path returns one. -/
theorem C02_hist_unstash_count (h : StashH) (n : Nat) :
    (sstep h (.unstash n)).unLog.length = h.unLog.length + stashCnt n h.stash.length ∧
    stashCnt n h.stash.length ≤ h.stash.length ∧ (0 < h.stash.length → 0 < stashCnt n h.stash.length) := by
  refine ⟨?_, ?_, ?_⟩
  · show (h.unLog ++ h.stash.take (stashCnt n h.stash.length)).length = _
    have : stashCnt n h.stash.length ≤ h.stash.length := by unfold stashCnt; split <;> omega
    simp [List.length_take, Nat.min_eq_left this]
  · unfold stashCnt; split <;> omega
  · intro hl; unfold stashCnt; split <;> omega

example :
    ((srun [.stash (eU 1 7), .stash (eU 2 7), .stash (eU 3 8), .unstash 0, .stash (eU 4 7), .unstash 5, .unstash 2] {}).unLog.map (·.id)) = [1, 2, 3, 4] := by
  decide

end Vivid.ActorSys
