import Vivid.Proofs.ClusterView

/-!
# C17 — cluster-view merge is order-insensitive and never regresses a member

`obs v i` = (generation, logical clock) of member `i`, the incarnation order the property is
about.  `SWF` is what holds of every member state produced by `newNodeState`, the restart bump
and earlier merges: map key = state id, logical clock non-zero.  All merge options (three
concurrent-version strategies, clock-skew rule in either outcome) are universally quantified.
-/
namespace Vivid.View
open Vivid.VV

def ltObs (a b : Int × Nat) : Prop := a.1 < b.1 ∨ (a.1 = b.1 ∧ a.2 < b.2)
instance (a b : Int × Nat) : Decidable (ltObs a b) := by unfold ltObs; exact inferInstance

def maxObs (a b : Int × Nat) : Int × Nat := if ltObs a b then b else a

def optMax : Option (Int × Nat) → Option (Int × Nat) → Option (Int × Nat)
  | none, x => x
  | some a, none => some a
  | some a, some b => some (maxObs a b)

def leObs (a b : Int × Nat) : Prop := a = b ∨ ltObs a b

def leOpt : Option (Int × Nat) → Option (Int × Nat) → Prop
  | none, _ => True
  | some _, none => False
  | some a, some b => leObs a b

/-- Well-formed member table: distinct keys, key = state id, logical clock non-zero. -/
def SWF (m : Members) : Prop :=
  MWF m ∧ ∀ i s, lookup m i = some s → s.id = i ∧ s.lc ≠ 0

def sobs (s : NodeState) : Int × Nat := (s.gen, s.lc)

theorem newer_iff (a b : NodeState) (hid : a.id = b.id) (ha : a.lc ≠ 0) (hb : b.lc ≠ 0) :
    newer b a = true ↔ ltObs (sobs a) (sobs b) := by
  unfold newer ltObs sobs
  by_cases hg : b.gen = a.gen
  · simp only [hg, ne_eq, not_true_eq_false, if_false, hid, true_and, ha, hb, not_false_eq_true, and_self,
      if_true, decide_eq_true_eq, Int.lt_irrefl, false_or]
  · simp only [ne_eq, hg, not_false_eq_true, if_true, decide_eq_true_eq]
    constructor
    · intro h; exact Or.inl h
    · rintro (h | ⟨h, _⟩)
      · exact h
      · exact absurd h.symm hg

theorem obs_pick (x y : Option NodeState) (i : String)
    (hx : ∀ s, x = some s → s.id = i ∧ s.lc ≠ 0) (hy : ∀ s, y = some s → s.id = i ∧ s.lc ≠ 0) :
    (pick x y).map sobs = optMax (x.map sobs) (y.map sobs) := by
  cases x with
  | none => rfl
  | some a =>
    cases y with
    | none => rfl
    | some b =>
      have ⟨ha1, ha2⟩ := hx a rfl
      have ⟨hb1, hb2⟩ := hy b rfl
      simp only [pick, Option.map_some, optMax, maxObs]
      have := newer_iff a b (by rw [ha1, hb1]) ha2 hb2
      by_cases hn : newer b a = true
      · simp [hn, this.mp hn]
      · have hl : ¬ ltObs (sobs a) (sobs b) := fun h => hn (this.mpr h)
        simp [hn, hl]

theorem members_mergeFrom (a b : View) (o : MergeOpts) :
    (mergeFrom a b o).1.members =
      if b.members.length = 0 then a.members else (mergeMembers a.members b.members false).1 := by
  unfold mergeFrom
  split
  · rfl
  · rfl

theorem obs_eq (v : View) (i : String) : obs v i = (lookup v.members i).map sobs := rfl

/-- The membership a merge produces: for every id the newest incarnation of the two views. -/
theorem C17_merge_obs (a b : View) (o : MergeOpts) (ha : SWF a.members) (hb : SWF b.members) (i : String) :
    obs (mergeFrom a b o).1 i = optMax (obs a i) (obs b i) := by
  rw [obs_eq, members_mergeFrom]
  split
  · rename_i h
    have : b.members = [] := List.eq_nil_of_length_eq_zero h
    rw [obs_eq, obs_eq, this, lookup_nil]
    cases (lookup a.members i).map sobs <;> rfl
  · rw [mergeMembers_lookup b.members hb.1 a.members false i, obs_eq, obs_eq]
    exact obs_pick _ _ i (fun s h => ha.2 i s h) (fun s h => hb.2 i s h)

/-- Well-formedness is preserved by merging (so the theorems apply to earlier merges' results). -/
theorem C17_merge_swf (a b : View) (o : MergeOpts) (ha : SWF a.members) (hb : SWF b.members) :
    SWF (mergeFrom a b o).1.members := by
  rw [members_mergeFrom]
  split
  · exact ha
  · refine ⟨mergeMembers_mwf _ _ _ ha.1, ?_⟩
    intro i s hs
    rw [mergeMembers_lookup b.members hb.1] at hs
    cases hx : lookup a.members i with
    | none =>
      rw [hx] at hs; simp only [pick] at hs; exact hb.2 i s hs
    | some x =>
      rw [hx] at hs
      cases hy : lookup b.members i with
      | none => rw [hy] at hs; simp only [pick] at hs; cases hs; exact ha.2 i _ hx
      | some y =>
        rw [hy] at hs; simp only [pick] at hs
        split at hs
        · cases hs; exact hb.2 i _ hy
        · cases hs; exact ha.2 i _ hx

/-! ### the algebra of `optMax` -/

theorem ltObs_irrefl (a : Int × Nat) : ¬ ltObs a a := by unfold ltObs; omega
theorem ltObs_trichotomy (a b : Int × Nat) : ltObs a b ∨ a = b ∨ ltObs b a := by
  obtain ⟨a1, a2⟩ := a; obtain ⟨b1, b2⟩ := b
  unfold ltObs; simp only [Prod.mk.injEq]; omega
theorem ltObs_asymm (a b : Int × Nat) : ltObs a b → ¬ ltObs b a := by unfold ltObs; omega
theorem ltObs_trans (a b c : Int × Nat) : ltObs a b → ltObs b c → ltObs a c := by unfold ltObs; omega

theorem maxObs_comm (a b : Int × Nat) : maxObs a b = maxObs b a := by
  unfold maxObs
  rcases ltObs_trichotomy a b with h | h | h
  · simp [h, ltObs_asymm a b h]
  · subst h; rfl
  · simp [h, ltObs_asymm b a h]

theorem maxObs_idem (a : Int × Nat) : maxObs a a = a := by simp [maxObs, ltObs_irrefl]

theorem maxObs_assoc (a b c : Int × Nat) : maxObs (maxObs a b) c = maxObs a (maxObs b c) := by
  obtain ⟨a1, a2⟩ := a; obtain ⟨b1, b2⟩ := b; obtain ⟨c1, c2⟩ := c
  simp only [maxObs, ltObs]
  by_cases h1 : a1 < b1 ∨ a1 = b1 ∧ a2 < b2 <;> by_cases h2 : b1 < c1 ∨ b1 = c1 ∧ b2 < c2 <;>
    simp only [h1, h2, if_true, if_false] <;>
    (split <;> (try split) <;> first | rfl | (simp only [Prod.mk.injEq] at *; omega))

theorem optMax_comm (x y : Option (Int × Nat)) : optMax x y = optMax y x := by
  cases x <;> cases y <;> simp [optMax, maxObs_comm]
theorem optMax_assoc (x y z : Option (Int × Nat)) : optMax (optMax x y) z = optMax x (optMax y z) := by
  cases x <;> cases y <;> cases z <;> simp [optMax, maxObs_assoc]
theorem optMax_idem (x : Option (Int × Nat)) : optMax x x = x := by
  cases x <;> simp [optMax, maxObs_idem]

/-- Commutative on the membership it produces — for any options on either side. -/
theorem C17_comm (a b : View) (o o' : MergeOpts) (ha : SWF a.members) (hb : SWF b.members) (i : String) :
    obs (mergeFrom a b o).1 i = obs (mergeFrom b a o').1 i := by
  rw [C17_merge_obs a b o ha hb, C17_merge_obs b a o' hb ha, optMax_comm]

/-- Associative on the membership it produces. -/
theorem C17_assoc (a b c : View) (o1 o2 o3 o4 : MergeOpts)
    (ha : SWF a.members) (hb : SWF b.members) (hc : SWF c.members) (i : String) :
    obs (mergeFrom (mergeFrom a b o1).1 c o2).1 i = obs (mergeFrom a (mergeFrom b c o3).1 o4).1 i := by
  rw [C17_merge_obs _ c o2 (C17_merge_swf a b o1 ha hb) hc, C17_merge_obs a b o1 ha hb,
    C17_merge_obs a _ o4 ha (C17_merge_swf b c o3 hb hc), C17_merge_obs b c o3 hb hc, optMax_assoc]

/-- Idempotent on the membership it produces. -/
theorem C17_idem (a : View) (o : MergeOpts) (ha : SWF a.members) (i : String) :
    obs (mergeFrom a a o).1 i = obs a i := by
  rw [C17_merge_obs a a o ha ha, optMax_idem]

theorem leOpt_optMax_left (x y : Option (Int × Nat)) : leOpt x (optMax x y) := by
  cases x with
  | none => trivial
  | some a =>
    cases y with
    | none => exact Or.inl rfl
    | some b =>
      simp only [optMax, leOpt, maxObs, leObs]
      by_cases h : ltObs a b
      · simp [h]
      · simp [h]

/-- A merge never removes a member and never replaces a member's state by an older incarnation. -/
theorem C17_no_regress (a b : View) (o : MergeOpts) (ha : SWF a.members) (hb : SWF b.members) (i : String) :
    leOpt (obs a i) (obs (mergeFrom a b o).1 i) := by
  rw [C17_merge_obs a b o ha hb]; exact leOpt_optMax_left _ _

theorem C17_no_removal (a b : View) (o : MergeOpts) (ha : SWF a.members) (hb : SWF b.members) (i : String)
    (h : obs a i ≠ none) : obs (mergeFrom a b o).1 i ≠ none := by
  have := C17_no_regress a b o ha hb i
  cases hx : obs a i with
  | none => exact absurd hx h
  | some x =>
    rw [hx] at this
    cases hy : obs (mergeFrom a b o).1 i with
    | none => rw [hy] at this; exact this.elim
    | some _ => simp

/-- A merge never lowers the epoch (nor the view timestamp, nor the protocol version). -/
theorem C17_epoch_mono (a b : View) (o : MergeOpts) :
    a.epoch ≤ (mergeFrom a b o).1.epoch ∧ a.timestamp ≤ (mergeFrom a b o).1.timestamp ∧
    a.protocol ≤ (mergeFrom a b o).1.protocol := by
  unfold mergeFrom
  split
  · exact ⟨Int.le_refl _, Int.le_refl _, Nat.le_refl _⟩
  · simp only [recompute]
    refine ⟨?_, ?_, ?_⟩
    · split
      · rename_i h; simp only [Bool.and_eq_true, decide_eq_true_eq] at h; omega
      · exact Int.le_refl _
    · split
      · rename_i h; simp only [Bool.and_eq_true, decide_eq_true_eq] at h; omega
      · exact Int.le_refl _
    · split
      · rename_i h; simp only [decide_eq_true_eq] at h; omega
      · exact Nat.le_refl _

/-- `changed = false` is only reported when the membership did not change at all. -/
theorem C17_changed_sound_members (a b : View) (o : MergeOpts) (h : (mergeFrom a b o).2 = false) :
    (mergeFrom a b o).1.members = a.members := by
  rw [members_mergeFrom]
  split
  · rfl
  · rename_i hne
    apply mergeMembers_unchanged
    unfold mergeFrom at h
    simp only [hne, if_false, Bool.or_eq_false_iff] at h
    exact h.1.1.1.1

/-! Non-vacuity: two well-formed views where a restarted incarnation (generation 2) wins. -/
def exA : View := { Vivid.View.empty with members := [("n1", ⟨"n1", 1, 5, 10, 1, "h1"⟩)] }
def exB : View := { Vivid.View.empty with members := [("n1", ⟨"n1", 2, 1, 3, 0, "h1"⟩), ("n2", ⟨"n2", 1, 1, 3, 1, "h2"⟩)] }

example : obs (mergeFrom exA exB ⟨false, 0⟩).1 "n1" = some (2, 1) ∧
    obs (mergeFrom exB exA ⟨true, 1⟩).1 "n1" = some (2, 1) ∧ (mergeFrom exA exB ⟨false, 0⟩).2 = true := by decide

end Vivid.View

/-! ## The version vector never loses a live member's entry (repaired `recomputeCounts`) -/
namespace Vivid.View
open Vivid.VV

theorem get_filter_contains (v : VV) (act : List Node) (k : Node) (hk : act.contains k = true) :
    VV.get (v.filter (fun e => act.contains e.1)) k = VV.get v k := by
  induction v with
  | nil => rfl
  | cons e t ih =>
    obtain ⟨k', c⟩ := e
    by_cases hc : act.contains k' = true
    · simp only [List.filter_cons, hc, if_true, get_cons, ih]
    · have hne : k' ≠ k := fun h => hc (h ▸ hk)
      simp only [List.filter_cons, hc, get_cons, hne, if_false, ih, Bool.false_eq_true]

/-- With the cap never below the member count, pruning keeps every active key's counter. -/
theorem prune_keeps (v : VV) (active : List Node) (lim : Nat) (hl : active.length ≤ lim) (h0 : 0 < lim)
    (k : Node) (hk : k ∈ active) : VV.get (pruneWithMax v active (Int.ofNat lim)) k = VV.get v k := by
  unfold pruneWithMax
  by_cases hz : v.length = 0 ∨ active.length = 0
  · simp only [hz, if_true]
    rcases hz with hz | hz
    · rw [get_of_length_zero v hz]; rfl
    · have : active = [] := List.length_eq_zero_iff.1 hz
      subst this; cases hk
  · simp only [hz, if_false]
    have hpos : ¬ (Int.ofNat lim ≤ 0) := by
      intro h; have : (lim : Int) ≤ 0 := h; omega
    have htn : (Int.ofNat lim).toNat = lim := by simp
    simp only [hpos, if_false, htn]
    have hng : ¬ active.length > lim := by omega
    simp only [hng, if_false]
    exact get_filter_contains v active k (by simpa using hk)

/-- **C17 (the version vector does not regress for members).** After a merge, every member of
the result has a counter at least as large as it had in the receiving view (and at least as
large as in the merged-in view). -/
theorem C17_vv_no_regress (a b : View) (o : MergeOpts) (hb : VV.WF b.vv) (k : String)
    (hk : k ∈ mkeys (mergeFrom a b o).1.members) :
    VV.get a.vv k ≤ VV.get (mergeFrom a b o).1.vv k ∧
    (b.members.length ≠ 0 → VV.get b.vv k ≤ VV.get (mergeFrom a b o).1.vv k) := by
  unfold mergeFrom at hk ⊢
  by_cases hz : b.members.length = 0
  · simp only [hz, if_true]; exact ⟨Nat.le_refl _, fun h => absurd rfl h⟩
  · simp only [hz, if_false] at hk ⊢
    rw [merge_get _ _ hb]
    -- the members of the result are those of the merged member list
    have hm : (recompute { a with members := (mergeMembers a.members b.members false).1 }).members
        = (mergeMembers a.members b.members false).1 := rfl
    rw [hm] at hk
    have hlen : 0 < (mergeMembers a.members b.members false).1.length := by
      cases hh : (mergeMembers a.members b.members false).1 with
      | nil => rw [hh] at hk; cases hk
      | cons _ _ => simp
    have hv1 : VV.get (recompute { a with members := (mergeMembers a.members b.members false).1 }).vv k
        = VV.get a.vv k := by
      unfold recompute
      simp only [hlen, if_true]
      apply prune_keeps
      · simp only [mkeys, List.length_map]; exact Nat.le_max_right _ _
      · exact Nat.lt_of_lt_of_le hlen (Nat.le_max_right _ _)
      · exact hk
    rw [hv1]
    exact ⟨Nat.le_max_left _ _, fun _ => Nat.le_max_right _ _⟩

end Vivid.View
