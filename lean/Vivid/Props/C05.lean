import Vivid.Proofs.ActorSys

/-!
# C05 — lifecycle order per incarnation (handler-level theorems about M10)

Proved: a spawned actor's first queued message is its OnLaunch and it has no user mail before
it; a failing Prelaunch leaves no trace; a successful restart sends the new incarnation's
OnLaunch to the restarted actor itself (repaired variant) — and to its parent in the code as
found (witness); the behaviour stack is reset.  The trace-level statements (nothing after the
own OnKilled, OnKill before it, for every reachable state) are checked by the lock-step
`seen` log and the harness's lifecycle monitor; not yet proved as global invariants.
-/
namespace Vivid.ActorSys

/-- `ActorOf` with a failing `OnPrelaunch` (hook bit 4): no context, nothing registered, nothing queued. -/
theorem C05_prelaunch_fail (s : Sys) (parent : Cid) (name : String) (script strat hooks : Nat) (ds : List Nat)
    (hp : (s.ctx parent).state ≠ .killed) (hh : hooks % 32 ≥ 16) :
    (actorOf s parent name script strat hooks ds).n = s.n ∧
    (actorOf s parent name script strat hooks ds).registry = s.registry ∧
    (actorOf s parent name script strat hooks ds).ctx = s.ctx := by
  unfold actorOf
  simp only [hp, if_false, hh, if_true]
  exact ⟨rfl, rfl, rfl⟩

/-- A successfully spawned actor: registered under its path, running, with exactly one queued
system message — its OnLaunch — (plus the parent's immediate kill if the parent is stopping) and
no user mail. -/
theorem C05_spawn_launch_first (s : Sys) (parent : Cid) (name : String) (script strat hooks : Nat) (ds : List Nat)
    (hp : (s.ctx parent).state = .running) (hh : hooks % 32 < 16)
    (hfree : s.registry.lookup (joinPath (s.ctx parent).path name) = none) (hne : parent ≠ s.n) :
    let s' := actorOf s parent name script strat hooks ds
    s'.n = s.n + 1 ∧ (s'.ctx s.n).state = .running ∧ (s'.ctx s.n).userQ = [] ∧
    (s'.ctx s.n).sysQ = [{ id := 0, sys := true, sender := some parent, msg := .onLaunch }] ∧
    s'.registry.lookup (joinPath (s.ctx parent).path name) = some s.n := by
  have h1 : ¬ (s.ctx parent).state = .killed := by rw [hp]; decide
  have h2 : ¬ (hooks % 32 ≥ 16) := by omega
  have h3 : ¬ (s.ctx parent).state = .killing := by rw [hp]; decide
  simp only [actorOf, h1, h2, if_false, hfree, h3]
  simp [tell, resolve, enqueue, upd, say, Ne.symm hne, blankCtx, List.lookup]

/-- The state in which the new incarnation starts: behaviour stack reset to the actor's own
OnReceive, incarnation bumped, running, restart flag cleared, mailbox unpaused. -/
def relaunchState (s : Sys) (c : Cid) : Sys :=
  say (upd (upd (upd s c (fun x => { x with behaviors := [x.script] })) c
    (fun x => { x with restarting := none, state := .running, inc := x.inc + 1 })) c
    (fun x => { x with paused := false })) s!"restarted:{c}"

/-- Repaired variant: a successful restart *runs* the new incarnation's OnLaunch on the restarted
actor itself, at the end of the restart — nothing is enqueued, so no message that is already
queued (a second RestartMessage, an OnKill from a concurrent decision, user mail) can reach the
new incarnation before its OnLaunch; and nobody else receives an OnLaunch. -/
theorem C05_restart_launch_self (s : Sys) (c : Cid) (hf : s.fixedLaunch = true)
    (hh : (s.ctx c).hooks / 4 % 2 = 0 ∧ (s.ctx c).hooks / 2 % 2 = 0) :
    handleRestart s c =
      execRecover (relaunchState s c) c (s.ctx c).script { id := 0, sys := true, sender := some c, msg := .onLaunch } .onLaunch ∧
    ((relaunchState s c).ctx c).behaviors = [(s.ctx c).script] ∧ ((relaunchState s c).ctx c).inc = (s.ctx c).inc + 1 ∧
    ((relaunchState s c).ctx c).state = .running ∧ ((relaunchState s c).ctx c).paused = false ∧
    ((relaunchState s c).ctx c).restarting = none ∧
    (∀ d, ((relaunchState s c).ctx d).sysQ = (s.ctx d).sysQ ∧ ((relaunchState s c).ctx d).userQ = (s.ctx d).userQ) := by
  have h1 : ¬ ((s.ctx c).hooks / 4 % 2 = 1 ∨ (s.ctx c).hooks / 2 % 2 = 1) := by omega
  refine ⟨?_, ?_, ?_, ?_, ?_, ?_, ?_⟩
  · simp only [handleRestart, h1, if_false, hf, if_true, relaunchState]
  all_goals simp [relaunchState, upd, say]
  intro d
  by_cases hd : d = c <;> simp [hd]

/-- The code as found sent that OnLaunch to the parent: witness on a two-actor system. -/
theorem C05_restart_launch_parent_witness :
    ∃ s : Sys, s.fixedLaunch = false ∧ (s.ctx 1).parent = some 0 ∧
      ((handleRestart s 1).ctx 1).sysQ = [] ∧ ((handleRestart s 1).ctx 0).sysQ.length = 1 := by
  refine ⟨{ init false with n := 2, ctx := fun c => if c = 0 then rootCtx else { blankCtx with parent := some 0, path := "/a" } }, rfl, rfl, ?_, ?_⟩ <;>
    simp [handleRestart, blankCtx, rootCtx, tell, resolve, enqueue, upd, say, init]

/-- A failing restart hook turns the actor into a zombie: no OnLaunch, mailbox unpaused (it
keeps draining), state stays terminated. -/
theorem C05_restart_hook_fails_zombie (s : Sys) (c : Cid)
    (hh : (s.ctx c).hooks / 4 % 2 = 1 ∨ (s.ctx c).hooks / 2 % 2 = 1) :
    ((handleRestart s c).ctx c).zombie = true ∧ ((handleRestart s c).ctx c).paused = false ∧
    ((handleRestart s c).ctx c).sysQ = (s.ctx c).sysQ ∧ ((handleRestart s c).ctx c).state = (s.ctx c).state := by
  simp only [handleRestart, hh, if_true]
  simp [upd, say]

end Vivid.ActorSys
