import Vivid.Proofs.GossipSpread

/-!
# C18 — the positive half: a gossip round makes the views equal (restart-free, fresh phase)

`RF ms`: the list is restart-free — every entry is the first incarnation at its address
(`id = (addr, 1)`) and no id occurs twice.  In that regime `handleGossip` neither supersedes nor
filters anything that is not stale, so what a node knows after handling a sequence of gossip
messages is exactly what it knew plus everything it was told:

* `C18_fold_knows`: for every node and every list of messages (any senders, any order, any
  number of repetitions) whose entries are restart-free and not stale,
  `has (after all of them) i = has before i || (some message lists i)`.
* `C18_round_same_members`: if every node of a set handles (at least) one gossip from every node of
  the set — an all-to-all round, in any interleaving — and nothing it hears goes beyond what the set
  knew, all nodes end with the same member set.  With `C18_same_leader` (equal Up-address sets ⇒
  equal leader) this is the convergence statement for the phase after the last fault.

What this does not cover is stated in DESIGN.md: fairness of the real timers (that every pair does
exchange gossip) and restarts during the round.
-/
namespace Vivid.Gossip

/-- Restart-free member list. -/
def RF (ms : List Mem) : Prop := (∀ e ∈ ms, e.id = (e.addr, 1)) ∧ (ms.map (·.id)).Nodup

theorem nodup_map_inj {α β : Type} (f : α → β) (l : List α) (h : (l.map f).Nodup) (a b : α)
    (ha : a ∈ l) (hb : b ∈ l) (hab : f a = f b) : a = b := by
  induction l with
  | nil => cases ha
  | cons x t ih =>
    simp only [List.map_cons, List.nodup_cons, List.mem_map, not_exists, not_and] at h
    simp only [List.mem_cons] at ha hb
    rcases ha with ha | ha <;> rcases hb with hb | hb
    · rw [ha, hb]
    · rw [ha] at hab; exact absurd hab.symm (h.1 b hb)
    · rw [hb] at hab; exact absurd hab (h.1 a ha)
    · exact ih h.2 ha hb

theorem RF.onePerAddr {ms : List Mem} (h : RF ms) : OnePerAddr ms := by
  intro a ha b hb hab
  apply nodup_map_inj (·.id) ms h.2 a b ha hb
  show a.id = b.id
  rw [h.1 a ha, h.1 b hb, hab]

theorem map_id_replace (ms : List Mem) (m : Mem) :
    (ms.map fun x => if x.id = m.id then m else x).map (·.id) = ms.map (·.id) := by
  induction ms with
  | nil => rfl
  | cons x t ih =>
    simp only [List.map_cons, ih]
    by_cases hx : x.id = m.id
    · simp [hx]
    · simp [hx]

theorem addMember_RF {ms : List Mem} {m : Mem} (h : RF ms) (hm : m.id = (m.addr, 1)) : RF (addMember ms m) := by
  unfold addMember
  cases hf : ms.find? (·.id = m.id) with
  | none =>
    simp only
    refine ⟨fun e he => ?_, ?_⟩
    · rcases List.mem_append.1 he with he | he
      · exact h.1 e he
      · simp only [List.mem_singleton] at he; rw [he]; exact hm
    · rw [List.map_append, List.nodup_append]
      refine ⟨h.2, by simp, ?_⟩
      intro a ha b hb
      simp only [List.map_cons, List.map_nil, List.mem_singleton] at hb
      obtain ⟨e, he, rfl⟩ := List.mem_map.1 ha
      intro heq
      have := List.find?_eq_none.1 hf e he
      simp only [decide_eq_true_eq] at this
      exact this (by rw [heq, hb])
  | some e =>
    simp only
    split
    · refine ⟨fun x hx => ?_, by rw [map_id_replace]; exact h.2⟩
      obtain ⟨y, hy, rfl⟩ := List.mem_map.1 hx
      split
      · exact hm
      · exact h.1 y hy
    · exact h

theorem mergeView_RF {ms view : List Mem} (h : RF ms) (hv : ∀ v ∈ view, v.id = (v.addr, 1)) : RF (mergeView ms view) := by
  unfold mergeView
  induction view generalizing ms with
  | nil => exact h
  | cons v t ih =>
    simp only [List.foldl_cons]
    exact ih (addMember_RF h (hv v (by simp))) (fun x hx => hv x (by simp [hx]))

theorem refresh_RF {ms : List Mem} (id : Nat × Nat) (now : Nat) (h : RF ms) : RF (refresh ms id now) := by
  unfold refresh
  refine ⟨fun e he => ?_, ?_⟩
  · obtain ⟨y, hy, rfl⟩ := List.mem_map.1 he
    split
    · exact h.1 y hy
    · exact h.1 y hy
  · have : (ms.map fun m => if m.id = id then { m with seen := now, st := if m.st = .suspect then .up else m.st } else m).map (·.id) = ms.map (·.id) := by
      induction ms with
      | nil => rfl
      | cons x t ih =>
        simp only [List.map_cons]
        rw [ih ⟨fun e he => h.1 e (by simp [he]), (List.nodup_cons.1 h.2).2⟩]
        by_cases hx : x.id = id <;> simp [hx]
    rw [this]; exact h.2

theorem touch_RF {ms : List Mem} (s now : Nat) (h : RF ms) : RF (touch ms s now) := by
  unfold touch
  cases byAddrNewest ms s with
  | none => exact h
  | some t => exact refresh_RF t.id now h

/-- A restart-free node: its list is, and it is the first incarnation at its own address. -/
structure RFN (n : Node) : Prop where
  mem : RF n.mem
  self : n.self.id = (n.self.addr, 1)

/-- What a restart-free node knows after one gossip whose entries are restart-free and not stale:
what it knew, plus what it was told.  The node stays restart-free. -/
theorem handle_knows (n : Node) (now s : Nat) (view : List Mem) (hn : RFN n)
    (hv : ∀ v ∈ view, v.id = (v.addr, 1)) (hfresh : ∀ v ∈ view, stale n.T now v = false) :
    RFN (handleGossip n now s view) ∧ (handleGossip n now s view).T = n.T ∧
    ∀ i, has (handleGossip n now s view).mem i = (has n.mem i || has view i) := by
  have hdrop : dropStale { n with mem := touch n.mem s now } now s view = view := by
    unfold dropStale
    apply List.filter_eq_self.2
    intro v hv'
    have := hfresh v hv'
    simp only at this ⊢
    simp [this]
  have hm : RF (merged n now s view) := by
    unfold merged
    rw [hdrop]
    exact mergeView_RF (touch_RF s now hn.mem) hv
  have h1 : OnePerAddr (merged n now s view) := hm.onePerAddr
  have hself : ∀ e ∈ merged n now s view, e.addr = n.self.addr → e.id = n.self.id := by
    intro e he ha
    rw [hm.1 e he, hn.self, ha]
  refine ⟨⟨?_, hn.self⟩, rfl, fun i => ?_⟩
  · rw [handleGossip_eq]
    have : supersede n.self (mergeView (touch n.mem s now)
        (dropStale { n with mem := touch n.mem s now } now s view)) = merged n now s view :=
      supersede_id n.self _ h1 hself
    rw [this]
    exact touch_RF s now hm
  · rw [handle_has_of_clean n now s view h1 hself, hdrop]

/-- Handling a list of gossip messages, in the order given. -/
def handleAll (n : Node) (now : Nat) (msgs : List (Nat × List Mem)) : Node :=
  msgs.foldl (fun acc m => handleGossip acc now m.1 m.2) n

/-- **Spreading.**  After any list of restart-free, non-stale gossip messages a node knows exactly
what it knew before plus everything any of the messages lists. -/
theorem C18_fold_knows (now : Nat) (msgs : List (Nat × List Mem)) :
    ∀ n, RFN n → (∀ m ∈ msgs, ∀ v ∈ m.2, v.id = (v.addr, 1) ∧ stale n.T now v = false) →
      RFN (handleAll n now msgs) ∧
      ∀ i, has (handleAll n now msgs).mem i = (has n.mem i || msgs.any (fun m => has m.2 i)) := by
  induction msgs with
  | nil => intro n hn _; exact ⟨hn, fun i => by simp [handleAll]⟩
  | cons m t ih =>
    intro n hn hm
    obtain ⟨h1, hT, h2⟩ := handle_knows n now m.1 m.2 hn (fun v hv => (hm m (by simp) v hv).1)
      (fun v hv => (hm m (by simp) v hv).2)
    obtain ⟨h3, h4⟩ := ih (handleGossip n now m.1 m.2) h1
      (fun m' hm' v hv => by rw [hT]; exact hm m' (by simp [hm']) v hv)
    refine ⟨h3, fun i => ?_⟩
    have : handleAll n now (m :: t) = handleAll (handleGossip n now m.1 m.2) now t := rfl
    rw [this, h4 i, h2 i]
    simp only [List.any_cons]
    cases has n.mem i <;> cases has m.2 i <;> simp

/-- **A gossip round converges.**  `nodes` is the set of running nodes (restart-free), `inbox j` what
node `j` handles during the round, in whatever order and interleaving.  If every node hears (at
least) the list of every node of the set, and nothing it hears goes beyond what the set knew, all
nodes end with the same member set. -/
theorem C18_round_same_members (now : Nat) (nodes : List Node) (inbox : Node → List (Nat × List Mem))
    (hrf : ∀ n ∈ nodes, RFN n)
    (hmsg : ∀ n ∈ nodes, ∀ m ∈ inbox n, ∀ v ∈ m.2, v.id = (v.addr, 1) ∧ stale n.T now v = false)
    (hall : ∀ n ∈ nodes, ∀ k ∈ nodes, ∃ m ∈ inbox n, m.2 = k.mem)
    (hsub : ∀ n ∈ nodes, ∀ m ∈ inbox n, ∀ i, has m.2 i = true → ∃ k ∈ nodes, has k.mem i = true)
    (a b : Node) (ha : a ∈ nodes) (hb : b ∈ nodes) (i : Nat × Nat) :
    has (handleAll a now (inbox a)).mem i = has (handleAll b now (inbox b)).mem i := by
  have key : ∀ n ∈ nodes, (has (handleAll n now (inbox n)).mem i = true ↔ ∃ k ∈ nodes, has k.mem i = true) := by
    intro n hn
    rw [(C18_fold_knows now (inbox n) n (hrf n hn) (hmsg n hn)).2 i]
    constructor
    · intro h
      rw [Bool.or_eq_true] at h
      rcases h with h | h
      · exact ⟨n, hn, h⟩
      · obtain ⟨m, hm, hi⟩ := List.any_eq_true.1 h
        exact hsub n hn m hm i hi
    · rintro ⟨k, hk, hi⟩
      obtain ⟨m, hm, hmk⟩ := hall n hn k hk
      rw [Bool.or_eq_true]
      right
      exact List.any_eq_true.2 ⟨m, hm, by rw [hmk]; exact hi⟩
  have ka := key a ha
  have kb := key b hb
  cases h1 : has (handleAll a now (inbox a)).mem i <;> cases h2 : has (handleAll b now (inbox b)).mem i
  · rfl
  · exact absurd (ka.2 (kb.1 h2)) (by rw [h1]; simp)
  · exact absurd (kb.2 (ka.1 h1)) (by rw [h2]; simp)
  · rfl

/-- Non-vacuity: three nodes, each knowing itself and one neighbour, exchange their lists all-to-all:
all three end up listing 0, 1 and 2. -/
example :
    let m : Nat → Mem := fun a => ⟨(a, 1), a, 1, 1, 1000, .up, 1000⟩
    let n : Nat → List Nat → Node := fun a ks => { self := m a, mem := ks.map m, seeds := [0], T := 2000 }
    let n0 := n 0 [0, 1]; let n1 := n 1 [1, 2]; let n2 := n 2 [2, 0]
    let box := [(0, n0.mem), (1, n1.mem), (2, n2.mem)]
    ((handleAll n0 1500 box).mem.map (·.addr), (handleAll n1 1500 box).mem.map (·.addr),
     (handleAll n2 1500 box).mem.map (·.addr)) = ([0, 1, 2], [1, 2, 0], [2, 0, 1]) := by decide

end Vivid.Gossip
