import Vivid.Proofs.ActorSysValid
import Vivid.Props.C06Global

/-!
# C03 — no user message is silently lost, over every execution of M10

`runG` is `run` (the fold of `applyOp` over the steps the lock-step engine takes) with a ghost
record of what happened to the user message carried by each envelope a mailbox handed to
`HandleEnvelop`: `processed` (given to the behaviour of a running actor), `zombie` (consumed by a
zombie — the documented exception), `dropped` (a dead-letter notice discarded because the root is
no longer running — "after the actor system itself has stopped").  Everything else is still
*held*: it sits in a mailbox or stash, or it is on the published dead-letter list.

* `C03_never_lost`: in every reachable state, every user message id ever handed out is held,
  processed, zombie-consumed or dropped-after-stop.  For all trees, scripts (arbitrary user code of
  the script language), schedules, reference provenances (`own` / `path` / `refobj` targets).
* `C03_dropped_only_after_stop`: a step drops a message only at the root and only when the root is
  not running.
* `C03_wellformed`: the structural well-formedness the argument rests on (every context id stored
  anywhere exists; non-existent contexts hold no mail; dead-letter notices only sit at the root;
  ids below `nextEnv`) holds in every reachable state.
* `C03_processed_runs_behaviour`: "processed" means the behaviour was invoked on that envelope.

*At most once* (no duplication other than by the user's own `Stash` calls) is the counting argument
of `Props/C03Exact.lean` (`C03_exact_account`, `C03_exactly_one_place`).
-/
namespace Vivid.ActorSys

inductive Fate where
  | none | kept | processed | zombie | dropped
  deriving DecidableEq, Repr

/-- The user message id an envelope carries, if any. -/
def carried (e : Env) : Option Nat :=
  match e.msg with
  | .user _ => some e.id
  | .deadLetter x true _ => some x
  | _ => Option.none

theorem carries_iff_carried (i : Nat) (e : Env) : carries i e = true ↔ carried e = some i := by
  unfold carries carried
  cases hm : e.msg with
  | user k => simp
  | deadLetter x u d => cases u <;> simp
  | _ => simp

/-- What `HandleEnvelop` of context `c` (whose record is `x`) does with the message `e` carries. -/
def fateOf (x : Ctx) (c : Cid) (e : Env) : Fate :=
  match carried e with
  | Option.none => .none
  | some _ =>
    if (x.state = .killed ∨ (!e.sys ∧ x.state ≠ .running)) ∧ !x.zombie then
      (match e.msg with
        | .deadLetter _ _ _ => .dropped      -- an undeliverable dead-letter notice is discarded
        | _ => .kept)                         -- re-addressed to the root as a dead-letter notice
    else
      match e.msg with
      | .user _ => if x.zombie then .zombie else .processed
      | _ => if x.zombie then .zombie else if c = 0 then .kept else .dropped   -- the root publishes it

structure Ghost where
  processed : List Nat
  zombie : List Nat
  dropped : List Nat
  deriving Repr

def Ghost.add (g : Ghost) (f : Fate) (i : Nat) : Ghost :=
  match f with
  | .processed => { g with processed := g.processed ++ [i] }
  | .zombie => { g with zombie := g.zombie ++ [i] }
  | .dropped => { g with dropped := g.dropped ++ [i] }
  | _ => g

def Ghost.has (g : Ghost) (i : Nat) : Prop := i ∈ g.processed ∨ i ∈ g.zombie ∨ i ∈ g.dropped

theorem Ghost.has_add {g : Ghost} {i : Nat} (f : Fate) (j : Nat) (h : g.has i) : (g.add f j).has i := by
  unfold Ghost.has at *
  cases f <;> simp only [Ghost.add] <;> rcases h with h | h | h <;> simp [h]

def stepG (sg : Sys × Ghost) (o : Op) : Sys × Ghost :=
  match o with
  | .deliver c =>
    match nextMail (sg.1.ctx c) with
    | Option.none => sg
    | some e =>
      (handle (popMail sg.1 c) c e,
        match carried e with
        | some i => sg.2.add (fateOf ((popMail sg.1 c).ctx c) c e) i
        | Option.none => sg.2)
  | o => (applyOp sg.1 o, sg.2)

def runG (fixedLaunch : Bool) (ops : List Op) : Sys × Ghost :=
  ops.foldl stepG (init fixedLaunch, ⟨[], [], []⟩)

theorem stepG_state (sg : Sys × Ghost) (o : Op) : (stepG sg o).1 = applyOp sg.1 o := by
  cases o with
  | deliver c =>
    simp only [stepG, applyOp, deliver_eq]
    cases nextMail (sg.1.ctx c) <;> rfl
  | _ => rfl

/-- The ghost run is the plain run with a record on the side. -/
theorem C03_runG_state (fixedLaunch : Bool) (ops : List Op) : (runG fixedLaunch ops).1 = run fixedLaunch ops := by
  unfold runG run
  have : ∀ sg : Sys × Ghost, (ops.foldl stepG sg).1 = ops.foldl applyOp sg.1 := by
    induction ops with
    | nil => intro sg; rfl
    | cons o t ih => intro sg; simp only [List.foldl_cons]; rw [ih, stepG_state]
  exact this (init fixedLaunch, ⟨[], [], []⟩)

/-- Operations from outside name existing contexts when they use a context's own reference. -/
def opOK (s : Sys) : Op → Prop
  | .tell t _ => targetOK s.n t
  | .kill t _ => targetOK s.n t
  | _ => True

def WF : Sys → List Op → Prop
  | _, [] => True
  | s, o :: t => opOK s o ∧ WF (applyOp s o) t

theorem ext_applyOp_outside {s : Sys} (o : Op) (hv : Valid s) (hok : opOK s o) (hnd : ∀ c, o ≠ .deliver c) :
    Ext s (applyOp s o) := by
  cases o with
  | deliver c => exact absurd rfl (hnd c)
  | spawn name script kind hooks ds => exact ext_actorOf 0 name script kind hooks ds hv hv.pos
  | tell t k => exact ext_tell false (some 0) t (.user k) hv hok (fun d hd => by cases hd; exact hv.pos) trivial rfl
  | kill t poison => exact ext_tell (!poison) (some 0) t (.onKill poison) hv hok (fun d hd => by cases hd; exact hv.pos) trivial rfl
  | mkref r path =>
    refine ext_of_valid ⟨hv.pos, hv.ctx, hv.reg, fun e he c hc => ?_, hv.subs, hv.dls⟩ rfl rfl rfl rfl
    simp only [applyOp, List.mem_cons] at he
    rcases he with he | he
    · rw [he] at hc; cases hc
    · exact hv.refs e (List.mem_filter.mp he).1 c hc
  | setScript sid sc => exact ext_rec _ hv rfl rfl rfl rfl rfl rfl rfl
  | clearLog => exact ext_rec _ hv rfl rfl rfl rfl rfl rfl rfl

def Inv (sg : Sys × Ghost) : Prop :=
  Valid sg.1 ∧ ∀ i, 1 ≤ i → i < sg.1.nextEnv → Held i sg.1 ∨ sg.2.has i

theorem popMail_life (s : Sys) (c : Cid) :
    ((popMail s c).ctx c).state = (s.ctx c).state ∧ ((popMail s c).ctx c).zombie = (s.ctx c).zombie := by
  unfold popMail
  split
  · rw [upd_ctx_self]; exact ⟨rfl, rfl⟩
  · split
    · rw [upd_ctx_self]; exact ⟨rfl, rfl⟩
    · exact ⟨rfl, rfl⟩

/-- A message whose fate is `kept` is held after the handler: as a dead-letter notice in the root's
mailbox, or on the published list. -/
theorem handle_kept {s0 : Sys} (c : Cid) (e : Env) (i : Nat) (hv : Valid s0) (hc : CurOK s0 c e)
    (hi : carried e = some i) (hf : fateOf (s0.ctx c) c e = .kept) : Held i (handle s0 c e) := by
  have hcar : carries i e = true := (carries_iff_carried i e).mpr hi
  unfold fateOf at hf
  rw [hi] at hf
  simp only at hf
  split at hf
  · rename_i hdead
    -- dead branch: not a dead-letter notice, so it is re-addressed to the root
    have hnd : isDL e.msg = false := by
      cases hm : e.msg <;> simp_all [isDL]
    unfold handle
    simp only [hdead, and_self, if_true]
    cases hm : e.msg with
    | deadLetter x u d => rw [hm] at hnd; simp [isDL] at hnd
    | onKill p => simp [carried, hm] at hi
    | _ => simp only; exact held_deadLetter s0 e i hcar
  · rename_i hlive
    cases hm : e.msg with
    | user k => rw [hm] at hf; simp only at hf; split at hf <;> cases hf
    | deadLetter x u d =>
      rw [hm] at hf
      simp only at hf
      split at hf
      · cases hf
      · rename_i hz
        split at hf
        · rename_i hc0
          subst hc0
          have hu : u = true ∧ x = i := by
            unfold carried at hi
            rw [hm] at hi
            cases u <;> simp_all
          obtain ⟨rfl, rfl⟩ := hu
          refine Or.inr ?_
          have hz' : (s0.ctx 0).zombie = false := by simpa using hz
          unfold handle
          simp only [hlive, if_false, hm]
          unfold execRecover behave
          simp [hz', guardBehave, say]
        · cases hf
    | _ => unfold carried at hi; rw [hm] at hi; cases hi

theorem inv_step (sg : Sys × Ghost) (o : Op) (hi : Inv sg) (hok : opOK sg.1 o) : Inv (stepG sg o) := by
  obtain ⟨s, g⟩ := sg
  obtain ⟨hv, hall⟩ := hi
  simp only at hv hall hok
  have outside : ∀ (hnd : ∀ c, o ≠ .deliver c), stepG (s, g) o = (applyOp s o, g) → Inv (stepG (s, g) o) := by
    intro hnd heq
    have hx := ext_applyOp_outside o hv hok hnd
    rw [heq]
    refine ⟨hx.valid, fun i h1 h2 => ?_⟩
    simp only at h2 ⊢
    by_cases hlt : i < s.nextEnv
    · rcases hall i h1 hlt with h | h
      · exact Or.inl (hx.held h)
      · exact Or.inr h
    · exact Or.inl (hx.fresh i (Nat.not_lt.mp hlt) h2)
  cases o with
  | deliver c =>
    simp only [stepG]
    cases hnm : nextMail (s.ctx c) with
    | none => exact ⟨hv, hall⟩
    | some e =>
      simp only
      obtain ⟨hv0, hc0, hn0, hx0, hd0, hmem⟩ := pop_ok c e hv hnm
      have hx := ext_handle c e hv0 hc0
      refine ⟨hx.valid, fun i h1 h2 => ?_⟩
      simp only at h2 ⊢
      by_cases hlt : i < s.nextEnv
      · rcases hall i h1 hlt with h | h
        · rcases h with ⟨d, e', he', hcar⟩ | h
          · rcases hmem d e' he' with ⟨rfl, rfl⟩ | hin
            · -- the envelope that was handed out
              have hci := (carries_iff_carried i e').mp hcar
              rw [hci]
              simp only
              cases hf : fateOf ((popMail s d).ctx d) d e' with
              | none => unfold fateOf at hf; rw [hci] at hf; simp only at hf; repeat' split at hf
                        all_goals cases hf
              | kept => exact Or.inl (handle_kept d e' i hv0 hc0 hci hf)
              | processed => exact Or.inr (Or.inl (by simp [Ghost.add]))
              | zombie => exact Or.inr (Or.inr (Or.inl (by simp [Ghost.add])))
              | dropped => exact Or.inr (Or.inr (Or.inr (by simp [Ghost.add])))
            · exact Or.inl (hx.held (Or.inl ⟨d, e', hin, hcar⟩))
          · exact Or.inl (hx.held (Or.inr (by rw [hd0]; exact h)))
        · refine Or.inr ?_
          cases carried e with
          | none => exact h
          | some j => exact Ghost.has_add _ j h
      · exact Or.inl (hx.fresh i (by rw [hx0]; exact Nat.not_lt.mp hlt) h2)
  | spawn name script kind hooks ds => exact outside (fun c h => by cases h) rfl
  | tell t k => exact outside (fun c h => by cases h) rfl
  | kill t poison => exact outside (fun c h => by cases h) rfl
  | mkref r path => exact outside (fun c h => by cases h) rfl
  | setScript sid sc => exact outside (fun c h => by cases h) rfl
  | clearLog => exact outside (fun c h => by cases h) rfl

theorem inv_run (ops : List Op) : ∀ sg : Sys × Ghost, Inv sg → WF sg.1 ops → Inv (ops.foldl stepG sg) := by
  induction ops with
  | nil => intro sg h _; exact h
  | cons o t ih =>
    intro sg h hwf
    simp only [List.foldl_cons]
    exact ih _ (inv_step sg o h hwf.1) (by rw [stepG_state]; exact hwf.2)

theorem inv_init (f : Bool) : Inv (init f, ⟨[], [], []⟩) :=
  ⟨valid_init f, fun i h1 h2 => absurd h2 (Nat.not_lt.mpr h1)⟩

/-- **C03, globally.**  In every reachable state every user message ever sent is held (in a
mailbox or stash, as itself or as a dead-letter notice on its way to the root, or on the published
dead-letter list), or was processed by a running actor's behaviour, consumed by a zombie, or
discarded after the root stopped running. -/
theorem C03_never_lost (fixedLaunch : Bool) (ops : List Op) (hwf : WF (init fixedLaunch) ops) (i : Nat)
    (h1 : 1 ≤ i) (h2 : i < (runG fixedLaunch ops).1.nextEnv) :
    Held i (runG fixedLaunch ops).1 ∨ i ∈ (runG fixedLaunch ops).2.processed ∨
    i ∈ (runG fixedLaunch ops).2.zombie ∨ i ∈ (runG fixedLaunch ops).2.dropped :=
  (inv_run ops _ (inv_init fixedLaunch) hwf).2 i h1 h2

/-- Well-formedness of every reachable state. -/
theorem C03_wellformed (fixedLaunch : Bool) (ops : List Op) (hwf : WF (init fixedLaunch) ops) :
    Valid (run fixedLaunch ops) := by
  rw [← C03_runG_state]; exact (inv_run ops _ (inv_init fixedLaunch) hwf).1

/-- A message is dropped only by the root, and only when the root is no longer running (the actor
system is stopping or has stopped). -/
theorem C03_dropped_only_after_stop {s : Sys} (c : Cid) (e : Env) (hv : Valid s) (hnm : nextMail (s.ctx c) = some e)
    (hf : fateOf ((popMail s c).ctx c) c e = .dropped) :
    c = 0 ∧ (s.ctx 0).state ≠ .running ∧ (s.ctx 0).zombie = false := by
  have hmem := nextMail_mem hnm
  have hnodl := ((hv.ctx c).envs e hmem).nodl
  obtain ⟨hst, hzo⟩ := popMail_life s c
  unfold fateOf at hf
  rw [hst, hzo] at hf
  cases hcar : carried e with
  | none => rw [hcar] at hf; cases hf
  | some j =>
    rw [hcar] at hf
    simp only at hf
    split at hf
    · rename_i hdead
      cases hm : e.msg with
      | deadLetter x u d =>
        have hc0 : c = 0 := by
          by_cases h : c = 0
          · exact h
          · have := hnodl h; rw [hm] at this; simp [isDL] at this
        subst hc0
        refine ⟨rfl, ?_, by simpa using hdead.2⟩
        rcases hdead.1 with h | h
        · rw [h]; intro hh; cases hh
        · exact h.2
      | _ => rw [hm] at hf; simp only at hf; cases hf
    · cases hm : e.msg with
      | user k => rw [hm] at hf; simp only at hf; split at hf <;> cases hf
      | deadLetter x u d =>
        rw [hm] at hf
        simp only at hf
        split at hf
        · cases hf
        · split at hf
          · cases hf
          · rename_i hc0
            have := hnodl hc0; rw [hm] at this; simp [isDL] at this
      | _ => unfold carried at hcar; rw [hm] at hcar; cases hcar

/-- "Processed" means what it says: the current behaviour is run on the envelope. -/
theorem C03_processed_runs_behaviour (s0 : Sys) (c : Cid) (e : Env) (k : Nat) (hm : e.msg = .user k)
    (hf : fateOf (s0.ctx c) c e = .processed) :
    handle s0 c e = execRecover s0 c ((s0.ctx c).behaviors.headD (s0.ctx c).script) e (.user k) := by
  unfold fateOf carried at hf
  rw [hm] at hf
  simp only at hf
  split at hf
  · cases hf
  · rename_i hlive
    unfold handle
    simp only [hlive, if_false, hm]

/-- Non-vacuity: a worker stashes one message, processes another, is killed with a third queued
(dead-lettered and published by the root): all three ids are accounted for. -/
example :
    let r := runG true [.setScript 1 [(101, [.stash])], .spawn "a" 1 0 0 [], .deliver 1,
      .tell (.own 1) 1, .tell (.own 1) 2, .deliver 1, .deliver 1, .kill (.own 1) false, .tell (.own 1) 3,
      .deliver 1, .deliver 1, .deliver 0, .deliver 0]
    r.1.nextEnv = 4 ∧ r.2.processed = [1, 2] ∧ r.1.deadLetters = [3] ∧ ((r.1.ctx 1).stash.map (·.id)) = [1] := by
  decide

end Vivid.ActorSys
