import Vivid.Proofs.VersionVector

/-!
# C16 — version vectors form a lattice

Property theorems only.  All are for *every* pair/triple of well-formed vectors (`WF` =
the keys of the Go map are distinct, which a Go map guarantees), over any key set, with
any counters, including explicit-zero entries (`[("a",0)]` vs `[]`).
-/
namespace Vivid.VV

/-- `Compare` decides the component-wise order, whatever the iteration order of the maps. -/
theorem C16_compare_spec (a b : VV) (ha : WF a) (hb : WF b) :
    (compare a b = .equal ↔ (leq a b ∧ leq b a)) ∧
    (compare a b = .before ↔ (leq a b ∧ ¬ leq b a)) ∧
    (compare a b = .after ↔ (¬ leq a b ∧ leq b a)) ∧
    (compare a b = .concurrent ↔ (¬ leq a b ∧ ¬ leq b a)) :=
  compare_spec a b ha hb

theorem leq_refl (a : VV) : leq a a := fun _ => Nat.le_refl _
theorem leq_trans {a b c : VV} (h1 : leq a b) (h2 : leq b c) : leq a c :=
  fun k => Nat.le_trans (h1 k) (h2 k)

theorem C16_refl (a : VV) (ha : WF a) : compare a a = .equal :=
  (compare_spec a a ha ha).1.mpr ⟨leq_refl a, leq_refl a⟩

/-- Antisymmetry, extensionally: `Equal` means every component agrees (this is all `Compare`
or `Get` can observe; `{a:0}` and `{}` are `Equal`). -/
theorem C16_antisymm (a b : VV) (ha : WF a) (hb : WF b) :
    compare a b = .equal ↔ ∀ k, get a k = get b k := by
  rw [(compare_spec a b ha hb).1]
  constructor
  · intro ⟨h1, h2⟩ k; exact Nat.le_antisymm (h1 k) (h2 k)
  · intro h; exact ⟨fun k => Nat.le_of_eq (h k), fun k => Nat.le_of_eq (h k).symm⟩

theorem C16_before_asymm (a b : VV) (ha : WF a) (hb : WF b) :
    compare a b = .before → compare b a ≠ .before := by
  intro h h'
  have h1 := (compare_spec a b ha hb).2.1.mp h
  have h2 := (compare_spec b a hb ha).2.1.mp h'
  exact h1.2 h2.1

/-- Before/After are converses. -/
theorem C16_converse (a b : VV) (ha : WF a) (hb : WF b) :
    compare a b = .before ↔ compare b a = .after := by
  rw [(compare_spec a b ha hb).2.1, (compare_spec b a hb ha).2.2.1]
  exact ⟨fun ⟨x, y⟩ => ⟨y, x⟩, fun ⟨x, y⟩ => ⟨y, x⟩⟩

theorem C16_equal_symm (a b : VV) (ha : WF a) (hb : WF b) :
    compare a b = .equal ↔ compare b a = .equal := by
  rw [(compare_spec a b ha hb).1, (compare_spec b a hb ha).1]
  exact ⟨fun ⟨x, y⟩ => ⟨y, x⟩, fun ⟨x, y⟩ => ⟨y, x⟩⟩

theorem C16_concurrent_symm (a b : VV) (ha : WF a) (hb : WF b) :
    compare a b = .concurrent ↔ compare b a = .concurrent := by
  rw [(compare_spec a b ha hb).2.2.2, (compare_spec b a hb ha).2.2.2]
  exact ⟨fun ⟨x, y⟩ => ⟨y, x⟩, fun ⟨x, y⟩ => ⟨y, x⟩⟩

/-- `a ≤ b` in the order induced by `Compare`. -/
def le (a b : VV) : Prop := compare a b = .before ∨ compare a b = .equal

theorem le_iff_leq (a b : VV) (ha : WF a) (hb : WF b) : le a b ↔ leq a b := by
  unfold le
  rw [(compare_spec a b ha hb).1, (compare_spec a b ha hb).2.1]
  constructor
  · rintro (h | h) <;> exact h.1
  · intro h
    by_cases h2 : leq b a
    · exact Or.inr ⟨h, h2⟩
    · exact Or.inl ⟨h, h2⟩

theorem C16_trans (a b c : VV) (ha : WF a) (hb : WF b) (hc : WF c) :
    le a b → le b c → le a c := by
  rw [le_iff_leq a b ha hb, le_iff_leq b c hb hc, le_iff_leq a c ha hc]
  exact leq_trans

/-- Strict transitivity: `Before` composed with `Before`/`Equal` on either side is `Before`. -/
theorem C16_trans_strict (a b c : VV) (ha : WF a) (hb : WF b) (hc : WF c) :
    compare a b = .before → le b c → compare a c = .before := by
  intro h1 h2
  have ⟨l1, n1⟩ := (compare_spec a b ha hb).2.1.mp h1
  have l2 := (le_iff_leq b c hb hc).mp h2
  refine (compare_spec a c ha hc).2.1.mpr ⟨leq_trans l1 l2, ?_⟩
  intro l3; exact n1 (leq_trans l2 l3)

theorem C16_trans_strict_right (a b c : VV) (ha : WF a) (hb : WF b) (hc : WF c) :
    le a b → compare b c = .before → compare a c = .before := by
  intro h1 h2
  have l1 := (le_iff_leq a b ha hb).mp h1
  have ⟨l2, n2⟩ := (compare_spec b c hb hc).2.1.mp h2
  refine (compare_spec a c ha hc).2.1.mpr ⟨leq_trans l1 l2, ?_⟩
  intro l3; exact n2 (leq_trans l3 l1)

/-! ## Merge is the join -/

theorem C16_merge_get (a b : VV) (hb : WF b) (k : Node) :
    get (merge a b) k = max (get a k) (get b k) := merge_get a b hb k

theorem C16_merge_wf (a b : VV) (ha : WF a) (hb : WF b) : WF (merge a b) := merge_wf a b ha hb

theorem C16_merge_comm (a b : VV) (ha : WF a) (hb : WF b) :
    compare (merge a b) (merge b a) = .equal := by
  rw [C16_antisymm _ _ (merge_wf a b ha hb) (merge_wf b a hb ha)]
  intro k; rw [merge_get a b hb, merge_get b a ha]; omega

theorem C16_merge_assoc (a b c : VV) (ha : WF a) (hb : WF b) (hc : WF c) :
    compare (merge (merge a b) c) (merge a (merge b c)) = .equal := by
  have hab := merge_wf a b ha hb
  have hbc := merge_wf b c hb hc
  rw [C16_antisymm _ _ (merge_wf _ c hab hc) (merge_wf a _ ha hbc)]
  intro k
  rw [merge_get _ c hc, merge_get a b hb, merge_get a _ hbc, merge_get b c hc]; omega

theorem C16_merge_idem (a : VV) (ha : WF a) : compare (merge a a) a = .equal := by
  rw [C16_antisymm _ _ (merge_wf a a ha ha) ha]
  intro k; rw [merge_get a a ha]; omega

/-- Upper bound: the merge is never `Before` (nor `Concurrent` with) either argument. -/
theorem C16_merge_upper (a b : VV) (ha : WF a) (hb : WF b) :
    le a (merge a b) ∧ le b (merge a b) := by
  have hm := merge_wf a b ha hb
  rw [le_iff_leq a _ ha hm, le_iff_leq b _ hb hm]
  constructor <;> (intro k; rw [merge_get a b hb]; omega)

/-- Least: anything above both arguments is above the merge. -/
theorem C16_merge_lub (a b c : VV) (ha : WF a) (hb : WF b) (hc : WF c) :
    le a c → le b c → le (merge a b) c := by
  have hm := merge_wf a b ha hb
  rw [le_iff_leq a c ha hc, le_iff_leq b c hb hc, le_iff_leq _ c hm hc]
  intro h1 h2 k; rw [merge_get a b hb]
  have := h1 k; have := h2 k; omega

/-! ## Increment -/

theorem C16_increment_spec (a : VV) (n : Node) (a' : VV) (h : increment a n = .ok a') :
    get a' n = get a n + 1 ∧ (∀ k, k ≠ n → get a' k = get a k) ∧ get a n < maxCounter := by
  unfold increment at h
  split at h
  · cases h
  · split at h
    · cases h
    · rename_i hlt
      injection h with h; subst h
      refine ⟨by rw [get_set]; simp, ?_, by omega⟩
      intro k hk; rw [get_set]; simp [Ne.symm hk]

theorem C16_increment_wf (a : VV) (n : Node) (a' : VV) (ha : WF a) (h : increment a n = .ok a') :
    WF a' := by
  unfold increment at h
  split at h
  · cases h
  · split at h
    · cases h
    · injection h with h; subst h; exact wf_set _ _ _ ha

/-- `Increment` yields a vector strictly `After` its input. -/
theorem C16_increment_after (a : VV) (n : Node) (a' : VV) (ha : WF a)
    (h : increment a n = .ok a') : compare a' a = .after := by
  have ⟨h1, h2, _⟩ := C16_increment_spec a n a' h
  have ha' := C16_increment_wf a n a' ha h
  refine (compare_spec a' a ha' ha).2.2.1.mpr ⟨?_, ?_⟩
  · intro hl; have := hl n; omega
  · intro k
    by_cases hk : k = n
    · subst hk; omega
    · rw [h2 k hk]; exact Nat.le_refl _

/-- `Increment` fails exactly on an invalid address or at the maximum counter. -/
theorem C16_increment_total (a : VV) (n : Node) :
    (∃ a', increment a n = .ok a') ↔ (validAddr n = true ∧ get a n < maxCounter) := by
  unfold increment
  constructor
  · rintro ⟨a', h⟩
    split at h
    · cases h
    · split at h
      · cases h
      · rename_i h1 h2
        exact ⟨by simpa using h1, by omega⟩
  · rintro ⟨h1, h2⟩
    simp [h1, Nat.not_le.mpr h2]

/-! ## Non-vacuity: concrete well-formed vectors hitting every `Compare` outcome,
explicit zero vs absent, and the overflow guard. -/

example : WF [("a", 1), ("b", 0)] ∧ WF [("b", 2)] := by simp [WF, keys]
example : compare [("a", 1), ("b", 0)] [("b", 2)] = .concurrent := by decide
example : compare [("a", 0)] [] = .equal := by decide
example : compare [] [("b", 2)] = .before := by decide
example : compare [("a", 3), ("b", 2)] [("b", 2)] = .after := by decide
example (c : Nat) (h : c ≥ maxCounter) : increment [("a", c)] "a" = .error .overflow := by
  have hv : validAddr "a" = true := by decide
  simp [increment, hv, get, h]
example : increment [("a", 1)] "" = .error .invalidAddr := by simp [increment, validAddr]

end Vivid.VV
