import Vivid.Proofs.ActorSys

/-!
# C19 — the event stream delivers each event once to exactly the current subscribers

The two Go tables (`subscribers`, `subscriberTypes`) are one relation `(type, path) ↦ ref` in the
model; the harness checks on every step that the two real tables describe the same relation
(ES-TABLES monitor).  `Keyed subs` — at most one entry per (type, path) — is the invariant; it
holds of the empty table and is preserved by every operation, so it holds of every reachable
table, whatever the interleaving of Subscribe / Unsubscribe / UnsubscribeAll critical sections.
-/
namespace Vivid.ActorSys

/-- At most one entry per (type, path). -/
def Keyed (subs : Subs) : Prop := (subs.map (fun e => (e.1, e.2.1))).Nodup

theorem keyed_nil : Keyed [] := by simp [Keyed]

theorem keyed_filter (subs : Subs) (f : Nat × Path × Cid → Bool) (h : Keyed subs) : Keyed (subs.filter f) := by
  unfold Keyed at *
  induction subs with
  | nil => simp
  | cons e t ih =>
    simp only [List.map_cons, List.nodup_cons] at h
    by_cases hf : f e = true
    · rw [List.filter_cons_of_pos hf]
      simp only [List.map_cons, List.nodup_cons]
      refine ⟨?_, ih h.2⟩
      intro hm
      apply h.1
      obtain ⟨x, hx, hxe⟩ := List.mem_map.mp hm
      exact List.mem_map.mpr ⟨x, (List.mem_filter.mp hx).1, hxe⟩
    · rw [List.filter_cons_of_neg hf]; exact ih h.2

theorem C19_keyed_sub (subs : Subs) (ty : Nat) (p : Path) (c : Cid) (h : Keyed subs) : Keyed (esSub subs ty p c) := by
  unfold esSub
  split
  · exact h
  · rename_i hn
    unfold Keyed at *
    simp only [List.map_append, List.map_cons, List.map_nil]
    rw [List.nodup_append]
    refine ⟨h, by simp, ?_⟩
    intro a ha b hb
    simp only [List.mem_singleton] at hb
    subst hb
    intro heq
    subst heq
    apply hn
    obtain ⟨x, hx, hxe⟩ := List.mem_map.mp ha
    simp only [List.any_eq_true, decide_eq_true_eq]
    exact ⟨x, hx, by simp only [Prod.mk.injEq] at hxe; exact hxe⟩

theorem C19_keyed_unsub (subs : Subs) (ty : Nat) (p : Path) (h : Keyed subs) : Keyed (esUnsub subs ty p) :=
  keyed_filter _ _ h
theorem C19_keyed_unsubAll (subs : Subs) (p : Path) (h : Keyed subs) : Keyed (esUnsubAll subs p) :=
  keyed_filter _ _ h

/-- Subscribing twice has no additional effect. -/
theorem C19_subscribe_idem (subs : Subs) (ty : Nat) (p : Path) (c c' : Cid) :
    esSub (esSub subs ty p c) ty p c' = esSub subs ty p c := by
  have : (esSub subs ty p c).any (fun e => e.1 = ty ∧ e.2.1 = p) = true := by
    unfold esSub
    split
    · assumption
    · simp
  show (if (esSub subs ty p c).any (fun e => e.1 = ty ∧ e.2.1 = p) then esSub subs ty p c else esSub subs ty p c ++ [(ty, p, c')]) = _
  rw [if_pos this]

/-- After Unsubscribe, a later publication of that type does not reach the path; other
subscriptions (other types, other paths) are untouched. -/
theorem C19_unsub (subs : Subs) (ty : Nat) (p : Path) :
    (∀ e ∈ esUnsub subs ty p, ¬ (e.1 = ty ∧ e.2.1 = p)) ∧
    (∀ e ∈ subs, ¬ (e.1 = ty ∧ e.2.1 = p) → e ∈ esUnsub subs ty p) := by
  unfold esUnsub
  constructor
  · intro e he hc
    have := (List.mem_filter.mp he).2
    simp [hc.1, hc.2] at this
  · intro e he hn
    refine List.mem_filter.mpr ⟨he, ?_⟩
    by_cases h1 : e.1 = ty <;> by_cases h2 : e.2.1 = p <;> simp [h1, h2]
    exact hn ⟨h1, h2⟩

/-- After UnsubscribeAll (also run on termination) the stream holds no entry for the path. -/
theorem C19_unsubAll (subs : Subs) (p : Path) :
    (∀ e ∈ esUnsubAll subs p, e.2.1 ≠ p) ∧ (∀ e ∈ subs, e.2.1 ≠ p → e ∈ esUnsubAll subs p) := by
  unfold esUnsubAll
  constructor
  · intro e he; have := (List.mem_filter.mp he).2; simpa using this
  · intro e he hn; exact List.mem_filter.mpr ⟨he, by simpa using hn⟩

/-- Publication targets are exactly the entries of that type — each subscribed (type, path)
once — and nobody else. -/
theorem C19_publish_exact (subs : Subs) (ty : Nat) (c : Cid) :
    c ∈ esTargets subs ty ↔ ∃ p, (ty, p, c) ∈ subs := by
  unfold esTargets
  simp only [List.mem_map, List.mem_filter, decide_eq_true_eq]
  constructor
  · rintro ⟨⟨t, p, c'⟩, ⟨hm, ht⟩, hc⟩
    simp only at ht hc; subst ht; subst hc; exact ⟨p, hm⟩
  · rintro ⟨p, hm⟩; exact ⟨(ty, p, c), ⟨hm, rfl⟩, rfl⟩

theorem C19_publish_once_per_subscription (subs : Subs) (ty : Nat) (h : Keyed subs) :
    ((subs.filter (fun e => e.1 = ty)).map (fun e => (e.1, e.2.1))).Nodup :=
  keyed_filter subs _ h

/-- Termination releases the subscriptions: `cleanup` leaves no entry for the dead actor's path. -/
theorem C19_on_death (s : Sys) (c : Cid) : ∀ e ∈ (cleanup s c).subs, e.2.1 ≠ (s.ctx c).path := by
  have hsub : (cleanup s c).subs = esUnsubAll s.subs (s.ctx c).path := by
    have tell_subs : ∀ (s : Sys) sys sender t m, (tell s sys sender t m).subs = s.subs := by
      intro s sys sender t m
      unfold tell
      have hr : (resolve s t).1.subs = s.subs := by
        cases t <;> simp only [resolve]
        · split <;> (try rfl); split <;> rfl
        · split
          · rfl
          · rfl
          · split
            · rfl
            · split <;> rfl
      generalize resolve s t = r at hr
      obtain ⟨s1, c?⟩ := r
      simp only at hr ⊢
      cases m <;> cases c? <;> simp [enqueue, upd, deadLetter, hr]
    have tellAll_subs : ∀ (ts : List Cid) (s : Sys) sys sender m, (tellAll s sys sender ts m).subs = s.subs := by
      intro ts
      induction ts with
      | nil => intro s sys sender m; rfl
      | cons t ts ih => intro s sys sender m; simp only [tellAll, List.foldl] at ih ⊢; rw [ih, tell_subs]
    unfold cleanup
    simp only [upd, say]
    split
    · simp only [tell_subs, tellAll_subs, unregister]
    · simp only [tellAll_subs, unregister]
  rw [hsub]
  exact (C19_unsubAll s.subs (s.ctx c).path).1

/-- A restart keeps subscriptions: `handleRestart` does not touch the table. -/
theorem tell_subs (s : Sys) (sys : Bool) (sender : Option Cid) (t : Target) (m : Msg) :
    (tell s sys sender t m).subs = s.subs := by
  unfold tell
  have hr : (resolve s t).1.subs = s.subs := by
    cases t <;> simp only [resolve]
    · split <;> (try rfl); split <;> rfl
    · split
      · rfl
      · rfl
      · split
        · rfl
        · split <;> rfl
  generalize resolve s t = r at hr
  obtain ⟨s1, c?⟩ := r
  simp only at hr ⊢
  cases m <;> cases c? <;> simp [enqueue, upd, deadLetter, hr]

/-- A restart keeps the subscriptions (they are keyed by path, the path survives): the restart
itself does not touch the table — up to the point where the new incarnation's OnLaunch runs
(repaired code), which may of course subscribe or unsubscribe like any handler. -/
theorem C19_on_restart (s : Sys) (c : Cid)
    (h : ((s.ctx c).hooks / 4 % 2 = 1 ∨ (s.ctx c).hooks / 2 % 2 = 1) ∨ s.fixedLaunch = false) :
    (handleRestart s c).subs = s.subs := by
  by_cases hz : (s.ctx c).hooks / 4 % 2 = 1 ∨ (s.ctx c).hooks / 2 % 2 = 1
  · simp [handleRestart, hz, upd, say]
  · have hf : s.fixedLaunch = false := by
      rcases h with h | h
      · exact absurd h hz
      · exact h
    simp [handleRestart, hz, hf, upd, say, tell_subs]

theorem C19_on_restart_relaunch (s : Sys) (c : Cid) (hf : s.fixedLaunch = true)
    (h : ¬ ((s.ctx c).hooks / 4 % 2 = 1 ∨ (s.ctx c).hooks / 2 % 2 = 1)) :
    ∃ s3, handleRestart s c = execRecover s3 c (s.ctx c).script { id := 0, sys := true, sender := some c, msg := .onLaunch } .onLaunch ∧
      s3.subs = s.subs := by
  refine ⟨say (upd (upd (upd s c (fun x => { x with behaviors := [x.script] })) c
      (fun x => { x with restarting := none, state := .running, inc := x.inc + 1 })) c
      (fun x => { x with paused := false })) s!"restarted:{c}", ?_, ?_⟩
  · simp only [handleRestart, h, if_false, hf, if_true]
  · simp [upd, say]

end Vivid.ActorSys
