import Vivid.Proofs.ActorSysStruct

/-!
# C08 — a supervision decision touches exactly its targets

* `C08_supervise_only_sends`: handling a supervision request changes nobody's lifecycle fields
  (state, zombie, restart flag, children, parent, path) — the decision is *sent*, as directives;
* `C08_supervise_touches_only_targets`: every context other than the supervisor, its parent (the
  escalation address), the decision's targets and the targets recorded along the escalation
  chain is left completely unchanged — not a queue entry, not a flag: "and to no other actor".
-/
namespace Vivid.ActorSys

theorem tell_own_other (s : Sys) (sys : Bool) (sender : Option Cid) (t d : Cid) (m : Msg) (h : d ≠ t) :
    (tell s sys sender (.own t) m).ctx d = s.ctx d := by
  unfold tell
  simp only [resolve]
  cases m <;> simp only [enqueue] <;> rw [upd_ctx_other _ t d _ h]

theorem tellAll_other (ts : List Cid) (s : Sys) (sys : Bool) (sender : Option Cid) (d : Cid) (m : Msg)
    (h : d ∉ ts) : (tellAll s sys sender ts m).ctx d = s.ctx d := by
  unfold tellAll
  induction ts generalizing s with
  | nil => rfl
  | cons t r ih =>
    simp only [List.foldl_cons]
    rw [ih _ (fun hm => h (List.mem_cons_of_mem _ hm))]
    exact tell_own_other s sys sender t d m (fun hd => h (by rw [hd]; exact List.mem_cons_self ..))

theorem C08_supervise_only_sends (s : Sys) (self : Cid) (chain : List (Cid × List Cid)) (c : Cid) :
    life ((onSuperviseDecide s self chain).ctx c) = life (s.ctx c) :=
  (sameS_onSuperviseDecide s self chain).2 c

/-- The contexts a decision may touch. -/
def affected (s : Sys) (self : Cid) (chain : List (Cid × List Cid)) : List Cid :=
  let c := s.ctx self
  let failedChild := match chain with | (f, _) :: _ => f | [] => self
  let targets := if c.strat = 0 ∨ c.strat = 1 then [failedChild] else c.children
  let chain' : List (Cid × List Cid) := match chain with
    | (f, _) :: rest => (f, targets) :: rest
    | [] => []
  self :: (match c.parent with | some p => [p] | none => [0]) ++ targets ++ (chain'.map (·.2)).flatten

theorem fr_tellAll {a x : Sys} {d : Cid} (ts : List Cid) (sys : Bool) (sender : Option Cid) (m : Msg)
    (hn : d ∉ ts) (h : x.ctx d = a.ctx d) : (tellAll x sys sender ts m).ctx d = a.ctx d := by
  rw [tellAll_other ts x sys sender d m hn]; exact h
theorem fr_tell_own {a x : Sys} {d : Cid} (sys : Bool) (sender : Option Cid) (t : Cid) (m : Msg)
    (hn : d ≠ t) (h : x.ctx d = a.ctx d) : (tell x sys sender (.own t) m).ctx d = a.ctx d := by
  rw [tell_own_other x sys sender t d m hn]; exact h
theorem fr_tell_nobody {a x : Sys} {d : Cid} (sys : Bool) (sender : Option Cid) (m : Msg)
    (hn : d ≠ 0) (h : x.ctx d = a.ctx d) : (tell x sys sender .nobody m).ctx d = a.ctx d := by
  have : (tell x sys sender .nobody m).ctx d = x.ctx d := by
    unfold tell
    simp only [resolve]
    cases m <;> simp only [enqueue] <;> rw [upd_ctx_other _ 0 d _ hn]
  rw [this]; exact h
theorem fr_say {a x : Sys} {d : Cid} (e : String) (h : x.ctx d = a.ctx d) : (say x e).ctx d = a.ctx d := h
theorem fr_upd {a x : Sys} {d : Cid} (c : Cid) (f : Ctx → Ctx) (hn : d ≠ c) (h : x.ctx d = a.ctx d) :
    (upd x c f).ctx d = a.ctx d := by rw [upd_ctx_other x c d f hn]; exact h

set_option hygiene false in
/-- Closes `d ∉ list` side goals from the facts about `d` in context. -/
macro "mem_close" : tactic => `(tactic| (
  intro hm
  first
    | exact htargets hm
    | exact hallT hm
    | exact hallT.1 hm
    | exact hallT.2 hm
    | (simp only [List.mem_append, List.mem_cons, List.not_mem_nil, or_false] at hm; done)
    | (simp only [List.mem_append, List.mem_cons, List.not_mem_nil, or_false] at hm
       first
         | exact hself hm
         | exact htargets hm
         | exact hparent hm
         | exact hallT hm
         | exact hallT.1 hm
         | exact hallT.2 hm
         | (rcases hm with hm | hm <;>
              first | exact hself hm | exact htargets hm | exact hallT hm | exact hallT.1 hm | exact hallT.2 hm))))

set_option hygiene false in
macro "frame_steps" : tactic => `(tactic| (
  repeat' split
  all_goals
    repeat (first
      | rfl
      | (exfalso; omega)
      | (apply fr_tellAll; · mem_close)
      | (apply fr_tell_own; · first | assumption | (intro hm; exact hparent hm))
      | (apply fr_tell_nobody; · first | assumption | (intro hm; exact hparent hm))
      | (apply fr_upd; · exact hself)
      | (simp only [say_ctx]))))

set_option maxHeartbeats 2000000 in
theorem C08_supervise_touches_only_targets (s : Sys) (self : Cid) (chain : List (Cid × List Cid)) (d : Cid)
    (hd : d ∉ affected s self chain) : (onSuperviseDecide s self chain).ctx d = s.ctx d := by
  unfold affected at hd
  unfold onSuperviseDecide
  cases chain with
  | nil =>
    by_cases hst : (s.ctx self).strat = 0 ∨ (s.ctx self).strat = 1 <;> cases hp : (s.ctx self).parent <;>
      simp only [hst, hp, if_true, if_false, List.mem_cons, List.mem_append, not_or, List.map_nil, List.flatten_nil,
        List.not_mem_nil, or_false, List.append_nil] at hd ⊢ <;>
      obtain ⟨⟨hself, hparent⟩, htargets⟩ := hd <;>
      (have hallT : d ∉ ([] : List Cid) := by simp) <;>
      frame_steps
  | cons hd0 tl =>
    obtain ⟨f, sn⟩ := hd0
    by_cases hst : (s.ctx self).strat = 0 ∨ (s.ctx self).strat = 1 <;> cases hp : (s.ctx self).parent <;>
      simp only [hst, hp, if_true, if_false, List.mem_cons, List.mem_append, not_or, List.map_cons, List.flatten_cons,
        List.not_mem_nil, or_false] at hd ⊢ <;>
      obtain ⟨⟨⟨hself, hparent⟩, htargets⟩, hallT⟩ := hd <;>
      frame_steps

end Vivid.ActorSys
