/-! The simplest possible queue specification: a list, oldest first. -/
namespace Vivid.Fifo

inductive Op where
  | push (x : Nat)
  | pop
  deriving Repr, DecidableEq

inductive Out where
  | pushed
  | popped (y : Nat)
  | empty
  | nilSlot      -- implementation-only outcome: Pop returned a nil slot as a value (excluded by the theorems)
  deriving Repr, DecidableEq

def step (q : List Nat) : Op → List Nat × Out
  | .push x => (q ++ [x], .pushed)
  | .pop => match q with
    | [] => ([], .empty)
    | y :: t => (t, .popped y)

def run (q : List Nat) : List Op → List Nat × List Out
  | [] => (q, [])
  | op :: ops =>
    let (q', o) := step q op
    let (q'', os) := run q' ops
    (q'', o :: os)

end Vivid.Fifo
