import Vivid.Proofs.ActorSysReg

/-! Structural invariants of M10 over every handler: the frame relation `SameS` (all lifecycle
fields of every context unchanged) and the invariant `StructInv` about children, restart flags
and zombies.  Property theorems are in `Props/M10Global.lean`. -/
namespace Vivid.ActorSys

/-- The lifecycle fields of a context. -/
def life (x : Ctx) : St × Bool × Option Bool × List Cid × Option Cid × Path :=
  (x.state, x.zombie, x.restarting, x.children, x.parent, x.path)

/-- Nothing structural changed: same number of contexts, same lifecycle fields everywhere. -/
def SameS (s s' : Sys) : Prop := s'.n = s.n ∧ ∀ c, life (s'.ctx c) = life (s.ctx c)

theorem SameS.refl (s : Sys) : SameS s s := ⟨rfl, fun _ => rfl⟩

theorem SameS.trans {a b c : Sys} (h1 : SameS a b) (h2 : SameS b c) : SameS a c :=
  ⟨h2.1.trans h1.1, fun x => (h2.2 x).trans (h1.2 x)⟩

theorem sameS_rec {s : Sys} (s' : Sys) (h2 : s'.n = s.n) (h3 : s'.ctx = s.ctx) : SameS s s' :=
  ⟨h2, fun c => by rw [h3]⟩

theorem sameS_say (s : Sys) (e : String) : SameS s (say s e) := ⟨rfl, fun _ => rfl⟩

theorem sameS_upd (s : Sys) (c : Cid) (f : Ctx → Ctx) (hf : ∀ x, life (f x) = life x) : SameS s (upd s c f) := by
  refine ⟨rfl, fun d => ?_⟩
  by_cases h : d = c
  · subst h; simp only [upd_ctx_self]; exact hf _
  · rw [upd_ctx_other s c d f h]

theorem sameS_enqueue (s : Sys) (c : Cid) (e : Env) : SameS s (enqueue s c e) := by
  unfold enqueue
  apply sameS_upd
  intro x; split <;> rfl

theorem sameS_deadLetter (s : Sys) (e : Env) : SameS s (deadLetter s e) := by
  unfold deadLetter; exact sameS_enqueue _ _ _

theorem sameS_resolve (s : Sys) (t : Target) : SameS s (resolve s t).1 :=
  ⟨(sameCore_resolve s t).2.1, fun c => by rw [resolve_ctx s t]⟩

theorem sameS_tell (s : Sys) (sys : Bool) (sender : Option Cid) (t : Target) (m : Msg) :
    SameS s (tell s sys sender t m) := by
  unfold tell
  have h := sameS_resolve s t
  generalize resolve s t = r at h
  obtain ⟨s1, c?⟩ := r
  simp only at h ⊢
  have bump : SameS s1 { s1 with nextEnv := s1.nextEnv + 1 } := ⟨rfl, fun _ => rfl⟩
  cases m <;> cases c? <;> simp only <;>
    first
    | exact h.trans (bump.trans (sameS_enqueue _ _ _))
    | exact h.trans (bump.trans (sameS_deadLetter _ _))
    | exact h.trans (sameS_enqueue _ _ _)
    | exact h.trans (sameS_deadLetter _ _)

theorem ss_tell {a x : Sys} (sys : Bool) (sender : Option Cid) (t : Target) (m : Msg) (h : SameS a x) :
    SameS a (tell x sys sender t m) := h.trans (sameS_tell _ _ _ _ _)
theorem ss_say {a x : Sys} (e : String) (h : SameS a x) : SameS a (say x e) := h.trans (sameS_say _ _)
theorem ss_upd {a x : Sys} (c : Cid) (f : Ctx → Ctx) (hf : ∀ y, life (f y) = life y) (h : SameS a x) :
    SameS a (upd x c f) := h.trans (sameS_upd _ _ _ hf)

theorem sameS_tellAll (ts : List Cid) (s : Sys) (sys : Bool) (sender : Option Cid) (m : Msg) :
    SameS s (tellAll s sys sender ts m) := by
  unfold tellAll
  induction ts generalizing s with
  | nil => exact SameS.refl s
  | cons t r ih => simp only [List.foldl_cons]; exact (sameS_tell s sys sender (.own t) m).trans (ih _)

theorem ss_tellAll {a x : Sys} (ts : List Cid) (sys : Bool) (sender : Option Cid) (m : Msg) (h : SameS a x) :
    SameS a (tellAll x sys sender ts m) := h.trans (sameS_tellAll _ _ _ _ _)

theorem sameS_foldl_tell (l : List Cid) (s : Sys) (sys : Bool) (sender : Option Cid) (m : Msg) :
    SameS s (l.foldl (fun acc t => tell acc sys sender (.own t) m) s) := by
  induction l generalizing s with
  | nil => exact SameS.refl s
  | cons e t ih => simp only [List.foldl_cons]; exact (sameS_tell s _ _ _ _).trans (ih _)

theorem sameS_foldl_enqueue (l : List Env) (s : Sys) (self : Cid) :
    SameS s (l.foldl (fun acc e => enqueue acc self e) s) := by
  induction l generalizing s with
  | nil => exact SameS.refl s
  | cons e t ih => simp only [List.foldl_cons]; exact (sameS_enqueue s self e).trans (ih _)

theorem sameS_failed (s : Sys) (self : Cid) : SameS s (failed s self) := by
  unfold failed
  simp only
  exact ((sameS_upd s self (fun x => { x with paused := true }) (fun _ => rfl)).trans
    (sameS_tell _ _ _ _ _)).trans (sameS_say _ _)

theorem sameS_schedule (s : Sys) (self : Cid) (ref : String) : SameS s (schedule s self ref) := by
  unfold schedule
  have h1 := sameS_upd s self (fun x => { x with jobs := (ref, jobKey (s.ctx self).path ref) :: x.jobs.filter (fun e => e.1 ≠ ref) })
    (fun _ => rfl)
  simp only
  split
  · exact h1
  · exact h1.trans ⟨rfl, fun _ => rfl⟩

theorem sameS_clearJobs (s : Sys) (self : Cid) : SameS s (clearJobs s self) := by
  unfold clearJobs
  have h0 : SameS s { s with jobTable := s.jobTable.filter (fun e => !((s.ctx self).jobs.map (·.2)).contains e.1) } :=
    ⟨rfl, fun _ => rfl⟩
  exact h0.trans (sameS_upd _ self _ (fun _ => rfl))

theorem sameS_onSuperviseDecide (s : Sys) (self : Cid) (chain : List (Cid × List Cid)) : SameS s (onSuperviseDecide s self chain) := by
  unfold onSuperviseDecide
  simp only
  have h0 : SameS s (if (s.ctx self).strat = 0 then s else upd s self (fun x => { x with decIdx := x.decIdx + 1 })) := by
    split
    · exact SameS.refl s
    · exact sameS_upd s self _ (fun _ => rfl)
  generalize (if (s.ctx self).strat = 0 then s else upd s self (fun x => { x with decIdx := x.decIdx + 1 })) = s0 at h0 ⊢
  repeat' split
  all_goals
    repeat (first
      | exact h0
      | apply ss_tellAll
      | apply ss_tell
      | apply ss_say
      | (apply ss_upd; · intro _; rfl))

theorem sameS_onSupervise (s : Sys) (self : Cid) (chain : List (Cid × List Cid)) : SameS s (onSupervise s self chain) := by
  unfold onSupervise
  split
  · exact sameS_onSuperviseDecide _ _ _
  · exact sameS_tell _ _ _ _ _

end Vivid.ActorSys

namespace Vivid.ActorSys

/-- Structural invariant: an actor is marked terminated only once it has no children left, and
it stays childless; the restart flag is only set while the actor is stopping. -/
def StructInv (s : Sys) : Prop :=
  (∀ c, (s.ctx c).state = .killed → (s.ctx c).children = []) ∧
  (∀ c, (s.ctx c).restarting.isSome = true → (s.ctx c).state ≠ .running)

theorem life_state {x y : Ctx} (h : life x = life y) : x.state = y.state := congrArg (·.1) h
theorem life_zombie {x y : Ctx} (h : life x = life y) : x.zombie = y.zombie := congrArg (·.2.1) h
theorem life_restarting {x y : Ctx} (h : life x = life y) : x.restarting = y.restarting := congrArg (·.2.2.1) h
theorem life_children {x y : Ctx} (h : life x = life y) : x.children = y.children := congrArg (·.2.2.2.1) h

theorem structInv_sameS {s s' : Sys} (h : SameS s s') (hi : StructInv s) : StructInv s' := by
  refine ⟨fun c hk => ?_, fun c hr => ?_⟩
  · rw [life_children (h.2 c)]; exact hi.1 c (by rw [← life_state (h.2 c)]; exact hk)
  · rw [life_state (h.2 c)]; exact hi.2 c (by rw [← life_restarting (h.2 c)]; exact hr)

/-- A pointwise update that is fine for the invariant. -/
theorem structInv_upd (s : Sys) (c : Cid) (f : Ctx → Ctx)
    (hk : (f (s.ctx c)).state = .killed → (f (s.ctx c)).children = [])
    (hr : (f (s.ctx c)).restarting.isSome = true → (f (s.ctx c)).state ≠ .running)
    (hi : StructInv s) : StructInv (upd s c f) := by
  refine ⟨fun d h => ?_, fun d h => ?_⟩
  · by_cases hd : d = c
    · subst hd; rw [upd_ctx_self] at h ⊢; exact hk h
    · rw [upd_ctx_other s c d f hd] at h ⊢; exact hi.1 d h
  · by_cases hd : d = c
    · subst hd; rw [upd_ctx_self] at h ⊢; exact hr h
    · rw [upd_ctx_other s c d f hd] at h ⊢; exact hi.2 d h

theorem structInv_actorOf (s : Sys) (parent : Cid) (name : String) (script strat hooks : Nat)
    (ds : List Nat) (hi : StructInv s) : StructInv (actorOf s parent name script strat hooks ds) := by
  unfold actorOf
  simp only
  split
  · exact structInv_sameS (sameS_say _ _) hi
  · rename_i hpk
    split
    · exact structInv_sameS (sameS_say _ _) hi
    · split
      · exact structInv_sameS (sameS_say _ _) hi
      · let path := joinPath (s.ctx parent).path name
        let nc : Ctx := { blankCtx with path := path, name := name, parent := some parent, state := .running, script := script, behaviors := [script], strat := strat, decisions := ds, hooks := hooks }
        let s1 : Sys := { s with n := s.n + 1, ctx := fun x => if x = s.n then nc else s.ctx x, registry := (path, s.n) :: s.registry }
        have h1 : StructInv s1 := by
          refine ⟨fun c h => ?_, fun c h => ?_⟩
          · by_cases hc : c = s.n
            · simp [s1, hc, nc] at h
            · simp only [s1, hc, if_false] at h ⊢; exact hi.1 c h
          · by_cases hc : c = s.n
            · simp [s1, hc, nc, blankCtx] at h
            · simp only [s1, hc, if_false] at h ⊢; exact hi.2 c h
        -- the parent gains a child: it is not terminated
        have h2 : StructInv (upd s1 parent
            (fun x => { x with children := x.children.filter (fun k => (s.ctx k).path ≠ path) ++ [s.n] })) := by
          apply structInv_upd s1 parent _ _ _ h1
          · intro hk
            exfalso
            by_cases hp : parent = s.n
            · simp [s1, hp, nc] at hk
            · simp only [s1, hp, if_false] at hk; exact hpk hk
          · intro hr
            by_cases hp : parent = s.n
            · simp [s1, hp, nc, blankCtx] at hr
            · simp only [s1, hp, if_false] at hr ⊢; exact hi.2 parent hr
        have h4 := structInv_sameS ((sameS_tell _ true (some parent) (.own s.n) .onLaunch).trans (sameS_say _ s!"spawned:{s.n}:{path}")) h2
        split
        · exact structInv_sameS (sameS_tell _ _ _ _ _) h4
        · exact h4

theorem structInv_runActions (self : Cid) (cur : Env) (acts : List Action) :
    ∀ s, StructInv s → StructInv (runActions s self cur acts).s := by
  induction acts with
  | nil => intro s hi; exact hi
  | cons a rest ih =>
    intro s hi
    cases a with
    | panic => exact hi
    | tell t k => simp only [runActions]; exact ih _ (structInv_sameS (sameS_tell _ _ _ _ _) hi)
    | spawn name script kind decisions hooks => simp only [runActions]; exact ih _ (structInv_actorOf s self name script kind hooks decisions hi)
    | kill t poison => simp only [runActions]; exact ih _ (structInv_sameS (sameS_tell _ _ _ _ _) hi)
    | stash => simp only [runActions]; exact ih _ (structInv_sameS (sameS_upd s self _ (fun _ => rfl)) hi)
    | unstash n =>
      simp only [runActions]
      apply ih
      exact structInv_sameS ((sameS_foldl_enqueue _ s self).trans (sameS_upd _ self _ (fun _ => rfl))) hi
    | watch t => simp only [runActions]; exact ih _ (structInv_sameS (sameS_tell _ _ _ _ _) hi)
    | unwatch t => simp only [runActions]; exact ih _ (structInv_sameS (sameS_tell _ _ _ _ _) hi)
    | become sc => simp only [runActions]; exact ih _ (structInv_sameS (sameS_upd s self _ (fun _ => rfl)) hi)
    | unbecome => simp only [runActions]; exact ih _ (structInv_sameS (sameS_upd s self _ (fun _ => rfl)) hi)
    | sub ty => simp only [runActions]; exact ih _ (structInv_sameS (sameS_rec _ rfl rfl) hi)
    | unsub ty => simp only [runActions]; exact ih _ (structInv_sameS (sameS_rec _ rfl rfl) hi)
    | unsubAll => simp only [runActions]; exact ih _ (structInv_sameS (sameS_rec _ rfl rfl) hi)
    | pub ty =>
      simp only [runActions]
      apply ih
      have h0 : SameS s { s with nextPub := s.nextPub + 1 } := sameS_rec _ rfl rfl
      exact structInv_sameS (h0.trans (sameS_foldl_tell _ _ _ _ _)) hi
    | sched kind ref k => simp only [runActions]; exact ih _ (structInv_sameS (sameS_schedule _ _ _) hi)
    | cancel ref =>
      simp only [runActions]
      split
      · exact ih _ (structInv_sameS (sameS_say _ _) hi)
      · rename_i key _
        apply ih
        have h0 : SameS s { s with jobTable := s.jobTable.filter (fun e => e.1 ≠ key) } := sameS_rec _ rfl rfl
        exact structInv_sameS ((h0.trans (sameS_upd _ self (fun x => { x with jobs := x.jobs.filter (fun e => e.1 ≠ ref) })
          (fun _ => rfl))).trans (sameS_say _ _)) hi
    | schedClear => simp only [runActions]; exact ih _ (structInv_sameS (sameS_clearJobs _ _) hi)
    | cron valid ref =>
      simp only [runActions]
      split
      · exact ih _ (structInv_sameS (sameS_schedule _ _ _) hi)
      · exact ih _ (structInv_sameS (sameS_say _ _) hi)

theorem structInv_behave (s : Sys) (self : Cid) (beh : Nat) (cur : Env) (m : Msg) (hi : StructInv s) :
    StructInv (behave s self beh cur m).s := by
  unfold behave
  simp only
  split
  · exact hi
  · split
    · simp only
      unfold guardBehave
      split
      · split
        · exact structInv_sameS (sameS_rec _ rfl rfl) hi
        · exact hi
      · exact structInv_sameS ((sameS_rec (s := s) _ rfl rfl).trans (sameS_say _ _)) hi
      · exact hi
    · split
      · exact hi
      · exact structInv_runActions self cur _ _ (structInv_sameS (sameS_say _ _) hi)

theorem structInv_execRecover (s : Sys) (self : Cid) (beh : Nat) (cur : Env) (m : Msg) (hi : StructInv s) :
    StructInv (execRecover s self beh cur m) := by
  unfold execRecover
  have hb := structInv_behave s self beh cur m hi
  simp only
  split
  · split
    · exact hb
    · split
      · exact hb
      · exact structInv_sameS (sameS_failed _ _) hb
    · exact structInv_sameS (sameS_failed _ _) hb
  · exact hb

theorem structInv_execSwallow (s : Sys) (self : Cid) (beh : Nat) (cur : Env) (m : Msg) (hi : StructInv s) :
    StructInv (execSwallow s self beh cur m) := structInv_behave s self beh cur m hi

theorem sameS_cleanup (s : Sys) (self : Cid) : SameS s (cleanup s self) := by
  unfold cleanup
  simp only
  have h0 : SameS s (unregister { s with subs := esUnsubAll s.subs (s.ctx self).path } (s.ctx self).path) :=
    sameS_rec _ rfl rfl
  have h1 := h0.trans (sameS_tellAll (s.ctx self).watchers _ true (some self) (.onKilled self))
  split
  · exact ((h1.trans (sameS_tell _ _ _ _ _)).trans (sameS_say _ _)).trans
      (sameS_upd _ self (fun x => { x with paused := false }) (fun _ => rfl))
  · exact (h1.trans (sameS_say _ _)).trans (sameS_upd _ self (fun x => { x with paused := false }) (fun _ => rfl))

end Vivid.ActorSys

namespace Vivid.ActorSys

theorem structInv_handleRestart (s : Sys) (self : Cid) (hi : StructInv s) : StructInv (handleRestart s self) := by
  unfold handleRestart
  simp only
  have h1 := structInv_sameS (sameS_upd s self (fun x => { x with behaviors := [x.script] }) (fun _ => rfl)) hi
  split
  · apply structInv_sameS (sameS_say _ _)
    apply structInv_upd _ self (fun x => { x with zombie := true, paused := false }) _ _ h1
    · intro hk; exact h1.1 self hk
    · intro hr; exact h1.2 self hr
  · have h2 : StructInv (upd (upd s self (fun x => { x with behaviors := [x.script] })) self
        (fun x => { x with restarting := none, state := .running, inc := x.inc + 1 })) := by
      apply structInv_upd _ self _ _ _ h1
      · intro hk; simp at hk
      · intro hr; simp at hr
    split
    · apply structInv_execRecover
      exact structInv_sameS ((sameS_upd _ self (fun x => { x with paused := false }) (fun _ => rfl)).trans (sameS_say _ _)) h2
    · exact structInv_sameS (((sameS_tell _ _ _ _ _).trans
        (sameS_upd _ self (fun x => { x with paused := false }) (fun _ => rfl))).trans (sameS_say _ _)) h2

theorem structInv_onKilled (s : Sys) (self : Cid) (beh : Nat) (cur : Env) (who : Cid) (hi : StructInv s) :
    StructInv (onKilled s self beh cur who) := by
  unfold onKilled
  simp only
  split
  · exact structInv_sameS (sameS_cleanup s self) hi
  · have h1 : StructInv (if who ≠ self then
        execRecover (upd s self (fun x => { x with children := x.children.filter (· ≠ who) })) self beh cur (.onKilled who)
        else s) := by
      split
      · apply structInv_execRecover
        apply structInv_upd s self (fun x => { x with children := x.children.filter (· ≠ who) }) _ _ hi
        · intro hk
          have : (s.ctx self).children = [] := hi.1 self hk
          simp [this]
        · intro hr; exact hi.2 self hr
      · exact hi
    generalize (if who ≠ self then
        execRecover (upd s self (fun x => { x with children := x.children.filter (· ≠ who) })) self beh cur (.onKilled who)
        else s) = s1 at h1 ⊢
    split
    · exact h1
    · rename_i hcond
      have hch : (s1.ctx self).children = [] := by
        by_cases h : (s1.ctx self).children = []
        · exact h
        · exact absurd (Or.inl h) hcond
      have h2 : StructInv (upd s1 self (fun x => { x with state := .killed })) := by
        apply structInv_upd s1 self _ _ _ h1
        · intro _; exact hch
        · intro _; simp
      cases hr : (s1.ctx self).restarting.isSome with
      | true =>
        simp only [if_true]
        have h3 := structInv_execSwallow _ self beh { cur with sys := true, msg := .onKilled self } (.onKilled self) h2
        exact structInv_handleRestart _ self (structInv_sameS (sameS_clearJobs _ _) h3)
      | false =>
        simp only [Bool.false_eq_true, if_false]
        have h3 := structInv_execRecover _ self beh { cur with sys := true, msg := .onKilled self } (.onKilled self) h2
        exact structInv_sameS ((sameS_cleanup _ self).trans (sameS_clearJobs _ _)) h3

theorem structInv_doKill (s : Sys) (self : Cid) (beh : Nat) (cur : Env) (poison : Bool) (hi : StructInv s) :
    StructInv (doKill s self beh cur poison) := by
  unfold doKill
  simp only
  have h1 := structInv_sameS (sameS_foldl_tell (s.ctx self).children s (!poison) (some self) (.onKill poison)) hi
  apply structInv_onKilled
  split
  · exact structInv_execSwallow _ self beh _ _ h1
  · exact structInv_execRecover _ self beh _ _ h1

theorem structInv_handle (s : Sys) (self : Cid) (e : Env) (hi : StructInv s) : StructInv (handle s self e) := by
  unfold handle
  simp only
  split
  · split
    · exact hi
    · refine structInv_sameS (sameS_deadLetter _ _) ?_
      apply structInv_upd s self (fun x => if x.state = .killing then { x with restarting := none } else x) _ _ hi
      · intro hk; split at hk <;> split <;> first | exact hi.1 self hk | simp_all
      · intro hr; split at hr
        · simp at hr
        · split
          · simp_all
          · exact hi.2 self hr
    · exact structInv_sameS (sameS_deadLetter _ _) hi
  · split
    · exact structInv_execRecover _ _ _ _ _ hi
    · split
      · exact structInv_doKill _ _ _ _ _ hi
      · split
        · rename_i hrun
          apply structInv_doKill
          apply structInv_upd s self (fun x => { x with state := .killing }) _ _ hi
          · intro hk; simp at hk
          · intro hr
            -- running with a restart flag is impossible
            exact absurd hrun (hi.2 self hr)
        · apply structInv_upd s self (fun x => { x with restarting := none }) _ _ hi
          · intro hk; exact hi.1 self hk
          · intro hr; simp at hr
    · exact structInv_onKilled _ _ _ _ _ hi
    · exact structInv_sameS (sameS_onSupervise _ _ _) hi
    · exact structInv_sameS (sameS_upd s self _ (fun _ => rfl)) hi
    · exact structInv_sameS (sameS_upd s self _ (fun _ => rfl)) hi
    · split
      · apply structInv_doKill
        apply structInv_upd s self (fun x => { x with state := .killing, restarting := some _ }) _ _ hi
        · intro hk; simp at hk
        · intro _; simp
      · exact structInv_sameS (sameS_upd s self _ (fun _ => rfl)) hi
    · repeat' split
      all_goals first
        | exact hi
        | (refine structInv_sameS ?_ hi; apply sameS_upd; intro _; rfl)
    · repeat' split
      all_goals first
        | exact hi
        | (refine structInv_sameS ?_ hi; apply sameS_upd; intro _; rfl)
    · exact structInv_execRecover _ _ _ _ _ hi
    · exact structInv_execRecover _ _ _ _ _ hi
    · exact structInv_execRecover _ _ _ _ _ hi

theorem structInv_deliver (s s' : Sys) (c : Cid) (h : deliver s c = some s') (hi : StructInv s) : StructInv s' := by
  unfold deliver at h
  simp only at h
  split at h
  · cases h
    exact structInv_handle _ _ _ (structInv_sameS (sameS_upd s c _ (fun _ => rfl)) hi)
  · split at h
    · cases h
    · split at h
      · cases h
        exact structInv_handle _ _ _ (structInv_sameS (sameS_upd s c _ (fun _ => rfl)) hi)
      · cases h

theorem structInv_init (f : Bool) : StructInv (init f) := by
  refine ⟨fun c h => ?_, fun c h => ?_⟩
  · by_cases hc : c = 0 <;> simp [init, hc, rootCtx, blankCtx] at h ⊢
  · by_cases hc : c = 0 <;> simp [init, hc, rootCtx, blankCtx] at h

end Vivid.ActorSys
