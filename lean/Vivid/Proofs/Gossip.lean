import Vivid.Model.Gossip

/-! Helper lemmas for C18: where the entries of a handler's result come from. -/
namespace Vivid.Gossip

/-- Address is a function of the identifier (identifier = (node index, incarnation), the node
index is its address). -/
def WF (ms : List Mem) : Prop := ∀ e ∈ ms, e.addr = e.id.1

theorem addMember_mem {ms : List Mem} {m e : Mem} (h : e ∈ addMember ms m) : e ∈ ms ∨ e = m := by
  unfold addMember at h
  split at h
  · split at h
    · rcases List.mem_map.1 h with ⟨x, hx, rfl⟩
      by_cases hc : x.id = m.id
      · simp [hc]
      · simp [hc, hx]
    · exact Or.inl h
  · rcases List.mem_append.1 h with h | h
    · exact Or.inl h
    · exact Or.inr (by simpa using h)

theorem mergeView_mem {view ms : List Mem} {e : Mem} (h : e ∈ mergeView ms view) : e ∈ ms ∨ e ∈ view := by
  unfold mergeView at h
  induction view generalizing ms with
  | nil => exact Or.inl (by simpa using h)
  | cons v t ih =>
    simp only [List.foldl_cons] at h
    rcases ih h with h1 | h1
    · rcases addMember_mem h1 with h2 | h2
      · exact Or.inl h2
      · exact Or.inr (by simp [h2])
    · exact Or.inr (List.mem_cons_of_mem _ h1)

theorem byAddrNewest_aux (l : List Mem) (acc : Option Mem) (t : Mem)
    (h : l.foldl (fun acc m => match acc with
      | none => some m
      | some a => if m.ts > a.ts then some m else some a) acc = some t) :
    t ∈ l ∨ acc = some t := by
  induction l generalizing acc with
  | nil => exact Or.inr (by simpa using h)
  | cons x r ih =>
    simp only [List.foldl_cons] at h
    rcases ih _ h with h1 | h1
    · exact Or.inl (List.mem_cons_of_mem _ h1)
    · cases acc with
      | none => simp at h1; exact Or.inl (by simp [h1])
      | some a =>
        simp only at h1
        split at h1
        · simp at h1; exact Or.inl (by simp [h1])
        · exact Or.inr h1

theorem byAddrNewest_spec {ms : List Mem} {a : Nat} {t : Mem} (h : byAddrNewest ms a = some t) :
    t ∈ ms ∧ t.addr = a := by
  unfold byAddrNewest at h
  rcases byAddrNewest_aux _ none t h with h1 | h1
  · have := List.mem_filter.1 h1
    exact ⟨this.1, by simpa using this.2⟩
  · cases h1

/-- An entry of a refreshed list comes from an entry of the list with the same identity; its
`seen` is unchanged unless it is the refreshed identifier. -/
theorem refresh_mem {ms : List Mem} {id : Nat × Nat} {now : Nat} {e : Mem} (h : e ∈ refresh ms id now) :
    ∃ e0 ∈ ms, e.id = e0.id ∧ e.addr = e0.addr ∧ (e.seen = e0.seen ∨ (e0.id = id ∧ e.seen = now)) := by
  unfold refresh at h
  rcases List.mem_map.1 h with ⟨x, hx, rfl⟩
  refine ⟨x, hx, ?_⟩
  by_cases hc : x.id = id
  · simp [hc]
  · simp [hc]

theorem refresh_has (ms : List Mem) (id i : Nat × Nat) (now : Nat) : has (refresh ms id now) i = has ms i := by
  unfold has refresh
  induction ms with
  | nil => rfl
  | cons x t ih =>
    simp only [List.map_cons, List.any_cons, ih]
    by_cases hc : x.id = id <;> simp [hc]

theorem supersede_sub {self : Mem} {ms : List Mem} {e : Mem} (h : e ∈ supersede self ms) : e ∈ ms :=
  (List.mem_filter.1 h).1

/-- The optional refresh of the newest entry at the sender's address. -/
def touch (ms : List Mem) (sender now : Nat) : List Mem :=
  match byAddrNewest ms sender with
  | some t => refresh ms t.id now
  | none => ms

theorem touch_mem {ms : List Mem} {s now : Nat} {e : Mem} (hwf : WF ms) (h : e ∈ touch ms s now) :
    ∃ e0 ∈ ms, e.id = e0.id ∧ e.addr = e0.addr ∧ (e.seen = e0.seen ∨ (e.addr = s ∧ e.seen = now)) := by
  unfold touch at h
  cases hb : byAddrNewest ms s with
  | none => rw [hb] at h; exact ⟨e, h, rfl, rfl, Or.inl rfl⟩
  | some t =>
    rw [hb] at h
    obtain ⟨e0, he0, h1, h2, h3⟩ := refresh_mem h
    refine ⟨e0, he0, h1, h2, ?_⟩
    rcases h3 with h3 | ⟨h3, h4⟩
    · exact Or.inl h3
    · right
      have ht := byAddrNewest_spec hb
      refine ⟨?_, h4⟩
      rw [h2, hwf e0 he0, h3, ← hwf t ht.1, ht.2]

theorem touch_has (ms : List Mem) (s now : Nat) (i : Nat × Nat) : has (touch ms s now) i = has ms i := by
  unfold touch
  cases byAddrNewest ms s with
  | none => rfl
  | some t => exact refresh_has ms t.id i now

theorem touch_WF {ms : List Mem} {s now : Nat} (hwf : WF ms) : WF (touch ms s now) := by
  intro e he
  obtain ⟨e0, he0, h1, h2, _⟩ := touch_mem hwf he
  rw [h2, h1]; exact hwf e0 he0

theorem handleGossip_eq (n : Node) (now s : Nat) (view : List Mem) :
    (handleGossip n now s view).mem =
      touch (supersede n.self (mergeView (touch n.mem s now)
        (dropStale { n with mem := touch n.mem s now } now s view))) s now := by
  unfold handleGossip touch
  cases byAddrNewest n.mem s <;> rfl

theorem WF_mergeView {ms view : List Mem} (h1 : WF ms) (h2 : WF view) : WF (mergeView ms view) := by
  intro e he
  rcases mergeView_mem he with h | h
  · exact h1 e h
  · exact h2 e h

/-- Provenance of every entry in the result of `handleGossip`. -/
theorem handle_entry {n : Node} {now s : Nat} {view : List Mem} {e : Mem}
    (hm : WF n.mem) (hv : WF view) (h : e ∈ (handleGossip n now s view).mem) :
    ∃ e0, (e0 ∈ n.mem ∨ (e0 ∈ view ∧
        (e0.addr = n.self.addr ∨ e0.addr = s ∨ has n.mem e0.id = true ∨ stale n.T now e0 = false))) ∧
      e.id = e0.id ∧ e.addr = e0.addr ∧ (e.seen = e0.seen ∨ (e.addr = s ∧ e.seen = now)) := by
  rw [handleGossip_eq] at h
  have hwf1 : WF (touch n.mem s now) := touch_WF hm
  have hdrop : WF (dropStale { n with mem := touch n.mem s now } now s view) :=
    fun x hx => hv x (List.mem_filter.1 hx).1
  have hwf2 : WF (supersede n.self (mergeView (touch n.mem s now)
      (dropStale { n with mem := touch n.mem s now } now s view))) :=
    fun x hx => WF_mergeView hwf1 hdrop x (supersede_sub hx)
  obtain ⟨e1, he1, a1, a2, a3⟩ := touch_mem hwf2 h
  rcases mergeView_mem (supersede_sub he1) with h1 | h1
  · -- from our own (touched) members
    obtain ⟨e0, he0, b1, b2, b3⟩ := touch_mem hm h1
    refine ⟨e0, Or.inl he0, a1.trans b1, a2.trans b2, ?_⟩
    rcases a3 with a3 | a3
    · rcases b3 with b3 | b3
      · exact Or.inl (a3.trans b3)
      · exact Or.inr ⟨by rw [a2]; exact b3.1, a3.trans b3.2⟩
    · exact Or.inr a3
  · -- from the filtered view
    have hf := List.mem_filter.1 h1
    refine ⟨e1, Or.inr ⟨hf.1, ?_⟩, a1, a2, a3⟩
    have := hf.2
    simp only [Bool.or_eq_true, decide_eq_true_eq, Bool.not_eq_true'] at this
    rw [touch_has] at this
    rcases this with ((h | h) | h) | h
    · exact Or.inl h
    · exact Or.inr (Or.inl h)
    · exact Or.inr (Or.inr (Or.inl h))
    · exact Or.inr (Or.inr (Or.inr h))

end Vivid.Gossip
