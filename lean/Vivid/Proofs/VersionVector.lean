import Vivid.Model.VersionVector

/-! Helper lemmas for M7.  Property theorems live in `Props/C16.lean`. -/
namespace Vivid.VV

@[simp] theorem get_nil (k : Node) : get [] k = 0 := rfl
@[simp] theorem has_nil (k : Node) : has [] k = false := rfl

theorem get_cons (k' : Node) (c : Nat) (t : VV) (k : Node) :
    get ((k', c) :: t) k = if k' = k then c else get t k := rfl

theorem has_cons (k' : Node) (c : Nat) (t : VV) (k : Node) :
    has ((k', c) :: t) k = if k' = k then true else has t k := rfl

theorem has_iff_mem_keys (v : VV) (k : Node) : has v k = true ↔ k ∈ keys v := by
  induction v with
  | nil => simp [keys]
  | cons e t ih =>
    obtain ⟨k', c⟩ := e
    simp only [has_cons, keys, List.map_cons, List.mem_cons]
    by_cases h : k' = k
    · simp [h]
    · simp only [h, if_false]
      rw [ih]; simp only [keys]
      constructor
      · intro hm; exact Or.inr hm
      · intro hm; rcases hm with hm | hm
        · exact absurd hm.symm h
        · exact hm

theorem get_of_not_has (v : VV) (k : Node) (h : has v k = false) : get v k = 0 := by
  induction v with
  | nil => rfl
  | cons e t ih =>
    obtain ⟨k', c⟩ := e
    simp only [has_cons] at h
    simp only [get_cons]
    by_cases hk : k' = k
    · simp [hk] at h
    · simp only [hk, if_false] at h ⊢; exact ih h

theorem has_of_get_pos (v : VV) (k : Node) (h : 0 < get v k) : has v k = true := by
  cases hh : has v k with
  | true => rfl
  | false => rw [get_of_not_has v k hh] at h; omega

theorem get_set (v : VV) (k : Node) (c : Nat) (k' : Node) :
    get (set v k c) k' = if k = k' then c else get v k' := by
  induction v with
  | nil => simp [set, get_cons]
  | cons e t ih =>
    obtain ⟨k0, c0⟩ := e
    simp only [set]
    by_cases h0 : k0 = k
    · subst h0
      simp only [if_true, get_cons]
      by_cases h1 : k0 = k' <;> simp [h1]
    · simp only [h0, if_false, get_cons, ih]
      by_cases h1 : k0 = k'
      · subst h1; simp [Ne.symm h0]
      · simp [h1]

theorem has_set (v : VV) (k : Node) (c : Nat) (k' : Node) :
    has (set v k c) k' = if k = k' then true else has v k' := by
  induction v with
  | nil => simp [set, has_cons]
  | cons e t ih =>
    obtain ⟨k0, c0⟩ := e
    simp only [set]
    by_cases h0 : k0 = k
    · subst h0
      simp only [if_true, has_cons]
      by_cases h1 : k0 = k' <;> simp [h1]
    · simp only [h0, if_false, has_cons, ih]
      by_cases h1 : k0 = k'
      · subst h1; simp
      · simp [h1]

theorem keys_set_of_has (v : VV) (k : Node) (c : Nat) (h : has v k = true) :
    keys (set v k c) = keys v := by
  induction v with
  | nil => simp at h
  | cons e t ih =>
    obtain ⟨k0, c0⟩ := e
    simp only [set]
    by_cases h0 : k0 = k
    · simp [h0, keys]
    · simp only [has_cons, h0, if_false] at h
      simp only [h0, if_false, keys, List.map_cons] at ih ⊢
      rw [ih h]

theorem keys_set_of_not_has (v : VV) (k : Node) (c : Nat) (h : has v k = false) :
    keys (set v k c) = keys v ++ [k] := by
  induction v with
  | nil => simp [set, keys]
  | cons e t ih =>
    obtain ⟨k0, c0⟩ := e
    simp only [set]
    by_cases h0 : k0 = k
    · simp [has_cons, h0] at h
    · simp only [has_cons, h0, if_false] at h
      simp only [h0, if_false, keys, List.map_cons, List.cons_append] at ih ⊢
      rw [ih h]

theorem wf_set (v : VV) (k : Node) (c : Nat) (h : WF v) : WF (set v k c) := by
  unfold WF at *
  cases hh : has v k with
  | true => rw [keys_set_of_has v k c hh]; exact h
  | false =>
    rw [keys_set_of_not_has v k c hh]
    have hk : k ∉ keys v := by
      intro hm; rw [← has_iff_mem_keys] at hm; rw [hm] at hh; cases hh
    rw [List.nodup_append]
    refine ⟨h, by simp, ?_⟩
    intro a ha b hb
    simp only [List.mem_singleton] at hb
    subst hb; intro heq; subst heq; exact hk ha

theorem wf_tail {e : Node × Nat} {t : VV} (h : WF (e :: t)) : WF t := by
  unfold WF keys at *; simp only [List.map_cons, List.nodup_cons] at h; exact h.2

theorem not_has_tail_of_wf {k : Node} {c : Nat} {t : VV} (h : WF ((k, c) :: t)) : has t k = false := by
  unfold WF keys at h; simp only [List.map_cons, List.nodup_cons] at h
  cases hh : has t k with
  | false => rfl
  | true => rw [has_iff_mem_keys] at hh; exact absurd hh h.1

/-- In a well-formed vector every entry is what `get` returns for its key. -/
theorem get_of_mem (v : VV) (h : WF v) (e : Node × Nat) (he : e ∈ v) : get v e.1 = e.2 := by
  induction v with
  | nil => cases he
  | cons e0 t ih =>
    obtain ⟨k0, c0⟩ := e0
    rcases List.mem_cons.mp he with he | he
    · subst he; simp [get_cons]
    · have hne : k0 ≠ e.1 := by
        intro heq
        have : has t e.1 = true := by
          rw [has_iff_mem_keys]; exact List.mem_map_of_mem (f := (·.1)) he
        rw [← heq, not_has_tail_of_wf h] at this; cases this
      simp only [get_cons, hne, if_false]
      exact ih (wf_tail h) he

theorem mem_of_has (v : VV) (k : Node) (h : has v k = true) : (k, get v k) ∈ v := by
  induction v with
  | nil => simp at h
  | cons e0 t ih =>
    obtain ⟨k0, c0⟩ := e0
    simp only [has_cons] at h
    simp only [get_cons]
    by_cases hk : k0 = k
    · subst hk; simp
    · simp only [hk, if_false] at h ⊢
      exact List.mem_cons_of_mem _ (ih h)

/-! ### merge -/

theorem mergeInto_get (o : VV) (ho : WF o) : ∀ (out : VV) (k : Node),
    get (mergeInto out o) k = max (get out k) (get o k) := by
  induction o with
  | nil => intro out k; simp [mergeInto]
  | cons e t ih =>
    obtain ⟨k1, oc⟩ := e
    intro out k
    have hnot := not_has_tail_of_wf ho
    have ht := wf_tail ho
    unfold mergeInto
    by_cases hc : (!(has out k1) || decide (oc > get out k1)) = true
    · rw [if_pos hc, ih ht, get_set, get_cons]
      by_cases hk : k1 = k
      · subst hk
        simp only [if_true]
        rw [get_of_not_has t k1 hnot]
        simp only [Bool.or_eq_true, Bool.not_eq_true', decide_eq_true_eq] at hc
        rcases hc with hc | hc
        · rw [get_of_not_has out k1 hc]; omega
        · omega
      · simp [hk]
    · rw [if_neg hc, ih ht, get_cons]
      by_cases hk : k1 = k
      · subst hk
        simp only [if_true]
        rw [get_of_not_has t k1 hnot]
        simp only [Bool.or_eq_true, Bool.not_eq_true', decide_eq_true_eq, not_or,
          Bool.not_eq_false] at hc
        omega
      · simp [hk]

theorem mergeInto_wf (o : VV) : ∀ (out : VV), WF out → WF (mergeInto out o) := by
  induction o with
  | nil => intro out h; simpa [mergeInto] using h
  | cons e t ih =>
    obtain ⟨k1, oc⟩ := e
    intro out h
    unfold mergeInto
    split
    · exact ih _ (wf_set _ _ _ h)
    · exact ih _ h

theorem get_of_length_zero (v : VV) (h : v.length = 0) (k : Node) : get v k = 0 := by
  cases v with
  | nil => rfl
  | cons _ _ => simp at h

theorem merge_get (a b : VV) (hb : WF b) (k : Node) :
    get (merge a b) k = max (get a k) (get b k) := by
  unfold merge
  split
  · rename_i h; rw [get_of_length_zero b h]; omega
  · split
    · rename_i h; rw [get_of_length_zero a h]; omega
    · exact mergeInto_get b hb a k

theorem merge_wf (a b : VV) (ha : WF a) (hb : WF b) : WF (merge a b) := by
  unfold merge
  split
  · exact ha
  · split
    · exact hb
    · exact mergeInto_wf b a ha

/-! ### compare -/

def fl1 (other v : VV) (l : Bool) : Bool := l || v.any (fun e => decide (e.2 < get other e.1))
def fg1 (other v : VV) (g : Bool) : Bool := g || v.any (fun e => decide (e.2 > get other e.1))
def fl2 (v o : VV) (l : Bool) : Bool := l || o.any (fun e => !(has v e.1) && decide (0 < e.2))

theorem fl1_cons (other : VV) (k : Node) (va : Nat) (t : VV) (l : Bool) :
    fl1 other ((k, va) :: t) l = fl1 other t (l || decide (va < get other k)) := by
  simp [fl1, Bool.or_assoc]
theorem fg1_cons (other : VV) (k : Node) (va : Nat) (t : VV) (g : Bool) :
    fg1 other ((k, va) :: t) g = fg1 other t (g || decide (va > get other k)) := by
  simp [fg1, Bool.or_assoc]
theorem fl2_cons (v : VV) (k : Node) (vb : Nat) (t : VV) (l : Bool) :
    fl2 v ((k, vb) :: t) l = fl2 v t (l || (!(has v k) && decide (0 < vb))) := by
  simp [fl2, Bool.or_assoc]
theorem fl1_true (other v : VV) : fl1 other v true = true := by simp [fl1]
theorem fg1_true (other v : VV) : fg1 other v true = true := by simp [fg1]
theorem fl2_true (v o : VV) : fl2 v o true = true := by simp [fl2]

theorem cmpPass1_eq (other : VV) : ∀ (v : VV) (l g : Bool), (l && g) = false →
    cmpPass1 other v l g =
      if (fl1 other v l && fg1 other v g) = true then none else some (fl1 other v l, fg1 other v g) := by
  intro v
  induction v with
  | nil => intro l g h; simp [cmpPass1, fl1, fg1, h]
  | cons e t ih =>
    obtain ⟨k, va⟩ := e
    intro l g h
    rw [fl1_cons, fg1_cons]
    simp only [cmpPass1]
    by_cases h1 : va < get other k
    · have h2 : ¬ (va > get other k) := by omega
      simp only [h1, h2, if_true, decide_true, decide_false, Bool.or_true, Bool.or_false]
      cases g with
      | true => simp [fl1_true, fg1_true]
      | false =>
        simp only [Bool.and_false, Bool.false_eq_true, if_false]
        exact ih true false (by simp)
    · by_cases h2 : va > get other k
      · simp only [h1, h2, if_true, if_false, decide_true, decide_false, Bool.or_true, Bool.or_false]
        cases l with
        | true => simp [fl1_true, fg1_true]
        | false =>
          simp only [Bool.false_and, Bool.false_eq_true, if_false]
          exact ih false true (by simp)
      · simp only [h1, h2, if_false, decide_false, Bool.or_false, h, Bool.false_eq_true]
        exact ih l g h

theorem cmpPass2_eq (v : VV) : ∀ (o : VV) (l g : Bool), (l && g) = false →
    cmpPass2 v o l g =
      if (fl2 v o l && g) = true then none else some (fl2 v o l, g) := by
  intro o
  induction o with
  | nil => intro l g h; simp [cmpPass2, fl2, h]
  | cons e t ih =>
    obtain ⟨k, vb⟩ := e
    intro l g h
    rw [fl2_cons]
    simp only [cmpPass2]
    cases hh : has v k with
    | true =>
      simp only [if_true, Bool.not_true, Bool.false_and, Bool.or_false]
      exact ih l g h
    | false =>
      simp only [Bool.false_eq_true, if_false, Bool.not_false, Bool.true_and]
      by_cases hp : 0 < vb
      · simp only [hp, if_true, decide_true, Bool.or_true]
        cases g with
        | true => simp [fl2_true]
        | false =>
          simp only [Bool.and_false, Bool.false_eq_true, if_false]
          exact ih true false (by simp)
      · simp only [hp, if_false, decide_false, Bool.or_false, h, Bool.false_eq_true]
        exact ih l g h

/-- Some key where `a` is strictly below `b`. -/
def ltEx (a b : VV) : Prop := ∃ k, get a k < get b k

theorem not_leq_iff (a b : VV) : ¬ leq a b ↔ ltEx b a := by
  unfold leq ltEx
  constructor
  · intro h
    apply Classical.byContradiction
    intro hne
    apply h
    intro k
    apply Classical.byContradiction
    intro hk
    exact hne ⟨k, by omega⟩
  · intro ⟨k, hk⟩ h
    have := h k; omega

/-- Final "less" flag of `Compare` = `a` is strictly below `b` somewhere. -/
theorem flagL_iff (a b : VV) (ha : WF a) (hb : WF b) :
    fl2 a b (fl1 b a false) = true ↔ ltEx a b := by
  simp only [fl2, fl1, Bool.false_or, Bool.or_eq_true, List.any_eq_true, Bool.and_eq_true,
    Bool.not_eq_true', decide_eq_true_eq]
  constructor
  · rintro (⟨e, he, hlt⟩ | ⟨e, he, hnh, hpos⟩)
    · exact ⟨e.1, by rw [get_of_mem a ha e he]; exact hlt⟩
    · exact ⟨e.1, by rw [get_of_not_has a e.1 hnh, get_of_mem b hb e he]; exact hpos⟩
  · rintro ⟨k, hk⟩
    cases hh : has a k with
    | true =>
      exact Or.inl ⟨(k, get a k), mem_of_has a k hh, hk⟩
    | false =>
      have hbk : has b k = true := has_of_get_pos b k (by omega)
      refine Or.inr ⟨(k, get b k), mem_of_has b k hbk, hh, ?_⟩
      simp only; omega

theorem flagG_iff (a b : VV) (ha : WF a) :
    fg1 b a false = true ↔ ltEx b a := by
  simp only [fg1, Bool.false_or, List.any_eq_true, decide_eq_true_eq]
  constructor
  · rintro ⟨e, he, hgt⟩
    exact ⟨e.1, by rw [get_of_mem a ha e he]; exact hgt⟩
  · rintro ⟨k, hk⟩
    have hak : has a k = true := has_of_get_pos a k (by omega)
    exact ⟨(k, get a k), mem_of_has a k hak, hk⟩

/-- `Compare` as a function of its two final flags. -/
theorem compare_flags (a b : VV) :
    compare a b =
      (if a.length = 0 ∧ b.length = 0 then Order.equal
       else match fl2 a b (fl1 b a false), fg1 b a false with
        | true, true => .concurrent
        | true, false => .before
        | false, true => .after
        | false, false => .equal) := by
  unfold compare
  split
  · rfl
  · rw [cmpPass1_eq b a false false (by simp)]
    cases h1 : fl1 b a false <;> cases h2 : fg1 b a false
    · simp only [Bool.and_false, Bool.false_eq_true, if_false]
      rw [cmpPass2_eq a b _ _ (by simp)]
      cases h3 : fl2 a b false <;> simp
    · simp only [Bool.and_true, Bool.false_eq_true, if_false]
      rw [cmpPass2_eq a b _ _ (by simp)]
      cases h3 : fl2 a b false <;> simp
    · simp only [Bool.and_false, Bool.false_eq_true, if_false]
      rw [cmpPass2_eq a b _ _ (by simp)]
      simp [fl2_true]
    · simp [fl2_true]

theorem both_empty_no_lt (a b : VV) (h : a.length = 0 ∧ b.length = 0) : ¬ ltEx a b ∧ ¬ ltEx b a := by
  constructor <;> (rintro ⟨k, hk⟩; rw [get_of_length_zero a h.1, get_of_length_zero b h.2] at hk; omega)

/-- The specification of `Compare`: it decides the extensional component-wise order. -/
theorem compare_spec (a b : VV) (ha : WF a) (hb : WF b) :
    (compare a b = .equal ↔ (leq a b ∧ leq b a)) ∧
    (compare a b = .before ↔ (leq a b ∧ ¬ leq b a)) ∧
    (compare a b = .after ↔ (¬ leq a b ∧ leq b a)) ∧
    (compare a b = .concurrent ↔ (¬ leq a b ∧ ¬ leq b a)) := by
  have hL := flagL_iff a b ha hb
  have hG := flagG_iff a b ha
  have n1 := not_leq_iff a b
  have n2 := not_leq_iff b a
  rw [compare_flags]
  by_cases he : a.length = 0 ∧ b.length = 0
  · have ⟨e1, e2⟩ := both_empty_no_lt a b he
    rw [if_pos he]
    have l1 : leq a b := by
      apply Classical.byContradiction; intro h; exact e2 (n1.mp h)
    have l2 : leq b a := by
      apply Classical.byContradiction; intro h; exact e1 (n2.mp h)
    simp [l1, l2]
  · rw [if_neg he]
    cases hl : fl2 a b (fl1 b a false) <;> cases hg : fg1 b a false <;>
      simp only [hl, hg] at hL hG <;> simp only [reduceCtorEq, false_iff, true_iff, not_and] <;>
      refine ⟨?_, ?_, ?_, ?_⟩ <;> simp_all

end Vivid.VV
