import Vivid.Model.Codec

/-! Round-trip of the generic codec. -/
namespace Vivid.Codec

theorem be_length (k n : Nat) : (be k n).length = k := by
  induction k with
  | zero => rfl
  | succ k ih => simp [be, ih]

theorem unbe_append (a b : Bytes) (acc : Nat) : unbe (a ++ b) acc = unbe b (unbe a acc) := by
  induction a generalizing acc with
  | nil => rfl
  | cons h t ih => simp [unbe, ih]

theorem unbe_be (k : Nat) : ∀ (n acc : Nat), n < 256 ^ k → unbe (be k n) acc = acc * 256 ^ k + n := by
  induction k with
  | zero => intro n acc h; simp at h; subst h; simp [be, unbe]
  | succ k ih =>
    intro n acc h
    simp only [be, unbe]
    have hq : n / 256 ^ k < 256 := by
      rw [Nat.div_lt_iff_lt_mul (Nat.pow_pos (by decide))]
      rw [Nat.pow_succ, Nat.mul_comm] at h; exact h
    rw [Nat.mod_eq_of_lt hq]
    -- be k n only depends on n mod 256^k
    have hbe : ∀ (j m : Nat), be j m = be j (m % 256 ^ j) := by
      intro j
      induction j with
      | zero => intro m; rfl
      | succ j ihj =>
        intro m
        simp only [be]
        congr 1
        · rw [Nat.pow_succ, Nat.mod_mul_right_div_self]
          simp
        · rw [ihj m, ihj (m % 256 ^ (j + 1))]
          congr 1
          rw [Nat.pow_succ, Nat.mod_mul_right_mod]
    rw [hbe k n, ih (n % 256 ^ k) _ (Nat.mod_lt _ (Nat.pow_pos (by decide)))]
    have := Nat.div_add_mod n (256 ^ k)
    rw [Nat.pow_succ]
    calc (acc * 256 + n / 256 ^ k) * 256 ^ k + n % 256 ^ k
        = acc * 256 * 256 ^ k + (256 ^ k * (n / 256 ^ k) + n % 256 ^ k) := by
          rw [Nat.add_mul, Nat.mul_comm (n / 256 ^ k)]; omega
      _ = acc * (256 ^ k * 256) + n := by rw [this, Nat.mul_assoc, Nat.mul_comm 256]

theorem take_append (a r : Bytes) : take a.length (a ++ r) = .ok (a, r) := by
  simp [take]

theorem decNat_be (k n : Nat) (r : Bytes) (h : n < 256 ^ k) : decNat k (be k n ++ r) = .ok (n, r) := by
  unfold decNat
  have := take_append (be k n) r
  rw [be_length] at this
  simp only [this, unbe_be k n 0 h]; simp

theorem twos_roundtrip32 (z : Int) (n : Nat) (h : toTwos 32 z = some n) : n < 256 ^ 4 ∧ fromTwos 32 n = z := by
  unfold toTwos at h
  unfold fromTwos
  split at h
  · split at h
    · cases h; rename_i h1 h2
      have : (2 : Nat) ^ (32 - 1) = 2147483648 := by decide
      have h3 : (256 : Nat) ^ 4 = 4294967296 := by decide
      rw [this] at h2 ⊢; rw [h3]
      refine ⟨by omega, ?_⟩
      simp only [h2, if_true]; omega
    · cases h
  · split at h
    · cases h; rename_i h1 h2
      have : (2 : Nat) ^ (32 - 1) = 2147483648 := by decide
      have h3 : (256 : Nat) ^ 4 = 4294967296 := by decide
      have h4 : (2 : Nat) ^ 32 = 4294967296 := by decide
      rw [this] at h2 ⊢; rw [h3]
      have hz : (-z).toNat ≥ 1 := by omega
      refine ⟨by omega, ?_⟩
      have : ¬ (4294967296 - (-z).toNat < 2147483648) := by omega
      simp only [this, if_false]; omega
    · cases h

theorem twos_roundtrip64 (z : Int) (n : Nat) (h : toTwos 64 z = some n) : n < 256 ^ 8 ∧ fromTwos 64 n = z := by
  unfold toTwos at h
  unfold fromTwos
  split at h
  · split at h
    · cases h; rename_i h1 h2
      have : (2 : Nat) ^ (64 - 1) = 9223372036854775808 := by decide
      have h3 : (256 : Nat) ^ 8 = 18446744073709551616 := by decide
      rw [this] at h2 ⊢; rw [h3]
      refine ⟨by omega, ?_⟩
      simp only [h2, if_true]; omega
    · cases h
  · split at h
    · cases h; rename_i h1 h2
      have : (2 : Nat) ^ (64 - 1) = 9223372036854775808 := by decide
      have h3 : (256 : Nat) ^ 8 = 18446744073709551616 := by decide
      have h4 : (2 : Nat) ^ 64 = 18446744073709551616 := by decide
      rw [this] at h2 ⊢; rw [h3]
      have hz : (-z).toNat ≥ 1 := by omega
      refine ⟨by omega, ?_⟩
      have : ¬ (18446744073709551616 - (-z).toNat < 9223372036854775808) := by omega
      simp only [this, if_false]; omega
    · cases h

/-- Element-wise round trip lifts to count-prefixed lists. -/
theorem decN_encList (f : V → Option Bytes) (g : Bytes → Res ((V × Nat) × Bytes))
    (hfg : ∀ v bs r, f v = some bs → ∃ al, g (bs ++ r) = .ok ((v, al), r)) :
    ∀ (v : V) (bs r : Bytes), encList f v = some bs → ∃ al, decN g (vlen v) (bs ++ r) = .ok ((v, al), r) := by
  intro v
  induction v with
  | nil => intro bs r h; simp [encList] at h; subst h; exact ⟨0, rfl⟩
  | cons h t _ iht =>
    intro bs r he
    simp only [encList] at he
    cases hf : f h with
    | none => simp [hf] at he
    | some a =>
      cases ht : encList f t with
      | none => simp [hf, ht] at he
      | some b =>
        simp only [hf, ht, Option.some.injEq] at he
        subst he
        obtain ⟨al1, h1⟩ := hfg h a (b ++ r) hf
        obtain ⟨al2, h2⟩ := iht b r ht
        refine ⟨al1 + al2, ?_⟩
        simp only [vlen, decN, List.append_assoc, h1, h2]
  | unit | n _ | i _ | b _ | bytes _ | pair _ _ _ _ | none | some _ _ => intro bs r h; simp [encList] at h

theorem roundtripA (t : Ty) : ∀ (v : V) (bs r : Bytes), enc t v = some bs →
    ∃ al, decA t (bs ++ r) = .ok ((v, al), r) := by
  induction t with
  | unit => intro v bs r h; cases v <;> simp [enc] at h; subst h; exact ⟨0, rfl⟩
  | u8 =>
    intro v bs r h; cases v <;> simp [enc, encNat] at h
    obtain ⟨hx, rfl⟩ := h; exact ⟨0, by simp [decA, decNat_be 1 _ r hx]⟩
  | u16 =>
    intro v bs r h; cases v <;> simp [enc, encNat] at h
    obtain ⟨hx, rfl⟩ := h; exact ⟨0, by simp [decA, decNat_be 2 _ r hx]⟩
  | u32 =>
    intro v bs r h; cases v <;> simp [enc, encNat] at h
    obtain ⟨hx, rfl⟩ := h; exact ⟨0, by simp [decA, decNat_be 4 _ r hx]⟩
  | u64 =>
    intro v bs r h; cases v <;> simp [enc, encNat] at h
    obtain ⟨hx, rfl⟩ := h; exact ⟨0, by simp [decA, decNat_be 8 _ r hx]⟩
  | i32 =>
    intro v bs r h; cases v <;> simp [enc] at h
    obtain ⟨n, hn, rfl⟩ := h
    have ⟨h1, h2⟩ := twos_roundtrip32 _ n hn
    exact ⟨0, by simp [decA, decNat_be 4 n r h1, h2]⟩
  | i64 =>
    intro v bs r h; cases v <;> simp [enc] at h
    obtain ⟨n, hn, rfl⟩ := h
    have ⟨h1, h2⟩ := twos_roundtrip64 _ n hn
    exact ⟨0, by simp [decA, decNat_be 8 n r h1, h2]⟩
  | bool =>
    intro v bs r h; cases v <;> simp [enc] at h
    subst h
    rename_i x
    cases x <;> exact ⟨0, by simp [decA, decNat, take, unbe]⟩
  | bytes =>
    intro v bs r h; cases v <;> simp [enc] at h
    rename_i d
    obtain ⟨⟨hl, _⟩, rfl⟩ := h
    refine ⟨0, ?_⟩
    have h4 : d.length < 256 ^ 4 := by
      have : (256 : Nat) ^ 4 = 2 ^ 32 := by decide
      omega
    simp only [decA, List.append_assoc, decNat_be 4 _ _ h4, take_append]
  | pair a b iha ihb =>
    intro v bs r h; cases v <;> simp [enc] at h
    rename_i x y
    cases hx : enc a x with
    | none => simp [hx] at h
    | some p =>
      cases hy : enc b y with
      | none => simp [hx, hy] at h
      | some q =>
        simp only [hx, hy, Option.some.injEq] at h
        subst h
        obtain ⟨a1, h1⟩ := iha x p (q ++ r) hx
        obtain ⟨a2, h2⟩ := ihb y q r hy
        exact ⟨a1 + a2, by simp only [decA, List.append_assoc, h1, h2]⟩
  | list cap pre a iha =>
    intro v bs r h
    simp only [enc] at h
    split at h
    · rename_i hc
      cases he : encList (enc a) v with
      | none => simp [he] at h
      | some bs' =>
        simp only [he, Option.map_some, Option.some.injEq] at h
        subst h
        obtain ⟨al, hd⟩ := decN_encList (enc a) (decA a) iha v bs' r he
        have h4 : vlen v < 256 ^ 4 := by
          have : (256 : Nat) ^ 4 = 2 ^ 32 := by decide
          omega
        refine ⟨al + (if pre then vlen v else 0), ?_⟩
        simp only [decA, List.append_assoc, decNat_be 4 _ _ h4, hc.2, if_true, hd]
    · cases h
  | opt32 a iha =>
    intro v bs r h; cases v <;> simp [enc] at h
    · subst h; exact ⟨0, by simp [decA, decNat_be 4 0 r (by decide)]⟩
    · rename_i x
      obtain ⟨bs', hb, rfl⟩ := h
      obtain ⟨al, hd⟩ := iha x bs' r hb
      exact ⟨al, by simp [decA, decNat_be 4 1 _ (by decide), hd]⟩
  | opt8 a iha =>
    intro v bs r h; cases v <;> simp [enc] at h
    · subst h; exact ⟨0, by simp [decA, decNat, take, unbe]⟩
    · rename_i x
      obtain ⟨bs', hb, rfl⟩ := h
      obtain ⟨al, hd⟩ := iha x bs' r hb
      exact ⟨al, by simp [decA, decNat, take, unbe, hd]⟩

  | chk c a iha =>
    intro v bs r h
    simp only [enc] at h
    split at h
    · rename_i hc
      obtain ⟨al, hd⟩ := iha v bs r h
      exact ⟨al, by simp only [decA, hd, hc, if_true]⟩
    · cases h

theorem enc_pair_some {a b : Ty} {x y : V} {bs : Bytes} (h : enc (.pair a b) (.pair x y) = some bs) :
    ∃ p q, enc a x = some p ∧ enc b y = some q ∧ bs = p ++ q := by
  simp only [enc] at h
  cases hx : enc a x with
  | none => simp [hx] at h
  | some p =>
    cases hy : enc b y with
    | none => simp [hx, hy] at h
    | some q =>
      simp only [hx, hy, Option.some.injEq] at h
      exact ⟨p, q, rfl, rfl, h.symm⟩

theorem enc_pair_of {a b : Ty} {x y : V} {p q : Bytes} (hx : enc a x = some p) (hy : enc b y = some q) :
    enc (.pair a b) (.pair x y) = some (p ++ q) := by
  simp only [enc, hx, hy]

/-- Round trip: decoding the encoding of `v` (followed by anything) yields `v` and leaves
exactly what followed — the reader consumes exactly the bytes the writer produced. -/
theorem roundtrip (t : Ty) (v : V) (bs r : Bytes) (h : enc t v = some bs) :
    dec t (bs ++ r) = .ok (v, r) := by
  obtain ⟨al, hd⟩ := roundtripA t v bs r h
  simp [dec, hd]

end Vivid.Codec
