import Vivid.Proofs.Gossip

/-! Positive direction for C18 in a restart-free phase: a gossip never loses a member and adopts
every fresh / known / sender entry it is told about. -/
namespace Vivid.Gossip

theorem has_true_iff (ms : List Mem) (i : Nat × Nat) : has ms i = true ↔ ∃ e ∈ ms, e.id = i := by
  unfold has
  constructor
  · intro h; obtain ⟨e, he, hi⟩ := List.any_eq_true.1 h; exact ⟨e, he, by simpa using hi⟩
  · rintro ⟨e, he, hi⟩; exact List.any_eq_true.2 ⟨e, he, by simpa using hi⟩

theorem has_append (a b : List Mem) (i : Nat × Nat) : has (a ++ b) i = (has a i || has b i) := by
  unfold has; exact List.any_append

theorem has_replace (ms : List Mem) (m : Mem) (i : Nat × Nat) :
    has (ms.map fun x => if x.id = m.id then m else x) i = has ms i := by
  unfold has
  induction ms with
  | nil => rfl
  | cons x t ih =>
    simp only [List.map_cons, List.any_cons, ih]
    by_cases hx : x.id = m.id
    · simp [hx]
    · simp [hx]

theorem addMember_has (ms : List Mem) (m : Mem) (i : Nat × Nat) :
    has (addMember ms m) i = (has ms i || decide (m.id = i)) := by
  unfold addMember
  cases hf : ms.find? (·.id = m.id) with
  | none =>
    simp only
    rw [has_append]
    simp [has]
  | some e =>
    have he := List.find?_some hf
    have hem := List.mem_of_find?_eq_some hf
    simp only [decide_eq_true_eq] at he
    have hhas : has ms m.id = true := (has_true_iff ms m.id).2 ⟨e, hem, he⟩
    have key : has ms i = (has ms i || decide (m.id = i)) := by
      by_cases hmi : m.id = i
      · subst hmi; simp [hhas]
      · simp [hmi]
    simp only
    by_cases hn : newer m e = true
    · simp only [hn, if_true]; rw [has_replace]; exact key
    · simp only [hn]; exact key

theorem mergeView_has (view ms : List Mem) (i : Nat × Nat) :
    has (mergeView ms view) i = (has ms i || has view i) := by
  unfold mergeView
  induction view generalizing ms with
  | nil => simp [has]
  | cons v t ih =>
    simp only [List.foldl_cons]
    rw [ih, addMember_has]
    simp only [has, List.any_cons]
    cases ms.any (fun x => decide (x.id = i)) <;> cases decide (v.id = i) <;> simp

end Vivid.Gossip

namespace Vivid.Gossip

/-- Entries at one address are one entry: no second incarnation of anybody is in play. -/
def OnePerAddr (ms : List Mem) : Prop := ∀ a ∈ ms, ∀ b ∈ ms, a.addr = b.addr → a = b

theorem supersede_id (self : Mem) (ms : List Mem) (h1 : OnePerAddr ms)
    (hself : ∀ e ∈ ms, e.addr = self.addr → e.id = self.id) : supersede self ms = ms := by
  unfold supersede
  apply List.filter_eq_self.2
  intro m hm
  by_cases hc : m.addr = self.addr ∧ has ms self.id = true
  · simp only [hc, and_self, if_true, decide_eq_true_eq]; exact hself m hm hc.1
  · simp only [hc, if_false, Bool.not_eq_true', List.any_eq_false, Bool.and_eq_true, decide_eq_true_eq, not_and]
    intro o ho hoa
    have := h1 o ho m hm hoa
    subst this
    exact Nat.lt_irrefl _

/-- The merged list before supersession, as `handleGossip` builds it. -/
def merged (n : Node) (now s : Nat) (view : List Mem) : List Mem :=
  mergeView (touch n.mem s now) (dropStale { n with mem := touch n.mem s now } now s view)

theorem handle_has_of_clean (n : Node) (now s : Nat) (view : List Mem)
    (h1 : OnePerAddr (merged n now s view))
    (hself : ∀ e ∈ merged n now s view, e.addr = n.self.addr → e.id = n.self.id) (i : Nat × Nat) :
    has (handleGossip n now s view).mem i =
      (has n.mem i || has (dropStale { n with mem := touch n.mem s now } now s view) i) := by
  rw [handleGossip_eq]
  have : supersede n.self (mergeView (touch n.mem s now)
      (dropStale { n with mem := touch n.mem s now } now s view)) = merged n now s view :=
    supersede_id n.self _ h1 hself
  rw [this, touch_has]
  unfold merged
  rw [mergeView_has, touch_has]

end Vivid.Gossip
