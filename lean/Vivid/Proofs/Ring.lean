import Vivid.Model.Ring

/-! Refinement of the ring buffer to a FIFO list. -/
namespace Vivid.Ring

theorem mod_wrap (m a : Nat) (hm : 0 < m) (h : a < 2 * m) :
    a % m = if a < m then a else a - m := by
  split
  · exact Nat.mod_eq_of_lt ‹_›
  · rw [Nat.mod_eq_sub_mod (by omega)]; exact Nat.mod_eq_of_lt (by omega)

theorem rd_set (b : Array (Option Nat)) (i j : Nat) (x : Option Nat) (hi : i < b.size) :
    rd (b.setIfInBounds i x) j = if i = j then x else rd b j := by
  unfold rd
  rw [Array.getElem?_setIfInBounds]
  by_cases h : i = j
  · subst h; simp [hi]
  · simp [h]

theorem rd_grown (b : Array (Option Nat)) (t m j : Nat) :
    rd (grown b t m) j = if j < m then rd b ((t + j) % m) else none := by
  unfold grown rd
  rw [Array.getElem?_map, Array.getElem?_range]
  by_cases h : j < 2 * m
  · simp only [h, if_true, Option.map_some]
  · have : ¬ j < m := by omega
    simp [h, this]

theorem size_grown (b : Array (Option Nat)) (t m : Nat) : (grown b t m).size = 2 * m := by
  simp [grown]

structure Inv (r : Ring) : Prop where
  pos : 0 < r.mod
  size : r.buf.size = r.mod
  head : r.head < r.mod
  len : r.len < r.mod
  tail : r.tail = (r.head + r.len) % r.mod

/-- The ring holds exactly the FIFO contents `q` (oldest first). -/
structure Rel (r : Ring) (q : List Nat) : Prop where
  inv : Inv r
  len : r.len = q.length
  elems : ∀ i (h : i < q.length), rd r.buf ((r.head + 1 + i) % r.mod) = some q[i]


theorem rel_new (n : Nat) (h : 0 < n) : Rel (new n) [] := by
  refine ⟨⟨h, by simp [new], h, h, ?_⟩, rfl, ?_⟩
  · simp [new, Nat.mod_eq_of_lt h]
  · intro i hi; simp at hi

theorem rel_push (r : Ring) (q : List Nat) (x : Nat) (h : Rel r q) : Rel (push r x) (q ++ [x]) := by
  obtain ⟨⟨hpos, hsize, hhead, hlen, htail⟩, hlq, helems⟩ := h
  have htail' : r.tail = if r.head + r.len < r.mod then r.head + r.len else r.head + r.len - r.mod := by
    rw [htail]; exact mod_wrap _ _ hpos (by omega)
  have ht1 : (r.tail + 1) % r.mod = if r.tail + 1 < r.mod then r.tail + 1 else r.tail + 1 - r.mod := by
    apply mod_wrap _ _ hpos; split at htail' <;> omega
  unfold push
  simp only
  split
  · -- growth: the buffer is full (len = mod - 1)
    rename_i hfull
    have hl : r.len + 1 = r.mod := by
      rw [ht1] at hfull; split at htail' <;> split at hfull <;> omega
    refine ⟨⟨by simp only; omega, ?_, by simp only; omega, by simp only; omega, ?_⟩, ?_, ?_⟩
    · simp only [Array.size_setIfInBounds, size_grown]
    · simp only [Nat.zero_add]; rw [Nat.mod_eq_of_lt (by omega)]; omega
    · simp only [List.length_append, List.length_singleton]; omega
    · intro i hi
      simp only [List.length_append, List.length_singleton] at hi
      simp only [Nat.zero_add]
      have hidx : (1 + i) % (2 * r.mod) = 1 + i := Nat.mod_eq_of_lt (by omega)
      rw [hidx, rd_set _ _ _ _ (by rw [size_grown]; omega), rd_grown]
      by_cases hlast : i < q.length
      · have hne : r.mod ≠ 1 + i := by omega
        have hlt : 1 + i < r.mod := by omega
        simp only [hne, if_false, hlt, if_true]
        rw [hfull, List.getElem_append_left hlast]
        have := helems i hlast
        have e : r.head + (1 + i) = r.head + 1 + i := by omega
        rw [e]; exact this
      · have hi' : i = q.length := by omega
        subst hi'
        have he : r.mod = 1 + q.length := by omega
        simp [he]
  · -- no growth
    rename_i hnot
    have hl : r.len + 1 < r.mod := by
      rw [ht1] at hnot; split at htail' <;> split at hnot <;> omega
    refine ⟨⟨hpos, ?_, hhead, by simp only; omega, ?_⟩, ?_, ?_⟩
    · simp only [Array.size_setIfInBounds]; exact hsize
    · simp only
      rw [ht1, mod_wrap _ (r.head + (r.len + 1)) hpos (by omega)]
      split at htail' <;> split <;> split <;> omega
    · simp only [List.length_append, List.length_singleton]; omega
    · intro i hi
      simp only [List.length_append, List.length_singleton] at hi
      simp only
      have hlt1 : (r.tail + 1) % r.mod < r.buf.size := by rw [hsize]; exact Nat.mod_lt _ hpos
      rw [rd_set _ _ _ _ hlt1]
      have hi1 : (r.head + 1 + i) % r.mod = if r.head + 1 + i < r.mod then r.head + 1 + i else r.head + 1 + i - r.mod :=
        mod_wrap _ _ hpos (by omega)
      by_cases hlast : i < q.length
      · have hne : (r.tail + 1) % r.mod ≠ (r.head + 1 + i) % r.mod := by
          rw [ht1, hi1]; split at htail' <;> split <;> split <;> omega
        simp only [hne, if_false]
        rw [List.getElem_append_left hlast]
        exact helems i hlast
      · have hi' : i = q.length := by omega
        subst hi'
        have heq : (r.tail + 1) % r.mod = (r.head + 1 + q.length) % r.mod := by
          rw [ht1, hi1]; split at htail' <;> split <;> split <;> omega
        simp [heq]

theorem pop_empty (r : Ring) (h : Rel r []) : pop r = (r, none) := by
  have := h.len
  simp only [List.length_nil] at this
  simp [pop, this]

theorem rel_pop (r : Ring) (y : Nat) (t : List Nat) (h : Rel r (y :: t)) :
    (pop r).2 = some (some y) ∧ Rel (pop r).1 t := by
  obtain ⟨⟨hpos, hsize, hhead, hlen, htail⟩, hlq, helems⟩ := h
  simp only [List.length_cons] at hlq
  have hne : r.len ≠ 0 := by omega
  have hh1 : (r.head + 1) % r.mod = if r.head + 1 < r.mod then r.head + 1 else r.head + 1 - r.mod :=
    mod_wrap _ _ hpos (by omega)
  unfold pop
  simp only [hne, if_false]
  constructor
  · have := helems 0 (by simp)
    simp only [Nat.add_zero, List.getElem_cons_zero] at this
    rw [this]
  · refine ⟨⟨hpos, ?_, Nat.mod_lt _ hpos, by simp only; omega, ?_⟩, by simp only; omega, ?_⟩
    · simp only [Array.size_setIfInBounds]; exact hsize
    · simp only
      rw [htail, mod_wrap _ (r.head + r.len) hpos (by omega), hh1]
      rw [mod_wrap _ _ hpos (by split <;> omega)]
      split <;> split <;> split <;> omega
    · intro i hi
      simp only
      have hlt1 : (r.head + 1) % r.mod < r.buf.size := by rw [hsize]; exact Nat.mod_lt _ hpos
      rw [rd_set _ _ _ _ hlt1]
      have hidx : ((r.head + 1) % r.mod + 1 + i) % r.mod = (r.head + 1 + (i + 1)) % r.mod := by
        rw [hh1, mod_wrap _ _ hpos (by split <;> omega), mod_wrap _ (r.head + 1 + (i + 1)) hpos (by omega)]
        split <;> split <;> split <;> omega
      have hne2 : (r.head + 1) % r.mod ≠ ((r.head + 1) % r.mod + 1 + i) % r.mod := by
        rw [hidx, hh1, mod_wrap _ (r.head + 1 + (i + 1)) hpos (by omega)]
        split <;> split <;> omega
      simp only [hne2, if_false]
      rw [hidx]
      have := helems (i + 1) (by simp; omega)
      simpa using this

end Vivid.Ring
