import Vivid.Proofs.ActorSysReg

/-! Well-formedness of M10 over every handler (`Valid`: every context id stored anywhere names an
existing context, contexts that do not exist yet hold no mail, dead-letter envelopes only ever sit
in the root's mailbox, every user-message id in the system is below `nextEnv`) and the mail
relation `Ext` (handlers never remove mail: what a context holds before a handler runs it still
holds afterwards; ids handed out by the handler are held somewhere afterwards).
Property theorems in `Props/C03Global.lean`. -/
namespace Vivid.ActorSys

/-- Everything a context holds: both queues and the stash. -/
def mail (x : Ctx) : List Env := x.sysQ ++ x.userQ ++ x.stash

theorem mem_mail {x : Ctx} {e : Env} : e ∈ mail x ↔ e ∈ x.sysQ ∨ e ∈ x.userQ ∨ e ∈ x.stash := by
  simp [mail, List.mem_append, or_assoc]

def isDL : Msg → Bool
  | .deadLetter _ _ _ => true
  | _ => false

/-- Envelope `e` carries user message `i`: it is that message, or the dead-letter notice for it. -/
def carries (i : Nat) (e : Env) : Bool :=
  match e.msg with
  | .user _ => e.id == i
  | .deadLetter x u _ => u && x == i
  | _ => false

/-- User message `i` is held somewhere: in some mailbox or stash, or on the published list. -/
def Held (i : Nat) (s : Sys) : Prop :=
  (∃ c e, e ∈ mail (s.ctx c) ∧ carries i e = true) ∨ i ∈ s.deadLetters

def chainOK (n : Nat) (ch : List (Cid × List Cid)) : Prop := ∀ p ∈ ch, p.1 < n ∧ ∀ t ∈ p.2, t < n

def msgOK (n : Nat) : Msg → Prop
  | .supervise ch _ => chainOK n ch
  | _ => True

structure EnvOK (n nx : Nat) (c : Cid) (e : Env) : Prop where
  sender : ∀ d, e.sender = some d → d < n
  msg : msgOK n e.msg
  nodl : c ≠ 0 → isDL e.msg = false
  ids : ∀ i, carries i e = true → i < nx

structure CtxOK (n nx : Nat) (c : Cid) (x : Ctx) : Prop where
  parent : ∀ p, x.parent = some p → p < n
  children : ∀ k ∈ x.children, k < n
  watchers : ∀ w ∈ x.watchers, w < n
  envs : ∀ e ∈ mail x, EnvOK n nx c e
  blank : n ≤ c → mail x = []

structure Valid (s : Sys) : Prop where
  pos : 0 < s.n
  ctx : ∀ c, CtxOK s.n s.nextEnv c (s.ctx c)
  reg : ∀ e ∈ s.registry, e.2 < s.n
  refs : ∀ e ∈ s.refs, ∀ c, e.2.2 = some c → c < s.n
  subs : ∀ e ∈ s.subs, e.2.2 < s.n
  dls : ∀ i ∈ s.deadLetters, i < s.nextEnv

theorem chainOK_mono {n n' : Nat} {ch : List (Cid × List Cid)} (h : chainOK n ch) (hn : n ≤ n') : chainOK n' ch :=
  fun p hp => ⟨Nat.lt_of_lt_of_le (h p hp).1 hn, fun t ht => Nat.lt_of_lt_of_le ((h p hp).2 t ht) hn⟩

theorem msgOK_mono {n n' : Nat} {m : Msg} (h : msgOK n m) (hn : n ≤ n') : msgOK n' m := by
  cases m <;> first | exact chainOK_mono h hn | trivial

theorem EnvOK.mono {n nx n' nx' : Nat} {c : Cid} {e : Env} (h : EnvOK n nx c e) (hn : n ≤ n') (hx : nx ≤ nx') :
    EnvOK n' nx' c e :=
  ⟨fun d hd => Nat.lt_of_lt_of_le (h.sender d hd) hn, msgOK_mono h.msg hn, h.nodl,
   fun i hi => Nat.lt_of_lt_of_le (h.ids i hi) hx⟩

theorem CtxOK.mono {n nx n' nx' : Nat} {c : Cid} {x : Ctx} (h : CtxOK n nx c x) (hn : n ≤ n') (hx : nx ≤ nx') :
    CtxOK n' nx' c x :=
  ⟨fun p hp => Nat.lt_of_lt_of_le (h.parent p hp) hn, fun k hk => Nat.lt_of_lt_of_le (h.children k hk) hn,
   fun w hw => Nat.lt_of_lt_of_le (h.watchers w hw) hn, fun e he => (h.envs e he).mono hn hx,
   fun hc => h.blank (Nat.le_trans hn hc)⟩

/-- The fields `CtxOK` looks at. -/
def vlife (x : Ctx) : Option Cid × List Cid × List Cid × List Env × List Env × List Env :=
  (x.parent, x.children, x.watchers, x.sysQ, x.userQ, x.stash)

theorem vlife_mail {x y : Ctx} (h : vlife y = vlife x) : mail y = mail x := by
  have h1 : y.sysQ = x.sysQ := congrArg (·.2.2.2.1) h
  have h2 : y.userQ = x.userQ := congrArg (·.2.2.2.2.1) h
  have h3 : y.stash = x.stash := congrArg (·.2.2.2.2.2) h
  simp [mail, h1, h2, h3]

theorem ctxOK_of_vlife {n nx : Nat} {c : Cid} {x y : Ctx} (h : vlife y = vlife x) (hx : CtxOK n nx c x) :
    CtxOK n nx c y := by
  have h1 : y.parent = x.parent := congrArg (·.1) h
  have h2 : y.children = x.children := congrArg (·.2.1) h
  have h3 : y.watchers = x.watchers := congrArg (·.2.2.1) h
  have h4 := vlife_mail h
  exact ⟨by rw [h1]; exact hx.parent, by rw [h2]; exact hx.children, by rw [h3]; exact hx.watchers,
    by rw [h4]; exact hx.envs, by rw [h4]; exact hx.blank⟩

/-- The handler relation: the result is well-formed, nothing shrank, no mail was removed,
every id handed out is held. -/
structure Ext (s s' : Sys) : Prop where
  valid : Valid s'
  n_le : s.n ≤ s'.n
  next_le : s.nextEnv ≤ s'.nextEnv
  keep : ∀ c e, e ∈ mail (s.ctx c) → e ∈ mail (s'.ctx c)
  dl : ∀ i ∈ s.deadLetters, i ∈ s'.deadLetters
  fresh : ∀ i, s.nextEnv ≤ i → i < s'.nextEnv → Held i s'

theorem Ext.refl {s : Sys} (h : Valid s) : Ext s s :=
  ⟨h, Nat.le_refl _, Nat.le_refl _, fun _ _ h => h, fun _ h => h, fun i h1 h2 => absurd h2 (Nat.not_lt.mpr h1)⟩

theorem held_of_keep {s s' : Sys} (hk : ∀ c e, e ∈ mail (s.ctx c) → e ∈ mail (s'.ctx c))
    (hd : ∀ i ∈ s.deadLetters, i ∈ s'.deadLetters) {i : Nat} (h : Held i s) : Held i s' := by
  rcases h with ⟨c, e, he, hc⟩ | h
  · exact Or.inl ⟨c, e, hk c e he, hc⟩
  · exact Or.inr (hd i h)

theorem Ext.held {s s' : Sys} (h : Ext s s') {i : Nat} (hi : Held i s) : Held i s' := held_of_keep h.keep h.dl hi

theorem Ext.trans {a b c : Sys} (h1 : Ext a b) (h2 : Ext b c) : Ext a c := by
  refine ⟨h2.valid, Nat.le_trans h1.n_le h2.n_le, Nat.le_trans h1.next_le h2.next_le,
    fun d e he => h2.keep d e (h1.keep d e he), fun i hi => h2.dl i (h1.dl i hi), fun i hlo hhi => ?_⟩
  by_cases hb : i < b.nextEnv
  · exact h2.held (h1.fresh i hlo hb)
  · exact h2.fresh i (Nat.not_lt.mp hb) hhi

/-- A state that differs only in fields the invariant does not look at. -/
theorem valid_rec {s : Sys} (s' : Sys) (hv : Valid s) (h1 : s'.n = s.n) (h2 : s'.ctx = s.ctx) (h3 : s'.nextEnv = s.nextEnv)
    (h4 : s'.registry = s.registry) (h5 : s'.refs = s.refs) (h6 : s'.subs = s.subs) (h7 : s'.deadLetters = s.deadLetters) :
    Valid s' :=
  ⟨by rw [h1]; exact hv.pos, by rw [h1, h2, h3]; exact hv.ctx, by rw [h1, h4]; exact hv.reg,
   by rw [h1, h5]; exact hv.refs, by rw [h1, h6]; exact hv.subs, by rw [h3, h7]; exact hv.dls⟩

theorem ext_of_valid {s s' : Sys} (hv : Valid s') (h1 : s'.n = s.n) (h2 : s'.ctx = s.ctx) (h3 : s'.nextEnv = s.nextEnv)
    (h7 : s'.deadLetters = s.deadLetters) : Ext s s' :=
  ⟨hv, by rw [h1]; exact Nat.le_refl _, by rw [h3]; exact Nat.le_refl _, fun c e he => by rw [h2]; exact he,
   fun i hi => by rw [h7]; exact hi, fun i hlo hhi => by rw [h3] at hhi; exact absurd hhi (Nat.not_lt.mpr hlo)⟩

theorem ext_rec {s : Sys} (s' : Sys) (hv : Valid s) (h1 : s'.n = s.n) (h2 : s'.ctx = s.ctx) (h3 : s'.nextEnv = s.nextEnv)
    (h4 : s'.registry = s.registry) (h5 : s'.refs = s.refs) (h6 : s'.subs = s.subs) (h7 : s'.deadLetters = s.deadLetters) :
    Ext s s' := ext_of_valid (valid_rec s' hv h1 h2 h3 h4 h5 h6 h7) h1 h2 h3 h7

theorem ext_say {s : Sys} (e : String) (hv : Valid s) : Ext s (say s e) := ext_rec _ hv rfl rfl rfl rfl rfl rfl rfl

/-- Changing only the subscription table, with entries that name existing contexts. -/
theorem ext_subs {s : Sys} (subs' : Subs) (hv : Valid s) (h : ∀ e ∈ subs', e.2.2 < s.n) : Ext s { s with subs := subs' } :=
  ext_of_valid ⟨hv.pos, hv.ctx, hv.reg, hv.refs, h, hv.dls⟩ rfl rfl rfl rfl

theorem valid_upd {s : Sys} (c : Cid) (f : Ctx → Ctx) (hv : Valid s) (hf : CtxOK s.n s.nextEnv c (f (s.ctx c))) :
    Valid (upd s c f) := by
  refine ⟨hv.pos, fun d => ?_, hv.reg, hv.refs, hv.subs, hv.dls⟩
  by_cases h : d = c
  · subst h; rw [upd_ctx_self]; exact hf
  · rw [upd_ctx_other s c d f h]; exact hv.ctx d

theorem ext_upd {s : Sys} (c : Cid) (f : Ctx → Ctx) (hv : Valid s) (hf : CtxOK s.n s.nextEnv c (f (s.ctx c)))
    (hk : ∀ e ∈ mail (s.ctx c), e ∈ mail (f (s.ctx c))) : Ext s (upd s c f) := by
  refine ⟨valid_upd c f hv hf, Nat.le_refl _, Nat.le_refl _, fun d e he => ?_, fun _ h => h,
    fun i h1 h2 => absurd h2 (Nat.not_lt.mpr h1)⟩
  by_cases h : d = c
  · subst h; rw [upd_ctx_self]; exact hk e he
  · rw [upd_ctx_other s c d f h]; exact he

theorem ext_upd_same {s : Sys} (c : Cid) (f : Ctx → Ctx) (hv : Valid s) (hf : ∀ x, vlife (f x) = vlife x) :
    Ext s (upd s c f) :=
  ext_upd c f hv (ctxOK_of_vlife (hf _) (hv.ctx c)) (fun e he => by rw [vlife_mail (hf _)]; exact he)

theorem ext_enqueue {s : Sys} (c : Cid) (e : Env) (hv : Valid s) (hc : c < s.n) (he : EnvOK s.n s.nextEnv c e) :
    Ext s (enqueue s c e) := by
  unfold enqueue
  have hx := hv.ctx c
  apply ext_upd c _ hv
  · split
    · refine ⟨hx.parent, hx.children, hx.watchers, fun e' he' => ?_, fun h => absurd hc (Nat.not_lt.mpr h)⟩
      rcases mem_mail.mp he' with h | h | h
      · simp only [List.mem_append, List.mem_singleton] at h
        rcases h with h | h
        · exact hx.envs e' (mem_mail.mpr (Or.inl h))
        · rw [h]; exact he
      · exact hx.envs e' (mem_mail.mpr (Or.inr (Or.inl h)))
      · exact hx.envs e' (mem_mail.mpr (Or.inr (Or.inr h)))
    · refine ⟨hx.parent, hx.children, hx.watchers, fun e' he' => ?_, fun h => absurd hc (Nat.not_lt.mpr h)⟩
      rcases mem_mail.mp he' with h | h | h
      · exact hx.envs e' (mem_mail.mpr (Or.inl h))
      · simp only [List.mem_append, List.mem_singleton] at h
        rcases h with h | h
        · exact hx.envs e' (mem_mail.mpr (Or.inr (Or.inl h)))
        · rw [h]; exact he
      · exact hx.envs e' (mem_mail.mpr (Or.inr (Or.inr h)))
  · intro e' he'
    split
    · rcases mem_mail.mp he' with h | h | h
      · exact mem_mail.mpr (Or.inl (by simp [h]))
      · exact mem_mail.mpr (Or.inr (Or.inl h))
      · exact mem_mail.mpr (Or.inr (Or.inr h))
    · rcases mem_mail.mp he' with h | h | h
      · exact mem_mail.mpr (Or.inl h)
      · exact mem_mail.mpr (Or.inr (Or.inl (by simp [h])))
      · exact mem_mail.mpr (Or.inr (Or.inr h))

theorem mem_enqueue (s : Sys) (c : Cid) (e : Env) : e ∈ mail ((enqueue s c e).ctx c) := by
  unfold enqueue
  rw [upd_ctx_self]
  split
  · exact mem_mail.mpr (Or.inl (by simp))
  · exact mem_mail.mpr (Or.inr (Or.inl (by simp)))

theorem held_enqueue (s : Sys) (c : Cid) (e : Env) (i : Nat) (h : carries i e = true) : Held i (enqueue s c e) :=
  Or.inl ⟨c, e, mem_enqueue s c e, h⟩

/-- The dead-letter notice built for envelope `e`. -/
def dlEnv (e : Env) : Env :=
  { id := 0, sys := false, sender := some 0,
    msg := .deadLetter (match e.msg with | .deadLetter x _ _ => x | _ => e.id)
      (match e.msg with | .deadLetter _ u _ => u | .user _ => true | _ => false)
      (match e.msg with | .deadLetter _ _ d => d + 1 | _ => 0) }

theorem deadLetter_eq (s : Sys) (e : Env) : deadLetter s e = enqueue s 0 (dlEnv e) := rfl

theorem carries_dlEnv (i : Nat) (e : Env) : carries i (dlEnv e) = carries i e := by
  unfold carries dlEnv
  cases hm : e.msg <;> simp

theorem ext_deadLetter {s : Sys} (e : Env) (hv : Valid s) (hid : ∀ i, carries i e = true → i < s.nextEnv) :
    Ext s (deadLetter s e) := by
  rw [deadLetter_eq]
  apply ext_enqueue 0 _ hv hv.pos
  refine ⟨fun d hd => ?_, trivial, fun h => absurd rfl h, fun i hi => hid i (by rw [← carries_dlEnv]; exact hi)⟩
  have : d = 0 := by simpa [dlEnv] using hd.symm
  rw [this]; exact hv.pos

theorem held_deadLetter (s : Sys) (e : Env) (i : Nat) (h : carries i e = true) : Held i (deadLetter s e) := by
  rw [deadLetter_eq]; exact held_enqueue s 0 _ i (by rw [carries_dlEnv]; exact h)

end Vivid.ActorSys
