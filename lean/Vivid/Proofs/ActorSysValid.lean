import Vivid.Proofs.ActorSysReg

/-! Well-formedness of M10 over every handler (`Valid`: every context id stored anywhere names an
existing context, contexts that do not exist yet hold no mail, dead-letter envelopes only ever sit
in the root's mailbox, every user-message id in the system is below `nextEnv`) and the mail
relation `Ext` (handlers never remove mail: what a context holds before a handler runs it still
holds afterwards; ids handed out by the handler are held somewhere afterwards).
Property theorems in `Props/C03Global.lean`. -/
namespace Vivid.ActorSys

/-- Everything a context holds: both queues and the stash. -/
def mail (x : Ctx) : List Env := x.sysQ ++ x.userQ ++ x.stash

theorem mem_mail {x : Ctx} {e : Env} : e ∈ mail x ↔ e ∈ x.sysQ ∨ e ∈ x.userQ ∨ e ∈ x.stash := by
  simp [mail, List.mem_append]

def isDL : Msg → Bool
  | .deadLetter _ _ _ => true
  | _ => false

/-- Envelope `e` carries user message `i`: it is that message, or the dead-letter notice for it. -/
def carries (i : Nat) (e : Env) : Bool :=
  match e.msg with
  | .user _ => e.id == i
  | .deadLetter x u _ => u && x == i
  | _ => false

/-- User message `i` is held somewhere: in some mailbox or stash, or on the published list. -/
def Held (i : Nat) (s : Sys) : Prop :=
  (∃ c e, e ∈ mail (s.ctx c) ∧ carries i e = true) ∨ i ∈ s.deadLetters

def chainOK (n : Nat) (ch : List (Cid × List Cid)) : Prop := ∀ p ∈ ch, p.1 < n ∧ ∀ t ∈ p.2, t < n

def msgOK (n : Nat) : Msg → Prop
  | .supervise ch _ => chainOK n ch
  | _ => True

structure EnvOK (n nx : Nat) (c : Cid) (e : Env) : Prop where
  sender : ∀ d, e.sender = some d → d < n
  msg : msgOK n e.msg
  nodl : c ≠ 0 → isDL e.msg = false
  ids : ∀ i, carries i e = true → i < nx

structure CtxOK (n nx : Nat) (c : Cid) (x : Ctx) : Prop where
  parent : ∀ p, x.parent = some p → p < n
  children : ∀ k ∈ x.children, k < n
  watchers : ∀ w ∈ x.watchers, w < n
  envs : ∀ e ∈ mail x, EnvOK n nx c e
  blank : n ≤ c → mail x = []

structure Valid (s : Sys) : Prop where
  pos : 0 < s.n
  ctx : ∀ c, CtxOK s.n s.nextEnv c (s.ctx c)
  reg : ∀ e ∈ s.registry, e.2 < s.n
  refs : ∀ e ∈ s.refs, ∀ c, e.2.2 = some c → c < s.n
  subs : ∀ e ∈ s.subs, e.2.2 < s.n
  dls : ∀ i ∈ s.deadLetters, i < s.nextEnv

theorem chainOK_mono {n n' : Nat} {ch : List (Cid × List Cid)} (h : chainOK n ch) (hn : n ≤ n') : chainOK n' ch :=
  fun p hp => ⟨Nat.lt_of_lt_of_le (h p hp).1 hn, fun t ht => Nat.lt_of_lt_of_le ((h p hp).2 t ht) hn⟩

theorem msgOK_mono {n n' : Nat} {m : Msg} (h : msgOK n m) (hn : n ≤ n') : msgOK n' m := by
  cases m <;> first | exact chainOK_mono h hn | trivial

theorem EnvOK.mono {n nx n' nx' : Nat} {c : Cid} {e : Env} (h : EnvOK n nx c e) (hn : n ≤ n') (hx : nx ≤ nx') :
    EnvOK n' nx' c e :=
  ⟨fun d hd => Nat.lt_of_lt_of_le (h.sender d hd) hn, msgOK_mono h.msg hn, h.nodl,
   fun i hi => Nat.lt_of_lt_of_le (h.ids i hi) hx⟩

theorem CtxOK.mono {n nx n' nx' : Nat} {c : Cid} {x : Ctx} (h : CtxOK n nx c x) (hn : n ≤ n') (hx : nx ≤ nx') :
    CtxOK n' nx' c x :=
  ⟨fun p hp => Nat.lt_of_lt_of_le (h.parent p hp) hn, fun k hk => Nat.lt_of_lt_of_le (h.children k hk) hn,
   fun w hw => Nat.lt_of_lt_of_le (h.watchers w hw) hn, fun e he => (h.envs e he).mono hn hx,
   fun hc => h.blank (Nat.le_trans hn hc)⟩

/-- The fields `CtxOK` looks at. -/
def vlife (x : Ctx) : Option Cid × List Cid × List Cid × List Env × List Env × List Env :=
  (x.parent, x.children, x.watchers, x.sysQ, x.userQ, x.stash)

theorem vlife_mail {x y : Ctx} (h : vlife y = vlife x) : mail y = mail x := by
  have h1 : y.sysQ = x.sysQ := congrArg (·.2.2.2.1) h
  have h2 : y.userQ = x.userQ := congrArg (·.2.2.2.2.1) h
  have h3 : y.stash = x.stash := congrArg (·.2.2.2.2.2) h
  simp [mail, h1, h2, h3]

theorem ctxOK_of_vlife {n nx : Nat} {c : Cid} {x y : Ctx} (h : vlife y = vlife x) (hx : CtxOK n nx c x) :
    CtxOK n nx c y := by
  have h1 : y.parent = x.parent := congrArg (·.1) h
  have h2 : y.children = x.children := congrArg (·.2.1) h
  have h3 : y.watchers = x.watchers := congrArg (·.2.2.1) h
  have h4 := vlife_mail h
  exact ⟨by rw [h1]; exact hx.parent, by rw [h2]; exact hx.children, by rw [h3]; exact hx.watchers,
    by rw [h4]; exact hx.envs, by rw [h4]; exact hx.blank⟩

/-- The handler relation: the result is well-formed, nothing shrank, no mail was removed,
every id handed out is held. -/
structure Ext (s s' : Sys) : Prop where
  valid : Valid s'
  n_le : s.n ≤ s'.n
  next_le : s.nextEnv ≤ s'.nextEnv
  keep : ∀ c e, e ∈ mail (s.ctx c) → e ∈ mail (s'.ctx c)
  dl : ∀ i ∈ s.deadLetters, i ∈ s'.deadLetters
  fresh : ∀ i, s.nextEnv ≤ i → i < s'.nextEnv → Held i s'

theorem Ext.refl {s : Sys} (h : Valid s) : Ext s s :=
  ⟨h, Nat.le_refl _, Nat.le_refl _, fun _ _ h => h, fun _ h => h, fun i h1 h2 => absurd h2 (Nat.not_lt.mpr h1)⟩

theorem held_of_keep {s s' : Sys} (hk : ∀ c e, e ∈ mail (s.ctx c) → e ∈ mail (s'.ctx c))
    (hd : ∀ i ∈ s.deadLetters, i ∈ s'.deadLetters) {i : Nat} (h : Held i s) : Held i s' := by
  rcases h with ⟨c, e, he, hc⟩ | h
  · exact Or.inl ⟨c, e, hk c e he, hc⟩
  · exact Or.inr (hd i h)

theorem Ext.held {s s' : Sys} (h : Ext s s') {i : Nat} (hi : Held i s) : Held i s' := held_of_keep h.keep h.dl hi

theorem Ext.trans {a b c : Sys} (h1 : Ext a b) (h2 : Ext b c) : Ext a c := by
  refine ⟨h2.valid, Nat.le_trans h1.n_le h2.n_le, Nat.le_trans h1.next_le h2.next_le,
    fun d e he => h2.keep d e (h1.keep d e he), fun i hi => h2.dl i (h1.dl i hi), fun i hlo hhi => ?_⟩
  by_cases hb : i < b.nextEnv
  · exact h2.held (h1.fresh i hlo hb)
  · exact h2.fresh i (Nat.not_lt.mp hb) hhi

/-- A state that differs only in fields the invariant does not look at. -/
theorem valid_rec {s : Sys} (s' : Sys) (hv : Valid s) (h1 : s'.n = s.n) (h2 : s'.ctx = s.ctx) (h3 : s'.nextEnv = s.nextEnv)
    (h4 : s'.registry = s.registry) (h5 : s'.refs = s.refs) (h6 : s'.subs = s.subs) (h7 : s'.deadLetters = s.deadLetters) :
    Valid s' :=
  ⟨by rw [h1]; exact hv.pos, by rw [h1, h2, h3]; exact hv.ctx, by rw [h1, h4]; exact hv.reg,
   by rw [h1, h5]; exact hv.refs, by rw [h1, h6]; exact hv.subs, by rw [h3, h7]; exact hv.dls⟩

theorem ext_of_valid {s s' : Sys} (hv : Valid s') (h1 : s'.n = s.n) (h2 : s'.ctx = s.ctx) (h3 : s'.nextEnv = s.nextEnv)
    (h7 : s'.deadLetters = s.deadLetters) : Ext s s' :=
  ⟨hv, by rw [h1]; exact Nat.le_refl _, by rw [h3]; exact Nat.le_refl _, fun c e he => by rw [h2]; exact he,
   fun i hi => by rw [h7]; exact hi, fun i hlo hhi => by rw [h3] at hhi; exact absurd hhi (Nat.not_lt.mpr hlo)⟩

theorem ext_rec {s : Sys} (s' : Sys) (hv : Valid s) (h1 : s'.n = s.n) (h2 : s'.ctx = s.ctx) (h3 : s'.nextEnv = s.nextEnv)
    (h4 : s'.registry = s.registry) (h5 : s'.refs = s.refs) (h6 : s'.subs = s.subs) (h7 : s'.deadLetters = s.deadLetters) :
    Ext s s' := ext_of_valid (valid_rec s' hv h1 h2 h3 h4 h5 h6 h7) h1 h2 h3 h7

theorem ext_say {s : Sys} (e : String) (hv : Valid s) : Ext s (say s e) := ext_rec _ hv rfl rfl rfl rfl rfl rfl rfl

/-- Changing only the subscription table, with entries that name existing contexts. -/
theorem ext_subs {s : Sys} (subs' : Subs) (hv : Valid s) (h : ∀ e ∈ subs', e.2.2 < s.n) : Ext s { s with subs := subs' } :=
  ext_of_valid ⟨hv.pos, hv.ctx, hv.reg, hv.refs, h, hv.dls⟩ rfl rfl rfl rfl

theorem valid_upd {s : Sys} (c : Cid) (f : Ctx → Ctx) (hv : Valid s) (hf : CtxOK s.n s.nextEnv c (f (s.ctx c))) :
    Valid (upd s c f) := by
  refine ⟨hv.pos, fun d => ?_, hv.reg, hv.refs, hv.subs, hv.dls⟩
  by_cases h : d = c
  · subst h; rw [upd_ctx_self]; exact hf
  · rw [upd_ctx_other s c d f h]; exact hv.ctx d

theorem ext_upd {s : Sys} (c : Cid) (f : Ctx → Ctx) (hv : Valid s) (hf : CtxOK s.n s.nextEnv c (f (s.ctx c)))
    (hk : ∀ e ∈ mail (s.ctx c), e ∈ mail (f (s.ctx c))) : Ext s (upd s c f) := by
  refine ⟨valid_upd c f hv hf, Nat.le_refl _, Nat.le_refl _, fun d e he => ?_, fun _ h => h,
    fun i h1 h2 => absurd h2 (Nat.not_lt.mpr h1)⟩
  by_cases h : d = c
  · subst h; rw [upd_ctx_self]; exact hk e he
  · rw [upd_ctx_other s c d f h]; exact he

theorem ext_upd_same {s : Sys} (c : Cid) (f : Ctx → Ctx) (hv : Valid s) (hf : ∀ x, vlife (f x) = vlife x) :
    Ext s (upd s c f) :=
  ext_upd c f hv (ctxOK_of_vlife (hf _) (hv.ctx c)) (fun e he => by rw [vlife_mail (hf _)]; exact he)

theorem ext_enqueue {s : Sys} (c : Cid) (e : Env) (hv : Valid s) (hc : c < s.n) (he : EnvOK s.n s.nextEnv c e) :
    Ext s (enqueue s c e) := by
  unfold enqueue
  have hx := hv.ctx c
  apply ext_upd c _ hv
  · split
    · refine ⟨hx.parent, hx.children, hx.watchers, fun e' he' => ?_, fun h => absurd hc (Nat.not_lt.mpr h)⟩
      rcases mem_mail.mp he' with h | h | h
      · simp only [List.mem_append, List.mem_singleton] at h
        rcases h with h | h
        · exact hx.envs e' (mem_mail.mpr (Or.inl h))
        · rw [h]; exact he
      · exact hx.envs e' (mem_mail.mpr (Or.inr (Or.inl h)))
      · exact hx.envs e' (mem_mail.mpr (Or.inr (Or.inr h)))
    · refine ⟨hx.parent, hx.children, hx.watchers, fun e' he' => ?_, fun h => absurd hc (Nat.not_lt.mpr h)⟩
      rcases mem_mail.mp he' with h | h | h
      · exact hx.envs e' (mem_mail.mpr (Or.inl h))
      · simp only [List.mem_append, List.mem_singleton] at h
        rcases h with h | h
        · exact hx.envs e' (mem_mail.mpr (Or.inr (Or.inl h)))
        · rw [h]; exact he
      · exact hx.envs e' (mem_mail.mpr (Or.inr (Or.inr h)))
  · intro e' he'
    split
    · rcases mem_mail.mp he' with h | h | h
      · exact mem_mail.mpr (Or.inl (by simp [h]))
      · exact mem_mail.mpr (Or.inr (Or.inl h))
      · exact mem_mail.mpr (Or.inr (Or.inr h))
    · rcases mem_mail.mp he' with h | h | h
      · exact mem_mail.mpr (Or.inl h)
      · exact mem_mail.mpr (Or.inr (Or.inl (by simp [h])))
      · exact mem_mail.mpr (Or.inr (Or.inr h))

theorem mem_enqueue (s : Sys) (c : Cid) (e : Env) : e ∈ mail ((enqueue s c e).ctx c) := by
  unfold enqueue
  rw [upd_ctx_self]
  split
  · exact mem_mail.mpr (Or.inl (by simp))
  · exact mem_mail.mpr (Or.inr (Or.inl (by simp)))

theorem held_enqueue (s : Sys) (c : Cid) (e : Env) (i : Nat) (h : carries i e = true) : Held i (enqueue s c e) :=
  Or.inl ⟨c, e, mem_enqueue s c e, h⟩

/-- The dead-letter notice built for envelope `e`. -/
def dlEnv (e : Env) : Env :=
  { id := 0, sys := false, sender := some 0,
    msg := .deadLetter (match e.msg with | .deadLetter x _ _ => x | _ => e.id)
      (match e.msg with | .deadLetter _ u _ => u | .user _ => true | _ => false)
      (match e.msg with | .deadLetter _ _ d => d + 1 | _ => 0) }

theorem deadLetter_eq (s : Sys) (e : Env) : deadLetter s e = enqueue s 0 (dlEnv e) := rfl

theorem carries_dlEnv (i : Nat) (e : Env) : carries i (dlEnv e) = carries i e := by
  unfold carries dlEnv
  cases hm : e.msg <;> simp

theorem ext_deadLetter {s : Sys} (e : Env) (hv : Valid s) (hid : ∀ i, carries i e = true → i < s.nextEnv) :
    Ext s (deadLetter s e) := by
  rw [deadLetter_eq]
  apply ext_enqueue 0 _ hv hv.pos
  refine ⟨fun d hd => ?_, trivial, fun h => absurd rfl h, fun i hi => hid i (by rw [← carries_dlEnv]; exact hi)⟩
  have : d = 0 := by simpa [dlEnv] using hd.symm
  rw [this]; exact hv.pos

theorem held_deadLetter (s : Sys) (e : Env) (i : Nat) (h : carries i e = true) : Held i (deadLetter s e) := by
  rw [deadLetter_eq]; exact held_enqueue s 0 _ i (by rw [carries_dlEnv]; exact h)

def targetOK (n : Nat) : Target → Prop
  | .own c => c < n
  | _ => True

theorem lookup_mem {α β : Type} [BEq α] [LawfulBEq α] (l : List (α × β)) (a : α) (b : β) (h : l.lookup a = some b) :
    (a, b) ∈ l := by
  induction l with
  | nil => simp at h
  | cons e t ih =>
    obtain ⟨q, d⟩ := e
    simp only [List.lookup] at h
    split at h
    · rename_i heq
      have : a = q := by simpa using heq
      cases h; subst this; simp
    · exact List.mem_cons_of_mem _ (ih h)

/-- `resolve` keeps the state well-formed (it may fill a ref-object cache from the registry) and
names an existing context. -/
theorem resolve_ok {s : Sys} (t : Target) (hv : Valid s) (ht : targetOK s.n t) :
    Valid (resolve s t).1 ∧ (resolve s t).1.n = s.n ∧ (resolve s t).1.ctx = s.ctx ∧
    (resolve s t).1.nextEnv = s.nextEnv ∧ (resolve s t).1.deadLetters = s.deadLetters ∧
    ∀ c, (resolve s t).2 = some c → c < s.n := by
  cases t with
  | own c => exact ⟨hv, rfl, rfl, rfl, rfl, fun d hd => by cases hd; exact ht⟩
  | nobody => exact ⟨hv, rfl, rfl, rfl, rfl, fun d hd => by cases hd; exact hv.pos⟩
  | path p =>
    simp only [resolve]
    split
    · exact ⟨hv, rfl, rfl, rfl, rfl, fun d hd => by cases hd; exact hv.pos⟩
    · split
      · rename_i c hc
        exact ⟨hv, rfl, rfl, rfl, rfl, fun d hd => by cases hd; exact hv.reg _ (lookup_mem _ _ _ hc)⟩
      · exact ⟨hv, rfl, rfl, rfl, rfl, fun d hd => by cases hd⟩
  | refobj r =>
    simp only [resolve]
    split
    · exact ⟨hv, rfl, rfl, rfl, rfl, fun d hd => by cases hd; exact hv.pos⟩
    · rename_i p c hc
      exact ⟨hv, rfl, rfl, rfl, rfl, fun d hd => by cases hd; exact hv.refs _ (lookup_mem _ _ _ hc) c rfl⟩
    · split
      · exact ⟨hv, rfl, rfl, rfl, rfl, fun d hd => by cases hd; exact hv.pos⟩
      · split
        · rename_i c hc
          have hcn : c < s.n := hv.reg _ (lookup_mem _ _ _ hc)
          refine ⟨⟨hv.pos, hv.ctx, hv.reg, ?_, hv.subs, hv.dls⟩, rfl, rfl, rfl, rfl, fun d hd => by cases hd; exact hcn⟩
          intro e he d hd
          simp only [List.mem_cons] at he
          rcases he with he | he
          · rw [he] at hd; cases hd; exact hcn
          · exact hv.refs e (List.mem_filter.mp he).1 d hd
        · exact ⟨hv, rfl, rfl, rfl, rfl, fun d hd => by cases hd⟩

theorem valid_bump {s : Sys} (hv : Valid s) : Valid { s with nextEnv := s.nextEnv + 1 } :=
  ⟨hv.pos, fun c => (hv.ctx c).mono (Nat.le_refl _) (Nat.le_succ _), hv.reg, hv.refs, hv.subs,
   fun i hi => Nat.lt_succ_of_lt (hv.dls i hi)⟩

theorem carries_user (i : Nat) (e : Env) (k : Nat) (hm : e.msg = .user k) : carries i e = (e.id == i) := by
  simp [carries, hm]

theorem carries_other (i : Nat) (e : Env) (h1 : ∀ k, e.msg ≠ .user k) (h2 : isDL e.msg = false) : carries i e = false := by
  unfold carries
  cases hm : e.msg <;> simp_all [isDL]

theorem ext_bump_enqueue {s1 : Sys} (hv1 : Valid s1) (c : Cid) (hc : c < s1.n) (e : Env)
    (he : EnvOK s1.n (s1.nextEnv + 1) c e) (hcar : carries s1.nextEnv e = true) :
    Ext s1 (enqueue { s1 with nextEnv := s1.nextEnv + 1 } c e) := by
  have h := ext_enqueue (s := { s1 with nextEnv := s1.nextEnv + 1 }) c e (valid_bump hv1) hc he
  refine ⟨h.valid, h.n_le, Nat.le_trans (Nat.le_succ _) h.next_le, h.keep, h.dl, fun i hlo hhi => ?_⟩
  have : i = s1.nextEnv := by
    have : i < s1.nextEnv + 1 := hhi
    omega
  rw [this]; exact held_enqueue _ c e _ hcar

theorem ext_bump_deadLetter {s1 : Sys} (hv1 : Valid s1) (e : Env)
    (hid : ∀ i, carries i e = true → i < s1.nextEnv + 1) (hcar : carries s1.nextEnv e = true) :
    Ext s1 (deadLetter { s1 with nextEnv := s1.nextEnv + 1 } e) := by
  have h := ext_deadLetter (s := { s1 with nextEnv := s1.nextEnv + 1 }) e (valid_bump hv1) hid
  refine ⟨h.valid, h.n_le, Nat.le_trans (Nat.le_succ _) h.next_le, h.keep, h.dl, fun i hlo hhi => ?_⟩
  have : i = s1.nextEnv := by
    have : i < s1.nextEnv + 1 := hhi
    omega
  rw [this]; exact held_deadLetter _ e _ hcar

theorem envOK_plain {n nx : Nat} {c : Cid} (sys : Bool) (sender : Option Cid) (m : Msg)
    (hs : ∀ d, sender = some d → d < n) (hm : msgOK n m) (hdl : isDL m = false) (hu : ∀ k, m ≠ .user k) :
    EnvOK n nx c { id := 0, sys := sys, sender := sender, msg := m } :=
  ⟨hs, hm, fun _ => hdl, fun i hi => by rw [carries_other i _ hu hdl] at hi; cases hi⟩

/-- `tell`: the message is enqueued at an existing context, or becomes a dead letter at the root. -/
theorem ext_tell {s : Sys} (sys : Bool) (sender : Option Cid) (t : Target) (m : Msg) (hv : Valid s)
    (ht : targetOK s.n t) (hs : ∀ d, sender = some d → d < s.n) (hm : msgOK s.n m) (hdl : isDL m = false) :
    Ext s (tell s sys sender t m) := by
  unfold tell
  obtain ⟨hv1, hn1, hc1, hx1, hd1, hr1⟩ := resolve_ok t hv ht
  generalize resolve s t = r at hv1 hn1 hc1 hx1 hd1 hr1
  obtain ⟨s1, c?⟩ := r
  simp only at hv1 hn1 hc1 hx1 hd1 hr1 ⊢
  have h01 : Ext s s1 := ext_of_valid hv1 hn1 hc1 hx1 hd1
  have hs1 : ∀ d, sender = some d → d < s1.n := by rw [hn1]; exact hs
  have hm1 : msgOK s1.n m := by rw [hn1]; exact hm
  cases m with
  | user k =>
    cases c? with
    | some c =>
      simp only
      have hc : c < s1.n := by rw [hn1]; exact hr1 c rfl
      refine h01.trans (ext_bump_enqueue hv1 c hc _ ⟨hs1, trivial, fun _ => rfl, fun i hi => ?_⟩ (by simp [carries]))
      have : s1.nextEnv = i := by simpa [carries] using hi
      omega
    | none =>
      simp only
      refine h01.trans (ext_bump_deadLetter hv1 _ (fun i hi => ?_) (by simp [carries]))
      have : s1.nextEnv = i := by simpa [carries] using hi
      omega
  | deadLetter x u d => simp [isDL] at hdl
  | _ =>
    cases c? with
    | some c =>
      simp only
      have hc : c < s1.n := by rw [hn1]; exact hr1 c rfl
      exact h01.trans (ext_enqueue c _ hv1 hc (envOK_plain sys sender _ hs1 hm1 hdl (by intro k h; cases h)))
    | none =>
      simp only
      refine h01.trans (ext_deadLetter _ hv1 (fun i hi => ?_))
      rw [carries_other i _ (by intro k h; cases h) hdl] at hi; cases hi

theorem ext_tellAll {s : Sys} (ts : List Cid) (sys : Bool) (sender : Option Cid) (m : Msg) (hv : Valid s)
    (ht : ∀ t ∈ ts, t < s.n) (hs : ∀ d, sender = some d → d < s.n) (hm : msgOK s.n m) (hdl : isDL m = false) :
    Ext s (tellAll s sys sender ts m) := by
  unfold tellAll
  induction ts generalizing s with
  | nil => exact Ext.refl hv
  | cons t r ih =>
    simp only [List.foldl_cons]
    have h1 := ext_tell sys sender (.own t) m hv (ht t (by simp)) hs hm hdl
    exact h1.trans (ih h1.valid (fun t' ht' => Nat.lt_of_lt_of_le (ht t' (by simp [ht'])) h1.n_le)
      (fun d hd => Nat.lt_of_lt_of_le (hs d hd) h1.n_le) (msgOK_mono hm h1.n_le))

theorem ext_foldl_tell {s : Sys} (ts : List Cid) (sys : Bool) (sender : Option Cid) (m : Msg) (hv : Valid s)
    (ht : ∀ t ∈ ts, t < s.n) (hs : ∀ d, sender = some d → d < s.n) (hm : msgOK s.n m) (hdl : isDL m = false) :
    Ext s (ts.foldl (fun acc t => tell acc sys sender (.own t) m) s) := ext_tellAll ts sys sender m hv ht hs hm hdl

/-- What a handler knows about itself and the envelope it is processing. -/
structure CurOK (s : Sys) (me : Cid) (cur : Env) : Prop where
  self_lt : me < s.n
  env : EnvOK s.n s.nextEnv me cur

theorem CurOK.mono {s s' : Sys} {self : Cid} {cur : Env} (h : CurOK s self cur) (hn : s.n ≤ s'.n) (hx : s.nextEnv ≤ s'.nextEnv) :
    CurOK s' self cur := ⟨Nat.lt_of_lt_of_le h.self_lt hn, h.env.mono hn hx⟩

theorem CurOK.ext {s s' : Sys} {self : Cid} {cur : Env} (h : CurOK s self cur) (he : Ext s s') : CurOK s' self cur :=
  h.mono he.n_le he.next_le

theorem find_mem {α : Type} (l : List α) (p : α → Bool) (a : α) (h : l.find? p = some a) : a ∈ l := by
  induction l with
  | nil => simp at h
  | cons x t ih =>
    simp only [List.find?] at h
    split at h
    · cases h; simp
    · exact List.mem_cons_of_mem _ (ih h)

theorem evalTarget_ok {s : Sys} (self : Cid) (cur : Env) (spec : String) (hv : Valid s) (hc : CurOK s self cur) :
    targetOK s.n (evalTarget s self cur spec) := by
  unfold evalTarget
  split
  · exact hc.self_lt
  · split
    · split
      · rename_i p hp; exact (hv.ctx self).parent p hp
      · trivial
    · split
      · split
        · rename_i c hcs; exact hc.env.sender c hcs
        · trivial
      · split
        · dsimp only
          split
          · rename_i c hf; exact (hv.ctx self).children c (find_mem _ _ _ hf)
          · trivial
        · split
          · trivial
          · split
            · split <;> trivial
            · trivial

theorem parentTarget_ok {s : Sys} (self : Cid) (hv : Valid s) :
    targetOK s.n (match (s.ctx self).parent with | some p => Target.own p | none => Target.nobody) := by
  split
  · rename_i p hp; exact (hv.ctx self).parent p hp
  · trivial

theorem ext_failed {s : Sys} (self : Cid) (hv : Valid s) (hself : self < s.n) : Ext s (failed s self) := by
  unfold failed
  have h1 := ext_upd_same self (fun x => { x with paused := true }) hv (fun _ => rfl)
  have ht : targetOK (upd s self (fun x => { x with paused := true })).n
      (match (s.ctx self).parent with | some p => Target.own p | none => Target.nobody) := parentTarget_ok self hv
  have h2 := ext_tell true (some self) _ (.supervise [(self, [])] []) h1.valid ht
    (fun d hd => by cases hd; exact hself)
    (by intro p hp; simp only [List.mem_singleton] at hp; rw [hp]; exact ⟨hself, fun t ht => by cases ht⟩) rfl
  exact (h1.trans h2).trans (ext_say _ h2.valid)

theorem ext_schedule {s : Sys} (self : Cid) (ref : String) (hv : Valid s) : Ext s (schedule s self ref) := by
  unfold schedule
  simp only
  have h1 := ext_upd_same self (fun x => { x with jobs := (ref, jobKey (s.ctx self).path ref) :: x.jobs.filter (fun e => e.1 ≠ ref) }) hv (fun _ => rfl)
  split
  · exact h1
  · exact h1.trans (ext_rec _ h1.valid rfl rfl rfl rfl rfl rfl rfl)

theorem ext_clearJobs {s : Sys} (self : Cid) (hv : Valid s) : Ext s (clearJobs s self) := by
  unfold clearJobs
  have h0 : Ext s { s with jobTable := s.jobTable.filter (fun e => !((s.ctx self).jobs.map (·.2)).contains e.1) } :=
    ext_rec _ hv rfl rfl rfl rfl rfl rfl rfl
  exact h0.trans (ext_upd_same self (fun x => { x with jobs := [] }) h0.valid (fun _ => rfl))

theorem ext_actorOf {s : Sys} (parent : Cid) (name : String) (script strat hooks : Nat) (ds : List Nat)
    (hv : Valid s) (hp : parent < s.n) : Ext s (actorOf s parent name script strat hooks ds) := by
  unfold actorOf
  simp only
  split
  · exact ext_say _ hv
  · split
    · exact ext_say _ hv
    · split
      · exact ext_say _ hv
      · let path := joinPath (s.ctx parent).path name
        let nc : Ctx := { blankCtx with path := path, name := name, parent := some parent, state := .running, script := script, behaviors := [script], strat := strat, decisions := ds, hooks := hooks }
        let s1 : Sys := { s with n := s.n + 1, ctx := fun x => if x = s.n then nc else s.ctx x, registry := (path, s.n) :: s.registry }
        have hnc : mail nc = [] := rfl
        have hv1 : Valid s1 := by
          refine ⟨Nat.succ_pos _, fun c => ?_, fun e he => ?_, fun e he c hc => Nat.lt_succ_of_lt (hv.refs e he c hc),
            fun e he => Nat.lt_succ_of_lt (hv.subs e he), hv.dls⟩
          · by_cases hc : c = s.n
            · have : s1.ctx c = nc := by simp [s1, hc]
              rw [this]
              refine ⟨fun p hpp => ?_, fun k hk => (by cases hk), fun w hw => (by cases hw),
                fun e he => (by rw [hnc] at he; cases he), fun _ => hnc⟩
              have : p = parent := by simpa [nc] using hpp.symm
              rw [this]; exact Nat.lt_succ_of_lt hp
            · have : s1.ctx c = s.ctx c := by simp [s1, hc]
              rw [this]; exact (hv.ctx c).mono (Nat.le_succ _) (Nat.le_refl _)
          · simp only [s1, List.mem_cons] at he
            rcases he with he | he
            · rw [he]; exact Nat.lt_succ_self _
            · exact Nat.lt_succ_of_lt (hv.reg e he)
        have h01 : Ext s s1 := by
          refine ⟨hv1, Nat.le_succ _, Nat.le_refl _, fun c e he => ?_, fun _ h => h,
            fun i h1 h2 => absurd h2 (Nat.not_lt.mpr h1)⟩
          by_cases hc : c = s.n
          · rw [hc, (hv.ctx s.n).blank (Nat.le_refl _)] at he; cases he
          · have : s1.ctx c = s.ctx c := by simp [s1, hc]
            rw [this]; exact he
        have hpn : parent ≠ s.n := Nat.ne_of_lt hp
        have hpc : s1.ctx parent = s.ctx parent := by simp [s1, hpn]
        have h12 : Ext s1 (upd s1 parent
            (fun x => { x with children := x.children.filter (fun k => (s.ctx k).path ≠ path) ++ [s.n] })) := by
          have hx := hv1.ctx parent
          apply ext_upd parent _ hv1
          · refine ⟨hx.parent, fun k hk => ?_, hx.watchers, hx.envs, hx.blank⟩
            simp only [List.mem_append, List.mem_singleton] at hk
            rcases hk with hk | hk
            · exact hx.children k (List.mem_filter.mp hk).1
            · rw [hk]; exact Nat.lt_succ_self _
          · intro e he; exact he
        have h02 := h01.trans h12
        have h23 := ext_tell true (some parent) (.own s.n) .onLaunch h02.valid (Nat.lt_succ_self s.n)
          (fun d hd => by cases hd; exact Nat.lt_succ_of_lt hp) trivial rfl
        have h03 := h02.trans h23
        have h04 := h03.trans (ext_say s!"spawned:{s.n}:{path}" h03.valid)
        split
        · refine h04.trans (ext_tell true (some parent) (.own s.n) (.onKill false) h04.valid ?_ ?_ trivial rfl)
          · exact Nat.lt_of_lt_of_le (Nat.lt_succ_self s.n) (Nat.le_trans h12.n_le (Nat.le_trans h23.n_le (ext_say _ h03.valid).n_le))
          · intro d hd; cases hd
            exact Nat.lt_of_lt_of_le (Nat.lt_succ_of_lt hp) (Nat.le_trans h12.n_le (Nat.le_trans h23.n_le (ext_say _ h03.valid).n_le))
        · exact h04

theorem enqueue_stash (s : Sys) (c : Cid) (e : Env) : ((enqueue s c e).ctx c).stash = (s.ctx c).stash := by
  unfold enqueue; rw [upd_ctx_self]; split <;> rfl

theorem enqueue_queued (s : Sys) (c : Cid) (e e' : Env)
    (h : e' ∈ (s.ctx c).sysQ ∨ e' ∈ (s.ctx c).userQ ∨ e' = e) :
    e' ∈ ((enqueue s c e).ctx c).sysQ ∨ e' ∈ ((enqueue s c e).ctx c).userQ := by
  unfold enqueue; rw [upd_ctx_self]
  split
  · rcases h with h | h | h
    · exact Or.inl (by simp [h])
    · exact Or.inr h
    · exact Or.inl (by simp [h])
  · rcases h with h | h | h
    · exact Or.inl h
    · exact Or.inr (by simp [h])
    · exact Or.inr (by simp [h])

theorem foldl_enqueue_facts (self : Cid) (l : List Env) :
    ∀ s, Valid s → self < s.n → (∀ e ∈ l, EnvOK s.n s.nextEnv self e) →
      Ext s (l.foldl (fun acc e => enqueue acc self e) s) ∧
      (l.foldl (fun acc e => enqueue acc self e) s).nextEnv = s.nextEnv ∧
      ((l.foldl (fun acc e => enqueue acc self e) s).ctx self).stash = (s.ctx self).stash ∧
      ∀ e, (e ∈ (s.ctx self).sysQ ∨ e ∈ (s.ctx self).userQ ∨ e ∈ l) →
        (e ∈ ((l.foldl (fun acc e => enqueue acc self e) s).ctx self).sysQ ∨
         e ∈ ((l.foldl (fun acc e => enqueue acc self e) s).ctx self).userQ) := by
  induction l with
  | nil =>
    intro s hv _ _
    refine ⟨Ext.refl hv, rfl, rfl, fun e he => ?_⟩
    rcases he with h | h | h
    · exact Or.inl h
    · exact Or.inr h
    · cases h
  | cons e0 t ih =>
    intro s hv hself hl
    simp only [List.foldl_cons]
    have h1 := ext_enqueue self e0 hv hself (hl e0 (by simp))
    obtain ⟨ha, hx, hb, hc⟩ := ih (enqueue s self e0) h1.valid hself (fun e he => hl e (by simp [he]))
    refine ⟨h1.trans ha, hx, by rw [hb, enqueue_stash], fun e he => ?_⟩
    apply hc
    rcases he with h | h | h
    · rcases enqueue_queued s self e0 e (Or.inl h) with h' | h'
      · exact Or.inl h'
      · exact Or.inr (Or.inl h')
    · rcases enqueue_queued s self e0 e (Or.inr (Or.inl h)) with h' | h'
      · exact Or.inl h'
      · exact Or.inr (Or.inl h')
    · simp only [List.mem_cons] at h
      rcases h with h | h
      · rcases enqueue_queued s self e0 e (Or.inr (Or.inr h)) with h' | h'
        · exact Or.inl h'
        · exact Or.inr (Or.inl h')
      · exact Or.inr (Or.inr h)

/-- `Unstash`: the first `cnt` stashed envelopes go back to the actor's own queues. -/
theorem ext_unstash {s : Sys} (self : Cid) (cnt : Nat) (hv : Valid s) (hself : self < s.n) :
    Ext s (upd (((s.ctx self).stash.take cnt).foldl (fun acc e => enqueue acc self e) s) self
      (fun x => { x with stash := x.stash.drop cnt })) := by
  have hx := hv.ctx self
  obtain ⟨ha, hnx, hb, hc⟩ := foldl_enqueue_facts self ((s.ctx self).stash.take cnt) s hv hself
    (fun e he => hx.envs e (mem_mail.mpr (Or.inr (Or.inr (List.mem_of_mem_take he)))))
  generalize ((s.ctx self).stash.take cnt).foldl (fun acc e => enqueue acc self e) s = s' at ha hnx hb hc
  have hx' := ha.valid.ctx self
  have hv2 : Valid (upd s' self (fun x => { x with stash := x.stash.drop cnt })) := by
    apply valid_upd self _ ha.valid
    refine ⟨hx'.parent, hx'.children, hx'.watchers, fun e he => ?_, fun h => ?_⟩
    · apply hx'.envs e
      rcases mem_mail.mp he with h | h | h
      · exact mem_mail.mpr (Or.inl h)
      · exact mem_mail.mpr (Or.inr (Or.inl h))
      · exact mem_mail.mpr (Or.inr (Or.inr (List.mem_of_mem_drop h)))
    · exact absurd (Nat.lt_of_lt_of_le hself ha.n_le) (Nat.not_lt.mpr h)
  refine ⟨hv2, ha.n_le, ha.next_le, fun c e he => ?_, ha.dl,
    fun i h1 h2 => absurd (show i < s.nextEnv by rw [← hnx]; exact h2) (Nat.not_lt.mpr h1)⟩
  by_cases hcs : c = self
  · subst hcs
    rw [upd_ctx_self]
    rcases mem_mail.mp he with h | h | h
    · rcases hc e (Or.inl h) with h' | h'
      · exact mem_mail.mpr (Or.inl h')
      · exact mem_mail.mpr (Or.inr (Or.inl h'))
    · rcases hc e (Or.inr (Or.inl h)) with h' | h'
      · exact mem_mail.mpr (Or.inl h')
      · exact mem_mail.mpr (Or.inr (Or.inl h'))
    · have hsplit : e ∈ (s.ctx c).stash.take cnt ∨ e ∈ (s.ctx c).stash.drop cnt := by
        have : e ∈ (s.ctx c).stash.take cnt ++ (s.ctx c).stash.drop cnt := by rw [List.take_append_drop]; exact h
        exact List.mem_append.mp this
      rcases hsplit with h1 | h1
      · rcases hc e (Or.inr (Or.inr h1)) with h' | h'
        · exact mem_mail.mpr (Or.inl h')
        · exact mem_mail.mpr (Or.inr (Or.inl h'))
      · exact mem_mail.mpr (Or.inr (Or.inr (by simp only; rw [hb]; exact h1)))
  · rw [upd_ctx_other _ _ _ _ hcs]; exact ha.keep c e he

theorem mem_esTargets {subs : Subs} {ty : Nat} {t : Cid} (h : t ∈ esTargets subs ty) : ∃ e ∈ subs, e.2.2 = t := by
  unfold esTargets at h
  obtain ⟨e, he, rfl⟩ := List.mem_map.mp h
  exact ⟨e, (List.mem_filter.mp he).1, rfl⟩

theorem ext_runActions (self : Cid) (cur : Env) (acts : List Action) :
    ∀ s, Valid s → CurOK s self cur → Ext s (runActions s self cur acts).s := by
  induction acts with
  | nil => intro s hv _; exact Ext.refl hv
  | cons a rest ih =>
    intro s hv hc
    have step : ∀ s1, Ext s s1 → Ext s (runActions s1 self cur rest).s :=
      fun s1 h1 => h1.trans (ih s1 h1.valid (hc.ext h1))
    have hsend : ∀ d, some self = some d → d < s.n := fun d hd => by cases hd; exact hc.self_lt
    cases a with
    | panic => exact Ext.refl hv
    | tell t k =>
      simp only [runActions]
      exact step _ (ext_tell false (some self) _ (.user k) hv (evalTarget_ok self cur t hv hc) hsend trivial rfl)
    | spawn name script kind decisions hooks =>
      simp only [runActions]; exact step _ (ext_actorOf self name script kind hooks decisions hv hc.self_lt)
    | kill t poison =>
      simp only [runActions]
      exact step _ (ext_tell (!poison) (some self) _ (.onKill poison) hv (evalTarget_ok self cur t hv hc) hsend trivial rfl)
    | stash =>
      simp only [runActions]
      apply step
      have hx := hv.ctx self
      apply ext_upd self _ hv
      · refine ⟨hx.parent, hx.children, hx.watchers, fun e he => ?_, fun h => absurd hc.self_lt (Nat.not_lt.mpr h)⟩
        rcases mem_mail.mp he with h | h | h
        · exact hx.envs e (mem_mail.mpr (Or.inl h))
        · exact hx.envs e (mem_mail.mpr (Or.inr (Or.inl h)))
        · simp only [List.mem_append, List.mem_singleton] at h
          rcases h with h | h
          · exact hx.envs e (mem_mail.mpr (Or.inr (Or.inr h)))
          · rw [h]; exact hc.env
      · intro e he
        rcases mem_mail.mp he with h | h | h
        · exact mem_mail.mpr (Or.inl h)
        · exact mem_mail.mpr (Or.inr (Or.inl h))
        · exact mem_mail.mpr (Or.inr (Or.inr (by simp [h])))
    | unstash n =>
      simp only [runActions]
      exact step _ (ext_unstash self _ hv hc.self_lt)
    | watch t =>
      simp only [runActions]
      exact step _ (ext_tell true (some self) _ .watch hv (evalTarget_ok self cur t hv hc) hsend trivial rfl)
    | unwatch t =>
      simp only [runActions]
      exact step _ (ext_tell true (some self) _ .unwatch hv (evalTarget_ok self cur t hv hc) hsend trivial rfl)
    | become sc => simp only [runActions]; exact step _ (ext_upd_same self _ hv (fun _ => rfl))
    | unbecome => simp only [runActions]; exact step _ (ext_upd_same self _ hv (fun _ => rfl))
    | sub ty =>
      simp only [runActions]
      apply step
      apply ext_subs _ hv
      intro e he
      unfold esSub at he
      split at he
      · exact hv.subs e he
      · simp only [List.mem_append, List.mem_singleton] at he
        rcases he with he | he
        · exact hv.subs e he
        · rw [he]; exact hc.self_lt
    | unsub ty =>
      simp only [runActions]
      exact step _ (ext_subs _ hv (fun e he => hv.subs e (List.mem_filter.mp he).1))
    | unsubAll =>
      simp only [runActions]
      exact step _ (ext_subs _ hv (fun e he => hv.subs e (List.mem_filter.mp he).1))
    | pub ty =>
      simp only [runActions]
      apply step
      have h0 : Ext s { s with nextPub := s.nextPub + 1 } := ext_rec _ hv rfl rfl rfl rfl rfl rfl rfl
      refine h0.trans (ext_foldl_tell (esTargets s.subs ty) false (some 0) (.event ty s.nextPub) h0.valid ?_ ?_ trivial rfl)
      · intro t ht
        obtain ⟨e, he, rfl⟩ := mem_esTargets ht
        exact hv.subs e he
      · intro d hd; cases hd; exact hv.pos
    | sched kind ref k => simp only [runActions]; exact step _ (ext_schedule self ref hv)
    | cancel ref =>
      simp only [runActions]
      split
      · exact step _ (ext_say _ hv)
      · rename_i key _
        apply step
        have h0 : Ext s { s with jobTable := s.jobTable.filter (fun e => e.1 ≠ key) } := ext_rec _ hv rfl rfl rfl rfl rfl rfl rfl
        have h1 := h0.trans (ext_upd_same self (fun x => { x with jobs := x.jobs.filter (fun e => e.1 ≠ ref) }) h0.valid (fun _ => rfl))
        exact h1.trans (ext_say _ h1.valid)
    | schedClear => simp only [runActions]; exact step _ (ext_clearJobs self hv)
    | cron valid ref =>
      simp only [runActions]
      split
      · exact step _ (ext_schedule self ref hv)
      · exact step _ (ext_say _ hv)

/-- A state that differs only by dropping registry / subscription entries (and in fields the
invariant does not look at). -/
theorem ext_shrink {s : Sys} (s' : Sys) (hv : Valid s) (h1 : s'.n = s.n) (h2 : s'.ctx = s.ctx) (h3 : s'.nextEnv = s.nextEnv)
    (h4 : ∀ e ∈ s'.registry, e ∈ s.registry) (h5 : s'.refs = s.refs) (h6 : ∀ e ∈ s'.subs, e ∈ s.subs)
    (h7 : s'.deadLetters = s.deadLetters) : Ext s s' :=
  ext_of_valid ⟨by rw [h1]; exact hv.pos, by rw [h1, h2, h3]; exact hv.ctx, fun e he => by rw [h1]; exact hv.reg e (h4 e he),
    by rw [h1, h5]; exact hv.refs, fun e he => by rw [h1]; exact hv.subs e (h6 e he), by rw [h3, h7]; exact hv.dls⟩ h1 h2 h3 h7

/-- The message shown to the behaviour names only ids that exist. -/
def MsgIdOK (s : Sys) (m : Msg) : Prop := ∀ x d, m = .deadLetter x true d → x < s.nextEnv

theorem ext_behave {s : Sys} (self : Cid) (beh : Nat) (cur : Env) (m : Msg) (hv : Valid s) (hc : CurOK s self cur)
    (hm : MsgIdOK s m) : Ext s (behave s self beh cur m).s := by
  unfold behave
  simp only
  split
  · exact Ext.refl hv
  · split
    · simp only
      unfold guardBehave
      split
      · split
        · exact ext_rec _ hv rfl rfl rfl rfl rfl rfl rfl
        · exact Ext.refl hv
      · rename_i e isUser d
        have hv1 : Valid { s with deadLetters := if isUser = true then s.deadLetters ++ [e] else s.deadLetters } := by
          refine ⟨hv.pos, hv.ctx, hv.reg, hv.refs, hv.subs, fun i hi => ?_⟩
          simp only at hi
          split at hi
          · rename_i hu
            simp only [List.mem_append, List.mem_singleton] at hi
            rcases hi with hi | hi
            · exact hv.dls i hi
            · rw [hi]; exact hm e d (by rw [hu])
          · exact hv.dls i hi
        have h1 : Ext s { s with deadLetters := if isUser = true then s.deadLetters ++ [e] else s.deadLetters } := by
          refine ⟨hv1, Nat.le_refl _, Nat.le_refl _, fun _ _ h => h, fun i hi => ?_, fun i h1 h2 => absurd h2 (Nat.not_lt.mpr h1)⟩
          simp only
          split
          · exact List.mem_append_left _ hi
          · exact hi
        exact h1.trans (ext_say _ hv1)
      · exact Ext.refl hv
    · split
      · exact Ext.refl hv
      · have h1 := ext_say (s := s) s!"seen:{self}:{(s.ctx self).inc}:{‹Nat›}" hv
        exact h1.trans (ext_runActions self cur _ _ h1.valid (hc.ext h1))

theorem ext_execRecover {s : Sys} (self : Cid) (beh : Nat) (cur : Env) (m : Msg) (hv : Valid s) (hc : CurOK s self cur)
    (hm : MsgIdOK s m) : Ext s (execRecover s self beh cur m) := by
  unfold execRecover
  have hb := ext_behave self beh cur m hv hc hm
  have hf := hb.trans (ext_failed self hb.valid (Nat.lt_of_lt_of_le hc.self_lt hb.n_le))
  simp only
  split
  · split
    · exact hb
    · split
      · exact hb
      · exact hf
    · exact hf
  · exact hb

theorem ext_execSwallow {s : Sys} (self : Cid) (beh : Nat) (cur : Env) (m : Msg) (hv : Valid s) (hc : CurOK s self cur)
    (hm : MsgIdOK s m) : Ext s (execSwallow s self beh cur m) := ext_behave self beh cur m hv hc hm

theorem ext_cleanup {s : Sys} (self : Cid) (hv : Valid s) (hself : self < s.n) : Ext s (cleanup s self) := by
  unfold cleanup
  simp only
  have h0 : Ext s (unregister { s with subs := esUnsubAll s.subs (s.ctx self).path } (s.ctx self).path) :=
    ext_shrink _ hv rfl rfl rfl (fun e he => (List.mem_filter.mp he).1) rfl (fun e he => (List.mem_filter.mp he).1) rfl
  have hsend : ∀ (x : Sys), s.n ≤ x.n → ∀ d, some self = some d → d < x.n :=
    fun x hx d hd => by cases hd; exact Nat.lt_of_lt_of_le hself hx
  have h1 := h0.trans (ext_tellAll (s.ctx self).watchers true (some self) (.onKilled self) h0.valid
    (fun t ht => (hv.ctx self).watchers t ht) (hsend _ h0.n_le) trivial rfl)
  split
  · rename_i p hp
    have h2 := h1.trans (ext_tell true (some self) (.own p) (.onKilled self) h1.valid
      (Nat.lt_of_lt_of_le ((hv.ctx self).parent p hp) h1.n_le) (hsend _ h1.n_le) trivial rfl)
    have h3 := h2.trans (ext_say s!"killed-event:{self}" h2.valid)
    exact h3.trans (ext_upd_same self (fun x => { x with paused := false }) h3.valid (fun _ => rfl))
  · have h3 := h1.trans (ext_say s!"killed-event:{self}" h1.valid)
    exact h3.trans (ext_upd_same self (fun x => { x with paused := false }) h3.valid (fun _ => rfl))

theorem curOK_synthetic {s : Sys} (self : Cid) (hself : self < s.n) (sys : Bool) (m : Msg)
    (hm : msgOK s.n m) (hdl : isDL m = false) (hu : ∀ k, m ≠ .user k) :
    CurOK s self { id := 0, sys := sys, sender := some self, msg := m } :=
  ⟨hself, envOK_plain sys (some self) m (fun d hd => by cases hd; exact hself) hm hdl hu⟩

theorem msgIdOK_plain (s : Sys) (m : Msg) (hdl : isDL m = false) : MsgIdOK s m := by
  intro x d h; rw [h] at hdl; simp [isDL] at hdl

theorem ext_handleRestart {s : Sys} (self : Cid) (hv : Valid s) (hself : self < s.n) : Ext s (handleRestart s self) := by
  unfold handleRestart
  simp only
  have h1 := ext_upd_same self (fun x => { x with behaviors := [x.script] }) hv (fun _ => rfl)
  split
  · have h2 := h1.trans (ext_upd_same self (fun x => { x with zombie := true, paused := false }) h1.valid (fun _ => rfl))
    exact h2.trans (ext_say _ h2.valid)
  · have h2 := h1.trans (ext_upd_same self (fun x => { x with restarting := none, state := .running, inc := x.inc + 1 }) h1.valid (fun _ => rfl))
    split
    · have h3 := h2.trans (ext_upd_same self (fun x => { x with paused := false }) h2.valid (fun _ => rfl))
      have h4 := h3.trans (ext_say s!"restarted:{self}" h3.valid)
      exact h4.trans (ext_execRecover self _ _ .onLaunch h4.valid
        (curOK_synthetic self (Nat.lt_of_lt_of_le hself h4.n_le) true .onLaunch trivial rfl (by intro k h; cases h))
        (msgIdOK_plain _ _ rfl))
    · have h3 := h2.trans (ext_tell true (some self)
        (match (s.ctx self).parent with | some p => Target.own p | none => Target.nobody) .onLaunch h2.valid
        (parentTarget_ok self hv) (fun d hd => by cases hd; exact hself) trivial rfl)
      have h4 := h3.trans (ext_upd_same self (fun x => { x with paused := false }) h3.valid (fun _ => rfl))
      exact h4.trans (ext_say _ h4.valid)

theorem curOK_retag {s : Sys} {self : Cid} {cur : Env} (hc : CurOK s self cur) (sys : Bool) (m : Msg)
    (hm : msgOK s.n m) (hdl : isDL m = false) (hu : ∀ k, m ≠ .user k) :
    CurOK s self { cur with sys := sys, msg := m } :=
  ⟨hc.self_lt, ⟨hc.env.sender, hm, fun _ => hdl, fun i hi => by
    rw [carries_other i _ hu hdl] at hi; cases hi⟩⟩

theorem curOK_retag' {s : Sys} {self : Cid} {cur : Env} (hc : CurOK s self cur) (m : Msg)
    (hm : msgOK s.n m) (hdl : isDL m = false) (hu : ∀ k, m ≠ .user k) :
    CurOK s self { cur with msg := m } :=
  ⟨hc.self_lt, ⟨hc.env.sender, hm, fun _ => hdl, fun i hi => by
    rw [carries_other i _ hu hdl] at hi; cases hi⟩⟩

theorem ext_onKilled {s : Sys} (self : Cid) (beh : Nat) (cur : Env) (who : Cid) (hv : Valid s) (hc : CurOK s self cur) :
    Ext s (onKilled s self beh cur who) := by
  unfold onKilled
  simp only
  split
  · exact ext_cleanup self hv hc.self_lt
  · have h1 : Ext s (if who ≠ self then
        execRecover (upd s self (fun x => { x with children := x.children.filter (· ≠ who) })) self beh cur (.onKilled who)
        else s) := by
      split
      · have hx := hv.ctx self
        have h0 : Ext s (upd s self (fun x => { x with children := x.children.filter (· ≠ who) })) :=
          ext_upd self _ hv ⟨hx.parent, fun k hk => hx.children k (List.mem_filter.mp hk).1, hx.watchers, hx.envs, hx.blank⟩
            (fun e he => he)
        exact h0.trans (ext_execRecover self beh cur (.onKilled who) h0.valid (hc.ext h0) (msgIdOK_plain _ _ rfl))
      · exact Ext.refl hv
    generalize (if who ≠ self then
        execRecover (upd s self (fun x => { x with children := x.children.filter (· ≠ who) })) self beh cur (.onKilled who)
        else s) = s1 at h1 ⊢
    have hc1 := hc.ext h1
    split
    · exact h1
    · have h2 := h1.trans (ext_upd_same self (fun x => { x with state := .killed }) h1.valid (fun _ => rfl))
      have hc2 : CurOK (upd s1 self (fun x => { x with state := .killed })) self { cur with sys := true, msg := .onKilled self } :=
        curOK_retag (hc.ext h2) true (.onKilled self) trivial rfl (by intro k h; cases h)
      cases hr : (s1.ctx self).restarting.isSome with
      | true =>
        simp only [if_true]
        have h3 := h2.trans (ext_execSwallow self beh _ (.onKilled self) h2.valid hc2 (msgIdOK_plain _ _ rfl))
        have h4 := h3.trans (ext_clearJobs self h3.valid)
        exact h4.trans (ext_handleRestart self h4.valid (Nat.lt_of_lt_of_le hc.self_lt h4.n_le))
      | false =>
        simp only [Bool.false_eq_true, if_false]
        have h3 := h2.trans (ext_execRecover self beh _ (.onKilled self) h2.valid hc2 (msgIdOK_plain _ _ rfl))
        have h4 := h3.trans (ext_cleanup self h3.valid (Nat.lt_of_lt_of_le hc.self_lt h3.n_le))
        exact h4.trans (ext_clearJobs self h4.valid)

theorem ext_doKill {s : Sys} (self : Cid) (beh : Nat) (cur : Env) (poison : Bool) (hv : Valid s) (hc : CurOK s self cur) :
    Ext s (doKill s self beh cur poison) := by
  unfold doKill
  simp only
  have h1 := ext_foldl_tell (s.ctx self).children (!poison) (some self) (.onKill poison) hv
    (fun t ht => (hv.ctx self).children t ht) (fun d hd => by cases hd; exact hc.self_lt) trivial rfl
  have hc1 : CurOK _ self { cur with msg := .onKill poison } :=
    curOK_retag' (hc.ext h1) (.onKill poison) trivial rfl (by intro k h; cases h)
  have h2 : Ext s (if (s.ctx self).restarting.isSome = true then
      execSwallow ((s.ctx self).children.foldl (fun acc ch => tell acc (!poison) (some self) (.own ch) (.onKill poison)) s)
        self beh { cur with msg := .onKill poison } (.onKill poison)
      else execRecover ((s.ctx self).children.foldl (fun acc ch => tell acc (!poison) (some self) (.own ch) (.onKill poison)) s)
        self beh { cur with msg := .onKill poison } (.onKill poison)) := by
    split
    · exact h1.trans (ext_execSwallow self beh _ _ h1.valid hc1 (msgIdOK_plain _ _ rfl))
    · exact h1.trans (ext_execRecover self beh _ _ h1.valid hc1 (msgIdOK_plain _ _ rfl))
  exact h2.trans (ext_onKilled self beh _ self h2.valid
    (curOK_retag' (hc.ext h2) (.onKill poison) trivial rfl (by intro k h; cases h)))

theorem mem_allTargets {chain : List (Cid × List Cid)} {t : Cid} (h : t ∈ (chain.map (·.2)).flatten) :
    ∃ p ∈ chain, t ∈ p.2 := by
  obtain ⟨l, hl, ht⟩ := List.mem_flatten.mp h
  obtain ⟨p, hp, rfl⟩ := List.mem_map.mp hl
  exact ⟨p, hp, ht⟩

theorem ext_onSupervise_core {s : Sys} (self fc : Cid) (targets allT : List Cid) (chain' : List (Cid × List Cid))
    (decision : Nat) (s0 : Sys) (h0 : Ext s s0) (hv : Valid s) (hself : self < s.n)
    (htg : ∀ t ∈ targets, t < s.n) (hall : ∀ t ∈ allT, t < s.n) (hch' : chainOK s.n chain') :
    Ext s (
      let s1 := say s0 s!"decide:{self}:{fc}:{decision}"
      let s2 := tellAll s1 true (some self) targets .cmdPause
      if decision = 1 then tellAll s2 true (some self) targets (.restart false)
      else if decision = 2 then
        tellAll (tellAll s2 false (some self) targets (.restart true)) true (some self) allT .cmdResume
      else if decision = 3 then tellAll s2 true (some self) targets (.onKill false)
      else if decision = 4 then
        tellAll (tellAll s2 false (some self) targets (.onKill true)) true (some self) allT .cmdResume
      else if decision = 5 then tellAll s2 true (some self) allT .cmdResume
      else
        let s3 := upd s2 self (fun x => { x with paused := true })
        let t : Target := match (s.ctx self).parent with | some p => .own p | none => .nobody
        tell s3 true (some self) t (.supervise ((self, []) :: chain') [])) := by
  simp only
  have h1 := h0.trans (ext_say s!"decide:{self}:{fc}:{decision}" h0.valid)
  have hsend : ∀ (x : Sys), s.n ≤ x.n → ∀ d, some self = some d → d < x.n :=
    fun x hx d hd => by cases hd; exact Nat.lt_of_lt_of_le hself hx
  have lift : ∀ (x : Sys) (l : List Cid), s.n ≤ x.n → (∀ t ∈ l, t < s.n) → ∀ t ∈ l, t < x.n :=
    fun x l hx hl t ht => Nat.lt_of_lt_of_le (hl t ht) hx
  have h2 := h1.trans (ext_tellAll targets true (some self) .cmdPause h1.valid (lift _ _ h1.n_le htg) (hsend _ h1.n_le) trivial rfl)
  split
  · exact h2.trans (ext_tellAll targets true (some self) (.restart false) h2.valid (lift _ _ h2.n_le htg) (hsend _ h2.n_le) trivial rfl)
  · split
    · have h3 := h2.trans (ext_tellAll targets false (some self) (.restart true) h2.valid (lift _ _ h2.n_le htg) (hsend _ h2.n_le) trivial rfl)
      exact h3.trans (ext_tellAll allT true (some self) .cmdResume h3.valid (lift _ _ h3.n_le hall) (hsend _ h3.n_le) trivial rfl)
    · split
      · exact h2.trans (ext_tellAll targets true (some self) (.onKill false) h2.valid (lift _ _ h2.n_le htg) (hsend _ h2.n_le) trivial rfl)
      · split
        · have h3 := h2.trans (ext_tellAll targets false (some self) (.onKill true) h2.valid (lift _ _ h2.n_le htg) (hsend _ h2.n_le) trivial rfl)
          exact h3.trans (ext_tellAll allT true (some self) .cmdResume h3.valid (lift _ _ h3.n_le hall) (hsend _ h3.n_le) trivial rfl)
        · split
          · exact h2.trans (ext_tellAll allT true (some self) .cmdResume h2.valid (lift _ _ h2.n_le hall) (hsend _ h2.n_le) trivial rfl)
          · have h3 := h2.trans (ext_upd_same self (fun x => { x with paused := true }) h2.valid (fun _ => rfl))
            refine h3.trans (ext_tell true (some self) _ (.supervise ((self, []) :: chain') []) h3.valid ?_ (hsend _ h3.n_le) ?_ rfl)
            · have := parentTarget_ok self hv
              revert this
              split
              · intro hp; exact Nat.lt_of_lt_of_le hp h3.n_le
              · intro _; trivial
            · intro p hp
              simp only [List.mem_cons] at hp
              rcases hp with hp | hp
              · rw [hp]; exact ⟨Nat.lt_of_lt_of_le hself h3.n_le, fun t ht => by cases ht⟩
              · exact chainOK_mono hch' h3.n_le p hp

theorem ext_onSuperviseDecide {s : Sys} (self : Cid) (chain : List (Cid × List Cid)) (hv : Valid s) (hself : self < s.n)
    (hch : chainOK s.n chain) : Ext s (onSuperviseDecide s self chain) := by
  unfold onSuperviseDecide
  have h0 : Ext s (if (s.ctx self).strat = 0 then s else upd s self (fun x => { x with decIdx := x.decIdx + 1 })) := by
    split
    · exact Ext.refl hv
    · exact ext_upd_same self _ hv (fun _ => rfl)
  cases chain with
  | nil =>
    have htg : ∀ t ∈ (if (s.ctx self).strat = 0 ∨ (s.ctx self).strat = 1 then [self] else (s.ctx self).children), t < s.n := by
      intro t ht
      split at ht
      · simp only [List.mem_singleton] at ht; rw [ht]; exact hself
      · exact (hv.ctx self).children t ht
    exact ext_onSupervise_core self self _ [] [] _ _ h0 hv hself htg (fun t ht => by cases ht) (fun p hp => by cases hp)
  | cons p rest =>
    obtain ⟨f, x⟩ := p
    have hf : f < s.n := (hch (f, x) (by simp)).1
    have htg : ∀ t ∈ (if (s.ctx self).strat = 0 ∨ (s.ctx self).strat = 1 then [f] else (s.ctx self).children), t < s.n := by
      intro t ht
      split at ht
      · simp only [List.mem_singleton] at ht; rw [ht]; exact hf
      · exact (hv.ctx self).children t ht
    have hch' : chainOK s.n ((f, if (s.ctx self).strat = 0 ∨ (s.ctx self).strat = 1 then [f] else (s.ctx self).children) :: rest) := by
      intro p hp
      simp only [List.mem_cons] at hp
      rcases hp with hp | hp
      · rw [hp]; exact ⟨hf, htg⟩
      · exact hch p (by simp [hp])
    refine ext_onSupervise_core self f _ _ _ _ _ h0 hv hself htg (fun t ht => ?_) hch'
    obtain ⟨p, hp, htp⟩ := mem_allTargets ht
    exact (hch' p hp).2 t htp

theorem ext_onSupervise {s : Sys} (self : Cid) (chain : List (Cid × List Cid)) (hv : Valid s) (hself : self < s.n)
    (hch : chainOK s.n chain) : Ext s (onSupervise s self chain) := by
  unfold onSupervise
  split
  · exact ext_onSuperviseDecide self chain hv hself hch
  · cases chain with
    | nil => exact ext_tell _ _ _ _ hv hself (fun d hd => by cases hd; exact hself) trivial rfl
    | cons p rest => exact ext_tell _ _ _ _ hv (hch p (by simp)).1 (fun d hd => by cases hd; exact hself) trivial rfl

theorem msgIdOK_of_env {s : Sys} {self : Cid} {e : Env} (hc : CurOK s self e) : MsgIdOK s e.msg := by
  intro x d hm
  exact hc.env.ids x (by simp [carries, hm])

theorem ext_handle {s : Sys} (self : Cid) (e : Env) (hv : Valid s) (hc : CurOK s self e) : Ext s (handle s self e) := by
  unfold handle
  simp only
  have hx := hv.ctx self
  split
  · split
    · exact Ext.refl hv
    · have h1 := ext_upd_same self (fun x => if x.state = .killing then { x with restarting := none } else x) hv
        (fun _ => by split <;> rfl)
      exact h1.trans (ext_deadLetter e h1.valid (hc.ext h1).env.ids)
    · exact ext_deadLetter e hv hc.env.ids
  · split
    · exact ext_execRecover _ _ _ _ hv hc (msgIdOK_plain _ _ rfl)
    · split
      · exact ext_doKill _ _ _ _ hv hc
      · split
        · have h1 := ext_upd_same self (fun x => { x with state := .killing }) hv (fun _ => rfl)
          exact h1.trans (ext_doKill _ _ _ _ h1.valid (hc.ext h1))
        · exact ext_upd_same self _ hv (fun _ => rfl)
    · exact ext_onKilled _ _ _ _ hv hc
    · rename_i chain sc hm
      have : chainOK s.n chain := by
        have := hc.env.msg
        rw [hm] at this; exact this
      exact ext_onSupervise self chain hv hc.self_lt this
    · exact ext_upd_same self _ hv (fun _ => rfl)
    · exact ext_upd_same self _ hv (fun _ => rfl)
    · rename_i poison hm
      split
      · have h1 := ext_upd_same self (fun x => { x with state := .killing, restarting := some poison }) hv (fun _ => rfl)
        exact h1.trans (ext_doKill _ _ _ _ h1.valid (hc.ext h1))
      · exact ext_upd_same self _ hv (fun _ => rfl)
    · split
      · rename_i w hw
        have hupd : Ext s (upd s self (fun x => { x with watchers := x.watchers ++ [w] })) := by
          apply ext_upd self _ hv
          · refine ⟨hx.parent, hx.children, fun w' hw' => ?_, hx.envs, hx.blank⟩
            simp only [List.mem_append, List.mem_singleton] at hw'
            rcases hw' with h | h
            · exact hx.watchers w' h
            · rw [h]; exact hc.env.sender w hw
          · intro e' he'; exact he'
        repeat' split
        all_goals first | exact Ext.refl hv | exact hupd
      · exact Ext.refl hv
    · split
      · apply ext_upd self _ hv
        · exact ⟨hx.parent, hx.children, fun w' hw' => hx.watchers w' (List.mem_filter.mp hw').1, hx.envs, hx.blank⟩
        · intro e' he'; exact he'
      · exact Ext.refl hv
    · exact ext_execRecover _ _ _ _ hv hc (by rename_i k hm; rw [← hm]; exact msgIdOK_of_env hc)
    · exact ext_execRecover _ _ _ _ hv hc (by rename_i x u d hm; rw [← hm]; exact msgIdOK_of_env hc)
    · exact ext_execRecover _ _ _ _ hv hc (by rename_i ty pid hm; rw [← hm]; exact msgIdOK_of_env hc)

/-- The envelope the mailbox of a context hands out next (system queue first, user queue only
when not paused). -/
def nextMail (x : Ctx) : Option Env :=
  match x.sysQ with
  | e :: _ => some e
  | [] => if x.paused then none else x.userQ.head?

/-- The state after the mailbox has handed out its next envelope. -/
def popMail (s : Sys) (c : Cid) : Sys :=
  match (s.ctx c).sysQ with
  | _ :: rest => upd s c (fun y => { y with sysQ := rest })
  | [] =>
    match (s.ctx c).userQ with
    | _ :: rest => upd s c (fun y => { y with userQ := rest })
    | [] => s

theorem deliver_eq (s : Sys) (c : Cid) :
    deliver s c = (nextMail (s.ctx c)).map (fun e => handle (popMail s c) c e) := by
  unfold deliver nextMail popMail
  simp only
  cases hs : (s.ctx c).sysQ with
  | cons e rest => simp
  | nil =>
    simp only
    by_cases hp : (s.ctx c).paused = true
    · simp [hp]
    · cases hu : (s.ctx c).userQ with
      | nil => simp [hp]
      | cons e rest => simp [hp]

theorem nextMail_mem {x : Ctx} {e : Env} (h : nextMail x = some e) : e ∈ mail x := by
  unfold nextMail at h
  split at h
  · rename_i e' rest hq; cases h; exact mem_mail.mpr (Or.inl (by simp [hq]))
  · split at h
    · cases h
    · exact mem_mail.mpr (Or.inr (Or.inl (List.mem_of_head? h)))

/-- Popping keeps the state well-formed; everything but (one copy of) the popped envelope stays. -/
theorem pop_ok {s : Sys} (c : Cid) (e : Env) (hv : Valid s) (h : nextMail (s.ctx c) = some e) :
    Valid (popMail s c) ∧ CurOK (popMail s c) c e ∧ (popMail s c).n = s.n ∧ (popMail s c).nextEnv = s.nextEnv ∧
    (popMail s c).deadLetters = s.deadLetters ∧
    (∀ d e', e' ∈ mail (s.ctx d) → (d = c ∧ e' = e) ∨ e' ∈ mail ((popMail s c).ctx d)) := by
  have hx := hv.ctx c
  have hmem := nextMail_mem h
  have hcn : c < s.n := by
    by_cases hlt : c < s.n
    · exact hlt
    · rw [hx.blank (Nat.not_lt.mp hlt)] at hmem; cases hmem
  have hcur : CurOK s c e := ⟨hcn, hx.envs e hmem⟩
  unfold nextMail at h
  split at h
  · rename_i e0 rest hq
    cases h
    have hpm : popMail s c = upd s c (fun y => { y with sysQ := rest }) := by simp only [popMail, hq]
    rw [hpm]
    have hv' : Valid (upd s c (fun y => { y with sysQ := rest })) := by
      apply valid_upd c _ hv
      refine ⟨hx.parent, hx.children, hx.watchers, fun e' he' => hx.envs e' ?_, fun hh => absurd hcn (Nat.not_lt.mpr hh)⟩
      rcases mem_mail.mp he' with h1 | h1 | h1
      · exact mem_mail.mpr (Or.inl (by rw [hq]; exact List.mem_cons_of_mem _ h1))
      · exact mem_mail.mpr (Or.inr (Or.inl h1))
      · exact mem_mail.mpr (Or.inr (Or.inr h1))
    refine ⟨hv', ⟨hcn, hcur.env⟩, rfl, rfl, rfl, fun d e' he' => ?_⟩
    by_cases hd : d = c
    · subst hd
      rw [upd_ctx_self]
      rcases mem_mail.mp he' with h1 | h1 | h1
      · rw [hq] at h1
        simp only [List.mem_cons] at h1
        rcases h1 with h1 | h1
        · exact Or.inl ⟨rfl, h1⟩
        · exact Or.inr (mem_mail.mpr (Or.inl h1))
      · exact Or.inr (mem_mail.mpr (Or.inr (Or.inl h1)))
      · exact Or.inr (mem_mail.mpr (Or.inr (Or.inr h1)))
    · rw [upd_ctx_other _ _ _ _ hd]; exact Or.inr he'
  · rename_i hq
    split at h
    · cases h
    · cases hql : (s.ctx c).userQ with
      | nil => rw [hql] at h; cases h
      | cons a rest =>
        rw [hql] at h
        have hae : a = e := by simpa using h
        subst hae
        have hpm : popMail s c = upd s c (fun y => { y with userQ := rest }) := by simp only [popMail, hq, hql]
        rw [hpm]
        have hv' : Valid (upd s c (fun y => { y with userQ := rest })) := by
          apply valid_upd c _ hv
          refine ⟨hx.parent, hx.children, hx.watchers, fun e' he' => hx.envs e' ?_, fun hh => absurd hcn (Nat.not_lt.mpr hh)⟩
          rcases mem_mail.mp he' with h1 | h1 | h1
          · exact mem_mail.mpr (Or.inl h1)
          · exact mem_mail.mpr (Or.inr (Or.inl (by rw [hql]; exact List.mem_cons_of_mem _ h1)))
          · exact mem_mail.mpr (Or.inr (Or.inr h1))
        refine ⟨hv', ⟨hcn, hcur.env⟩, rfl, rfl, rfl, fun d e' he' => ?_⟩
        by_cases hd : d = c
        · subst hd
          rw [upd_ctx_self]
          rcases mem_mail.mp he' with h1 | h1 | h1
          · exact Or.inr (mem_mail.mpr (Or.inl h1))
          · rw [hql] at h1
            simp only [List.mem_cons] at h1
            rcases h1 with h1 | h1
            · exact Or.inl ⟨rfl, h1⟩
            · exact Or.inr (mem_mail.mpr (Or.inr (Or.inl h1)))
          · exact Or.inr (mem_mail.mpr (Or.inr (Or.inr h1)))
        · rw [upd_ctx_other _ _ _ _ hd]; exact Or.inr he'

theorem valid_init (f : Bool) : Valid (init f) := by
  refine ⟨Nat.one_pos, fun c => ?_, fun e he => (by cases he), fun e he => (by cases he), fun e he => (by cases he),
    fun i hi => (by cases hi)⟩
  by_cases hc : c = 0
  · subst hc
    exact ⟨fun p hp => (by simp [init, rootCtx, blankCtx] at hp), fun k hk => (by simp [init, rootCtx, blankCtx] at hk),
      fun w hw => (by simp [init, rootCtx, blankCtx] at hw), fun e he => (by simp [init, rootCtx, blankCtx, mail] at he),
      fun _ => (by simp [init, rootCtx, blankCtx, mail])⟩
  · exact ⟨fun p hp => (by simp [init, hc, blankCtx] at hp), fun k hk => (by simp [init, hc, blankCtx] at hk),
      fun w hw => (by simp [init, hc, blankCtx] at hw), fun e he => (by simp [init, hc, blankCtx, mail] at he),
      fun _ => (by simp [init, hc, blankCtx, mail])⟩

end Vivid.ActorSys
