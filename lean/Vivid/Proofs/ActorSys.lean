import Vivid.Model.ActorSys

/-! Frame lemmas for the micro-operations of M10. -/
namespace Vivid.ActorSys

@[simp] theorem upd_ctx_self (s : Sys) (c : Cid) (f : Ctx → Ctx) : (upd s c f).ctx c = f (s.ctx c) := by
  simp [upd]

theorem upd_ctx_other (s : Sys) (c d : Cid) (f : Ctx → Ctx) (h : d ≠ c) : (upd s c f).ctx d = s.ctx d := by
  simp [upd, h]

@[simp] theorem upd_registry (s : Sys) (c : Cid) (f : Ctx → Ctx) : (upd s c f).registry = s.registry := rfl
@[simp] theorem upd_n (s : Sys) (c : Cid) (f : Ctx → Ctx) : (upd s c f).n = s.n := rfl
@[simp] theorem say_ctx (s : Sys) (e : String) : (say s e).ctx = s.ctx := rfl
@[simp] theorem say_registry (s : Sys) (e : String) : (say s e).registry = s.registry := rfl
@[simp] theorem say_n (s : Sys) (e : String) : (say s e).n = s.n := rfl

@[simp] theorem enqueue_registry (s : Sys) (c : Cid) (e : Env) : (enqueue s c e).registry = s.registry := rfl
@[simp] theorem enqueue_n (s : Sys) (c : Cid) (e : Env) : (enqueue s c e).n = s.n := rfl

theorem resolve_registry (s : Sys) (t : Target) : (resolve s t).1.registry = s.registry := by
  cases t <;> simp only [resolve]
  · split <;> (try rfl); split <;> rfl
  · split
    · rfl
    · rfl
    · split
      · rfl
      · split <;> rfl

theorem resolve_ctx (s : Sys) (t : Target) : (resolve s t).1.ctx = s.ctx := by
  cases t <;> simp only [resolve]
  · split <;> (try rfl); split <;> rfl
  · split
    · rfl
    · rfl
    · split
      · rfl
      · split <;> rfl

theorem deadLetter_registry (s : Sys) (e : Env) : (deadLetter s e).registry = s.registry := rfl

/-- `tell` never touches the registry. -/
theorem tell_registry (s : Sys) (sys : Bool) (sender : Option Cid) (t : Target) (m : Msg) :
    (tell s sys sender t m).registry = s.registry := by
  unfold tell
  have h := resolve_registry s t
  generalize resolve s t = r at h
  obtain ⟨s1, c?⟩ := r
  simp only at h ⊢
  cases m <;> cases c? <;> simp only [enqueue_registry, deadLetter_registry, h]

/-- `tell` only appends to queues: the lifecycle fields of every context are untouched. -/
theorem tell_state (s : Sys) (sys : Bool) (sender : Option Cid) (t : Target) (m : Msg) (d : Cid) :
    ((tell s sys sender t m).ctx d).state = (s.ctx d).state ∧
    ((tell s sys sender t m).ctx d).children = (s.ctx d).children ∧
    ((tell s sys sender t m).ctx d).paused = (s.ctx d).paused ∧
    ((tell s sys sender t m).ctx d).zombie = (s.ctx d).zombie ∧
    ((tell s sys sender t m).ctx d).stash = (s.ctx d).stash := by
  unfold tell
  have h := resolve_ctx s t
  generalize resolve s t = r at h
  obtain ⟨s1, c?⟩ := r
  simp only at h ⊢
  have key : ∀ (s2 : Sys) (hc : s2.ctx = s.ctx) (c : Cid) (e : Env),
      ((enqueue s2 c e).ctx d).state = (s.ctx d).state ∧ ((enqueue s2 c e).ctx d).children = (s.ctx d).children ∧
      ((enqueue s2 c e).ctx d).paused = (s.ctx d).paused ∧ ((enqueue s2 c e).ctx d).zombie = (s.ctx d).zombie ∧
      ((enqueue s2 c e).ctx d).stash = (s.ctx d).stash := by
    intro s2 hc c e
    unfold enqueue upd
    simp only
    by_cases hd : d = c
    · subst hd; simp only [if_true, hc]; split <;> exact ⟨rfl, rfl, rfl, rfl, rfl⟩
    · simp only [hd, if_false, hc]; simp
  cases m <;> cases c? <;> first
    | exact key _ (by simpa using h) _ _
    | (unfold deadLetter; exact key _ (by simpa using h) _ _)

end Vivid.ActorSys
