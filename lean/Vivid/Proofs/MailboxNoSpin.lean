import Vivid.Proofs.Mailbox
import Vivid.Model.MailboxSites

/-!
No-spin argument for the repaired re-arm decision (`fixed = true`), and the spin cycle of
the code as found (`fixed = false`).

`Idle s`: only processing goroutines inside their loop are left (no call in flight, no handler
running, nothing popped and not yet handled) and the queues hold nothing the mailbox is allowed
to process (`sq = 0`, and `paused` or `uq = 0`).  From such a state every step strictly lowers
the potential `phi`, so the processing goroutines leave after boundedly many steps.
-/
namespace Vivid.Mailbox

def isNew : Label → Bool
  | .newEnqU | .newEnqS | .newPause | .newResume => true
  | _ => false

/-- 1 on every program point that is *not* part of the idle processing loop. -/
def wZ : Pc → Nat
  | .cStart => 0
  | .cLoadP => 0
  | .cPopU => 0
  | .cStore => 0
  | .cLoadN => 0
  | .cLoadSyT => 0
  | .cLoadSyF => 0
  | .cLoadPz => 0
  | .cReCas => 0
  | _ => 1

def zsum (c : Pc → Nat) : Nat := wsum wZ c allPcs
theorem zsum_inc (c p) : zsum (inc c p) = zsum c + wZ p := wsum_inc wZ c p allPcs allPcs_nodup (mem_allPcs p)
theorem zsum_dec_eq (c p) (h : 0 < c p) : zsum (dec c p) = zsum c - wZ p := by
  have := wsum_dec wZ c p allPcs allPcs_nodup (mem_allPcs p) h; unfold zsum; omega
theorem le_zsum (c p) : wZ p * c p ≤ zsum c := le_wsum wZ c p allPcs (mem_allPcs p)

/-- Potential weights; `z = true` is the case `uq = 0`, `z = false` the case `uq > 0` (hence paused). -/
def wPhi : Bool → Pc → Nat
  | true, .cLoadSyT => 12
  | true, .cLoadPz => 11
  | true, .cReCas => 10
  | true, .cStart => 9
  | true, .cLoadP => 8
  | true, .cPopU => 7
  | true, .cStore => 6
  | true, .cLoadN => 5
  | true, .cLoadSyF => 4
  | true, _ => 0
  | false, .cReCas => 10
  | false, .cStart => 9
  | false, .cLoadP => 8
  | false, .cPopU => 7
  | false, .cStore => 6
  | false, .cLoadN => 5
  | false, .cLoadSyT => 4
  | false, .cLoadSyF => 4
  | false, .cLoadPz => 3
  | false, _ => 0

def phi (z : Bool) (c : Pc → Nat) : Nat := wsum (wPhi z) c allPcs
theorem phi_inc (z c p) : phi z (inc c p) = phi z c + wPhi z p := wsum_inc (wPhi z) c p allPcs allPcs_nodup (mem_allPcs p)
theorem phi_dec_eq (z c p) (h : 0 < c p) : phi z (dec c p) = phi z c - wPhi z p := by
  have := wsum_dec (wPhi z) c p allPcs allPcs_nodup (mem_allPcs p) h; unfold phi; omega
theorem le_phi (z c p) : wPhi z p * c p ≤ phi z c := le_wsum (wPhi z) c p allPcs (mem_allPcs p)

structure Idle (s : St) : Prop where
  zs : zsum s.c = 0
  sq0 : s.sq = 0
  np : s.paused = true ∨ s.uq = 0
  popu : s.c .cPopU = 0 ∨ s.uq = 0

structure ZeroFacts (c : Pc → Nat) : Prop where
  z_eU0 : c .eU0 ≤ zsum c
  z_eU1 : c .eU1 ≤ zsum c
  z_eS0 : c .eS0 ≤ zsum c
  z_eS1 : c .eS1 ≤ zsum c
  z_eC : c .eC ≤ zsum c
  z_eGo : c .eGo ≤ zsum c
  z_pz0 : c .pz0 ≤ zsum c
  z_r0 : c .r0 ≤ zsum c
  z_r1 : c .r1 ≤ zsum c
  z_rGo : c .rGo ≤ zsum c
  z_cDecS : c .cDecS ≤ zsum c
  z_cHndS : c .cHndS ≤ zsum c
  z_cDecU : c .cDecU ≤ zsum c
  z_cHndU : c .cHndU ≤ zsum c
  z_H : c .H ≤ zsum c
  z_hU1 : c .hU1 ≤ zsum c
  z_hS1 : c .hS1 ≤ zsum c
  z_hC : c .hC ≤ zsum c
  z_hSpawn : c .hSpawn ≤ zsum c
  z_hR1 : c .hR1 ≤ zsum c
  z_hRSpawn : c .hRSpawn ≤ zsum c

theorem zeroFacts (c : Pc → Nat) : ZeroFacts c :=
  ⟨by have := le_zsum c .eU0; simpa [wZ] using this, by have := le_zsum c .eU1; simpa [wZ] using this, by have := le_zsum c .eS0; simpa [wZ] using this, by have := le_zsum c .eS1; simpa [wZ] using this, by have := le_zsum c .eC; simpa [wZ] using this, by have := le_zsum c .eGo; simpa [wZ] using this, by have := le_zsum c .pz0; simpa [wZ] using this, by have := le_zsum c .r0; simpa [wZ] using this, by have := le_zsum c .r1; simpa [wZ] using this, by have := le_zsum c .rGo; simpa [wZ] using this, by have := le_zsum c .cDecS; simpa [wZ] using this, by have := le_zsum c .cHndS; simpa [wZ] using this, by have := le_zsum c .cDecU; simpa [wZ] using this, by have := le_zsum c .cHndU; simpa [wZ] using this, by have := le_zsum c .H; simpa [wZ] using this, by have := le_zsum c .hU1; simpa [wZ] using this, by have := le_zsum c .hS1; simpa [wZ] using this, by have := le_zsum c .hC; simpa [wZ] using this, by have := le_zsum c .hSpawn; simpa [wZ] using this, by have := le_zsum c .hR1; simpa [wZ] using this, by have := le_zsum c .hRSpawn; simpa [wZ] using this⟩

structure PhiFacts (z : Bool) (c : Pc → Nat) : Prop where
  f_cStart : wPhi z .cStart * c .cStart ≤ phi z c
  f_cLoadP : wPhi z .cLoadP * c .cLoadP ≤ phi z c
  f_cPopU : wPhi z .cPopU * c .cPopU ≤ phi z c
  f_cStore : wPhi z .cStore * c .cStore ≤ phi z c
  f_cLoadN : wPhi z .cLoadN * c .cLoadN ≤ phi z c
  f_cLoadSyT : wPhi z .cLoadSyT * c .cLoadSyT ≤ phi z c
  f_cLoadSyF : wPhi z .cLoadSyF * c .cLoadSyF ≤ phi z c
  f_cLoadPz : wPhi z .cLoadPz * c .cLoadPz ≤ phi z c
  f_cReCas : wPhi z .cReCas * c .cReCas ≤ phi z c

theorem phiFacts (z : Bool) (c : Pc → Nat) : PhiFacts z c :=
  ⟨le_phi z c .cStart, le_phi z c .cLoadP, le_phi z c .cPopU, le_phi z c .cStore, le_phi z c .cLoadN, le_phi z c .cLoadSyT, le_phi z c .cLoadSyF, le_phi z c .cLoadPz, le_phi z c .cReCas⟩

attribute [irreducible] zsum phi

set_option hygiene false in
macro "ns_step" : tactic => `(tactic| (
  simp only [fire] at hf
  split at hf
  · rename_i hg
    cases hf
    obtain ⟨hzs, hsq, hnp, hpu⟩ := hi
    have hcu := hinv.cntU
    have hcs := hinv.cntS
    obtain ⟨z_eU0, z_eU1, z_eS0, z_eS1, z_eC, z_eGo, z_pz0, z_r0, z_r1, z_rGo, z_cDecS, z_cHndS, z_cDecU, z_cHndU, z_H, z_hU1, z_hS1, z_hC, z_hSpawn, z_hR1, z_hRSpawn⟩ := zeroFacts s.c
    obtain ⟨f_cStart, f_cLoadP, f_cPopU, f_cStore, f_cLoadN, f_cLoadSyT, f_cLoadSyF, f_cLoadPz, f_cReCas⟩ := phiFacts z s.c
    cases z <;> cases hpz : s.paused <;>
    simp only [wPhi, hpz, decide_eq_true_eq, decide_eq_false_iff_not, reduceCtorEq, ↓reduceIte, Bool.false_eq_true, Bool.true_eq_false, and_true, true_and, and_false, false_and, or_true, true_or, or_false, false_or, forall_const, false_implies, implies_true, if_true, if_false] at * <;>
    first
    | omega
    | (refine ⟨⟨?_, ?_, ?_, ?_⟩, ?_⟩ <;>
        (try simp only [zsum_inc, zsum_dec_eq, phi_inc, phi_dec_eq, wZ, wPhi, mv, inc, dec, hg, hpz, reduceCtorEq, ↓reduceIte, Bool.false_eq_true, Bool.true_eq_false, and_true, true_and, and_false, false_and, or_true, true_or, or_false, false_or, forall_const, false_implies, implies_true, if_true, if_false]) <;>
        (first | omega | (constructor <;> omega) | (intros; omega) | skip))
  · cases hf))

theorem ns_uPush (z : Bool) (s s' : St) (hinv : Inv s) (hi : Idle s) (hz : decide (s.uq = 0) = z)
    (hf : fire true .uPush s = some s') : Idle s' ∧ s'.uq = s.uq ∧ phi z s'.c < phi z s.c := by
  ns_step

theorem ns_uInc (z : Bool) (s s' : St) (hinv : Inv s) (hi : Idle s) (hz : decide (s.uq = 0) = z)
    (hf : fire true .uInc s = some s') : Idle s' ∧ s'.uq = s.uq ∧ phi z s'.c < phi z s.c := by
  ns_step

theorem ns_sPush (z : Bool) (s s' : St) (hinv : Inv s) (hi : Idle s) (hz : decide (s.uq = 0) = z)
    (hf : fire true .sPush s = some s') : Idle s' ∧ s'.uq = s.uq ∧ phi z s'.c < phi z s.c := by
  ns_step

theorem ns_sInc (z : Bool) (s s' : St) (hinv : Inv s) (hi : Idle s) (hz : decide (s.uq = 0) = z)
    (hf : fire true .sInc s = some s') : Idle s' ∧ s'.uq = s.uq ∧ phi z s'.c < phi z s.c := by
  ns_step

theorem ns_pCasWin (z : Bool) (s s' : St) (hinv : Inv s) (hi : Idle s) (hz : decide (s.uq = 0) = z)
    (hf : fire true .pCasWin s = some s') : Idle s' ∧ s'.uq = s.uq ∧ phi z s'.c < phi z s.c := by
  ns_step

theorem ns_pCasLose (z : Bool) (s s' : St) (hinv : Inv s) (hi : Idle s) (hz : decide (s.uq = 0) = z)
    (hf : fire true .pCasLose s = some s') : Idle s' ∧ s'.uq = s.uq ∧ phi z s'.c < phi z s.c := by
  ns_step

theorem ns_pGo (z : Bool) (s s' : St) (hinv : Inv s) (hi : Idle s) (hz : decide (s.uq = 0) = z)
    (hf : fire true .pGo s = some s') : Idle s' ∧ s'.uq = s.uq ∧ phi z s'.c < phi z s.c := by
  ns_step

theorem ns_pause (z : Bool) (s s' : St) (hinv : Inv s) (hi : Idle s) (hz : decide (s.uq = 0) = z)
    (hf : fire true .pause s = some s') : Idle s' ∧ s'.uq = s.uq ∧ phi z s'.c < phi z s.c := by
  ns_step

theorem ns_rCasPWin (z : Bool) (s s' : St) (hinv : Inv s) (hi : Idle s) (hz : decide (s.uq = 0) = z)
    (hf : fire true .rCasPWin s = some s') : Idle s' ∧ s'.uq = s.uq ∧ phi z s'.c < phi z s.c := by
  ns_step

theorem ns_rCasPLose (z : Bool) (s s' : St) (hinv : Inv s) (hi : Idle s) (hz : decide (s.uq = 0) = z)
    (hf : fire true .rCasPLose s = some s') : Idle s' ∧ s'.uq = s.uq ∧ phi z s'.c < phi z s.c := by
  ns_step

theorem ns_rCasSWin (z : Bool) (s s' : St) (hinv : Inv s) (hi : Idle s) (hz : decide (s.uq = 0) = z)
    (hf : fire true .rCasSWin s = some s') : Idle s' ∧ s'.uq = s.uq ∧ phi z s'.c < phi z s.c := by
  ns_step

theorem ns_rCasSLose (z : Bool) (s s' : St) (hinv : Inv s) (hi : Idle s) (hz : decide (s.uq = 0) = z)
    (hf : fire true .rCasSLose s = some s') : Idle s' ∧ s'.uq = s.uq ∧ phi z s'.c < phi z s.c := by
  ns_step

theorem ns_rGo (z : Bool) (s s' : St) (hinv : Inv s) (hi : Idle s) (hz : decide (s.uq = 0) = z)
    (hf : fire true .rGo s = some s') : Idle s' ∧ s'.uq = s.uq ∧ phi z s'.c < phi z s.c := by
  ns_step

theorem ns_popSSome (z : Bool) (s s' : St) (hinv : Inv s) (hi : Idle s) (hz : decide (s.uq = 0) = z)
    (hf : fire true .popSSome s = some s') : Idle s' ∧ s'.uq = s.uq ∧ phi z s'.c < phi z s.c := by
  ns_step

theorem ns_popSNone (z : Bool) (s s' : St) (hinv : Inv s) (hi : Idle s) (hz : decide (s.uq = 0) = z)
    (hf : fire true .popSNone s = some s') : Idle s' ∧ s'.uq = s.uq ∧ phi z s'.c < phi z s.c := by
  ns_step

theorem ns_decS (z : Bool) (s s' : St) (hinv : Inv s) (hi : Idle s) (hz : decide (s.uq = 0) = z)
    (hf : fire true .decS s = some s') : Idle s' ∧ s'.uq = s.uq ∧ phi z s'.c < phi z s.c := by
  ns_step

theorem ns_hndS (z : Bool) (s s' : St) (hinv : Inv s) (hi : Idle s) (hz : decide (s.uq = 0) = z)
    (hf : fire true .hndS s = some s') : Idle s' ∧ s'.uq = s.uq ∧ phi z s'.c < phi z s.c := by
  ns_step

theorem ns_loadPPaused (z : Bool) (s s' : St) (hinv : Inv s) (hi : Idle s) (hz : decide (s.uq = 0) = z)
    (hf : fire true .loadPPaused s = some s') : Idle s' ∧ s'.uq = s.uq ∧ phi z s'.c < phi z s.c := by
  ns_step

theorem ns_loadPRun (z : Bool) (s s' : St) (hinv : Inv s) (hi : Idle s) (hz : decide (s.uq = 0) = z)
    (hf : fire true .loadPRun s = some s') : Idle s' ∧ s'.uq = s.uq ∧ phi z s'.c < phi z s.c := by
  ns_step

theorem ns_popUSome (z : Bool) (s s' : St) (hinv : Inv s) (hi : Idle s) (hz : decide (s.uq = 0) = z)
    (hf : fire true .popUSome s = some s') : Idle s' ∧ s'.uq = s.uq ∧ phi z s'.c < phi z s.c := by
  ns_step

theorem ns_popUNone (z : Bool) (s s' : St) (hinv : Inv s) (hi : Idle s) (hz : decide (s.uq = 0) = z)
    (hf : fire true .popUNone s = some s') : Idle s' ∧ s'.uq = s.uq ∧ phi z s'.c < phi z s.c := by
  ns_step

theorem ns_decU (z : Bool) (s s' : St) (hinv : Inv s) (hi : Idle s) (hz : decide (s.uq = 0) = z)
    (hf : fire true .decU s = some s') : Idle s' ∧ s'.uq = s.uq ∧ phi z s'.c < phi z s.c := by
  ns_step

theorem ns_hndU (z : Bool) (s s' : St) (hinv : Inv s) (hi : Idle s) (hz : decide (s.uq = 0) = z)
    (hf : fire true .hndU s = some s') : Idle s' ∧ s'.uq = s.uq ∧ phi z s'.c < phi z s.c := by
  ns_step

theorem ns_hEnd (z : Bool) (s s' : St) (hinv : Inv s) (hi : Idle s) (hz : decide (s.uq = 0) = z)
    (hf : fire true .hEnd s = some s') : Idle s' ∧ s'.uq = s.uq ∧ phi z s'.c < phi z s.c := by
  ns_step

theorem ns_store (z : Bool) (s s' : St) (hinv : Inv s) (hi : Idle s) (hz : decide (s.uq = 0) = z)
    (hf : fire true .store s = some s') : Idle s' ∧ s'.uq = s.uq ∧ phi z s'.c < phi z s.c := by
  ns_step

theorem ns_loadNPos (z : Bool) (s s' : St) (hinv : Inv s) (hi : Idle s) (hz : decide (s.uq = 0) = z)
    (hf : fire true .loadNPos s = some s') : Idle s' ∧ s'.uq = s.uq ∧ phi z s'.c < phi z s.c := by
  ns_step

theorem ns_loadNNon (z : Bool) (s s' : St) (hinv : Inv s) (hi : Idle s) (hz : decide (s.uq = 0) = z)
    (hf : fire true .loadNNon s = some s') : Idle s' ∧ s'.uq = s.uq ∧ phi z s'.c < phi z s.c := by
  ns_step

theorem ns_loadSyTPos (z : Bool) (s s' : St) (hinv : Inv s) (hi : Idle s) (hz : decide (s.uq = 0) = z)
    (hf : fire true .loadSyTPos s = some s') : Idle s' ∧ s'.uq = s.uq ∧ phi z s'.c < phi z s.c := by
  ns_step

theorem ns_loadSyTNon (z : Bool) (s s' : St) (hinv : Inv s) (hi : Idle s) (hz : decide (s.uq = 0) = z)
    (hf : fire true .loadSyTNon s = some s') : Idle s' ∧ s'.uq = s.uq ∧ phi z s'.c < phi z s.c := by
  ns_step

theorem ns_loadSyFPos (z : Bool) (s s' : St) (hinv : Inv s) (hi : Idle s) (hz : decide (s.uq = 0) = z)
    (hf : fire true .loadSyFPos s = some s') : Idle s' ∧ s'.uq = s.uq ∧ phi z s'.c < phi z s.c := by
  ns_step

theorem ns_loadSyFNon (z : Bool) (s s' : St) (hinv : Inv s) (hi : Idle s) (hz : decide (s.uq = 0) = z)
    (hf : fire true .loadSyFNon s = some s') : Idle s' ∧ s'.uq = s.uq ∧ phi z s'.c < phi z s.c := by
  ns_step

theorem ns_loadPzRun (z : Bool) (s s' : St) (hinv : Inv s) (hi : Idle s) (hz : decide (s.uq = 0) = z)
    (hf : fire true .loadPzRun s = some s') : Idle s' ∧ s'.uq = s.uq ∧ phi z s'.c < phi z s.c := by
  ns_step

theorem ns_loadPzPaused (z : Bool) (s s' : St) (hinv : Inv s) (hi : Idle s) (hz : decide (s.uq = 0) = z)
    (hf : fire true .loadPzPaused s = some s') : Idle s' ∧ s'.uq = s.uq ∧ phi z s'.c < phi z s.c := by
  ns_step

theorem ns_reWin (z : Bool) (s s' : St) (hinv : Inv s) (hi : Idle s) (hz : decide (s.uq = 0) = z)
    (hf : fire true .reWin s = some s') : Idle s' ∧ s'.uq = s.uq ∧ phi z s'.c < phi z s.c := by
  ns_step

theorem ns_reLose (z : Bool) (s s' : St) (hinv : Inv s) (hi : Idle s) (hz : decide (s.uq = 0) = z)
    (hf : fire true .reLose s = some s') : Idle s' ∧ s'.uq = s.uq ∧ phi z s'.c < phi z s.c := by
  ns_step

theorem ns_hUPush (z : Bool) (s s' : St) (hinv : Inv s) (hi : Idle s) (hz : decide (s.uq = 0) = z)
    (hf : fire true .hUPush s = some s') : Idle s' ∧ s'.uq = s.uq ∧ phi z s'.c < phi z s.c := by
  ns_step

theorem ns_hUInc (z : Bool) (s s' : St) (hinv : Inv s) (hi : Idle s) (hz : decide (s.uq = 0) = z)
    (hf : fire true .hUInc s = some s') : Idle s' ∧ s'.uq = s.uq ∧ phi z s'.c < phi z s.c := by
  ns_step

theorem ns_hSPush (z : Bool) (s s' : St) (hinv : Inv s) (hi : Idle s) (hz : decide (s.uq = 0) = z)
    (hf : fire true .hSPush s = some s') : Idle s' ∧ s'.uq = s.uq ∧ phi z s'.c < phi z s.c := by
  ns_step

theorem ns_hSInc (z : Bool) (s s' : St) (hinv : Inv s) (hi : Idle s) (hz : decide (s.uq = 0) = z)
    (hf : fire true .hSInc s = some s') : Idle s' ∧ s'.uq = s.uq ∧ phi z s'.c < phi z s.c := by
  ns_step

theorem ns_hCasWin (z : Bool) (s s' : St) (hinv : Inv s) (hi : Idle s) (hz : decide (s.uq = 0) = z)
    (hf : fire true .hCasWin s = some s') : Idle s' ∧ s'.uq = s.uq ∧ phi z s'.c < phi z s.c := by
  ns_step

theorem ns_hCasLose (z : Bool) (s s' : St) (hinv : Inv s) (hi : Idle s) (hz : decide (s.uq = 0) = z)
    (hf : fire true .hCasLose s = some s') : Idle s' ∧ s'.uq = s.uq ∧ phi z s'.c < phi z s.c := by
  ns_step

theorem ns_hSpawnGo (z : Bool) (s s' : St) (hinv : Inv s) (hi : Idle s) (hz : decide (s.uq = 0) = z)
    (hf : fire true .hSpawnGo s = some s') : Idle s' ∧ s'.uq = s.uq ∧ phi z s'.c < phi z s.c := by
  ns_step

theorem ns_hPause (z : Bool) (s s' : St) (hinv : Inv s) (hi : Idle s) (hz : decide (s.uq = 0) = z)
    (hf : fire true .hPause s = some s') : Idle s' ∧ s'.uq = s.uq ∧ phi z s'.c < phi z s.c := by
  ns_step

theorem ns_hRCasPWin (z : Bool) (s s' : St) (hinv : Inv s) (hi : Idle s) (hz : decide (s.uq = 0) = z)
    (hf : fire true .hRCasPWin s = some s') : Idle s' ∧ s'.uq = s.uq ∧ phi z s'.c < phi z s.c := by
  ns_step

theorem ns_hRCasPLose (z : Bool) (s s' : St) (hinv : Inv s) (hi : Idle s) (hz : decide (s.uq = 0) = z)
    (hf : fire true .hRCasPLose s = some s') : Idle s' ∧ s'.uq = s.uq ∧ phi z s'.c < phi z s.c := by
  ns_step

theorem ns_hRCasSWin (z : Bool) (s s' : St) (hinv : Inv s) (hi : Idle s) (hz : decide (s.uq = 0) = z)
    (hf : fire true .hRCasSWin s = some s') : Idle s' ∧ s'.uq = s.uq ∧ phi z s'.c < phi z s.c := by
  ns_step

theorem ns_hRCasSLose (z : Bool) (s s' : St) (hinv : Inv s) (hi : Idle s) (hz : decide (s.uq = 0) = z)
    (hf : fire true .hRCasSLose s = some s') : Idle s' ∧ s'.uq = s.uq ∧ phi z s'.c < phi z s.c := by
  ns_step

theorem ns_hRSpawnGo (z : Bool) (s s' : St) (hinv : Inv s) (hi : Idle s) (hz : decide (s.uq = 0) = z)
    (hf : fire true .hRSpawnGo s = some s') : Idle s' ∧ s'.uq = s.uq ∧ phi z s'.c < phi z s.c := by
  ns_step

theorem ns_step_all (l : Label) (hl : isNew l = false) (z : Bool) (s s' : St) (hinv : Inv s) (hi : Idle s)
    (hz : decide (s.uq = 0) = z) (hf : fire true l s = some s') :
    Idle s' ∧ s'.uq = s.uq ∧ phi z s'.c < phi z s.c := by
  cases l
  all_goals (first | (simp [isNew] at hl; done) | skip)
  · exact ns_uPush z s s' hinv hi hz hf
  · exact ns_uInc z s s' hinv hi hz hf
  · exact ns_sPush z s s' hinv hi hz hf
  · exact ns_sInc z s s' hinv hi hz hf
  · exact ns_pCasWin z s s' hinv hi hz hf
  · exact ns_pCasLose z s s' hinv hi hz hf
  · exact ns_pGo z s s' hinv hi hz hf
  · exact ns_pause z s s' hinv hi hz hf
  · exact ns_rCasPWin z s s' hinv hi hz hf
  · exact ns_rCasPLose z s s' hinv hi hz hf
  · exact ns_rCasSWin z s s' hinv hi hz hf
  · exact ns_rCasSLose z s s' hinv hi hz hf
  · exact ns_rGo z s s' hinv hi hz hf
  · exact ns_popSSome z s s' hinv hi hz hf
  · exact ns_popSNone z s s' hinv hi hz hf
  · exact ns_decS z s s' hinv hi hz hf
  · exact ns_hndS z s s' hinv hi hz hf
  · exact ns_loadPPaused z s s' hinv hi hz hf
  · exact ns_loadPRun z s s' hinv hi hz hf
  · exact ns_popUSome z s s' hinv hi hz hf
  · exact ns_popUNone z s s' hinv hi hz hf
  · exact ns_decU z s s' hinv hi hz hf
  · exact ns_hndU z s s' hinv hi hz hf
  · exact ns_hEnd z s s' hinv hi hz hf
  · exact ns_store z s s' hinv hi hz hf
  · exact ns_loadNPos z s s' hinv hi hz hf
  · exact ns_loadNNon z s s' hinv hi hz hf
  · exact ns_loadSyTPos z s s' hinv hi hz hf
  · exact ns_loadSyTNon z s s' hinv hi hz hf
  · exact ns_loadSyFPos z s s' hinv hi hz hf
  · exact ns_loadSyFNon z s s' hinv hi hz hf
  · exact ns_loadPzRun z s s' hinv hi hz hf
  · exact ns_loadPzPaused z s s' hinv hi hz hf
  · exact ns_reWin z s s' hinv hi hz hf
  · exact ns_reLose z s s' hinv hi hz hf
  · exact ns_hUPush z s s' hinv hi hz hf
  · exact ns_hUInc z s s' hinv hi hz hf
  · exact ns_hSPush z s s' hinv hi hz hf
  · exact ns_hSInc z s s' hinv hi hz hf
  · exact ns_hCasWin z s s' hinv hi hz hf
  · exact ns_hCasLose z s s' hinv hi hz hf
  · exact ns_hSpawnGo z s s' hinv hi hz hf
  · exact ns_hPause z s s' hinv hi hz hf
  · exact ns_hRCasPWin z s s' hinv hi hz hf
  · exact ns_hRCasPLose z s s' hinv hi hz hf
  · exact ns_hRCasSWin z s s' hinv hi hz hf
  · exact ns_hRCasSLose z s s' hinv hi hz hf
  · exact ns_hRSpawnGo z s s' hinv hi hz hf

end Vivid.Mailbox
