import Vivid.Proofs.ActorSysReg

/-! Event-stream and scheduler tables of M10 over every handler: frame relation `SameT` and the
invariant `TablesInv`.  Property theorems are in `Props/C19C20Global.lean`. -/
namespace Vivid.ActorSys

/-- What the table invariants look at in a context. -/
def tlife (x : Ctx) : Path × St × Bool × List (String × String) := (x.path, x.state, x.zombie, x.jobs)

/-- Tables and the fields they refer to are unchanged. -/
def SameT (s s' : Sys) : Prop :=
  s'.n = s.n ∧ s'.subs = s.subs ∧ s'.jobTable = s.jobTable ∧ ∀ c, tlife (s'.ctx c) = tlife (s.ctx c)

theorem SameT.refl (s : Sys) : SameT s s := ⟨rfl, rfl, rfl, fun _ => rfl⟩

theorem SameT.trans {a b c : Sys} (h1 : SameT a b) (h2 : SameT b c) : SameT a c :=
  ⟨h2.1.trans h1.1, h2.2.1.trans h1.2.1, h2.2.2.1.trans h1.2.2.1, fun x => (h2.2.2.2 x).trans (h1.2.2.2 x)⟩

theorem sameT_rec {s : Sys} (s' : Sys) (h0 : s'.n = s.n) (h1 : s'.subs = s.subs) (h2 : s'.jobTable = s.jobTable) (h3 : s'.ctx = s.ctx) :
    SameT s s' := ⟨h0, h1, h2, fun c => by rw [h3]⟩

theorem sameT_say (s : Sys) (e : String) : SameT s (say s e) := ⟨rfl, rfl, rfl, fun _ => rfl⟩

theorem sameT_upd (s : Sys) (c : Cid) (f : Ctx → Ctx) (hf : ∀ x, tlife (f x) = tlife x) : SameT s (upd s c f) := by
  refine ⟨rfl, rfl, rfl, fun d => ?_⟩
  by_cases h : d = c
  · subst h; simp only [upd_ctx_self]; exact hf _
  · rw [upd_ctx_other s c d f h]

theorem sameT_enqueue (s : Sys) (c : Cid) (e : Env) : SameT s (enqueue s c e) := by
  unfold enqueue
  apply sameT_upd
  intro x; split <;> rfl

theorem sameT_deadLetter (s : Sys) (e : Env) : SameT s (deadLetter s e) := by
  unfold deadLetter; exact sameT_enqueue _ _ _

theorem resolve_subs (s : Sys) (t : Target) : (resolve s t).1.subs = s.subs ∧ (resolve s t).1.jobTable = s.jobTable := by
  cases t <;> simp only [resolve] <;> (repeat' split) <;> first | exact ⟨rfl, rfl⟩ | exact ⟨trivial, trivial⟩ | simp

theorem sameT_resolve (s : Sys) (t : Target) : SameT s (resolve s t).1 :=
  ⟨(sameCore_resolve s t).2.1, (resolve_subs s t).1, (resolve_subs s t).2, fun c => by rw [resolve_ctx s t]⟩

theorem sameT_tell (s : Sys) (sys : Bool) (sender : Option Cid) (t : Target) (m : Msg) :
    SameT s (tell s sys sender t m) := by
  unfold tell
  have h := sameT_resolve s t
  generalize resolve s t = r at h
  obtain ⟨s1, c?⟩ := r
  simp only at h ⊢
  have bump : SameT s1 { s1 with nextEnv := s1.nextEnv + 1 } := ⟨rfl, rfl, rfl, fun _ => rfl⟩
  cases m <;> cases c? <;> simp only <;>
    first
    | exact h.trans (bump.trans (sameT_enqueue _ _ _))
    | exact h.trans (bump.trans (sameT_deadLetter _ _))
    | exact h.trans (sameT_enqueue _ _ _)
    | exact h.trans (sameT_deadLetter _ _)

theorem st_tell {a x : Sys} (sys : Bool) (sender : Option Cid) (t : Target) (m : Msg) (h : SameT a x) :
    SameT a (tell x sys sender t m) := h.trans (sameT_tell _ _ _ _ _)
theorem st_say {a x : Sys} (e : String) (h : SameT a x) : SameT a (say x e) := h.trans (sameT_say _ _)
theorem st_upd {a x : Sys} (c : Cid) (f : Ctx → Ctx) (hf : ∀ y, tlife (f y) = tlife y) (h : SameT a x) :
    SameT a (upd x c f) := h.trans (sameT_upd _ _ _ hf)

theorem sameT_tellAll (ts : List Cid) (s : Sys) (sys : Bool) (sender : Option Cid) (m : Msg) :
    SameT s (tellAll s sys sender ts m) := by
  unfold tellAll
  induction ts generalizing s with
  | nil => exact SameT.refl s
  | cons t r ih => simp only [List.foldl_cons]; exact (sameT_tell s sys sender (.own t) m).trans (ih _)

theorem st_tellAll {a x : Sys} (ts : List Cid) (sys : Bool) (sender : Option Cid) (m : Msg) (h : SameT a x) :
    SameT a (tellAll x sys sender ts m) := h.trans (sameT_tellAll _ _ _ _ _)

theorem sameT_foldl_tell (l : List Cid) (s : Sys) (sys : Bool) (sender : Option Cid) (m : Msg) :
    SameT s (l.foldl (fun acc t => tell acc sys sender (.own t) m) s) := by
  induction l generalizing s with
  | nil => exact SameT.refl s
  | cons e t ih => simp only [List.foldl_cons]; exact (sameT_tell s _ _ _ _).trans (ih _)

theorem sameT_foldl_enqueue (l : List Env) (s : Sys) (self : Cid) :
    SameT s (l.foldl (fun acc e => enqueue acc self e) s) := by
  induction l generalizing s with
  | nil => exact SameT.refl s
  | cons e t ih => simp only [List.foldl_cons]; exact (sameT_enqueue s self e).trans (ih _)

theorem sameT_failed (s : Sys) (self : Cid) : SameT s (failed s self) := by
  unfold failed
  simp only
  exact ((sameT_upd s self (fun x => { x with paused := true }) (fun _ => rfl)).trans
    (sameT_tell _ _ _ _ _)).trans (sameT_say _ _)

theorem sameT_onSuperviseDecide (s : Sys) (self : Cid) (chain : List (Cid × List Cid)) : SameT s (onSuperviseDecide s self chain) := by
  unfold onSuperviseDecide
  simp only
  have h0 : SameT s (if (s.ctx self).strat = 0 then s else upd s self (fun x => { x with decIdx := x.decIdx + 1 })) := by
    split
    · exact SameT.refl s
    · exact sameT_upd s self _ (fun _ => rfl)
  generalize (if (s.ctx self).strat = 0 then s else upd s self (fun x => { x with decIdx := x.decIdx + 1 })) = s0 at h0 ⊢
  repeat' split
  all_goals
    repeat (first
      | exact h0
      | apply st_tellAll
      | apply st_tell
      | apply st_say
      | (apply st_upd; · intro _; rfl))

theorem sameT_onSupervise (s : Sys) (self : Cid) (chain : List (Cid × List Cid)) : SameT s (onSupervise s self chain) := by
  unfold onSupervise
  split
  · exact sameT_onSuperviseDecide _ _ _
  · exact sameT_tell _ _ _ _ _

end Vivid.ActorSys

namespace Vivid.ActorSys

/-- `exS` / `exJ`: the context allowed to hold subscriptions / queued jobs while terminated and
not a zombie — the actor inside its own termination handler, before the clean-up steps. -/
def TablesInv (exS exJ : Option Cid) (s : Sys) : Prop :=
  (∀ c, s.n ≤ c → (s.ctx c).state = .killed ∧ (s.ctx c).zombie = false) ∧
  (∀ c, ∀ p ∈ (s.ctx c).jobs, p.2 = jobKey (s.ctx c).path p.1) ∧
  (∀ e ∈ s.subs, e.2.2 < s.n ∧ (s.ctx e.2.2).path = e.2.1 ∧
      (some e.2.2 ≠ exS → (s.ctx e.2.2).state = .killed → (s.ctx e.2.2).zombie = true)) ∧
  (∀ e ∈ s.jobTable, e.2 < s.n ∧ (∃ p ∈ (s.ctx e.2).jobs, p.2 = e.1) ∧
      (some e.2 ≠ exJ → (s.ctx e.2).state = .killed → (s.ctx e.2).zombie = true))

theorem tl_path {x y : Ctx} (h : tlife x = tlife y) : x.path = y.path := congrArg (·.1) h
theorem tl_state {x y : Ctx} (h : tlife x = tlife y) : x.state = y.state := congrArg (·.2.1) h
theorem tl_zombie {x y : Ctx} (h : tlife x = tlife y) : x.zombie = y.zombie := congrArg (·.2.2.1) h
theorem tl_jobs {x y : Ctx} (h : tlife x = tlife y) : x.jobs = y.jobs := congrArg (·.2.2.2) h

theorem tinv_sameT {a b : Option Cid} {s s' : Sys} (h : SameT s s') (hi : TablesInv a b s) : TablesInv a b s' := by
  obtain ⟨hn, hs, hj, hc⟩ := h
  refine ⟨fun c hc' => ?_, fun c p hp => ?_, fun e he => ?_, fun e he => ?_⟩
  · rw [tl_state (hc c), tl_zombie (hc c)]; exact hi.1 c (by omega)
  · rw [tl_jobs (hc c)] at hp; rw [tl_path (hc c)]; exact hi.2.1 c p hp
  · rw [hs] at he
    have := hi.2.2.1 e he
    rw [hn, tl_path (hc e.2.2), tl_state (hc e.2.2), tl_zombie (hc e.2.2)]
    exact this
  · rw [hj] at he
    have := hi.2.2.2 e he
    rw [hn, tl_jobs (hc e.2), tl_state (hc e.2), tl_zombie (hc e.2)]
    exact this

/-- The state of `self` and the context counter, as far as the behaviour code needs them. -/
def Alive (ex : Option Cid) (s : Sys) (self : Cid) : Prop :=
  self < s.n ∧ ((s.ctx self).state ≠ .killed ∨ ex = some self)

theorem alive_sameT {ex : Option Cid} {s s' : Sys} {self : Cid} (h : SameT s s') (ha : Alive ex s self) : Alive ex s' self :=
  ⟨by rw [h.1]; exact ha.1, by rw [tl_state (h.2.2.2 self)]; exact ha.2⟩

theorem tinv_actorOf (a b : Option Cid) (s : Sys) (parent : Cid) (name : String) (script strat hooks : Nat)
    (ds : List Nat) (hi : TablesInv a b s) :
    TablesInv a b (actorOf s parent name script strat hooks ds) ∧
    (∀ self, Alive a s self → Alive a (actorOf s parent name script strat hooks ds) self) ∧
    (∀ self, Alive b s self → Alive b (actorOf s parent name script strat hooks ds) self) := by
  unfold actorOf
  simp only
  split
  · exact ⟨tinv_sameT (sameT_say _ _) hi, fun _ h => alive_sameT (sameT_say _ _) h, fun _ h => alive_sameT (sameT_say _ _) h⟩
  · split
    · exact ⟨tinv_sameT (sameT_say _ _) hi, fun _ h => alive_sameT (sameT_say _ _) h, fun _ h => alive_sameT (sameT_say _ _) h⟩
    · split
      · exact ⟨tinv_sameT (sameT_say _ _) hi, fun _ h => alive_sameT (sameT_say _ _) h, fun _ h => alive_sameT (sameT_say _ _) h⟩
      · let path := joinPath (s.ctx parent).path name
        let nc : Ctx := { blankCtx with path := path, name := name, parent := some parent, state := .running, script := script, behaviors := [script], strat := strat, decisions := ds, hooks := hooks }
        let s1 : Sys := { s with n := s.n + 1, ctx := fun x => if x = s.n then nc else s.ctx x, registry := (path, s.n) :: s.registry }
        have h1 : TablesInv a b s1 := by
          refine ⟨fun c hc => ?_, fun c p hp => ?_, fun e he => ?_, fun e he => ?_⟩
          · have hne : c ≠ s.n := by simp only [s1] at hc; omega
            simp only [s1, hne, if_false]; exact hi.1 c (by simp only [s1] at hc; omega)
          · by_cases hc : c = s.n
            · simp [s1, hc, nc, blankCtx] at hp
            · simp only [s1, hc, if_false] at hp ⊢; exact hi.2.1 c p hp
          · have := hi.2.2.1 e he
            have hne : e.2.2 ≠ s.n := Nat.ne_of_lt this.1
            simp only [s1, hne, if_false]
            exact ⟨Nat.lt_succ_of_lt this.1, this.2⟩
          · have := hi.2.2.2 e he
            have hne : e.2 ≠ s.n := Nat.ne_of_lt this.1
            simp only [s1, hne, if_false]
            exact ⟨Nat.lt_succ_of_lt this.1, this.2⟩
        have hal : ∀ (x : Option Cid) self, Alive x s self → Alive x s1 self := by
          intro x self ha
          have hne : self ≠ s.n := Nat.ne_of_lt ha.1
          refine ⟨Nat.lt_succ_of_lt ha.1, ?_⟩
          simp only [s1, hne, if_false]; exact ha.2
        have hT : SameT s1 (say (tell (upd s1 parent
            (fun x => { x with children := x.children.filter (fun k => (s.ctx k).path ≠ path) ++ [s.n] })) true (some parent) (.own s.n) .onLaunch)
            s!"spawned:{s.n}:{path}") :=
          st_say _ (st_tell _ _ _ _ (sameT_upd s1 parent _ (fun _ => rfl)))
        split
        · have hT2 := hT.trans (sameT_tell _ true (some parent) (.own s.n) (.onKill false))
          exact ⟨tinv_sameT hT2 h1, fun self h => alive_sameT hT2 (hal a self h), fun self h => alive_sameT hT2 (hal b self h)⟩
        · exact ⟨tinv_sameT hT h1, fun self h => alive_sameT hT (hal a self h), fun self h => alive_sameT hT (hal b self h)⟩

end Vivid.ActorSys

namespace Vivid.ActorSys

theorem alive_clause {ex : Option Cid} {s : Sys} {self : Cid} (ha : Alive ex s self) :
    some self ≠ ex → (s.ctx self).state = .killed → (s.ctx self).zombie = true := by
  intro hne hk
  rcases ha.2 with h | h
  · exact absurd hk h
  · exact absurd h.symm hne

theorem tinv_sub (a b : Option Cid) (s : Sys) (self : Cid) (ty : Nat) (hi : TablesInv a b s) (ha : Alive a s self) :
    TablesInv a b { s with subs := esSub s.subs ty (s.ctx self).path self } := by
  refine ⟨hi.1, hi.2.1, fun e he => ?_, hi.2.2.2⟩
  simp only [esSub] at he
  split at he
  · exact hi.2.2.1 e he
  · rcases List.mem_append.1 he with he | he
    · exact hi.2.2.1 e he
    · have : e = (ty, (s.ctx self).path, self) := by simpa using he
      subst this
      exact ⟨ha.1, rfl, alive_clause ha⟩

theorem tinv_subs_filter (a b : Option Cid) (s : Sys) (p : Nat × Path × Cid → Bool) (hi : TablesInv a b s) :
    TablesInv a b { s with subs := s.subs.filter p } :=
  ⟨hi.1, hi.2.1, fun e he => hi.2.2.1 e (List.mem_filter.1 he).1, hi.2.2.2⟩

theorem tinv_schedule (a b : Option Cid) (s : Sys) (self : Cid) (ref : String) (hi : TablesInv a b s) (ha : Alive b s self) :
    TablesInv a b (schedule s self ref) := by
  unfold schedule
  simp only
  -- the state after the reference is recorded
  have h1 : TablesInv a b (upd s self (fun x => { x with jobs := (ref, jobKey (s.ctx self).path ref) :: x.jobs.filter (fun e => e.1 ≠ ref) })) := by
    refine ⟨fun c hc => ?_, fun c p hp => ?_, fun e he => ?_, fun e he => ?_⟩
    · have := hi.1 c hc
      by_cases h : c = self
      · subst h; simp only [upd_ctx_self]; exact this
      · rw [upd_ctx_other s self c _ h]; exact this
    · by_cases h : c = self
      · subst h
        simp only [upd_ctx_self, List.mem_cons] at hp ⊢
        rcases hp with rfl | hp
        · rfl
        · exact hi.2.1 c p (List.mem_filter.1 hp).1
      · rw [upd_ctx_other s self c _ h] at hp ⊢; exact hi.2.1 c p hp
    · have := hi.2.2.1 e he
      by_cases h : e.2.2 = self
      · rw [h] at this ⊢; simp only [upd_ctx_self, upd_n]; exact this
      · rw [upd_ctx_other s self e.2.2 _ h]; exact this
    · have := hi.2.2.2 e he
      by_cases h : e.2 = self
      · rw [h] at this ⊢
        simp only [upd_ctx_self, upd_n]
        refine ⟨this.1, ?_, this.2.2⟩
        obtain ⟨p, hp, hpe⟩ := this.2.1
        by_cases hr : p.1 = ref
        · refine ⟨(ref, jobKey (s.ctx self).path ref), List.mem_cons_self .., ?_⟩
          rw [← hpe, hi.2.1 self p hp, hr]
        · exact ⟨p, List.mem_cons_of_mem _ (List.mem_filter.2 ⟨hp, by simpa using hr⟩), hpe⟩
      · rw [upd_ctx_other s self e.2 _ h]; exact this
  split
  · exact h1
  · -- the job is queued under its key
    refine ⟨h1.1, h1.2.1, h1.2.2.1, fun e he => ?_⟩
    rcases List.mem_append.1 he with he | he
    · exact h1.2.2.2 e he
    · have : e = (jobKey (s.ctx self).path ref, self) := by simpa using he
      subst this
      simp only [upd_ctx_self, upd_n]
      exact ⟨ha.1, ⟨(ref, jobKey (s.ctx self).path ref), List.mem_cons_self .., rfl⟩, alive_clause ha⟩

/-- `Scheduler.Clear` for `self`: every queued job of `self` is gone afterwards, so `self` no
longer needs to be the exception. -/
theorem tinv_clearJobs (a b : Option Cid) (s : Sys) (self : Cid) (hi : TablesInv a b s) :
    TablesInv a (if b = some self then none else b) (clearJobs s self) := by
  unfold clearJobs
  simp only
  refine ⟨fun c hc => ?_, fun c p hp => ?_, fun e he => ?_, fun e he => ?_⟩
  · have := hi.1 c hc
    by_cases h : c = self
    · subst h; simp only [upd_ctx_self]; exact this
    · rw [upd_ctx_other _ self c _ h]; exact this
  · by_cases h : c = self
    · subst h; simp only [upd_ctx_self] at hp; cases hp
    · rw [upd_ctx_other _ self c _ h] at hp ⊢; exact hi.2.1 c p hp
  · have := hi.2.2.1 e he
    by_cases h : e.2.2 = self
    · rw [h] at this ⊢; simp only [upd_ctx_self, upd_n]; exact this
    · rw [upd_ctx_other _ self e.2.2 _ h]; exact this
  · have he : e ∈ s.jobTable.filter (fun e => !((s.ctx self).jobs.map (·.2)).contains e.1) := he
    have hm := (List.mem_filter.1 he).1
    have hf := (List.mem_filter.1 he).2
    have := hi.2.2.2 e hm
    have hne : e.2 ≠ self := by
      intro h
      obtain ⟨p, hp, hpe⟩ := this.2.1
      rw [h] at hp
      have hc : ((s.ctx self).jobs.map (·.2)).contains e.1 = true := by
        simp only [List.contains_iff_mem, List.mem_map]
        exact ⟨p, hp, hpe⟩
      rw [hc] at hf
      cases hf
    rw [upd_ctx_other _ self e.2 _ hne]
    refine ⟨this.1, this.2.1, fun hex => this.2.2 ?_⟩
    intro hb
    split at hex
    · rename_i hbs; rw [hbs] at hb; exact hne (Option.some.inj hb)
    · exact hex hb

end Vivid.ActorSys

namespace Vivid.ActorSys

theorem tinv_cancel (a b : Option Cid) (s : Sys) (self : Cid) (ref key : String)
    (hl : (s.ctx self).jobs.lookup ref = some key) (hi : TablesInv a b s) :
    TablesInv a b (upd { s with jobTable := s.jobTable.filter (fun e => e.1 ≠ key) } self
      (fun x => { x with jobs := x.jobs.filter (fun e => e.1 ≠ ref) })) := by
  have hmem : (ref, key) ∈ (s.ctx self).jobs := by
    have : ∀ (l : List (String × String)), l.lookup ref = some key → (ref, key) ∈ l := by
      intro l
      induction l with
      | nil => intro h; simp at h
      | cons e t ih =>
        obtain ⟨r, k⟩ := e
        intro h
        simp only [List.lookup] at h
        split at h
        · rename_i heq
          have : ref = r := by simpa using heq
          cases h; subst this; simp
        · exact List.mem_cons_of_mem _ (ih h)
    exact this _ hl
  have hkey : key = jobKey (s.ctx self).path ref := hi.2.1 self (ref, key) hmem
  refine ⟨fun c hc => ?_, fun c p hp => ?_, fun e he => ?_, fun e he => ?_⟩
  · have := hi.1 c hc
    by_cases h : c = self
    · subst h; simp only [upd_ctx_self]; exact this
    · rw [upd_ctx_other _ self c _ h]; exact this
  · by_cases h : c = self
    · subst h; simp only [upd_ctx_self] at hp ⊢; exact hi.2.1 c p (List.mem_filter.1 hp).1
    · rw [upd_ctx_other _ self c _ h] at hp ⊢; exact hi.2.1 c p hp
  · have := hi.2.2.1 e he
    by_cases h : e.2.2 = self
    · rw [h] at this ⊢; simp only [upd_ctx_self, upd_n]; exact this
    · rw [upd_ctx_other _ self e.2.2 _ h]; exact this
  · have he : e ∈ s.jobTable.filter (fun e => e.1 ≠ key) := he
    have hm := (List.mem_filter.1 he).1
    have hf : e.1 ≠ key := by simpa using (List.mem_filter.1 he).2
    have := hi.2.2.2 e hm
    by_cases h : e.2 = self
    · rw [h] at this ⊢
      simp only [upd_ctx_self, upd_n]
      refine ⟨this.1, ?_, this.2.2⟩
      obtain ⟨p, hp, hpe⟩ := this.2.1
      refine ⟨p, List.mem_filter.2 ⟨hp, ?_⟩, hpe⟩
      simp only [decide_eq_true_eq]
      intro hr
      apply hf
      rw [← hpe, hi.2.1 self p hp, hr, hkey]
    · rw [upd_ctx_other _ self e.2 _ h]; exact this

theorem tinv_runActions (a b : Option Cid) (self : Cid) (cur : Env) (acts : List Action) :
    ∀ s, TablesInv a b s → Alive a s self → Alive b s self →
      TablesInv a b (runActions s self cur acts).s ∧ Alive a (runActions s self cur acts).s self ∧
      Alive b (runActions s self cur acts).s self := by
  induction acts with
  | nil => intro s hi ha hb; exact ⟨hi, ha, hb⟩
  | cons act rest ih =>
    intro s hi ha hb
    -- a frame step
    have fr : ∀ s', SameT s s' → TablesInv a b (runActions s' self cur rest).s ∧
        Alive a (runActions s' self cur rest).s self ∧ Alive b (runActions s' self cur rest).s self :=
      fun s' h => ih s' (tinv_sameT h hi) (alive_sameT h ha) (alive_sameT h hb)
    cases act with
    | panic => exact ⟨hi, ha, hb⟩
    | tell t k => simp only [runActions]; exact fr _ (sameT_tell _ _ _ _ _)
    | spawn name script kind decisions hooks =>
      simp only [runActions]
      have := tinv_actorOf a b s self name script kind hooks decisions hi
      exact ih _ this.1 (this.2.1 self ha) (this.2.2 self hb)
    | kill t poison => simp only [runActions]; exact fr _ (sameT_tell _ _ _ _ _)
    | stash => simp only [runActions]; exact fr _ (sameT_upd s self _ (fun _ => rfl))
    | unstash n =>
      simp only [runActions]
      exact fr _ ((sameT_foldl_enqueue _ s self).trans (sameT_upd _ self _ (fun _ => rfl)))
    | watch t => simp only [runActions]; exact fr _ (sameT_tell _ _ _ _ _)
    | unwatch t => simp only [runActions]; exact fr _ (sameT_tell _ _ _ _ _)
    | become sc => simp only [runActions]; exact fr _ (sameT_upd s self _ (fun _ => rfl))
    | unbecome => simp only [runActions]; exact fr _ (sameT_upd s self _ (fun _ => rfl))
    | sub ty =>
      simp only [runActions]
      exact ih _ (tinv_sub a b s self ty hi ha) ⟨ha.1, ha.2⟩ ⟨hb.1, hb.2⟩
    | unsub ty =>
      simp only [runActions, esUnsub]
      exact ih _ (tinv_subs_filter a b s _ hi) ⟨ha.1, ha.2⟩ ⟨hb.1, hb.2⟩
    | unsubAll =>
      simp only [runActions, esUnsubAll]
      exact ih _ (tinv_subs_filter a b s _ hi) ⟨ha.1, ha.2⟩ ⟨hb.1, hb.2⟩
    | pub ty =>
      simp only [runActions]
      have h0 : SameT s { s with nextPub := s.nextPub + 1 } := sameT_rec _ rfl rfl rfl rfl
      exact fr _ (h0.trans (sameT_foldl_tell _ _ _ _ _))
    | sched kind ref k =>
      simp only [runActions]
      have hs := tinv_schedule a b s self ref hi hb
      have hst : ∀ x, Alive x s self → Alive x (schedule s self ref) self := by
        intro x hx
        unfold schedule
        simp only
        split
        · exact ⟨hx.1, by simp only [upd_ctx_self]; exact hx.2⟩
        · exact ⟨hx.1, by simp only [upd_ctx_self]; exact hx.2⟩
      exact ih _ hs (hst a ha) (hst b hb)
    | cancel ref =>
      simp only [runActions]
      split
      · exact fr _ (sameT_say _ _)
      · rename_i key hl
        have hc := tinv_cancel a b s self ref key hl hi
        have hal : ∀ x, Alive x s self → Alive x (say (upd { s with jobTable := s.jobTable.filter (fun e => e.1 ≠ key) } self
            (fun x => { x with jobs := x.jobs.filter (fun e => e.1 ≠ ref) })) (if s.jobTable.any (fun e => e.1 = key) then s!"cancel:{self}:{ref}:ok" else s!"cancel:{self}:{ref}:err")) self := by
          intro x hx
          exact ⟨hx.1, by simp only [say_ctx, upd_ctx_self]; exact hx.2⟩
        exact ih _ (tinv_sameT (sameT_say _ _) hc) (hal a ha) (hal b hb)
    | schedClear =>
      simp only [runActions]
      have hc := tinv_clearJobs a b s self hi
      have hw : TablesInv a b (clearJobs s self) := by
        refine ⟨hc.1, hc.2.1, hc.2.2.1, fun e he => ?_⟩
        have := hc.2.2.2 e he
        refine ⟨this.1, this.2.1, fun hne => this.2.2 ?_⟩
        split
        · simp
        · exact hne
      have hal : ∀ x, Alive x s self → Alive x (clearJobs s self) self := by
        intro x hx
        unfold clearJobs
        exact ⟨hx.1, by simp only [upd_ctx_self]; exact hx.2⟩
      exact ih _ hw (hal a ha) (hal b hb)
    | cron valid ref =>
      simp only [runActions]
      split
      · have hs := tinv_schedule a b s self ref hi hb
        have hst : ∀ x, Alive x s self → Alive x (schedule s self ref) self := by
          intro x hx
          unfold schedule
          simp only
          split
          · exact ⟨hx.1, by simp only [upd_ctx_self]; exact hx.2⟩
          · exact ⟨hx.1, by simp only [upd_ctx_self]; exact hx.2⟩
        exact ih _ hs (hst a ha) (hst b hb)
      · exact fr _ (sameT_say _ _)

end Vivid.ActorSys

namespace Vivid.ActorSys

theorem tinv_behave (a b : Option Cid) (s : Sys) (self : Cid) (beh : Nat) (cur : Env) (m : Msg)
    (hi : TablesInv a b s) (ha : Alive a s self) (hb : Alive b s self) :
    TablesInv a b (behave s self beh cur m).s ∧ Alive a (behave s self beh cur m).s self ∧
    Alive b (behave s self beh cur m).s self := by
  unfold behave
  simp only
  split
  · exact ⟨hi, ha, hb⟩
  · split
    · simp only
      unfold guardBehave
      split
      · split
        · have h : SameT s { s with guardClosed := true } := sameT_rec _ rfl rfl rfl rfl
          exact ⟨tinv_sameT h hi, alive_sameT h ha, alive_sameT h hb⟩
        · exact ⟨hi, ha, hb⟩
      · rename_i e isUser _
        have h : SameT s (say { s with deadLetters := if isUser then s.deadLetters ++ [e] else s.deadLetters }
            (if isUser then s!"dead-letter:{e}" else "dead-letter:sys")) :=
          (sameT_rec (s := s) _ rfl rfl rfl rfl).trans (sameT_say _ _)
        exact ⟨tinv_sameT h hi, alive_sameT h ha, alive_sameT h hb⟩
      · exact ⟨hi, ha, hb⟩
    · split
      · exact ⟨hi, ha, hb⟩
      · have h := sameT_say s s!"seen:{self}:{(s.ctx self).inc}:{(‹Nat› : Nat)}"
        exact tinv_runActions a b self cur _ _ (tinv_sameT (sameT_say _ _) hi) (alive_sameT (sameT_say _ _) ha)
          (alive_sameT (sameT_say _ _) hb)

theorem tinv_execRecover (a b : Option Cid) (s : Sys) (self : Cid) (beh : Nat) (cur : Env) (m : Msg)
    (hi : TablesInv a b s) (ha : Alive a s self) (hb : Alive b s self) :
    TablesInv a b (execRecover s self beh cur m) ∧ Alive a (execRecover s self beh cur m) self ∧
    Alive b (execRecover s self beh cur m) self := by
  unfold execRecover
  have h := tinv_behave a b s self beh cur m hi ha hb
  have hf : TablesInv a b (failed (behave s self beh cur m).s self) ∧ Alive a (failed (behave s self beh cur m).s self) self ∧
      Alive b (failed (behave s self beh cur m).s self) self :=
    ⟨tinv_sameT (sameT_failed _ _) h.1, alive_sameT (sameT_failed _ _) h.2.1, alive_sameT (sameT_failed _ _) h.2.2⟩
  simp only
  split
  · split
    · exact h
    · split
      · exact h
      · exact hf
    · exact hf
  · exact h

theorem tinv_execSwallow (a b : Option Cid) (s : Sys) (self : Cid) (beh : Nat) (cur : Env) (m : Msg)
    (hi : TablesInv a b s) (ha : Alive a s self) (hb : Alive b s self) :
    TablesInv a b (execSwallow s self beh cur m) ∧ Alive a (execSwallow s self beh cur m) self ∧
    Alive b (execSwallow s self beh cur m) self := tinv_behave a b s self beh cur m hi ha hb

/-- `cleanup` removes every subscription of `self`'s path: `self` stops being the exception for
subscriptions. -/
theorem tinv_cleanup (b : Option Cid) (s : Sys) (self : Cid) (hi : TablesInv (some self) b s) :
    TablesInv none b (cleanup s self) := by
  unfold cleanup
  simp only
  have hu : TablesInv none b (unregister { s with subs := esUnsubAll s.subs (s.ctx self).path } (s.ctx self).path) := by
    refine ⟨hi.1, hi.2.1, fun e he => ?_, hi.2.2.2⟩
    have he : e ∈ s.subs.filter (fun e => e.2.1 ≠ (s.ctx self).path) := he
    have hm := (List.mem_filter.1 he).1
    have hf : e.2.1 ≠ (s.ctx self).path := by simpa using (List.mem_filter.1 he).2
    have h3 := hi.2.2.1 e hm
    refine ⟨h3.1, h3.2.1, fun _ => h3.2.2 ?_⟩
    intro hc
    have hes : e.2.2 = self := Option.some.inj hc
    have hp := h3.2.1
    rw [hes] at hp
    exact hf hp.symm
  have h0 := sameT_tellAll (s.ctx self).watchers
    (unregister { s with subs := esUnsubAll s.subs (s.ctx self).path } (s.ctx self).path) true (some self) (.onKilled self)
  split
  · exact tinv_sameT (st_upd self (fun x => { x with paused := false }) (fun _ => rfl) (st_say _ (st_tell _ _ _ _ h0))) hu
  · exact tinv_sameT (st_upd self (fun x => { x with paused := false }) (fun _ => rfl) (st_say _ h0)) hu

end Vivid.ActorSys

namespace Vivid.ActorSys

def dropEx (x : Option Cid) (self : Cid) : Option Cid := if x = some self then none else x

theorem tinv_weaken {a b a' b' : Option Cid} {s : Sys} (hi : TablesInv a b s)
    (ha : ∀ c, some c ≠ a' → some c ≠ a) (hb : ∀ c, some c ≠ b' → some c ≠ b) : TablesInv a' b' s :=
  ⟨hi.1, hi.2.1, fun e he => ⟨(hi.2.2.1 e he).1, (hi.2.2.1 e he).2.1, fun h => (hi.2.2.1 e he).2.2 (ha _ h)⟩,
   fun e he => ⟨(hi.2.2.2 e he).1, (hi.2.2.2 e he).2.1, fun h => (hi.2.2.2 e he).2.2 (hb _ h)⟩⟩

/-- An update of `self` after which it is not terminated, or a zombie: no exception needed for it. -/
theorem tinv_settle (a b : Option Cid) (s : Sys) (self : Cid) (f : Ctx → Ctx) (hself : self < s.n)
    (hp : ∀ x, (f x).path = x.path ∧ (f x).jobs = x.jobs)
    (hok : (f (s.ctx self)).state ≠ .killed ∨ (f (s.ctx self)).zombie = true)
    (hi : TablesInv a b s) : TablesInv (dropEx a self) (dropEx b self) (upd s self f) := by
  have key : ∀ (x : Option Cid) (c : Cid), c < s.n →
      (some c ≠ x → (s.ctx c).state = .killed → (s.ctx c).zombie = true) →
      (some c ≠ dropEx x self → ((upd s self f).ctx c).state = .killed → ((upd s self f).ctx c).zombie = true) := by
    intro x c _ hold hne hk
    by_cases h : c = self
    · subst h
      rw [upd_ctx_self] at hk ⊢
      rcases hok with h1 | h1
      · exact absurd hk h1
      · exact h1
    · rw [upd_ctx_other s self c f h] at hk ⊢
      apply hold _ hk
      intro hx
      apply hne
      unfold dropEx
      split
      · rename_i hxs; rw [hxs] at hx; exact absurd (Option.some.inj hx) h
      · exact hx
  refine ⟨fun c hc => ?_, fun c p hpj => ?_, fun e he => ?_, fun e he => ?_⟩
  · have hne : c ≠ self := by intro h; rw [h] at hc; exact absurd hself (Nat.not_lt.2 hc)
    rw [upd_ctx_other s self c f hne]; exact hi.1 c hc
  · by_cases h : c = self
    · subst h; rw [upd_ctx_self] at hpj ⊢; rw [(hp _).1]; rw [(hp _).2] at hpj; exact hi.2.1 c p hpj
    · rw [upd_ctx_other s self c f h] at hpj ⊢; exact hi.2.1 c p hpj
  · have := hi.2.2.1 e he
    refine ⟨this.1, ?_, key a e.2.2 this.1 this.2.2⟩
    by_cases h : e.2.2 = self
    · rw [h, upd_ctx_self, (hp _).1]; rw [h] at this; exact this.2.1
    · rw [upd_ctx_other s self e.2.2 f h]; exact this.2.1
  · have := hi.2.2.2 e he
    refine ⟨this.1, ?_, key b e.2 this.1 this.2.2⟩
    by_cases h : e.2 = self
    · rw [h, upd_ctx_self, (hp _).2]; rw [h] at this; exact this.2.1
    · rw [upd_ctx_other s self e.2 f h]; exact this.2.1

theorem dropEx_none (self : Cid) : dropEx none self = none := rfl
theorem dropEx_self (self : Cid) : dropEx (some self) self = none := by simp [dropEx]

theorem tinv_handleRestart (s : Sys) (self : Cid) (hself : self < s.n)
    (hi : TablesInv (some self) none s) : TablesInv none none (handleRestart s self) := by
  unfold handleRestart
  simp only
  have h1 := tinv_sameT (sameT_upd s self (fun x => { x with behaviors := [x.script] }) (fun _ => rfl)) hi
  have hs1 : self < (upd s self (fun x => { x with behaviors := [x.script] })).n := hself
  split
  · have := tinv_settle (some self) none (upd s self (fun x => { x with behaviors := [x.script] })) self
      (fun x => { x with zombie := true, paused := false }) hs1 (fun _ => ⟨rfl, rfl⟩) (Or.inr rfl) h1
    rw [dropEx_self, dropEx_none] at this
    exact tinv_sameT (sameT_say _ _) this
  · have := tinv_settle (some self) none (upd s self (fun x => { x with behaviors := [x.script] })) self
      (fun x => { x with restarting := none, state := .running, inc := x.inc + 1 }) hs1
      (fun _ => ⟨rfl, rfl⟩) (Or.inl (by simp)) h1
    rw [dropEx_self, dropEx_none] at this
    split
    · -- repaired: the new incarnation's OnLaunch runs right here; `self` is running again
      have hT := st_say s!"restarted:{self}" (sameT_upd
        (upd (upd s self (fun x => { x with behaviors := [x.script] })) self
          (fun x => { x with restarting := none, state := .running, inc := x.inc + 1 }))
        self (fun x => { x with paused := false }) (fun _ => rfl))
      have hal : Alive none (say (upd (upd (upd s self (fun x => { x with behaviors := [x.script] })) self
          (fun x => { x with restarting := none, state := .running, inc := x.inc + 1 })) self (fun x => { x with paused := false }))
          s!"restarted:{self}") self := ⟨hself, Or.inl (by simp)⟩
      exact (tinv_execRecover none none _ self _ _ _ (tinv_sameT hT this) hal hal).1
    · exact tinv_sameT (st_say _ (st_upd self (fun x => { x with paused := false }) (fun _ => rfl) (sameT_tell _ _ _ _ _))) this

/-- Marking `self` terminated: it becomes the exception for both tables. -/
theorem tinv_markKilled (s : Sys) (self : Cid) (hself : self < s.n) (hi : TablesInv none none s) :
    TablesInv (some self) (some self) (upd s self (fun x => { x with state := .killed })) := by
  have key : ∀ (c : Cid), (some c ≠ none → (s.ctx c).state = .killed → (s.ctx c).zombie = true) →
      (some c ≠ some self → ((upd s self (fun x => { x with state := .killed })).ctx c).state = .killed →
        ((upd s self (fun x => { x with state := .killed })).ctx c).zombie = true) := by
    intro c hold hne hk
    have h : c ≠ self := fun h => hne (by rw [h])
    rw [upd_ctx_other s self c _ h] at hk ⊢
    exact hold (by simp) hk
  refine ⟨fun c hc => ?_, fun c p hpj => ?_, fun e he => ?_, fun e he => ?_⟩
  · have hne : c ≠ self := by intro h; rw [h] at hc; exact absurd hself (Nat.not_lt.2 hc)
    rw [upd_ctx_other s self c _ hne]; exact hi.1 c hc
  · by_cases h : c = self
    · subst h; rw [upd_ctx_self] at hpj ⊢; exact hi.2.1 c p hpj
    · rw [upd_ctx_other s self c _ h] at hpj ⊢; exact hi.2.1 c p hpj
  · have := hi.2.2.1 e he
    refine ⟨this.1, ?_, key e.2.2 this.2.2⟩
    by_cases h : e.2.2 = self
    · rw [h, upd_ctx_self]; rw [h] at this; exact this.2.1
    · rw [upd_ctx_other s self e.2.2 _ h]; exact this.2.1
  · have := hi.2.2.2 e he
    refine ⟨this.1, ?_, key e.2 this.2.2⟩
    by_cases h : e.2 = self
    · rw [h, upd_ctx_self]; rw [h] at this; exact this.2.1
    · rw [upd_ctx_other s self e.2 _ h]; exact this.2.1

end Vivid.ActorSys

namespace Vivid.ActorSys

theorem behave_zombie (s : Sys) (self : Cid) (beh : Nat) (cur : Env) (m : Msg) (hz : (s.ctx self).zombie = true) :
    behave s self beh cur m = { s := s, panicked := false } := by
  unfold behave; simp [hz]

theorem tinv_onKilled (s : Sys) (self : Cid) (beh : Nat) (cur : Env) (who : Cid) (hself : self < s.n)
    (hst : (s.ctx self).zombie = true ∨ (s.ctx self).state ≠ .killed)
    (hi : TablesInv none none s) : TablesInv none none (onKilled s self beh cur who) := by
  unfold onKilled
  simp only
  split
  · -- a zombie only releases what it holds
    have h1 := tinv_cleanup none s self (tinv_weaken hi (fun _ _ => by simp) (fun _ h => h))
    exact h1
  · rename_i hz
    have hnk : (s.ctx self).state ≠ .killed := by
      rcases hst with h | h
      · exact absurd h hz
      · exact h
    have hal : Alive none s self := ⟨hself, Or.inl hnk⟩
    -- handleChildDeath
    have h1 : TablesInv none none (if who ≠ self then
        execRecover (upd s self (fun x => { x with children := x.children.filter (· ≠ who) })) self beh cur (.onKilled who)
        else s) ∧ Alive none (if who ≠ self then
        execRecover (upd s self (fun x => { x with children := x.children.filter (· ≠ who) })) self beh cur (.onKilled who)
        else s) self := by
      split
      · have hT := sameT_upd s self (fun x => { x with children := x.children.filter (· ≠ who) }) (fun _ => rfl)
        have := tinv_execRecover none none _ self beh cur (.onKilled who) (tinv_sameT hT hi) (alive_sameT hT hal) (alive_sameT hT hal)
        exact ⟨this.1, this.2.1⟩
      · exact ⟨hi, hal⟩
    generalize (if who ≠ self then
        execRecover (upd s self (fun x => { x with children := x.children.filter (· ≠ who) })) self beh cur (.onKilled who)
        else s) = s1 at h1 ⊢
    obtain ⟨h1, hal1⟩ := h1
    split
    · exact h1
    · have h2 := tinv_markKilled s1 self hal1.1 h1
      have hex : Alive (some self) (upd s1 self (fun x => { x with state := .killed })) self := ⟨hal1.1, Or.inr rfl⟩
      cases hr : (s1.ctx self).restarting.isSome with
      | true =>
        simp only [if_true]
        have h3 := tinv_execSwallow (some self) (some self) _ self beh { cur with sys := true, msg := .onKilled self } (.onKilled self) h2 hex hex
        have h4 := tinv_clearJobs (some self) (some self) _ self h3.1
        simp only [if_true] at h4
        exact tinv_handleRestart _ self (by
          have : self < (execSwallow (upd s1 self (fun x => { x with state := .killed })) self beh { cur with sys := true, msg := .onKilled self } (.onKilled self)).n := h3.2.1.1
          unfold clearJobs; exact this) h4
      | false =>
        simp only [Bool.false_eq_true, if_false]
        have h3 := tinv_execRecover (some self) (some self) _ self beh { cur with sys := true, msg := .onKilled self } (.onKilled self) h2 hex hex
        have h4 := tinv_cleanup (some self) _ self h3.1
        have h5 := tinv_clearJobs none (some self) _ self h4
        simp only [if_true] at h5
        exact h5

theorem tinv_doKill (s : Sys) (self : Cid) (beh : Nat) (cur : Env) (poison : Bool) (hself : self < s.n)
    (hst : (s.ctx self).zombie = true ∨ (s.ctx self).state ≠ .killed)
    (hi : TablesInv none none s) : TablesInv none none (doKill s self beh cur poison) := by
  unfold doKill
  simp only
  have hT := sameT_foldl_tell (s.ctx self).children s (!poison) (some self) (.onKill poison)
  have h1 := tinv_sameT hT hi
  generalize (s.ctx self).children.foldl (fun acc ch => tell acc (!poison) (some self) (.own ch) (.onKill poison)) s = s1 at hT h1 ⊢
  have hself1 : self < s1.n := by rw [hT.1]; exact hself
  have hz1 : (s1.ctx self).zombie = (s.ctx self).zombie := tl_zombie (hT.2.2.2 self)
  have hs1 : (s1.ctx self).state = (s.ctx self).state := tl_state (hT.2.2.2 self)
  by_cases hz : (s.ctx self).zombie = true
  · -- a zombie runs no behaviour
    have hz' : (s1.ctx self).zombie = true := by rw [hz1]; exact hz
    have e1 : execSwallow s1 self beh { cur with msg := .onKill poison } (.onKill poison) = s1 := by
      unfold execSwallow; rw [behave_zombie _ _ _ _ _ hz']
    have e2 : execRecover s1 self beh { cur with msg := .onKill poison } (.onKill poison) = s1 := by
      unfold execRecover; rw [behave_zombie _ _ _ _ _ hz']; simp
    split
    · rw [e1]; exact tinv_onKilled s1 self beh _ self hself1 (Or.inl hz') h1
    · rw [e2]; exact tinv_onKilled s1 self beh _ self hself1 (Or.inl hz') h1
  · have hnk : (s1.ctx self).state ≠ .killed := by
      rw [hs1]
      rcases hst with h | h
      · exact absurd h hz
      · exact h
    have hal : Alive none s1 self := ⟨hself1, Or.inl hnk⟩
    split
    · have h2 := tinv_execSwallow none none s1 self beh { cur with msg := .onKill poison } (.onKill poison) h1 hal hal
      exact tinv_onKilled _ self beh _ self h2.2.1.1 (Or.inr (by
        rcases h2.2.1.2 with h | h
        · exact h
        · cases h)) h2.1
    · have h2 := tinv_execRecover none none s1 self beh { cur with msg := .onKill poison } (.onKill poison) h1 hal hal
      exact tinv_onKilled _ self beh _ self h2.2.1.1 (Or.inr (by
        rcases h2.2.1.2 with h | h
        · exact h
        · cases h)) h2.1

end Vivid.ActorSys

namespace Vivid.ActorSys

theorem tinv_handle (s : Sys) (self : Cid) (e : Env) (hi : TablesInv none none s) : TablesInv none none (handle s self e) := by
  unfold handle
  simp only
  split
  · split
    · exact hi
    · exact tinv_sameT ((sameT_upd s self (fun x => if x.state = .killing then { x with restarting := none } else x) (fun _ => by split <;> rfl)).trans (sameT_deadLetter _ _)) hi
    · exact tinv_sameT (sameT_deadLetter _ _) hi
  · rename_i hcond
    -- the handler runs: `self` exists, and is a zombie or not terminated
    have hst : (s.ctx self).zombie = true ∨ (s.ctx self).state ≠ .killed := by
      by_cases hz : (s.ctx self).zombie = true
      · exact Or.inl hz
      · right
        intro hk
        apply hcond
        exact ⟨Or.inl hk, by simp [hz]⟩
    have hself : self < s.n := by
      by_cases h : self < s.n
      · exact h
      · exfalso
        have := hi.1 self (Nat.le_of_not_lt h)
        rcases hst with h1 | h1
        · rw [this.2] at h1; cases h1
        · exact h1 this.1
    have halive : (s.ctx self).zombie = false → Alive none s self := fun hz =>
      ⟨hself, Or.inl (by
        rcases hst with h | h
        · rw [hz] at h; cases h
        · exact h)⟩
    have exec : ∀ m, TablesInv none none (execRecover s self ((s.ctx self).behaviors.headD (s.ctx self).script) e m) := by
      intro m
      by_cases hz : (s.ctx self).zombie = true
      · unfold execRecover; rw [behave_zombie _ _ _ _ _ hz]; simpa using hi
      · have hz' : (s.ctx self).zombie = false := by simpa using hz
        exact (tinv_execRecover none none s self _ e m hi (halive hz') (halive hz')).1
    split
    · exact exec _
    · split
      · exact tinv_doKill _ _ _ _ _ hself hst hi
      · split
        · rename_i hz hrun
          have hT : TablesInv none none (upd s self (fun x => { x with state := .killing })) := by
            have := tinv_settle none none s self (fun x => { x with state := .killing }) hself (fun _ => ⟨rfl, rfl⟩)
              (Or.inl (by simp)) hi
            simpa [dropEx_none] using this
          exact tinv_doKill _ self _ _ _ hself (Or.inr (by simp)) hT
        · exact tinv_sameT (sameT_upd s self _ (fun _ => rfl)) hi
    · exact tinv_onKilled _ _ _ _ _ hself hst hi
    · exact tinv_sameT (sameT_onSupervise _ _ _) hi
    · exact tinv_sameT (sameT_upd s self _ (fun _ => rfl)) hi
    · exact tinv_sameT (sameT_upd s self _ (fun _ => rfl)) hi
    · rename_i poison _
      split
      · have hT : TablesInv none none (upd s self (fun x => { x with state := .killing, restarting := some poison })) := by
          have := tinv_settle none none s self (fun x => { x with state := .killing, restarting := some poison }) hself
            (fun _ => ⟨rfl, rfl⟩) (Or.inl (by simp)) hi
          simpa [dropEx_none] using this
        exact tinv_doKill _ self _ _ _ hself (Or.inr (by simp)) hT
      · exact tinv_sameT (sameT_upd s self _ (fun _ => rfl)) hi
    · repeat' split
      all_goals first
        | exact hi
        | (refine tinv_sameT ?_ hi; apply sameT_upd; intro _; rfl)
    · repeat' split
      all_goals first
        | exact hi
        | (refine tinv_sameT ?_ hi; apply sameT_upd; intro _; rfl)
    · exact exec _
    · exact exec _
    · exact exec _

theorem tinv_deliver (s s' : Sys) (c : Cid) (h : deliver s c = some s') (hi : TablesInv none none s) :
    TablesInv none none s' := by
  unfold deliver at h
  simp only at h
  split at h
  · cases h
    exact tinv_handle _ _ _ (tinv_sameT (sameT_upd s c _ (fun _ => rfl)) hi)
  · split at h
    · cases h
    · split at h
      · cases h
        exact tinv_handle _ _ _ (tinv_sameT (sameT_upd s c _ (fun _ => rfl)) hi)
      · cases h

theorem tinv_init (f : Bool) : TablesInv none none (init f) := by
  refine ⟨fun c hc => ?_, fun c p hp => ?_, fun e he => ?_, fun e he => ?_⟩
  · have : c ≠ 0 := by simp only [init] at hc; omega
    simp [init, this, blankCtx]
  · by_cases hc : c = 0 <;> simp [init, hc, rootCtx, blankCtx] at hp
  · simp [init] at he
  · simp [init] at he

end Vivid.ActorSys
