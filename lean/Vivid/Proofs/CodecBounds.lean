import Vivid.Model.Codec

/-! The decoder only consumes a prefix, and a successful decode of a schema whose pre-sized
containers are all capped allocates in proportion to what it consumed. -/
namespace Vivid.Codec

/-- Largest cap of a pre-sizing (`prealloc`) list in the schema. -/
def maxCap : Ty → Nat
  | .pair a b => max (maxCap a) (maxCap b)
  | .list (some c) true a => max c (maxCap a)
  | .list _ _ a => maxCap a
  | .opt32 a | .opt8 a | .chk _ a => maxCap a
  | _ => 0

/-- Every pre-sizing list has a cap. -/
def capped : Ty → Bool
  | .pair a b => capped a && capped b
  | .list none true _ => false
  | .list _ _ a => capped a
  | .opt32 a | .opt8 a | .chk _ a => capped a
  | _ => true

theorem take_len (k : Nat) (bs h r : Bytes) (e : take k bs = .ok (h, r)) : r.length + k = bs.length := by
  unfold take at e
  split at e
  · cases e; simp; omega
  · cases e

theorem decNat_len (k : Nat) (bs r : Bytes) (x : Nat) (e : decNat k bs = .ok (x, r)) : r.length + k = bs.length := by
  unfold decNat at e
  split at e
  · rename_i h r' ht; cases e; exact take_len k bs h r ht
  · cases e

/-- The joint statement: remaining input is a suffix in length, and 4·alloc ≤ maxCap·consumed. -/
def Good (m : Nat) (bs : Bytes) (al : Nat) (r : Bytes) : Prop :=
  r.length ≤ bs.length ∧ 4 * al ≤ m * (bs.length - r.length)

theorem good_mono {m m' : Nat} (h : m ≤ m') {bs al r} (g : Good m bs al r) : Good m' bs al r := by
  refine ⟨g.1, Nat.le_trans g.2 (Nat.mul_le_mul_right _ h)⟩

theorem decN_good (m : Nat) (f : Bytes → Res ((V × Nat) × Bytes))
    (hf : ∀ bs v al r, f bs = .ok ((v, al), r) → Good m bs al r) :
    ∀ (n : Nat) (bs : Bytes) v al r, decN f n bs = .ok ((v, al), r) → Good m bs al r := by
  intro n
  induction n with
  | zero => intro bs v al r e; simp only [decN] at e; cases e; exact ⟨Nat.le_refl _, by simp⟩
  | succ n ih =>
    intro bs v al r e
    simp only [decN] at e
    split at e
    · cases e
    · rename_i h a1 r1 h1
      split at e
      · cases e
      · rename_i t a2 r2 h2
        cases e
        have g1 := hf _ _ _ _ h1
        have g2 := ih _ _ _ _ h2
        refine ⟨Nat.le_trans g2.1 g1.1, ?_⟩
        have : bs.length - r.length = (bs.length - r1.length) + (r1.length - r.length) := by
          have := g1.1; have := g2.1; omega
        rw [this, Nat.mul_add, Nat.mul_add]
        exact Nat.add_le_add g1.2 g2.2

theorem decA_good (t : Ty) (hc : capped t = true) : ∀ bs v al r, decA t bs = .ok ((v, al), r) →
    Good (maxCap t) bs al r := by
  induction t with
  | unit => intro bs v al r e; simp only [decA] at e; cases e; exact ⟨Nat.le_refl _, by simp⟩
  | u8 | u16 | u32 | u64 | i32 | i64 | bool =>
    intro bs v al r e
    simp only [decA] at e
    split at e
    · rename_i x r' hd; cases e
      have := decNat_len _ _ _ _ hd
      exact ⟨by omega, by simp⟩
    · cases e
  | bytes =>
    intro bs v al r e
    simp only [decA] at e
    split at e
    · cases e
    · rename_i len r1 hd
      split at e
      · rename_i d r2 ht; cases e
        have := decNat_len _ _ _ _ hd
        have := take_len _ _ _ _ ht
        exact ⟨by omega, by simp⟩
      · cases e
  | pair a b iha ihb =>
    intro bs v al r e
    simp only [capped, Bool.and_eq_true] at hc
    simp only [decA] at e
    split at e
    · cases e
    · rename_i x a1 r1 h1
      split at e
      · cases e
      · rename_i y a2 r2 h2
        cases e
        have g1 := good_mono (Nat.le_max_left (maxCap a) (maxCap b)) (iha hc.1 _ _ _ _ h1)
        have g2 := good_mono (Nat.le_max_right (maxCap a) (maxCap b)) (ihb hc.2 _ _ _ _ h2)
        simp only [maxCap]
        refine ⟨Nat.le_trans g2.1 g1.1, ?_⟩
        have : bs.length - r.length = (bs.length - r1.length) + (r1.length - r.length) := by
          have := g1.1; have := g2.1; omega
        rw [this, Nat.mul_add, Nat.mul_add]
        exact Nat.add_le_add g1.2 g2.2
  | list cap pre a iha =>
    intro bs v al r e
    simp only [decA] at e
    split at e
    · cases e
    · rename_i cnt r1 hd
      have hl := decNat_len _ _ _ _ hd
      split at e
      · rename_i hcap
        split at e
        · cases e
        · rename_i v' al' r' hn
          cases e
          have hca : capped a = true := by
            cases cap <;> cases pre <;> simp_all [capped]
          have gn := decN_good (maxCap a) (decA a) (iha hca) cnt r1 _ _ _ hn
          -- case analysis on the cap / prealloc flag
          cases pre with
          | false =>
            have hm : maxCap (.list cap false a) = maxCap a := by cases cap <;> rfl
            rw [hm]
            simp only [Bool.false_eq_true, if_false, Nat.add_zero]
            refine ⟨by have := gn.1; omega, Nat.le_trans gn.2 (Nat.mul_le_mul_left _ (by have := gn.1; omega))⟩
          | true =>
            cases cap with
            | none => simp [capped] at hc
            | some c =>
              simp only [capOk, decide_eq_true_eq] at hcap
              simp only [maxCap, if_true]
              have g' := good_mono (Nat.le_max_right c (maxCap a)) gn
              refine ⟨by have := gn.1; omega, ?_⟩
              have h1 : 4 * cnt ≤ max c (maxCap a) * 4 := by
                have : cnt ≤ max c (maxCap a) := Nat.le_trans hcap (Nat.le_max_left _ _)
                omega
              have : bs.length - r.length = 4 + (r1.length - r.length) := by have := gn.1; omega
              rw [this, Nat.mul_add, Nat.mul_add]
              have := g'.2
              omega
      · cases e
  | opt32 a iha =>
    intro bs v al r e
    simp only [decA] at e
    split at e
    · cases e
    · rename_i p r1 hd
      have hl := decNat_len _ _ _ _ hd
      split at e
      · cases e; exact ⟨by omega, by simp⟩
      · split at e
        · cases e
        · rename_i v' al' r' h1
          cases e
          have g := iha (by simpa [capped] using hc) _ _ _ _ h1
          simp only [maxCap]
          exact ⟨by have := g.1; omega, Nat.le_trans g.2 (Nat.mul_le_mul_left _ (by have := g.1; omega))⟩
  | opt8 a iha =>
    intro bs v al r e
    simp only [decA] at e
    split at e
    · cases e
    · rename_i p r1 hd
      have hl := decNat_len _ _ _ _ hd
      split at e
      · cases e; exact ⟨by omega, by simp⟩
      · split at e
        · cases e
        · rename_i v' al' r' h1
          cases e
          have g := iha (by simpa [capped] using hc) _ _ _ _ h1
          simp only [maxCap]
          exact ⟨by have := g.1; omega, Nat.le_trans g.2 (Nat.mul_le_mul_left _ (by have := g.1; omega))⟩
  | chk c a iha =>
    intro bs v al r e
    simp only [decA] at e
    split at e
    · cases e
    · rename_i v' al' r' h1
      split at e
      · cases e
        simp only [maxCap]
        exact iha (by simpa [capped] using hc) _ _ _ _ h1
      · cases e

end Vivid.Codec
