import Vivid.Model.Mailbox

/-! The inductive invariant of the mailbox transition system and its preservation. -/
namespace Vivid.Mailbox

def allPcs : List Pc := [.eU0, .eU1, .eS0, .eS1, .eC, .eGo, .pz0, .r0, .r1, .rGo, .cStart, .cDecS, .cHndS, .cLoadP, .cPopU, .cDecU, .cHndU, .cStore, .cLoadN, .cLoadSyT, .cLoadSyF, .cLoadPz, .cReCas, .H, .hU1, .hS1, .hC, .hSpawn, .hR1, .hRSpawn]

theorem allPcs_nodup : allPcs.Nodup := by decide
theorem mem_allPcs (p : Pc) : p ∈ allPcs := by cases p <;> decide

/-- Weighted number of threads: `Σ_p w p * c p`. Keeps big sums as a single atom for `omega`. -/
def wsum (w : Pc → Nat) (c : Pc → Nat) : List Pc → Nat
  | [] => 0
  | q :: t => w q * c q + wsum w c t

theorem wsum_inc_notin (w c p) (l : List Pc) (h : p ∉ l) : wsum w (inc c p) l = wsum w c l := by
  induction l with
  | nil => rfl
  | cons q t ih =>
    simp only [List.mem_cons, not_or] at h
    simp only [wsum, inc, ih h.2]
    have : q ≠ p := fun e => h.1 e.symm
    simp [this]

theorem wsum_inc (w c p) (l : List Pc) (hn : l.Nodup) (h : p ∈ l) : wsum w (inc c p) l = wsum w c l + w p := by
  induction l with
  | nil => cases h
  | cons q t ih =>
    simp only [List.nodup_cons] at hn
    by_cases hq : q = p
    · subst hq
      simp only [wsum, wsum_inc_notin w c q t hn.1, inc, if_true, Nat.mul_add, Nat.mul_one]
      omega
    · have hp : p ∈ t := by
        rcases List.mem_cons.mp h with h | h
        · exact absurd h.symm hq
        · exact h
      simp only [wsum, ih hn.2 hp, inc, hq, if_false]
      omega

theorem wsum_dec_notin (w c p) (l : List Pc) (h : p ∉ l) : wsum w (dec c p) l = wsum w c l := by
  induction l with
  | nil => rfl
  | cons q t ih =>
    simp only [List.mem_cons, not_or] at h
    simp only [wsum, dec, ih h.2]
    have : q ≠ p := fun e => h.1 e.symm
    simp [this]

theorem wsum_dec (w c p) (l : List Pc) (hn : l.Nodup) (h : p ∈ l) (hpos : 0 < c p) :
    wsum w (dec c p) l + w p = wsum w c l := by
  induction l with
  | nil => cases h
  | cons q t ih =>
    simp only [List.nodup_cons] at hn
    by_cases hq : q = p
    · subst hq
      simp only [wsum, wsum_dec_notin w c q t hn.1, dec, if_true]
      have hc : c q = (c q - 1) + 1 := by omega
      generalize c q - 1 = k at *
      rw [hc, Nat.mul_add, Nat.mul_one]; omega
    · have hp : p ∈ t := by
        rcases List.mem_cons.mp h with h | h
        · exact absurd h.symm hq
        · exact h
      simp only [wsum, dec, hq, if_false]
      have := ih hn.2 hp
      omega

theorem le_wsum (w c p) (l : List Pc) (h : p ∈ l) : w p * c p ≤ wsum w c l := by
  induction l with
  | nil => cases h
  | cons q t ih =>
    rcases List.mem_cons.mp h with h | h
    · subst h; simp only [wsum]; omega
    · have := ih h; simp only [wsum]; omega

/-- 1 on the program points that hold the processing token. -/
def wH : Pc → Nat
  | .eGo => 1
  | .rGo => 1
  | .hSpawn => 1
  | .hRSpawn => 1
  | .cStart => 1
  | .cDecS => 1
  | .cHndS => 1
  | .cLoadP => 1
  | .cPopU => 1
  | .cDecU => 1
  | .cHndU => 1
  | .cStore => 1
  | .H => 1
  | .hU1 => 1
  | .hS1 => 1
  | .hC => 1
  | .hR1 => 1
  | _ => 0

/-- Token holders as one number. -/
def hsum (c : Pc → Nat) : Nat := wsum wH c allPcs

theorem holders_eq (s : St) : holders s = hsum s.c := by
  simp only [holders, hsum, wsum, allPcs, wH, Nat.one_mul, Nat.zero_mul, Nat.zero_add, Nat.add_zero]
  omega

theorem hsum_inc (c p) : hsum (inc c p) = hsum c + wH p := wsum_inc wH c p allPcs allPcs_nodup (mem_allPcs p)
theorem hsum_dec (c p) (h : 0 < c p) : hsum (dec c p) + wH p = hsum c :=
  wsum_dec wH c p allPcs allPcs_nodup (mem_allPcs p) h
theorem hsum_mv (c p q) (h : 0 < c p) : hsum (mv c p q) + wH p = hsum c + wH q := by
  unfold mv; rw [hsum_inc]; have := hsum_dec c p h; omega
theorem hsum_dec_eq (c p) (h : 0 < c p) : hsum (dec c p) = hsum c - wH p := by
  have := hsum_dec c p h; omega
theorem le_hsum (c p) : wH p * c p ≤ hsum c := le_wsum wH c p allPcs (mem_allPcs p)

structure Inv (s : St) : Prop where
  token : hsum s.c = if s.proc then 1 else 0
  cntU : s.num = (s.uq : Int) + s.c .cDecU - s.c .eU1 - s.c .hU1
  cntS : s.sys = (s.sq : Int) + s.c .cDecS - s.c .eS1 - s.c .hS1
  consU : s.accU = s.hndU + s.uq + s.c .cDecU + s.c .cHndU
  consS : s.accS = s.hndS + s.sq + s.c .cDecS + s.c .cHndS
  nest : s.c .hSpawn = 0 ∧ s.c .hRSpawn = 0
  armedS : s.proc = false → 0 < s.sq →
    (0 < s.c .eS1 + s.c .eC + s.c .r1 + s.c .cReCas ∨
      (0 < s.sys ∧ 0 < s.c .cLoadN + s.c .cLoadSyT + s.c .cLoadSyF))
  armedU : s.proc = false → 0 < s.uq → s.paused = false →
    (0 < s.c .eU1 + s.c .eC + s.c .r1 + s.c .cReCas + s.c .cLoadSyT + s.c .cLoadPz ∨
      (0 < s.num ∧ 0 < s.c .cLoadN))

theorem inv_init : Inv init := by
  constructor <;> simp [init, hsum, wsum, allPcs]

/-- The facts `c p ≤ hsum c` for every token-holding program point (each is `le_hsum`). -/
structure HolderBounds (c : Pc → Nat) : Prop where
  b_eGo : c .eGo ≤ hsum c
  b_rGo : c .rGo ≤ hsum c
  b_hSpawn : c .hSpawn ≤ hsum c
  b_hRSpawn : c .hRSpawn ≤ hsum c
  b_cStart : c .cStart ≤ hsum c
  b_cDecS : c .cDecS ≤ hsum c
  b_cHndS : c .cHndS ≤ hsum c
  b_cLoadP : c .cLoadP ≤ hsum c
  b_cPopU : c .cPopU ≤ hsum c
  b_cDecU : c .cDecU ≤ hsum c
  b_cHndU : c .cHndU ≤ hsum c
  b_cStore : c .cStore ≤ hsum c
  b_H : c .H ≤ hsum c
  b_hU1 : c .hU1 ≤ hsum c
  b_hS1 : c .hS1 ≤ hsum c
  b_hC : c .hC ≤ hsum c
  b_hR1 : c .hR1 ≤ hsum c

theorem holderBounds (c : Pc → Nat) : HolderBounds c :=
  ⟨by have := le_hsum c .eGo; simpa [wH] using this, by have := le_hsum c .rGo; simpa [wH] using this, by have := le_hsum c .hSpawn; simpa [wH] using this, by have := le_hsum c .hRSpawn; simpa [wH] using this, by have := le_hsum c .cStart; simpa [wH] using this, by have := le_hsum c .cDecS; simpa [wH] using this, by have := le_hsum c .cHndS; simpa [wH] using this, by have := le_hsum c .cLoadP; simpa [wH] using this, by have := le_hsum c .cPopU; simpa [wH] using this, by have := le_hsum c .cDecU; simpa [wH] using this, by have := le_hsum c .cHndU; simpa [wH] using this, by have := le_hsum c .cStore; simpa [wH] using this, by have := le_hsum c .H; simpa [wH] using this, by have := le_hsum c .hU1; simpa [wH] using this, by have := le_hsum c .hS1; simpa [wH] using this, by have := le_hsum c .hC; simpa [wH] using this, by have := le_hsum c .hR1; simpa [wH] using this⟩

attribute [irreducible] hsum

/- One label's preservation proof: split on the guard, split on `proc`/`paused`, express the
new token count through `hsum_inc`/`hsum_dec_eq`, unfold the counter updates, and close every
conjunct by linear arithmetic.  `hb`/`hb2` bound every token-holding program point by the
token count before / after the step. -/
set_option hygiene false in
macro "mb_close" : tactic => `(tactic| (
    obtain ⟨ht, hcu, hcs, hku, hks, ⟨hn1, hn2⟩, has, hau⟩ := h
    have hb := holderBounds s.c
    obtain ⟨b_eGo, b_rGo, b_hSpawn, b_hRSpawn, b_cStart, b_cDecS, b_cHndS, b_cLoadP, b_cPopU, b_cDecU, b_cHndU, b_cStore, b_H, b_hU1, b_hS1, b_hC, b_hR1⟩ := hb
    obtain ⟨b2_eGo, b2_rGo, b2_hSpawn, b2_hRSpawn, b2_cStart, b2_cDecS, b2_cHndS, b2_cLoadP, b2_cPopU, b2_cDecU, b2_cHndU, b2_cStore, b2_H, b2_hU1, b2_hS1, b2_hC, b2_hR1⟩ := hb2
    (try simp only [hsum_inc, hsum_dec_eq, wH, mv, inc, dec, hg, reduceCtorEq, ↓reduceIte] at b2_eGo b2_rGo b2_hSpawn b2_hRSpawn b2_cStart b2_cDecS b2_cHndS b2_cLoadP b2_cPopU b2_cDecU b2_cHndU b2_cStore b2_H b2_hU1 b2_hS1 b2_hC b2_hR1)
    cases hp : s.proc <;> cases hz : s.paused <;>
    simp only [hp, hz, reduceCtorEq, ↓reduceIte, Bool.false_eq_true, Bool.true_eq_false, and_true, true_and, and_false, false_and, forall_const, false_implies, implies_true, if_true, if_false] at * <;>
    first
    | omega
    | (refine ⟨?_, ?_, ?_, ?_, ?_, ?_, ?_, ?_⟩ <;>
        (try simp only [hsum_inc, hsum_dec_eq, wH, mv, inc, dec, hg, hp, hz, reduceCtorEq, ↓reduceIte, Bool.false_eq_true, Bool.true_eq_false, and_true, true_and, and_false, false_and, forall_const, false_implies, implies_true, if_true, if_false]) <;>
        (first | omega | (constructor <;> omega) | (intros; omega) | skip))))

set_option hygiene false in
macro "mb_step" : tactic => `(tactic| (
  simp only [fire] at hf
  split at hf
  · rename_i hg
    have hb2 := holderBounds s'.c
    cases hf
    mb_close
  · cases hf))

set_option hygiene false in
macro "mb_step0" : tactic => `(tactic| (
  simp only [fire] at hf
  have hg : True := trivial
  have hb2 := holderBounds s'.c
  cases hf
  mb_close))

theorem inv_step_newEnqU (fixed : Bool) (s s' : St) (h : Inv s) (hf : fire fixed .newEnqU s = some s') : Inv s' := by
  mb_step0

theorem inv_step_newEnqS (fixed : Bool) (s s' : St) (h : Inv s) (hf : fire fixed .newEnqS s = some s') : Inv s' := by
  mb_step0

theorem inv_step_newPause (fixed : Bool) (s s' : St) (h : Inv s) (hf : fire fixed .newPause s = some s') : Inv s' := by
  mb_step0

theorem inv_step_newResume (fixed : Bool) (s s' : St) (h : Inv s) (hf : fire fixed .newResume s = some s') : Inv s' := by
  mb_step0

theorem inv_step_uPush (fixed : Bool) (s s' : St) (h : Inv s) (hf : fire fixed .uPush s = some s') : Inv s' := by
  mb_step

theorem inv_step_uInc (fixed : Bool) (s s' : St) (h : Inv s) (hf : fire fixed .uInc s = some s') : Inv s' := by
  mb_step

theorem inv_step_sPush (fixed : Bool) (s s' : St) (h : Inv s) (hf : fire fixed .sPush s = some s') : Inv s' := by
  mb_step

theorem inv_step_sInc (fixed : Bool) (s s' : St) (h : Inv s) (hf : fire fixed .sInc s = some s') : Inv s' := by
  mb_step

theorem inv_step_pCasWin (fixed : Bool) (s s' : St) (h : Inv s) (hf : fire fixed .pCasWin s = some s') : Inv s' := by
  mb_step

theorem inv_step_pCasLose (fixed : Bool) (s s' : St) (h : Inv s) (hf : fire fixed .pCasLose s = some s') : Inv s' := by
  mb_step

theorem inv_step_pGo (fixed : Bool) (s s' : St) (h : Inv s) (hf : fire fixed .pGo s = some s') : Inv s' := by
  mb_step

theorem inv_step_pause (fixed : Bool) (s s' : St) (h : Inv s) (hf : fire fixed .pause s = some s') : Inv s' := by
  mb_step

theorem inv_step_rCasPWin (fixed : Bool) (s s' : St) (h : Inv s) (hf : fire fixed .rCasPWin s = some s') : Inv s' := by
  mb_step

theorem inv_step_rCasPLose (fixed : Bool) (s s' : St) (h : Inv s) (hf : fire fixed .rCasPLose s = some s') : Inv s' := by
  mb_step

theorem inv_step_rCasSWin (fixed : Bool) (s s' : St) (h : Inv s) (hf : fire fixed .rCasSWin s = some s') : Inv s' := by
  mb_step

theorem inv_step_rCasSLose (fixed : Bool) (s s' : St) (h : Inv s) (hf : fire fixed .rCasSLose s = some s') : Inv s' := by
  mb_step

theorem inv_step_rGo (fixed : Bool) (s s' : St) (h : Inv s) (hf : fire fixed .rGo s = some s') : Inv s' := by
  mb_step

theorem inv_step_popSSome (fixed : Bool) (s s' : St) (h : Inv s) (hf : fire fixed .popSSome s = some s') : Inv s' := by
  mb_step

theorem inv_step_popSNone (fixed : Bool) (s s' : St) (h : Inv s) (hf : fire fixed .popSNone s = some s') : Inv s' := by
  mb_step

theorem inv_step_decS (fixed : Bool) (s s' : St) (h : Inv s) (hf : fire fixed .decS s = some s') : Inv s' := by
  mb_step

theorem inv_step_hndS (fixed : Bool) (s s' : St) (h : Inv s) (hf : fire fixed .hndS s = some s') : Inv s' := by
  mb_step

theorem inv_step_loadPPaused (fixed : Bool) (s s' : St) (h : Inv s) (hf : fire fixed .loadPPaused s = some s') : Inv s' := by
  mb_step

theorem inv_step_loadPRun (fixed : Bool) (s s' : St) (h : Inv s) (hf : fire fixed .loadPRun s = some s') : Inv s' := by
  mb_step

theorem inv_step_popUSome (fixed : Bool) (s s' : St) (h : Inv s) (hf : fire fixed .popUSome s = some s') : Inv s' := by
  mb_step

theorem inv_step_popUNone (fixed : Bool) (s s' : St) (h : Inv s) (hf : fire fixed .popUNone s = some s') : Inv s' := by
  mb_step

theorem inv_step_decU (fixed : Bool) (s s' : St) (h : Inv s) (hf : fire fixed .decU s = some s') : Inv s' := by
  mb_step

theorem inv_step_hndU (fixed : Bool) (s s' : St) (h : Inv s) (hf : fire fixed .hndU s = some s') : Inv s' := by
  mb_step

theorem inv_step_hEnd (fixed : Bool) (s s' : St) (h : Inv s) (hf : fire fixed .hEnd s = some s') : Inv s' := by
  mb_step

theorem inv_step_store (fixed : Bool) (s s' : St) (h : Inv s) (hf : fire fixed .store s = some s') : Inv s' := by
  mb_step

theorem inv_step_loadNPos (fixed : Bool) (s s' : St) (h : Inv s) (hf : fire fixed .loadNPos s = some s') : Inv s' := by
  mb_step

theorem inv_step_loadNNon (fixed : Bool) (s s' : St) (h : Inv s) (hf : fire fixed .loadNNon s = some s') : Inv s' := by
  mb_step

theorem inv_step_loadSyTPos (fixed : Bool) (s s' : St) (h : Inv s) (hf : fire fixed .loadSyTPos s = some s') : Inv s' := by
  mb_step

theorem inv_step_loadSyTNon (fixed : Bool) (s s' : St) (h : Inv s) (hf : fire fixed .loadSyTNon s = some s') : Inv s' := by
  cases fixed <;> mb_step

theorem inv_step_loadSyFPos (fixed : Bool) (s s' : St) (h : Inv s) (hf : fire fixed .loadSyFPos s = some s') : Inv s' := by
  mb_step

theorem inv_step_loadSyFNon (fixed : Bool) (s s' : St) (h : Inv s) (hf : fire fixed .loadSyFNon s = some s') : Inv s' := by
  mb_step

theorem inv_step_loadPzRun (fixed : Bool) (s s' : St) (h : Inv s) (hf : fire fixed .loadPzRun s = some s') : Inv s' := by
  mb_step

theorem inv_step_loadPzPaused (fixed : Bool) (s s' : St) (h : Inv s) (hf : fire fixed .loadPzPaused s = some s') : Inv s' := by
  mb_step

theorem inv_step_reWin (fixed : Bool) (s s' : St) (h : Inv s) (hf : fire fixed .reWin s = some s') : Inv s' := by
  mb_step

theorem inv_step_reLose (fixed : Bool) (s s' : St) (h : Inv s) (hf : fire fixed .reLose s = some s') : Inv s' := by
  mb_step

theorem inv_step_hUPush (fixed : Bool) (s s' : St) (h : Inv s) (hf : fire fixed .hUPush s = some s') : Inv s' := by
  mb_step

theorem inv_step_hUInc (fixed : Bool) (s s' : St) (h : Inv s) (hf : fire fixed .hUInc s = some s') : Inv s' := by
  mb_step

theorem inv_step_hSPush (fixed : Bool) (s s' : St) (h : Inv s) (hf : fire fixed .hSPush s = some s') : Inv s' := by
  mb_step

theorem inv_step_hSInc (fixed : Bool) (s s' : St) (h : Inv s) (hf : fire fixed .hSInc s = some s') : Inv s' := by
  mb_step

theorem inv_step_hCasWin (fixed : Bool) (s s' : St) (h : Inv s) (hf : fire fixed .hCasWin s = some s') : Inv s' := by
  mb_step

theorem inv_step_hCasLose (fixed : Bool) (s s' : St) (h : Inv s) (hf : fire fixed .hCasLose s = some s') : Inv s' := by
  mb_step

theorem inv_step_hSpawnGo (fixed : Bool) (s s' : St) (h : Inv s) (hf : fire fixed .hSpawnGo s = some s') : Inv s' := by
  mb_step

theorem inv_step_hPause (fixed : Bool) (s s' : St) (h : Inv s) (hf : fire fixed .hPause s = some s') : Inv s' := by
  mb_step

theorem inv_step_hRCasPWin (fixed : Bool) (s s' : St) (h : Inv s) (hf : fire fixed .hRCasPWin s = some s') : Inv s' := by
  mb_step

theorem inv_step_hRCasPLose (fixed : Bool) (s s' : St) (h : Inv s) (hf : fire fixed .hRCasPLose s = some s') : Inv s' := by
  simp only [fire] at hf
  split at hf
  · cases hf; exact h
  · cases hf

theorem inv_step_hRCasSWin (fixed : Bool) (s s' : St) (h : Inv s) (hf : fire fixed .hRCasSWin s = some s') : Inv s' := by
  mb_step

theorem inv_step_hRCasSLose (fixed : Bool) (s s' : St) (h : Inv s) (hf : fire fixed .hRCasSLose s = some s') : Inv s' := by
  mb_step

theorem inv_step_hRSpawnGo (fixed : Bool) (s s' : St) (h : Inv s) (hf : fire fixed .hRSpawnGo s = some s') : Inv s' := by
  mb_step

theorem inv_step (fixed : Bool) (l : Label) (s s' : St) (h : Inv s) (hf : fire fixed l s = some s') : Inv s' := by
  cases l
  · exact inv_step_newEnqU fixed s s' h hf
  · exact inv_step_newEnqS fixed s s' h hf
  · exact inv_step_newPause fixed s s' h hf
  · exact inv_step_newResume fixed s s' h hf
  · exact inv_step_uPush fixed s s' h hf
  · exact inv_step_uInc fixed s s' h hf
  · exact inv_step_sPush fixed s s' h hf
  · exact inv_step_sInc fixed s s' h hf
  · exact inv_step_pCasWin fixed s s' h hf
  · exact inv_step_pCasLose fixed s s' h hf
  · exact inv_step_pGo fixed s s' h hf
  · exact inv_step_pause fixed s s' h hf
  · exact inv_step_rCasPWin fixed s s' h hf
  · exact inv_step_rCasPLose fixed s s' h hf
  · exact inv_step_rCasSWin fixed s s' h hf
  · exact inv_step_rCasSLose fixed s s' h hf
  · exact inv_step_rGo fixed s s' h hf
  · exact inv_step_popSSome fixed s s' h hf
  · exact inv_step_popSNone fixed s s' h hf
  · exact inv_step_decS fixed s s' h hf
  · exact inv_step_hndS fixed s s' h hf
  · exact inv_step_loadPPaused fixed s s' h hf
  · exact inv_step_loadPRun fixed s s' h hf
  · exact inv_step_popUSome fixed s s' h hf
  · exact inv_step_popUNone fixed s s' h hf
  · exact inv_step_decU fixed s s' h hf
  · exact inv_step_hndU fixed s s' h hf
  · exact inv_step_hEnd fixed s s' h hf
  · exact inv_step_store fixed s s' h hf
  · exact inv_step_loadNPos fixed s s' h hf
  · exact inv_step_loadNNon fixed s s' h hf
  · exact inv_step_loadSyTPos fixed s s' h hf
  · exact inv_step_loadSyTNon fixed s s' h hf
  · exact inv_step_loadSyFPos fixed s s' h hf
  · exact inv_step_loadSyFNon fixed s s' h hf
  · exact inv_step_loadPzRun fixed s s' h hf
  · exact inv_step_loadPzPaused fixed s s' h hf
  · exact inv_step_reWin fixed s s' h hf
  · exact inv_step_reLose fixed s s' h hf
  · exact inv_step_hUPush fixed s s' h hf
  · exact inv_step_hUInc fixed s s' h hf
  · exact inv_step_hSPush fixed s s' h hf
  · exact inv_step_hSInc fixed s s' h hf
  · exact inv_step_hCasWin fixed s s' h hf
  · exact inv_step_hCasLose fixed s s' h hf
  · exact inv_step_hSpawnGo fixed s s' h hf
  · exact inv_step_hPause fixed s s' h hf
  · exact inv_step_hRCasPWin fixed s s' h hf
  · exact inv_step_hRCasPLose fixed s s' h hf
  · exact inv_step_hRCasSWin fixed s s' h hf
  · exact inv_step_hRCasSLose fixed s s' h hf
  · exact inv_step_hRSpawnGo fixed s s' h hf

theorem inv_reach (fixed : Bool) (s : St) (h : Reach fixed s) : Inv s := by
  induction h with
  | init => exact inv_init
  | step l _ hf ih => exact inv_step fixed l _ _ ih hf

end Vivid.Mailbox
