import Vivid.Model.ClusterView
import Vivid.Proofs.VersionVector

/-! Helper lemmas for M8. -/
namespace Vivid.View
open Vivid.VV

@[simp] theorem lookup_nil (i : String) : lookup [] i = none := rfl

theorem lookup_cons (k : String) (s : NodeState) (t : Members) (i : String) :
    lookup ((k, s) :: t) i = if k = i then some s else lookup t i := rfl

theorem lookup_setM (m : Members) (k : String) (s : NodeState) (i : String) :
    lookup (setM m k s) i = if k = i then some s else lookup m i := by
  induction m with
  | nil => simp [setM, lookup_cons]
  | cons e t ih =>
    obtain ⟨k0, s0⟩ := e
    simp only [setM]
    by_cases h0 : k0 = k
    · subst h0
      simp only [if_true, lookup_cons]
      by_cases h1 : k0 = i <;> simp [h1]
    · simp only [h0, if_false, lookup_cons, ih]
      by_cases h1 : k0 = i
      · subst h1; simp [Ne.symm h0]
      · simp [h1]

def MWF (m : Members) : Prop := (mkeys m).Nodup

theorem lookup_none_of_not_mem (m : Members) (i : String) (h : i ∉ mkeys m) : lookup m i = none := by
  induction m with
  | nil => rfl
  | cons e t ih =>
    obtain ⟨k, s⟩ := e
    simp only [mkeys, List.map_cons, List.mem_cons, not_or] at h
    simp only [lookup_cons]
    have : k ≠ i := fun e => h.1 e.symm
    simp only [this, if_false]
    exact ih h.2

theorem mem_keys_of_lookup (m : Members) (i : String) (s : NodeState) (h : lookup m i = some s) : i ∈ mkeys m := by
  apply Classical.byContradiction
  intro hn
  rw [lookup_none_of_not_mem m i hn] at h; cases h

/-- Which state survives for one id: the newer of the two, the local one on a tie. -/
def pick : Option NodeState → Option NodeState → Option NodeState
  | none, x => x
  | some a, none => some a
  | some a, some b => if newer b a then some b else some a

theorem mergeMembers_lookup (o : Members) (ho : MWF o) : ∀ (m : Members) (ch : Bool) (i : String),
    lookup (mergeMembers m o ch).1 i = pick (lookup m i) (lookup o i) := by
  induction o with
  | nil => intro m ch i; simp only [mergeMembers, lookup_nil]; cases lookup m i <;> rfl
  | cons e t ih =>
    obtain ⟨k, os⟩ := e
    intro m ch i
    have hk : k ∉ mkeys t := by
      unfold MWF mkeys at ho; simp only [List.map_cons, List.nodup_cons] at ho; exact ho.1
    have ht : MWF t := by
      unfold MWF mkeys at ho ⊢; simp only [List.map_cons, List.nodup_cons] at ho; exact ho.2
    have hnone : lookup t k = none := lookup_none_of_not_mem t k hk
    simp only [mergeMembers]
    by_cases hki : k = i
    · subst hki
      simp only [lookup_cons, if_true]
      cases hm : lookup m k with
      | none =>
        simp only [ih ht, lookup_setM, if_true, hnone]; rfl
      | some ex =>
        simp only
        by_cases hn : newer os ex = true
        · simp only [hn, if_true, ih ht, lookup_setM, hnone, pick]
        · have hn' : newer os ex = false := by cases h : newer os ex <;> simp_all
          simp only [hn', Bool.false_eq_true, if_false, ih ht, hm, hnone, pick]
    · simp only [lookup_cons, hki, if_false]
      cases hm : lookup m k with
      | none => simp only [ih ht, lookup_setM, hki, if_false]
      | some ex =>
        simp only
        by_cases hn : newer os ex = true
        · simp only [hn, if_true, ih ht, lookup_setM, hki, if_false]
        · have hn' : newer os ex = false := by cases h : newer os ex <;> simp_all
          simp only [hn', Bool.false_eq_true, if_false, ih ht]

/-- `changed` of the member loop is sound: if any looked-up state differs, it is `true`. -/
theorem mergeMembers_changed (o : Members) : ∀ (m : Members) (ch : Bool),
    ch = true → (mergeMembers m o ch).2 = true := by
  induction o with
  | nil => intro m ch h; simpa [mergeMembers] using h
  | cons e t ih =>
    obtain ⟨k, os⟩ := e
    intro m ch h
    simp only [mergeMembers]
    cases lookup m k with
    | none => exact ih _ _ rfl
    | some ex =>
      simp only
      split
      · exact ih _ _ rfl
      · exact ih _ _ h

theorem mergeMembers_unchanged (o : Members) : ∀ (m : Members),
    (mergeMembers m o false).2 = false → (mergeMembers m o false).1 = m := by
  induction o with
  | nil => intro m _; rfl
  | cons e t ih =>
    obtain ⟨k, os⟩ := e
    intro m h
    simp only [mergeMembers] at h ⊢
    cases hm : lookup m k with
    | none =>
      simp only [hm] at h
      rw [mergeMembers_changed t _ true rfl] at h; cases h
    | some ex =>
      simp only [hm] at h ⊢
      split at h
      · rw [mergeMembers_changed t _ true rfl] at h; cases h
      · rename_i hn; simp only [hn]; exact ih m h

theorem mkeys_setM_of_mem (m : Members) (k : String) (s : NodeState) (h : k ∈ mkeys m) :
    mkeys (setM m k s) = mkeys m := by
  induction m with
  | nil => simp [mkeys] at h
  | cons e t ih =>
    obtain ⟨k0, s0⟩ := e
    simp only [setM]
    by_cases h0 : k0 = k
    · simp [h0, mkeys]
    · simp only [mkeys, List.map_cons, List.mem_cons] at h
      have : k ∈ mkeys t := by
        rcases h with h | h
        · exact absurd h.symm h0
        · exact h
      simp only [h0, if_false, mkeys, List.map_cons] at ih ⊢
      rw [ih this]

theorem mkeys_setM_of_not_mem (m : Members) (k : String) (s : NodeState) (h : k ∉ mkeys m) :
    mkeys (setM m k s) = mkeys m ++ [k] := by
  induction m with
  | nil => simp [setM, mkeys]
  | cons e t ih =>
    obtain ⟨k0, s0⟩ := e
    simp only [mkeys, List.map_cons, List.mem_cons, not_or] at h
    have h0 : k0 ≠ k := fun e => h.1 e.symm
    simp only [setM, h0, if_false, mkeys, List.map_cons, List.cons_append] at ih ⊢
    rw [ih h.2]

theorem mwf_setM (m : Members) (k : String) (s : NodeState) (h : MWF m) : MWF (setM m k s) := by
  unfold MWF at *
  by_cases hk : k ∈ mkeys m
  · rw [mkeys_setM_of_mem m k s hk]; exact h
  · rw [mkeys_setM_of_not_mem m k s hk, List.nodup_append]
    refine ⟨h, by simp, ?_⟩
    intro a ha b hb
    simp only [List.mem_singleton] at hb
    subst hb; intro e; subst e; exact hk ha

theorem mergeMembers_mwf (o : Members) : ∀ (m : Members) (ch : Bool), MWF m → MWF (mergeMembers m o ch).1 := by
  induction o with
  | nil => intro m ch h; exact h
  | cons e t ih =>
    obtain ⟨k, os⟩ := e
    intro m ch h
    simp only [mergeMembers]
    cases lookup m k with
    | none => exact ih _ _ (mwf_setM _ _ _ h)
    | some ex =>
      simp only
      split
      · exact ih _ _ (mwf_setM _ _ _ h)
      · exact ih _ _ h

end Vivid.View
