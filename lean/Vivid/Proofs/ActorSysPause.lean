import Vivid.Proofs.ActorSysStruct
import Vivid.Proofs.ActorSysTables

/-! Pause flags of M10 over every handler: frame relation `SameP` and the invariant `PauseInv`
(a terminated actor's mailbox is not paused).  Property theorem in `Props/C09Global.lean`. -/
namespace Vivid.ActorSys

/-- What the pause invariant looks at. -/
def plife (x : Ctx) : St × Bool × Option Bool × Bool := (x.state, x.zombie, x.restarting, x.paused)

/-- Nothing structural changed: same number of contexts, same lifecycle fields everywhere. -/
def SameP (s s' : Sys) : Prop := s'.n = s.n ∧ ∀ c, plife (s'.ctx c) = plife (s.ctx c)

theorem SameP.refl (s : Sys) : SameP s s := ⟨rfl, fun _ => rfl⟩

theorem SameP.trans {a b c : Sys} (h1 : SameP a b) (h2 : SameP b c) : SameP a c :=
  ⟨h2.1.trans h1.1, fun x => (h2.2 x).trans (h1.2 x)⟩

theorem sameP_rec {s : Sys} (s' : Sys) (h2 : s'.n = s.n) (h3 : s'.ctx = s.ctx) : SameP s s' :=
  ⟨h2, fun c => by rw [h3]⟩

theorem sameP_say (s : Sys) (e : String) : SameP s (say s e) := ⟨rfl, fun _ => rfl⟩

theorem sameP_upd (s : Sys) (c : Cid) (f : Ctx → Ctx) (hf : ∀ x, plife (f x) = plife x) : SameP s (upd s c f) := by
  refine ⟨rfl, fun d => ?_⟩
  by_cases h : d = c
  · subst h; simp only [upd_ctx_self]; exact hf _
  · rw [upd_ctx_other s c d f h]

theorem sameP_enqueue (s : Sys) (c : Cid) (e : Env) : SameP s (enqueue s c e) := by
  unfold enqueue
  apply sameP_upd
  intro x; split <;> rfl

theorem sameP_deadLetter (s : Sys) (e : Env) : SameP s (deadLetter s e) := by
  unfold deadLetter; exact sameP_enqueue _ _ _

theorem sameP_resolve (s : Sys) (t : Target) : SameP s (resolve s t).1 :=
  ⟨(sameCore_resolve s t).2.1, fun c => by rw [resolve_ctx s t]⟩

theorem sameP_tell (s : Sys) (sys : Bool) (sender : Option Cid) (t : Target) (m : Msg) :
    SameP s (tell s sys sender t m) := by
  unfold tell
  have h := sameP_resolve s t
  generalize resolve s t = r at h
  obtain ⟨s1, c?⟩ := r
  simp only at h ⊢
  have bump : SameP s1 { s1 with nextEnv := s1.nextEnv + 1 } := ⟨rfl, fun _ => rfl⟩
  cases m <;> cases c? <;> simp only <;>
    first
    | exact h.trans (bump.trans (sameP_enqueue _ _ _))
    | exact h.trans (bump.trans (sameP_deadLetter _ _))
    | exact h.trans (sameP_enqueue _ _ _)
    | exact h.trans (sameP_deadLetter _ _)

theorem sp_tell {a x : Sys} (sys : Bool) (sender : Option Cid) (t : Target) (m : Msg) (h : SameP a x) :
    SameP a (tell x sys sender t m) := h.trans (sameP_tell _ _ _ _ _)
theorem sp_say {a x : Sys} (e : String) (h : SameP a x) : SameP a (say x e) := h.trans (sameP_say _ _)
theorem sp_upd {a x : Sys} (c : Cid) (f : Ctx → Ctx) (hf : ∀ y, plife (f y) = plife y) (h : SameP a x) :
    SameP a (upd x c f) := h.trans (sameP_upd _ _ _ hf)

theorem sameP_tellAll (ts : List Cid) (s : Sys) (sys : Bool) (sender : Option Cid) (m : Msg) :
    SameP s (tellAll s sys sender ts m) := by
  unfold tellAll
  induction ts generalizing s with
  | nil => exact SameP.refl s
  | cons t r ih => simp only [List.foldl_cons]; exact (sameP_tell s sys sender (.own t) m).trans (ih _)

theorem sp_tellAll {a x : Sys} (ts : List Cid) (sys : Bool) (sender : Option Cid) (m : Msg) (h : SameP a x) :
    SameP a (tellAll x sys sender ts m) := h.trans (sameP_tellAll _ _ _ _ _)

theorem sameP_foldl_tell (l : List Cid) (s : Sys) (sys : Bool) (sender : Option Cid) (m : Msg) :
    SameP s (l.foldl (fun acc t => tell acc sys sender (.own t) m) s) := by
  induction l generalizing s with
  | nil => exact SameP.refl s
  | cons e t ih => simp only [List.foldl_cons]; exact (sameP_tell s _ _ _ _).trans (ih _)

theorem sameP_foldl_enqueue (l : List Env) (s : Sys) (self : Cid) :
    SameP s (l.foldl (fun acc e => enqueue acc self e) s) := by
  induction l generalizing s with
  | nil => exact SameP.refl s
  | cons e t ih => simp only [List.foldl_cons]; exact (sameP_enqueue s self e).trans (ih _)

theorem sameP_schedule (s : Sys) (self : Cid) (ref : String) : SameP s (schedule s self ref) := by
  unfold schedule
  have h1 := sameP_upd s self (fun x => { x with jobs := (ref, jobKey (s.ctx self).path ref) :: x.jobs.filter (fun e => e.1 ≠ ref) })
    (fun _ => rfl)
  simp only
  split
  · exact h1
  · exact h1.trans ⟨rfl, fun _ => rfl⟩

theorem sameP_clearJobs (s : Sys) (self : Cid) : SameP s (clearJobs s self) := by
  unfold clearJobs
  have h0 : SameP s { s with jobTable := s.jobTable.filter (fun e => !((s.ctx self).jobs.map (·.2)).contains e.1) } :=
    ⟨rfl, fun _ => rfl⟩
  exact h0.trans (sameP_upd _ self _ (fun _ => rfl))

end Vivid.ActorSys


namespace Vivid.ActorSys

/-- A terminated actor (not a zombie, no restart in progress) does not have a paused mailbox:
mail that still reaches it drains into dead letters instead of being held forever. `ex` is the
actor inside its own termination handler. -/
def PauseInv (ex : Option Cid) (s : Sys) : Prop :=
  ∀ c, some c ≠ ex → (s.ctx c).state = .killed → (s.ctx c).zombie = false → (s.ctx c).restarting = none →
    (s.ctx c).paused = false

theorem pl_state {x y : Ctx} (h : plife x = plife y) : x.state = y.state := congrArg (·.1) h
theorem pl_zombie {x y : Ctx} (h : plife x = plife y) : x.zombie = y.zombie := congrArg (·.2.1) h
theorem pl_restarting {x y : Ctx} (h : plife x = plife y) : x.restarting = y.restarting := congrArg (·.2.2.1) h
theorem pl_paused {x y : Ctx} (h : plife x = plife y) : x.paused = y.paused := congrArg (·.2.2.2) h

theorem pinv_sameP {ex : Option Cid} {s s' : Sys} (h : SameP s s') (hi : PauseInv ex s) : PauseInv ex s' := by
  intro c hne hk hz hr
  rw [pl_paused (h.2 c)]
  exact hi c hne (by rw [← pl_state (h.2 c)]; exact hk) (by rw [← pl_zombie (h.2 c)]; exact hz)
    (by rw [← pl_restarting (h.2 c)]; exact hr)

/-- Pointwise update of one context that is fine for the invariant. -/
theorem pinv_upd (ex : Option Cid) (s : Sys) (c : Cid) (f : Ctx → Ctx)
    (hf : some c ≠ ex → (f (s.ctx c)).state = .killed → (f (s.ctx c)).zombie = false → (f (s.ctx c)).restarting = none →
      (f (s.ctx c)).paused = false)
    (hi : PauseInv ex s) : PauseInv ex (upd s c f) := by
  intro d hne hk hz hr
  by_cases h : d = c
  · subst h; rw [upd_ctx_self] at hk hz hr ⊢; exact hf hne hk hz hr
  · rw [upd_ctx_other s c d f h] at hk hz hr ⊢; exact hi d hne hk hz hr

/-- The context counter does not shrink and `self`'s lifecycle fields are untouched. -/
def Keep (self : Cid) (s s' : Sys) : Prop :=
  s.n ≤ s'.n ∧ (s'.ctx self).state = (s.ctx self).state ∧ (s'.ctx self).zombie = (s.ctx self).zombie ∧
  (s'.ctx self).restarting = (s.ctx self).restarting

theorem Keep.refl (self : Cid) (s : Sys) : Keep self s s := ⟨Nat.le_refl _, rfl, rfl, rfl⟩
theorem Keep.trans {self : Cid} {a b c : Sys} (h1 : Keep self a b) (h2 : Keep self b c) : Keep self a c :=
  ⟨Nat.le_trans h1.1 h2.1, h2.2.1.trans h1.2.1, h2.2.2.1.trans h1.2.2.1, h2.2.2.2.trans h1.2.2.2⟩
theorem keep_sameP {self : Cid} {s s' : Sys} (h : SameP s s') : Keep self s s' :=
  ⟨by rw [h.1]; exact Nat.le_refl _, pl_state (h.2 self), pl_zombie (h.2 self), pl_restarting (h.2 self)⟩

theorem pinv_actorOf (ex : Option Cid) (s : Sys) (parent : Cid) (name : String) (script strat hooks : Nat)
    (ds : List Nat) (hi : PauseInv ex s) :
    PauseInv ex (actorOf s parent name script strat hooks ds) ∧
    ∀ self, self < s.n → Keep self s (actorOf s parent name script strat hooks ds) := by
  unfold actorOf
  simp only
  split
  · exact ⟨pinv_sameP (sameP_say _ _) hi, fun _ _ => keep_sameP (sameP_say _ _)⟩
  · split
    · exact ⟨pinv_sameP (sameP_say _ _) hi, fun _ _ => keep_sameP (sameP_say _ _)⟩
    · split
      · exact ⟨pinv_sameP (sameP_say _ _) hi, fun _ _ => keep_sameP (sameP_say _ _)⟩
      · let path := joinPath (s.ctx parent).path name
        let nc : Ctx := { blankCtx with path := path, name := name, parent := some parent, state := .running, script := script, behaviors := [script], strat := strat, decisions := ds, hooks := hooks }
        let s1 : Sys := { s with n := s.n + 1, ctx := fun x => if x = s.n then nc else s.ctx x, registry := (path, s.n) :: s.registry }
        have h1 : PauseInv ex s1 := by
          intro c hne hk hz hr
          by_cases hc : c = s.n
          · simp [s1, hc, nc] at hk
          · simp only [s1, hc, if_false] at hk hz hr ⊢; exact hi c hne hk hz hr
        have hk1 : ∀ self, self < s.n → Keep self s s1 := by
          intro self hs
          have hne : self ≠ s.n := Nat.ne_of_lt hs
          refine ⟨Nat.le_succ _, ?_, ?_, ?_⟩ <;> simp only [s1, hne, if_false]
        have hT : SameP s1 (say (tell (upd s1 parent
            (fun x => { x with children := x.children.filter (fun k => (s.ctx k).path ≠ path) ++ [s.n] })) true (some parent) (.own s.n) .onLaunch)
            s!"spawned:{s.n}:{path}") :=
          sp_say _ (sp_tell _ _ _ _ (sameP_upd s1 parent _ (fun _ => rfl)))
        split
        · have hT2 := hT.trans (sameP_tell _ true (some parent) (.own s.n) (.onKill false))
          exact ⟨pinv_sameP hT2 h1, fun self hs => (hk1 self hs).trans (keep_sameP hT2)⟩
        · exact ⟨pinv_sameP hT h1, fun self hs => (hk1 self hs).trans (keep_sameP hT)⟩

theorem pinv_runActions (ex : Option Cid) (self : Cid) (cur : Env) (acts : List Action) :
    ∀ s, PauseInv ex s → self < s.n →
      PauseInv ex (runActions s self cur acts).s ∧ Keep self s (runActions s self cur acts).s := by
  induction acts with
  | nil => intro s hi _; exact ⟨hi, Keep.refl _ _⟩
  | cons act rest ih =>
    intro s hi hs
    have fr : ∀ s', SameP s s' → PauseInv ex (runActions s' self cur rest).s ∧ Keep self s (runActions s' self cur rest).s := by
      intro s' h
      have := ih s' (pinv_sameP h hi) (by rw [h.1]; exact hs)
      exact ⟨this.1, (keep_sameP h).trans this.2⟩
    cases act with
    | panic => exact ⟨hi, Keep.refl _ _⟩
    | tell t k => simp only [runActions]; exact fr _ (sameP_tell _ _ _ _ _)
    | spawn name script kind decisions hooks =>
      simp only [runActions]
      have h := pinv_actorOf ex s self name script kind hooks decisions hi
      have hk := h.2 self hs
      have := ih _ h.1 (Nat.lt_of_lt_of_le hs hk.1)
      exact ⟨this.1, hk.trans this.2⟩
    | kill t poison => simp only [runActions]; exact fr _ (sameP_tell _ _ _ _ _)
    | stash => simp only [runActions]; exact fr _ (sameP_upd s self _ (fun _ => rfl))
    | unstash n =>
      simp only [runActions]
      exact fr _ ((sameP_foldl_enqueue _ s self).trans (sameP_upd _ self _ (fun _ => rfl)))
    | watch t => simp only [runActions]; exact fr _ (sameP_tell _ _ _ _ _)
    | unwatch t => simp only [runActions]; exact fr _ (sameP_tell _ _ _ _ _)
    | become sc => simp only [runActions]; exact fr _ (sameP_upd s self _ (fun _ => rfl))
    | unbecome => simp only [runActions]; exact fr _ (sameP_upd s self _ (fun _ => rfl))
    | sub ty => simp only [runActions]; exact fr _ (sameP_rec _ rfl rfl)
    | unsub ty => simp only [runActions]; exact fr _ (sameP_rec _ rfl rfl)
    | unsubAll => simp only [runActions]; exact fr _ (sameP_rec _ rfl rfl)
    | pub ty =>
      simp only [runActions]
      have h0 : SameP s { s with nextPub := s.nextPub + 1 } := sameP_rec _ rfl rfl
      exact fr _ (h0.trans (sameP_foldl_tell _ _ _ _ _))
    | sched kind ref k => simp only [runActions]; exact fr _ (sameP_schedule _ _ _)
    | cancel ref =>
      simp only [runActions]
      split
      · exact fr _ (sameP_say _ _)
      · rename_i key _
        have h0 : SameP s { s with jobTable := s.jobTable.filter (fun e => e.1 ≠ key) } := sameP_rec _ rfl rfl
        exact fr _ ((h0.trans (sameP_upd _ self (fun x => { x with jobs := x.jobs.filter (fun e => e.1 ≠ ref) })
          (fun _ => rfl))).trans (sameP_say _ _))
    | schedClear => simp only [runActions]; exact fr _ (sameP_clearJobs _ _)
    | cron valid ref =>
      simp only [runActions]
      split
      · exact fr _ (sameP_schedule _ _ _)
      · exact fr _ (sameP_say _ _)

end Vivid.ActorSys

namespace Vivid.ActorSys

theorem pinv_behave (ex : Option Cid) (s : Sys) (self : Cid) (beh : Nat) (cur : Env) (m : Msg)
    (hi : PauseInv ex s) (hs : self < s.n) :
    PauseInv ex (behave s self beh cur m).s ∧ Keep self s (behave s self beh cur m).s := by
  unfold behave
  simp only
  split
  · exact ⟨hi, Keep.refl _ _⟩
  · split
    · simp only
      unfold guardBehave
      split
      · split
        · have h : SameP s { s with guardClosed := true } := sameP_rec _ rfl rfl
          exact ⟨pinv_sameP h hi, keep_sameP h⟩
        · exact ⟨hi, Keep.refl _ _⟩
      · rename_i e isUser _
        have h : SameP s (say { s with deadLetters := if isUser then s.deadLetters ++ [e] else s.deadLetters }
            (if isUser then s!"dead-letter:{e}" else "dead-letter:sys")) :=
          (sameP_rec (s := s) _ rfl rfl).trans (sameP_say _ _)
        exact ⟨pinv_sameP h hi, keep_sameP h⟩
      · exact ⟨hi, Keep.refl _ _⟩
    · split
      · exact ⟨hi, Keep.refl _ _⟩
      · rename_i trig _
        have h := sameP_say s s!"seen:{self}:{(s.ctx self).inc}:{trig}"
        have := pinv_runActions ex self cur (ruleFor ((s.scripts.lookup beh).getD []) trig) _ (pinv_sameP h hi) (by rw [h.1]; exact hs)
        exact ⟨this.1, (keep_sameP h).trans this.2⟩

theorem pinv_failed (ex : Option Cid) (s : Sys) (self : Cid) (hi : PauseInv ex s)
    (hok : some self ≠ ex → (s.ctx self).state ≠ .killed) :
    PauseInv ex (failed s self) ∧ Keep self s (failed s self) := by
  unfold failed
  simp only
  have h1 : PauseInv ex (upd s self (fun x => { x with paused := true })) :=
    pinv_upd ex s self _ (fun hne hk _ _ => absurd hk (hok hne)) hi
  have hk1 : Keep self s (upd s self (fun x => { x with paused := true })) :=
    ⟨Nat.le_refl _, by simp, by simp, by simp⟩
  have hT : SameP (upd s self (fun x => { x with paused := true }))
      (say (tell (upd s self (fun x => { x with paused := true })) true (some self)
        (match (s.ctx self).parent with | some p => Target.own p | none => Target.nobody) (.supervise [(self, [])] [])) s!"failed:{self}") :=
    sp_say _ (sameP_tell _ _ _ _ _)
  exact ⟨pinv_sameP hT h1, hk1.trans (keep_sameP hT)⟩

theorem pinv_execRecover (ex : Option Cid) (s : Sys) (self : Cid) (beh : Nat) (cur : Env) (m : Msg)
    (hi : PauseInv ex s) (hs : self < s.n) (hok : some self ≠ ex → (s.ctx self).state ≠ .killed) :
    PauseInv ex (execRecover s self beh cur m) ∧ Keep self s (execRecover s self beh cur m) := by
  unfold execRecover
  have h := pinv_behave ex s self beh cur m hi hs
  have hf := pinv_failed ex (behave s self beh cur m).s self h.1 (fun hne => by rw [h.2.2.1]; exact hok hne)
  have hf' : PauseInv ex (failed (behave s self beh cur m).s self) ∧ Keep self s (failed (behave s self beh cur m).s self) :=
    ⟨hf.1, h.2.trans hf.2⟩
  simp only
  split
  · split
    · exact h
    · split
      · exact h
      · exact hf'
    · exact hf'
  · exact h

theorem pinv_execSwallow (ex : Option Cid) (s : Sys) (self : Cid) (beh : Nat) (cur : Env) (m : Msg)
    (hi : PauseInv ex s) (hs : self < s.n) :
    PauseInv ex (execSwallow s self beh cur m) ∧ Keep self s (execSwallow s self beh cur m) :=
  pinv_behave ex s self beh cur m hi hs

theorem pinv_weaken {s : Sys} (c : Cid) (hi : PauseInv none s) : PauseInv (some c) s :=
  fun d _ hk hz hr => hi d (by simp) hk hz hr

/-- `cleanup` resumes `self`'s mailbox: no exception needed afterwards. -/
theorem pinv_cleanup (s : Sys) (self : Cid) (hi : PauseInv (some self) s) : PauseInv none (cleanup s self) := by
  unfold cleanup
  simp only
  have h0 : SameP s (unregister { s with subs := esUnsubAll s.subs (s.ctx self).path } (s.ctx self).path) := sameP_rec _ rfl rfl
  have h1 := h0.trans (sameP_tellAll (s.ctx self).watchers _ true (some self) (.onKilled self))
  have fin : ∀ s', SameP s s' → PauseInv none (upd s' self (fun x => { x with paused := false })) := by
    intro s' hT
    have hi' := pinv_sameP hT hi
    intro d _ hk hz hr
    by_cases h : d = self
    · subst h; simp
    · rw [upd_ctx_other s' self d _ h] at hk hz hr ⊢
      exact hi' d (by simpa using h) hk hz hr
  split
  · exact fin _ (sp_say _ (sp_tell _ _ _ _ h1))
  · exact fin _ (sp_say _ h1)

theorem pinv_handleRestart (s : Sys) (self : Cid) (hs : self < s.n) (hi : PauseInv (some self) s) : PauseInv none (handleRestart s self) := by
  unfold handleRestart
  simp only
  have h1 := pinv_sameP (sameP_upd s self (fun x => { x with behaviors := [x.script] }) (fun _ => rfl)) hi
  have settle : ∀ (f : Ctx → Ctx), (∀ x, (f x).state ≠ .killed ∨ (f x).zombie = true) →
      PauseInv none (upd (upd s self (fun x => { x with behaviors := [x.script] })) self f) := by
    intro f hf d _ hk hz hr
    by_cases h : d = self
    · subst h
      rw [upd_ctx_self] at hk hz
      rcases hf _ with h2 | h2
      · exact absurd hk h2
      · rw [h2] at hz; cases hz
    · rw [upd_ctx_other _ self d _ h] at hk hz hr ⊢
      exact h1 d (by simpa using h) hk hz hr
  split
  · exact pinv_sameP (sameP_say _ _) (settle (fun x => { x with zombie := true, paused := false }) (fun _ => Or.inr rfl))
  · have h2 := settle (fun x => { x with restarting := none, state := .running, inc := x.inc + 1 }) (fun _ => Or.inl (by simp))
    split
    · -- repaired: the new incarnation's OnLaunch runs right here; `self` is running
      have h3 : PauseInv none (say (upd (upd (upd s self (fun x => { x with behaviors := [x.script] })) self
          (fun x => { x with restarting := none, state := .running, inc := x.inc + 1 })) self (fun x => { x with paused := false }))
          s!"restarted:{self}") :=
        pinv_sameP (sameP_say _ _) (pinv_upd none _ self (fun x => { x with paused := false }) (fun _ _ _ _ => rfl) h2)
      exact (pinv_execRecover none _ self _ _ _ h3 hs (fun _ => by simp)).1
    · apply pinv_sameP (sameP_say _ _)
      apply pinv_upd none _ self (fun x => { x with paused := false }) (fun _ _ _ _ => rfl)
      exact pinv_sameP (sameP_tell _ _ _ _ _) h2

theorem pinv_markKilled (s : Sys) (self : Cid) (hi : PauseInv none s) :
    PauseInv (some self) (upd s self (fun x => { x with state := .killed })) := by
  intro d hne hk hz hr
  have h : d ≠ self := fun h => hne (by rw [h])
  rw [upd_ctx_other s self d _ h] at hk hz hr ⊢
  exact hi d (by simp) hk hz hr

end Vivid.ActorSys

namespace Vivid.ActorSys

theorem pinv_onKilled (s : Sys) (self : Cid) (beh : Nat) (cur : Env) (who : Cid) (hs : self < s.n)
    (hst : (s.ctx self).zombie = true ∨ (s.ctx self).state ≠ .killed)
    (hi : PauseInv none s) : PauseInv none (onKilled s self beh cur who) := by
  unfold onKilled
  simp only
  split
  · exact pinv_cleanup s self (pinv_weaken self hi)
  · rename_i hz
    have hnk : (s.ctx self).state ≠ .killed := by
      rcases hst with h | h
      · exact absurd h hz
      · exact h
    have h1 : PauseInv none (if who ≠ self then
        execRecover (upd s self (fun x => { x with children := x.children.filter (· ≠ who) })) self beh cur (.onKilled who)
        else s) ∧ Keep self s (if who ≠ self then
        execRecover (upd s self (fun x => { x with children := x.children.filter (· ≠ who) })) self beh cur (.onKilled who)
        else s) := by
      split
      · have hT := sameP_upd s self (fun x => { x with children := x.children.filter (· ≠ who) }) (fun _ => rfl)
        have := pinv_execRecover none _ self beh cur (.onKilled who) (pinv_sameP hT hi) (by rw [hT.1]; exact hs)
          (fun _ => by rw [pl_state (hT.2 self)]; exact hnk)
        exact ⟨this.1, (keep_sameP hT).trans this.2⟩
      · exact ⟨hi, Keep.refl _ _⟩
    generalize (if who ≠ self then
        execRecover (upd s self (fun x => { x with children := x.children.filter (· ≠ who) })) self beh cur (.onKilled who)
        else s) = s1 at h1 ⊢
    obtain ⟨h1, hk1⟩ := h1
    have hs1 : self < s1.n := Nat.lt_of_lt_of_le hs hk1.1
    split
    · exact h1
    · have h2 := pinv_markKilled s1 self h1
      have hs2 : self < (upd s1 self (fun x => { x with state := .killed })).n := hs1
      cases hr : (s1.ctx self).restarting.isSome with
      | true =>
        simp only [if_true]
        have h3 := pinv_execSwallow (some self) _ self beh { cur with sys := true, msg := .onKilled self } (.onKilled self) h2 hs2
        refine pinv_handleRestart _ self ?_ (pinv_sameP (sameP_clearJobs _ _) h3.1)
        have : self < (execSwallow (upd s1 self (fun x => { x with state := .killed })) self beh
            { cur with sys := true, msg := .onKilled self } (.onKilled self)).n := Nat.lt_of_lt_of_le hs2 h3.2.1
        unfold clearJobs; exact this
      | false =>
        simp only [Bool.false_eq_true, if_false]
        have h3 := pinv_execRecover (some self) _ self beh { cur with sys := true, msg := .onKilled self } (.onKilled self) h2 hs2
          (fun h => absurd rfl h)
        exact pinv_sameP (sameP_clearJobs _ _) (pinv_cleanup _ self h3.1)

theorem pinv_doKill (s : Sys) (self : Cid) (beh : Nat) (cur : Env) (poison : Bool) (hs : self < s.n)
    (hst : (s.ctx self).zombie = true ∨ (s.ctx self).state ≠ .killed)
    (hi : PauseInv none s) : PauseInv none (doKill s self beh cur poison) := by
  unfold doKill
  simp only
  have hT := sameP_foldl_tell (s.ctx self).children s (!poison) (some self) (.onKill poison)
  have h1 := pinv_sameP hT hi
  generalize (s.ctx self).children.foldl (fun acc ch => tell acc (!poison) (some self) (.own ch) (.onKill poison)) s = s1 at hT h1 ⊢
  have hs1 : self < s1.n := by rw [hT.1]; exact hs
  have hst1 : (s1.ctx self).zombie = true ∨ (s1.ctx self).state ≠ .killed := by
    rw [pl_zombie (hT.2 self), pl_state (hT.2 self)]; exact hst
  have after : ∀ s2, PauseInv none s2 → Keep self s1 s2 → PauseInv none (onKilled s2 self beh { cur with msg := .onKill poison } self) := by
    intro s2 hi2 hk
    apply pinv_onKilled s2 self beh _ self (Nat.lt_of_lt_of_le hs1 hk.1) _ hi2
    rw [hk.2.2.1, hk.2.1]; exact hst1
  split
  · have h2 := pinv_execSwallow none s1 self beh { cur with msg := .onKill poison } (.onKill poison) h1 hs1
    exact after _ h2.1 h2.2
  · -- a panic in the OnKill handler never reaches the supervisor: no `failed`
    have h2 := pinv_behave none s1 self beh { cur with msg := .onKill poison } (.onKill poison) h1 hs1
    have e : execRecover s1 self beh { cur with msg := .onKill poison } (.onKill poison)
        = (behave s1 self beh { cur with msg := .onKill poison } (.onKill poison)).s := by
      unfold execRecover; simp only; split <;> rfl
    rw [e]
    exact after _ h2.1 h2.2

theorem pinv_onSuperviseDecide (s : Sys) (self : Cid) (chain : List (Cid × List Cid))
    (hst : (s.ctx self).zombie = true ∨ (s.ctx self).state ≠ .killed)
    (hi : PauseInv none s) : PauseInv none (onSuperviseDecide s self chain) := by
  unfold onSuperviseDecide
  simp only
  have h0 : SameP s (if (s.ctx self).strat = 0 then s else upd s self (fun x => { x with decIdx := x.decIdx + 1 })) := by
    split
    · exact SameP.refl s
    · exact sameP_upd s self _ (fun _ => rfl)
  generalize (if (s.ctx self).strat = 0 then s else upd s self (fun x => { x with decIdx := x.decIdx + 1 })) = s0 at h0 ⊢
  -- the escalation branch pauses `self`, which is not terminated (or is a zombie)
  have esc : ∀ s', SameP s s' → PauseInv none (upd s' self (fun x => { x with paused := true })) := by
    intro s' hT
    apply pinv_upd none s' self _ _ (pinv_sameP hT hi)
    intro _ hk hz _
    simp only at hk hz
    rw [pl_state (hT.2 self)] at hk
    rw [pl_zombie (hT.2 self)] at hz
    rcases hst with h | h
    · rw [h] at hz; cases hz
    · exact absurd hk h
  repeat' split
  all_goals first
    | (exfalso; omega)
    | (apply pinv_sameP _ hi
       repeat (first
         | exact h0
         | apply sp_tellAll
         | apply sp_tell
         | apply sp_say)
       done)
    | (apply pinv_sameP (sameP_tell _ _ _ _ _)
       apply esc
       repeat (first
         | exact h0
         | apply sp_tellAll
         | apply sp_tell
         | apply sp_say)
       done)

theorem pinv_onSupervise (s : Sys) (self : Cid) (chain : List (Cid × List Cid))
    (hst : (s.ctx self).zombie = true ∨ (s.ctx self).state ≠ .killed)
    (hi : PauseInv none s) : PauseInv none (onSupervise s self chain) := by
  unfold onSupervise
  split
  · exact pinv_onSuperviseDecide _ _ _ hst hi
  · exact pinv_sameP (sameP_tell _ _ _ _ _) hi

end Vivid.ActorSys

namespace Vivid.ActorSys

/-- Unused slots are blank as far as the lifecycle goes (part of `TablesInv`). -/
def SlotsInv (s : Sys) : Prop := ∀ c, s.n ≤ c → (s.ctx c).state = .killed ∧ (s.ctx c).zombie = false

theorem pinv_handle (s : Sys) (self : Cid) (e : Env) (hL : SlotsInv s) (hi : PauseInv none s) :
    PauseInv none (handle s self e) := by
  unfold handle
  simp only
  split
  · split
    · exact hi
    · refine pinv_sameP (sameP_deadLetter _ _) ?_
      apply pinv_upd none s self _ _ hi
      intro hne hk hz hr
      by_cases hkg : (s.ctx self).state = .killing
      · simp [hkg] at hk
      · simp only [hkg, if_false] at hk hz hr ⊢
        exact hi self hne hk hz hr
    · exact pinv_sameP (sameP_deadLetter _ _) hi
  · rename_i hcond
    have hst : (s.ctx self).zombie = true ∨ (s.ctx self).state ≠ .killed := by
      by_cases hz : (s.ctx self).zombie = true
      · exact Or.inl hz
      · right
        intro hk
        apply hcond
        exact ⟨Or.inl hk, by simp [hz]⟩
    have hs : self < s.n := by
      by_cases h : self < s.n
      · exact h
      · exfalso
        have := hL self (Nat.le_of_not_lt h)
        rcases hst with h1 | h1
        · rw [this.2] at h1; cases h1
        · exact h1 this.1
    have exec : ∀ m, PauseInv none (execRecover s self ((s.ctx self).behaviors.headD (s.ctx self).script) e m) := by
      intro m
      by_cases hz : (s.ctx self).zombie = true
      · unfold execRecover; rw [behave_zombie _ _ _ _ _ hz]; simpa using hi
      · exact (pinv_execRecover none s self _ e m hi hs (fun _ => by
          rcases hst with h | h
          · exact absurd h hz
          · exact h)).1
    have pause : ∀ b, PauseInv none (upd s self (fun x => { x with paused := b })) := by
      intro b
      apply pinv_upd none s self _ _ hi
      intro _ hk hz _
      simp only at hk hz
      rcases hst with h | h
      · rw [h] at hz; cases hz
      · exact absurd hk h
    split
    · exact exec _
    · split
      · exact pinv_doKill _ _ _ _ _ hs hst hi
      · split
        · refine pinv_doKill _ self _ _ _ ?_ ?_ ?_
          · exact hs
          · exact Or.inr (by simp)
          · exact pinv_upd none s self _ (fun _ hk _ _ => by simp at hk) hi
        · apply pinv_upd none s self _ _ hi
          intro _ hk hz _
          simp only at hk hz
          rcases hst with h | h
          · rw [h] at hz; cases hz
          · exact absurd hk h
    · exact pinv_onKilled _ _ _ _ _ hs hst hi
    · exact pinv_onSupervise _ _ _ hst hi
    · exact pause true
    · exact pause false
    · split
      · refine pinv_doKill _ self _ _ _ ?_ ?_ ?_
        · exact hs
        · exact Or.inr (by simp)
        · exact pinv_upd none s self _ (fun _ hk _ _ => by simp at hk) hi
      · exact pinv_upd none s self _ (fun _ _ _ _ => rfl) hi
    · repeat' split
      all_goals first
        | exact hi
        | (refine pinv_sameP ?_ hi; apply sameP_upd; intro _; rfl)
    · repeat' split
      all_goals first
        | exact hi
        | (refine pinv_sameP ?_ hi; apply sameP_upd; intro _; rfl)
    · exact exec _
    · exact exec _
    · exact exec _

theorem pinv_deliver (s s' : Sys) (c : Cid) (h : deliver s c = some s') (hL : SlotsInv s) (hi : PauseInv none s) :
    PauseInv none s' := by
  unfold deliver at h
  simp only at h
  have pop : ∀ (f : Ctx → Ctx), (∀ x, plife (f x) = plife x) → SlotsInv (upd s c f) := by
    intro f hf d hd
    have hT := sameP_upd s c f hf
    rw [pl_state (hT.2 d), pl_zombie (hT.2 d)]
    exact hL d hd
  split at h
  · cases h
    exact pinv_handle _ _ _ (pop _ (fun _ => rfl)) (pinv_sameP (sameP_upd s c _ (fun _ => rfl)) hi)
  · split at h
    · cases h
    · split at h
      · cases h
        exact pinv_handle _ _ _ (pop _ (fun _ => rfl)) (pinv_sameP (sameP_upd s c _ (fun _ => rfl)) hi)
      · cases h

theorem pinv_init (f : Bool) : PauseInv none (init f) := by
  intro c _ _ _ _
  by_cases hc : c = 0 <;> simp [init, hc, rootCtx, blankCtx]

end Vivid.ActorSys
