import Vivid.Proofs.ActorSysValid

/-! Counting the copies of a user message in M10: `total i s` is the number of envelopes carrying
id `i` in the mailboxes and stashes of the existing contexts plus the number of times `i` is on the
published dead-letter list.  `Acct s s' d`: the handler relation `Ext` plus the exact account
`total i s' = total i s + [i handed out by the handler] + d i`.  Property theorems in
`Props/C03Exact.lean`. -/
namespace Vivid.ActorSys

def cntC (i : Nat) (x : Ctx) : Nat := (mail x).countP (fun e => carries i e)

def sumTo (n : Nat) (g : Nat → Nat) : Nat := ((List.range n).map g).sum

def total (i : Nat) (s : Sys) : Nat := sumTo s.n (fun c => cntC i (s.ctx c)) + s.deadLetters.count i

theorem sumTo_succ (n : Nat) (g : Nat → Nat) : sumTo (n + 1) g = sumTo n g + g n := by
  simp [sumTo, List.range_succ]

theorem sumTo_congr (n : Nat) (g g' : Nat → Nat) (h : ∀ c, c < n → g' c = g c) : sumTo n g' = sumTo n g := by
  induction n with
  | zero => rfl
  | succ k ih =>
    rw [sumTo_succ, sumTo_succ, ih (fun c hc => h c (Nat.lt_succ_of_lt hc)), h k (Nat.lt_succ_self k)]

theorem sumTo_update (n : Nat) (g g' : Nat → Nat) (c : Nat) (hc : c < n) (h : ∀ d, d ≠ c → g' d = g d) :
    sumTo n g' + g c = sumTo n g + g' c := by
  induction n with
  | zero => cases hc
  | succ k ih =>
    rw [sumTo_succ, sumTo_succ]
    by_cases hck : c = k
    · have e1 : sumTo k g' = sumTo k g :=
        sumTo_congr k g g' (fun d hd => h d (fun hdc => by rw [hdc, hck] at hd; exact Nat.lt_irrefl _ hd))
      rw [e1, hck]
      exact Nat.add_right_comm _ _ _
    · have hlt : c < k := by omega
      have := ih hlt
      rw [h k (fun hh => hck hh.symm)]
      omega

def freshI (s s' : Sys) (i : Nat) : Nat := if s.nextEnv ≤ i ∧ i < s'.nextEnv then 1 else 0

theorem freshI_trans {a b c : Sys} (h1 : a.nextEnv ≤ b.nextEnv) (h2 : b.nextEnv ≤ c.nextEnv) (i : Nat) :
    freshI a c i = freshI a b i + freshI b c i := by
  unfold freshI
  split <;> split <;> split <;> omega

theorem freshI_same {a b : Sys} (h : b.nextEnv = a.nextEnv) (i : Nat) : freshI a b i = 0 := by
  unfold freshI; rw [h]; split
  · omega
  · rfl

structure Acct (s s' : Sys) (d : Nat → Nat) : Prop where
  ext : Ext s s'
  cnt : ∀ i, total i s' = total i s + freshI s s' i + d i

abbrev Acct0 (s s' : Sys) : Prop := Acct s s' (fun _ => 0)

theorem Acct.refl {s : Sys} (h : Valid s) : Acct0 s s :=
  ⟨Ext.refl h, fun i => by rw [freshI_same (a := s) (b := s) rfl i]; omega⟩

theorem Acct.trans {a b c : Sys} {d1 d2 : Nat → Nat} (h1 : Acct a b d1) (h2 : Acct b c d2) :
    Acct a c (fun i => d1 i + d2 i) :=
  ⟨h1.ext.trans h2.ext, fun i => by
    rw [h2.cnt i, h1.cnt i, freshI_trans h1.ext.next_le h2.ext.next_le i]; omega⟩

theorem Acct.trans0 {a b c : Sys} {d : Nat → Nat} (h1 : Acct0 a b) (h2 : Acct b c d) : Acct a c d := by
  have := h1.trans h2
  simpa using this

theorem Acct.trans0' {a b c : Sys} {d : Nat → Nat} (h1 : Acct a b d) (h2 : Acct0 b c) : Acct a c d := by
  have := h1.trans h2
  simpa using this

theorem Acct.congr {s s' : Sys} {d d' : Nat → Nat} (h : Acct s s' d) (hd : ∀ i, d i = d' i) : Acct s s' d' :=
  ⟨h.ext, fun i => by rw [h.cnt i, hd i]⟩

/-- Same contexts, same published list, same id counter. -/
theorem acct_of_ext {s s' : Sys} (hx : Ext s s') (h1 : s'.n = s.n) (h2 : s'.ctx = s.ctx) (h3 : s'.nextEnv = s.nextEnv)
    (h7 : s'.deadLetters = s.deadLetters) : Acct0 s s' :=
  ⟨hx, fun i => by rw [freshI_same h3 i]; unfold total; rw [h1, h2, h7]; omega⟩

theorem acct_rec {s : Sys} (s' : Sys) (hv : Valid s) (h1 : s'.n = s.n) (h2 : s'.ctx = s.ctx) (h3 : s'.nextEnv = s.nextEnv)
    (h4 : s'.registry = s.registry) (h5 : s'.refs = s.refs) (h6 : s'.subs = s.subs) (h7 : s'.deadLetters = s.deadLetters) :
    Acct0 s s' := acct_of_ext (ext_rec s' hv h1 h2 h3 h4 h5 h6 h7) h1 h2 h3 h7

theorem acct_say {s : Sys} (e : String) (hv : Valid s) : Acct0 s (say s e) := acct_rec _ hv rfl rfl rfl rfl rfl rfl rfl

theorem total_upd (i : Nat) (s : Sys) (c : Cid) (f : Ctx → Ctx) (hc : c < s.n) :
    total i (upd s c f) + cntC i (s.ctx c) = total i s + cntC i (f (s.ctx c)) := by
  have h := sumTo_update s.n (fun d => cntC i (s.ctx d)) (fun d => cntC i ((upd s c f).ctx d)) c hc
    (fun d hd => by rw [upd_ctx_other s c d f hd])
  rw [upd_ctx_self] at h
  have e1 : total i (upd s c f) = sumTo s.n (fun d => cntC i ((upd s c f).ctx d)) + s.deadLetters.count i := rfl
  have e2 : total i s = sumTo s.n (fun d => cntC i (s.ctx d)) + s.deadLetters.count i := rfl
  rw [e1, e2]
  omega

/-- An update of one existing context, described by what it does to the count. -/
theorem acct_upd {s : Sys} (c : Cid) (f : Ctx → Ctx) (d : Nat → Nat) (hx : Ext s (upd s c f)) (hc : c < s.n)
    (hd : ∀ i, cntC i (f (s.ctx c)) = cntC i (s.ctx c) + d i) : Acct s (upd s c f) d :=
  ⟨hx, fun i => by
    have := total_upd i s c f hc
    rw [hd i] at this
    rw [freshI_same (a := s) (b := upd s c f) rfl i]; omega⟩

theorem acct_upd_same {s : Sys} (c : Cid) (f : Ctx → Ctx) (hv : Valid s) (hf : ∀ x, vlife (f x) = vlife x) :
    Acct0 s (upd s c f) := by
  refine ⟨ext_upd_same c f hv hf, fun i => ?_⟩
  rw [freshI_same (a := s) (b := upd s c f) rfl i]
  have : (fun d => cntC i ((upd s c f).ctx d)) = (fun d => cntC i (s.ctx d)) := by
    funext d
    by_cases h : d = c
    · subst h; rw [upd_ctx_self]; unfold cntC; rw [vlife_mail (hf _)]
    · rw [upd_ctx_other s c d f h]
  have e1 : total i (upd s c f) = sumTo s.n (fun d => cntC i ((upd s c f).ctx d)) + s.deadLetters.count i := rfl
  have e2 : total i s = sumTo s.n (fun d => cntC i (s.ctx d)) + s.deadLetters.count i := rfl
  rw [e1, e2, this]; rfl

theorem cntC_enqueue (i : Nat) (s : Sys) (c : Cid) (e : Env) :
    cntC i ((enqueue s c e).ctx c) = cntC i (s.ctx c) + (if carries i e = true then 1 else 0) := by
  unfold enqueue cntC
  rw [upd_ctx_self]
  split <;> simp only [mail, List.countP_append, List.countP_cons, List.countP_nil] <;> omega

theorem acct_enqueue {s : Sys} (c : Cid) (e : Env) (hv : Valid s) (hc : c < s.n) (he : EnvOK s.n s.nextEnv c e) :
    Acct s (enqueue s c e) (fun i => if carries i e = true then 1 else 0) := by
  have hx := ext_enqueue c e hv hc he
  refine ⟨hx, fun i => ?_⟩
  have h1 := cntC_enqueue i s c e
  have h2 : total i (enqueue s c e) + cntC i (s.ctx c) = total i s + cntC i ((enqueue s c e).ctx c) := by
    unfold enqueue
    have := total_upd i s c (fun x => if e.sys then { x with sysQ := x.sysQ ++ [e] } else { x with userQ := x.userQ ++ [e] }) hc
    rw [upd_ctx_self]
    exact this
  rw [freshI_same (a := s) (b := enqueue s c e) rfl i]
  omega

theorem acct_deadLetter {s : Sys} (e : Env) (hv : Valid s) (hid : ∀ i, carries i e = true → i < s.nextEnv) :
    Acct s (deadLetter s e) (fun i => if carries i e = true then 1 else 0) := by
  rw [deadLetter_eq]
  have he : EnvOK s.n s.nextEnv 0 (dlEnv e) := by
    refine ⟨fun d hd => ?_, trivial, fun h => absurd rfl h, fun i hi => hid i (by rw [← carries_dlEnv]; exact hi)⟩
    have : d = 0 := by simpa [dlEnv] using hd.symm
    rw [this]; exact hv.pos
  exact (acct_enqueue 0 (dlEnv e) hv hv.pos he).congr (fun i => by rw [carries_dlEnv])

theorem total_bump (i : Nat) (s : Sys) : total i { s with nextEnv := s.nextEnv + 1 } = total i s := rfl

theorem freshI_bump (s1 s' : Sys) (h : s'.nextEnv = s1.nextEnv + 1) (i : Nat) :
    freshI s1 s' i = if s1.nextEnv = i then 1 else 0 := by
  unfold freshI; rw [h]
  split <;> split <;> omega

theorem acct_bump_enqueue {s1 : Sys} (hv1 : Valid s1) (c : Cid) (hc : c < s1.n) (sys : Bool) (sender : Option Cid) (k : Nat)
    (hs : ∀ d, sender = some d → d < s1.n) :
    Acct0 s1 (enqueue { s1 with nextEnv := s1.nextEnv + 1 } c { id := s1.nextEnv, sys := sys, sender := sender, msg := .user k }) := by
  have he : EnvOK s1.n (s1.nextEnv + 1) c { id := s1.nextEnv, sys := sys, sender := sender, msg := Msg.user k } :=
    ⟨hs, trivial, fun _ => rfl, fun i hi => by
      have : s1.nextEnv = i := by simpa [carries] using hi
      omega⟩
  have hx := ext_bump_enqueue hv1 c hc _ he (by simp [carries])
  refine ⟨hx, fun i => ?_⟩
  have h := (acct_enqueue (s := { s1 with nextEnv := s1.nextEnv + 1 }) c _ (valid_bump hv1) hc he).cnt i
  have hf : freshI { s1 with nextEnv := s1.nextEnv + 1 }
      (enqueue { s1 with nextEnv := s1.nextEnv + 1 } c { id := s1.nextEnv, sys := sys, sender := sender, msg := .user k }) i = 0 :=
    freshI_same rfl i
  rw [hf, total_bump] at h
  rw [h, freshI_bump s1 _ rfl i]
  simp only [carries, beq_iff_eq]
  omega

theorem acct_bump_deadLetter {s1 : Sys} (hv1 : Valid s1) (sys : Bool) (sender : Option Cid) (k : Nat) :
    Acct0 s1 (deadLetter { s1 with nextEnv := s1.nextEnv + 1 } { id := s1.nextEnv, sys := sys, sender := sender, msg := .user k }) := by
  have hid : ∀ i, carries i ({ id := s1.nextEnv, sys := sys, sender := sender, msg := Msg.user k } : Env) = true → i < s1.nextEnv + 1 := by
    intro i hi
    have : s1.nextEnv = i := by simpa [carries] using hi
    omega
  have hx := ext_bump_deadLetter hv1 _ hid (by simp [carries])
  refine ⟨hx, fun i => ?_⟩
  have h := (acct_deadLetter (s := { s1 with nextEnv := s1.nextEnv + 1 }) _ (valid_bump hv1) hid).cnt i
  have hf : freshI { s1 with nextEnv := s1.nextEnv + 1 }
      (deadLetter { s1 with nextEnv := s1.nextEnv + 1 } { id := s1.nextEnv, sys := sys, sender := sender, msg := .user k }) i = 0 :=
    freshI_same rfl i
  rw [hf, total_bump] at h
  rw [h, freshI_bump s1 _ rfl i]
  simp only [carries, beq_iff_eq]
  omega

theorem acct_tell {s : Sys} (sys : Bool) (sender : Option Cid) (t : Target) (m : Msg) (hv : Valid s)
    (ht : targetOK s.n t) (hs : ∀ d, sender = some d → d < s.n) (hm : msgOK s.n m) (hdl : isDL m = false) :
    Acct0 s (tell s sys sender t m) := by
  unfold tell
  obtain ⟨hv1, hn1, hc1, hx1, hd1, hr1⟩ := resolve_ok t hv ht
  generalize resolve s t = r at hv1 hn1 hc1 hx1 hd1 hr1
  obtain ⟨s1, c?⟩ := r
  simp only at hv1 hn1 hc1 hx1 hd1 hr1 ⊢
  have h01 : Acct0 s s1 := acct_of_ext (ext_of_valid hv1 hn1 hc1 hx1 hd1) hn1 hc1 hx1 hd1
  have hs1 : ∀ d, sender = some d → d < s1.n := by rw [hn1]; exact hs
  have hm1 : msgOK s1.n m := by rw [hn1]; exact hm
  cases m with
  | user k =>
    cases c? with
    | some c =>
      simp only
      exact h01.trans0 (acct_bump_enqueue hv1 c (by rw [hn1]; exact hr1 c rfl) sys sender k hs1)
    | none =>
      simp only
      exact h01.trans0 (acct_bump_deadLetter hv1 sys sender k)
  | deadLetter x u d => simp [isDL] at hdl
  | _ =>
    cases c? with
    | some c =>
      simp only
      have hc : c < s1.n := by rw [hn1]; exact hr1 c rfl
      refine h01.trans0 ((acct_enqueue c _ hv1 hc (envOK_plain sys sender _ hs1 hm1 hdl (by intro k h; cases h))).congr (fun i => ?_))
      rw [carries_other i _ (by intro k h; cases h) hdl]; rfl
    | none =>
      simp only
      refine h01.trans0 ((acct_deadLetter _ hv1 (fun i hi => ?_)).congr (fun i => ?_))
      · rw [carries_other i _ (by intro k h; cases h) hdl] at hi; cases hi
      · rw [carries_other i _ (by intro k h; cases h) hdl]; rfl

theorem acct_tellAll {s : Sys} (ts : List Cid) (sys : Bool) (sender : Option Cid) (m : Msg) (hv : Valid s)
    (ht : ∀ t ∈ ts, t < s.n) (hs : ∀ d, sender = some d → d < s.n) (hm : msgOK s.n m) (hdl : isDL m = false) :
    Acct0 s (tellAll s sys sender ts m) := by
  unfold tellAll
  induction ts generalizing s with
  | nil => exact Acct.refl hv
  | cons t r ih =>
    simp only [List.foldl_cons]
    have h1 := acct_tell sys sender (.own t) m hv (ht t (by simp)) hs hm hdl
    exact h1.trans0 (ih h1.ext.valid (fun t' ht' => Nat.lt_of_lt_of_le (ht t' (by simp [ht'])) h1.ext.n_le)
      (fun d hd => Nat.lt_of_lt_of_le (hs d hd) h1.ext.n_le) (msgOK_mono hm h1.ext.n_le))

theorem acct_foldl_tell {s : Sys} (ts : List Cid) (sys : Bool) (sender : Option Cid) (m : Msg) (hv : Valid s)
    (ht : ∀ t ∈ ts, t < s.n) (hs : ∀ d, sender = some d → d < s.n) (hm : msgOK s.n m) (hdl : isDL m = false) :
    Acct0 s (ts.foldl (fun acc t => tell acc sys sender (.own t) m) s) := acct_tellAll ts sys sender m hv ht hs hm hdl

theorem acct_failed {s : Sys} (self : Cid) (hv : Valid s) (hself : self < s.n) : Acct0 s (failed s self) := by
  unfold failed
  have h1 := acct_upd_same self (fun x => { x with paused := true }) hv (fun _ => rfl)
  have ht : targetOK (upd s self (fun x => { x with paused := true })).n
      (match (s.ctx self).parent with | some p => Target.own p | none => Target.nobody) := parentTarget_ok self hv
  have h2 := acct_tell true (some self) _ (.supervise [(self, [])] []) h1.ext.valid ht
    (fun d hd => by cases hd; exact hself)
    (by intro p hp; simp only [List.mem_singleton] at hp; rw [hp]; exact ⟨hself, fun t ht => by cases ht⟩) rfl
  exact (h1.trans0 h2).trans0 (acct_say _ h2.ext.valid)

theorem acct_schedule {s : Sys} (self : Cid) (ref : String) (hv : Valid s) : Acct0 s (schedule s self ref) := by
  unfold schedule
  simp only
  have h1 := acct_upd_same self (fun x => { x with jobs := (ref, jobKey (s.ctx self).path ref) :: x.jobs.filter (fun e => e.1 ≠ ref) }) hv (fun _ => rfl)
  split
  · exact h1
  · exact h1.trans0 (acct_rec _ h1.ext.valid rfl rfl rfl rfl rfl rfl rfl)

theorem acct_clearJobs {s : Sys} (self : Cid) (hv : Valid s) : Acct0 s (clearJobs s self) := by
  unfold clearJobs
  have h0 : Acct0 s { s with jobTable := s.jobTable.filter (fun e => !((s.ctx self).jobs.map (·.2)).contains e.1) } :=
    acct_rec _ hv rfl rfl rfl rfl rfl rfl rfl
  exact h0.trans0 (acct_upd_same self (fun x => { x with jobs := [] }) h0.ext.valid (fun _ => rfl))

theorem acct_subs {s : Sys} (subs' : Subs) (hv : Valid s) (h : ∀ e ∈ subs', e.2.2 < s.n) : Acct0 s { s with subs := subs' } :=
  acct_of_ext (ext_subs subs' hv h) rfl rfl rfl rfl

theorem acct_shrink {s : Sys} (s' : Sys) (hv : Valid s) (h1 : s'.n = s.n) (h2 : s'.ctx = s.ctx) (h3 : s'.nextEnv = s.nextEnv)
    (h4 : ∀ e ∈ s'.registry, e ∈ s.registry) (h5 : s'.refs = s.refs) (h6 : ∀ e ∈ s'.subs, e ∈ s.subs)
    (h7 : s'.deadLetters = s.deadLetters) : Acct0 s s' :=
  acct_of_ext (ext_shrink s' hv h1 h2 h3 h4 h5 h6 h7) h1 h2 h3 h7

theorem acct_actorOf {s : Sys} (parent : Cid) (name : String) (script strat hooks : Nat) (ds : List Nat)
    (hv : Valid s) (hp : parent < s.n) : Acct0 s (actorOf s parent name script strat hooks ds) := by
  unfold actorOf
  simp only
  split
  · exact acct_say _ hv
  · split
    · exact acct_say _ hv
    · split
      · exact acct_say _ hv
      · let path := joinPath (s.ctx parent).path name
        let nc : Ctx := { blankCtx with path := path, name := name, parent := some parent, state := .running, script := script, behaviors := [script], strat := strat, decisions := ds, hooks := hooks }
        let s1 : Sys := { s with n := s.n + 1, ctx := fun x => if x = s.n then nc else s.ctx x, registry := (path, s.n) :: s.registry }
        have hnc : mail nc = [] := rfl
        have hv1 : Valid s1 := by
          refine ⟨Nat.succ_pos _, fun c => ?_, fun e he => ?_, fun e he c hc => Nat.lt_succ_of_lt (hv.refs e he c hc),
            fun e he => Nat.lt_succ_of_lt (hv.subs e he), hv.dls⟩
          · by_cases hc : c = s.n
            · have : s1.ctx c = nc := by simp [s1, hc]
              rw [this]
              refine ⟨fun p hpp => ?_, fun k hk => (by cases hk), fun w hw => (by cases hw),
                fun e he => (by rw [hnc] at he; cases he), fun _ => hnc⟩
              have : p = parent := by simpa [nc] using hpp.symm
              rw [this]; exact Nat.lt_succ_of_lt hp
            · have : s1.ctx c = s.ctx c := by simp [s1, hc]
              rw [this]; exact (hv.ctx c).mono (Nat.le_succ _) (Nat.le_refl _)
          · simp only [s1, List.mem_cons] at he
            rcases he with he | he
            · rw [he]; exact Nat.lt_succ_self _
            · exact Nat.lt_succ_of_lt (hv.reg e he)
        have hx01 : Ext s s1 := by
          refine ⟨hv1, Nat.le_succ _, Nat.le_refl _, fun c e he => ?_, fun _ h => h,
            fun i h1 h2 => absurd h2 (Nat.not_lt.mpr h1)⟩
          by_cases hc : c = s.n
          · rw [hc, (hv.ctx s.n).blank (Nat.le_refl _)] at he; cases he
          · have : s1.ctx c = s.ctx c := by simp [s1, hc]
            rw [this]; exact he
        have h01 : Acct0 s s1 := by
          refine ⟨hx01, fun i => ?_⟩
          have hf : freshI s s1 i = 0 := freshI_same rfl i
          rw [hf]
          have e1 : total i s1 = sumTo (s.n + 1) (fun d => cntC i (s1.ctx d)) + s.deadLetters.count i := rfl
          have e2 : total i s = sumTo s.n (fun d => cntC i (s.ctx d)) + s.deadLetters.count i := rfl
          rw [e1, e2, sumTo_succ]
          have h1 : sumTo s.n (fun d => cntC i (s1.ctx d)) = sumTo s.n (fun d => cntC i (s.ctx d)) :=
            sumTo_congr _ _ _ (fun c hc => by
              have : s1.ctx c = s.ctx c := by simp [s1, Nat.ne_of_lt hc]
              simp only [this])
          have h2 : cntC i (s1.ctx s.n) = 0 := by
            have : s1.ctx s.n = nc := by simp [s1]
            rw [this]; unfold cntC; rw [hnc]; rfl
          rw [h1, h2]; omega
        have hpn : parent ≠ s.n := Nat.ne_of_lt hp
        have h12 : Acct0 s1 (upd s1 parent
            (fun x => { x with children := x.children.filter (fun k => (s.ctx k).path ≠ path) ++ [s.n] })) := by
          have hx := hv1.ctx parent
          refine acct_upd parent _ _ ?_ (Nat.lt_succ_of_lt hp) (fun i => rfl)
          apply ext_upd parent _ hv1
          · refine ⟨hx.parent, fun k hk => ?_, hx.watchers, hx.envs, hx.blank⟩
            simp only [List.mem_append, List.mem_singleton] at hk
            rcases hk with hk | hk
            · exact hx.children k (List.mem_filter.mp hk).1
            · rw [hk]; exact Nat.lt_succ_self _
          · intro e he; exact he
        have h02 := h01.trans0 h12
        have h23 := acct_tell true (some parent) (.own s.n) .onLaunch h02.ext.valid (Nat.lt_succ_self s.n)
          (fun d hd => by cases hd; exact Nat.lt_succ_of_lt hp) trivial rfl
        have h03 := h02.trans0 h23
        have h04 := h03.trans0 (acct_say s!"spawned:{s.n}:{path}" h03.ext.valid)
        split
        · refine h04.trans0 (acct_tell true (some parent) (.own s.n) (.onKill false) h04.ext.valid ?_ ?_ trivial rfl)
          · exact Nat.lt_of_lt_of_le (Nat.lt_succ_self s.n) (Nat.le_trans h12.ext.n_le (Nat.le_trans h23.ext.n_le (acct_say _ h03.ext.valid).ext.n_le))
          · intro d hd; cases hd
            exact Nat.lt_of_lt_of_le (Nat.lt_succ_of_lt hp) (Nat.le_trans h12.ext.n_le (Nat.le_trans h23.ext.n_le (acct_say _ h03.ext.valid).ext.n_le))
        · exact h04

def stashCount : List Action → Nat
  | [] => 0
  | .panic :: _ => 0
  | .stash :: r => stashCount r + 1
  | _ :: r => stashCount r

theorem acct_foldl_enqueue (self : Cid) (l : List Env) :
    ∀ s, Valid s → self < s.n → (∀ e ∈ l, EnvOK s.n s.nextEnv self e) →
      Acct s (l.foldl (fun acc e => enqueue acc self e) s) (fun i => l.countP (fun e => carries i e)) := by
  induction l with
  | nil => intro s hv _ _; exact (Acct.refl hv).congr (fun i => rfl)
  | cons e0 t ih =>
    intro s hv hself hl
    simp only [List.foldl_cons]
    have h1 := acct_enqueue self e0 hv hself (hl e0 (by simp))
    have h2 := ih (enqueue s self e0) h1.ext.valid hself (fun e he => hl e (by simp [he]))
    refine (h1.trans h2).congr (fun i => ?_)
    simp only [List.countP_cons]
    omega

theorem acct_unstash {s : Sys} (self : Cid) (cnt : Nat) (hv : Valid s) (hself : self < s.n) :
    Acct0 s (upd (((s.ctx self).stash.take cnt).foldl (fun acc e => enqueue acc self e) s) self
      (fun x => { x with stash := x.stash.drop cnt })) := by
  refine ⟨ext_unstash self cnt hv hself, fun i => ?_⟩
  have hx := hv.ctx self
  have ha := acct_foldl_enqueue self ((s.ctx self).stash.take cnt) s hv hself
    (fun e he => hx.envs e (mem_mail.mpr (Or.inr (Or.inr (List.mem_of_mem_take he)))))
  obtain ⟨_, hnx, hb, _⟩ := foldl_enqueue_facts self ((s.ctx self).stash.take cnt) s hv hself
    (fun e he => hx.envs e (mem_mail.mpr (Or.inr (Or.inr (List.mem_of_mem_take he)))))
  have hcnt := ha.cnt i
  generalize ((s.ctx self).stash.take cnt).foldl (fun acc e => enqueue acc self e) s = s' at ha hnx hb hcnt ⊢
  have hn' : self < s'.n := Nat.lt_of_lt_of_le hself ha.ext.n_le
  have hu := total_upd i s' self (fun x => { x with stash := x.stash.drop cnt }) hn'
  have hsplit : cntC i (s'.ctx self) =
      cntC i ({ (s'.ctx self) with stash := (s'.ctx self).stash.drop cnt }) + ((s.ctx self).stash.take cnt).countP (fun e => carries i e) := by
    unfold cntC
    simp only [mail, List.countP_append]
    have : (s'.ctx self).stash = (s.ctx self).stash.take cnt ++ (s.ctx self).stash.drop cnt := by
      rw [hb, List.take_append_drop]
    have h2 : List.countP (fun e => carries i e) (s'.ctx self).stash =
        List.countP (fun e => carries i e) ((s.ctx self).stash.take cnt) + List.countP (fun e => carries i e) ((s'.ctx self).stash.drop cnt) := by
      rw [hb, ← List.countP_append, List.take_append_drop]
    omega
  have hf0 : freshI s s' i = 0 := freshI_same hnx i
  have hf1 : freshI s (upd s' self (fun x => { x with stash := x.stash.drop cnt })) i = 0 := freshI_same hnx i
  rw [hf0] at hcnt
  rw [hf1]
  dsimp only at hsplit
  omega

theorem acct_runActions (self : Cid) (cur : Env) (acts : List Action) :
    ∀ s, Valid s → CurOK s self cur →
      Acct s (runActions s self cur acts).s (fun i => if carries i cur = true then stashCount acts else 0) := by
  induction acts with
  | nil => intro s hv _; exact (Acct.refl hv).congr (fun i => by simp [stashCount])
  | cons a rest ih =>
    intro s hv hc
    have step : ∀ s1, Acct0 s s1 → Acct s (runActions s1 self cur rest).s (fun i => if carries i cur = true then stashCount rest else 0) :=
      fun s1 h1 => h1.trans0 (ih s1 h1.ext.valid (hc.ext h1.ext))
    have hsend : ∀ d, some self = some d → d < s.n := fun d hd => by cases hd; exact hc.self_lt
    cases a with
    | panic => exact (Acct.refl hv).congr (fun i => by simp [stashCount])
    | tell t k =>
      simp only [runActions, stashCount]
      exact step _ (acct_tell false (some self) _ (.user k) hv (evalTarget_ok self cur t hv hc) hsend trivial rfl)
    | spawn name script kind decisions hooks =>
      simp only [runActions, stashCount]; exact step _ (acct_actorOf self name script kind hooks decisions hv hc.self_lt)
    | kill t poison =>
      simp only [runActions, stashCount]
      exact step _ (acct_tell (!poison) (some self) _ (.onKill poison) hv (evalTarget_ok self cur t hv hc) hsend trivial rfl)
    | stash =>
      simp only [runActions, stashCount]
      have hx := hv.ctx self
      have hext : Ext s (upd s self (fun x => { x with stash := x.stash ++ [cur] })) := by
        apply ext_upd self _ hv
        · refine ⟨hx.parent, hx.children, hx.watchers, fun e he => ?_, fun h => absurd hc.self_lt (Nat.not_lt.mpr h)⟩
          rcases mem_mail.mp he with h | h | h
          · exact hx.envs e (mem_mail.mpr (Or.inl h))
          · exact hx.envs e (mem_mail.mpr (Or.inr (Or.inl h)))
          · simp only [List.mem_append, List.mem_singleton] at h
            rcases h with h | h
            · exact hx.envs e (mem_mail.mpr (Or.inr (Or.inr h)))
            · rw [h]; exact hc.env
        · intro e he
          rcases mem_mail.mp he with h | h | h
          · exact mem_mail.mpr (Or.inl h)
          · exact mem_mail.mpr (Or.inr (Or.inl h))
          · exact mem_mail.mpr (Or.inr (Or.inr (by simp [h])))
      have h1 : Acct s (upd s self (fun x => { x with stash := x.stash ++ [cur] })) (fun i => if carries i cur = true then 1 else 0) := by
        refine acct_upd self _ _ hext hc.self_lt (fun i => ?_)
        unfold cntC
        simp only [mail, List.countP_append, List.countP_cons, List.countP_nil]
        omega
      refine (h1.trans (ih _ h1.ext.valid (hc.ext h1.ext))).congr (fun i => ?_)
      split <;> omega
    | unstash n =>
      simp only [runActions, stashCount]
      exact step _ (acct_unstash self _ hv hc.self_lt)
    | watch t =>
      simp only [runActions, stashCount]
      exact step _ (acct_tell true (some self) _ .watch hv (evalTarget_ok self cur t hv hc) hsend trivial rfl)
    | unwatch t =>
      simp only [runActions, stashCount]
      exact step _ (acct_tell true (some self) _ .unwatch hv (evalTarget_ok self cur t hv hc) hsend trivial rfl)
    | become sc => simp only [runActions, stashCount]; exact step _ (acct_upd_same self _ hv (fun _ => rfl))
    | unbecome => simp only [runActions, stashCount]; exact step _ (acct_upd_same self _ hv (fun _ => rfl))
    | sub ty =>
      simp only [runActions, stashCount]
      apply step
      apply acct_subs _ hv
      intro e he
      unfold esSub at he
      split at he
      · exact hv.subs e he
      · simp only [List.mem_append, List.mem_singleton] at he
        rcases he with he | he
        · exact hv.subs e he
        · rw [he]; exact hc.self_lt
    | unsub ty =>
      simp only [runActions, stashCount]
      exact step _ (acct_subs _ hv (fun e he => hv.subs e (List.mem_filter.mp he).1))
    | unsubAll =>
      simp only [runActions, stashCount]
      exact step _ (acct_subs _ hv (fun e he => hv.subs e (List.mem_filter.mp he).1))
    | pub ty =>
      simp only [runActions, stashCount]
      apply step
      have h0 : Acct0 s { s with nextPub := s.nextPub + 1 } := acct_rec _ hv rfl rfl rfl rfl rfl rfl rfl
      refine h0.trans0 (acct_foldl_tell (esTargets s.subs ty) false (some 0) (.event ty s.nextPub) h0.ext.valid ?_ ?_ trivial rfl)
      · intro t ht
        obtain ⟨e, he, rfl⟩ := mem_esTargets ht
        exact hv.subs e he
      · intro d hd; cases hd; exact hv.pos
    | sched kind ref k => simp only [runActions, stashCount]; exact step _ (acct_schedule self ref hv)
    | cancel ref =>
      simp only [runActions, stashCount]
      split
      · exact step _ (acct_say _ hv)
      · rename_i key _
        apply step
        have h0 : Acct0 s { s with jobTable := s.jobTable.filter (fun e => e.1 ≠ key) } := acct_rec _ hv rfl rfl rfl rfl rfl rfl rfl
        have h1 := h0.trans0 (acct_upd_same self (fun x => { x with jobs := x.jobs.filter (fun e => e.1 ≠ ref) }) h0.ext.valid (fun _ => rfl))
        exact h1.trans0 (acct_say _ h1.ext.valid)
    | schedClear => simp only [runActions, stashCount]; exact step _ (acct_clearJobs self hv)
    | cron valid ref =>
      simp only [runActions, stashCount]
      split
      · exact step _ (acct_schedule self ref hv)
      · exact step _ (acct_say _ hv)

/-- What the root publishes when it is shown message `m`. -/
def pubD (m : Msg) (i : Nat) : Nat :=
  match m with
  | .deadLetter x true _ => if x = i then 1 else 0
  | _ => 0

/-- The copies `behave` adds for id `i`: stash calls of the rule on the current envelope, or the
root's publication of a dead-letter notice. -/
def behD (s : Sys) (self : Cid) (beh : Nat) (cur : Env) (m : Msg) (i : Nat) : Nat :=
  if (s.ctx self).zombie then 0
  else if self = 0 then pubD m i
  else match triggerOf m 0 self with
    | none => 0
    | some trig => if carries i cur = true then stashCount (ruleFor ((s.scripts.lookup beh).getD []) trig) else 0

theorem acct_behave {s : Sys} (self : Cid) (beh : Nat) (cur : Env) (m : Msg) (hv : Valid s) (hc : CurOK s self cur)
    (hm : MsgIdOK s m) : Acct s (behave s self beh cur m).s (behD s self beh cur m) := by
  unfold behave behD
  simp only
  split
  · exact (Acct.refl hv).congr (fun i => rfl)
  · split
    · simp only
      unfold guardBehave
      split
      · refine Acct.congr (d := fun _ => 0) ?_ (fun i => by simp [pubD])
        split
        · exact acct_rec _ hv rfl rfl rfl rfl rfl rfl rfl
        · exact Acct.refl hv
      · rename_i e isUser d
        have hv1 : Valid { s with deadLetters := if isUser = true then s.deadLetters ++ [e] else s.deadLetters } := by
          refine ⟨hv.pos, hv.ctx, hv.reg, hv.refs, hv.subs, fun i hi => ?_⟩
          simp only at hi
          split at hi
          · rename_i hu
            simp only [List.mem_append, List.mem_singleton] at hi
            rcases hi with hi | hi
            · exact hv.dls i hi
            · rw [hi]; exact hm e d (by rw [hu])
          · exact hv.dls i hi
        have hx1 : Ext s { s with deadLetters := if isUser = true then s.deadLetters ++ [e] else s.deadLetters } := by
          refine ⟨hv1, Nat.le_refl _, Nat.le_refl _, fun _ _ h => h, fun i hi => ?_, fun i h1 h2 => absurd h2 (Nat.not_lt.mpr h1)⟩
          simp only
          split
          · exact List.mem_append_left _ hi
          · exact hi
        have h1 : Acct s { s with deadLetters := if isUser = true then s.deadLetters ++ [e] else s.deadLetters }
            (pubD (.deadLetter e isUser d)) := by
          refine ⟨hx1, fun i => ?_⟩
          have hf : freshI s { s with deadLetters := if isUser = true then s.deadLetters ++ [e] else s.deadLetters } i = 0 :=
            freshI_same rfl i
          rw [hf]
          have e1 : total i { s with deadLetters := if isUser = true then s.deadLetters ++ [e] else s.deadLetters } =
              sumTo s.n (fun c => cntC i (s.ctx c)) + (if isUser = true then s.deadLetters ++ [e] else s.deadLetters).count i := rfl
          have e2 : total i s = sumTo s.n (fun c => cntC i (s.ctx c)) + s.deadLetters.count i := rfl
          rw [e1, e2]
          cases isUser with
          | false => simp [pubD]
          | true =>
            simp only [if_true, pubD, List.count_append, List.count_cons, List.count_nil, beq_iff_eq]
            split <;> omega
        exact h1.trans0' (acct_say _ hv1)
      · refine Acct.congr (d := fun _ => 0) (Acct.refl hv) (fun i => ?_)
        rename_i m' h1 h2
        unfold pubD
        split
        · rename_i x d
          exact absurd rfl (h2 x true d)
        · rfl
    · cases htr : triggerOf m 0 self with
      | none => exact (Acct.refl hv).congr (fun i => rfl)
      | some trig =>
        simp only
        have h1 := acct_say (s := s) s!"seen:{self}:{(s.ctx self).inc}:{trig}" hv
        exact (h1.trans0 (acct_runActions self cur _ _ h1.ext.valid (hc.ext h1.ext)))

theorem behD_zero (s : Sys) (self : Cid) (beh : Nat) (cur : Env) (m : Msg) (hcur : ∀ i, carries i cur = false)
    (hm : isDL m = false) (i : Nat) : behD s self beh cur m i = 0 := by
  unfold behD
  split
  · rfl
  · split
    · unfold pubD
      split
      · simp [isDL] at hm
      · rfl
    · split
      · rfl
      · rw [hcur i]; rfl

theorem acct_execRecover {s : Sys} (self : Cid) (beh : Nat) (cur : Env) (m : Msg) (hv : Valid s) (hc : CurOK s self cur)
    (hm : MsgIdOK s m) : Acct s (execRecover s self beh cur m) (behD s self beh cur m) := by
  unfold execRecover
  have hb := acct_behave self beh cur m hv hc hm
  have hf := hb.trans0' (acct_failed self hb.ext.valid (Nat.lt_of_lt_of_le hc.self_lt hb.ext.n_le))
  simp only
  split
  · split
    · exact hb
    · split
      · exact hb
      · exact hf
    · exact hf
  · exact hb

theorem acct_execRecover0 {s : Sys} (self : Cid) (beh : Nat) (cur : Env) (m : Msg) (hv : Valid s) (hc : CurOK s self cur)
    (hcur : ∀ i, carries i cur = false) (hm : isDL m = false) : Acct0 s (execRecover s self beh cur m) :=
  (acct_execRecover self beh cur m hv hc (msgIdOK_plain _ _ hm)).congr (behD_zero s self beh cur m hcur hm)

theorem acct_execSwallow0 {s : Sys} (self : Cid) (beh : Nat) (cur : Env) (m : Msg) (hv : Valid s) (hc : CurOK s self cur)
    (hcur : ∀ i, carries i cur = false) (hm : isDL m = false) : Acct0 s (execSwallow s self beh cur m) :=
  (acct_behave self beh cur m hv hc (msgIdOK_plain _ _ hm)).congr (behD_zero s self beh cur m hcur hm)

theorem acct_cleanup {s : Sys} (self : Cid) (hv : Valid s) (hself : self < s.n) : Acct0 s (cleanup s self) := by
  unfold cleanup
  simp only
  have h0 : Acct0 s (unregister { s with subs := esUnsubAll s.subs (s.ctx self).path } (s.ctx self).path) :=
    acct_shrink _ hv rfl rfl rfl (fun e he => (List.mem_filter.mp he).1) rfl (fun e he => (List.mem_filter.mp he).1) rfl
  have hsend : ∀ (x : Sys), s.n ≤ x.n → ∀ d, some self = some d → d < x.n :=
    fun x hx d hd => by cases hd; exact Nat.lt_of_lt_of_le hself hx
  have h1 := h0.trans0 (acct_tellAll (s.ctx self).watchers true (some self) (.onKilled self) h0.ext.valid
    (fun t ht => (hv.ctx self).watchers t ht) (hsend _ h0.ext.n_le) trivial rfl)
  split
  · rename_i p hp
    have h2 := h1.trans0 (acct_tell true (some self) (.own p) (.onKilled self) h1.ext.valid
      (Nat.lt_of_lt_of_le ((hv.ctx self).parent p hp) h1.ext.n_le) (hsend _ h1.ext.n_le) trivial rfl)
    have h3 := h2.trans0 (acct_say s!"killed-event:{self}" h2.ext.valid)
    exact h3.trans0 (acct_upd_same self (fun x => { x with paused := false }) h3.ext.valid (fun _ => rfl))
  · have h3 := h1.trans0 (acct_say s!"killed-event:{self}" h1.ext.valid)
    exact h3.trans0 (acct_upd_same self (fun x => { x with paused := false }) h3.ext.valid (fun _ => rfl))

theorem carries_plain (sys : Bool) (sender : Option Cid) (m : Msg) (hdl : isDL m = false) (hu : ∀ k, m ≠ .user k) (i : Nat) :
    carries i ({ id := 0, sys := sys, sender := sender, msg := m } : Env) = false :=
  carries_other i _ hu hdl

theorem acct_handleRestart {s : Sys} (self : Cid) (hv : Valid s) (hself : self < s.n) : Acct0 s (handleRestart s self) := by
  unfold handleRestart
  simp only
  have h1 := acct_upd_same self (fun x => { x with behaviors := [x.script] }) hv (fun _ => rfl)
  split
  · have h2 := h1.trans0 (acct_upd_same self (fun x => { x with zombie := true, paused := false }) h1.ext.valid (fun _ => rfl))
    exact h2.trans0 (acct_say _ h2.ext.valid)
  · have h2 := h1.trans0 (acct_upd_same self (fun x => { x with restarting := none, state := .running, inc := x.inc + 1 }) h1.ext.valid (fun _ => rfl))
    split
    · have h3 := h2.trans0 (acct_upd_same self (fun x => { x with paused := false }) h2.ext.valid (fun _ => rfl))
      have h4 := h3.trans0 (acct_say s!"restarted:{self}" h3.ext.valid)
      exact h4.trans0 (acct_execRecover0 self _ _ .onLaunch h4.ext.valid
        (curOK_synthetic self (Nat.lt_of_lt_of_le hself h4.ext.n_le) true .onLaunch trivial rfl (by intro k h; cases h))
        (carries_plain true (some self) .onLaunch rfl (by intro k h; cases h)) rfl)
    · have h3 := h2.trans0 (acct_tell true (some self)
        (match (s.ctx self).parent with | some p => Target.own p | none => Target.nobody) .onLaunch h2.ext.valid
        (parentTarget_ok self hv) (fun d hd => by cases hd; exact hself) trivial rfl)
      have h4 := h3.trans0 (acct_upd_same self (fun x => { x with paused := false }) h3.ext.valid (fun _ => rfl))
      exact h4.trans0 (acct_say _ h4.ext.valid)

theorem carries_retag (cur : Env) (sys : Bool) (m : Msg) (hdl : isDL m = false) (hu : ∀ k, m ≠ .user k) (i : Nat) :
    carries i ({ cur with sys := sys, msg := m } : Env) = false := carries_other i _ hu hdl

theorem carries_retag' (cur : Env) (m : Msg) (hdl : isDL m = false) (hu : ∀ k, m ≠ .user k) (i : Nat) :
    carries i ({ cur with msg := m } : Env) = false := carries_other i _ hu hdl

theorem acct_onKilled {s : Sys} (self : Cid) (beh : Nat) (cur : Env) (who : Cid) (hv : Valid s) (hc : CurOK s self cur)
    (hcur : ∀ i, carries i cur = false) : Acct0 s (onKilled s self beh cur who) := by
  unfold onKilled
  simp only
  split
  · exact acct_cleanup self hv hc.self_lt
  · have h1 : Acct0 s (if who ≠ self then
        execRecover (upd s self (fun x => { x with children := x.children.filter (· ≠ who) })) self beh cur (.onKilled who)
        else s) := by
      split
      · have hx := hv.ctx self
        have h0 : Acct0 s (upd s self (fun x => { x with children := x.children.filter (· ≠ who) })) :=
          acct_upd self _ _ (ext_upd self _ hv ⟨hx.parent, fun k hk => hx.children k (List.mem_filter.mp hk).1, hx.watchers, hx.envs, hx.blank⟩
            (fun e he => he)) hc.self_lt (fun i => rfl)
        exact h0.trans0 (acct_execRecover0 self beh cur (.onKilled who) h0.ext.valid (hc.ext h0.ext) hcur rfl)
      · exact Acct.refl hv
    generalize (if who ≠ self then
        execRecover (upd s self (fun x => { x with children := x.children.filter (· ≠ who) })) self beh cur (.onKilled who)
        else s) = s1 at h1 ⊢
    split
    · exact h1
    · have h2 := h1.trans0 (acct_upd_same self (fun x => { x with state := .killed }) h1.ext.valid (fun _ => rfl))
      have hc2 : CurOK (upd s1 self (fun x => { x with state := .killed })) self { cur with sys := true, msg := .onKilled self } :=
        curOK_retag (hc.ext h2.ext) true (.onKilled self) trivial rfl (by intro k h; cases h)
      have hcur2 := carries_retag cur true (.onKilled self) rfl (by intro k h; cases h)
      cases hr : (s1.ctx self).restarting.isSome with
      | true =>
        simp only [if_true]
        have h3 := h2.trans0 (acct_execSwallow0 self beh _ (.onKilled self) h2.ext.valid hc2 hcur2 rfl)
        have h4 := h3.trans0 (acct_clearJobs self h3.ext.valid)
        exact h4.trans0 (acct_handleRestart self h4.ext.valid (Nat.lt_of_lt_of_le hc.self_lt h4.ext.n_le))
      | false =>
        simp only [Bool.false_eq_true, if_false]
        have h3 := h2.trans0 (acct_execRecover0 self beh _ (.onKilled self) h2.ext.valid hc2 hcur2 rfl)
        have h4 := h3.trans0 (acct_cleanup self h3.ext.valid (Nat.lt_of_lt_of_le hc.self_lt h3.ext.n_le))
        exact h4.trans0 (acct_clearJobs self h4.ext.valid)

theorem acct_doKill {s : Sys} (self : Cid) (beh : Nat) (cur : Env) (poison : Bool) (hv : Valid s) (hc : CurOK s self cur) :
    Acct0 s (doKill s self beh cur poison) := by
  unfold doKill
  simp only
  have h1 := acct_foldl_tell (s.ctx self).children (!poison) (some self) (.onKill poison) hv
    (fun t ht => (hv.ctx self).children t ht) (fun d hd => by cases hd; exact hc.self_lt) trivial rfl
  have hc1 : CurOK _ self { cur with msg := .onKill poison } :=
    curOK_retag' (hc.ext h1.ext) (.onKill poison) trivial rfl (by intro k h; cases h)
  have hcur1 := carries_retag' cur (.onKill poison) rfl (by intro k h; cases h)
  have h2 : Acct0 s (if (s.ctx self).restarting.isSome = true then
      execSwallow ((s.ctx self).children.foldl (fun acc ch => tell acc (!poison) (some self) (.own ch) (.onKill poison)) s)
        self beh { cur with msg := .onKill poison } (.onKill poison)
      else execRecover ((s.ctx self).children.foldl (fun acc ch => tell acc (!poison) (some self) (.own ch) (.onKill poison)) s)
        self beh { cur with msg := .onKill poison } (.onKill poison)) := by
    split
    · exact h1.trans0 (acct_execSwallow0 self beh _ _ h1.ext.valid hc1 hcur1 rfl)
    · exact h1.trans0 (acct_execRecover0 self beh _ _ h1.ext.valid hc1 hcur1 rfl)
  exact h2.trans0 (acct_onKilled self beh _ self h2.ext.valid
    (curOK_retag' (hc.ext h2.ext) (.onKill poison) trivial rfl (by intro k h; cases h)) hcur1)

theorem parentTarget_ok' {s : Sys} (self : Cid) (hv : Valid s) (n' : Nat) (h : s.n ≤ n') :
    targetOK n' (match (s.ctx self).parent with | some p => Target.own p | none => Target.nobody) := by
  split
  · rename_i p hp; exact Nat.lt_of_lt_of_le ((hv.ctx self).parent p hp) h
  · trivial

theorem acct_onSupervise_core {s : Sys} (self fc : Cid) (targets allT : List Cid) (chain' : List (Cid × List Cid))
    (decision : Nat) (s0 : Sys) (h0 : Acct0 s s0) (hv : Valid s) (hself : self < s.n)
    (htg : ∀ t ∈ targets, t < s.n) (hall : ∀ t ∈ allT, t < s.n) (hch' : chainOK s.n chain') :
    Acct0 s (
      let s1 := say s0 s!"decide:{self}:{fc}:{decision}"
      let s2 := tellAll s1 true (some self) targets .cmdPause
      if decision = 1 then tellAll s2 true (some self) targets (.restart false)
      else if decision = 2 then
        tellAll (tellAll s2 false (some self) targets (.restart true)) true (some self) allT .cmdResume
      else if decision = 3 then tellAll s2 true (some self) targets (.onKill false)
      else if decision = 4 then
        tellAll (tellAll s2 false (some self) targets (.onKill true)) true (some self) allT .cmdResume
      else if decision = 5 then tellAll s2 true (some self) allT .cmdResume
      else
        let s3 := upd s2 self (fun x => { x with paused := true })
        let t : Target := match (s.ctx self).parent with | some p => .own p | none => .nobody
        tell s3 true (some self) t (.supervise ((self, []) :: chain') [])) := by
  simp only
  have h1 := h0.trans0 (acct_say s!"decide:{self}:{fc}:{decision}" h0.ext.valid)
  have hsend : ∀ (x : Sys), s.n ≤ x.n → ∀ d, some self = some d → d < x.n :=
    fun x hx d hd => by cases hd; exact Nat.lt_of_lt_of_le hself hx
  have lift : ∀ (x : Sys) (l : List Cid), s.n ≤ x.n → (∀ t ∈ l, t < s.n) → ∀ t ∈ l, t < x.n :=
    fun x l hx hl t ht => Nat.lt_of_lt_of_le (hl t ht) hx
  have h2 := h1.trans0 (acct_tellAll targets true (some self) .cmdPause h1.ext.valid (lift _ _ h1.ext.n_le htg) (hsend _ h1.ext.n_le) trivial rfl)
  split
  · exact h2.trans0 (acct_tellAll targets true (some self) (.restart false) h2.ext.valid (lift _ _ h2.ext.n_le htg) (hsend _ h2.ext.n_le) trivial rfl)
  · split
    · have h3 := h2.trans0 (acct_tellAll targets false (some self) (.restart true) h2.ext.valid (lift _ _ h2.ext.n_le htg) (hsend _ h2.ext.n_le) trivial rfl)
      exact h3.trans0 (acct_tellAll allT true (some self) .cmdResume h3.ext.valid (lift _ _ h3.ext.n_le hall) (hsend _ h3.ext.n_le) trivial rfl)
    · split
      · exact h2.trans0 (acct_tellAll targets true (some self) (.onKill false) h2.ext.valid (lift _ _ h2.ext.n_le htg) (hsend _ h2.ext.n_le) trivial rfl)
      · split
        · have h3 := h2.trans0 (acct_tellAll targets false (some self) (.onKill true) h2.ext.valid (lift _ _ h2.ext.n_le htg) (hsend _ h2.ext.n_le) trivial rfl)
          exact h3.trans0 (acct_tellAll allT true (some self) .cmdResume h3.ext.valid (lift _ _ h3.ext.n_le hall) (hsend _ h3.ext.n_le) trivial rfl)
        · split
          · exact h2.trans0 (acct_tellAll allT true (some self) .cmdResume h2.ext.valid (lift _ _ h2.ext.n_le hall) (hsend _ h2.ext.n_le) trivial rfl)
          · have h3 := h2.trans0 (acct_upd_same self (fun x => { x with paused := true }) h2.ext.valid (fun _ => rfl))
            refine h3.trans0 (acct_tell true (some self) _ (.supervise ((self, []) :: chain') []) h3.ext.valid ?_ (hsend _ h3.ext.n_le) ?_ rfl)
            · exact parentTarget_ok' self hv _ h3.ext.n_le
            · intro p hp
              simp only [List.mem_cons] at hp
              rcases hp with hp | hp
              · rw [hp]; exact ⟨Nat.lt_of_lt_of_le hself h3.ext.n_le, fun t ht => by cases ht⟩
              · exact chainOK_mono hch' h3.ext.n_le p hp

theorem acct_onSuperviseDecide {s : Sys} (self : Cid) (chain : List (Cid × List Cid)) (hv : Valid s) (hself : self < s.n)
    (hch : chainOK s.n chain) : Acct0 s (onSuperviseDecide s self chain) := by
  unfold onSuperviseDecide
  have h0 : Acct0 s (if (s.ctx self).strat = 0 then s else upd s self (fun x => { x with decIdx := x.decIdx + 1 })) := by
    split
    · exact Acct.refl hv
    · exact acct_upd_same self _ hv (fun _ => rfl)
  cases chain with
  | nil =>
    have htg : ∀ t ∈ (if (s.ctx self).strat = 0 ∨ (s.ctx self).strat = 1 then [self] else (s.ctx self).children), t < s.n := by
      intro t ht
      split at ht
      · simp only [List.mem_singleton] at ht; rw [ht]; exact hself
      · exact (hv.ctx self).children t ht
    exact acct_onSupervise_core self self _ [] [] _ _ h0 hv hself htg (fun t ht => by cases ht) (fun p hp => by cases hp)
  | cons p rest =>
    obtain ⟨f, x⟩ := p
    have hf : f < s.n := (hch (f, x) (by simp)).1
    have htg : ∀ t ∈ (if (s.ctx self).strat = 0 ∨ (s.ctx self).strat = 1 then [f] else (s.ctx self).children), t < s.n := by
      intro t ht
      split at ht
      · simp only [List.mem_singleton] at ht; rw [ht]; exact hf
      · exact (hv.ctx self).children t ht
    have hch' : chainOK s.n ((f, if (s.ctx self).strat = 0 ∨ (s.ctx self).strat = 1 then [f] else (s.ctx self).children) :: rest) := by
      intro p hp
      simp only [List.mem_cons] at hp
      rcases hp with hp | hp
      · rw [hp]; exact ⟨hf, htg⟩
      · exact hch p (by simp [hp])
    refine acct_onSupervise_core self f _ _ _ _ _ h0 hv hself htg (fun t ht => ?_) hch'
    obtain ⟨p, hp, htp⟩ := mem_allTargets ht
    exact (hch' p hp).2 t htp

theorem acct_onSupervise {s : Sys} (self : Cid) (chain : List (Cid × List Cid)) (hv : Valid s) (hself : self < s.n)
    (hch : chainOK s.n chain) : Acct0 s (onSupervise s self chain) := by
  unfold onSupervise
  split
  · exact acct_onSuperviseDecide self chain hv hself hch
  · cases chain with
    | nil => exact acct_tell _ _ _ _ hv hself (fun d hd => by cases hd; exact hself) trivial rfl
    | cons p rest => exact acct_tell _ _ _ _ hv (hch p (by simp)).1 (fun d hd => by cases hd; exact hself) trivial rfl

/-- The copies one `HandleEnvelop` adds for id `i`. -/
def handleD (s : Sys) (self : Cid) (e : Env) (i : Nat) : Nat :=
  if ((s.ctx self).state = .killed ∨ (!e.sys ∧ (s.ctx self).state ≠ .running)) ∧ !(s.ctx self).zombie then
    match e.msg with
    | .deadLetter _ _ _ => 0
    | _ => if carries i e = true then 1 else 0
  else
    match e.msg with
    | .user k => behD s self ((s.ctx self).behaviors.headD (s.ctx self).script) e (.user k) i
    | .deadLetter x u d => behD s self ((s.ctx self).behaviors.headD (s.ctx self).script) e (.deadLetter x u d) i
    | _ => 0

theorem acct_handle {s : Sys} (self : Cid) (e : Env) (hv : Valid s) (hc : CurOK s self e) :
    Acct s (handle s self e) (handleD s self e) := by
  unfold handle handleD
  simp only
  have hx := hv.ctx self
  have none_of : ∀ m, e.msg = m → isDL m = false → (∀ k, m ≠ .user k) → ∀ i, carries i e = false :=
    fun m hm hdl hu i => carries_other i e (by rw [hm]; exact hu) (by rw [hm]; exact hdl)
  have dead := acct_deadLetter e hv hc.env.ids
  cases hm : e.msg with
  | user k =>
    simp only
    split
    · exact dead
    · exact acct_execRecover _ _ _ _ hv hc (by rw [← hm]; exact msgIdOK_of_env hc)
  | onLaunch =>
    simp only
    split
    · exact dead
    · exact acct_execRecover0 _ _ _ _ hv hc (none_of _ hm rfl (by intro k h; cases h)) rfl
  | onKill poison =>
    simp only
    split
    · have h1 := acct_upd_same self (fun x => if x.state = .killing then { x with restarting := none } else x) hv
        (fun _ => by split <;> rfl)
      exact h1.trans0 (acct_deadLetter e h1.ext.valid (hc.ext h1.ext).env.ids)
    · split
      · exact acct_doKill _ _ _ _ hv hc
      · split
        · have h1 := acct_upd_same self (fun x => { x with state := .killing }) hv (fun _ => rfl)
          exact h1.trans0 (acct_doKill _ _ _ _ h1.ext.valid (hc.ext h1.ext))
        · exact acct_upd_same self _ hv (fun _ => rfl)
  | onKilled w =>
    simp only
    split
    · exact dead
    · exact acct_onKilled _ _ _ _ hv hc (none_of _ hm rfl (by intro k h; cases h))
  | supervise chain sc =>
    simp only
    split
    · exact dead
    · have : chainOK s.n chain := by
        have := hc.env.msg
        rw [hm] at this; exact this
      exact acct_onSupervise self chain hv hc.self_lt this
  | cmdPause =>
    simp only
    split
    · exact dead
    · exact acct_upd_same self _ hv (fun _ => rfl)
  | cmdResume =>
    simp only
    split
    · exact dead
    · exact acct_upd_same self _ hv (fun _ => rfl)
  | restart poison =>
    simp only
    split
    · exact dead
    · split
      · have h1 := acct_upd_same self (fun x => { x with state := .killing, restarting := some poison }) hv (fun _ => rfl)
        exact h1.trans0 (acct_doKill _ _ _ _ h1.ext.valid (hc.ext h1.ext))
      · exact acct_upd_same self _ hv (fun _ => rfl)
  | watch =>
    simp only
    split
    · exact dead
    · split
      · rename_i w hw
        have hupd : Acct0 s (upd s self (fun x => { x with watchers := x.watchers ++ [w] })) := by
          refine acct_upd self _ _ ?_ hc.self_lt (fun i => rfl)
          apply ext_upd self _ hv
          · refine ⟨hx.parent, hx.children, fun w' hw' => ?_, hx.envs, hx.blank⟩
            simp only [List.mem_append, List.mem_singleton] at hw'
            rcases hw' with h | h
            · exact hx.watchers w' h
            · rw [h]; exact hc.env.sender w hw
          · intro e' he'; exact he'
        repeat' split
        all_goals first | exact Acct.refl hv | exact hupd
      · exact Acct.refl hv
  | unwatch =>
    simp only
    split
    · exact dead
    · split
      · refine acct_upd self _ _ ?_ hc.self_lt (fun i => rfl)
        apply ext_upd self _ hv
        · exact ⟨hx.parent, hx.children, fun w' hw' => hx.watchers w' (List.mem_filter.mp hw').1, hx.envs, hx.blank⟩
        · intro e' he'; exact he'
      · exact Acct.refl hv
  | deadLetter x u d =>
    simp only
    split
    · exact (Acct.refl hv).congr (fun i => rfl)
    · exact acct_execRecover _ _ _ _ hv hc (by rw [← hm]; exact msgIdOK_of_env hc)
  | event ty pid =>
    simp only
    split
    · exact dead
    · exact acct_execRecover0 _ _ _ _ hv hc (none_of _ hm rfl (by intro k h; cases h)) rfl

end Vivid.ActorSys
