import Vivid.Proofs.ActorSys

/-! Registry invariant of M10 over every handler: frame relation `SameCore` and the invariant
`RegInv`.  Property theorems are in `Props/C06Global.lean`. -/
namespace Vivid.ActorSys

/-- The part of the state the registry invariant talks about is unchanged. -/
def SameCore (s s' : Sys) : Prop :=
  s'.registry = s.registry ∧ s'.n = s.n ∧
  ∀ c, (s'.ctx c).path = (s.ctx c).path ∧ (s'.ctx c).state = (s.ctx c).state ∧
       (s'.ctx c).zombie = (s.ctx c).zombie

theorem SameCore.refl (s : Sys) : SameCore s s := ⟨rfl, rfl, fun _ => ⟨rfl, rfl, rfl⟩⟩

theorem SameCore.trans {a b c : Sys} (h1 : SameCore a b) (h2 : SameCore b c) : SameCore a c :=
  ⟨h2.1.trans h1.1, h2.2.1.trans h1.2.1, fun x =>
    ⟨(h2.2.2 x).1.trans (h1.2.2 x).1, (h2.2.2 x).2.1.trans (h1.2.2 x).2.1, (h2.2.2 x).2.2.trans (h1.2.2 x).2.2⟩⟩

theorem sameCore_say (s : Sys) (e : String) : SameCore s (say s e) := ⟨rfl, rfl, fun _ => ⟨rfl, rfl, rfl⟩⟩

theorem sameCore_upd (s : Sys) (c : Cid) (f : Ctx → Ctx)
    (hf : ∀ x, (f x).path = x.path ∧ (f x).state = x.state ∧ (f x).zombie = x.zombie) :
    SameCore s (upd s c f) := by
  refine ⟨rfl, rfl, fun d => ?_⟩
  by_cases h : d = c
  · subst h; simp only [upd_ctx_self]; exact hf _
  · rw [upd_ctx_other s c d f h]; exact ⟨rfl, rfl, rfl⟩

theorem sameCore_enqueue (s : Sys) (c : Cid) (e : Env) : SameCore s (enqueue s c e) := by
  unfold enqueue
  apply sameCore_upd
  intro x; split <;> exact ⟨rfl, rfl, rfl⟩

theorem sameCore_deadLetter (s : Sys) (e : Env) : SameCore s (deadLetter s e) := by
  unfold deadLetter; exact sameCore_enqueue _ _ _

theorem sameCore_resolve (s : Sys) (t : Target) : SameCore s (resolve s t).1 := by
  refine ⟨resolve_registry s t, ?_, fun c => ?_⟩
  · cases t <;> simp only [resolve]
    · split <;> (try rfl); split <;> rfl
    · split
      · rfl
      · rfl
      · split
        · rfl
        · split <;> rfl
  · rw [resolve_ctx s t]; exact ⟨rfl, rfl, rfl⟩

theorem sameCore_tell (s : Sys) (sys : Bool) (sender : Option Cid) (t : Target) (m : Msg) :
    SameCore s (tell s sys sender t m) := by
  unfold tell
  have h := sameCore_resolve s t
  generalize resolve s t = r at h
  obtain ⟨s1, c?⟩ := r
  simp only at h ⊢
  have bump : SameCore s1 { s1 with nextEnv := s1.nextEnv + 1 } := ⟨rfl, rfl, fun _ => ⟨rfl, rfl, rfl⟩⟩
  cases m <;> cases c? <;> simp only <;>
    first
    | exact h.trans (bump.trans (sameCore_enqueue _ _ _))
    | exact h.trans (bump.trans (sameCore_deadLetter _ _))
    | exact h.trans (sameCore_enqueue _ _ _)
    | exact h.trans (sameCore_deadLetter _ _)

theorem sameCore_tellAll (ts : List Cid) (s : Sys) (sys : Bool) (sender : Option Cid) (m : Msg) :
    SameCore s (tellAll s sys sender ts m) := by
  unfold tellAll
  induction ts generalizing s with
  | nil => exact SameCore.refl s
  | cons t r ih => simp only [List.foldl_cons]; exact (sameCore_tell s sys sender (.own t) m).trans (ih _)

theorem sameCore_failed (s : Sys) (self : Cid) : SameCore s (failed s self) := by
  unfold failed
  simp only
  exact ((sameCore_upd s self (fun x => { x with paused := true }) (fun _ => ⟨rfl, rfl, rfl⟩)).trans
    (sameCore_tell _ _ _ _ _)).trans (sameCore_say _ _)

theorem sameCore_schedule (s : Sys) (self : Cid) (ref : String) : SameCore s (schedule s self ref) := by
  unfold schedule
  have h1 := sameCore_upd s self (fun x => { x with jobs := (ref, jobKey (s.ctx self).path ref) :: x.jobs.filter (fun e => e.1 ≠ ref) })
    (fun _ => ⟨rfl, rfl, rfl⟩)
  simp only
  split
  · exact h1
  · exact h1.trans ⟨rfl, rfl, fun _ => ⟨rfl, rfl, rfl⟩⟩

theorem sameCore_clearJobs (s : Sys) (self : Cid) : SameCore s (clearJobs s self) := by
  unfold clearJobs
  have h0 : SameCore s { s with jobTable := s.jobTable.filter (fun e => !((s.ctx self).jobs.map (·.2)).contains e.1) } :=
    ⟨rfl, rfl, fun _ => ⟨rfl, rfl, rfl⟩⟩
  exact h0.trans (sameCore_upd _ self _ (fun _ => ⟨rfl, rfl, rfl⟩))

end Vivid.ActorSys

namespace Vivid.ActorSys

/-- Registry invariant. `ex` is the one context allowed to be registered while terminated and
not (yet) a zombie: the actor in the middle of its own termination handler. -/
def RegInv (ex : Option Cid) (s : Sys) : Prop :=
  (s.registry.map (·.1)).Nodup ∧
  (∀ e ∈ s.registry, e.2 < s.n ∧ (s.ctx e.2).path = e.1) ∧
  (∀ e ∈ s.registry, some e.2 ≠ ex → (s.ctx e.2).state = .killed → (s.ctx e.2).zombie = true)

theorem regInv_sameCore {ex : Option Cid} {s s' : Sys} (h : SameCore s s') (hi : RegInv ex s) : RegInv ex s' := by
  obtain ⟨hr, hn, hc⟩ := h
  refine ⟨by rw [hr]; exact hi.1, ?_, ?_⟩
  · intro e he; rw [hr] at he
    have := hi.2.1 e he
    exact ⟨by rw [hn]; exact this.1, by rw [(hc e.2).1]; exact this.2⟩
  · intro e he hne hk; rw [hr] at he
    rw [(hc e.2).2.2]; exact hi.2.2 e he hne (by rw [← (hc e.2).2.1]; exact hk)

theorem lookup_none_not_mem (l : List (Path × Cid)) (p : Path) (h : l.lookup p = none) : p ∉ l.map (·.1) := by
  induction l with
  | nil => simp
  | cons e t ih =>
    obtain ⟨q, c⟩ := e
    simp only [List.lookup] at h
    split at h
    · cases h
    · rename_i hne
      simp only [List.map_cons, List.mem_cons, not_or]
      refine ⟨?_, ih h⟩
      intro hpq; subst hpq; simp at hne

theorem regInv_actorOf (ex : Option Cid) (s : Sys) (parent : Cid) (name : String) (script strat hooks : Nat)
    (ds : List Nat) (hi : RegInv ex s) : RegInv ex (actorOf s parent name script strat hooks ds) := by
  unfold actorOf
  simp only
  split
  · exact regInv_sameCore (sameCore_say _ _) hi
  · split
    · exact regInv_sameCore (sameCore_say _ _) hi
    · split
      · exact regInv_sameCore (sameCore_say _ _) hi
      · rename_i hlk
        -- the state right after the context is created and registered
        let path := joinPath (s.ctx parent).path name
        let nc : Ctx := { blankCtx with path := path, name := name, parent := some parent, state := .running, script := script, behaviors := [script], strat := strat, decisions := ds, hooks := hooks }
        let s1 : Sys := { s with n := s.n + 1, ctx := fun x => if x = s.n then nc else s.ctx x, registry := (path, s.n) :: s.registry }
        have h1 : RegInv ex s1 := by
          refine ⟨?_, ?_, ?_⟩
          · simp only [s1, List.map_cons, List.nodup_cons]
            exact ⟨lookup_none_not_mem _ _ hlk, hi.1⟩
          · intro e he
            simp only [s1, List.mem_cons] at he
            rcases he with rfl | he
            · simp [s1, nc]
            · have := hi.2.1 e he
              have hne : e.2 ≠ s.n := Nat.ne_of_lt this.1
              simp only [s1, hne, if_false]
              exact ⟨Nat.lt_succ_of_lt this.1, this.2⟩
          · intro e he hne hk
            simp only [s1, List.mem_cons] at he
            rcases he with rfl | he
            · simp [s1, nc] at hk
            · have hlt := (hi.2.1 e he).1
              have hne' : e.2 ≠ s.n := Nat.ne_of_lt hlt
              simp only [s1, hne', if_false] at hk ⊢
              exact hi.2.2 e he hne hk
        have h2 := sameCore_upd s1 parent
          (fun x => { x with children := x.children.filter (fun k => (s.ctx k).path ≠ path) ++ [s.n] }) (fun _ => ⟨rfl, rfl, rfl⟩)
        have h3 := h2.trans (sameCore_tell _ true (some parent) (.own s.n) .onLaunch)
        have h4 := h3.trans (sameCore_say _ s!"spawned:{s.n}:{path}")
        split
        · exact regInv_sameCore (h4.trans (sameCore_tell _ _ _ _ _)) h1
        · exact regInv_sameCore h4 h1

/-- What `actorOf` does to the context counter. -/
theorem actorOf_n_ge (s : Sys) (parent : Cid) (name : String) (script strat hooks : Nat) (ds : List Nat) :
    s.n ≤ (actorOf s parent name script strat hooks ds).n := by
  unfold actorOf
  simp only
  split
  · exact Nat.le_refl _
  · split
    · exact Nat.le_refl _
    · split
      · exact Nat.le_refl _
      · have hn : ∀ (x : Sys) sys sender t m, (tell x sys sender t m).n = x.n := fun x sys sender t m => (sameCore_tell x sys sender t m).2.1
        split
        · simp only [hn, say_n, upd_n]; omega
        · simp only [hn, say_n, upd_n]; omega

end Vivid.ActorSys

namespace Vivid.ActorSys

theorem sameCore_rec {s : Sys} (s' : Sys) (h1 : s'.registry = s.registry) (h2 : s'.n = s.n) (h3 : s'.ctx = s.ctx) :
    SameCore s s' := ⟨h1, h2, fun c => by rw [h3]; exact ⟨rfl, rfl, rfl⟩⟩

theorem sameCore_foldl_enqueue (l : List Env) (s : Sys) (self : Cid) :
    SameCore s (l.foldl (fun acc e => enqueue acc self e) s) := by
  induction l generalizing s with
  | nil => exact SameCore.refl s
  | cons e t ih => simp only [List.foldl_cons]; exact (sameCore_enqueue s self e).trans (ih _)

theorem sameCore_foldl_tell (l : List Cid) (s : Sys) (m : Msg) :
    SameCore s (l.foldl (fun acc t => tell acc false (some 0) (.own t) m) s) := by
  induction l generalizing s with
  | nil => exact SameCore.refl s
  | cons e t ih => simp only [List.foldl_cons]; exact (sameCore_tell s _ _ _ _).trans (ih _)

theorem regInv_runActions (ex : Option Cid) (self : Cid) (cur : Env) (acts : List Action) :
    ∀ s, RegInv ex s → RegInv ex (runActions s self cur acts).s := by
  induction acts with
  | nil => intro s hi; exact hi
  | cons a rest ih =>
    intro s hi
    cases a with
    | panic => exact hi
    | tell t k => simp only [runActions]; exact ih _ (regInv_sameCore (sameCore_tell _ _ _ _ _) hi)
    | spawn name script kind decisions hooks => simp only [runActions]; exact ih _ (regInv_actorOf ex s self name script kind hooks decisions hi)
    | kill t poison => simp only [runActions]; exact ih _ (regInv_sameCore (sameCore_tell _ _ _ _ _) hi)
    | stash => simp only [runActions]; exact ih _ (regInv_sameCore (sameCore_upd s self _ (fun _ => ⟨rfl, rfl, rfl⟩)) hi)
    | unstash n =>
      simp only [runActions]
      apply ih
      exact regInv_sameCore ((sameCore_foldl_enqueue _ s self).trans (sameCore_upd _ self _ (fun _ => ⟨rfl, rfl, rfl⟩))) hi
    | watch t => simp only [runActions]; exact ih _ (regInv_sameCore (sameCore_tell _ _ _ _ _) hi)
    | unwatch t => simp only [runActions]; exact ih _ (regInv_sameCore (sameCore_tell _ _ _ _ _) hi)
    | become sc => simp only [runActions]; exact ih _ (regInv_sameCore (sameCore_upd s self _ (fun _ => ⟨rfl, rfl, rfl⟩)) hi)
    | unbecome => simp only [runActions]; exact ih _ (regInv_sameCore (sameCore_upd s self _ (fun _ => ⟨rfl, rfl, rfl⟩)) hi)
    | sub ty => simp only [runActions]; exact ih _ (regInv_sameCore (sameCore_rec _ rfl rfl rfl) hi)
    | unsub ty => simp only [runActions]; exact ih _ (regInv_sameCore (sameCore_rec _ rfl rfl rfl) hi)
    | unsubAll => simp only [runActions]; exact ih _ (regInv_sameCore (sameCore_rec _ rfl rfl rfl) hi)
    | pub ty =>
      simp only [runActions]
      apply ih
      have h0 : SameCore s { s with nextPub := s.nextPub + 1 } := sameCore_rec _ rfl rfl rfl
      exact regInv_sameCore (h0.trans (sameCore_foldl_tell _ _ _)) hi
    | sched kind ref k => simp only [runActions]; exact ih _ (regInv_sameCore (sameCore_schedule _ _ _) hi)
    | cancel ref =>
      simp only [runActions]
      split
      · exact ih _ (regInv_sameCore (sameCore_say _ _) hi)
      · rename_i key _
        apply ih
        have h0 : SameCore s { s with jobTable := s.jobTable.filter (fun e => e.1 ≠ key) } := sameCore_rec _ rfl rfl rfl
        exact regInv_sameCore ((h0.trans (sameCore_upd _ self (fun x => { x with jobs := x.jobs.filter (fun e => e.1 ≠ ref) })
          (fun _ => ⟨rfl, rfl, rfl⟩))).trans (sameCore_say _ _)) hi
    | schedClear => simp only [runActions]; exact ih _ (regInv_sameCore (sameCore_clearJobs _ _) hi)
    | cron valid ref =>
      simp only [runActions]
      split
      · exact ih _ (regInv_sameCore (sameCore_schedule _ _ _) hi)
      · exact ih _ (regInv_sameCore (sameCore_say _ _) hi)

end Vivid.ActorSys

namespace Vivid.ActorSys

theorem regInv_behave (ex : Option Cid) (s : Sys) (self : Cid) (beh : Nat) (cur : Env) (m : Msg) (hi : RegInv ex s) :
    RegInv ex (behave s self beh cur m).s := by
  unfold behave
  simp only
  split
  · exact hi
  · split
    · simp only
      unfold guardBehave
      split
      · split
        · exact regInv_sameCore (sameCore_rec _ rfl rfl rfl) hi
        · exact hi
      · exact regInv_sameCore ((sameCore_rec (s := s) _ rfl rfl rfl).trans (sameCore_say _ _)) hi
      · exact hi
    · split
      · exact hi
      · exact regInv_runActions ex self cur _ _ (regInv_sameCore (sameCore_say _ _) hi)

theorem regInv_execRecover (ex : Option Cid) (s : Sys) (self : Cid) (beh : Nat) (cur : Env) (m : Msg) (hi : RegInv ex s) :
    RegInv ex (execRecover s self beh cur m) := by
  unfold execRecover
  have hb := regInv_behave ex s self beh cur m hi
  simp only
  split
  · split
    · exact hb
    · split
      · exact hb
      · exact regInv_sameCore (sameCore_failed _ _) hb
    · exact regInv_sameCore (sameCore_failed _ _) hb
  · exact hb

theorem regInv_execSwallow (ex : Option Cid) (s : Sys) (self : Cid) (beh : Nat) (cur : Env) (m : Msg) (hi : RegInv ex s) :
    RegInv ex (execSwallow s self beh cur m) := regInv_behave ex s self beh cur m hi

/-- Weakening: an exception may always be added. -/
theorem regInv_weaken {s : Sys} (c : Cid) (hi : RegInv none s) : RegInv (some c) s :=
  ⟨hi.1, hi.2.1, fun e he _ hk => hi.2.2 e he (by simp) hk⟩

/-- `cleanup` unregisters `self`: afterwards no exception is needed for it. -/
theorem regInv_cleanup (s : Sys) (self : Cid) (hi : RegInv (some self) s) : RegInv none (cleanup s self) := by
  unfold cleanup
  simp only
  -- the state right after unregistering
  have hu : RegInv none (unregister { s with subs := esUnsubAll s.subs (s.ctx self).path } (s.ctx self).path) := by
    refine ⟨?_, ?_, ?_⟩
    · simp only [unregister]
      exact List.Nodup.sublist (List.Sublist.map _ (List.filter_sublist)) hi.1
    · intro e he
      simp only [unregister] at he
      exact hi.2.1 e (List.mem_filter.1 he).1
    · intro e he _ hk
      simp only [unregister] at he
      have hm := (List.mem_filter.1 he).1
      have hp := (List.mem_filter.1 he).2
      by_cases hself : e.2 = self
      · -- an entry for `self` carries `self`'s path and was filtered out
        exfalso
        have := (hi.2.1 e hm).2
        rw [hself] at this
        simp [this] at hp
      · exact hi.2.2 e hm (by simpa using hself) hk
  have h1 := sameCore_tellAll (s.ctx self).watchers
    (unregister { s with subs := esUnsubAll s.subs (s.ctx self).path } (s.ctx self).path) true (some self) (.onKilled self)
  split
  · rename_i p _
    exact regInv_sameCore (((h1.trans (sameCore_tell _ _ _ _ _)).trans (sameCore_say _ _)).trans
      (sameCore_upd _ self (fun x => { x with paused := false }) (fun _ => ⟨rfl, rfl, rfl⟩))) hu
  · exact regInv_sameCore ((h1.trans (sameCore_say _ _)).trans
      (sameCore_upd _ self (fun x => { x with paused := false }) (fun _ => ⟨rfl, rfl, rfl⟩))) hu

/-- An update of `self` that leaves it not terminated, or a zombie, discharges the exception. -/
theorem regInv_settle (s : Sys) (self : Cid) (f : Ctx → Ctx)
    (hp : ∀ x, (f x).path = x.path) (hok : ∀ x, (f x).state ≠ .killed ∨ (f x).zombie = true)
    (hi : RegInv (some self) s) : RegInv none (upd s self f) := by
  refine ⟨hi.1, ?_, ?_⟩
  · intro e he
    have := hi.2.1 e he
    refine ⟨this.1, ?_⟩
    by_cases h : e.2 = self
    · rw [h, upd_ctx_self, hp]; rw [h] at this; exact this.2
    · rw [upd_ctx_other s self e.2 f h]; exact this.2
  · intro e he _ hk
    by_cases h : e.2 = self
    · rw [h, upd_ctx_self] at hk ⊢
      rcases hok (s.ctx self) with h1 | h1
      · exact absurd hk h1
      · exact h1
    · rw [upd_ctx_other s self e.2 f h] at hk ⊢
      exact hi.2.2 e he (by simpa using h) hk

theorem regInv_handleRestart (s : Sys) (self : Cid) (hi : RegInv (some self) s) : RegInv none (handleRestart s self) := by
  unfold handleRestart
  simp only
  have h1 := regInv_sameCore (sameCore_upd s self (fun x => { x with behaviors := [x.script] }) (fun _ => ⟨rfl, rfl, rfl⟩)) hi
  split
  · exact regInv_sameCore (sameCore_say _ _)
      (regInv_settle _ self (fun x => { x with zombie := true, paused := false }) (fun _ => rfl) (fun _ => Or.inr rfl) h1)
  · have h2 := regInv_settle _ self (fun x => { x with restarting := none, state := .running, inc := x.inc + 1 })
      (fun _ => rfl) (fun _ => Or.inl (by simp)) h1
    split
    · -- repaired: unpause, log, run the new incarnation's OnLaunch right here
      apply regInv_execRecover
      exact regInv_sameCore ((sameCore_upd _ self (fun x => { x with paused := false }) (fun _ => ⟨rfl, rfl, rfl⟩)).trans (sameCore_say _ _)) h2
    · exact regInv_sameCore (((sameCore_tell _ _ _ _ _).trans
        (sameCore_upd _ self (fun x => { x with paused := false }) (fun _ => ⟨rfl, rfl, rfl⟩))).trans (sameCore_say _ _)) h2

end Vivid.ActorSys

namespace Vivid.ActorSys

/-- Marking `self` terminated keeps the invariant with `self` as the exception. -/
theorem regInv_markKilled (s : Sys) (self : Cid) (hi : RegInv none s) :
    RegInv (some self) (upd s self (fun x => { x with state := .killed })) := by
  refine ⟨hi.1, ?_, ?_⟩
  · intro e he
    have := hi.2.1 e he
    refine ⟨this.1, ?_⟩
    by_cases h : e.2 = self
    · rw [h, upd_ctx_self]; rw [h] at this; exact this.2
    · rw [upd_ctx_other s self e.2 _ h]; exact this.2
  · intro e he hne hk
    have h : e.2 ≠ self := fun h => hne (by rw [h])
    rw [upd_ctx_other s self e.2 _ h] at hk ⊢
    exact hi.2.2 e he (by simp) hk

theorem regInv_onKilled (s : Sys) (self : Cid) (beh : Nat) (cur : Env) (who : Cid) (hi : RegInv none s) :
    RegInv none (onKilled s self beh cur who) := by
  unfold onKilled
  simp only
  split
  · exact regInv_cleanup s self (regInv_weaken self hi)
  · -- handleChildDeath
    have h1 : RegInv none (if who ≠ self then
        execRecover (upd s self (fun x => { x with children := x.children.filter (· ≠ who) })) self beh cur (.onKilled who)
        else s) := by
      split
      · exact regInv_execRecover none _ self beh cur _
          (regInv_sameCore (sameCore_upd s self (fun x => { x with children := x.children.filter (· ≠ who) }) (fun _ => ⟨rfl, rfl, rfl⟩)) hi)
      · exact hi
    generalize (if who ≠ self then
        execRecover (upd s self (fun x => { x with children := x.children.filter (· ≠ who) })) self beh cur (.onKilled who)
        else s) = s1 at h1 ⊢
    split
    · exact h1
    · have h2 := regInv_markKilled s1 self h1
      cases hr : (s1.ctx self).restarting.isSome with
      | true =>
        simp only [if_true]
        have h3 := regInv_execSwallow (some self) _ self beh { cur with sys := true, msg := .onKilled self } (.onKilled self) h2
        exact regInv_handleRestart _ self (regInv_sameCore (sameCore_clearJobs _ _) h3)
      | false =>
        simp only [Bool.false_eq_true, if_false]
        have h3 := regInv_execRecover (some self) _ self beh { cur with sys := true, msg := .onKilled self } (.onKilled self) h2
        exact regInv_sameCore (sameCore_clearJobs _ _) (regInv_cleanup _ self h3)

theorem regInv_foldl_tell (l : List Cid) (s : Sys) (sys : Bool) (sender : Option Cid) (m : Msg) :
    SameCore s (l.foldl (fun acc ch => tell acc sys sender (.own ch) m) s) := by
  induction l generalizing s with
  | nil => exact SameCore.refl s
  | cons e t ih => simp only [List.foldl_cons]; exact (sameCore_tell s _ _ _ _).trans (ih _)

theorem regInv_doKill (s : Sys) (self : Cid) (beh : Nat) (cur : Env) (poison : Bool) (hi : RegInv none s) :
    RegInv none (doKill s self beh cur poison) := by
  unfold doKill
  simp only
  have h1 := regInv_sameCore (regInv_foldl_tell (s.ctx self).children s (!poison) (some self) (.onKill poison)) hi
  apply regInv_onKilled
  split
  · exact regInv_execSwallow none _ self beh _ _ h1
  · exact regInv_execRecover none _ self beh _ _ h1

theorem sc_tellAll {a x : Sys} (ts : List Cid) (sys : Bool) (sender : Option Cid) (m : Msg) (h : SameCore a x) :
    SameCore a (tellAll x sys sender ts m) := h.trans (sameCore_tellAll _ _ _ _ _)
theorem sc_tell {a x : Sys} (sys : Bool) (sender : Option Cid) (t : Target) (m : Msg) (h : SameCore a x) :
    SameCore a (tell x sys sender t m) := h.trans (sameCore_tell _ _ _ _ _)
theorem sc_say {a x : Sys} (e : String) (h : SameCore a x) : SameCore a (say x e) := h.trans (sameCore_say _ _)
theorem sc_upd {a x : Sys} (c : Cid) (f : Ctx → Ctx)
    (hf : ∀ y, (f y).path = y.path ∧ (f y).state = y.state ∧ (f y).zombie = y.zombie) (h : SameCore a x) :
    SameCore a (upd x c f) := h.trans (sameCore_upd _ _ _ hf)

theorem sameCore_onSuperviseDecide (s : Sys) (self : Cid) (chain : List (Cid × List Cid)) : SameCore s (onSuperviseDecide s self chain) := by
  unfold onSuperviseDecide
  simp only
  have h0 : SameCore s (if (s.ctx self).strat = 0 then s else upd s self (fun x => { x with decIdx := x.decIdx + 1 })) := by
    split
    · exact SameCore.refl s
    · exact sameCore_upd s self _ (fun _ => ⟨rfl, rfl, rfl⟩)
  generalize (if (s.ctx self).strat = 0 then s else upd s self (fun x => { x with decIdx := x.decIdx + 1 })) = s0 at h0 ⊢
  repeat' split
  all_goals
    repeat (first
      | exact h0
      | apply sc_tellAll
      | apply sc_tell
      | apply sc_say
      | (apply sc_upd; · intro _; exact ⟨rfl, rfl, rfl⟩))

theorem sameCore_onSupervise (s : Sys) (self : Cid) (chain : List (Cid × List Cid)) : SameCore s (onSupervise s self chain) := by
  unfold onSupervise
  split
  · exact sameCore_onSuperviseDecide _ _ _
  · exact sameCore_tell _ _ _ _ _

end Vivid.ActorSys

namespace Vivid.ActorSys

/-- An update of `self` that does not make it terminated keeps the invariant. -/
theorem regInv_updAlive (s : Sys) (self : Cid) (f : Ctx → Ctx)
    (hp : ∀ x, (f x).path = x.path) (hs : ∀ x, (f x).state ≠ .killed) (hi : RegInv none s) :
    RegInv none (upd s self f) :=
  regInv_settle s self f hp (fun x => Or.inl (hs x)) (regInv_weaken self hi)

theorem regInv_handle (s : Sys) (self : Cid) (e : Env) (hi : RegInv none s) : RegInv none (handle s self e) := by
  unfold handle
  simp only
  split
  · split
    · exact hi
    · exact regInv_sameCore ((sameCore_upd s self (fun x => if x.state = .killing then { x with restarting := none } else x)
        (fun _ => by split <;> exact ⟨rfl, rfl, rfl⟩)).trans
        (sameCore_deadLetter _ _)) hi
    · exact regInv_sameCore (sameCore_deadLetter _ _) hi
  · split
    · exact regInv_execRecover none _ _ _ _ _ hi
    · split
      · exact regInv_doKill _ _ _ _ _ hi
      · split
        · exact regInv_doKill _ _ _ _ _
            (regInv_updAlive s self (fun x => { x with state := .killing }) (fun _ => rfl) (fun _ => by simp) hi)
        · exact regInv_sameCore (sameCore_upd s self _ (fun _ => ⟨rfl, rfl, rfl⟩)) hi
    · exact regInv_onKilled _ _ _ _ _ hi
    · exact regInv_sameCore (sameCore_onSupervise _ _ _) hi
    · exact regInv_sameCore (sameCore_upd s self _ (fun _ => ⟨rfl, rfl, rfl⟩)) hi
    · exact regInv_sameCore (sameCore_upd s self _ (fun _ => ⟨rfl, rfl, rfl⟩)) hi
    · split
      · exact regInv_doKill _ _ _ _ _
          (regInv_updAlive s self (fun x => { x with state := .killing, restarting := some _ }) (fun _ => rfl) (fun _ => by simp) hi)
      · exact regInv_sameCore (sameCore_upd s self _ (fun _ => ⟨rfl, rfl, rfl⟩)) hi
    · repeat' split
      all_goals first
        | exact hi
        | (refine regInv_sameCore ?_ hi; apply sameCore_upd; intro _; exact ⟨rfl, rfl, rfl⟩)
    · repeat' split
      all_goals first
        | exact hi
        | (refine regInv_sameCore ?_ hi; apply sameCore_upd; intro _; exact ⟨rfl, rfl, rfl⟩)
    · exact regInv_execRecover none _ _ _ _ _ hi
    · exact regInv_execRecover none _ _ _ _ _ hi
    · exact regInv_execRecover none _ _ _ _ _ hi

theorem regInv_deliver (s s' : Sys) (c : Cid) (h : deliver s c = some s') (hi : RegInv none s) : RegInv none s' := by
  unfold deliver at h
  simp only at h
  split at h
  · cases h
    exact regInv_handle _ _ _ (regInv_sameCore (sameCore_upd s c _ (fun _ => ⟨rfl, rfl, rfl⟩)) hi)
  · split at h
    · cases h
    · split at h
      · cases h
        exact regInv_handle _ _ _ (regInv_sameCore (sameCore_upd s c _ (fun _ => ⟨rfl, rfl, rfl⟩)) hi)
      · cases h

theorem regInv_init (f : Bool) : RegInv none (init f) := by
  refine ⟨by simp [init], ?_, ?_⟩ <;> intro e he <;> simp [init] at he

end Vivid.ActorSys
