import Vivid.Model.Lockset
import Vivid.Generated.AccessTable
/-! `lake env lean --run Vivid/Tools/AccessReport.lean`: prints the unprotected conflicting pairs
of the regenerated access table (empty output = the table is race free). -/
open Vivid.Access Vivid.Generated

def showAcc (a : Acc) : String :=
  let locks := a.locks.map fun l => accessLocks.getD l.1 "?" ++ (if l.2 then ":W" else ":R")
  s!"{if a.write then "write" else "read"} of {accessFields.getD a.field "?"} at {accessSites.getD a.site "?"} " ++
  s!"[{repr a.role |>.pretty}] holding {if locks.isEmpty then "no lock" else ", ".intercalate locks}"

def main : IO Unit := do
  let v := (violations accessTable).filter fun p => p.1.write
  for p in v.take 40 do
    IO.println s!"UNPROTECTED: {showAcc p.1} || {showAcc p.2}"
  IO.println s!"total unprotected pairs: {v.length}"
