import Vivid.Engine.Util
import Vivid.Engine.VV
import Vivid.Engine.Ring
import Vivid.Engine.Mailbox
import Vivid.Engine.View
import Vivid.Engine.Codec
import Vivid.Engine.ActorSys
import Vivid.Engine.SysFSM
import Vivid.Engine.Future
import Vivid.Engine.Framing
import Vivid.Engine.SendLoop
import Vivid.Engine.Transparency
import Vivid.Engine.Gossip

open Vivid.Engine

def engines : List (String × Engine) := [
  ("vv", VVEngine.engine),
  ("ring", RingEngine.engine),
  ("mailbox", MailboxEngine.engine),
  ("view", ViewEngine.engine),
  ("codec", CodecEngine.engine),
  ("actorsys", ActorSysEngine.engine),
  ("sysfsm", SysFSMEngine.engine),
  ("future", FutureEngine.engine),
  ("framing", FramingEngine.engine),
  ("sendloop", SendLoopEngine.engine),
  ("transp", TranspEngine.engine),
  ("gossip", GossipEngine.engine)
]

partial def loop (h : IO.FS.Stream) (out : IO.FS.Stream) (e : Engine) (s : e.σ) : IO Unit := do
  let line ← h.getLine
  if line.isEmpty then return ()
  let (s', o) := e.step s line
  out.putStrLn o
  loop h out e s'

def main (args : List String) : IO UInt32 := do
  match args with
  | [name] =>
    match engines.lookup name with
    | some e =>
      let stdin ← IO.getStdin
      let stdout ← IO.getStdout
      loop stdin stdout e e.init
      stdout.flush
      return 0
    | none => IO.eprintln s!"unknown engine {name}"; return 2
  | _ => IO.eprintln "usage: driver <engine>"; return 2
