import Vivid.Model.VersionVector
import Vivid.Proofs.VersionVector
import Vivid.Props.C16
import Vivid.Tie.VVConstants
