// vh — verification harness for kercylan98/vivid. Usage:
//
//	vh <engine> -out <dir> [-seed N] [-tier quick|thorough]     generate + execute
//	vh <engine> -replay <ops-file>                              execute op lines, print obs
package main

import (
	"bufio"
	"flag"
	"fmt"
	"github.com/kercylan98/vivid/verifharness/access"
	"os"
	"strings"

	"github.com/kercylan98/vivid/verifharness/engines"
	"github.com/kercylan98/vivid/verifharness/gen"
	"github.com/kercylan98/vivid/verifharness/rec"
)

func main() {
	if len(os.Args) < 2 {
		fmt.Fprintln(os.Stderr, "usage: vh <engine> ...")
		os.Exit(2)
	}
	name := os.Args[1]
	if name == "codec-write1" {
		engines.CodecWrite1(os.Args[2])
		return
	}
	if name == "registry" {
		engines.DumpRegistry()
		return
	}
	if name == "access" {
		// access <repo>: the shared-field access table, one row per line (tab separated)
		rows, err := access.Extract(os.Args[2])
		if err != nil {
			fmt.Fprintln(os.Stderr, err)
			os.Exit(2)
		}
		for _, a := range rows {
			locks := strings.Join(a.Locks, ",")
			if locks == "" {
				locks = "-"
			}
			fmt.Printf("%s.%s\t%v\t%v\t%s\t%s\t%s\n", a.Struct, a.Field, a.Write, a.Atomic, locks, a.Role, a.Site)
		}
		return
	}
	if name == "consts" {
		engines.DumpConsts()
		return
	}
	if name == "list" {
		for k := range engines.Registry {
			fmt.Println(k)
		}
		return
	}
	mk, ok := engines.Registry[name]
	if !ok {
		fmt.Fprintln(os.Stderr, "unknown engine", name)
		os.Exit(2)
	}
	fs := flag.NewFlagSet(name, flag.ExitOnError)
	out := fs.String("out", "", "output directory")
	seed := fs.Uint64("seed", 1, "PRNG seed")
	tier := fs.String("tier", "quick", "quick|thorough")
	replay := fs.String("replay", "", "ops file to replay")
	fs.Parse(os.Args[2:])
	e := mk()
	if *replay != "" {
		f, err := os.Open(*replay)
		if err != nil {
			fmt.Fprintln(os.Stderr, err)
			os.Exit(2)
		}
		sc := bufio.NewScanner(f)
		sc.Buffer(make([]byte, 1<<20), 1<<28)
		w := bufio.NewWriter(os.Stdout)
		for sc.Scan() {
			line := strings.TrimRight(sc.Text(), "\r\n")
			if line == "" {
				continue
			}
			obs, viol := e.Exec(line)
			fmt.Fprintln(w, obs)
			if viol != "" {
				fmt.Fprintln(w, "!! MONITOR: "+viol)
			}
		}
		w.Flush()
		return
	}
	if *out == "" {
		fmt.Fprintln(os.Stderr, "-out required")
		os.Exit(2)
	}
	r, err := rec.New(*out)
	if err != nil {
		fmt.Fprintln(os.Stderr, err)
		os.Exit(2)
	}
	c := &engines.Ctx{R: r, Rng: gen.New(*seed), Tier: *tier, Seed: *seed, E: e}
	e.Generate(c)
	if err := r.Close(); err != nil {
		fmt.Fprintln(os.Stderr, err)
		os.Exit(2)
	}
}
