// Package gen: one PRNG (splitmix64) for every random choice, so a seed replays exactly.
package gen

type Rand struct{ s uint64 }

func New(seed uint64) *Rand { return &Rand{s: seed*0x9E3779B97F4A7C15 + 0x1234567} }

func (r *Rand) U64() uint64 {
	r.s += 0x9E3779B97F4A7C15
	z := r.s
	z = (z ^ (z >> 30)) * 0xBF58476D1CE4E5B9
	z = (z ^ (z >> 27)) * 0x94D049BB133111EB
	return z ^ (z >> 31)
}

// Intn returns a value in [0,n).
func (r *Rand) Intn(n int) int {
	if n <= 0 {
		return 0
	}
	return int(r.U64() % uint64(n))
}

func (r *Rand) Bool() bool { return r.U64()&1 == 1 }

// Chance returns true with probability num/den.
func (r *Rand) Chance(num, den int) bool { return r.Intn(den) < num }

func Pick[T any](r *Rand, xs []T) T { return xs[r.Intn(len(xs))] }

// Fork derives an independent stream (for per-case seeds that can be replayed alone).
func (r *Rand) Fork() *Rand { return New(r.U64()) }
