package engines

import (
	"fmt"
	"sort"
	"strconv"
	"strings"
	"time"

	"github.com/kercylan98/vivid/internal/cluster"
)

// Engine view: cluster.ClusterView operations on named views (M8, C17).
// Timestamps on the wire: k >= 1e6 means "near now" (T0 + k - 1e6 ns), k < 1e6 is the absolute
// value k (far in the past, outside any clock-skew window).
type viewEngine struct {
	regs  map[string]*cluster.ClusterView
	t0    int64
	nonWF bool
}

func init() {
	Register("view", func() Engine { return &viewEngine{regs: map[string]*cluster.ClusterView{}, t0: time.Now().UnixNano()} })
}

func (*viewEngine) Name() string { return "view" }

const viewNear = 1000000

func (e *viewEngine) tsIn(k int64) int64 {
	if k >= viewNear {
		return e.t0 + (k - viewNear)
	}
	return k
}
func (e *viewEngine) tsOut(t int64) int64 {
	if t >= e.t0-int64(time.Hour) {
		return t - e.t0 + viewNear
	}
	return t
}

func (e *viewEngine) get(n string) *cluster.ClusterView {
	v, ok := e.regs[n]
	if !ok {
		v = cluster.VerifNewClusterView()
		v.Timestamp = 0
		e.regs[n] = v
	}
	return v
}

func (e *viewEngine) dump(v *cluster.ClusterView) string {
	ids := make([]string, 0, len(v.Members))
	for id := range v.Members {
		ids = append(ids, id)
	}
	sort.Strings(ids)
	var ms []string
	for _, id := range ids {
		m := v.Members[id]
		if m == nil {
			ms = append(ms, id+":nil")
			continue
		}
		ms = append(ms, fmt.Sprintf("%s:%d:%d:%d:%d:%s", id, m.Generation, m.LogicalClock, e.tsOut(m.Timestamp), int(m.Status), m.Address))
	}
	m := "-"
	if len(ms) > 0 {
		m = strings.Join(ms, ";")
	}
	return fmt.Sprintf("ep=%d ts=%d pv=%d h=%d u=%d q=%d vv=%s m=%s", v.Epoch, e.tsOut(v.Timestamp), v.ProtocolVersion,
		v.HealthyCount, v.UnhealthyCount, v.QuorumSize, showVVMap(cluster.VerifVVMap(v.VersionVector)), m)
}

type viewObs struct {
	gen int
	lc  uint64
}

func obsOf(v *cluster.ClusterView) map[string]viewObs {
	o := map[string]viewObs{}
	for id, m := range v.Members {
		if m != nil {
			o[id] = viewObs{m.Generation, m.LogicalClock}
		}
	}
	return o
}

func obsLess(a, b viewObs) bool { return a.gen < b.gen || (a.gen == b.gen && a.lc < b.lc) }

func (e *viewEngine) Exec(line string) (obs string, viol string) {
	defer func() {
		if r := recover(); r != nil {
			obs = "panic"
			viol = fmt.Sprintf("panic in %q: %v", line, r)
		}
	}()
	tk := strings.Fields(line)
	if len(tk) == 0 {
		return "bad-op", ""
	}
	atoi := func(s string) int64 { n, _ := strconv.ParseInt(s, 10, 64); return n }
	switch {
	case tk[0] == "reset":
		e.regs = map[string]*cluster.ClusterView{}
		e.nonWF = false
		return "ok", ""
	case tk[0] == "new" && len(tk) == 3:
		v := cluster.VerifNewClusterView()
		v.Timestamp = 0
		v.MaxVersionVectorEntries = int(atoi(tk[2]))
		e.regs[tk[1]] = v
		return "ok", ""
	case tk[0] == "add" && len(tk) == 8:
		v := e.get(tk[1])
		if atoi(tk[4]) == 0 {
			e.nonWF = true
		}
		m := &cluster.NodeState{ID: tk[2], Generation: int(atoi(tk[3])), LogicalClock: uint64(atoi(tk[4])), Timestamp: e.tsIn(atoi(tk[5])),
			Status: cluster.MemberStatus(atoi(tk[6])), Address: decodeName(tk[7])}
		v.AddMember(m)
		return e.dump(v), ""
	case tk[0] == "rm" && len(tk) == 3:
		v := e.get(tk[1])
		v.RemoveMember(tk[2])
		return e.dump(v), ""
	case tk[0] == "inc" && len(tk) == 3:
		v := e.get(tk[1])
		if _, member := v.Members[decodeName(tk[2])]; !member {
			e.nonWF = true // version-vector keys of reachable views are member ids
		}
		v.IncrementVersion(decodeName(tk[2]))
		return e.dump(v), ""
	case tk[0] == "set" && len(tk) == 5:
		v := e.get(tk[1])
		v.Epoch, v.Timestamp, v.ProtocolVersion = atoi(tk[2]), e.tsIn(atoi(tk[3])), uint16(atoi(tk[4]))
		return e.dump(v), ""
	case tk[0] == "touch" && len(tk) == 5:
		// in-place update of a stored member state, as NodeActor does (failure detection sets Status, gossip receipt
		// refreshes the clock): every view owns its states, so no other view may change
		v := e.get(tk[1])
		others := map[string]string{}
		for name, o := range e.regs {
			if o != v {
				others[name] = e.dump(o)
			}
		}
		if m := v.Members[tk[2]]; m != nil {
			m.Status = cluster.MemberStatus(atoi(tk[3]))
			m.LogicalClock = uint64(atoi(tk[4]))
			if atoi(tk[4]) == 0 {
				e.nonWF = true
			}
		}
		for name, o := range e.regs {
			if before, ok := others[name]; ok && e.dump(o) != before {
				return e.dump(v), fmt.Sprintf("ALIASED: updating member %s of view %s in place changed view %s as well (the views share the state object): a member's state in a view changed with no merge", tk[2], tk[1], name)
			}
		}
		return e.dump(v), ""
	case tk[0] == "copy" && len(tk) == 3:
		e.regs[tk[2]] = e.get(tk[1]).Snapshot()
		return "ok", ""
	case tk[0] == "dump" && len(tk) == 2:
		return e.dump(e.get(tk[1])), ""
	case tk[0] == "leader" && len(tk) == 2:
		l := cluster.ComputeLeaderAddr(e.get(tk[1]))
		if l == "" {
			l = "~"
		}
		return l, ""
	case tk[0] == "merge" && len(tk) == 5:
		a, b := e.get(tk[1]), e.get(tk[2])
		before := a.Snapshot()
		bBefore := e.dump(b)
		opts := cluster.MergeOptions{VersionConcurrentStrategy: int(atoi(tk[3]))}
		if tk[4] == "1" {
			opts.MaxClockSkew = time.Hour
		}
		ch := a.MergeFromWithOptions(b, opts)
		c := 0
		if ch {
			c = 1
		}
		obs = fmt.Sprintf("changed=%d %s", c, e.dump(a))
		if e.dump(b) != bBefore {
			viol = "merge modified its argument view " + tk[2]
		}
		if !e.nonWF {
			if v := e.mergeMonitor(before, b, a, ch); v != "" {
				viol = v
			}
		}
		return obs, viol
	}
	return "bad-op", ""
}

// mergeMonitor is the property oracle on the real result (independent of the Lean model):
// union of members, each at its newest incarnation, nothing removed or regressed, epoch and
// members' version-vector entries never lowered, `changed` reported whenever membership or the
// version vector changed.
func (e *viewEngine) mergeMonitor(before, other, after *cluster.ClusterView, changed bool) string {
	ob, oo, oa := obsOf(before), obsOf(other), obsOf(after)
	ids := map[string]bool{}
	for id := range ob {
		ids[id] = true
	}
	for id := range oo {
		ids[id] = true
	}
	differs := false
	for id := range ids {
		x, okx := ob[id]
		y, oky := oo[id]
		want := x
		if !okx || (oky && obsLess(x, y)) {
			want = y
		}
		got, ok := oa[id]
		if !ok {
			return "merge removed / lost member " + id
		}
		if got != want {
			return fmt.Sprintf("member %s after merge is (gen %d, clock %d), newest of the two views is (gen %d, clock %d)", id, got.gen, got.lc, want.gen, want.lc)
		}
		if !okx || got != x {
			differs = true
		}
	}
	for id := range oa {
		if !ids[id] {
			return "merge invented member " + id
		}
	}
	if after.Epoch < before.Epoch {
		return fmt.Sprintf("merge lowered the epoch %d -> %d", before.Epoch, after.Epoch)
	}
	limit := after.MaxVersionVectorEntries
	if limit <= 0 {
		limit = cluster.VerifMaxVersionVectorEntries
	}
	vb, va := cluster.VerifVVMap(before.VersionVector), cluster.VerifVVMap(after.VersionVector)
	capped := ""
	if len(oa) > limit {
		// configured MaxVersionVectorEntries is smaller than the member count: PruneWithMax drops members' entries
		capped = "VV-CAP (MaxVersionVectorEntries < member count): "
	}
	for id := range oa {
		if va[id] < vb[id] {
			return fmt.Sprintf("%smerge lowered version-vector entry of member %s: %d -> %d", capped, id, vb[id], va[id])
		}
	}
	vvDiffers := false
	for k, c := range va {
		if vb[k] != c {
			vvDiffers = true
		}
	}
	for k, c := range vb {
		if va[k] != c {
			vvDiffers = true
		}
	}
	if (differs || vvDiffers) && !changed {
		return capped + "merge changed the membership or version vector but reported changed=false"
	}
	return ""
}

func (e *viewEngine) Generate(c *Ctx) {
	ids := []string{"n1", "n2", "n3", "n4"}
	if c.Thorough() {
		ids = append(ids, "n5")
	}
	names := []string{"A", "B", "C"}
	cases := 1500
	if c.Thorough() {
		cases = 60000
	}
	randMember := func(wf bool) string {
		id := ids[c.Rng.Intn(len(ids))]
		gen := 1 + c.Rng.Intn(3)
		lc := 1 + c.Rng.Intn(4)
		if !wf && c.Rng.Chance(1, 3) {
			lc = 0
		}
		ts := int64(c.Rng.Intn(5))
		if c.Rng.Bool() {
			ts += viewNear
		}
		st := []int{1, 1, 1, 0, 2, 4, 5}[c.Rng.Intn(7)]
		addr := "h" + id[1:] + ":1"
		if c.Rng.Chance(1, 10) {
			addr = "~"
		}
		return fmt.Sprintf("%s %d %d %d %d %s", id, gen, lc, ts, st, addr)
	}
	// (1) directed grid over the epoch/timestamp adoption rule: vector relation x strategy x epoch
	// relation x skew setting x remote timestamp near/far, each with random member tables
	for rep := 0; rep < 6; rep++ {
		for _, conc := range []string{"concurrent", "before", "after", "equal"} {
			for strat := 0; strat < 3; strat++ {
				for _, rel := range []int{-1, 0, 1} {
					for skew := 0; skew < 2; skew++ {
						for _, far := range []bool{false, true} {
							c.Case("reset")
							c.Do("new A 0")
							c.Do("new B 0")
							c.Do("add A n1 1 1 1000000 1 h1:1")
							c.Do("add A n2 1 1 1000000 1 h2:1")
							c.Do("add B n1 1 1 1000000 1 h1:1")
							c.Do("add B n2 1 1 1000000 1 h2:1")
							for j := c.Rng.Intn(3); j > 0; j-- {
								c.Do(fmt.Sprintf("add %s %s", []string{"A", "B"}[c.Rng.Intn(2)], randMember(true)))
							}
							switch conc {
							case "concurrent":
								c.Do("inc A n1")
								c.Do("inc B n2")
							case "before":
								c.Do("inc B n2")
							case "after":
								c.Do("inc A n1")
							}
							ts := int64(2)
							if !far {
								ts += viewNear
							}
							c.Do(fmt.Sprintf("set A 5 %d 1", int64(3)+viewNear))
							c.Do(fmt.Sprintf("set B %d %d %d", 5+rel*2, ts, 1+c.Rng.Intn(2)))
							o := c.Do(fmt.Sprintf("merge A B %d %d", strat, skew))
							if strings.HasPrefix(o, "changed=1") {
								c.R.Nontrivial()
							}
							relName := map[int]string{-1: "remote-epoch-lower", 0: "epoch-eq", 1: "remote-epoch-higher"}[rel]
							cn := "ordered"
							if conc == "concurrent" {
								cn = "concurrent"
							}
							c.R.Hit(fmt.Sprintf("adopt:%s:strategy%d:%s:skew%d", cn, strat, relName, skew))
						}
					}
				}
			}
		}
	}
	for i := 0; i < cases; i++ {
		wf := !c.Rng.Chance(1, 12)
		c.Case("reset")
		if !wf {
			c.R.Hit("non-wf-case")
		}
		for _, n := range names {
			mx := 0
			if c.Rng.Chance(1, 6) {
				mx = 1 + c.Rng.Intn(3)
			}
			c.Do(fmt.Sprintf("new %s %d", n, mx))
			k := c.Rng.Intn(8)
			for j := 0; j < k; j++ {
				switch x := c.Rng.Intn(12); {
				case x < 5:
					c.Do(fmt.Sprintf("add %s %s", n, randMember(wf)))
				case x < 9:
					id := ids[c.Rng.Intn(len(ids))]
					if _, member := e.get(n).Members[id]; member || !wf {
						c.Do(fmt.Sprintf("inc %s %s", n, id))
					}
				case x < 10:
					c.Do(fmt.Sprintf("rm %s %s", n, ids[c.Rng.Intn(len(ids))]))
				default:
					ts := int64(c.Rng.Intn(5))
					if c.Rng.Bool() {
						ts += viewNear
					}
					c.Do(fmt.Sprintf("set %s %d %d %d", n, c.Rng.Intn(5), ts, 1+c.Rng.Intn(2)))
				}
			}
		}
		strat := c.Rng.Intn(3)
		skew := c.Rng.Intn(2)
		// coverage of the epoch/timestamp adoption rule: concurrent vectors x strategy x epoch relation
		{
			a, b := e.get("A"), e.get("B")
			rel := "epoch-eq"
			if b.Epoch > a.Epoch {
				rel = "remote-epoch-higher"
			} else if b.Epoch < a.Epoch {
				rel = "remote-epoch-lower"
			}
			conc := "ordered"
			if a.VersionVector.Compare(b.VersionVector) == cluster.VersionConcurrent {
				conc = "concurrent"
			}
			if len(b.Members) > 0 {
				c.R.Hit(fmt.Sprintf("adopt:%s:strategy%d:%s:skew%d", conc, strat, rel, skew))
			}
		}
		// all merge orders of two and three views, on copies
		c.Do("copy A AB")
		c.Do("copy B BA")
		o1 := c.Do(fmt.Sprintf("merge AB B %d %d", strat, skew))
		o2 := c.Do(fmt.Sprintf("merge BA A %d %d", strat, skew))
		if strings.HasPrefix(o1, "changed=1") {
			c.R.Hit("merge:changed")
			c.R.Nontrivial()
		} else {
			c.R.Hit("merge:unchanged")
		}
		if wf {
			if a, b := membersObs(o1), membersObs(o2); a != b {
				c.R.Violate("view", "merge is not commutative on membership: A<-B gives "+a+", B<-A gives "+b)
			}
		}
		c.Do("copy AB ABC")
		o3 := c.Do(fmt.Sprintf("merge ABC C %d %d", strat, skew))
		c.Do("copy B BC")
		c.Do(fmt.Sprintf("merge BC C %d %d", strat, skew))
		c.Do("copy A A2")
		o4 := c.Do(fmt.Sprintf("merge A2 BC %d %d", strat, skew))
		if wf {
			if a, b := membersObs(o3), membersObs(o4); a != b {
				c.R.Violate("view", "merge is not associative on membership: (A<-B)<-C gives "+a+", A<-(B<-C) gives "+b)
			}
		}
		c.Do("copy ABC X")
		o5 := c.Do(fmt.Sprintf("merge ABC X %d %d", strat, skew))
		if wf && membersObs(o5) != membersObs(o3) {
			c.R.Violate("view", "merge is not idempotent on membership")
		}
		// the owner of B (and of C) goes on updating its stored states in place; the views that merged from them keep
		// what they adopted, and a later merge adopts the newer state by the usual rule
		for _, src := range []string{"B", "C"} {
			for _, id := range ids {
				if _, member := e.get(src).Members[id]; member {
					c.Do(fmt.Sprintf("touch %s %s %d %d", src, id, 1+c.Rng.Intn(4), 1+c.Rng.Intn(9)))
					c.R.Hit("touch")
				}
			}
		}
		c.Do("dump AB")
		c.Do("dump ABC")
		c.Do("dump BC")
		c.Do(fmt.Sprintf("merge AB B %d %d", strat, skew))
		c.Do(fmt.Sprintf("merge ABC C %d %d", strat, skew))
		c.Do("leader ABC")
		if skew == 1 {
			c.R.Hit("skew-rule")
		}
		c.R.Hit(fmt.Sprintf("strategy:%d", strat))
	}
}

// membersObs extracts "id:gen:lc" of every member from a dump line.
func membersObs(dump string) string {
	i := strings.Index(dump, " m=")
	if i < 0 {
		return dump
	}
	var out []string
	for _, m := range strings.Split(dump[i+3:], ";") {
		p := strings.Split(m, ":")
		if len(p) >= 3 {
			out = append(out, p[0]+":"+p[1]+":"+p[2])
		}
	}
	return strings.Join(out, ";")
}
