package engines

import (
	"fmt"
	"sort"
)

// Consts is filled by the engines' init functions with the constants of the real code that the
// Lean theorems depend on; `vh consts` dumps them for the Constants translator.
var Consts = map[string]string{}

func ConstInt(name string, v int64)   { Consts[name] = fmt.Sprint(v) }
func ConstUint(name string, v uint64) { Consts[name] = fmt.Sprint(v) }
func ConstStr(name string, v string)  { Consts[name] = v }

func DumpConsts() {
	ks := make([]string, 0, len(Consts))
	for k := range Consts {
		ks = append(ks, k)
	}
	sort.Strings(ks)
	for _, k := range ks {
		fmt.Printf("%s %s\n", k, Consts[k])
	}
}
