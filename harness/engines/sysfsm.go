package engines

import (
	"context"
	"errors"
	"fmt"
	"runtime"
	"strings"
	"sync"
	"time"

	"github.com/kercylan98/vivid"
	"github.com/kercylan98/vivid/internal/actor"
	"github.com/kercylan98/vivid/pkg/log"
)

// Engine sysfsm: System.Start / Stop / context-cancel on real systems with real goroutines (C07).
// Every call runs under a watchdog: a call that has not returned after fsmBound is "BLOCKED".
type sysfsmEngine struct {
	sys       *actor.System
	cancel    context.CancelFunc
	cancelled bool
	base      int
}

func init() { Register("sysfsm", func() Engine { return &sysfsmEngine{} }) }

func (*sysfsmEngine) Name() string { return "sysfsm" }

const fsmBound = 1500 * time.Millisecond

func fsmRet(err error) string {
	switch {
	case err == nil:
		return "ok"
	case errors.Is(err, vivid.ErrorActorSystemAlreadyStarted):
		return "already-started"
	case errors.Is(err, vivid.ErrorActorSystemAlreadyStopped):
		return "already-stopped"
	case errors.Is(err, vivid.ErrorActorSystemNotStarted):
		return "not-started"
	}
	return "err:" + err.Error()
}

func bounded(f func() error) (string, bool) {
	ch := make(chan error, 1)
	go func() { ch <- f() }()
	select {
	case err := <-ch:
		return fsmRet(err), true
	case <-time.After(fsmBound):
		return "BLOCKED", false
	}
}

func (e *sysfsmEngine) status() string {
	ch := make(chan int32, 1)
	go func() { ch <- e.sys.VerifStatus() }()
	select {
	case s := <-ch:
		return []string{"ready", "started", "stopped"}[s]
	case <-time.After(fsmBound):
		return "LOCKED"
	}
}

// settle waits until the status stops changing (the guardian's stop is asynchronous).
func (e *sysfsmEngine) settle(want string) string {
	deadline := time.Now().Add(fsmBound)
	for {
		s := e.status()
		if s == want || s == "LOCKED" || time.Now().After(deadline) {
			return s
		}
		time.Sleep(5 * time.Millisecond)
	}
}

func vividGoroutines() int {
	buf := make([]byte, 1<<20)
	n := runtime.Stack(buf, true)
	cnt := 0
	for _, g := range strings.Split(string(buf[:n]), "\n\n") {
		if (strings.Contains(g, "github.com/kercylan98/vivid/") || strings.Contains(g, "go-quartz")) && !strings.Contains(g, "verifharness") {
			cnt++
		}
	}
	return cnt
}

// leftGoroutines names the top vivid / go-quartz frame of every goroutine still alive.
func leftGoroutines() string {
	buf := make([]byte, 1<<20)
	n := runtime.Stack(buf, true)
	var out []string
	for _, g := range strings.Split(string(buf[:n]), "\n\n") {
		if (strings.Contains(g, "github.com/kercylan98/vivid/") || strings.Contains(g, "go-quartz")) && !strings.Contains(g, "verifharness") {
			for _, l := range strings.Split(g, "\n") {
				if strings.Contains(l, "github.com/kercylan98/vivid/") || strings.Contains(l, "go-quartz") {
					l = strings.TrimSpace(l)
					if i := strings.LastIndex(l, "("); i > 0 {
						l = l[:i]
					}
					out = append(out, l[strings.LastIndex(l, "/")+1:])
					break
				}
			}
		}
	}
	return strings.Join(out, ", ")
}

func (e *sysfsmEngine) Exec(line string) (obs string, viol string) {
	tk := strings.Fields(line)
	if len(tk) == 0 {
		return "bad-op", ""
	}
	switch tk[0] {
	case "new":
		if e.cancel != nil {
			e.cancel()
		}
		e.base = vividGoroutines()
		ctx, cancel := context.WithCancel(context.Background())
		e.cancel = cancel
		e.cancelled = false
		e.sys = actor.NewSystem(vivid.WithActorSystemContext(ctx), vivid.WithActorSystemLogger(log.NewSilentLogger()), vivid.WithActorSystemStopTimeout(time.Second))
		return "ok", ""
	case "start", "stop":
		var r string
		var done bool
		if tk[0] == "start" {
			r, done = bounded(func() error {
				err := e.sys.Start()
				if err == nil {
					// a small tree so that Stop has something to terminate
					ref, _ := e.sys.ActorOf(vivid.ActorFN(func(c vivid.ActorContext) {
						if _, ok := c.Message().(*vivid.OnLaunch); ok {
							c.ActorOf(vivid.ActorFN(func(vivid.ActorContext) {}), vivid.WithActorName("leaf"))
						}
					}), vivid.WithActorName("a"))
					_ = ref
				}
				return err
			})
		} else {
			r, done = bounded(func() error { return e.sys.Stop(time.Second) })
		}
		if !done {
			viol = fmt.Sprintf("HANG: %s did not return within %v", tk[0], fsmBound)
		}
		if tk[0] == "start" && r == "ok" && e.cancelled {
			e.settle("stopped") // the context was cancelled before Start: the guardian stops the system at once
		}
		st := e.status()
		if st == "LOCKED" && viol == "" {
			viol = "HANG: the status lock is held forever (a goroutine blocked while holding it)"
		}
		return r + " status=" + st, viol
	case "cancel":
		e.cancel()
		e.cancelled = true
		want := e.status()
		if want == "started" {
			want = "stopped"
		}
		st := e.settle(want)
		if st == "LOCKED" {
			viol = "HANG: after context cancellation the status lock is held forever: the guardian goroutine deadlocked, the system never stops"
		} else if st != want {
			viol = fmt.Sprintf("CANCEL-NOT-STOP: %v after cancelling the context the system is %s, not %s", fsmBound, st, want)
		}
		return "- status=" + st, viol
	case "conc":
		if len(tk) != 3 {
			return "bad-op", ""
		}
		// two calls released together; every call must return, at most one Start and one Stop succeed
		var wg sync.WaitGroup
		res := make([]string, 2)
		ok := make([]bool, 2)
		start := make(chan struct{})
		for i := 0; i < 2; i++ {
			wg.Add(1)
			go func(i int, op string) {
				defer wg.Done()
				<-start
				switch op {
				case "start":
					res[i], ok[i] = bounded(e.sys.Start)
				case "stop":
					res[i], ok[i] = bounded(func() error { return e.sys.Stop(time.Second) })
				case "cancel":
					e.cancel()
					res[i], ok[i] = "-", true
				}
			}(i, tk[1+i])
		}
		close(start)
		wg.Wait()
		for i := 0; i < 2; i++ {
			if !ok[i] {
				viol = fmt.Sprintf("HANG: concurrent %s did not return within %v", tk[1+i], fsmBound)
			}
		}
		if tk[1] == tk[2] && res[0] == "ok" && res[1] == "ok" && tk[1] != "cancel" {
			viol = fmt.Sprintf("TWICE-OK: two concurrent %s calls both returned nil", tk[1])
		}
		return "-", viol
	case "many":
		if len(tk) != 3 {
			return "bad-op", ""
		}
		n := 8
		fmt.Sscanf(tk[2], "%d", &n)
		var wg sync.WaitGroup
		var mu sync.Mutex
		oks, hung := 0, 0
		start := make(chan struct{})
		for i := 0; i < n; i++ {
			wg.Add(1)
			go func() {
				defer wg.Done()
				<-start
				var r string
				var done bool
				if tk[1] == "start" {
					r, done = bounded(e.sys.Start)
				} else {
					r, done = bounded(func() error { return e.sys.Stop(time.Second) })
				}
				mu.Lock()
				if !done {
					hung++
				}
				if r == "ok" {
					oks++
				}
				mu.Unlock()
			}()
		}
		close(start)
		wg.Wait()
		if hung > 0 {
			viol = fmt.Sprintf("HANG: %d of %d concurrent %s calls did not return within %v", hung, n, tk[1], fsmBound)
		} else if oks > 1 {
			viol = fmt.Sprintf("TWICE-OK: %d of %d concurrent %s calls returned nil", oks, n, tk[1])
		}
		return "-", viol
	case "slowstop":
		// A Stop that runs into its timeout (an actor is still busy in OnKill), on a system of its own: Stop
		// returns its error in time, later calls report already-stopped, and once the slow actor has let go
		// and the tree has terminated no goroutine of the system is left — the failed Stop is still a Stop.
		base := vividGoroutines()
		sys := actor.NewSystem(vivid.WithActorSystemLogger(log.NewSilentLogger()))
		if err := sys.Start(); err != nil {
			return "-", ""
		}
		release, dead := make(chan struct{}), make(chan struct{})
		sys.ActorOf(vivid.ActorFN(func(c vivid.ActorContext) {
			switch c.Message().(type) {
			case *vivid.OnKill:
				<-release
			case *vivid.OnKilled:
				select {
				case <-dead:
				default:
					close(dead)
				}
			}
		}), vivid.WithActorName("slow"))
		time.Sleep(20 * time.Millisecond)
		r, done := bounded(func() error { return sys.Stop(60 * time.Millisecond) })
		switch {
		case !done:
			viol = fmt.Sprintf("HANG: Stop(60 ms) with a busy actor did not return within %v", fsmBound)
		case r == "ok":
			viol = "SLOW-STOP: Stop returned nil although an actor was still running when its timeout expired"
		}
		r2, done2 := bounded(func() error { return sys.Stop(60 * time.Millisecond) })
		if viol == "" && (!done2 || r2 == "ok") {
			viol = fmt.Sprintf("SLOW-STOP: a second Stop after the timed-out one returned %q (done=%v), expected already-stopped at once", r2, done2)
		}
		close(release)
		select {
		case <-dead:
		case <-time.After(2 * time.Second):
		}
		if viol == "" {
			deadline := time.Now().Add(3 * time.Second)
			n := vividGoroutines()
			for n > base && time.Now().Before(deadline) {
				time.Sleep(50 * time.Millisecond)
				n = vividGoroutines()
			}
			if n > base {
				viol = fmt.Sprintf("GOROUTINE-LEFT: %d goroutine(s) of a system whose Stop timed out are still alive 3 s after its last actor terminated (nothing can stop them any more: later Stop calls report already-stopped): %s", n-base, leftGoroutines())
			}
		}
		return "-", viol
	case "busystop":
		// Start and Stop issued while another Stop is in progress (it waits for a busy actor, up to 1.2 s) return
		// promptly with their error instead of waiting for that Stop to end.
		sys := actor.NewSystem(vivid.WithActorSystemLogger(log.NewSilentLogger()))
		if err := sys.Start(); err != nil {
			return "-", ""
		}
		release, inKill := make(chan struct{}), make(chan struct{})
		sys.ActorOf(vivid.ActorFN(func(c vivid.ActorContext) {
			if _, ok := c.Message().(*vivid.OnKill); ok {
				select {
				case <-inKill:
				default:
					close(inKill)
				}
				<-release
			}
		}), vivid.WithActorName("busy"))
		time.Sleep(20 * time.Millisecond)
		first := make(chan error, 1)
		go func() { first <- sys.Stop(1200 * time.Millisecond) }()
		select {
		case <-inKill:
		case <-time.After(fsmBound):
			close(release)
			return "-", "HARNESS: busystop: the busy actor was never told to stop"
		}
		for _, call := range []string{"Stop", "Start", "Stop"} {
			t0 := time.Now()
			var r string
			var done bool
			if call == "Stop" {
				r, done = bounded(func() error { return sys.Stop(50 * time.Millisecond) })
			} else {
				r, done = bounded(func() error { return sys.Start() })
			}
			if d := time.Since(t0); viol == "" && (!done || d > 500*time.Millisecond) {
				viol = fmt.Sprintf("NOT-PROMPT: %s issued while another Stop is in progress returned %q after %v (that Stop is still waiting for a busy actor): further calls must return their error promptly instead of blocking", call, r, d.Round(10*time.Millisecond))
			} else if viol == "" && r == "ok" {
				viol = fmt.Sprintf("TWICE-OK: %s issued while another Stop is in progress returned nil", call)
			}
		}
		close(release)
		select {
		case err := <-first:
			if err != nil && viol == "" {
				viol = fmt.Sprintf("SLOW-STOP: the first Stop (1.2 s) failed although the busy actor let go after about 0.1 s: %v", err)
			}
		case <-time.After(2 * fsmBound):
			if viol == "" {
				viol = "HANG: the first Stop did not return"
			}
		}
		return "-", viol
	case "zerostop":
		// "returns within its timeout" for the smallest timeouts: Stop(0) and Stop(negative) give up at once
		// (documented: a non-positive timeout expires immediately) while an actor is still busy stopping
		for _, to := range []time.Duration{0, -time.Second, time.Millisecond} {
			sys := actor.NewSystem(vivid.WithActorSystemLogger(log.NewSilentLogger()))
			if err := sys.Start(); err != nil {
				return "-", ""
			}
			release := make(chan struct{})
			sys.ActorOf(vivid.ActorFN(func(c vivid.ActorContext) {
				if _, ok := c.Message().(*vivid.OnKill); ok {
					<-release
				}
			}), vivid.WithActorName("busy"))
			time.Sleep(20 * time.Millisecond)
			t0 := time.Now()
			r, done := bounded(func() error { return sys.Stop(to) })
			d := time.Since(t0)
			close(release)
			if viol == "" && (!done || d > 500*time.Millisecond) {
				viol = fmt.Sprintf("STOP-TIMEOUT: Stop(%v) with an actor busy in OnKill returned %q after %v: Stop returns within its timeout", to, r, d.Round(10*time.Millisecond))
			} else if viol == "" && r == "ok" {
				viol = fmt.Sprintf("SLOW-STOP: Stop(%v) returned nil although an actor was still running when its timeout expired", to)
			}
			time.Sleep(50 * time.Millisecond)
		}
		return "-", viol
	case "selfstop":
		// an actor that reacts to its own termination by stopping the system (a common shutdown idiom): the Stop
		// that is already in progress must still succeed within its timeout, and the inner call returns its error
		sys := actor.NewSystem(vivid.WithActorSystemLogger(log.NewSilentLogger()))
		if err := sys.Start(); err != nil {
			return "-", ""
		}
		inner := make(chan string, 4)
		sys.ActorOf(vivid.ActorFN(func(c vivid.ActorContext) {
			if _, ok := c.Message().(*vivid.OnKill); ok {
				inner <- fsmRet(sys.Stop(50 * time.Millisecond))
			}
		}), vivid.WithActorName("stopper"))
		time.Sleep(20 * time.Millisecond)
		t0 := time.Now()
		r, done := bounded(func() error { return sys.Stop(1000 * time.Millisecond) })
		d := time.Since(t0)
		switch {
		case !done:
			viol = fmt.Sprintf("HANG: Stop did not return within %v when an actor calls Stop from its OnKill handler", fsmBound)
		case r != "ok":
			viol = fmt.Sprintf("SELF-STOP: Stop(1 s) returned %q after %v because an actor called Stop from its OnKill handler (the two calls wait for each other)", r, d.Round(10*time.Millisecond))
		case d > 600*time.Millisecond:
			viol = fmt.Sprintf("NOT-PROMPT: Stop took %v because an actor called Stop from its OnKill handler", d.Round(10*time.Millisecond))
		}
		select {
		case ir := <-inner:
			if ir == "ok" && viol == "" {
				viol = "TWICE-OK: the Stop called from inside the shutdown returned nil as well"
			}
		case <-time.After(fsmBound):
			if viol == "" {
				viol = "HANG: the Stop called from the OnKill handler never returned"
			}
		}
		return "-", viol
	case "census":
		// after Stop: no goroutine of the system keeps running or stays blocked
		time.Sleep(150 * time.Millisecond)
		if n := vividGoroutines(); n > e.base {
			time.Sleep(400 * time.Millisecond)
			if n = vividGoroutines(); n > e.base {
				viol = fmt.Sprintf("GOROUTINE-LEFT: %d goroutine(s) with vivid / go-quartz frames are still alive after Stop (baseline %d)", n-e.base, e.base)
			}
		}
		return "-", viol
	}
	return "bad-op", ""
}

func (e *sysfsmEngine) Generate(c *Ctx) {
	ops := []string{"start", "stop", "cancel"}
	// (1) every sequential history of up to 4 calls
	var rec func(seq []string, depth int)
	maxLen := 3
	if c.Thorough() {
		maxLen = 4
	}
	rec = func(seq []string, depth int) {
		if len(seq) > 0 {
			c.Case("new")
			started := false
			for _, o := range seq {
				if o == "cancel" && !started {
					c.R.Hit("cancel-before-start")
				}
				r := c.Do(o)
				if o == "start" && strings.HasPrefix(r, "ok") {
					started = true
				}
				c.R.Hit("ret:" + strings.Fields(r)[0])
			}
			c.R.Nontrivial()
		}
		if depth == maxLen {
			return
		}
		for _, o := range ops {
			rec(append(append([]string(nil), seq...), o), depth+1)
		}
	}
	rec(nil, 0)
	// (2) pairwise concurrent calls, after each prefix of length <= 1
	reps := 3
	if c.Thorough() {
		reps = 25
	}
	for r := 0; r < reps; r++ {
		for _, pre := range [][]string{{}, {"start"}, {"start", "stop"}} {
			for _, a := range ops {
				for _, b := range ops {
					c.Case("new")
					for _, o := range pre {
						c.Do(o)
					}
					c.Do("conc " + a + " " + b)
					c.R.Hit("conc")
					c.R.Nontrivial()
				}
			}
		}
	}
	// (2b) eight concurrent Starts on a fresh system, eight concurrent Stops on a started one
	many := 15
	if c.Thorough() {
		many = 150
	}
	for r := 0; r < many; r++ {
		c.Case("new")
		c.Do("many start 8")
		c.Do("many stop 8")
		c.R.Hit("many")
		c.R.Nontrivial()
	}
	// (2b) a Stop that times out
	for r := 0; r < 2; r++ {
		c.Case("slowstop")
		c.R.Hit("slowstop")
		c.R.Nontrivial()
	}
	// (2c) calls issued while a Stop is in progress: from other goroutines, and from an actor being stopped
	for r := 0; r < 2; r++ {
		c.Case("busystop")
		c.R.Hit("busystop")
		c.R.Nontrivial()
		c.Case("selfstop")
		c.R.Hit("selfstop")
		c.R.Nontrivial()
		c.Case("zerostop")
		c.R.Hit("zerostop")
		c.R.Nontrivial()
	}
	// (3) goroutine census after a full Start/Stop cycle
	c.Case("new")
	c.Do("start")
	c.Do("stop")
	c.Do("census")
	c.R.Hit("census")
	if e.cancel != nil {
		e.cancel()
	}
}
