package engines

import (
	"context"
	"fmt"
	"sync"
	"sync/atomic"
	"time"

	"github.com/kercylan98/vivid"
	"github.com/kercylan98/vivid/internal/actor"
	"github.com/kercylan98/vivid/pkg/log"
)

// meshBurst: `k` real systems in one process, fully connected over loopback TCP. On every system
// one sender actor per peer tells `n` numbered messages (payload `pad` bytes, filled with a
// per-link byte) to the peer's sink actor, all links at once and in both directions; the sink
// replies to every message. Checked (C11): per link exactly once, in order, payload intact, the
// sender reference seen by the sink is the sending actor, and every reply reaches that sender,
// in order.
func meshBurst(k, n, pad int) string {
	base := int(atomic.AddInt32(&fbPort, int32(k)))
	addr := func(i int) string { return fmt.Sprintf("127.0.0.1:%d", base+i) }
	var mu sync.Mutex
	bad := ""
	fail := func(f string, a ...any) {
		mu.Lock()
		if bad == "" {
			bad = fmt.Sprintf(f, a...)
		}
		mu.Unlock()
	}
	type link struct{ from, to int }
	recv := map[link]int64{} // next expected seq at the sink
	acks := map[link]int64{} // next expected ack at the sender
	var systems []*actor.System
	for i := 0; i < k; i++ {
		ctx, cancel := context.WithCancel(context.Background())
		s := actor.NewSystem(vivid.WithActorSystemContext(ctx), vivid.WithActorSystemLogger(log.NewSilentLogger()),
			vivid.WithActorSystemRemoting(addr(i)), vivid.WithActorSystemCodec(fbCodec{}))
		if err := s.Start(); err != nil {
			cancel()
			return "HARNESS: mesh system did not start: " + err.Error()
		}
		defer func() { go s.Stop(time.Second); cancel() }()
		systems = append(systems, s)
	}
	fill := func(l link) byte { return byte('A' + l.from*k + l.to) }
	for i := 0; i < k; i++ {
		i := i
		_, err := systems[i].ActorOf(vivid.ActorFN(func(c vivid.ActorContext) {
			m, ok := c.Message().(*fbMsg)
			if !ok {
				return
			}
			l := link{int(m.Sender), i}
			mu.Lock()
			want := recv[l]
			recv[l] = want + 1
			mu.Unlock()
			if m.Seq != want {
				fail("link %d->%d: message at position %d carries sequence number %d (lost / duplicate / reorder)", l.from, l.to, want, m.Seq)
			}
			if len(m.Pad) != pad {
				fail("link %d->%d message %d: payload length %d, sent %d", l.from, l.to, m.Seq, len(m.Pad), pad)
			}
			for j, x := range m.Pad {
				if x != fill(l) {
					fail("link %d->%d message %d: payload byte %d is %q, sent %q (foreign bytes)", l.from, l.to, m.Seq, j, x, fill(l))
					break
				}
			}
			wantSender := fmt.Sprintf("%s/sender-%d", addr(l.from), i)
			if s := c.Sender(); s == nil || s.GetAddress()+s.GetPath() != wantSender {
				got := "<nil>"
				if s != nil {
					got = s.GetAddress() + s.GetPath()
				}
				fail("link %d->%d message %d: sender reference is %s, the sender was %s", l.from, l.to, m.Seq, got, wantSender)
			}
			c.Reply(&fbMsg{Sender: int32(1000 + i), Seq: m.Seq})
		}), vivid.WithActorName("sink"))
		if err != nil {
			return "HARNESS: mesh actor: " + err.Error()
		}
	}
	for i := 0; i < k; i++ {
		for j := 0; j < k; j++ {
			if i == j {
				continue
			}
			l := link{i, j}
			target, _ := systems[i].CreateRef(addr(j), "/sink")
			_, err := systems[i].ActorOf(vivid.ActorFN(func(c vivid.ActorContext) {
				switch m := c.Message().(type) {
				case *vivid.OnLaunch:
					buf := make([]byte, pad)
					for x := range buf {
						buf[x] = fill(l)
					}
					for q := 0; q < n; q++ {
						c.Tell(target, &fbMsg{Sender: int32(l.from), Seq: int64(q), Pad: buf})
					}
				case *fbMsg:
					mu.Lock()
					want := acks[l]
					acks[l] = want + 1
					mu.Unlock()
					if int(m.Sender) != 1000+l.to || m.Seq != want {
						fail("link %d->%d: reply at position %d is (from %d, seq %d): replies lost, reordered or misrouted", l.from, l.to, want, m.Sender-1000, m.Seq)
					}
				}
			}), vivid.WithActorName(fmt.Sprintf("sender-%d", j)))
			if err != nil {
				return "HARNESS: mesh actor: " + err.Error()
			}
		}
	}
	deadline := time.Now().Add(10 * time.Second)
	for time.Now().Before(deadline) {
		mu.Lock()
		done := bad != ""
		if !done {
			done = true
			for i := 0; i < k && done; i++ {
				for j := 0; j < k; j++ {
					if i != j && (recv[link{i, j}] < int64(n) || acks[link{i, j}] < int64(n)) {
						done = false
						break
					}
				}
			}
		}
		mu.Unlock()
		if done {
			break
		}
		time.Sleep(5 * time.Millisecond)
	}
	time.Sleep(30 * time.Millisecond)
	mu.Lock()
	defer mu.Unlock()
	if bad != "" {
		return "LOOPBACK: mesh: " + bad
	}
	for i := 0; i < k; i++ {
		for j := 0; j < k; j++ {
			if i == j {
				continue
			}
			l := link{i, j}
			if recv[l] != int64(n) || acks[l] != int64(n) {
				return fmt.Sprintf("LOOPBACK: mesh: link %d->%d over healthy loopback connections: %d sent, %d processed by the remote actor, %d replies back at the sender", i, j, n, recv[l], acks[l])
			}
		}
	}
	return ""
}
