package engines

import (
	"errors"
	"fmt"
	"strconv"
	"strings"
	"time"

	"github.com/kercylan98/vivid"
	"github.com/kercylan98/vivid/internal/future"
	"github.com/kercylan98/vivid/pkg/log"
	"github.com/kercylan98/vivid/verifharness/sched"
)

// Engine future: the real future.Future under the fine baton (M11, C04).
type futLiaison struct{ e *futEngine }

func (l futLiaison) Tell(recipient vivid.ActorRef, message vivid.Message) {
	pr, ok := message.(*vivid.PipeResult)
	if !ok {
		return
	}
	id := recipient.GetPath()
	l.e.told[id]++
	if pr.Message == nil && pr.Error == nil {
		l.e.zero++
	} else {
		l.e.final++
	}
}
func (l futLiaison) Ask(vivid.ActorRef, vivid.Message, ...time.Duration) vivid.Future[vivid.Message] {
	return nil
}

func (l futLiaison) Entrust(time.Duration, vivid.EntrustTask) vivid.Future[vivid.Message] { return nil }
func (l futLiaison) PipeTo(vivid.ActorRef, vivid.Message, vivid.ActorRefs, ...time.Duration) string {
	return ""
}
func (l futLiaison) Logger() log.Logger { return log.NewSilentLogger() }

type futEngine struct {
	s            *sched.Sched
	f            *future.Future[vivid.Message]
	fixed        bool
	told         map[string]int
	final        int
	zero         int
	closer       int
	readZero     int
	kinds        map[int]string
	viol         string
	lastSchedule []int
}

func init() { Register("future", func() Engine { return &futEngine{} }) }

func (*futEngine) Name() string { return "future" }

func (e *futEngine) reset(fixed bool) {
	if e.s != nil {
		// abandon what is left (threads blocked on a future that never completes stay parked)
		sched.Uninstall()
	}
	e.s = sched.New()
	e.s.Filter = func(site string, obj any) bool {
		return strings.HasPrefix(site, "fut.") || site == "start" || site == "exit"
	}
	e.s.Install()
	e.fixed = fixed
	e.told = map[string]int{}
	e.final, e.zero, e.closer, e.readZero = 0, 0, 0, 0
	e.kinds = map[int]string{}
	e.viol = ""
	e.f = future.NewFuture[vivid.Message](futLiaison{e}, 0, func() { e.closer++ })
}

func (e *futEngine) pcOf(t *sched.Thread) string {
	switch t.Site {
	case "fut.close.cas":
		return "k0"
	case "fut.close.write":
		return "k1"
	case "fut.close.done":
		return "k2"
	case "fut.close.closer":
		return "k3"
	case "fut.close.take":
		return "k4"
	case "fut.close.tell":
		return "k5"
	case "fut.pipe.lock":
		return "p0"
	case "fut.pipe.wait":
		return "p1w"
	case "fut.pipe.tell":
		return "p1"
	case "fut.result.wait", "fut.wait.wait":
		return "w0"
	}
	return "?" + t.Site
}

func (e *futEngine) live() []*sched.Thread {
	var out []*sched.Thread
	for _, t := range e.s.Threads {
		if !t.Done && t.Site != "exit" && t.Site != "start" {
			out = append(out, t)
		}
	}
	return out
}

func (e *futEngine) runnable() []*sched.Thread {
	var out []*sched.Thread
	for _, t := range e.live() {
		if (t.Site == "fut.pipe.wait" || t.Site == "fut.result.wait" || t.Site == "fut.wait.wait") && !e.f.VerifDone() {
			continue
		}
		out = append(out, t)
	}
	return out
}

func (e *futEngine) show() string {
	b := func(x bool) int {
		if x {
			return 1
		}
		return 0
	}
	var pcs []string
	for _, t := range e.live() {
		pcs = append(pcs, fmt.Sprintf("%d:%s", t.ID, e.pcOf(t)))
	}
	p := "-"
	if len(pcs) > 0 {
		p = strings.Join(pcs, ",")
	}
	return fmt.Sprintf("closed=%d done=%d fwd=%d final=%d zero=%d closer=%d rz=%d pcs=%s", b(e.f.VerifClosed()), b(e.f.VerifDone()),
		e.f.VerifForwarders(), e.final, e.zero, e.closer, e.readZero, p)
}

type futRef struct{ id string }

func (r futRef) GetAddress() string           { return "localhost" }
func (r futRef) GetPath() vivid.ActorPath     { return r.id }
func (r futRef) Equals(o vivid.ActorRef) bool { return o != nil && o.GetPath() == r.id }
func (r futRef) Clone() vivid.ActorRef        { return r }
func (r futRef) ToActorRefs() vivid.ActorRefs { return vivid.ActorRefs{r} }
func (r futRef) String() string               { return r.id }

func (e *futEngine) finishExits() {
	for _, t := range e.s.Threads {
		if !t.Done && t.Site == "exit" {
			e.s.Step(t)
		}
	}
}

func (e *futEngine) Exec(line string) (obs string, viol string) {
	tk := strings.Fields(line)
	if len(tk) == 0 {
		return "bad-op", ""
	}
	defer func() {
		if e.viol != "" && viol == "" {
			viol = e.viol
			e.viol = ""
		}
		if e.s != nil && e.s.Stuck != "" && viol == "" {
			viol = "scheduler watchdog: " + e.s.Stuck[:min(len(e.s.Stuck), 500)]
			e.s.Stuck = ""
		}
	}()
	switch tk[0] {
	case "reset":
		e.reset(len(tk) > 1 && tk[1] == "1")
		return "ok", ""
	case "new":
		if len(tk) != 3 || e.s == nil {
			return "bad-op", ""
		}
		tid, _ := strconv.Atoi(tk[1])
		if tid != len(e.s.Threads) {
			return fmt.Sprintf("bad-replay: next tid is %d", len(e.s.Threads)), ""
		}
		var fn func()
		switch tk[2] {
		case "closer":
			switch tid % 3 {
			case 0:
				fn = func() { e.f.EnqueueMessage("reply") }
			case 1:
				fn = func() { e.f.Close(errors.New("scripted error")) }
			default:
				fn = func() { e.f.Close(vivid.ErrorFutureTimeout) }
			}
		case "piper":
			fn = func() { e.f.PipeTo(vivid.ActorRefs{futRef{fmt.Sprintf("/fw%d", tid)}}) }
		case "waiter":
			fn = func() {
				m, err := e.f.Result()
				if m == nil && err == nil {
					e.readZero++
					e.viol = "RESULT-UNWRITTEN: Result() returned before the result was written (nil message and nil error)"
				}
			}
		default:
			return "bad-op", ""
		}
		t := e.s.Go(tk[2], fn)
		if t == nil {
			return "stuck", ""
		}
		e.kinds[tid] = tk[2]
		if !e.s.Step(t) {
			return "stuck", ""
		}
		return e.show(), ""
	case "step":
		if len(tk) != 2 || e.s == nil {
			return "bad-op", ""
		}
		tid, _ := strconv.Atoi(tk[1])
		if tid < 0 || tid >= len(e.s.Threads) || e.s.Threads[tid].Done {
			return "no-such-thread " + tk[1], ""
		}
		t := e.s.Threads[tid]
		if (t.Site == "fut.pipe.wait" || t.Site == "fut.result.wait") && !e.f.VerifDone() {
			return "stuck at " + e.pcOf(t), ""
		}
		if !e.s.Step(t) {
			return "stuck", ""
		}
		e.finishExits()
		if e.zero > 0 && e.viol == "" {
			e.viol = "FORWARD-UNWRITTEN: a forwarder was told a PipeResult with nil message and nil error: PipeTo read the result before close() had written it"
		}
		for id, n := range e.told {
			if n > 1 && e.viol == "" {
				e.viol = fmt.Sprintf("FORWARD-TWICE: forwarder %s was told %d times", id, n)
			}
		}
		if e.closer > 1 && e.viol == "" {
			e.viol = fmt.Sprintf("CLOSER-TWICE: the completion callback ran %d times", e.closer)
		}
		obs = e.show()
		if len(e.runnable()) == 0 {
			// quiescent: every forwarder of a completed future has been told exactly once
			pipers := 0
			for _, k := range e.kinds {
				if k == "piper" {
					pipers++
				}
			}
			blocked := len(e.live())
			if e.f.VerifDone() && blocked == 0 && e.final+e.zero != pipers && e.viol == "" {
				e.viol = fmt.Sprintf("FORWARDER-LOST: the future is complete and nothing is left to run, but %d of %d forwarders were told (%d still registered)", e.final+e.zero, pipers, e.f.VerifForwarders())
			}
		}
		return obs, ""
	}
	return "bad-op", ""
}

// probe: does PipeTo on a future between CAS and result write read the unwritten result?
func (e *futEngine) probe() (fixed bool) {
	e.reset(false)
	defer func() { sched.Uninstall(); e.s = nil }()
	k := e.s.Go("closer", func() { e.f.EnqueueMessage("reply") })
	e.s.Step(k) // to fut.close.cas
	e.s.Step(k) // CAS done, parked at fut.close.write
	p := e.s.Go("piper", func() { e.f.PipeTo(vivid.ActorRefs{futRef{"/fw"}}) })
	e.s.Step(p) // to fut.pipe.lock
	e.s.Step(p) // locked section: sees closed
	return p.Site == "fut.pipe.wait"
}

func (e *futEngine) runCase(c *Ctx, fixed bool, kinds []string, choose func(step int, r []*sched.Thread, cur *sched.Thread) *sched.Thread) {
	f := "0"
	if fixed {
		f = "1"
	}
	c.Case("reset " + f)
	for i, k := range kinds {
		c.Do(fmt.Sprintf("new %d %s", i, k))
	}
	var cur *sched.Thread
	e.lastSchedule = e.lastSchedule[:0]
	for step := 0; step < 200; step++ {
		r := e.runnable()
		if len(r) == 0 {
			break
		}
		t := choose(step, r, cur)
		cur = t
		e.lastSchedule = append(e.lastSchedule, t.ID)
		from := e.pcOf(t)
		c.Do(fmt.Sprintf("step %d", t.ID))
		to := "exit"
		if !t.Done && t.Site != "exit" {
			to = e.pcOf(t)
		}
		c.R.Hit("t:" + from + ">" + to)
	}
	c.R.Nontrivial()
}

func (e *futEngine) Generate(c *Ctx) {
	fixed := e.probe()
	if fixed {
		c.R.Hit("variant:fixed")
	} else {
		c.R.Hit("variant:as-is")
	}
	c.R.Extra["variant"] = map[bool]string{false: "as-is (PipeTo reads the result right after seeing closed)", true: "repaired (PipeTo waits for done)"}[fixed]
	// (0) the finding's own replay
	e.runCase(c, fixed, []string{"closer", "piper"}, func(step int, r []*sched.Thread, cur *sched.Thread) *sched.Thread {
		// closer: CAS, then the piper runs to completion, then the closer finishes
		order := []int{0, 1, 1, 1, 0, 0, 0, 0, 0, 1, 1}
		if step < len(order) {
			for _, t := range r {
				if t.ID == order[step] {
					return t
				}
			}
		}
		return r[0]
	})
	// (1) exhaustive DFS over small thread sets
	sets := [][]string{
		{"closer", "piper"}, {"closer", "piper", "piper"}, {"closer", "closer", "piper"}, {"closer", "piper", "waiter"},
		{"closer", "closer", "piper", "waiter"}, {"piper", "closer", "piper", "closer"},
	}
	budget := 4000
	if c.Thorough() {
		budget = 120000
	}
	total := 0
	for _, set := range sets {
		total += e.dfs(c, fixed, set, budget/len(sets))
	}
	c.R.Extra["dfs_schedules"] = total
	// (2) random larger sets
	runs := 1500
	if c.Thorough() {
		runs = 40000
	}
	for i := 0; i < runs; i++ {
		n := 2 + c.Rng.Intn(6)
		var set []string
		for j := 0; j < n; j++ {
			set = append(set, []string{"closer", "piper", "piper", "waiter"}[c.Rng.Intn(4)])
		}
		e.runCase(c, fixed, set, func(step int, r []*sched.Thread, cur *sched.Thread) *sched.Thread {
			return r[c.Rng.Intn(len(r))]
		})
	}
	if e.s != nil {
		sched.Uninstall()
		e.s = nil
	}
}

// dfs enumerates all schedules of the thread set (stateless re-execution), up to the budget.
func (e *futEngine) dfs(c *Ctx, fixed bool, set []string, budget int) int {
	count := 0
	var explore func(prefix []int)
	explore = func(prefix []int) {
		if count >= budget {
			return
		}
		count++
		var branch [][]int // for each step beyond the prefix: the alternative thread ids
		e.runCase(c, fixed, set, func(step int, r []*sched.Thread, cur *sched.Thread) *sched.Thread {
			if step < len(prefix) {
				for _, t := range r {
					if t.ID == prefix[step] {
						return t
					}
				}
				return r[0]
			}
			var alts []int
			for _, t := range r[1:] {
				alts = append(alts, t.ID)
			}
			branch = append(branch, alts)
			return r[0]
		})
		// re-derive the default choices to build deeper prefixes
		taken := append([]int(nil), e.lastSchedule...)
		for i := len(prefix); i < len(taken); i++ {
			for _, a := range branch[i-len(prefix)] {
				np := append(append([]int(nil), taken[:i]...), a)
				explore(np)
			}
		}
	}
	explore(nil)
	return count
}
