package engines

import (
	"context"
	"encoding/binary"
	"encoding/hex"
	"fmt"
	"net"
	"runtime"
	"strings"
	"sync"
	"sync/atomic"
	"time"

	"github.com/kercylan98/vivid"
	"github.com/kercylan98/vivid/internal/actor"
	"github.com/kercylan98/vivid/internal/mailbox"
	"github.com/kercylan98/vivid/internal/messages"
	"github.com/kercylan98/vivid/internal/remoting"
	"github.com/kercylan98/vivid/internal/remoting/serialize"
	"github.com/kercylan98/vivid/pkg/log"
	"github.com/kercylan98/vivid/pkg/ves"
)

// Engine framing: the real per-connection reader actor fed through net.Pipe with exact chunk
// control (M5, C11/C14), plus real-TCP loopback bursts between two real systems (monitor only).
type framingEngine struct {
	sys    *actor.System
	cancel context.CancelFunc
	mu     sync.Mutex
	events []string
	n      int
}

func init() { Register("framing", func() Engine { return &framingEngine{} }) }

func (*framingEngine) Name() string { return "framing" }

// ---- observation: envelope handler + logger

func (e *framingEngine) add(ev string) {
	e.mu.Lock()
	e.events = append(e.events, ev)
	e.mu.Unlock()
}

func (e *framingEngine) HandleRemotingEnvelop(system bool, senderAddr, senderPath, receiverAddr, receiverPath string, m any) error {
	if p, ok := m.(*messages.PingMessage); ok {
		e.add(fmt.Sprintf("d%d", p.Time.UnixNano()))
	} else {
		e.add("d?")
	}
	return nil
}
func (e *framingEngine) HandleFailedRemotingEnvelop(vivid.Envelop) {}

type frLogger struct{ e *framingEngine }

func (l frLogger) Debug(string, ...any) {}
func (l frLogger) Info(string, ...any)  {}
func (l frLogger) Error(string, ...any) {}
func (l frLogger) Warn(m string, a ...any) {
	switch m {
	case "decode remote message failed":
		l.e.add("u")
	case "invalid message length":
		l.e.add("i")
	case "read connection failed":
		if f, ok := attr(a, "fatal").(bool); ok && f {
			l.e.add("m")
		}
	}
}
func (l frLogger) With(...any) log.Logger      { return l }
func (l frLogger) WithGroup(string) log.Logger { return l }

func (e *framingEngine) ensureSystem() error {
	if e.sys != nil {
		return nil
	}
	ctx, cancel := context.WithCancel(context.Background())
	e.cancel = cancel
	e.sys = actor.NewSystem(vivid.WithActorSystemContext(ctx), vivid.WithActorSystemLogger(frLogger{e}))
	return e.sys.Start()
}

func (e *framingEngine) snapshot() (int, string) {
	e.mu.Lock()
	defer e.mu.Unlock()
	return len(e.events), strings.Join(e.events, ",")
}

// rxCase feeds the chunks to a fresh connection actor and returns the events it produced.
func (e *framingEngine) rxCase(chunks [][]byte) string {
	e.mu.Lock()
	e.events = nil
	e.mu.Unlock()
	a, b := net.Pipe()
	// the actor may write back (close-frame echo): drain our end
	go func() {
		buf := make([]byte, 64)
		for {
			if _, err := a.Read(buf); err != nil {
				return
			}
		}
	}()
	e.n++
	ref, err := e.sys.ActorOf(remoting.VerifNewConnActor(b, stubCodec{}, e), vivid.WithActorName(fmt.Sprintf("conn%d", e.n)))
	if err != nil {
		return "spawn-failed"
	}
	closeSeen := false
	for _, c := range chunks {
		if len(c) == 0 {
			continue
		}
		a.SetWriteDeadline(time.Now().Add(300 * time.Millisecond))
		if _, err := a.Write(c); err != nil {
			closeSeen = true // the actor stopped reading (close frame / kill)
			break
		}
	}
	_ = closeSeen
	a.Close()
	// wait until the event list is stable
	last, stable := -1, 0
	for i := 0; i < 60; i++ {
		time.Sleep(5 * time.Millisecond)
		n, _ := e.snapshot()
		if n == last {
			stable++
			if stable >= 5 {
				break
			}
		} else {
			stable = 0
			last = n
		}
	}
	e.sys.Kill(ref, false, "case done")
	b.Close()
	_, s := e.snapshot()
	if s == "" {
		return "-"
	}
	// a zero-length frame makes the actor kill itself: the harness sees it only through what follows; mark it
	return s
}

func pingFrame(seq int64) []byte {
	env := mailbox.NewEnvelop(false, &stubRef{"127.0.0.1:1", "/s"}, &stubRef{"127.0.0.1:2", "/r"}, &messages.PingMessage{Time: time.Unix(0, seq)})
	data, err := serialize.EncodeEnvelopWithRemoting(stubCodec{}, env)
	if err != nil {
		panic(err)
	}
	out := make([]byte, 4, 4+len(data))
	binary.BigEndian.PutUint32(out, uint32(len(data)))
	return append(out, data...)
}

func (e *framingEngine) Exec(line string) (obs string, viol string) {
	tk := strings.Fields(line)
	if len(tk) == 0 {
		return "bad-op", ""
	}
	if err := e.ensureSystem(); err != nil {
		return "start-failed", ""
	}
	switch tk[0] {
	case "rx":
		if len(tk) != 2 {
			return "bad-op", ""
		}
		var chunks [][]byte
		for _, h := range strings.Split(tk[1], "|") {
			if h == "-" {
				chunks = append(chunks, nil)
				continue
			}
			b, err := hex.DecodeString(h)
			if err != nil {
				return "bad-op", ""
			}
			chunks = append(chunks, b)
		}
		obs = e.rxCase(chunks)
		// the close frame is observable only as "nothing after it": the model prints `c`; align
		// Monitor (oracle on the real execution only): a stream that is nothing but whole frames with lengths in
		// 1..4 MiB must yield one outcome per frame - delivered or undecodable - and never "invalid length".
		var stream []byte
		for _, ch := range chunks {
			stream = append(stream, ch...)
		}
		if n, ok := wholeFrames(stream); ok && n > 0 {
			got, invalid := 0, false
			if obs != "" && obs != "-" {
				for _, tok := range strings.Split(obs, ",") {
					got++
					if tok == "i" {
						invalid = true
					}
				}
			}
			if got != n || invalid {
				var lens []string
				for p := 0; p+4 <= len(stream); {
					l := int(binary.BigEndian.Uint32(stream[p:]))
					lens = append(lens, fmt.Sprint(l))
					p += 4 + l
				}
				return obs, fmt.Sprintf("FRAME-LOST: a healthy stream of %d whole frames (body lengths %s, all within the 4 MiB limit) read in %d chunk(s) produced the outcomes `%s`", n, strings.Join(lens, ","), len(chunks), obs)
			}
		}
		return obs, ""
	case "burst":
		// burst <messages> <senders>: two real systems on loopback
		var n, senders int
		fmt.Sscanf(strings.Join(tk[1:], " "), "%d %d", &n, &senders)
		return "-", loopbackBurst(n, senders, 0)
	case "mesh":
		// mesh <systems> <messages per link> <payload bytes>
		var k, n, pad int
		fmt.Sscanf(strings.Join(tk[1:], " "), "%d %d %d", &k, &n, &pad)
		return "-", meshBurst(k, n, pad)
	case "pace":
		// pace <gap ms> <duration ms>: one sender, one message every gap, for the whole duration (a link that
		// stays healthy for longer than any handshake-time deadline)
		var gap, dur int
		fmt.Sscanf(strings.Join(tk[1:], " "), "%d %d", &gap, &dur)
		return "-", pacedStream(time.Duration(gap)*time.Millisecond, time.Duration(dur)*time.Millisecond)
	case "soak":
		// one message before and one after the 10 s mark on an otherwise idle, healthy link
		return "-", loopbackBurst(1, 1, 10500*time.Millisecond)
	}
	return "bad-op", ""
}

// wholeFrames reports whether the stream consists only of complete frames whose length prefix is in 1..4 MiB
// (no close frame, no oversized prefix, no cut) and how many there are.
func wholeFrames(s []byte) (int, bool) {
	n := 0
	for p := 0; p < len(s); {
		if p+4 > len(s) {
			return 0, false
		}
		l := int(binary.BigEndian.Uint32(s[p:]))
		if l < 1 || l > 4*1024*1024 || p+4+l > len(s) {
			return 0, false
		}
		p += 4 + l
		n++
	}
	return n, true
}

// ---- loopback monitor

type fbMsg struct {
	Sender int32
	Seq    int64
	Pad    []byte
}

type fbCodec struct{}

func (fbCodec) Encode(m any) ([]byte, error) {
	x, ok := m.(*fbMsg)
	if !ok {
		return nil, fmt.Errorf("fbCodec: unsupported %T", m)
	}
	out := make([]byte, 12, 12+len(x.Pad))
	binary.BigEndian.PutUint32(out, uint32(x.Sender))
	binary.BigEndian.PutUint64(out[4:], uint64(x.Seq))
	return append(out, x.Pad...), nil
}
func (fbCodec) Decode(b []byte) (any, error) {
	if len(b) < 12 {
		return nil, fmt.Errorf("fbCodec: short")
	}
	return &fbMsg{Sender: int32(binary.BigEndian.Uint32(b)), Seq: int64(binary.BigEndian.Uint64(b[4:])), Pad: append([]byte(nil), b[12:]...)}, nil
}

var fbPort int32 = 19700

// loopbackBurst: `senders` actors on system A each tell `n` numbered messages to one actor on
// system B over real TCP; B must process each sender's sequence exactly once, in order, intact.
// With gap > 0 every sender sends one more message after an idle period of that length.
func loopbackBurst(n, senders int, gap time.Duration) string {
	pa := int(atomic.AddInt32(&fbPort, 2))
	addrA, addrB := fmt.Sprintf("127.0.0.1:%d", pa), fmt.Sprintf("127.0.0.1:%d", pa+1)
	mk := func(addr string) (*actor.System, context.CancelFunc, error) {
		ctx, cancel := context.WithCancel(context.Background())
		s := actor.NewSystem(vivid.WithActorSystemContext(ctx), vivid.WithActorSystemLogger(log.NewSilentLogger()),
			vivid.WithActorSystemRemoting(addr), vivid.WithActorSystemCodec(fbCodec{}))
		return s, cancel, s.Start()
	}
	a, ca, err := mk(addrA)
	if err != nil {
		return ""
	}
	defer func() { go a.Stop(time.Second); ca() }()
	b, cb, err := mk(addrB)
	if err != nil {
		return ""
	}
	defer func() { go b.Stop(time.Second); cb() }()
	var mu sync.Mutex
	got := map[int32][]int64{}
	bad := ""
	total := 0
	_, err = b.ActorOf(vivid.ActorFN(func(c vivid.ActorContext) {
		if m, ok := c.Message().(*fbMsg); ok {
			mu.Lock()
			got[m.Sender] = append(got[m.Sender], m.Seq)
			total++
			for i, x := range m.Pad {
				if x != byte(int(m.Seq)+i) && bad == "" {
					bad = fmt.Sprintf("payload of message %d/%d corrupted at byte %d", m.Sender, m.Seq, i)
				}
			}
			mu.Unlock()
		}
	}), vivid.WithActorName("sink"))
	if err != nil {
		return ""
	}
	var wg sync.WaitGroup
	extra := 0
	if gap > 0 {
		extra = 1
	}
	// all senders make their first send to the (not yet connected) peer at the same moment: they spin on a flag
	var startAll atomic.Bool
	var armed sync.WaitGroup
	armed.Add(senders)
	for s := 0; s < senders; s++ {
		wg.Add(1)
		go func(s int) {
			defer wg.Done()
			// every sender holds its own reference to the remote actor (its own mailbox cache)
			target, _ := a.CreateRef(addrB, "/sink")
			armed.Done()
			for !startAll.Load() {
				if senders > runtime.GOMAXPROCS(0)-2 {
					runtime.Gosched()
				}
			}
			for i := 0; i < n+extra; i++ {
				if i == n {
					time.Sleep(gap)
				}
				pad := make([]byte, (i*37)%200)
				for j := range pad {
					pad[j] = byte(i + j)
				}
				a.Tell(target, &fbMsg{Sender: int32(s), Seq: int64(i), Pad: pad})
			}
		}(s)
	}
	armed.Wait()
	startAll.Store(true)
	wg.Wait()
	want := (n + extra) * senders
	deadline := time.Now().Add(3 * time.Second)
	for time.Now().Before(deadline) {
		mu.Lock()
		t := total
		mu.Unlock()
		if t >= want {
			break
		}
		time.Sleep(10 * time.Millisecond)
	}
	time.Sleep(50 * time.Millisecond)
	mu.Lock()
	defer mu.Unlock()
	if bad != "" {
		return "LOOPBACK: " + bad
	}
	for s := 0; s < senders; s++ {
		seqs := got[int32(s)]
		if len(seqs) != n+extra {
			return fmt.Sprintf("LOOPBACK: sender %d sent %d messages over a healthy loopback connection, the remote actor processed %d (first few: %v)", s, n+extra, len(seqs), seqs[:min(len(seqs), 6)])
		}
		for i, x := range seqs {
			if x != int64(i) {
				return fmt.Sprintf("LOOPBACK: sender %d: message at position %d is %d (duplicate / reorder)", s, i, x)
			}
		}
	}
	return ""
}

// pacedStream: a steady trickle over one healthy loopback connection; every message must arrive
// exactly once and in order, and the connection must not be torn down on the way.
func pacedStream(gap, dur time.Duration) string {
	pa := int(atomic.AddInt32(&fbPort, 2))
	addrA, addrB := fmt.Sprintf("127.0.0.1:%d", pa), fmt.Sprintf("127.0.0.1:%d", pa+1)
	var mu sync.Mutex
	var got []int64
	closed := 0
	mk := func(addr string) (*actor.System, context.CancelFunc, error) {
		ctx, cancel := context.WithCancel(context.Background())
		s := actor.NewSystem(vivid.WithActorSystemContext(ctx), vivid.WithActorSystemLogger(log.NewSilentLogger()),
			vivid.WithActorSystemRemoting(addr), vivid.WithActorSystemCodec(fbCodec{}))
		return s, cancel, s.Start()
	}
	a, ca, err := mk(addrA)
	if err != nil {
		return "HARNESS: " + err.Error()
	}
	defer func() { go a.Stop(time.Second); ca() }()
	b, cb, err := mk(addrB)
	if err != nil {
		return "HARNESS: " + err.Error()
	}
	defer func() { go b.Stop(time.Second); cb() }()
	b.ActorOf(vivid.ActorFN(func(c vivid.ActorContext) {
		switch m := c.Message().(type) {
		case *vivid.OnLaunch:
			c.EventStream().Subscribe(c, ves.RemotingConnectionClosedEvent{})
		case ves.RemotingConnectionClosedEvent:
			mu.Lock()
			closed++
			mu.Unlock()
		case *fbMsg:
			mu.Lock()
			got = append(got, m.Seq)
			mu.Unlock()
		}
	}), vivid.WithActorName("sink"))
	target, _ := a.CreateRef(addrB, "/sink")
	n := 0
	for end := time.Now().Add(dur); time.Now().Before(end); n++ {
		a.Tell(target, &fbMsg{Seq: int64(n)})
		time.Sleep(gap)
	}
	time.Sleep(300 * time.Millisecond)
	mu.Lock()
	defer mu.Unlock()
	for i, x := range got {
		if x != int64(i) {
			return fmt.Sprintf("LOOPBACK: paced stream (one message every %v for %v over a healthy loopback link): position %d holds message %d — lost / duplicated / reordered; %d of %d arrived, %d connection-closed events", gap, dur, i, x, len(got), n, closed)
		}
	}
	if len(got) != n {
		return fmt.Sprintf("LOOPBACK: paced stream (one message every %v for %v over a healthy loopback link): %d sent, %d arrived, %d connection-closed events", gap, dur, n, len(got), closed)
	}
	if closed > 0 {
		return fmt.Sprintf("LOOPBACK: paced stream: the healthy connection was torn down %d time(s) during %v of steady traffic", closed, dur)
	}
	return ""
}

// ---------------------------------------------------------------- generation

func hexChunks(stream []byte, cuts []int) string {
	var parts []string
	prev := 0
	for _, c := range append(cuts, len(stream)) {
		if c < prev {
			c = prev
		}
		if c > len(stream) {
			c = len(stream)
		}
		if c == prev {
			continue
		}
		parts = append(parts, hex.EncodeToString(stream[prev:c]))
		prev = c
	}
	if len(parts) == 0 {
		return "-"
	}
	return strings.Join(parts, "|")
}

func (e *framingEngine) Generate(c *Ctx) {
	c.Guard = true // a fatal runtime error in the real code leaves the op in pending.txt
	defer func() {
		if e.cancel != nil {
			e.cancel()
		}
	}()
	f1, f2, f3 := pingFrame(1), pingFrame(2), pingFrame(3)
	two := append(append([]byte(nil), f1...), f2...)
	three := append(append(append([]byte(nil), f1...), f2...), f3...)
	do := func(stream []byte, cuts []int, tag string) {
		o := c.Case("rx " + hexChunks(stream, cuts))
		c.R.Nontrivial()
		c.R.Hit(tag)
		_ = o
	}
	// (1) two frames: all-in-one, every single split point, byte by byte
	do(two, nil, "coalesced")
	step := 1
	if !c.Thorough() {
		step = 3
	}
	for i := 1; i < len(two); i += step {
		do(two, []int{i}, "split-1")
	}
	var every []int
	for i := 1; i < len(two); i++ {
		every = append(every, i)
	}
	do(two, every, "byte-by-byte")
	// (2) three frames: random pairs / triples of split points, coalesced
	do(three, nil, "coalesced")
	nr := 60
	if c.Thorough() {
		nr = 1500
	}
	for i := 0; i < nr; i++ {
		k := 1 + c.Rng.Intn(4)
		var cuts []int
		for j := 0; j < k; j++ {
			cuts = append(cuts, c.Rng.Intn(len(three)))
		}
		sortInts(cuts)
		do(three, cuts, "split-random")
	}
	// (3) connection cut after every byte offset of the three-frame stream (C14)
	for i := 0; i <= len(three); i += step {
		do(three[:i], []int{i / 2}, "cut")
	}
	// (4) undecodable payloads, a close frame in the middle, an oversized length prefix
	garbage := append([]byte{0, 0, 0, 5}, []byte{1, 2, 3, 4, 5}...)
	mix := append(append(append([]byte(nil), f1...), garbage...), f2...)
	do(mix, nil, "undecodable")
	do(mix, []int{len(f1) + 3}, "undecodable")
	closeMid := append(append(append([]byte(nil), f1...), 0, 0, 0, 0), f2...)
	do(closeMid, nil, "close-frame")
	big := append(append([]byte(nil), f1...), 0, 0x40, 0, 1)
	big = append(big, f2...)
	do(big, nil, "invalid-length")
	// (5) large frames up to just under the limit
	// the boundary itself in both tiers: a body of exactly the limit and of limit-3 (limit + 4 prefix bytes and limit + 1 with
	// the prefix: a limit that wrongly counts the prefix rejects both), limit+1 is the `invalid-length` case above
	sizes := []int{1, 4095, 4096, 4097, 65536, 4*1024*1024 - 3, 4 * 1024 * 1024}
	if c.Thorough() {
		sizes = append(sizes, 1<<20, 4*1024*1024-4, 4*1024*1024-2, 4*1024*1024-1)
	}
	for _, sz := range sizes {
		if sz >= 4*1024*1024-4 {
			c.R.Hit("large:at-limit")
		}
		p := make([]byte, 4+sz)
		binary.BigEndian.PutUint32(p, uint32(sz))
		stream := append(append(append([]byte(nil), p...), f1...), f2...)
		do(stream, []int{2, 4 + sz/2}, "large")
	}
	// (6) real TCP loopback bursts
	c.Case("burst 300 1")
	c.R.Hit("burst")
	c.Case("burst 200 4")
	c.R.Hit("burst")
	// concurrent first senders on fresh pairs of systems (the first send creates the outbound mailbox)
	for i := 0; i < 40; i++ {
		c.Case("burst 25 8")
		c.R.Hit("burst")
		c.R.Hit("burst:first-concurrent")
	}
	c.Case("mesh 2 50 0")
	c.Case("mesh 3 60 65536")
	c.Case("mesh 4 40 262144")
	c.R.Hit("mesh")
	if c.Thorough() {
		c.Case("mesh 4 300 262144")
		c.Case("mesh 5 2000 100")
		c.Case("mesh 2 3 4194000")
		c.Case("pace 5 11500")
		c.R.Hit("pace")
		c.Case("burst 5000 4")
		c.Case("soak")
		c.R.Hit("soak")
	}
}

func sortInts(a []int) {
	for i := 1; i < len(a); i++ {
		for j := i; j > 0 && a[j] < a[j-1]; j-- {
			a[j], a[j-1] = a[j-1], a[j]
		}
	}
}
