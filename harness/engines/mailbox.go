package engines

import (
	"fmt"
	"sort"
	"strconv"
	"strings"

	"github.com/kercylan98/vivid"
	"github.com/kercylan98/vivid/internal/mailbox"
	"github.com/kercylan98/vivid/verifharness/sched"
)

// Engine mailbox: the real UnboundedMailbox under the fine baton scheduler (M2, C01).
//
//	reset <fixed 0|1>
//	new <tid> enqU|enqS|pause|resume [script]     script = nested own-mailbox calls of the handler, e.g. pushu,pause,resume
//	step <tid> <action> [<newtid>]
type mbMsg struct {
	sender int
	seq    int
	system bool
	script []string
}

type mbThread struct {
	role      string // env | consumer
	kind      string // enqU enqS pause resume (env)
	inHandler bool
	sawUser   bool // consumer: loaded num > 0 at mb.proc.loadn
}

type mbEngine struct {
	s        *sched.Sched
	mb       *mailbox.UnboundedMailbox
	fixed    bool
	hndU     int
	hndS     int
	active   int // handler invocations in progress
	accepted []mbMsg
	handled  []mbMsg
	seq      map[int]int
	viol     string
	// spin monitor
	idleLoops int
	// pause monitor: step index at which paused last went 0->1, and at which the last handler
	// invocation ended (or the current processing goroutine started)
	stepNo         int
	pausedSince    int
	wasPaused      bool
	lastHandlerEnd int
}

func init() { Register("mailbox", func() Engine { return &mbEngine{} }) }

func (*mbEngine) Name() string { return "mailbox" }

type mbEnvelope struct{ m *mbMsg }

func (e mbEnvelope) System() bool             { return e.m.system }
func (e mbEnvelope) Sender() vivid.ActorRef   { return nil }
func (e mbEnvelope) Message() vivid.Message   { return e.m }
func (e mbEnvelope) Receiver() vivid.ActorRef { return nil }

// HandleEnvelop is the handler under test conditions: it records the message, performs the
// message's script of calls on its own mailbox and yields before returning.
func (e *mbEngine) HandleEnvelop(env vivid.Envelop) {
	m := env.Message().(*mbMsg)
	cur := e.s.Current()
	td := cur.Data.(*mbThread)
	e.active++
	if e.active > 1 {
		e.viol = fmt.Sprintf("two handler invocations in progress (message %d/%d entered while another handler runs)", m.sender, m.seq)
	}
	td.inHandler = true
	if m.system {
		e.hndS++
	} else {
		e.hndU++
	}
	e.handled = append(e.handled, *m)
	e.idleLoops = 0
	for _, a := range m.script {
		switch a {
		case "pushu":
			e.enqueue(cur.ID, false, nil)
		case "pushs":
			e.enqueue(cur.ID, true, nil)
		case "pause":
			e.mb.Pause()
		case "resume":
			e.mb.Resume()
		}
	}
	e.s.Yield("h.end", e.mb)
	td.inHandler = false
	e.active--
}

func (e *mbEngine) enqueue(sender int, system bool, script []string) {
	e.seq[sender]++
	m := &mbMsg{sender: sender, seq: e.seq[sender], system: system, script: script}
	// "accepted" = the call was made; the push itself happens inside Enqueue
	e.accepted = append(e.accepted, *m)
	e.mb.Enqueue(mbEnvelope{m})
}

func (e *mbEngine) reset(fixed bool) {
	if e.s != nil {
		e.s.Drain(300)
		sched.Uninstall()
	}
	e.s = sched.New()
	e.s.IsSpawn = func(site string) bool { return site == "mb.enq.go" || site == "mb.resume.go" }
	e.s.IsExit = func(site string) bool { return site == "exit" || site == "mb.proc.exit" }
	e.s.OnAdopt = func(t *sched.Thread, parent *sched.Thread) {
		if t.Data == nil {
			t.Data = &mbThread{role: "consumer"}
		}
	}
	e.s.Install()
	e.mb = mailbox.NewUnboundedMailbox(2, e)
	e.fixed = fixed
	e.hndU, e.hndS, e.active = 0, 0, 0
	e.accepted, e.handled = nil, nil
	e.seq = map[int]int{}
	e.viol = ""
	e.idleLoops = 0
	e.stepNo, e.pausedSince, e.wasPaused, e.lastHandlerEnd = 0, 0, false, 0
}

func mbAction(site string) string {
	switch site {
	case "mb.enq.pushu":
		return "pushu"
	case "mb.enq.pushs":
		return "pushs"
	case "mb.pause.store":
		return "pause"
	case "mb.resume.casp":
		return "resume"
	case "h.end":
		return "end"
	}
	return strings.TrimPrefix(site, "mb.")
}

// siteOf: an environment thread that has been created but not stepped yet is parked before the call
// itself ("start"): whatever the call does before its first yield site — in the code as written,
// nothing — runs as part of its first step, not at creation time. It is shown at its first site.
func (e *mbEngine) siteOf(t *sched.Thread) string {
	if td, ok := t.Data.(*mbThread); ok && t.Site == "start" && td.role == "env" {
		switch td.kind {
		case "enqU":
			return "mb.enq.pushu"
		case "enqS":
			return "mb.enq.pushs"
		case "pause":
			return "mb.pause.store"
		case "resume":
			return "mb.resume.casp"
		}
	}
	return t.Site
}

func (e *mbEngine) pcOf(t *sched.Thread) string {
	td := t.Data.(*mbThread)
	site := e.siteOf(t)
	if td.role == "consumer" && td.inHandler {
		switch site {
		case "mb.enq.pushu", "mb.enq.pushs", "mb.pause.store", "mb.resume.casp", "h.end":
			return "H"
		case "mb.enq.incu":
			return "hU1"
		case "mb.enq.incs":
			return "hS1"
		case "mb.enq.cas":
			return "hC"
		case "mb.enq.go":
			return "hSpawn"
		case "mb.resume.cass":
			return "hR1"
		case "mb.resume.go":
			return "hRSpawn"
		}
		return "?" + site
	}
	switch site {
	case "mb.enq.pushu":
		return "eU0"
	case "mb.enq.incu":
		return "eU1"
	case "mb.enq.pushs":
		return "eS0"
	case "mb.enq.incs":
		return "eS1"
	case "mb.enq.cas":
		return "eC"
	case "mb.enq.go":
		return "eGo"
	case "mb.pause.store":
		return "pz0"
	case "mb.resume.casp":
		return "r0"
	case "mb.resume.cass":
		return "r1"
	case "mb.resume.go":
		return "rGo"
	case "mb.ph.pops":
		return "cStart"
	case "mb.ph.decs":
		return "cDecS"
	case "mb.ph.hnds":
		return "cHndS"
	case "mb.ph.loadp":
		return "cLoadP"
	case "mb.ph.popu":
		return "cPopU"
	case "mb.ph.decu":
		return "cDecU"
	case "mb.ph.hndu":
		return "cHndU"
	case "mb.proc.store":
		return "cStore"
	case "mb.proc.loadn":
		return "cLoadN"
	case "mb.proc.loadsy":
		if td.sawUser {
			return "cLoadSyT"
		}
		return "cLoadSyF"
	case "mb.proc.loadpz":
		return "cLoadPz"
	case "mb.proc.recas":
		return "cReCas"
	}
	return "?" + site
}

func (e *mbEngine) live() []*sched.Thread {
	var out []*sched.Thread
	for _, t := range e.s.Threads {
		if !t.Done && t.Site != "exit" && t.Site != "mb.proc.exit" && e.siteOf(t) != "start" {
			out = append(out, t)
		}
	}
	return out
}

func (e *mbEngine) show() string {
	st := e.mb.VerifState()
	b := func(x bool) int {
		if x {
			return 1
		}
		return 0
	}
	var pcs []string
	for _, t := range e.live() {
		pcs = append(pcs, fmt.Sprintf("%d:%s", t.ID, e.pcOf(t)))
	}
	p := "-"
	if len(pcs) > 0 {
		p = strings.Join(pcs, ",")
	}
	return fmt.Sprintf("proc=%d paused=%d num=%d sys=%d uq=%d sq=%d hU=%d hS=%d pcs=%s",
		b(st.Processing), b(st.Paused), st.Num, st.SystemNum, st.UserLen, st.SystemLen, e.hndU, e.hndS, p)
}

// finishExits resumes threads parked at an exit site: leaving has no effect on shared state
// and is not a step of the model.
func (e *mbEngine) finishExits() bool {
	for _, t := range e.s.Threads {
		if !t.Done && (t.Site == "exit" || t.Site == "mb.proc.exit") {
			if !e.s.Step(t) {
				return false
			}
		}
	}
	return true
}

func (e *mbEngine) Exec(line string) (obs string, viol string) {
	tk := strings.Fields(line)
	if len(tk) == 0 {
		return "bad-op", ""
	}
	defer func() {
		if e.viol != "" {
			viol = e.viol
			e.viol = ""
		}
		if e.s != nil && e.s.Stuck != "" && viol == "" {
			viol = "scheduler watchdog: " + e.s.Stuck[:min(len(e.s.Stuck), 600)]
		}
	}()
	switch tk[0] {
	case "reset":
		e.reset(len(tk) > 1 && tk[1] == "1")
		return "ok", ""
	case "new":
		if len(tk) < 3 || e.s == nil {
			return "bad-op", ""
		}
		tid, _ := strconv.Atoi(tk[1])
		if tid != len(e.s.Threads) {
			return fmt.Sprintf("bad-replay: next tid is %d", len(e.s.Threads)), ""
		}
		var script []string
		if len(tk) > 3 && tk[3] != "-" {
			script = strings.Split(tk[3], ",")
		}
		kind := tk[2]
		var fn func()
		switch kind {
		case "enqU":
			fn = func() { e.enqueue(tid, false, script) }
		case "enqS":
			fn = func() { e.enqueue(tid, true, script) }
		case "pause":
			fn = func() { e.mb.Pause() }
		case "resume":
			fn = func() { e.mb.Resume() }
		default:
			return "bad-op", ""
		}
		t := e.s.Go(kind, fn)
		if t == nil {
			return "stuck", ""
		}
		t.Data = &mbThread{role: "env", kind: kind}
		// the thread stays parked before the call: see siteOf
		return e.show(), ""
	case "enter":
		// enter <tid>: the thread enters its call and runs to the first yield site inside it. In the code as
		// written that touches no shared state (the model does not move); a change that reads shared state
		// there makes this a scheduling point that matters.
		if len(tk) != 2 || e.s == nil {
			return "bad-op", ""
		}
		tid, _ := strconv.Atoi(tk[1])
		if tid < 0 || tid >= len(e.s.Threads) || e.s.Threads[tid].Done || e.s.Threads[tid].Site != "start" {
			return "no-such-thread " + tk[1], ""
		}
		if !e.s.Step(e.s.Threads[tid]) {
			return "stuck", ""
		}
		return e.show(), ""
	case "step":
		if len(tk) < 3 || e.s == nil {
			return "bad-op", ""
		}
		tid, _ := strconv.Atoi(tk[1])
		if tid < 0 || tid >= len(e.s.Threads) || e.s.Threads[tid].Done {
			return "no-such-thread " + tk[1], ""
		}
		t := e.s.Threads[tid]
		if t.Site == "start" {
			return fmt.Sprintf("bad-replay: thread %d has not entered its call yet (enter %d)", tid, tid), ""
		}
		if a := mbAction(t.Site); a != tk[2] {
			return fmt.Sprintf("bad-replay: thread %d is at %s (%s), not %s", tid, t.Site, a, tk[2]), ""
		}
		td := t.Data.(*mbThread)
		before := len(e.s.Threads)
		wasSite := t.Site
		e.stepNo++
		if wasSite == "mb.ph.hndu" && e.wasPaused && e.pausedSince < e.lastHandlerEnd {
			e.viol = fmt.Sprintf("PAUSE IGNORED: a user message is handed to the handler although the mailbox has been paused since step %d, before the previous handler invocation ended (step %d), and was not resumed", e.pausedSince, e.lastHandlerEnd)
		}
		if !e.s.Step(t) {
			return "stuck", ""
		}
		if p := e.mb.VerifState().Paused; p != e.wasPaused {
			e.wasPaused = p
			if p {
				e.pausedSince = e.stepNo
			}
		}
		if wasSite == "h.end" || (td.role == "consumer" && wasSite == "mb.proc.recas" && t.Site == "mb.ph.pops") {
			// a handler invocation ended, or this goroutine re-armed and starts a new pass (a re-arm that lost
			// its CAS belongs to a goroutine on its way out: it says nothing about the active consumer)
			e.lastHandlerEnd = e.stepNo
		}
		if len(e.s.Threads) > before {
			e.lastHandlerEnd = e.stepNo // a new processing goroutine starts
		}
		if wasSite == "mb.proc.loadn" {
			// the thread has just loaded num; nobody ran since, so this is the value it saw
			td.sawUser = e.mb.VerifState().Num > 0
		}
		if len(e.s.Threads) > before {
			nt := e.s.Threads[before]
			if nt.Data == nil {
				nt.Data = &mbThread{role: "consumer"}
			}
			if len(tk) < 4 || tk[3] != strconv.Itoa(nt.ID) {
				// the model will not know the new thread; the pcs column will differ
			}
		}
		// spin monitor: a processing goroutine that goes round process() again although no
		// handler ran and no other thread exists
		if td.role == "consumer" && wasSite == "mb.proc.recas" && t.Site == "mb.ph.pops" {
			others := 0
			for _, o := range e.live() {
				if o != t {
					others++
				}
			}
			if others == 0 {
				e.idleLoops++
				if e.idleLoops >= 3 {
					st := e.mb.VerifState()
					e.viol = fmt.Sprintf("SPIN: the processing goroutine re-armed %d times in a row without handling anything and with no other thread alive (paused=%v, user queue=%d, system queue=%d)",
						e.idleLoops, st.Paused, st.UserLen, st.SystemLen)
				}
			}
		}
		if !e.finishExits() {
			return "stuck", ""
		}
		obs = e.show()
		if len(e.live()) == 0 {
			if v := e.quiescenceMonitor(); v != "" && e.viol == "" {
				e.viol = v
			}
		}
		return obs, ""
	}
	return "bad-op", ""
}

// quiescenceMonitor: with no thread left, every accepted message must have been handled
// exactly once (user messages may instead still be queued iff the mailbox is paused), in
// per-sender order, system messages all handled.
func (e *mbEngine) quiescenceMonitor() string {
	st := e.mb.VerifState()
	if st.Processing {
		return "quiescent but status=processing: nobody will ever process this mailbox again"
	}
	if st.SystemLen > 0 {
		return fmt.Sprintf("LOST WAKE-UP: quiescent with %d system message(s) queued", st.SystemLen)
	}
	if !st.Paused && st.UserLen > 0 {
		return fmt.Sprintf("LOST WAKE-UP: quiescent, not paused, with %d user message(s) queued", st.UserLen)
	}
	type key struct {
		sender, seq int
		system      bool
	}
	seen := map[key]int{}
	for _, m := range e.handled {
		seen[key{m.sender, m.seq, m.system}]++
	}
	missing := 0
	for _, m := range e.accepted {
		k := key{m.sender, m.seq, m.system}
		switch seen[k] {
		case 0:
			missing++
			if m.system {
				return fmt.Sprintf("system message %d/%d was accepted but never handled", m.sender, m.seq)
			}
		case 1:
		default:
			return fmt.Sprintf("message %d/%d handled %d times", m.sender, m.seq, seen[k])
		}
		delete(seen, k)
	}
	for k := range seen {
		return fmt.Sprintf("handler received message %d/%d that was never sent", k.sender, k.seq)
	}
	if int64(missing) != st.UserLen {
		return fmt.Sprintf("%d accepted user message(s) unhandled but %d queued: message dropped", missing, st.UserLen)
	}
	// per-sender FIFO within each class
	last := map[[2]int]int{}
	for _, m := range e.handled {
		c := 0
		if m.system {
			c = 1
		}
		k := [2]int{m.sender, c}
		if m.seq < last[k] {
			return fmt.Sprintf("per-sender FIFO violated: sender %d message %d handled after %d", m.sender, m.seq, last[k])
		}
		last[k] = m.seq
	}
	return ""
}

func min(a, b int) int {
	if a < b {
		return a
	}
	return b
}

// ---------------------------------------------------------------- generation

type mbScenario struct {
	threads []string // "kind script"
}

// probeVariant runs the finding's own replay (Pause; Enqueue(user); let the processing
// goroutine run alone) and reports whether the code re-arms while paused.
func (e *mbEngine) probeVariant() (fixed bool) {
	e.reset(false)
	defer func() { e.s.Drain(300); sched.Uninstall(); e.s = nil }()
	p := e.s.Go("pause", func() { e.mb.Pause() })
	p.Data = &mbThread{role: "env"}
	for !p.Done {
		e.s.Step(p)
	}
	q := e.s.Go("enqU", func() { e.enqueue(1, false, nil) })
	q.Data = &mbThread{role: "env"}
	for !q.Done {
		e.s.Step(q)
	}
	for i := 0; i < 200; i++ {
		r := e.s.Runnable()
		if len(r) == 0 {
			return true // the processing goroutine left: no spin
		}
		e.s.Step(r[0])
	}
	return false
}

func (e *mbEngine) runCase(c *Ctx, fixed bool, sc mbScenario, choose func(step int, runnable []*sched.Thread, cur *sched.Thread) *sched.Thread, maxSteps int) {
	f := "0"
	if fixed {
		f = "1"
	}
	c.Case("reset " + f)
	for i, th := range sc.threads {
		c.Do(fmt.Sprintf("new %d %s", i, th))
	}
	var cur *sched.Thread
	for step := 0; step < maxSteps; step++ {
		r := e.live()
		if len(r) == 0 {
			break
		}
		t := choose(step, r, cur)
		if t == nil {
			break
		}
		cur = t
		from := e.pcOf(t)
		line := fmt.Sprintf("step %d %s", t.ID, mbAction(e.siteOf(t)))
		if e.s.IsSpawn(t.Site) {
			line += fmt.Sprintf(" %d", len(e.s.Threads))
		}
		if t.Site == "start" {
			line = fmt.Sprintf("enter %d", t.ID)
		}
		c.Do(line)
		to := "exit"
		if !t.Done && t.Site != "exit" && t.Site != "mb.proc.exit" {
			to = e.pcOf(t)
		}
		c.R.Hit("t:" + from + ">" + to)
	}
	c.R.Nontrivial()
}

func contains(ts []*sched.Thread, t *sched.Thread) bool {
	for _, x := range ts {
		if x == t {
			return true
		}
	}
	return false
}

func (e *mbEngine) Generate(c *Ctx) {
	fixed := e.probeVariant()
	c.R.Extra["variant"] = map[bool]string{false: "as-is (re-arms while paused)", true: "repaired (re-arm checks paused)"}[fixed]
	if !fixed {
		c.R.Hit("variant:as-is")
	} else {
		c.R.Hit("variant:fixed")
	}

	// (0) the spin finding's own replay, under the lock-step
	e.runCase(c, fixed, mbScenario{[]string{"pause", "enqU"}}, func(step int, r []*sched.Thread, cur *sched.Thread) *sched.Thread {
		return r[0]
	}, 120)

	scenarios := []mbScenario{
		{[]string{"enqU", "enqU"}},
		{[]string{"enqU", "enqS"}},
		{[]string{"enqU", "pause", "resume"}},
		{[]string{"enqU", "enqU", "pause", "resume"}},
		{[]string{"enqS", "pause", "enqU", "resume"}},
		{[]string{"enqU pushu", "enqS"}},
		{[]string{"enqU pause,pushu,resume", "enqU"}},
		{[]string{"enqS pushs,pause", "enqU", "resume"}},
		{[]string{"enqU resume", "pause", "enqU pause"}},
		{[]string{"enqU", "enqU", "enqU"}},
	}
	// (1) preemption-bounded enumeration: all schedules with <= K preemptions
	K := 2
	budget := 30000
	if c.Thorough() {
		K = 3
		budget = 150000
	}
	total := 0
	for si, sc := range scenarios {
		if !c.Thorough() && si >= 7 {
			break
		}
		n := e.enumerate(c, fixed, sc, K, budget/len(scenarios))
		total += n
	}
	c.R.Extra["enumerated_schedules"] = total
	c.R.Extra["preemption_bound"] = K
	// (2) seeded random walks over random scenarios with re-entrant handlers
	runs := 8000
	if c.Thorough() {
		runs = 60000
	}
	kinds := []string{"enqU", "enqU", "enqS", "pause", "resume"}
	scripts := []string{"", "", "", " pushu", " pushs", " pause", " resume", " pause,pushu,resume", " pushu,pushs", " resume,pushu", " pause,resume"}
	for i := 0; i < runs; i++ {
		n := 2 + c.Rng.Intn(5)
		var sc mbScenario
		for j := 0; j < n; j++ {
			k := kinds[c.Rng.Intn(len(kinds))]
			if strings.HasPrefix(k, "enq") {
				k += scripts[c.Rng.Intn(len(scripts))]
			}
			sc.threads = append(sc.threads, k)
		}
		sticky := c.Rng.Intn(4) // how strongly to keep running the same thread
		e.runCase(c, fixed, sc, func(step int, r []*sched.Thread, cur *sched.Thread) *sched.Thread {
			if cur != nil && contains(r, cur) && c.Rng.Intn(4) < sticky {
				return cur
			}
			return r[c.Rng.Intn(len(r))]
		}, 400)
	}
	if e.s != nil {
		e.s.Drain(300)
		sched.Uninstall()
		e.s = nil
	}
}

// enumerate explores all schedules of the scenario with at most K preemptions (a preemption =
// switching away from a thread that could have continued). Stateless: every schedule is a
// fresh execution. Returns the number of schedules run.
func (e *mbEngine) enumerate(c *Ctx, fixed bool, sc mbScenario, K int, budget int) int {
	type pre struct{ step, tid int }
	count := 0
	var explore func(pres []pre)
	explore = func(pres []pre) {
		if count >= budget {
			return
		}
		count++
		// run: default policy = keep the current thread while it is runnable, else lowest id;
		// at step pres[i].step switch to thread pres[i].tid
		type opt struct {
			step int
			alts []int
		}
		var opts []opt
		lastPre := -1
		if len(pres) > 0 {
			lastPre = pres[len(pres)-1].step
		}
		e.runCase(c, fixed, sc, func(step int, r []*sched.Thread, cur *sched.Thread) *sched.Thread {
			var pick *sched.Thread
			for _, p := range pres {
				if p.step == step {
					for _, t := range r {
						if t.ID == p.tid {
							pick = t
						}
					}
				}
			}
			if pick == nil {
				if cur != nil && contains(r, cur) {
					pick = cur
				} else {
					pick = r[0]
				}
			}
			if step > lastPre && len(pres) < K {
				var alts []int
				for _, t := range r {
					if t != pick {
						alts = append(alts, t.ID)
					}
				}
				if len(alts) > 0 {
					opts = append(opts, opt{step, alts})
				}
			}
			return pick
		}, 150)
		for _, o := range opts {
			for _, a := range o.alts {
				explore(append(append([]pre(nil), pres...), pre{o.step, a}))
			}
		}
	}
	explore(nil)
	sort.Ints(nil)
	return count
}
