// Package engines: one engine per modelled component. An engine interprets op lines on the
// real vivid code (Exec) and generates op lines (Generate); the same lines are fed to the
// Lean driver and the observations are diffed by ./check.
package engines

import (
	"strings"

	"github.com/kercylan98/vivid/verifharness/gen"
	"github.com/kercylan98/vivid/verifharness/rec"
)

type Ctx struct {
	// Guard: write every op line to pending.txt before executing it (engines whose ops can kill the process)
	Guard bool
	R     *rec.Rec
	Rng   *gen.Rand
	Tier  string
	Seed  uint64
	E     Engine
}

// Do executes one op line on the implementation and records line + observation.
func (c *Ctx) Do(line string) string {
	if c.Guard {
		c.R.Pending(strings.Join(append(c.R.CurrentOps(), line), "\n"))
	}
	obs, viol := c.E.Exec(line)
	c.R.Op(line, obs)
	if viol != "" {
		c.R.Violate(c.E.Name(), viol)
	}
	return obs
}

// Case starts a new replayable case with a reset/header line.
func (c *Ctx) Case(header string) string {
	if c.Guard {
		c.R.Pending(header)
	}
	obs, viol := c.E.Exec(header)
	c.R.Case(header, obs)
	if viol != "" {
		c.R.Violate(c.E.Name(), viol)
	}
	return obs
}

func (c *Ctx) Thorough() bool { return c.Tier == "thorough" }

type Engine interface {
	Name() string
	// Exec interprets one op line on the real code and returns the canonical observation
	// and, when a property monitor (an oracle that looks only at the real execution) fires,
	// a non-empty description of the violation.
	Exec(line string) (obs string, violation string)
	// Generate produces the run's cases through c.Case / c.Do.
	Generate(c *Ctx)
}

var Registry = map[string]func() Engine{}

func Register(name string, f func() Engine) { Registry[name] = f }
