package engines

import (
	"context"
	"fmt"
	"strings"
	"time"

	"github.com/kercylan98/vivid"
	"github.com/kercylan98/vivid/internal/actor"
	"github.com/kercylan98/vivid/pkg/log"
	"github.com/kercylan98/vivid/pkg/ves"
	"github.com/kercylan98/vivid/verifharness/gen"
	"github.com/kercylan98/vivid/verifharness/sched"
)

// Engine launchorder (C05, monitor only): the real actor.System under the baton scheduler with the
// enqueue of a system message as an additional scheduling point, so the goroutine that spawns an actor
// can be overtaken between any two of its sends. Checked: the first message every behaviour sees is
// OnLaunch — also for an actor that subscribed to the event stream in OnPrelaunch (before it is
// launched), whatever is published around its spawn and by whom.
//
//	lo <variant> <seed>     variant: bits 1 = spawned by a parent actor, 2 = a third party publishes while the
//	                        actors are being spawned, 4 = subscribes to its own kind of event (ActorSpawnedEvent)
type loEngine struct{}

func init() { Register("launchorder", func() Engine { return &loEngine{} }) }

func (*loEngine) Name() string { return "launchorder" }

type loProbe struct{ N int }

type loActor struct {
	name  string
	types []vivid.Message
	seen  *[]string
	first *map[string]string
}

func (a *loActor) OnPrelaunch(ctx vivid.PrelaunchContext) error {
	for _, t := range a.types {
		ctx.EventStream().Subscribe(ctx, t)
	}
	return nil
}

func (a *loActor) OnReceive(c vivid.ActorContext) {
	t := fmt.Sprintf("%T", c.Message())
	if _, ok := (*a.first)[a.name]; !ok {
		(*a.first)[a.name] = t
	}
}

func loRun(variant int, seed uint64) (string, string) {
	s := sched.New()
	s.Coarse = true
	s.Watchdog = 3 * time.Second
	s.IsSpawn = func(site string) bool {
		return site == "mb.enq.go" || site == "mb.resume.go" || site == "mb.release.go" || site == "sys.guardian.go" || site == "ctx.pipe.go" || site == "ctx.entrust.go"
	}
	s.IsExit = func(site string) bool { return site == "mb.proc.exit" || site == "ctx.pipe.exit" || site == "exit" }
	s.Filter = func(site string, obj any) bool {
		return site == "mb.ph.pops" || site == "sys.guardian.wait" || site == "start" || site == "mb.enq.pushs"
	}
	s.Install()
	defer sched.Uninstall()
	ctx, cancel := context.WithCancel(context.Background())
	defer cancel()
	sys := actor.NewSystem(vivid.WithActorSystemContext(ctx), vivid.WithActorSystemLogger(log.NewSilentLogger()), vivid.WithActorSystemStopTimeout(time.Second))
	if err := sys.Start(); err != nil {
		return "-", "HARNESS: " + err.Error()
	}
	if !s.WaitIdle() {
		return "-", "HARNESS: stuck at start"
	}
	rng := gen.New(seed)
	steps := 0
	run := func() bool {
		for i := 0; i < 6000; i++ {
			var r []*sched.Thread
			for _, t := range s.Runnable() {
				if t.Site != "sys.guardian.wait" {
					r = append(r, t)
				}
			}
			if len(r) == 0 {
				return true
			}
			if !s.Step(r[rng.Intn(len(r))]) {
				return false
			}
			steps++
		}
		return false
	}
	first := map[string]string{}
	types := []vivid.Message{loProbe{}}
	if variant&4 != 0 {
		types = append(types, ves.ActorSpawnedEvent{})
	}
	mk := func(name string) vivid.Actor { return &loActor{name: name, types: types, first: &first} }
	const n = 3
	spawnAll := func(sp interface {
		ActorOf(vivid.Actor, ...vivid.ActorOption) (vivid.ActorRef, error)
	}, prefix string) {
		for i := 0; i < n; i++ {
			name := fmt.Sprintf("%s%d", prefix, i)
			sp.ActorOf(mk(name), vivid.WithActorName(name))
		}
	}
	var threads int
	if variant&1 != 0 {
		parent := vivid.ActorFN(func(c vivid.ActorContext) {
			if _, ok := c.Message().(*vivid.OnLaunch); ok {
				spawnAll(c, "k")
			}
		})
		if s.Go("spawner", func() { sys.ActorOf(parent, vivid.WithActorName("p")) }) != nil {
			threads++
		}
	} else {
		if s.Go("spawner", func() { spawnAll(sys, "k") }) != nil {
			threads++
		}
	}
	if variant&2 != 0 {
		// a third party publishes while the actors are being spawned
		if s.Go("publisher", func() {
			for i := 0; i < 2*n; i++ {
				sys.EventStream().Publish(sys, loProbe{i})
			}
		}) != nil {
			threads++
		}
	}
	if threads == 0 || !run() {
		return "-", "HARNESS: did not quiesce: " + s.Stuck
	}
	viol := ""
	for i := 0; i < n; i++ {
		name := fmt.Sprintf("k%d", i)
		if f, ok := first[name]; ok && f != "*vivid.OnLaunch" {
			by := "an event published by a third party while the actor was being spawned"
			if strings.Contains(f, "ActorSpawnedEvent") {
				by = "a lifecycle event of the spawn itself"
			}
			viol = fmt.Sprintf("FIRST-NOT-LAUNCH: the first message the behaviour of %s saw is %s, not OnLaunch (%s; the actor had subscribed in OnPrelaunch)", name, f, by)
			break
		}
	}
	return fmt.Sprintf("# steps=%d launched=%d", steps, len(first)), viol
}

func (e *loEngine) Exec(line string) (string, string) {
	tk := strings.Fields(line)
	if len(tk) != 3 || tk[0] != "lo" {
		return "bad-op", ""
	}
	var variant int
	var seed uint64
	fmt.Sscan(tk[1], &variant)
	fmt.Sscan(tk[2], &seed)
	return loRun(variant, seed)
}

func (e *loEngine) Generate(c *Ctx) {
	c.Guard = true
	n := 25
	if c.Thorough() {
		n = 400
	}
	for variant := 0; variant < 8; variant++ {
		for i := 0; i < n; i++ {
			c.Case(fmt.Sprintf("lo %d %d", variant, c.Rng.U64()%1000000))
			c.R.Nontrivial()
			c.R.Hit(fmt.Sprintf("variant:%d", variant))
		}
	}
}
