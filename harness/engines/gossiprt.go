package engines

import (
	"fmt"
	"sort"
	"strings"
	"sync"
	"sync/atomic"
	"time"

	"github.com/kercylan98/vivid"
	_ "github.com/kercylan98/vivid/internal/cluster"
	"github.com/kercylan98/vivid/pkg/bootstrap"
	"github.com/kercylan98/vivid/pkg/log"
	"github.com/kercylan98/vivid/pkg/ves"
)

// Engine gossiprt (C18, monitor only): real clusters over loopback remoting with short timers.
// `cl <nodes> <fd-timeout-ms> <run-ms> <scenario>`: start the nodes (node 0 is the seed), wait for
// the first agreement, then apply the scenario and sample every node's member list until the end.
type gossipRtEngine struct{}

func init() { Register("gossiprt", func() Engine { return &gossipRtEngine{} }) }

func (*gossipRtEngine) Name() string { return "gossiprt" }

var grtPort int32 = 23000

func membersOf(s vivid.ActorSystem) (string, bool) {
	cc := s.Cluster()
	if cc == nil {
		return "", false
	}
	ms, err := cc.GetMembers()
	if err != nil {
		return "", false
	}
	var a []string
	for _, m := range ms {
		a = append(a, m.Address[strings.LastIndex(m.Address, ":")+1:])
	}
	sort.Strings(a)
	return strings.Join(a, ","), true
}

func clusterRun(n int, fdMs, runMs int, scenario string) (string, string) {
	base := int(atomic.AddInt32(&grtPort, int32(n+1))) - (n + 1)
	addr := func(i int) string { return fmt.Sprintf("127.0.0.1:%d", base+i) }
	mk := func(i int) (vivid.ActorSystem, error) {
		s := bootstrap.NewActorSystem(
			vivid.WithActorSystemLogger(log.NewSilentLogger()),
			vivid.WithActorSystemRemoting(addr(i)),
			vivid.WithActorSystemRemotingOptions(vivid.NewActorSystemRemotingOptions(),
				vivid.WithActorSystemRemotingClusterOption(
					vivid.WithClusterSeeds([]string{addr(0)}),
					vivid.WithClusterDiscoveryInterval(100*time.Millisecond),
					vivid.WithClusterFailureDetectionTimeout(time.Duration(fdMs)*time.Millisecond),
				)))
		return s, s.Start()
	}
	nodes := make([]vivid.ActorSystem, n)
	alive := make([]bool, n)
	type evRec struct {
		at      time.Time
		node    int
		removed []string
		members int
	}
	var emu sync.Mutex
	var memberEvents []evRec
	watch := func(i int, s vivid.ActorSystem) {
		s.ActorOf(vivid.ActorFN(func(c vivid.ActorContext) {
			switch m := c.Message().(type) {
			case *vivid.OnLaunch:
				c.EventStream().Subscribe(c, ves.ClusterMembersChangedEvent{})
			case ves.ClusterMembersChangedEvent:
				emu.Lock()
				memberEvents = append(memberEvents, evRec{time.Now(), i, m.Removed, len(m.Members)})
				emu.Unlock()
			}
		}), vivid.WithActorName("verif-watch"))
	}
	defer func() {
		for i, s := range nodes {
			if s != nil && alive[i] {
				s := s
				go s.Stop(2 * time.Second)
			}
		}
	}()
	for i := 0; i < n; i++ {
		s, err := mk(i)
		if err != nil {
			return "-", "HARNESS: node start: " + err.Error()
		}
		nodes[i], alive[i] = s, true
		watch(i, s)
	}
	want := func() string {
		var a []string
		for i := 0; i < n; i++ {
			if alive[i] {
				a = append(a, fmt.Sprint(base+i))
			}
		}
		sort.Strings(a)
		return strings.Join(a, ",")
	}
	agreed := func() bool {
		w := want()
		for i := 0; i < n; i++ {
			if !alive[i] {
				continue
			}
			if m, ok := membersOf(nodes[i]); !ok || m != w {
				return false
			}
		}
		return true
	}
	t0 := time.Now()
	for !agreed() {
		if time.Since(t0) > 5*time.Second {
			var views []string
			for i := 0; i < n; i++ {
				m, _ := membersOf(nodes[i])
				views = append(views, fmt.Sprintf("n%d={%s}", i, m))
			}
			return "-", fmt.Sprintf("NO-CONVERGENCE: %d nodes joining one seed did not agree on the full membership within 5 s: %s", n, strings.Join(views, " "))
		}
		time.Sleep(50 * time.Millisecond)
	}
	switch scenario {
	case "idle":
	case "crash":
		// the last node stops abruptly (no leave): it must disappear from every view and stay out
		alive[n-1] = false
		go nodes[n-1].Stop(time.Second)
	case "seedcrash":
		// the seed itself stops abruptly: the others keep a common view without it
		alive[0] = false
		go nodes[0].Stop(time.Second)
	case "seedrestart":
		// the seed stops and comes back as a fresh process: it bootstraps alone and must be merged back
		nodes[0].Stop(time.Second)
		time.Sleep(300 * time.Millisecond)
		s, err := mk(0)
		if err != nil {
			return "-", "HARNESS: restart: " + err.Error()
		}
		nodes[0] = s
		watch(0, s)
	case "restart":
		// the last node stops abruptly and a new process (new node id) comes up on the same address:
		// the new incarnation replaces the old one in every view
		nodes[n-1].Stop(time.Second)
		time.Sleep(300 * time.Millisecond)
		s, err := mk(n - 1)
		if err != nil {
			return "-", "HARNESS: restart: " + err.Error()
		}
		nodes[n-1] = s
		watch(n-1, s)
	}
	// sample until the end; what matters is the tail: the last third of the run must be stable and exact
	end := time.Now().Add(time.Duration(runMs) * time.Millisecond)
	tailFrom := time.Now().Add(time.Duration(runMs) * 2 / 3 * time.Millisecond)
	var firstBad string
	var timeline []string
	changes := 0
	last := make([]string, n)
	for time.Now().Before(end) {
		for i := 0; i < n; i++ {
			if !alive[i] {
				continue
			}
			m, ok := membersOf(nodes[i])
			if !ok {
				continue
			}
			if m != last[i] {
				if time.Now().After(tailFrom) {
					changes++
				}
				last[i] = m
				timeline = append(timeline, fmt.Sprintf("%.1fs n%d={%s}", time.Since(t0).Seconds(), i, m))
			}
			if time.Now().After(tailFrom) && m != want() && firstBad == "" {
				firstBad = fmt.Sprintf("node %d sees {%s}, running nodes are {%s} (%.1f s after the last fault)", i, m, want(), time.Since(t0).Seconds())
			}
		}
		time.Sleep(40 * time.Millisecond)
	}
	obs := fmt.Sprintf("# tail-changes=%d timeline: %s", changes, strings.Join(timeline, " "))
	// announced membership changes after the cluster had every reason to be stable
	emu.Lock()
	defer emu.Unlock()
	for _, e := range memberEvents {
		if e.at.After(tailFrom) {
			return obs, fmt.Sprintf("MEMBERSHIP: %s cluster of %d, failure-detection timeout %d ms: node %d announced a membership change (removed %v, %d members left) %.1f s into the run, long after the last fault; %d membership events in total",
				scenario, n, fdMs, e.node, portsOf(e.removed), e.members, e.at.Sub(t0).Seconds(), len(memberEvents))
		}
	}
	if firstBad == "" && changes == 0 {
		leaders := 0
		var seen []string
		for i := 0; i < n; i++ {
			if !alive[i] {
				continue
			}
			if v, err := nodes[i].Cluster().GetView(); err == nil && v != nil {
				seen = append(seen, v.LeaderAddr)
				if v.LeaderAddr == addr(i) {
					leaders++
				}
			}
		}
		for _, l := range seen {
			if l != seen[0] {
				return obs, fmt.Sprintf("LEADER: %s cluster of %d: running nodes disagree on the leader at the end: %v", scenario, n, portsOf(seen))
			}
		}
		if leaders != 1 {
			return obs, fmt.Sprintf("LEADER: %s cluster of %d: %d running nodes consider themselves leader at the end (leaders seen: %v)", scenario, n, leaders, portsOf(seen))
		}
	}
	if firstBad != "" {
		return obs, fmt.Sprintf("MEMBERSHIP: %s cluster of %d, failure-detection timeout %d ms, no faults after the scenario: %s", scenario, n, fdMs, firstBad)
	}
	if changes > 0 {
		return obs, fmt.Sprintf("MEMBERSHIP: %s cluster of %d: membership kept changing (%d changes in the last third of the run) although no fault occurred", scenario, n, changes)
	}
	return obs, ""
}

func portsOf(a []string) []string {
	var out []string
	for _, x := range a {
		out = append(out, x[strings.LastIndex(x, ":")+1:])
	}
	return out
}

func (e *gossipRtEngine) Exec(line string) (string, string) {
	tk := strings.Fields(line)
	if len(tk) != 5 || tk[0] != "cl" {
		return "bad-op", ""
	}
	var n, fd, run int
	fmt.Sscan(tk[1], &n)
	fmt.Sscan(tk[2], &fd)
	fmt.Sscan(tk[3], &run)
	return clusterRun(n, fd, run, tk[4])
}

func (e *gossipRtEngine) Generate(c *Ctx) {
	c.Guard = true
	cases := []string{"cl 3 2000 9000 idle", "cl 3 2000 9000 crash", "cl 3 2000 9000 restart", "cl 3 2000 9000 seedcrash", "cl 3 2000 9000 seedrestart"}
	if c.Thorough() {
		cases = append(cases, "cl 5 2000 12000 idle", "cl 5 2000 12000 crash", "cl 7 3000 15000 crash", "cl 2 2000 9000 idle", "cl 5 2000 12000 restart", "cl 2 2000 9000 crash", "cl 5 2000 12000 seedcrash", "cl 4 2000 12000 seedrestart")
	}
	for _, k := range cases {
		c.Case(k)
		c.R.Nontrivial()
		c.R.Hit("scenario:" + strings.Fields(k)[4])
	}
}
