package engines

import (
	"context"
	"encoding/binary"
	"fmt"
	"sort"
	"strings"
	"sync"
	"sync/atomic"
	"time"

	"github.com/kercylan98/vivid"
	"github.com/kercylan98/vivid/internal/actor"
	"github.com/kercylan98/vivid/internal/messages"
	"github.com/kercylan98/vivid/pkg/log"
	"github.com/kercylan98/vivid/pkg/ves"
)

// Engine transp (C15): every ActorRef-taking operation against a local and against a remote
// target (two real systems over loopback TCP), with a user Codec and with registered custom
// messages. Observation per case: the observable effect and the built-in messages that went
// over the wire. The model says what the effect is — the same for both locations.
type transpEngine struct {
	pairs map[string]*tpPair
}

func init() {
	vivid.RegisterCustomMessage[*tpMsg]("verifTpMsg",
		func(m any, r *messages.Reader, _ messages.Codec) error {
			return r.ReadInto(&m.(*tpMsg).N, &m.(*tpMsg).Tag)
		},
		func(m any, w *messages.Writer, _ messages.Codec) error {
			return w.WriteFrom(m.(*tpMsg).N, m.(*tpMsg).Tag)
		})
	Register("transp", func() Engine { return &transpEngine{pairs: map[string]*tpPair{}} })
}

func (*transpEngine) Name() string { return "transp" }

type tpMsg struct {
	N   int64
	Tag string
}

// tpCodec: the "user Codec" configuration (only has to handle the user message type).
type tpCodec struct{}

func (tpCodec) Encode(m any) ([]byte, error) {
	if v, ok := m.(tpVal); ok {
		m = &tpMsg{N: v.N, Tag: "value"}
	}
	x, ok := m.(*tpMsg)
	if !ok {
		return nil, fmt.Errorf("tpCodec: unsupported %T", m)
	}
	b := make([]byte, 8, 8+len(x.Tag))
	binary.BigEndian.PutUint64(b, uint64(x.N))
	return append(b, x.Tag...), nil
}
func (tpCodec) Decode(b []byte) (any, error) {
	if len(b) < 8 {
		return nil, fmt.Errorf("tpCodec: short")
	}
	if string(b[8:]) == "value" {
		return tpVal{N: int64(binary.BigEndian.Uint64(b))}, nil
	}
	return &tpMsg{N: int64(binary.BigEndian.Uint64(b)), Tag: string(b[8:])}, nil
}

// tpVal: a message that is a plain value, not a pointer (any is allowed as a message).
type tpVal struct{ N int64 }

type tpPair struct {
	a, b   *actor.System
	addrA  string
	addrB  string
	mu     sync.Mutex
	events []string // observable effects, in arrival order
	wire   map[string]bool
	seq    int
	home   map[string]string // role -> address of the system the actor lives on (this case)
	cancel []context.CancelFunc
}

func (p *tpPair) ev(f string, a ...any) {
	p.mu.Lock()
	p.events = append(p.events, fmt.Sprintf(f, a...))
	p.mu.Unlock()
}

var tpPort int32 = 20900

func newTpPair(cfg string) (*tpPair, error) {
	base := int(atomic.AddInt32(&tpPort, 2))
	p := &tpPair{addrA: fmt.Sprintf("127.0.0.1:%d", base), addrB: fmt.Sprintf("127.0.0.1:%d", base+1), wire: map[string]bool{}}
	mk := func(addr string) (*actor.System, error) {
		ctx, cancel := context.WithCancel(context.Background())
		p.cancel = append(p.cancel, cancel)
		opts := []vivid.ActorSystemOption{vivid.WithActorSystemContext(ctx), vivid.WithActorSystemLogger(log.NewSilentLogger()), vivid.WithActorSystemRemoting(addr)}
		if cfg == "codec" {
			opts = append(opts, vivid.WithActorSystemCodec(tpCodec{}))
		}
		s := actor.NewSystem(opts...)
		if err := s.Start(); err != nil {
			return nil, err
		}
		// what goes over the wire: the remoting layer's own events
		_, err := s.ActorOf(vivid.ActorFN(func(c vivid.ActorContext) {
			switch m := c.Message().(type) {
			case *vivid.OnLaunch:
				c.EventStream().Subscribe(c, ves.RemotingMessageSentEvent{})
				c.EventStream().Subscribe(c, ves.RemotingMessageSendFailedEvent{})
				c.EventStream().Subscribe(c, ves.RemotingMessageDecodeFailedEvent{})
			case ves.RemotingMessageSentEvent:
				p.mu.Lock()
				p.wire[strings.TrimPrefix(strings.TrimPrefix(m.MessageType, "*"), "engines.")] = true
				p.mu.Unlock()
			case ves.RemotingMessageSendFailedEvent:
				p.mu.Lock()
				p.wire["SENDFAIL:"+m.MessageType] = true
				p.mu.Unlock()
			case ves.RemotingMessageDecodeFailedEvent:
				p.mu.Lock()
				p.wire["DECODEFAIL"] = true
				p.mu.Unlock()
			}
		}), vivid.WithActorName("wiretap"))
		return s, err
	}
	var err error
	if p.a, err = mk(p.addrA); err != nil {
		return nil, err
	}
	if p.b, err = mk(p.addrB); err != nil {
		return nil, err
	}
	time.Sleep(30 * time.Millisecond)
	return p, nil
}

func (p *tpPair) stop() {
	for _, s := range []*actor.System{p.a, p.b} {
		s := s
		go s.Stop(time.Second)
	}
	for _, c := range p.cancel {
		c()
	}
}

// refStr renders a reference by the role of the actor it designates (caller / target / fwd /
// future), checking that its address is the address of the system that actor lives on.
func (p *tpPair) refStr(r vivid.ActorRef) string {
	if r == nil {
		return "nil"
	}
	path := r.GetPath()
	role := path
	if strings.Contains(path, "@future@") {
		role = "future"
	} else {
		if i := strings.LastIndex(role, "/"); i >= 0 {
			role = role[i+1:]
		}
		if i := strings.Index(role, "-"); i >= 0 {
			role = role[:i]
		}
	}
	p.mu.Lock()
	want := p.home[role]
	p.mu.Unlock()
	if want != "" && want != r.GetAddress() {
		return role + "@WRONG-ADDRESS"
	}
	return role
}

// spawn the target actor on system s; it records what it sees.
func (p *tpPair) target(s *actor.System, name string, reply bool, goerr ...bool) vivid.ActorRef {
	ref, _ := s.ActorOf(vivid.ActorFN(func(c vivid.ActorContext) {
		switch m := c.Message().(type) {
		case *tpMsg:
			p.ev("target got %d/%s from %s", m.N, m.Tag, p.refStr(c.Sender()))
			if len(goerr) > 0 && goerr[0] {
				// the recipient answers with a plain Go error (not a *vivid.Error): the Ask fails with it
				c.Reply(fmt.Errorf("boom"))
			} else if reply {
				c.Reply(&tpMsg{N: m.N + 1000, Tag: "re"})
			}
		case tpVal:
			p.ev("target got value %d from %s", m.N, p.refStr(c.Sender()))
		case *vivid.OnKill:
			p.ev("target onkill killer=%s poison=%v reason=%s", p.refStr(m.Killer), m.Poison, m.Reason)
		case *vivid.OnKilled:
			p.ev("target terminated")
		}
	}), vivid.WithActorName(name))
	return ref
}

// targetBusy: blocks inside the handler of its first message until released, so that whatever arrives meanwhile
// queues up behind it.
func (p *tpPair) targetBusy(s *actor.System, name string, started, release chan struct{}) vivid.ActorRef {
	ref, _ := s.ActorOf(vivid.ActorFN(func(c vivid.ActorContext) {
		switch m := c.Message().(type) {
		case *tpMsg:
			p.ev("target got %d/%s from %s", m.N, m.Tag, p.refStr(c.Sender()))
			if m.Tag == "first" {
				close(started)
				<-release
			}
		case *vivid.OnKill:
			p.ev("target onkill killer=%s poison=%v reason=%s", p.refStr(m.Killer), m.Poison, m.Reason)
		case *vivid.OnKilled:
			p.ev("target terminated")
		}
	}), vivid.WithActorName(name))
	return ref
}

// targetParent: has a child that holds on to its OnKill handler until released — a killed parent stays in its
// stopping state that long.
func (p *tpPair) targetParent(s *actor.System, name string, release chan struct{}) vivid.ActorRef {
	ref, _ := s.ActorOf(vivid.ActorFN(func(c vivid.ActorContext) {
		if _, ok := c.Message().(*vivid.OnLaunch); ok {
			c.ActorOf(vivid.ActorFN(func(cc vivid.ActorContext) {
				if _, ok := cc.Message().(*vivid.OnKill); ok {
					<-release
				}
			}), vivid.WithActorName("held"))
		}
	}), vivid.WithActorName(name))
	return ref
}

func (e *transpEngine) Exec(line string) (string, string) {
	tk := strings.Fields(line)
	if len(tk) != 4 || tk[0] != "tp" {
		return "bad-op", ""
	}
	cfg, op, loc := tk[1], tk[2], tk[3]
	p := e.pairs[cfg]
	if p == nil {
		var err error
		if p, err = newTpPair(cfg); err != nil {
			return "-", "HARNESS: " + err.Error()
		}
		e.pairs[cfg] = p
	}
	p.mu.Lock()
	p.events = nil
	p.wire = map[string]bool{}
	p.seq++
	id := p.seq
	p.mu.Unlock()
	home := func(l string) *actor.System {
		if l == "remote" || l == "twin" {
			return p.b
		}
		return p.a
	}
	mkRef := func(from *actor.System, r vivid.ActorRef) vivid.ActorRef {
		// the reference as the caller's system sees it (built from address + path, as a user would)
		x, _ := from.CreateRef(r.GetAddress(), r.GetPath())
		return x
	}
	tname := fmt.Sprintf("target-%d", id)
	floc := "local"
	if i := strings.Index(op, "@"); i >= 0 { // pipe-ok@remote : location of the forwarder
		floc = op[i+1:]
		op = op[:i]
	}
	addrOf := func(l string) string {
		if l == "remote" || l == "twin" {
			return p.addrB
		}
		return p.addrA
	}
	p.mu.Lock()
	p.home = map[string]string{"caller": p.addrA, "future": p.addrA, "target": addrOf(loc), "fwd": addrOf(floc)}
	p.mu.Unlock()
	var tgt vivid.ActorRef
	release, started := make(chan struct{}), make(chan struct{})
	var releaseOnce sync.Once
	letGo := func() { releaseOnce.Do(func() { close(release) }) }
	defer letGo()
	switch op {
	case "kill-busy", "poison-busy":
		tgt = p.targetBusy(home(loc), tname, started, release)
	case "watch-stopping":
		tgt = p.targetParent(home(loc), tname, release)
		time.Sleep(60 * time.Millisecond)
		home(loc).Kill(tgt, false, "end") // its own system stops it: it now waits for its child
		time.Sleep(80 * time.Millisecond)
	case "tell-respawned":
		tgt = p.target(home(loc), tname, false)
	default:
		tgt = p.target(home(loc), tname, op != "pipe-fail", op == "pipe-err")
	}
	tref := mkRef(p.a, tgt)
	var fref vivid.ActorRef
	if strings.HasPrefix(op, "pipe") {
		// "twin": the forwarder lives on the other system under the very path of the caller
		fname := fmt.Sprintf("fwd-%d", id)
		if floc == "twin" {
			fname = fmt.Sprintf("caller-%d", id)
		}
		f, _ := home(floc).ActorOf(vivid.ActorFN(func(c vivid.ActorContext) {
			if m, ok := c.Message().(*vivid.PipeResult); ok {
				res := "nil"
				if x, ok := m.Message.(*tpMsg); ok {
					res = fmt.Sprintf("%d/%s", x.N, x.Tag)
				}
				errs := "nil"
				if m.Error != nil {
					errs = "error"
				}
				p.ev("fwd piperesult msg=%s err=%s", res, errs)
			}
		}), vivid.WithActorName(fname))
		fref = mkRef(p.a, f)
	}
	if op == "watch-twin" || op == "unwatch-twin" {
		// a second watcher with the caller's very path, on the other system
		trefB := mkRef(p.b, tgt)
		p.b.ActorOf(vivid.ActorFN(func(c vivid.ActorContext) {
			switch m := c.Message().(type) {
			case *vivid.OnLaunch:
				c.Watch(trefB)
			case *vivid.OnKilled:
				if m.Ref != nil && !m.Ref.Equals(c.Ref()) {
					p.ev("twin onkilled ref=%s", p.refStr(m.Ref))
				}
			}
		}), vivid.WithActorName(fmt.Sprintf("caller-%d", id)))
		time.Sleep(80 * time.Millisecond)
	}
	// the caller actor on A performs the operation from inside its handler
	done := make(chan struct{})
	p.a.ActorOf(vivid.ActorFN(func(c vivid.ActorContext) {
		switch m := c.Message().(type) {
		case *vivid.OnLaunch:
			switch op {
			case "tell":
				c.Tell(tref, &tpMsg{N: 7, Tag: "hi"})
			case "tell-respawned":
				c.Tell(tref, &tpMsg{N: 1, Tag: "a"})
			case "tellv":
				c.Tell(tref, tpVal{N: 5})
			case "ask":
				r, err := c.Ask(tref, &tpMsg{N: 8, Tag: "q"}, 400*time.Millisecond).Result()
				if x, ok := r.(*tpMsg); ok && err == nil {
					p.ev("caller reply %d/%s", x.N, x.Tag)
				} else {
					p.ev("caller ask failed")
				}
			case "kill":
				c.Kill(tref, false, "why")
			case "poison":
				c.Kill(tref, true, "why")
			case "watch", "unwatch", "watch-twin", "unwatch-twin":
				if op != "unwatch-twin" {
					c.Watch(tref)
				}
				if op == "unwatch" || op == "unwatch-twin" {
					c.Unwatch(tref) // unwatch-twin: the caller never watched; its namesake on the other system does
				}
				// the target's own system ends it a little later
				go func() {
					time.Sleep(80 * time.Millisecond)
					home(loc).Kill(tgt, false, "end")
				}()
			case "kill-busy", "poison-busy":
				c.Tell(tref, &tpMsg{N: 1, Tag: "first"})
				select { // the target is inside the handler of the first message: the rest queues up behind it
				case <-started:
				case <-time.After(time.Second):
				}
				for n := int64(2); n <= 4; n++ {
					c.Tell(tref, &tpMsg{N: n, Tag: "q"})
				}
				c.Kill(tref, op == "poison-busy", "why")
				go func() {
					time.Sleep(250 * time.Millisecond) // everything has arrived and waits behind the first message
					letGo()
				}()
			case "watch-stopping":
				c.Watch(tref)
				go func() {
					time.Sleep(200 * time.Millisecond)
					letGo()
				}()
			case "ping":
				pong, err := c.Ping(tref, 400*time.Millisecond)
				if err == nil && pong != nil {
					p.ev("caller pong")
				} else {
					p.ev("caller ping failed")
				}
			case "pipe-ok", "pipe-fail", "pipe-err":
				c.PipeTo(tref, &tpMsg{N: 9, Tag: "p"}, vivid.ActorRefs{fref}, 150*time.Millisecond)
			}
			close(done)
		case *vivid.OnKilled:
			if m.Ref != nil && !m.Ref.Equals(c.Ref()) {
				p.ev("caller onkilled ref=%s", p.refStr(m.Ref))
			}
		case *tpMsg:
			if op == "tell-respawned" && m.N == 99 {
				// a reference built afresh from address + path after the target was re-created (a reference object that
				// has already delivered locally stays bound to the mailbox it found then — the old incarnation —
				// and its mail is dead-lettered: that is not what is compared here)
				c.Tell(mkRef(p.a, tgt), &tpMsg{N: 2, Tag: "again"})
				return
			}
			p.ev("caller got %d/%s", m.N, m.Tag)
		}
	}), vivid.WithActorName(fmt.Sprintf("caller-%d", id)))
	callerRef, _ := p.a.FindActor(p.addrA + fmt.Sprintf("/caller-%d", id))
	select {
	case <-done:
	case <-time.After(2 * time.Second):
	}
	if op == "tell-respawned" && callerRef != nil {
		// the target's own system stops it and creates a new actor under the same name
		time.Sleep(120 * time.Millisecond)
		home(loc).Kill(tgt, false, "end")
		time.Sleep(150 * time.Millisecond)
		p.target(home(loc), tname, false)
		time.Sleep(50 * time.Millisecond)
		p.a.Tell(callerRef, &tpMsg{N: 99, Tag: "go"})
	}
	wait := 250 * time.Millisecond
	if op == "pipe-fail" || strings.HasPrefix(op, "watch") || strings.HasPrefix(op, "unwatch") {
		wait = 450 * time.Millisecond
	}
	if strings.HasSuffix(op, "-busy") || op == "watch-stopping" {
		wait = 700 * time.Millisecond
	}
	time.Sleep(wait)
	p.mu.Lock()
	evs := append([]string(nil), p.events...)
	var wire []string
	for k := range p.wire {
		switch {
		case strings.HasPrefix(k, "ves."), k == "tpMsg", k == "tpVal":
			// user payloads and the wiretap's own events are not part of the observation
		default:
			if i := strings.LastIndex(k, "."); i >= 0 && !strings.Contains(k, ":") {
				k = k[i+1:]
			}
			wire = append(wire, k)
		}
	}
	p.mu.Unlock()
	sort.Strings(wire)
	// the watch scenarios end the target through its own system: that kill is scaffolding
	var keep []string
	for _, x := range evs {
		if (strings.HasPrefix(op, "watch") || strings.HasPrefix(op, "unwatch")) && strings.HasPrefix(x, "target ") {
			continue
		}
		if op == "tell-respawned" && (strings.HasPrefix(x, "target onkill") || strings.HasPrefix(x, "target terminated")) {
			continue // the stop of the first incarnation is scaffolding
		}
		keep = append(keep, x)
	}
	sort.Strings(keep)
	obs := strings.Join(keep, "; ")
	if obs == "" {
		obs = "-"
	}
	w := strings.Join(wire, ",")
	if w == "" {
		w = "-"
	}
	viol := ""
	has := func(x string) bool { return strings.Contains(obs, x) }
	switch {
	case op == "watch-twin" && !(has("caller onkilled ref=target") && has("twin onkilled ref=target")):
		viol = fmt.Sprintf("WATCH: two watchers with the same path on two systems (%s:/caller-%d and its namesake on the other system) both watch the %s target; after it terminated the notifications were: [%s]", "A", id, loc, obs)
	case op == "unwatch-twin" && !has("twin onkilled ref=target"):
		viol = fmt.Sprintf("WATCH: an Unwatch from A:/caller-%d (which never watched) removed the registration of its namesake on the other system: the %s target terminated and the watcher was told: [%s]", id, loc, obs)
	}
	return obs + " | wire=" + w, viol
}

func (e *transpEngine) Generate(c *Ctx) {
	c.Guard = true // a fatal runtime error in the real code leaves the op in pending.txt
	defer func() {
		for _, p := range e.pairs {
			p.stop()
		}
	}()
	ops := []string{"tell", "tellv", "ask", "kill", "poison", "watch", "unwatch", "watch-twin", "unwatch-twin", "ping", "pipe-ok@local", "pipe-ok@remote", "pipe-ok@twin", "pipe-fail@local", "pipe-fail@remote", "pipe-fail@twin", "pipe-err@local", "pipe-err@remote", "pipe-err@twin", "kill-busy", "poison-busy", "watch-stopping", "tell-respawned"}
	seen := map[string][2]string{}
	for _, cfg := range []string{"codec", "registered"} {
		for _, op := range ops {
			if op == "tellv" && cfg != "codec" {
				continue // a value message needs the user codec by definition
			}
			var obs [2]string
			for i, loc := range []string{"local", "remote"} {
				if strings.HasPrefix(op, "pipe-err") && loc == "remote" {
					// a plain Go error is a user value: replying with it across systems is a matter of the user's
					// codec, not of the library. What the library owns is the PipeResult that carries it to a
					// forwarder, local or remote — the target stays next to the caller.
					obs[i] = obs[0]
					continue
				}
				obs[i] = c.Case(fmt.Sprintf("tp %s %s %s", cfg, op, loc))
				c.R.Nontrivial()
				c.R.Hit("op:" + strings.SplitN(op, "@", 2)[0])
				c.R.Hit("loc:" + loc)
				c.R.Hit("cfg:" + cfg)
			}
			// location transparency, on the implementation alone: the same effect (the wire part aside)
			// wherever the target and the forwarder live
			base := strings.SplitN(op, "@", 2)[0]
			for i, loc := range []string{"local", "remote"} {
				eff := strings.SplitN(obs[i], " | ", 2)[0]
				k := cfg + " " + base
				if first, ok := seen[k]; !ok {
					seen[k] = [2]string{eff, op + " " + loc}
				} else if first[0] != eff {
					c.R.Violate("transp", fmt.Sprintf("TRANSPARENCY: %s (%s): with %s: [%s]  with %s %s: [%s]", base, cfg, first[1], first[0], op, loc, eff))
				}
			}
		}
	}
}
