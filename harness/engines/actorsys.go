package engines

import (
	"context"
	"fmt"
	"os"
	"sort"
	"strconv"
	"strings"
	"time"

	"github.com/kercylan98/vivid"
	"github.com/kercylan98/vivid/internal/actor"
	"github.com/kercylan98/vivid/internal/mailbox"
	"github.com/kercylan98/vivid/pkg/log"
	"github.com/kercylan98/vivid/pkg/ves"
	"github.com/kercylan98/vivid/verifharness/sched"
)

// Engine actorsys: the real actor.System under the coarse baton (M10: C03 C05 C06 C08 C09).
// A step is one HandleEnvelop of one actor or one operation from outside the system.
type asAction struct {
	kind  string
	t     string
	n     int
	name  string
	sid   int
	skind int
	decs  []int
	hooks int
}

type asScript map[int][]asAction // trigger -> actions

type asEv0 struct{ Pid int }
type asEv1 struct{ Pid int }
type asEv2 struct{ Pid int }

func asEvent(ty, pid int) any {
	switch ty {
	case 0:
		return asEv0{pid}
	case 1:
		return asEv1{pid}
	}
	return asEv2{pid}
}

type asUserMsg struct {
	ID int
	K  int
}

type asCtx struct {
	cid    int
	ctx    *actor.Context
	ref    vivid.ActorRef
	path   string
	name   string
	parent int
	script int
	hooks  int
	inc    int
	calls  int // OnPrelaunch calls so far
	restOK bool
	decs   []int
	decIdx int
	gens   int // actor instances the provider has supplied so far (instance 0 is the one given to ActorOf)
	// a restart hook (OnRestarted / OnPrelaunch of the restart) has failed: the actor must be a zombie from now on
	hookFailed string
}

type asEngine struct {
	wedged      bool // the scheduler lost track of a goroutine in this case
	s           *sched.Sched
	sys         *actor.System
	cancel      context.CancelFunc
	scripts     map[int]asScript
	ctxs        []*asCtx
	byCtx       map[*actor.Context]*asCtx
	refs        map[int]vivid.ActorRef
	nextUser    int
	events      []string
	dead        []int
	viol        string
	fixedLaunch bool
	// monitors
	expSubs       map[string]int       // "ty@path" -> cid, the harness's own subscription bookkeeping
	pubExpect     map[int]map[int]bool // publication -> expected subscriber cids
	pubGot        map[int]map[int]int  // publication -> deliveries per cid
	nextPub       int
	hadRef        map[string]bool
	failedCount   map[int]int
	decided       map[int]int
	escalated     map[int]int
	evHist        map[string]int
	killedEvents  map[int]int
	pendingLaunch map[int]bool
	seen          map[int][]string // cid -> list of "inc:trig"
	sentUser      map[int]int      // user message id -> 0 pending, 1 processed, 2 dead-lettered, 3 stashed
}

func init() { Register("actorsys", func() Engine { return &asEngine{} }) }

func (*asEngine) Name() string { return "actorsys" }

// ---- logger capturing the few log records that are the observable events

type asLogger struct {
	e    *asEngine
	with []any
}

func (l *asLogger) Debug(m string, a ...any) { l.rec(m, a) }
func (l *asLogger) Info(m string, a ...any)  { l.rec(m, a) }
func (l *asLogger) Warn(m string, a ...any)  { l.rec(m, a) }
func (l *asLogger) Error(m string, a ...any) { l.rec(m, a) }
func (l *asLogger) With(a ...any) log.Logger {
	return &asLogger{l.e, append(append([]any(nil), l.with...), a...)}
}
func (l *asLogger) WithGroup(string) log.Logger { return l }

func attr(a []any, key string) any {
	for _, x := range a {
		if at, ok := x.(log.Attr); ok && at.Key == key {
			return at.Value.Any()
		}
	}
	return nil
}

func (l *asLogger) rec(m string, a []any) {
	e := l.e
	switch m {
	case "death letter received":
		if um, ok := attr(a, "message").(*asUserMsg); ok {
			e.events = append(e.events, fmt.Sprintf("dead-letter:%d", um.ID))
			e.dead = append(e.dead, um.ID)
			e.markUser(um.ID, 2)
		} else {
			e.events = append(e.events, "dead-letter:sys")
		}
	case "supervision: actor failed":
		if c := e.byPath(fmt.Sprint(attr(a, "path"))); c != nil {
			e.events = append(e.events, fmt.Sprintf("failed:%d", c.cid))
			// C08: a failure while the actor is already stopping must not reach the supervisor
			if c.ctx != nil && e.viol == "" {
				if st := c.ctx.VerifState(); st.State != 0 && !st.Zombie {
					e.viol = fmt.Sprintf("SUPERVISION-WHILE-STOPPING: context %d (%s) raised a supervision request while it was already %s: its parent's strategy is consulted and the directive applied for an actor that is terminating anyway", c.cid, c.path, map[int32]string{1: "killing", 2: "killed"}[st.State])
				}
			}
		}
	case "restart failed; actor is now in zombie state":
		if c := e.byPath(fmt.Sprint(attr(a, "path"))); c != nil {
			e.events = append(e.events, fmt.Sprintf("zombie:%d", c.cid))
		}
	case "event published":
		if fmt.Sprint(attr(a, "event_type")) == "ves.ActorKilledEvent" {
			if ev, ok := attr(a, "event_data").(ves.ActorKilledEvent); ok {
				if c := e.byRef(ev.ActorRef); c != nil {
					e.events = append(e.events, fmt.Sprintf("killed-event:%d", c.cid))
				}
			}
		}
	}
}

func (e *asEngine) byPath(p string) *asCtx {
	// the newest context with that path that is still alive or was alive last
	for i := len(e.ctxs) - 1; i >= 0; i-- {
		if e.ctxs[i].path == p {
			return e.ctxs[i]
		}
	}
	return nil
}

func (e *asEngine) byRef(r vivid.ActorRef) *asCtx {
	for _, c := range e.ctxs {
		if c.ref == r {
			return c
		}
	}
	if r != nil {
		return e.byPath(r.GetPath())
	}
	return nil
}

func (e *asEngine) markUser(id, st int) {
	if old, ok := e.sentUser[id]; ok && old != 0 && old != 3 && st != 3 && e.viol == "" {
		names := []string{"pending", "processed", "dead-lettered", "stashed"}
		e.viol = fmt.Sprintf("USER MESSAGE %d ended twice: %s and then %s", id, names[old], names[st])
	}
	e.sentUser[id] = st
}

// ---- the scripted actor

type asActor struct {
	e   *asEngine
	c   *asCtx
	gen int // which instance of the actor this is (0 = passed to ActorOf, k = k-th provided by the provider)
}

func (a *asActor) OnPrelaunch(ctx vivid.PrelaunchContext) error {
	a.c.calls++
	if a.c.calls == 1 {
		if a.c.hooks&16 != 0 {
			return fmt.Errorf("scripted prelaunch failure")
		}
		return nil
	}
	if a.c.hooks&2 != 0 {
		a.c.hookFailed = "OnPrelaunch"
		return fmt.Errorf("scripted prelaunch failure on restart")
	}
	if a.c.restOK {
		a.c.inc++
		a.e.events = append(a.e.events, fmt.Sprintf("restarted:%d", a.c.cid))
	}
	return nil
}

func (a *asActor) OnPreRestart(ctx vivid.RestartContext) error {
	if a.c.hooks&8 != 0 {
		panic("scripted pre-restart panic")
	}
	if a.c.hooks&32 != 0 {
		return fmt.Errorf("scripted pre-restart failure") // recorded by the library; the restart goes on
	}
	return nil
}

func (a *asActor) OnRestarted(ctx vivid.RestartContext) error {
	a.c.restOK = a.c.hooks&4 == 0
	if !a.c.restOK {
		a.c.hookFailed = "OnRestarted"
		return fmt.Errorf("scripted restarted failure")
	}
	return nil
}

func (a *asActor) OnReceive(ctx vivid.ActorContext) {
	// C05: after a restart with a provider the behaviour stack is reset to the OnReceive of the
	// fresh instance; an older instance must never see another message
	if a.gen != a.c.gens && a.e.viol == "" {
		a.e.viol = fmt.Sprintf("STALE-INSTANCE: context %d (%s): a message was handled by actor instance %d although the provider has supplied instance %d for the current incarnation", a.c.cid, a.c.path, a.gen, a.c.gens)
	}
	a.e.behave(a.c, ctx, a.c.script)
}

func (e *asEngine) trigger(c *asCtx, ctx vivid.ActorContext) (int, int, bool) {
	switch m := ctx.Message().(type) {
	case *vivid.OnLaunch:
		return 0, 0, true
	case *vivid.OnKill:
		return 1, 0, true
	case *vivid.OnKilled:
		if m.Ref.Equals(ctx.Ref()) {
			return 2, 0, true
		}
		return 3, 0, true
	case *asUserMsg:
		return 100 + m.K, m.ID, true
	case asEv0:
		return 200, m.Pid, true
	case asEv1:
		return 201, m.Pid, true
	case asEv2:
		return 202, m.Pid, true
	}
	return 0, 0, false
}

func (e *asEngine) target(c *asCtx, ctx vivid.ActorContext, spec string) vivid.ActorRef {
	switch {
	case spec == "self":
		return ctx.Ref()
	case spec == "parent":
		return ctx.Parent()
	case spec == "sender":
		return ctx.Sender()
	case strings.HasPrefix(spec, "c:"):
		for _, ch := range ctx.Children() {
			if strings.HasSuffix(ch.GetPath(), "/"+spec[2:]) {
				return ch
			}
		}
		p := c.path
		if p != "/" {
			p += "/"
		}
		r, _ := actor.NewRef(actor.LocalAddress, p+spec[2:])
		return r
	case strings.HasPrefix(spec, "p:"):
		r, _ := actor.NewRef(actor.LocalAddress, spec[2:])
		return r
	case strings.HasPrefix(spec, "r:"):
		n, _ := strconv.Atoi(spec[2:])
		return e.refs[n]
	}
	return nil
}

func (e *asEngine) behave(c *asCtx, ctx vivid.ActorContext, sid int) {
	trig, mid, ok := e.trigger(c, ctx)
	if !ok {
		return
	}
	e.events = append(e.events, fmt.Sprintf("seen:%d:%d:%d", c.cid, c.inc, trig))
	e.seen[c.cid] = append(e.seen[c.cid], fmt.Sprintf("%d:%d", c.inc, trig))
	// C09: once a restart hook has failed the actor is a zombie: it runs no user code any more
	if c.hookFailed != "" && e.viol == "" {
		e.viol = fmt.Sprintf("ZOMBIE-RUNS-USER-CODE: context %d (%s): its restart hook %s failed, yet its behaviour is run on trigger %d afterwards (a failed restart must leave a zombie that runs no user code)", c.cid, c.path, c.hookFailed, trig)
	}
	if trig >= 100 && trig < 200 {
		e.markUser(mid, 1)
	}
	if trig >= 200 {
		e.eventDelivered(c, trig-200, mid)
	}
	e.lifecycleMonitor(c, trig)
	for _, a := range e.scripts[sid][trig] {
		if a.kind == "cancel" && c.ctx != nil {
			for _, r := range c.ctx.VerifJobRefs() {
				e.hadRef[fmt.Sprintf("%d/%s", c.cid, r)] = true
			}
		}
		switch a.kind {
		case "panic":
			panic("scripted panic")
		case "tell":
			e.nextUser++
			e.sentUser[e.nextUser] = 0
			tgt := e.target(c, ctx, a.t)
			if tgt == nil || tgt == vivid.ActorRef((*actor.Ref)(nil)) {
				e.sentUser[e.nextUser] = 1 // a nil ref is not an actor address: outside the property
			} else if tgt.GetPath() == "/" {
				e.sentUser[e.nextUser] = 1 // the root's behaviour (guard actor) processes it by ignoring it; not observable
			}
			if os.Getenv("AS_DEBUG") != "" {
				fmt.Fprintf(os.Stderr, "SEND %d k=%d from ctx %d (%s) to %v spec %s\n", e.nextUser, a.n, c.cid, c.path, tgt, a.t)
			}
			ctx.Tell(tgt, &asUserMsg{ID: e.nextUser, K: a.n})
		case "spawn":
			e.spawn(c, ctx, a)
		case "kill":
			ctx.Kill(e.target(c, ctx, a.t), a.n == 1, "scripted")
		case "stash":
			ctx.Stash()
			if trig >= 100 && trig < 200 {
				e.sentUser[mid] = 3
			}
		case "unstash":
			if a.n == 0 {
				ctx.Unstash()
			} else {
				ctx.Unstash(a.n)
			}
		case "watch":
			ctx.Watch(e.target(c, ctx, a.t))
		case "unwatch":
			ctx.Unwatch(e.target(c, ctx, a.t))
		case "become":
			sid := a.sid
			ctx.Become(func(cx vivid.ActorContext) { e.behave(c, cx, sid) })
		case "unbecome":
			ctx.UnBecome()
		case "once", "loop":
			e.evHist["sched-"+a.kind]++
			msg := &asUserMsg{ID: 0, K: a.n}
			var err error
			if a.kind == "once" {
				err = ctx.Scheduler().Once(ctx.Ref(), time.Hour, msg, vivid.WithSchedulerReference(a.t))
			} else {
				err = ctx.Scheduler().Loop(ctx.Ref(), time.Hour, msg, vivid.WithSchedulerReference(a.t))
			}
			if err != nil {
				e.events = append(e.events, fmt.Sprintf("sched-err:%d", c.cid))
			}
		case "cron":
			expr := "0 0 0 1 1 ? 2099" // valid, far in the future
			if a.n == 0 {
				expr = "not a cron expression"
			}
			if err := ctx.Scheduler().Cron(ctx.Ref(), expr, &asUserMsg{ID: 0, K: 1}, vivid.WithSchedulerReference(a.t)); err != nil {
				e.events = append(e.events, fmt.Sprintf("cron-err:%d", c.cid))
				e.evHist["cron-invalid"]++
			}
		case "cancel":
			had := false
			for _, r := range c.ctx.VerifJobRefs() {
				if r == a.t {
					had = true
				}
			}
			err := ctx.Scheduler().Cancel(a.t)
			res := "ok"
			if err != nil {
				res = "err"
				if !had {
					res = "notfound"
				}
			} else if !had {
				res = "ok-but-unknown" // C20: Cancel of an unknown reference must return not-found
				e.viol = "CANCEL-UNKNOWN: Cancel of a reference the actor never scheduled returned nil"
			}
			e.evHist["cancel:"+res]++
			e.events = append(e.events, fmt.Sprintf("cancel:%d:%s:%s", c.cid, a.t, res))
		case "sclear":
			e.evHist["sched-clear"]++
			ctx.Scheduler().Clear()
		case "sub":
			e.evHist["es-sub"]++
			ctx.EventStream().Subscribe(ctx, asEvent(a.n, 0))
			e.expSubs[fmt.Sprintf("%d@%s", a.n, c.path)] = c.cid
		case "unsub":
			e.evHist["es-unsub"]++
			ctx.EventStream().Unsubscribe(ctx, asEvent(a.n, 0))
			delete(e.expSubs, fmt.Sprintf("%d@%s", a.n, c.path))
		case "unsuball":
			e.evHist["es-unsuball"]++
			ctx.EventStream().UnsubscribeAll(ctx)
			for k := range e.expSubs {
				if strings.HasSuffix(k, "@"+c.path) {
					delete(e.expSubs, k)
				}
			}
		case "pub":
			e.nextPub++
			// the subscribers at the time of publication, by the harness's own bookkeeping
			exp := map[int]bool{}
			for k, cid := range e.expSubs {
				if strings.HasPrefix(k, fmt.Sprintf("%d@", a.n)) {
					exp[cid] = true
				}
			}
			e.pubExpect[e.nextPub] = exp
			e.pubGot[e.nextPub] = map[int]int{}
			e.evHist["es-pub"]++
			if len(exp) > 0 {
				e.evHist["es-pub-with-subscribers"]++
			}
			ctx.EventStream().Publish(ctx, asEvent(a.n, e.nextPub))
		}
	}
}

// ctxHadRef: did the context's scheduler hold that reference just before the Cancel call?
func ctxHadRef(e *asEngine, c *asCtx, ref string) bool {
	return e.hadRef[fmt.Sprintf("%d/%s", c.cid, ref)]
}

func (e *asEngine) strategy(c *asCtx, kind int) vivid.SupervisionStrategy {
	maker := vivid.SupervisionStrategyDecisionMakerFN(func(sc vivid.SupervisionContext) (vivid.SupervisionDecision, string) {
		d := 3
		if len(c.decs) > 0 {
			d = c.decs[c.decIdx%len(c.decs)]
		}
		c.decIdx++
		child := -1
		if f := sc.Child().First(); f != nil {
			if cc := e.byRef(f); cc != nil {
				child = cc.cid
			}
		}
		e.events = append(e.events, fmt.Sprintf("decide:%d:%d:%d", c.cid, child, d))
		return vivid.SupervisionDecision(d), "scripted"
	})
	if kind == 2 {
		return vivid.OneForAllStrategy(maker)
	}
	return vivid.OneForOneStrategy(maker)
}

type asSpawner interface {
	ActorOf(actor vivid.Actor, options ...vivid.ActorOption) (vivid.ActorRef, error)
}

func (e *asEngine) spawn(parent *asCtx, sp asSpawner, a asAction) {
	c := &asCtx{cid: len(e.ctxs), name: a.name, parent: parent.cid, script: a.sid, hooks: a.hooks, decs: a.decs}
	p := parent.path
	if p != "/" {
		p += "/"
	}
	c.path = p + a.name
	opts := []vivid.ActorOption{vivid.WithActorName(a.name)}
	if a.skind != 0 {
		opts = append(opts, vivid.WithActorSupervisionStrategy(e.strategy(c, a.skind)))
	}
	act := &asActor{e, c, 0}
	if a.hooks&1 != 0 {
		opts = append(opts, vivid.WithActorProvider(vivid.ActorProviderFN(func() vivid.Actor { c.gens++; return &asActor{e, c, c.gens} })))
	}
	// the context must be known before its first log record / event: register tentatively
	e.ctxs = append(e.ctxs, c)
	ref, err := sp.ActorOf(act, opts...)
	if err != nil {
		e.ctxs = e.ctxs[:len(e.ctxs)-1]
		why := "other"
		switch {
		case strings.Contains(err.Error(), "prelaunch"):
			why = "prelaunch"
		case strings.Contains(err.Error(), "exist"):
			why = "exists"
		case strings.Contains(err.Error(), "dead"):
			why = "dead"
		}
		e.events = append(e.events, fmt.Sprintf("spawn-err:%s:%s", a.name, why))
		return
	}
	c.ref = ref
	c.ctx = e.sys.VerifLookup(ref.GetPath())
	e.byCtx[c.ctx] = c
	e.events = append(e.events, fmt.Sprintf("spawned:%d:%s", c.cid, c.path))
}

// ---- parsing

func parseAsScript(body string) (asScript, bool) {
	sc := asScript{}
	if body == "-" {
		return sc, true
	}
	for _, rule := range strings.Split(body, ";") {
		i := strings.Index(rule, ":")
		if i < 0 {
			return nil, false
		}
		var trig int
		switch t := rule[:i]; {
		case t == "launch":
			trig = 0
		case t == "kill":
			trig = 1
		case t == "killed":
			trig = 2
		case t == "okilled":
			trig = 3
		case strings.HasPrefix(t, "u"):
			k, err := strconv.Atoi(t[1:])
			if err != nil {
				return nil, false
			}
			trig = 100 + k
		case strings.HasPrefix(t, "e"):
			k, err := strconv.Atoi(t[1:])
			if err != nil {
				return nil, false
			}
			trig = 200 + k
		default:
			return nil, false
		}
		var acts []asAction
		if rule[i+1:] != "" {
			for _, at := range strings.Split(rule[i+1:], ",") {
				a, ok := parseAsAction(at)
				if !ok {
					return nil, false
				}
				acts = append(acts, a)
			}
		}
		sc[trig] = acts
	}
	return sc, true
}

func parseDecs(s string) []int {
	if s == "-" {
		return nil
	}
	var out []int
	for _, ch := range s {
		out = append(out, int(ch-'0'))
	}
	return out
}

func parseAsAction(t string) (asAction, bool) {
	p := strings.Split(t, ".")
	atoi := func(s string) int { n, _ := strconv.Atoi(s); return n }
	switch {
	case p[0] == "tell" && len(p) == 3:
		return asAction{kind: "tell", t: p[1], n: atoi(p[2])}, true
	case p[0] == "spawn" && len(p) == 6:
		return asAction{kind: "spawn", name: p[1], sid: atoi(p[2]), skind: atoi(p[3]), decs: parseDecs(p[4]), hooks: atoi(p[5])}, true
	case p[0] == "kill" && len(p) == 2:
		return asAction{kind: "kill", t: p[1], n: 0}, true
	case p[0] == "poison" && len(p) == 2:
		return asAction{kind: "kill", t: p[1], n: 1}, true
	case p[0] == "panic", p[0] == "stash", p[0] == "unbecome":
		return asAction{kind: p[0]}, len(p) == 1
	case p[0] == "unstash" && len(p) == 2:
		return asAction{kind: "unstash", n: atoi(p[1])}, true
	case (p[0] == "once" || p[0] == "loop") && len(p) == 3:
		return asAction{kind: p[0], t: p[1], n: atoi(p[2])}, true
	case p[0] == "cron" && len(p) == 3:
		return asAction{kind: "cron", n: atoi(p[1]), t: p[2]}, true
	case p[0] == "cancel" && len(p) == 2:
		return asAction{kind: "cancel", t: p[1]}, true
	case p[0] == "sclear" && len(p) == 1:
		return asAction{kind: "sclear"}, true
	case (p[0] == "sub" || p[0] == "unsub" || p[0] == "pub") && len(p) == 2:
		return asAction{kind: p[0], n: atoi(p[1])}, true
	case p[0] == "unsuball" && len(p) == 1:
		return asAction{kind: "unsuball"}, true
	case (p[0] == "watch" || p[0] == "unwatch") && len(p) == 2:
		return asAction{kind: p[0], t: p[1]}, true
	case p[0] == "become" && len(p) == 2:
		return asAction{kind: "become", sid: atoi(p[1])}, true
	}
	return asAction{}, false
}

// ---- system life cycle

func (e *asEngine) shutdown() {
	if e.s != nil {
		sched.Uninstall()
		if e.cancel != nil {
			e.cancel()
		}
		e.s = nil
		e.sys = nil
	}
}

func (e *asEngine) reset(fixedLaunch bool) string {
	e.shutdown()
	e.s = sched.New()
	e.s.Coarse = true
	e.s.Watchdog = 3 * time.Second
	e.s.IsSpawn = func(site string) bool {
		return site == "mb.enq.go" || site == "mb.resume.go" || site == "mb.release.go" || site == "sys.guardian.go" || site == "ctx.pipe.go" || site == "ctx.entrust.go"
	}
	e.s.IsExit = func(site string) bool { return site == "mb.proc.exit" || site == "ctx.pipe.exit" || site == "exit" }
	e.s.Filter = func(site string, obj any) bool {
		return site == "mb.ph.pops" || site == "sys.guardian.wait" || site == "ctx.pipe.start" || site == "ctx.entrust.start" || site == "start"
	}
	e.s.Install()
	e.scripts = map[int]asScript{}
	e.ctxs = nil
	e.byCtx = map[*actor.Context]*asCtx{}
	e.refs = map[int]vivid.ActorRef{}
	e.nextUser = 0
	e.events, e.dead = nil, nil
	e.viol = ""
	e.fixedLaunch = fixedLaunch
	e.seen = map[int][]string{}
	e.sentUser = map[int]int{}
	e.killedEvents = map[int]int{}
	e.hadRef = map[string]bool{}
	e.failedCount, e.decided, e.escalated = map[int]int{}, map[int]int{}, map[int]int{}
	e.expSubs, e.pubExpect, e.pubGot, e.nextPub = map[string]int{}, map[int]map[int]bool{}, map[int]map[int]int{}, 0
	e.pendingLaunch = map[int]bool{}
	if e.evHist == nil {
		e.evHist = map[string]int{}
	}
	ctx, cancel := context.WithCancel(context.Background())
	e.cancel = cancel
	root := &asCtx{cid: 0, path: "/", parent: -1}
	e.ctxs = append(e.ctxs, root)
	defStrategy := vivid.OneForOneStrategy(vivid.SupervisionStrategyDecisionMakerFN(func(sc vivid.SupervisionContext) (vivid.SupervisionDecision, string) {
		// the system default: Stop. Logged like a scripted decision so the model and the code are compared on it.
		child := -1
		if f := sc.Child().First(); f != nil {
			if cc := e.byRef(f); cc != nil {
				child = cc.cid
			}
		}
		sup := -1
		if cc := e.byCtxParentOf(child); cc != nil {
			sup = cc.cid
		}
		e.events = append(e.events, fmt.Sprintf("decide:%d:%d:3", sup, child))
		return vivid.SupervisionDecisionStop, "default"
	}))
	e.sys = actor.NewSystem(vivid.WithActorSystemContext(ctx), vivid.WithActorSystemLogger(&asLogger{e: e}),
		vivid.WithActorSystemSupervisionStrategy(defStrategy), vivid.WithActorSystemDefaultAskTimeout(time.Hour),
		vivid.WithActorSystemStopTimeout(time.Second))
	if err := e.sys.Start(); err != nil {
		return "start-failed: " + err.Error()
	}
	if !e.s.WaitIdle() {
		return "stuck"
	}
	root.ctx = e.sys.VerifRoot()
	root.ref = root.ctx.Ref()
	e.byCtx[root.ctx] = root
	return "ok"
}

func (e *asEngine) byCtxParentOf(child int) *asCtx {
	if child <= 0 || child >= len(e.ctxs) {
		return nil
	}
	p := e.ctxs[child].parent
	if p < 0 || p >= len(e.ctxs) {
		return nil
	}
	return e.ctxs[p]
}

func (e *asEngine) mailboxOf(c *asCtx) *mailbox.UnboundedMailbox {
	m, _ := c.ctx.Mailbox().(*mailbox.UnboundedMailbox)
	return m
}

func deliverableMb(m *mailbox.UnboundedMailbox) bool {
	st := m.VerifState()
	return st.SystemLen > 0 || (!st.Paused && st.UserLen > 0)
}

// flush lets processing goroutines that have nothing to process leave.
func (e *asEngine) flush() bool {
	for round := 0; round < 50; round++ {
		progressed := false
		for _, t := range e.s.Threads {
			if t.Done || t.Site != "mb.ph.pops" {
				continue
			}
			m, _ := t.Obj.(*mailbox.UnboundedMailbox)
			if m == nil || deliverableMb(m) {
				continue
			}
			if !e.s.Step(t) {
				return false
			}
			progressed = true
		}
		if !progressed {
			return true
		}
	}
	return true
}

func (e *asEngine) digest() string {
	var parts []string
	for _, c := range e.ctxs {
		if c.ctx == nil {
			parts = append(parts, fmt.Sprintf("%d=?", c.cid))
			continue
		}
		st := c.ctx.VerifState()
		ms := e.mailboxOf(c).VerifState()
		flags := ""
		if st.Zombie {
			flags += "z"
		}
		if ms.Paused {
			flags += "p"
		}
		if st.Restarting {
			flags += "r"
		}
		var stash []string
		for _, env := range st.Stash {
			if um, ok := env.Message().(*asUserMsg); ok {
				stash = append(stash, strconv.Itoa(um.ID))
			} else {
				stash = append(stash, "0")
			}
		}
		sid := "-"
		if len(stash) > 0 {
			sid = strings.Join(stash, ",")
		}
		parts = append(parts, fmt.Sprintf("%d=%s:%s%s:i%d:s%d:u%d:st[%s]:ch[%s]:w[%s]:j[%s]", c.cid, c.path, "RKD"[st.State:st.State+1], flags, c.inc,
			ms.SystemLen, ms.UserLen, sid, strings.Join(st.Children, ","), strings.Join(st.Watchers, ","), strings.Join(c.ctx.VerifJobRefs(), ",")))
	}
	e.eventMonitors()
	reg, _ := e.sys.VerifRegistered()
	ev := "-"
	if len(e.events) > 0 {
		ev = strings.Join(e.events, ",")
	}
	dl := "-"
	if len(e.dead) > 0 {
		var d []string
		for _, x := range e.dead {
			d = append(d, strconv.Itoa(x))
		}
		dl = strings.Join(d, ",")
	}
	e.events = nil
	bySubs, byTypes := e.sys.VerifSubscriptions()
	if strings.Join(bySubs, ",") != strings.Join(byTypes, ",") && e.viol == "" {
		e.viol = fmt.Sprintf("ES-TABLES: the two event-stream tables disagree: by type %v, by subscriber %v", bySubs, byTypes)
	}
	var subs []string
	for _, x := range bySubs {
		x = strings.Replace(x, "engines.asEv", "", 1)
		subs = append(subs, x)
	}
	sort.Strings(subs)
	var jt []string
	for _, k := range e.sys.VerifJobKeys() {
		jt = append(jt, strings.TrimPrefix(k, "default::"))
	}
	sort.Strings(jt)
	// C20: every queued job is recorded by a live owner (a terminated actor's jobs are gone)
	owned := map[string]bool{}
	ownerOf := map[string]string{}
	for _, c := range e.ctxs {
		if c.ctx == nil {
			continue
		}
		for _, r := range c.ctx.VerifJobRefs() {
			inTable := map[string]bool{}
			for _, k := range jt {
				inTable[k] = true
			}
			for _, k := range []string{c.path + "#" + r, c.path + ":" + r} {
				owned[k] = true
				if !inTable[k] {
					continue
				}
				who := fmt.Sprintf("(%s, %q)", c.path, r)
				if st := c.ctx.VerifState(); st.State == 2 && !st.Zombie && e.viol == "" {
					if cur := e.sys.VerifLookup(c.path); cur == nil || cur != c.ctx {
						e.viol = fmt.Sprintf("JOB-SURVIVES-OWNER: job %s is still in the shared queue although its owner %s has terminated (registered while it was stopping, or never cleared)", k, c.path)
					}
				}
				if prev, ok := ownerOf[k]; ok && prev != who && e.viol == "" {
					e.viol = fmt.Sprintf("JOB-KEY-COLLISION: %s and %s map to the same job key %q: the second job is silently not scheduled and clearing one cancels the other", prev, who, k)
				}
				ownerOf[k] = who
				break
			}
		}
	}
	for _, k := range jt {
		if !owned[k] && e.viol == "" {
			e.viol = fmt.Sprintf("JOB-SURVIVES-OWNER: job %s is still in the shared queue but no actor's scheduler records it (its owner terminated, restarted or cleared it)", k)
		}
	}
	return fmt.Sprintf("ev=%s | %s | reg[%s] dl[%s] subs[%s] jobs[%s]", ev, strings.Join(parts, " "), strings.Join(reg, ","), dl, strings.Join(subs, ","), strings.Join(jt, ","))
}

func (e *asEngine) extTarget(spec string) vivid.ActorRef {
	switch {
	case strings.HasPrefix(spec, "o:"):
		n, _ := strconv.Atoi(spec[2:])
		if n >= 0 && n < len(e.ctxs) {
			return e.ctxs[n].ref
		}
	case strings.HasPrefix(spec, "p:"):
		r, _ := actor.NewRef(actor.LocalAddress, spec[2:])
		return r
	case strings.HasPrefix(spec, "r:"):
		n, _ := strconv.Atoi(spec[2:])
		return e.refs[n]
	}
	return nil
}

func (e *asEngine) Exec(line string) (obs string, viol string) {
	tk := strings.Fields(line)
	if len(tk) == 0 {
		return "bad-op", ""
	}
	defer func() {
		if r := recover(); r != nil {
			obs = "panic"
			viol = fmt.Sprintf("PANIC in the harness goroutine during %q: %v", line, r)
		}
		if e.viol != "" && viol == "" {
			viol = e.viol
			e.viol = ""
		}
		if e.s != nil && e.s.Stuck != "" && viol == "" {
			viol = "scheduler watchdog: " + e.s.Stuck[:min(len(e.s.Stuck), 800)]
			e.s.Stuck = ""
			e.wedged = true // the rest of this case would time out op by op: skip to the next reset
		}
	}()
	atoi := func(s string) int { n, _ := strconv.Atoi(s); return n }
	switch {
	case tk[0] == "reset":
		e.wedged = false
		return e.reset(len(tk) > 1 && tk[1] == "1"), ""
	case e.sys == nil:
		return "bad-op", ""
	case e.wedged:
		return "stuck", ""
	case tk[0] == "script" && len(tk) == 3:
		sc, ok := parseAsScript(tk[2])
		if !ok {
			return "bad-op", ""
		}
		e.scripts[atoi(tk[1])] = sc
		return "ok", ""
	case tk[0] == "spawn" && len(tk) == 6:
		e.spawn(e.ctxs[0], e.sys, asAction{kind: "spawn", name: tk[1], sid: atoi(tk[2]), skind: atoi(tk[3]), decs: parseDecs(tk[4]), hooks: atoi(tk[5])})
	case tk[0] == "tell" && len(tk) == 3:
		e.nextUser++
		e.sentUser[e.nextUser] = 0
		tgt := e.extTarget(tk[1])
		if tgt == nil {
			e.sentUser[e.nextUser] = 1 // a nil ref is not an actor address: outside the property
		}
		e.sys.Tell(tgt, &asUserMsg{ID: e.nextUser, K: atoi(tk[2])})
	case tk[0] == "kill" && len(tk) == 3:
		e.sys.Kill(e.extTarget(tk[1]), tk[2] == "1", "external")
	case tk[0] == "mkref" && len(tk) == 3:
		r, err := actor.NewRef(actor.LocalAddress, tk[2])
		if err != nil {
			return "bad-op", ""
		}
		e.refs[atoi(tk[1])] = r
		return "ok", ""
	case tk[0] == "check":
		if v := e.quiescenceMonitor(); v != "" && e.viol == "" {
			e.viol = v
		}
		return "checked", ""
	case tk[0] == "deliver" && len(tk) == 2:
		cid := atoi(tk[1])
		if cid < 0 || cid >= len(e.ctxs) || e.ctxs[cid].ctx == nil {
			return "nothing-to-deliver", ""
		}
		m := e.mailboxOf(e.ctxs[cid])
		if !deliverableMb(m) {
			return "nothing-to-deliver", ""
		}
		var th *sched.Thread
		for _, t := range e.s.Threads {
			if !t.Done && t.Site == "mb.ph.pops" && t.Obj == any(m) {
				th = t
			}
		}
		if th == nil {
			return "no-processing-goroutine", fmt.Sprintf("LOST WAKE-UP: context %d has processable mail but no processing goroutine", cid)
		}
		if !e.s.Step(th) {
			return "stuck", ""
		}
	default:
		return "bad-op", ""
	}
	if !e.s.WaitIdle() {
		return "stuck", ""
	}
	if !e.flush() {
		return "stuck", ""
	}
	return e.digest(), ""
}

// eventMonitors look at the events of the step just executed (before they are printed).
func (e *asEngine) eventMonitors() {
	for evIdx, ev := range e.events {
		p := strings.Split(ev, ":")
		e.evHist[p[0]]++
		if p[0] == "decide" && len(p) == 4 {
			e.evHist["decide:"+p[3]]++
		}
		if p[0] == "spawn-err" && len(p) == 3 {
			e.evHist["spawn-err:"+p[2]]++
		}
		switch p[0] {
		case "failed":
			cid, _ := strconv.Atoi(p[1])
			e.failedCount[cid]++
		case "decide":
			sup, _ := strconv.Atoi(p[1])
			child, _ := strconv.Atoi(p[2])
			e.decided[child]++
			if d, _ := strconv.Atoi(p[3]); d < 1 || d > 5 {
				e.escalated[sup]++ // Escalate, and any value outside the defined range (escalated by definition)
			}
		case "killed-event":
			cid, _ := strconv.Atoi(p[1])
			e.killedEvents[cid]++
			c := e.ctxs[cid]
			for k, sc := range e.expSubs {
				if sc == cid || strings.HasSuffix(k, "@"+c.path) {
					delete(e.expSubs, k)
				}
			}
			if e.killedEvents[cid] > 1 && !c.ctx.VerifState().Zombie && e.viol == "" {
				e.viol = fmt.Sprintf("KILL-ONCE: context %d (%s) was reported terminated %d times", cid, c.path, e.killedEvents[cid])
			}
			// children first: every descendant context must already be killed
			for _, d := range e.ctxs {
				if d.ctx == nil || d.cid == cid {
					continue
				}
				if e.isDescendant(d, cid) && d.ctx.VerifState().State != 2 && e.viol == "" {
					e.viol = fmt.Sprintf("CHILDREN-FIRST: context %d (%s) reported terminated while its descendant %d (%s) is not", cid, c.path, d.cid, d.path)
				}
			}
		case "restarted":
			cid, _ := strconv.Atoi(p[1])
			// the new incarnation's OnLaunch is due: it may already have been seen later in this very step
			// (repaired code: handled at the end of the restart) or must be seen in a later one
			launched := false
			for _, later := range e.events[evIdx+1:] {
				q := strings.Split(later, ":")
				if len(q) == 4 && q[0] == "seen" && q[1] == p[1] && q[3] == "0" {
					launched = true
				}
			}
			if !launched {
				e.pendingLaunch[cid] = true
			}
		}
	}
}

func (e *asEngine) isDescendant(d *asCtx, anc int) bool {
	for p := d.parent; p >= 0; p = e.ctxs[p].parent {
		if p == anc {
			return true
		}
	}
	return false
}

// quiescenceMonitor runs when no mailbox has anything it may process (C03 C06 C09).
func (e *asEngine) quiescenceMonitor() string {
	if len(e.deliverables()) > 0 {
		root := e.ctxs[0].ctx.VerifState()
		if root.State == 2 {
			return "AFTER-STOP: the system is stopped (root terminated) but dead letters keep being re-enqueued to the root: undeliverable messages cause endless further work"
		}
		return ""
	}
	// every category of violation is reported (once): a property's check filters by category, so one
	// category must not mask another
	var vs []string
	cats := map[string]bool{}
	add := func(v string) {
		cat := v
		if k := strings.IndexAny(v, ":("); k > 0 {
			cat = v[:k]
		}
		if !cats[cat] {
			cats[cat] = true
			vs = append(vs, v)
		}
	}
	zombie := false
	for _, c := range e.ctxs {
		if c.ctx != nil && c.ctx.VerifState().Zombie {
			zombie = true
		}
	}
	rootAlive := e.ctxs[0].ctx.VerifState().State == 0
	// C03: every user message is processed, stashed or dead-lettered (a zombie may consume mail)
	if !zombie && rootAlive {
		stashed := map[int]bool{}
		for _, c := range e.ctxs {
			if c.ctx == nil {
				continue
			}
			for _, env := range c.ctx.VerifState().Stash {
				if um, ok := env.Message().(*asUserMsg); ok {
					stashed[um.ID] = true
				}
			}
		}
		ids := make([]int, 0, len(e.sentUser))
		for id := range e.sentUser {
			ids = append(ids, id)
		}
		sort.Ints(ids)
		for _, id := range ids {
			st := e.sentUser[id]
			if st == 1 || st == 2 || stashed[id] {
				continue
			}
			where := "nowhere (swallowed)"
			for _, c := range e.ctxs {
				if c.ctx == nil {
					continue
				}
				ms := e.mailboxOf(c).VerifState()
				if ms.UserLen > 0 {
					where = fmt.Sprintf("possibly among the %d user message(s) parked in the paused mailbox of context %d (%s, state %d)", ms.UserLen, c.cid, c.path, c.ctx.VerifState().State)
					if c.ctx.VerifState().State != 0 {
						add(fmt.Sprintf("LOST-USER-MESSAGE(stranded): user message %d is neither processed, stashed nor dead-lettered at quiescence: %s", id, where))
					}
				}
			}
			if strings.HasPrefix(where, "nowhere") {
				add(fmt.Sprintf("LOST-USER-MESSAGE(swallowed): user message %d is neither processed, stashed nor dead-lettered at quiescence and sits in no queue", id))
			}
			add(fmt.Sprintf("LOST-USER-MESSAGE(parked): user message %d is unsettled at quiescence: %s", id, where))
		}
	}
	// C19: every subscriber (at publication time) that is still alive and not paused has received the event
	for pid, exp := range e.pubExpect {
		for cid := range exp {
			c := e.ctxs[cid]
			if c.ctx == nil {
				continue
			}
			st := c.ctx.VerifState()
			if st.State == 0 && !st.Zombie && !e.mailboxOf(c).VerifState().Paused && e.pubGot[pid][cid] == 0 && c.inc == 0 && !zombie {
				add(fmt.Sprintf("EVENT-MISSED: context %d (%s) was subscribed when publication %d was made, is alive, and never received it", cid, c.path, pid))
			}
		}
	}
	// C08: the strategy is consulted at most once per failure (per level of escalation)
	for cid, n := range e.decided {
		if max := e.failedCount[cid] + e.escalated[cid]; n > max {
			add(fmt.Sprintf("DECIDE-TWICE: a strategy was consulted %d times for %d failure(s)/escalation(s) of context %d", n, max, cid))
		}
	}
	for _, c := range e.ctxs {
		if c.ctx == nil {
			continue
		}
		st := c.ctx.VerifState()
		ms := e.mailboxOf(c).VerifState()
		// C09: no surviving actor stays paused
		if st.State == 0 && !st.Zombie && ms.Paused {
			add(fmt.Sprintf("STAYS-PAUSED: context %d (%s) is alive and its mailbox is still paused at quiescence", c.cid, c.path))
		}
		// C09 / C03: a zombie keeps consuming its mail — its mailbox is not left paused
		if st.Zombie && ms.Paused {
			add(fmt.Sprintf("ZOMBIE-PAUSED: context %d (%s) is a zombie and its mailbox is still paused at quiescence (%d user message(s) parked in it): a zombie keeps consuming its mail", c.cid, c.path, ms.UserLen))
		}
		// C06/C09: nobody half-stopped
		if st.State == 1 && !st.Zombie {
			add(fmt.Sprintf("HALF-STOPPED: context %d (%s) is still in state killing at quiescence (children %v)", c.cid, c.path, st.Children))
		}
		// C05: a restarted actor must have received its OnLaunch
		if e.pendingLaunch[c.cid] && st.State == 0 && !st.Zombie {
			add(fmt.Sprintf("RESTART-NO-LAUNCH: context %d (%s) was restarted but its new incarnation never saw OnLaunch", c.cid, c.path))
		}
		// C06: terminated => path released (or taken over by a newer context)
		if st.State == 2 && !st.Zombie {
			if cur := e.sys.VerifLookup(c.path); cur == c.ctx {
				add(fmt.Sprintf("NOT-RELEASED: context %d (%s) is terminated but still registered", c.cid, c.path))
			}
		}
	}
	return strings.Join(vs, " ;; ")
}

// eventDelivered: C19 — an event is delivered at most once per subscriber, and only to actors that
// were subscribed to its type when it was published.
func (e *asEngine) eventDelivered(c *asCtx, ty, pid int) {
	if e.viol != "" || e.pubGot[pid] == nil {
		return
	}
	e.pubGot[pid][c.cid]++
	if e.pubGot[pid][c.cid] > 1 {
		e.viol = fmt.Sprintf("EVENT-TWICE: publication %d of type %d was delivered %d times to context %d (%s)", pid, ty, e.pubGot[pid][c.cid], c.cid, c.path)
	}
	if !e.pubExpect[pid][c.cid] {
		e.viol = fmt.Sprintf("EVENT-NOT-SUBSCRIBED: publication %d of type %d was delivered to context %d (%s), which was not subscribed to that type when it was published", pid, ty, c.cid, c.path)
	}
}

// lifecycleMonitor: C05 on the real trace — per incarnation OnLaunch first, nothing after own OnKilled,
// OnKill before own OnKilled.
func (e *asEngine) lifecycleMonitor(c *asCtx, trig int) {
	if e.viol != "" {
		return
	}
	var cur []int
	for _, s := range e.seen[c.cid] {
		p := strings.Split(s, ":")
		inc, _ := strconv.Atoi(p[0])
		t, _ := strconv.Atoi(p[1])
		if inc == c.inc {
			cur = append(cur, t)
		}
	}
	n := len(cur)
	if trig == 0 {
		delete(e.pendingLaunch, c.cid)
		launches := 0
		for _, t := range cur {
			if t == 0 {
				launches++
			}
		}
		total := 0
		for _, sx := range e.seen[c.cid] {
			if strings.HasSuffix(sx, ":0") {
				total++
			}
		}
		if total > 1+c.inc {
			e.viol = fmt.Sprintf("LAUNCH-TWICE: context %d saw OnLaunch %d times over %d incarnation(s) (an OnLaunch meant for another actor?)", c.cid, total, 1+c.inc)
		}
		_ = launches
	}
	if n == 1 && trig != 0 {
		e.viol = fmt.Sprintf("LIFECYCLE: context %d incarnation %d saw trigger %d before any OnLaunch", c.cid, c.inc, trig)
	}
	for i := 0; i < n-1; i++ {
		if cur[i] == 2 {
			e.viol = fmt.Sprintf("LIFECYCLE: context %d incarnation %d saw trigger %d after the OnKilled naming itself", c.cid, c.inc, trig)
		}
	}
}

// ---------------------------------------------------------------- generation

func (e *asEngine) deliverables() []int {
	var out []int
	for _, c := range e.ctxs {
		if c.ctx != nil && deliverableMb(e.mailboxOf(c)) {
			out = append(out, c.cid)
		}
	}
	return out
}

func (e *asEngine) Generate(c *Ctx) {
	defer e.shutdown()
	c.Guard = true // an unrecovered panic in a mailbox goroutine kills the process: leave the case behind
	n := 200
	if c.Thorough() {
		n = 5000
	}
	e.supervisionMatrix(c)
	e.escalationMatrix(c)
	e.stashScenarios(c)
	e.killVsDirective(c)
	e.zombieSibling(c)
	e.stoppingSupervisor(c)
	e.eventStreamScenarios(c)
	e.schedulerScenarios(c)
	for i := 0; i < n; i++ {
		e.randomScenario(c)
	}
	for k, v := range e.evHist {
		c.R.Hist["ev:"+k] += v
	}
}

func (e *asEngine) randomScenario(c *Ctx) {
	r := c.Rng
	c.Case("reset 1")
	// scripts 1..4: random rule tables
	names := []string{"a", "b", "k"}
	esHeavy := r.Chance(1, 3) // a third of the scenarios concentrate on the event stream
	targets := []string{"self", "parent", "sender", "c:k", "c:a", "p:/a", "p:/a/k", "p:/b", "self", "sender", "c:k"}
	if r.Chance(1, 4) {
		targets = append(targets, "p:/zz") // a path that never exists (falls back to the root mailbox)
	}
	for sid := 1; sid <= 4; sid++ {
		var rules []string
		for _, trig := range []string{"launch", "u1", "u2", "u3", "kill", "killed", "okilled", "e0", "e1", "e2"} {
			if r.Chance(2, 5) {
				continue
			}
			var acts []string
			for k := r.Intn(3); k >= 0; k-- {
				switch x := r.Intn(20); {
				case x < 7:
					acts = append(acts, fmt.Sprintf("tell.%s.%d", targets[r.Intn(len(targets))], 1+r.Intn(3)))
				case x < 10 && trig != "kill" && trig != "killed":
					acts = append(acts, fmt.Sprintf("spawn.%s.%d.%d.%s.%d", names[r.Intn(len(names))], 1+r.Intn(4), r.Intn(3), []string{"-", "3", "1", "5", "15", "6", "2", "4", "31"}[r.Intn(9)], []int{0, 0, 0, 1, 2, 4, 16, 8, 32}[r.Intn(9)]))
				case x < 12:
					acts = append(acts, "kill."+targets[r.Intn(len(targets))])
				case x < 13:
					acts = append(acts, "poison."+targets[r.Intn(len(targets))])
				case x < 15 && (trig == "u1" || trig == "u2" || trig == "launch" || trig == "okilled"):
					acts = append(acts, "panic")
				case x < 16 && strings.HasPrefix(trig, "u") && !strings.Contains(strings.Join(acts, ","), "stash"):
					acts = append(acts, "stash") // at most once per message: stashing one envelope twice duplicates it by design
				case x < 17:
					acts = append(acts, fmt.Sprintf("unstash.%d", r.Intn(3)))
				case x < 18:
					acts = append(acts, "watch."+targets[r.Intn(len(targets))])
				case x == 19 || (esHeavy && x >= 10):
					switch y := r.Intn(10); {
					case y < 4:
						acts = append(acts, fmt.Sprintf("sub.%d", r.Intn(3)))
					case y < 6:
						acts = append(acts, fmt.Sprintf("unsub.%d", r.Intn(3)))
					case y < 7:
						acts = append(acts, "unsuball")
					default:
						acts = append(acts, fmt.Sprintf("pub.%d", r.Intn(3)))
					}
				case x < 19:
					acts = append(acts, fmt.Sprintf("become.%d", 1+r.Intn(4)))
				}
			}
			rules = append(rules, trig+":"+strings.Join(acts, ","))
		}
		body := "-"
		if len(rules) > 0 {
			body = strings.Join(rules, ";")
		}
		c.Do(fmt.Sprintf("script %d %s", sid, body))
	}
	c.Do("mkref 1 /a")
	c.Do("mkref 2 /a/k")
	steps := 20 + r.Intn(40)
	for s := 0; s < steps; s++ {
		d := e.deliverables()
		x := r.Intn(10)
		switch {
		case len(d) > 0 && x < 7:
			c.Do(fmt.Sprintf("deliver %d", d[r.Intn(len(d))]))
		case x < 8:
			c.Do(fmt.Sprintf("spawn %s %d %d %s %d", []string{"a", "b"}[r.Intn(2)], 1+r.Intn(4), r.Intn(3), []string{"-", "3", "1", "5", "15", "6", "2", "4"}[r.Intn(8)], []int{0, 0, 0, 1, 2, 4}[r.Intn(6)]))
		case x < 9:
			t := []string{"p:/a", "p:/a/k", "p:/b", "r:1", "r:2", "o:1", "o:2", "p:/zz"}[r.Intn(8)]
			c.Do(fmt.Sprintf("tell %s %d", t, 1+r.Intn(3)))
		default:
			t := []string{"p:/a", "p:/a/k", "o:1", "o:2", "r:1"}[r.Intn(5)]
			c.Do(fmt.Sprintf("kill %s %d", t, r.Intn(2)))
		}
	}
	// drain to quiescence
	for s := 0; s < 300; s++ {
		d := e.deliverables()
		if len(d) == 0 {
			break
		}
		c.Do(fmt.Sprintf("deliver %d", d[r.Intn(len(d))]))
	}
	c.Do("check")
	c.R.Nontrivial()
}

// drain delivers in a seeded random order until nothing is deliverable (or max steps); returns the observations.
func (e *asEngine) drain(c *Ctx, max int) []string {
	var obs []string
	for s := 0; s < max; s++ {
		d := e.deliverables()
		if len(d) == 0 {
			return obs
		}
		obs = append(obs, c.Do(fmt.Sprintf("deliver %d", d[c.Rng.Intn(len(d))])))
	}
	return obs
}

// supervisionMatrix: every decision x {one-for-one, one-for-all} x failure site x restart hooks,
// on a supervisor with two children (one with a grandchild), a burst of user mail queued behind the
// failing message, and probes sent after quiescence (C05 C08 C09).
func (e *asEngine) supervisionMatrix(c *Ctx) {
	sites := []string{"launch", "user", "okilled"}
	hooksList := []int{0, 1, 2, 4, 8, 32}
	reps := 1
	if c.Thorough() {
		reps = 6
	}
	for rep := 0; rep < reps; rep++ {
		for _, dec := range []string{"1", "2", "3", "4", "5", "6", "15", "63", "61", "66"} {
			for kind := 1; kind <= 2; kind++ {
				for _, site := range sites {
					for _, hooks := range hooksList {
						if hooks != 0 && !strings.ContainsAny(dec, "12") {
							continue // restart hooks only matter for restart decisions
						}
						if !c.Thorough() && c.Rng.Chance(1, 2) {
							continue
						}
						if site == "launch" && (dec == "1" || dec == "2") {
							dec += "3" // a worker that fails in every OnLaunch would be restarted forever: stop it the second time
						}
						c.Case("reset 1")
						// script 1: supervisor P: spawns w (failing worker, script 2) and s (sibling, script 3)
						c.Do(fmt.Sprintf("script 1 launch:spawn.w.2.0.-.%d,spawn.s.3.0.-.0;u9:tell.c:w.9;u8:tell.c:s.8", hooks))
						// script 2: worker: fails at the chosen site; has a child g (script 4); echoes probes to parent
						switch site {
						case "launch":
							c.Do("script 2 launch:panic;u1:tell.parent.1;u9:tell.parent.7")
						case "user":
							c.Do("script 2 launch:spawn.g.4.0.-.0;u2:panic;u1:tell.parent.1;u9:tell.parent.7")
						default:
							c.Do("script 2 launch:spawn.g.4.0.-.0;u3:kill.c:g;okilled:panic;u1:tell.parent.1;u9:tell.parent.7")
						}
						c.Do("script 3 u8:tell.parent.6;u1:tell.parent.1")
						c.Do("script 4 u1:tell.parent.1")
						c.Do(fmt.Sprintf("spawn p 1 %d %s 0", kind, dec))
						e.drain(c, 40)
						// a burst: messages before, the failing one, messages behind it
						c.Do("tell p:/p/w 1")
						switch site {
						case "user":
							c.Do("tell p:/p/w 2")
						case "okilled":
							c.Do("tell p:/p/w 3")
						}
						c.Do("tell p:/p/w 1")
						c.Do("tell p:/p/w 1")
						c.Do("tell p:/p/s 1")
						e.drain(c, 200)
						// probes after quiescence: every surviving actor must answer
						c.Do("tell p:/p 9")
						c.Do("tell p:/p 8")
						probe := strings.Join(e.drain(c, 200), "\n")
						// C09 liveness: every surviving worker answers the probe through its parent (cid 1)
						for _, w := range []struct {
							path string
							echo string
						}{{"/p/w", ":107"}, {"/p/s", ":106"}} {
							if cur := e.sys.VerifLookup(w.path); cur != nil && e.ctxs[1].ctx.VerifState().State == 0 && len(e.deliverables()) == 0 {
								st := cur.VerifState()
								if st.State == 0 && !st.Zombie && !strings.Contains(probe, "seen:1:0"+w.echo) && !strings.Contains(probe, "seen:1:"+strconv.Itoa(e.ctxs[1].inc)+w.echo) {
									c.R.Violate("actorsys", fmt.Sprintf("NO-ANSWER: %s is alive after the failure was handled but a message sent afterwards was not processed (no echo %s at its parent)", w.path, w.echo))
								}
							}
						}
						c.Do("check")
						c.R.Nontrivial()
						c.R.Hit(fmt.Sprintf("matrix:dec%s:kind%d:%s:hooks%d", dec, kind, site, hooks))
					}
				}
			}
		}
	}
}

// escalationMatrix: a failure that is escalated through one or two supervisors before somebody
// decides: top decision x top strategy x strategy of each escalating supervisor x failure site, with a
// healthy sibling next to the failing worker at every level and mail queued behind the failure.
// After quiescence everybody still alive is probed (C08 C09: the resume/stop/restart must reach every
// actor that any level of the chain paused).
func (e *asEngine) escalationMatrix(c *Ctx) {
	reps := 1
	if c.Thorough() {
		reps = 4
	}
	for rep := 0; rep < reps; rep++ {
		for _, decT := range []string{"1", "2", "3", "4", "5", "51", "24", "6", "7", "0"} { // 7, 0: outside the defined range
			for kindT := 1; kindT <= 2; kindT++ {
				for kindM := 1; kindM <= 2; kindM++ {
					for depth := 1; depth <= 2; depth++ {
						for _, site := range []string{"user", "okilled"} {
							if !c.Thorough() && c.Rng.Chance(1, 3) {
								continue
							}
							kindN := 1 + c.Rng.Intn(2)
							c.Case("reset 1")
							// script 1: top supervisor T: child m (escalating supervisor) and a sibling x of m
							c.Do(fmt.Sprintf("script 1 launch:spawn.m.5.%d.6.0,spawn.x.3.0.-.0", kindM))
							if depth == 1 {
								// script 5: m: failing worker w and healthy sibling s
								c.Do("script 5 launch:spawn.w.2.0.-.0,spawn.s.3.0.-.0")
							} else {
								// script 5: m: a second escalating supervisor n (script 6) and a healthy sibling y
								c.Do(fmt.Sprintf("script 5 launch:spawn.n.6.%d.6.0,spawn.y.3.0.-.0", kindN))
								c.Do("script 6 launch:spawn.w.2.0.-.0,spawn.s.3.0.-.0")
							}
							if site == "user" {
								c.Do("script 2 launch:spawn.g.4.0.-.0;u2:panic;u1:tell.parent.1")
							} else {
								c.Do("script 2 launch:spawn.g.4.0.-.0;u3:kill.c:g;okilled:panic;u1:tell.parent.1")
							}
							c.Do("script 3 u1:tell.parent.1")
							c.Do("script 4 u1:tell.parent.1")
							c.Do(fmt.Sprintf("spawn t 1 %d %s 0", kindT, decT))
							e.drain(c, 80)
							base := "/t/m"
							if depth == 2 {
								base = "/t/m/n"
							}
							all := []string{"/t", "/t/x", "/t/m", base + "/w", base + "/s", base + "/w/g"}
							if depth == 2 {
								all = append(all, "/t/m/n", "/t/m/y")
							}
							c.Do("tell p:" + base + "/w 1")
							if site == "user" {
								c.Do("tell p:" + base + "/w 2")
							} else {
								c.Do("tell p:" + base + "/w 3")
							}
							c.Do("tell p:" + base + "/w 1")
							c.Do("tell p:" + base + "/s 1")
							e.drain(c, 400)
							// a second failure of the same worker (if it survived): decision lists with two entries
							if len(decT) == 2 {
								if site == "user" {
									c.Do("tell p:" + base + "/w 2")
								} else {
									c.Do("tell p:" + base + "/w 3")
								}
								e.drain(c, 400)
							}
							// probes after quiescence: whoever is alive must process them (parked mail is reported by `check`)
							for _, p := range all {
								c.Do("tell p:" + p + " 1")
							}
							e.drain(c, 400)
							c.Do("check")
							c.R.Nontrivial()
							c.R.Hit(fmt.Sprintf("escal:dec%s:kindT%d:kindM%d:depth%d:%s", decT, kindT, kindM, depth, site))
							c.R.Hit(fmt.Sprintf("escal:kindM%d:depth%d", kindM, depth))
						}
					}
				}
			}
		}
	}
}

// stashScenarios: messages parked in the stash while the actor fails and its supervisor decides
// (every decision, with and without provider / failing restart hook), is killed, or is poisoned;
// afterwards the survivor unstashes (C03: a stashed message stays in the stash or is processed or
// dead-lettered — it never vanishes; C09: queued mail survives a restart).
func (e *asEngine) stashScenarios(c *Ctx) {
	reps := 1
	if c.Thorough() {
		reps = 5
	}
	for rep := 0; rep < reps; rep++ {
		for _, dec := range []string{"1", "2", "3", "4", "5", "6", "7", "k", "p"} {
			for _, hooks := range []int{0, 1, 2, 4, 8, 32} {
				if hooks != 0 && dec != "1" && dec != "2" {
					continue
				}
				must := c.Rng.Intn(4)                               // every (decision, hooks) cell is exercised at least once, whatever the seed
				for hi, how := range []string{"0", "1", "2", "3"} { // unstash argument afterwards
					if !c.Thorough() && hi != must && c.Rng.Chance(1, 3) {
						continue
					}
					sup := dec
					if dec == "k" || dec == "p" {
						sup = "1"
					}
					c.Case("reset 1")
					c.Do(fmt.Sprintf("script 1 launch:spawn.w.2.0.-.%d", hooks))
					// worker: u1 stashes itself, u2 fails, u3 unstashes, u4 is an ordinary message
					c.Do(fmt.Sprintf("script 2 u1:stash;u2:panic;u3:unstash.%s;u4:tell.parent.1", how))
					c.Do(fmt.Sprintf("spawn p 1 1 %s 0", sup))
					e.drain(c, 40)
					n := 1 + c.Rng.Intn(3)
					for i := 0; i < n; i++ {
						c.Do("tell p:/p/w 1")
					}
					e.drain(c, 40)
					c.Do("tell p:/p/w 4")
					switch dec {
					case "k":
						c.Do("kill p:/p/w 0")
					case "p":
						c.Do("kill p:/p/w 1")
					default:
						c.Do("tell p:/p/w 2")
					}
					c.Do("tell p:/p/w 4")
					e.drain(c, 200)
					// whoever survived unstashes (twice: `unstash.1` releases one message per call)
					c.Do("tell p:/p/w 3")
					c.Do("tell p:/p/w 3")
					e.drain(c, 200)
					c.Do("check")
					c.R.Nontrivial()
					c.R.Hit(fmt.Sprintf("stash:dec%s:hooks%d", dec, hooks))
				}
			}
		}
	}
}

// killVsDirective: a supervisor is killed while the failure report of its child is still waiting in its mailbox,
// and the failing child has a child of its own, so that it does not finish stopping (or restarting) within one
// handler run: the Kill and the supervisor's directive overlap on it, in both orders (C06: a killed actor and all
// its descendants terminate; C09: nobody is left half-stopped; a kill wins over a restart in progress).
func (e *asEngine) killVsDirective(c *Ctx) {
	reps := 1
	if c.Thorough() {
		reps = 6
	}
	for rep := 0; rep < reps; rep++ {
		for _, dec := range []string{"1", "2", "3", "4", "5", "6"} {
			for _, order := range []string{"kill-first", "directive-first"} {
				for _, poison := range []string{"0", "1"} {
					for _, hooks := range []int{0, 2, 4} {
						if hooks != 0 && dec != "1" && dec != "2" {
							continue
						}
						kindP := 1 + c.Rng.Intn(2)
						c.Case("reset 1")
						c.Do(fmt.Sprintf("script 1 launch:spawn.c.2.0.-.%d,spawn.s.3.0.-.0;u1:tell.parent.1", hooks))
						c.Do("script 2 launch:spawn.g.3.0.-.0;u2:panic;u1:tell.parent.1")
						c.Do("script 3 u1:tell.parent.1")
						c.Do(fmt.Sprintf("spawn p 1 %d %s 0", kindP, dec)) // ctx 1; its children: c = 2, s = 3; g = 4
						c.Do("deliver 1")
						c.Do("deliver 2")
						c.Do("deliver 3")
						c.Do("deliver 4")
						if order == "kill-first" {
							c.Do("kill p:/p " + poison)
							c.Do("tell p:/p/c 2")
							c.Do("deliver 2") // the child fails: its report queues behind the kill (system kill) or before it (poison)
						} else {
							c.Do("tell p:/p/c 2")
							c.Do("deliver 2")
							c.Do("kill p:/p " + poison)
						}
						c.Do("tell p:/p/c 1") // mail queued behind the failure
						// the supervisor handles both, then the child handles whatever reached it, before its own child moves
						c.Do("deliver 1")
						c.Do("deliver 1")
						c.Do("deliver 2")
						c.Do("deliver 2")
						c.Do("deliver 2")
						e.drain(c, 400)
						for _, p := range []string{"/p", "/p/c", "/p/s", "/p/c/g"} {
							c.Do("tell p:" + p + " 1")
						}
						e.drain(c, 400)
						c.Do("check")
						c.R.Nontrivial()
						c.R.Hit("killvs:" + order)
						c.R.Hit("killvs:dec" + dec + ":" + order)
					}
				}
			}
		}
	}
}

// stoppingSupervisor: a child fails under a supervisor that is already stopping (killed or poisoned while the child
// was busy with the message that makes it fail): whatever the strategy says — escalate above all, whose answer the
// stopping supervisor would ignore — the child must not stay paused in front of the pill and the supervisor must
// finish stopping (C09 never half-stopped, C06 the whole subtree terminates).
func (e *asEngine) stoppingSupervisor(c *Ctx) {
	reps := 1
	if c.Thorough() {
		reps = 4
	}
	for rep := 0; rep < reps; rep++ {
		for _, dec := range []string{"1", "2", "3", "4", "5", "6"} {
			for _, poison := range []string{"0", "1"} {
				for _, depth := range []int{1, 2} {
					kind := 1 + c.Rng.Intn(2)
					c.Case("reset 1")
					if depth == 1 {
						c.Do("script 1 launch:spawn.k.2.0.-.0,spawn.s.3.0.-.0;u1:tell.parent.1")
					} else {
						// the failing actor's own supervisor escalates to the stopping one
						c.Do("script 1 launch:spawn.m.4.1.6.0,spawn.s.3.0.-.0;u1:tell.parent.1")
						c.Do("script 4 launch:spawn.k.2.0.-.0;u1:tell.parent.1")
					}
					c.Do("script 2 u2:panic;u1:tell.parent.1")
					c.Do("script 3 u1:tell.parent.1")
					c.Do(fmt.Sprintf("spawn p 1 %d %s 0", kind, dec))
					e.drain(c, 100)
					k := "/p/k"
					if depth == 2 {
						k = "/p/m/k"
					}
					c.Do("tell p:" + k + " 2")  // the message that will make it fail is queued first ...
					c.Do("kill p:/p " + poison) // ... then its (grand)parent is told to stop
					c.Do("deliver 1")           // the supervisor starts stopping and hands the kill down
					if depth == 2 {
						c.Do("deliver 2")
					}
					c.Do("tell p:" + k + " 1")
					e.drain(c, 400)
					for _, p := range []string{"/p", k, "/p/s"} {
						c.Do("tell p:" + p + " 1")
					}
					e.drain(c, 400)
					c.Do("check")
					c.R.Nontrivial()
					c.R.Hit(fmt.Sprintf("stopping-supervisor:dec%s:poison%s", dec, poison))
				}
			}
		}
	}
}

// zombieSibling: a one-for-all supervisor whose first restart turns one child into a zombie (its restart hook fails);
// a sibling fails again and the next decision — every one of them — reaches the zombie as well: it must go on
// consuming its mail (C09, C03: never paused for good), run no user code, and go with its parent.
func (e *asEngine) zombieSibling(c *Ctx) {
	reps := 1
	if c.Thorough() {
		reps = 5
	}
	for rep := 0; rep < reps; rep++ {
		for _, dec := range []string{"1", "2", "3", "4", "5", "6"} {
			for _, hooks := range []int{2, 4} {
				c.Case("reset 1")
				c.Do(fmt.Sprintf("script 1 launch:spawn.a.2.0.-.%d,spawn.b.2.0.-.0,spawn.c.2.0.-.0;u1:tell.parent.1", hooks))
				c.Do("script 2 u2:panic;u1:tell.parent.1")
				c.Do(fmt.Sprintf("spawn p 1 2 1%s 0", dec)) // one-for-all: first decision Restart, second `dec`
				e.drain(c, 100)
				c.Do("tell p:/p/a 2") // a fails: everybody is restarted, a's hook fails: zombie
				e.drain(c, 300)
				c.Do("tell p:/p/a 1")
				c.Do("tell p:/p/b 2") // b fails: the second decision reaches the zombie too
				c.Do("tell p:/p/a 1")
				e.drain(c, 300)
				for _, p := range []string{"/p/a", "/p/a", "/p/b", "/p/c", "/p"} {
					c.Do("tell p:" + p + " 1")
				}
				e.drain(c, 300)
				c.Do("check")
				if rep%2 == 1 {
					c.Do("kill p:/p 0") // the zombie goes with its parent
					e.drain(c, 300)
					c.Do("check")
				}
				c.R.Nontrivial()
				c.R.Hit("zombie-sibling:dec" + dec)
			}
		}
	}
}

// eventStreamScenarios: three subscribers driven through random sequences of Subscribe / Unsubscribe /
// UnsubscribeAll / Publish for three event types, with a kill and a supervised restart in between (C19).
func (e *asEngine) eventStreamScenarios(c *Ctx) {
	n := 60
	if c.Thorough() {
		n = 3000
	}
	for i := 0; i < n; i++ {
		c.Case("reset 1")
		c.Do("script 1 u1:sub.0;u2:sub.1;u3:sub.2;u4:unsub.0;u5:unsub.1;u6:unsub.2;u7:unsuball;u8:pub.0;u9:pub.1;u10:pub.2;u11:panic;e0:;e1:;e2:")
		c.Do("script 2 launch:spawn.x.1.0.-.0,spawn.y.1.0.-.0,spawn.z.1.0.-.0")
		c.Do("spawn p 2 1 1 0") // supervisor: one-for-one, restart
		e.drain(c, 30)
		steps := 8 + c.Rng.Intn(25)
		for s := 0; s < steps; s++ {
			who := []string{"x", "y", "z"}[c.Rng.Intn(3)]
			switch x := c.Rng.Intn(40); {
			case x == 0:
				c.Do("kill p:/p/" + who + " 0")
			case x == 1:
				c.Do("tell p:/p/" + who + " 11") // fails -> restarted by /p; subscriptions must survive
			default:
				c.Do(fmt.Sprintf("tell p:/p/%s %d", who, 1+c.Rng.Intn(10)))
			}
			if c.Rng.Chance(2, 3) {
				e.drain(c, 3)
			}
		}
		e.drain(c, 200)
		c.Do("check")
		c.R.Nontrivial()
		c.R.Hit("es-scenario")
	}
}

// schedulerScenarios: Once / Loop / Cron / Cancel / Clear with shared and reused references on
// three actors, with kills and supervised restarts in between; delays are an hour, so the
// lock-step compares the registries (per-actor references and the shared job queue), not firing (C20).
func (e *asEngine) schedulerScenarios(c *Ctx) {
	n := 40
	if c.Thorough() {
		n = 2000
	}
	for i := 0; i < n; i++ {
		c.Case("reset 1")
		c.Do("script 1 u1:once.r1.1;u2:loop.r1.1;u3:once.r2.1;u4:loop.r2.1;u5:cancel.r1;u6:cancel.r2;u7:sclear;u8:cron.1.r3;u9:cron.0.r3;u10:cancel.r3;u11:panic;u12:once.x:y.1;u13:once.x:x:y.1")
		c.Do("script 2 launch:spawn.x.1.0.-.0,spawn.y.1.0.-.0,spawn.x:x.1.0.-.0")
		c.Do("spawn p 2 1 1 0")
		e.drain(c, 30)
		steps := 8 + c.Rng.Intn(25)
		for s := 0; s < steps; s++ {
			who := []string{"x", "y", "x:x"}[c.Rng.Intn(3)]
			switch x := c.Rng.Intn(30); {
			case x == 0:
				c.Do("kill p:/p/" + who + " 0")
			case x == 1:
				c.Do("tell p:/p/" + who + " 11")
			default:
				c.Do(fmt.Sprintf("tell p:/p/%s %d", who, 1+c.Rng.Intn(13)))
			}
			if c.Rng.Chance(2, 3) {
				e.drain(c, 3)
			}
		}
		e.drain(c, 200)
		c.Do("check")
		c.R.Nontrivial()
		c.R.Hit("sched-scenario")
	}
	// jobs of actors that have children, and jobs registered while the owner is already stopping (in its
	// OnKill handler, on the death notice of a child, in its own final OnKilled): killed / poisoned /
	// stopped by the supervisor / restarted — nothing may survive the owner (C20, C06)
	reps := 1
	if c.Thorough() {
		reps = 8
	}
	for rep := 0; rep < reps; rep++ {
		for _, when := range []string{"running", "kill", "okilled", "killed"} {
			for _, how := range []string{"kill", "poison", "fail-stop", "fail-restart"} {
				for _, kids := range []int{0, 1, 2} {
					if when == "okilled" && kids == 0 {
						continue
					}
					c.Case("reset 1")
					var rules []string
					if kids > 0 {
						launch := "spawn.k0.3.0.-.0"
						if kids > 1 {
							launch += ",spawn.k1.3.0.-.0"
						}
						rules = append(rules, "launch:"+launch)
					}
					arm := "once.a.1,loop.b.1"
					switch when {
					case "running":
						rules = append(rules, "u1:"+arm)
					default:
						rules = append(rules, when+":"+arm, "u1:loop.c.1")
					}
					rules = append(rules, "u2:panic")
					c.Do("script 1 " + strings.Join(rules, ";"))
					c.Do("script 3 u1:once.z.1")
					dec := "3"
					if how == "fail-restart" {
						dec = "1"
					}
					c.Do("script 2 launch:spawn.o.1.0.-.0")
					c.Do("spawn p 2 1 " + dec + " 0")
					e.drain(c, 60)
					c.Do("tell p:/p/o 1")
					if kids > 0 {
						c.Do("tell p:/p/o/k0 1")
					}
					e.drain(c, 60)
					switch how {
					case "kill":
						c.Do("kill p:/p/o 0")
					case "poison":
						c.Do("kill p:/p/o 1")
					default:
						c.Do("tell p:/p/o 2")
					}
					e.drain(c, 300)
					c.Do("check")
					c.R.Nontrivial()
					c.R.Hit("sched-owner:" + when + ":" + how)
				}
			}
		}
	}
}
