package engines

import (
	"context"
	"encoding/binary"
	"fmt"
	"io"
	"net"
	"strings"
	"sync"
	"sync/atomic"
	"time"

	"github.com/kercylan98/vivid"
	"github.com/kercylan98/vivid/internal/actor"
	"github.com/kercylan98/vivid/internal/messages"
	"github.com/kercylan98/vivid/internal/remoting/serialize"
	"github.com/kercylan98/vivid/pkg/log"
)

// Engine remote: the real sending side (actor.System with remoting, remoting.Mailbox.Enqueue and
// its retry loop) against a fake peer owned by the harness, which accepts or refuses, plays the
// server side of the handshake, records the frames and cuts the connection where told (C14).
// Monitor only (runtime behaviour): one-sided assertions.
type remoteEngine struct{}

func init() { Register("remote", func() Engine { return &remoteEngine{} }) }

func (*remoteEngine) Name() string { return "remote" }

type fakePeer struct {
	ln       net.Listener
	mu       sync.Mutex
	got      []int64 // sequence numbers of decodable frames, in arrival order
	conns    int
	cutAfter int // close (RST) the n-th connection after this many bytes of frames; 0 = never
	cutConn  int
	partial  int // frames cut in the middle
	live     []net.Conn
	stall    bool // stop reading after the first complete frame (the peer is alive but does not drain its socket)
}

// finAll closes every connection the peer holds in an orderly way (FIN), as a process that exits
// or a peer that restarts does.
func (p *fakePeer) finAll() {
	p.mu.Lock()
	cs := p.live
	p.live = nil
	p.mu.Unlock()
	for _, c := range cs {
		c.Close()
	}
}

// resetAll resets (RST) every connection the peer holds.
func (p *fakePeer) resetAll() {
	p.mu.Lock()
	cs := p.live
	p.live = nil
	p.mu.Unlock()
	for _, c := range cs {
		if tc, ok := c.(*net.TCPConn); ok {
			tc.SetLinger(0)
		}
		c.Close()
	}
}

func newFakePeer(addr string) (*fakePeer, error) {
	ln, err := net.Listen("tcp", addr)
	if err != nil {
		return nil, err
	}
	p := &fakePeer{ln: ln}
	go p.serve()
	return p, nil
}

func (p *fakePeer) serve() {
	for {
		c, err := p.ln.Accept()
		if err != nil {
			return
		}
		p.mu.Lock()
		p.conns++
		n := p.conns
		p.live = append(p.live, c)
		p.mu.Unlock()
		go p.handle(c, n)
	}
}

func (p *fakePeer) handle(c net.Conn, n int) {
	defer c.Close()
	// handshake: client sends its advertise address (4-byte length + bytes); reply with ours
	hdr := make([]byte, 4)
	if _, err := io.ReadFull(c, hdr); err != nil {
		return
	}
	name := make([]byte, binary.BigEndian.Uint32(hdr))
	if _, err := io.ReadFull(c, name); err != nil {
		return
	}
	w := messages.NewWriter()
	w.WriteString(p.ln.Addr().String())
	if _, err := c.Write(w.Bytes()); err != nil {
		return
	}
	read := 0
	limit := -1
	p.mu.Lock()
	if p.cutConn == n && p.cutAfter > 0 {
		limit = p.cutAfter
	}
	p.mu.Unlock()
	readN := func(buf []byte) bool {
		for off := 0; off < len(buf); {
			want := len(buf) - off
			if limit >= 0 && read+want > limit {
				want = limit - read
			}
			if want > 0 {
				k, err := c.Read(buf[off : off+want])
				read += k
				off += k
				if err != nil {
					return false
				}
			}
			if limit >= 0 && read >= limit && off < len(buf) {
				if tc, ok := c.(*net.TCPConn); ok {
					tc.SetLinger(0) // RST: the sender's next write fails
				}
				c.Close()
				return false
			}
		}
		return true
	}
	for {
		if !readN(hdr) {
			return
		}
		l := binary.BigEndian.Uint32(hdr)
		if l == 0 {
			return
		}
		body := make([]byte, l)
		if !readN(body) {
			p.mu.Lock()
			p.partial++
			p.mu.Unlock()
			return
		}
		_, _, _, _, _, m, err := serialize.DecodeEnvelopWithRemoting(fbCodec{}, body)
		if err == nil {
			if x, ok := m.(*fbMsg); ok {
				p.mu.Lock()
				p.got = append(p.got, x.Seq)
				p.mu.Unlock()
			}
		}
		p.mu.Lock()
		st := p.stall
		p.mu.Unlock()
		if st {
			// keep the connection open without reading: the sender's socket buffer fills up
			time.Sleep(4 * time.Second)
			return
		}
		if limit >= 0 && read >= limit {
			if tc, ok := c.(*net.TCPConn); ok {
				tc.SetLinger(0)
			}
			return
		}
	}
}

func (p *fakePeer) snapshot() []int64 {
	p.mu.Lock()
	defer p.mu.Unlock()
	return append([]int64(nil), p.got...)
}

var remotePort int32 = 19850

type rmLogger struct {
	mu   sync.Mutex
	dead []int64
}

func (l *rmLogger) Debug(string, ...any) {}
func (l *rmLogger) Info(string, ...any)  {}
func (l *rmLogger) Error(string, ...any) {}
func (l *rmLogger) Warn(m string, a ...any) {
	if m == "death letter received" {
		if x, ok := attr(a, "message").(*fbMsg); ok {
			l.mu.Lock()
			l.dead = append(l.dead, x.Seq)
			l.mu.Unlock()
		}
	}
}
func (l *rmLogger) With(...any) log.Logger      { return l }
func (l *rmLogger) WithGroup(string) log.Logger { return l }
func (l *rmLogger) deadSeqs() []int64 {
	l.mu.Lock()
	defer l.mu.Unlock()
	return append([]int64(nil), l.dead...)
}

func subsequenceNoDup(got []int64, n int) string {
	last := int64(-1)
	for _, x := range got {
		if x <= last {
			return fmt.Sprintf("received %v: not a duplicate-free, in-order subsequence of 0..%d", got, n-1)
		}
		last = x
	}
	return ""
}

var rmDetail string

// rmScenario returns (violation, known-finding-observation).
func rmScenario(name string) (string, string) {
	base := int(atomic.AddInt32(&remotePort, 2))
	sysAddr, peerAddr := fmt.Sprintf("127.0.0.1:%d", base), fmt.Sprintf("127.0.0.1:%d", base+1)
	limit := 1
	if strings.HasSuffix(name, "-limit0") {
		limit = 0
	}
	lg := &rmLogger{}
	ctx, cancel := context.WithCancel(context.Background())
	defer cancel()
	sys := actor.NewSystem(vivid.WithActorSystemContext(ctx), vivid.WithActorSystemLogger(lg), vivid.WithActorSystemRemoting(sysAddr),
		vivid.WithActorSystemCodec(fbCodec{}), vivid.WithActorSystemRemotingOption(vivid.WithActorSystemRemotingReconnectLimit(limit)))
	if err := sys.Start(); err != nil {
		return "", ""
	}
	defer func() { go sys.Stop(time.Second) }()
	target, _ := sys.CreateRef(peerAddr, "/sink")
	tell := func(seq int64) time.Duration {
		t0 := time.Now()
		sys.Tell(target, &fbMsg{Seq: seq, Pad: []byte{byte(seq)}})
		return time.Since(t0)
	}
	switch {
	case strings.HasPrefix(name, "flood"):
		// nothing listens and several goroutines keep telling while the backlog is being failed: every
		// message must be reported as a dead letter exactly once — none missing, none twice
		const senders, per = 4, 25000
		var wg sync.WaitGroup
		for g := 0; g < senders; g++ {
			wg.Add(1)
			go func(g int) {
				defer wg.Done()
				for i := 0; i < per; i++ {
					tell(int64(g*per + i))
					if i%512 == 511 {
						time.Sleep(200 * time.Microsecond) // keep telling while earlier backlogs are being failed
					}
				}
			}(g)
		}
		wg.Wait()
		last, stable := -1, 0
		for w := time.Now().Add(8 * time.Second); time.Now().Before(w) && stable < 10; {
			time.Sleep(30 * time.Millisecond)
			if n := len(lg.deadSeqs()); n == last {
				stable++
			} else {
				last, stable = n, 0
			}
		}
		seen := map[int64]int{}
		for _, q := range lg.deadSeqs() {
			seen[q]++
		}
		missing, twice, firstMissing, firstTwice := 0, 0, int64(-1), int64(-1)
		for q := int64(0); q < senders*per; q++ {
			switch n := seen[q]; {
			case n == 0:
				if missing++; firstMissing < 0 {
					firstMissing = q
				}
			case n > 1:
				if twice++; firstTwice < 0 {
					firstTwice = q
				}
			}
		}
		rmDetail = fmt.Sprintf("dead=%d missing=%d twice=%d", len(lg.deadSeqs()), missing, twice)
		if missing > 0 || twice > 0 {
			return fmt.Sprintf("DEAD-LETTER: %d goroutines told %d messages to an unreachable peer (ReconnectLimit=%d): %d never reported as dead letter (first #%d), %d reported more than once (first #%d)", senders, senders*per, limit, missing, firstMissing, twice, firstTwice), ""
		}
		return "", ""
	case strings.HasPrefix(name, "refused"):
		// nothing listens: every message must end as exactly one dead letter; the next one is attempted normally
		var worst time.Duration
		for i := int64(0); i < 3; i++ {
			if d := tell(i); d > worst {
				worst = d
			}
		}
		for w := time.Now().Add(2 * time.Second); time.Now().Before(w) && len(lg.deadSeqs()) < 3; {
			time.Sleep(5 * time.Millisecond)
		}
		time.Sleep(50 * time.Millisecond)
		d := lg.deadSeqs()
		rmDetail = fmt.Sprintf("dead=%v worst=%v", d, worst.Round(10*time.Millisecond))
		if len(d) != 3 || subsequenceNoDup(d, 3) != "" {
			return fmt.Sprintf("DEAD-LETTER: 3 messages to an unreachable peer (ReconnectLimit=%d) produced dead letters %v, expected exactly one each", limit, d), ""
		}
		known := ""
		if worst > 50*time.Millisecond {
			known = fmt.Sprintf("TELL-BLOCKS: Tell to an unreachable peer blocked the caller for %v (the reconnect back-off runs in the caller's goroutine under the connection lock)", worst.Round(time.Millisecond))
		}
		return "", known
	case strings.HasPrefix(name, "recover"):
		// peer unreachable, then it appears: later messages are delivered
		tell(0)
		for w := time.Now().Add(2 * time.Second); time.Now().Before(w) && len(lg.deadSeqs()) == 0; {
			time.Sleep(5 * time.Millisecond) // sending is asynchronous: wait until message 0 has used up its budget
		}
		p, err := newFakePeer(peerAddr)
		if err != nil {
			return "", ""
		}
		defer p.ln.Close()
		tell(1)
		tell(2)
		time.Sleep(200 * time.Millisecond)
		got := p.snapshot()
		rmDetail = fmt.Sprintf("got=%v dead=%v conns=%d", got, lg.deadSeqs(), p.conns)
		if v := subsequenceNoDup(got, 3); v != "" {
			return "RECOVER: " + v, ""
		}
		if len(got) != 2 || got[0] != 1 {
			return fmt.Sprintf("RECOVER: once the peer was reachable again, messages 1 and 2 should have been delivered; the peer received %v (dead letters %v)", got, lg.deadSeqs()), ""
		}
	case strings.HasPrefix(name, "stall"):
		// established connection, then the peer stops draining its socket and finally resets it: every Tell must
		// still return at once (the caller is typically an actor's own goroutine)
		p, err := newFakePeer(peerAddr)
		if err != nil {
			return "", ""
		}
		defer p.ln.Close()
		p.mu.Lock()
		p.stall = true
		p.mu.Unlock()
		tell(0)
		time.Sleep(100 * time.Millisecond)
		var worst time.Duration
		big := make([]byte, 1<<20)
		for i := int64(1); i <= 40; i++ {
			t0 := time.Now()
			sys.Tell(target, &fbMsg{Seq: i, Pad: big})
			if d := time.Since(t0); d > worst {
				worst = d
			}
		}
		p.resetAll()
		p.ln.Close()
		for i := int64(41); i <= 44; i++ {
			t0 := time.Now()
			sys.Tell(target, &fbMsg{Seq: i, Pad: []byte{1}})
			if d := time.Since(t0); d > worst {
				worst = d
			}
			time.Sleep(5 * time.Millisecond)
		}
		rmDetail = fmt.Sprintf("worst=%v", worst.Round(time.Millisecond))
		if worst > 100*time.Millisecond {
			return fmt.Sprintf("TELL-BLOCKS: Tell over an established connection whose peer stalled and was then reset blocked the caller for %v (writes and reconnect back-off must not run in the caller's goroutine)", worst.Round(time.Millisecond)), ""
		}
	case strings.HasPrefix(name, "cut"):
		// healthy connection, cut (RST) in the middle of / right after a frame; later messages reconnect
		p, err := newFakePeer(peerAddr)
		if err != nil {
			return "", ""
		}
		defer p.ln.Close()
		p.cutConn = 1
		switch {
		case strings.Contains(name, "mid"):
			p.cutAfter = 60 // inside the second frame's body
		case strings.Contains(name, "prefix"):
			p.cutAfter = 2 // inside the first length prefix
		default:
			p.cutAfter = 4 + 39 // hmm: exactly after the first frame is not known here; use a boundary-ish value
		}
		for i := int64(0); i < 6; i++ {
			tell(i)
			time.Sleep(30 * time.Millisecond)
		}
		time.Sleep(250 * time.Millisecond)
		got := p.snapshot()
		dead := lg.deadSeqs()
		rmDetail = fmt.Sprintf("got=%v dead=%v conns=%d partial=%d", got, dead, p.conns, p.partial)
		if v := subsequenceNoDup(got, 6); v != "" {
			return "CUT: " + v, ""
		}
		seen := map[int64]bool{}
		for _, x := range got {
			seen[x] = true
		}
		for _, x := range dead {
			if seen[x] {
				return fmt.Sprintf("CUT: message %d was both delivered and dead-lettered", x), ""
			}
		}
		// after the cut the peer is reachable: the tail must get through
		if len(got) == 0 || got[len(got)-1] != 5 {
			return fmt.Sprintf("CUT: the peer stayed reachable after the connection was reset, yet the last message was not delivered: received %v, dead letters %v (ReconnectLimit=%d)", got, dead, limit), ""
		}
		if limit >= 1 && len(dead) > 0 && p.conns >= 2 {
			return fmt.Sprintf("CUT: with ReconnectLimit=%d and a reachable peer, messages %v were dead-lettered instead of being re-sent on a new connection (received %v)", limit, dead, got), ""
		}
	}
	return "", ""
}

func (e *remoteEngine) Exec(line string) (string, string) {
	tk := strings.Fields(line)
	if len(tk) == 2 && tk[0] == "rm" {
		v, known := rmScenario(tk[1])
		obs := "# " + rmDetail
		_ = obs
		if v != "" {
			again := 0
			for i := 0; i < 2; i++ {
				if v2, _ := rmScenario(tk[1]); v2 != "" {
					again++
				}
			}
			if again == 2 {
				return "-", v
			}
			return "# " + rmDetail, known
		}
		return "# " + rmDetail, known
	}
	return "-", ""
}

func (e *remoteEngine) Generate(c *Ctx) {
	c.Guard = true // a fatal runtime error in the real code leaves the op in pending.txt
	for _, sc := range []string{"refused", "refused-limit0", "recover", "cut-mid", "cut-prefix", "cut-mid-limit0", "stall", "flood-limit0", "flood"} {
		c.Case("rm " + sc)
		c.R.Nontrivial()
		c.R.Hit("rm:" + sc)
	}
}

// Engine sendloop: the real send loop against the fake peer, op by op, in lock-step with the Lean
// model Vivid.SendLoop (ops: reset <limit> | up | down | break | tell <seq> | check).
type sendloopEngine struct {
	sys      *actor.System
	cancel   context.CancelFunc
	lg       *rmLogger
	peer     *fakePeer
	peerAddr string
	target   vivid.ActorRef
	dialsOff int
	got      []int64
	limit    int
}

func init() { Register("sendloop", func() Engine { return &sendloopEngine{} }) }

func (*sendloopEngine) Name() string { return "sendloop" }

func (e *sendloopEngine) teardown() {
	if e.peer != nil {
		e.peer.ln.Close()
		e.peer.resetAll()
		e.peer = nil
	}
	if e.sys != nil {
		sys := e.sys
		go sys.Stop(time.Second)
		e.cancel()
		e.sys = nil
	}
}

func (e *sendloopEngine) collect() {
	if e.peer != nil {
		e.got = append(e.got, e.peer.takeGot()...)
	}
}

func (p *fakePeer) takeGot() []int64 {
	p.mu.Lock()
	defer p.mu.Unlock()
	g := p.got
	p.got = nil
	return g
}

func fmtSeqs(l []int64) string {
	if len(l) == 0 {
		return "-"
	}
	var b []string
	for _, x := range l {
		b = append(b, fmt.Sprint(x))
	}
	return strings.Join(b, ",")
}

func (e *sendloopEngine) Exec(line string) (string, string) {
	tk := strings.Fields(line)
	if len(tk) == 0 {
		return "bad-op", ""
	}
	switch tk[0] {
	case "reset":
		if len(tk) != 2 {
			return "bad-op", ""
		}
		e.teardown()
		fmt.Sscan(tk[1], &e.limit)
		base := int(atomic.AddInt32(&remotePort, 2))
		sysAddr := fmt.Sprintf("127.0.0.1:%d", base)
		e.peerAddr = fmt.Sprintf("127.0.0.1:%d", base+1)
		e.lg = &rmLogger{}
		e.got, e.dialsOff = nil, 0
		ctx, cancel := context.WithCancel(context.Background())
		e.cancel = cancel
		e.sys = actor.NewSystem(vivid.WithActorSystemContext(ctx), vivid.WithActorSystemLogger(e.lg), vivid.WithActorSystemRemoting(sysAddr),
			vivid.WithActorSystemCodec(fbCodec{}), vivid.WithActorSystemRemotingOption(vivid.WithActorSystemRemotingReconnectLimit(e.limit)))
		if err := e.sys.Start(); err != nil {
			return "ok", "HARNESS: system did not start: " + err.Error()
		}
		e.target, _ = e.sys.CreateRef(e.peerAddr, "/sink")
		return "ok", ""
	case "up":
		if e.peer == nil {
			p, err := newFakePeer(e.peerAddr)
			if err != nil {
				return "ok", "HARNESS: listen: " + err.Error()
			}
			e.peer = p
		}
		return "ok", ""
	case "down":
		if e.peer != nil {
			e.collect()
			e.dialsOff += e.peer.conns
			e.peer.ln.Close()
			e.peer.resetAll()
			e.peer = nil
			time.Sleep(20 * time.Millisecond)
		}
		return "ok", ""
	case "break":
		if e.peer != nil {
			e.peer.resetAll()
			time.Sleep(20 * time.Millisecond)
		}
		return "ok", ""
	case "fin":
		if e.peer != nil {
			e.peer.finAll()
			time.Sleep(30 * time.Millisecond)
		}
		return "ok", ""
	case "tell":
		if len(tk) != 2 || e.sys == nil {
			return "bad-op", ""
		}
		var seq int64
		fmt.Sscan(tk[1], &seq)
		e.sys.Tell(e.target, &fbMsg{Seq: seq, Pad: []byte{byte(seq)}})
		// the dead letter goes through the guard actor; the frame through the loopback
		deadline := time.Now().Add(1500 * time.Millisecond)
		for time.Now().Before(deadline) {
			e.collect()
			if containsSeq(e.got, seq) || containsSeq(e.lg.deadSeqs(), seq) {
				break
			}
			time.Sleep(2 * time.Millisecond)
		}
		switch {
		case containsSeq(e.lg.deadSeqs(), seq) && containsSeq(e.got, seq):
			return "both", fmt.Sprintf("BOTH: message %d was delivered and dead-lettered", seq)
		case containsSeq(e.lg.deadSeqs(), seq):
			return "dead", ""
		case containsSeq(e.got, seq):
			return "sent", ""
		}
		return "lost", fmt.Sprintf("LOST: message %d was neither received by the (reset-only) peer nor dead-lettered", seq)
	case "check":
		time.Sleep(20 * time.Millisecond)
		e.collect()
		d := e.dialsOff
		if e.peer != nil {
			e.peer.mu.Lock()
			d += e.peer.conns
			e.peer.mu.Unlock()
		}
		v := subsequenceNoDup(e.got, 1<<30)
		if v != "" {
			v = "SUBSEQUENCE: " + v
		}
		return fmt.Sprintf("got=%s dead=%s dials=%d", fmtSeqs(e.got), fmtSeqs(e.lg.deadSeqs()), d), v
	}
	return "bad-op", ""
}

func containsSeq(l []int64, x int64) bool {
	for _, y := range l {
		if y == x {
			return true
		}
	}
	return false
}

func (e *sendloopEngine) Generate(c *Ctx) {
	defer e.teardown()
	emit := func(limit int, ops []string) {
		c.Case(fmt.Sprintf("reset %d", limit))
		seq := 0
		for _, o := range ops {
			if o == "tell" {
				c.Do(fmt.Sprintf("tell %d", seq))
				seq++
			} else {
				c.Do(o)
			}
			c.R.Hit("op:" + o)
		}
		c.Do("check")
		c.R.Nontrivial()
		c.R.Hit(fmt.Sprintf("limit:%d", limit))
	}
	// directed: every fault kind x budget
	for _, limit := range []int{0, 1, 2} {
		emit(limit, []string{"tell", "up", "tell", "tell"})
		emit(limit, []string{"up", "tell", "break", "tell", "tell", "tell"})
		emit(limit, []string{"up", "tell", "down", "tell", "up", "tell", "tell"})
		emit(limit, []string{"up", "tell", "break", "break", "tell", "down", "up", "tell"})
		emit(limit, []string{"up", "tell", "fin", "tell", "tell", "fin", "tell"})
	}
	n := 6
	if c.Tier == "thorough" {
		n = 40
	}
	kinds := []string{"tell", "tell", "tell", "up", "down", "break", "fin"}
	for i := 0; i < n; i++ {
		limit := c.Rng.Intn(3)
		var ops []string
		for j, m := 0, 4+c.Rng.Intn(6); j < m; j++ {
			o := kinds[c.Rng.Intn(len(kinds))]
			ops = append(ops, o)
		}
		emit(limit, ops)
	}
}
