package engines

import (
	"context"
	"fmt"
	"strings"
	"sync"
	"time"

	"github.com/kercylan98/vivid"
	"github.com/kercylan98/vivid/internal/actor"
	"github.com/kercylan98/vivid/pkg/log"
)

// Engine schedrt: real-time monitor of scheduled-message firing against go-quartz and the wall
// clock (C20). No model: one-sided, schedule-robust assertions; a failing scenario is re-run and
// reported only if it fails again.
type schedrtEngine struct{}

func init() { Register("schedrt", func() Engine { return &schedrtEngine{} }) }

func (*schedrtEngine) Name() string { return "schedrt" }

type rtLogger struct {
	mu   sync.Mutex
	dead int
}

func (l *rtLogger) Debug(string, ...any) {}
func (l *rtLogger) Info(string, ...any)  {}
func (l *rtLogger) Error(string, ...any) {}
func (l *rtLogger) Warn(m string, a ...any) {
	if m == "death letter received" {
		l.mu.Lock()
		l.dead++
		l.mu.Unlock()
	}
}
func (l *rtLogger) With(...any) log.Logger      { return l }
func (l *rtLogger) WithGroup(string) log.Logger { return l }
func (l *rtLogger) deadLetters() int            { l.mu.Lock(); defer l.mu.Unlock(); return l.dead }

type rtTick struct{ V int }

const rtUnit = 40 * time.Millisecond

// rtScenario runs one named scenario and returns "" or a violation.
func rtScenario(name string) string {
	lg := &rtLogger{}
	ctx, cancel := context.WithCancel(context.Background())
	defer cancel()
	restart := vivid.OneForOneStrategy(vivid.SupervisionStrategyDecisionMakerFN(func(vivid.SupervisionContext) (vivid.SupervisionDecision, string) {
		return vivid.SupervisionDecisionRestart, "rt"
	}))
	sys := actor.NewSystem(vivid.WithActorSystemContext(ctx), vivid.WithActorSystemLogger(lg), vivid.WithActorSystemSupervisionStrategy(restart))
	if err := sys.Start(); err != nil {
		return "start: " + err.Error()
	}
	var mu sync.Mutex
	var got []time.Duration
	var vals []int
	t0 := time.Now()
	ready := make(chan vivid.ActorContext, 4)
	errs := make(chan error, 8)
	ref, err := sys.ActorOf(vivid.ActorFN(func(c vivid.ActorContext) {
		switch m := c.Message().(type) {
		case *vivid.OnLaunch:
			select {
			case ready <- c:
			default:
			}
		case *rtTick:
			mu.Lock()
			got = append(got, time.Since(t0))
			vals = append(vals, m.V)
			mu.Unlock()
		case string:
			switch m {
			case "once3":
				t0 = time.Now()
				errs <- c.Scheduler().Once(c.Ref(), 3*rtUnit, &rtTick{7}, vivid.WithSchedulerReference("r"))
			case "loop2":
				t0 = time.Now()
				errs <- c.Scheduler().Loop(c.Ref(), 2*rtUnit, &rtTick{9}, vivid.WithSchedulerReference("r"))
			case "mixed":
				// four short one-shots (they fire and leave their references behind) interleaved with four loops
				t0 = time.Now()
				var first error
				for i := 0; i < 4; i++ {
					if err := c.Scheduler().Once(c.Ref(), rtUnit, &rtTick{100 + i}, vivid.WithSchedulerReference(fmt.Sprintf("o%d", i))); err != nil && first == nil {
						first = err
					}
					if err := c.Scheduler().Loop(c.Ref(), 2*rtUnit, &rtTick{200 + i}, vivid.WithSchedulerReference(fmt.Sprintf("l%d", i))); err != nil && first == nil {
						first = err
					}
				}
				errs <- first
			case "clear":
				c.Scheduler().Clear()
				errs <- nil
			case "cancel":
				errs <- c.Scheduler().Cancel("r")
			case "cancel-unknown":
				errs <- c.Scheduler().Cancel("never-scheduled")
			case "cron-bad":
				errs <- c.Scheduler().Cron(c.Ref(), "definitely not cron", &rtTick{1}, vivid.WithSchedulerReference("c"))
			case "exists-c":
				if c.Scheduler().Exists("c") {
					errs <- fmt.Errorf("exists")
				} else {
					errs <- nil
				}
			case "busy-once":
				// a one-shot to itself that fires while this very handler is still busy
				t0 = time.Now()
				errs <- c.Scheduler().Once(c.Ref(), rtUnit, &rtTick{55}, vivid.WithSchedulerReference("b"))
				time.Sleep(4 * rtUnit)
			case "note-a", "note-b":
				mu.Lock()
				vals = append(vals, -int(m[len(m)-1]-'a')-1)
				mu.Unlock()
			case "boom":
				panic("rt scripted failure")
			}
		}
	}), vivid.WithActorName("w"))
	if err != nil {
		return "spawn: " + err.Error()
	}
	<-ready
	count := func() int { mu.Lock(); defer mu.Unlock(); return len(got) }
	wait := func(units float64) { time.Sleep(time.Duration(units * float64(rtUnit))) }
	sendWait := func(m string) error { sys.Tell(ref, m); return <-errs }
	defer sys.Stop(time.Second)
	switch name {
	case "once":
		if err := sendWait("once3"); err != nil {
			return "Once returned " + err.Error()
		}
		wait(9)
		mu.Lock()
		defer mu.Unlock()
		if len(got) != 1 {
			return fmt.Sprintf("ONCE: Once(3 units) delivered %d times within 9 units", len(got))
		}
		if got[0] < 3*rtUnit-5*time.Millisecond {
			return fmt.Sprintf("ONCE: delivered after %v, before the delay of %v", got[0], 3*rtUnit)
		}
		if vals[0] != 7 {
			return "ONCE: the delivered message is not the original value"
		}
	case "loop-cancel":
		if err := sendWait("loop2"); err != nil {
			return "Loop returned " + err.Error()
		}
		wait(7.5)
		if err := sendWait("cancel"); err != nil {
			return "Cancel returned " + err.Error()
		}
		wait(1)
		n := count()
		wait(6)
		if m := count(); m != n {
			return fmt.Sprintf("LOOP: %d deliveries arrived after Cancel had returned (+1 unit)", m-n)
		}
		if n < 2 || n > 5 {
			return fmt.Sprintf("LOOP: Loop(2 units) delivered %d times in 7.5 units (expected 3, tolerated 2..5)", n)
		}
	case "once-cancel":
		sendWait("once3")
		wait(1)
		if err := sendWait("cancel"); err != nil {
			return "Cancel returned " + err.Error()
		}
		wait(6)
		if n := count(); n != 0 {
			return fmt.Sprintf("CANCELLED: a cancelled Once still delivered %d time(s)", n)
		}
		if d := lg.deadLetters(); d != 0 {
			return fmt.Sprintf("CANCELLED: a cancelled Once produced %d dead letter(s)", d)
		}
	case "foreign-same-reference", "foreign-same-reference-killed":
		// w owns a pending one-shot under reference "r"; another actor schedules, under the same reference, a job whose
		// receiver is w, and that one fires first. References are per owner: w's own job must still be cancellable
		// (and must die with w).
		sendWait("once3") // value 7 after 3 units
		fready := make(chan error, 1)
		if _, err := sys.ActorOf(vivid.ActorFN(func(c vivid.ActorContext) {
			if _, ok := c.Message().(*vivid.OnLaunch); ok {
				fready <- c.Scheduler().Once(ref, rtUnit/2, &rtTick{77}, vivid.WithSchedulerReference("r"))
			}
		}), vivid.WithActorName("f")); err != nil {
			return "spawn f: " + err.Error()
		}
		if err := <-fready; err != nil {
			return "FOREIGN-REFERENCE: another actor could not schedule under a reference this actor also uses: " + err.Error()
		}
		wait(1.5)
		if n := count(); n != 1 {
			return fmt.Sprintf("FOREIGN-REFERENCE: the other actor's one-shot was delivered %d times after 1.5 units (expected once)", n)
		}
		if name == "foreign-same-reference" {
			if err := sendWait("cancel"); err != nil {
				return "FOREIGN-REFERENCE: Cancel of the actor's own pending job, after a job of another actor with the same reference was delivered to it, returned " + err.Error()
			}
		} else {
			sys.Kill(ref, false, "rt")
		}
		d := lg.deadLetters()
		wait(6)
		mu.Lock()
		seen := append([]int(nil), vals...)
		mu.Unlock()
		for _, v := range seen {
			if v == 7 {
				return fmt.Sprintf("FOREIGN-REFERENCE: the actor's own one-shot fired although it was cancelled (deliveries %v)", seen)
			}
		}
		if d2 := lg.deadLetters(); d2 != d {
			return fmt.Sprintf("FOREIGN-REFERENCE: %d dead letter(s) from a job that was cancelled / whose owner was killed", d2-d)
		}
	case "owner-killed":
		sendWait("loop2")
		wait(1)
		sys.Kill(ref, false, "rt")
		wait(2)
		n, d := count(), lg.deadLetters()
		wait(7)
		if m := count(); m != n {
			return fmt.Sprintf("OWNER-DEAD: %d deliveries after the owner was killed", m-n)
		}
		if d2 := lg.deadLetters(); d2 != d {
			return fmt.Sprintf("OWNER-DEAD: %d dead letter(s) from jobs of a terminated actor", d2-d)
		}
	case "owner-restarted":
		sendWait("loop2")
		wait(3)
		sys.Tell(ref, "boom")
		wait(2)
		n, d := count(), lg.deadLetters()
		wait(7)
		if m := count(); m != n {
			return fmt.Sprintf("OWNER-RESTARTED: %d deliveries at or after firing instants later than the restart of the owner", m-n)
		}
		if d2 := lg.deadLetters(); d2 != d {
			return fmt.Sprintf("OWNER-RESTARTED: %d dead letter(s) from jobs of a restarted actor", d2-d)
		}
	case "fired-then-clear", "fired-then-killed", "fired-then-restarted":
		// history matters: one-shots that have already fired sit next to live loops when everything is cleared
		if err := sendWait("mixed"); err != nil {
			return "Once/Loop returned " + err.Error()
		}
		wait(3.5)
		if n := count(); n < 4 {
			return fmt.Sprintf("ONCE: four Once(1 unit) jobs delivered only %d message(s) in 3.5 units", n)
		}
		switch name {
		case "fired-then-clear":
			sendWait("clear")
		case "fired-then-killed":
			sys.Kill(ref, false, "rt")
		default:
			sys.Tell(ref, "boom")
		}
		wait(2)
		n, d := count(), lg.deadLetters()
		wait(7)
		if m := count(); m != n {
			return fmt.Sprintf("CLEARED: %d deliveries after every job of the actor was cleared (%s) — a fired one-shot's stale reference must not keep live jobs alive", m-n, name)
		}
		if d2 := lg.deadLetters(); d2 != d {
			return fmt.Sprintf("CLEARED: %d dead letter(s) from jobs that should have been cleared (%s)", d2-d, name)
		}
	case "through-mailbox":
		// delivery goes through the receiver's mailbox like any other message: a one-shot that fires while the actor
		// is busy queues up behind the user messages that were already waiting
		if err := sendWait("busy-once"); err != nil {
			return "Once returned " + err.Error()
		}
		sys.Tell(ref, "note-a") // both are in the mailbox well before the firing instant (1 unit)
		sys.Tell(ref, "note-b")
		wait(9)
		mu.Lock()
		defer mu.Unlock()
		if fmt.Sprint(vals) != "[-1 -2 55]" {
			return fmt.Sprintf("THROUGH-MAILBOX: two user messages were queued before a one-shot fired (the actor was busy all along); they were processed in the order %v (-1, -2: the user messages, 55: the scheduled message), expected [-1 -2 55]", vals)
		}
	case "cancel-unknown":
		err := sendWait("cancel-unknown")
		if err == nil || !strings.Contains(err.Error(), vivid.ErrorNotFound.GetMessage()) {
			return fmt.Sprintf("CANCEL-UNKNOWN: Cancel of an unknown reference returned %v, not not-found", err)
		}
	case "cron-invalid":
		if err := sendWait("cron-bad"); err == nil {
			return "CRON-INVALID: an invalid cron expression was accepted"
		}
		if err := sendWait("exists-c"); err != nil {
			return "CRON-INVALID: an invalid cron expression left a scheduled reference behind"
		}
	}
	return ""
}

func (e *schedrtEngine) Exec(line string) (string, string) {
	tk := strings.Fields(line)
	if len(tk) == 2 && tk[0] == "rt" {
		v := rtScenario(tk[1])
		if v != "" {
			// re-run in isolation twice: report only what reproduces
			again := 0
			for i := 0; i < 2; i++ {
				if rtScenario(tk[1]) != "" {
					again++
				}
			}
			if again == 2 {
				return "-", v
			}
			return "-", ""
		}
		return "-", ""
	}
	return "-", ""
}

func (e *schedrtEngine) Generate(c *Ctx) {
	reps := 1
	if c.Thorough() {
		reps = 5
	}
	for r := 0; r < reps; r++ {
		for _, sc := range []string{"once", "loop-cancel", "once-cancel", "owner-killed", "owner-restarted", "cancel-unknown", "cron-invalid", "fired-then-clear", "fired-then-killed", "fired-then-restarted", "through-mailbox", "foreign-same-reference", "foreign-same-reference-killed"} {
			c.Case("rt " + sc)
			c.R.Nontrivial()
			c.R.Hit("rt:" + sc)
		}
	}
}
