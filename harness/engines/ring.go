package engines

import (
	"fmt"
	"strconv"
	"strings"

	"github.com/kercylan98/vivid/internal/queues"
)

// Engine ring: queues.RingQueue through its public API (M1). The monitor is an independent
// slice FIFO kept by the harness.
type ringEngine struct {
	q      *queues.RingQueue
	oracle []int
}

func init() { Register("ring", func() Engine { return &ringEngine{q: queues.New(1)} }) }

func (*ringEngine) Name() string { return "ring" }

func showAny(v any) string {
	if v == nil {
		return "nil!"
	}
	return fmt.Sprint(v)
}

func (e *ringEngine) Exec(line string) (obs string, viol string) {
	defer func() {
		if r := recover(); r != nil {
			obs = "panic"
		}
	}()
	tk := strings.Fields(line)
	switch {
	case len(tk) == 2 && tk[0] == "new":
		n, err := strconv.ParseInt(tk[1], 10, 64)
		if err != nil {
			return "bad-op", ""
		}
		e.q = queues.New(n)
		e.oracle = nil
		return "ok", ""
	case len(tk) == 2 && tk[0] == "push":
		x, err := strconv.Atoi(tk[1])
		if err != nil {
			return "bad-op", ""
		}
		e.q.Push(x)
		e.oracle = append(e.oracle, x)
		if int(e.q.Length()) != len(e.oracle) {
			viol = fmt.Sprintf("Length()=%d after push, %d items are queued", e.q.Length(), len(e.oracle))
		}
		return fmt.Sprintf("ok len=%d", e.q.Length()), viol
	case len(tk) == 1 && tk[0] == "pop":
		v, ok := e.q.Pop()
		if !ok {
			if len(e.oracle) != 0 {
				viol = fmt.Sprintf("Pop reported empty with %d items queued (next %d)", len(e.oracle), e.oracle[0])
			}
			return fmt.Sprintf("empty len=%d", e.q.Length()), viol
		}
		if len(e.oracle) == 0 {
			viol = "Pop returned " + showAny(v) + " from an empty queue"
		} else {
			if want := e.oracle[0]; v != any(want) {
				viol = fmt.Sprintf("Pop returned %s, FIFO order requires %d", showAny(v), want)
			}
			e.oracle = e.oracle[1:]
		}
		return fmt.Sprintf("%s len=%d", showAny(v), e.q.Length()), viol
	case len(tk) == 2 && tk[0] == "popmany":
		k, err := strconv.ParseInt(tk[1], 10, 64)
		if err != nil || k < 0 {
			return "bad-op", ""
		}
		vs, ok := e.q.PopMany(k)
		if !ok {
			if len(e.oracle) != 0 {
				viol = "PopMany reported empty on a non-empty queue"
			}
			return fmt.Sprintf("empty len=%d", e.q.Length()), viol
		}
		var parts []string
		for i, v := range vs {
			parts = append(parts, showAny(v))
			if i >= len(e.oracle) || v != any(e.oracle[i]) {
				viol = fmt.Sprintf("PopMany item %d is %s, FIFO order differs", i, showAny(v))
			}
		}
		want := int(k)
		if want > len(e.oracle) {
			want = len(e.oracle)
		}
		if len(vs) != want {
			viol = fmt.Sprintf("PopMany(%d) returned %d items, %d expected", k, len(vs), want)
		}
		if len(vs) <= len(e.oracle) {
			e.oracle = e.oracle[len(vs):]
		}
		return fmt.Sprintf("[%s] len=%d", strings.Join(parts, ","), e.q.Length()), viol
	}
	return "bad-op", ""
}

func (e *ringEngine) Generate(c *Ctx) {
	// (0) the excluded point: New(0) cannot take a Push (integer divide by zero)
	c.Case("new 0")
	c.Do("push 1")
	c.R.Hit("new0-push:" + "panic")
	// (1) exhaustive push/pop sequences of length <= L from initial sizes 1..4
	L := 12
	L3 := 8
	if c.Thorough() {
		L, L3 = 15, 10
	}
	var rec func(ops []int, depth, max, arity int, size int)
	run := func(ops []int, size int) {
		c.Case(fmt.Sprintf("new %d", size))
		next := 1
		pushes := 0
		for _, o := range ops {
			switch o {
			case 0:
				c.Do(fmt.Sprintf("push %d", next))
				next++
				pushes++
			case 1:
				c.Do("pop")
			case 2:
				c.Do("popmany 2")
			}
		}
		if pushes >= size { // at least one growth
			c.R.Nontrivial()
			c.R.Hit("growth")
		}
	}
	rec = func(ops []int, depth, max, arity, size int) {
		if depth == max {
			run(ops, size)
			return
		}
		for o := 0; o < arity; o++ {
			rec(append(ops, o), depth+1, max, arity, size)
		}
	}
	for size := 1; size <= 4; size++ {
		rec(nil, 0, L, 2, size)
		rec(nil, 0, L3, 3, size)
	}
	// (2) random long runs from the mailbox's initial size, crossing many growth boundaries,
	// with drain phases so that head/tail wrap in every buffer size
	runs := 6
	steps := 20000
	if c.Thorough() {
		runs, steps = 40, 100000
	}
	for r := 0; r < runs; r++ {
		size := []int{256, 1, 2, 3, 5, 8, 256, 16}[r%8]
		c.Case(fmt.Sprintf("new %d", size))
		c.R.Nontrivial()
		next, qlen := 1, 0
		bias := 55 + c.Rng.Intn(20) // % pushes
		maxLen := 0
		for s := 0; s < steps; s++ {
			if s%5000 == 4999 && c.Rng.Bool() { // drain phase
				for qlen > c.Rng.Intn(4) {
					c.Do("pop")
					qlen--
				}
				continue
			}
			x := c.Rng.Intn(100)
			switch {
			case x < bias:
				c.Do(fmt.Sprintf("push %d", next))
				next++
				qlen++
			case x < 97:
				c.Do("pop")
				if qlen > 0 {
					qlen--
				}
			default:
				k := c.Rng.Intn(6)
				c.Do(fmt.Sprintf("popmany %d", k))
				if k > qlen {
					k = qlen
				}
				qlen -= k
			}
			if qlen > maxLen {
				maxLen = qlen
			}
		}
		g := 0
		for m := size; m <= maxLen; m *= 2 {
			g++
		}
		c.R.Hist["growth-boundaries-crossed"] += g
	}
}
