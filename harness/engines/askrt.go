package engines

// askrt: the ask-level clauses of C04 on a real actor system in real time (monitor only): every Ask
// completes exactly once with its own reply, a timeout, or — if the asking actor terminates first —
// an actor-dead error, promptly; afterwards nothing about it stays registered.
//
//	ask <scenario>     -> "-" (violations through the monitor channel)

import (
	"context"
	"fmt"
	"strings"
	"sync"
	"sync/atomic"
	"time"

	"github.com/kercylan98/vivid"
	"github.com/kercylan98/vivid/internal/actor"
	"github.com/kercylan98/vivid/internal/future"
	"github.com/kercylan98/vivid/internal/verifhook"
	"github.com/kercylan98/vivid/pkg/log"
)

type askrtEngine struct{}

func init() { Register("askrt", func() Engine { return &askrtEngine{} }) }

func (*askrtEngine) Name() string { return "askrt" }

type askQ struct{ N int }
type askGo struct {
	Holes  int // asks to an actor that never replies (long timeout)
	Echoes int // asks to an actor that replies at once
}

// askWindow: a waiter that arrives while a completion is in progress — the completer has claimed the
// future (closed flag set) but has not stored the result yet — must stay blocked until the result is
// there, and then return exactly that result. The completer is parked at the yield site between the
// claim and the write.
func askWindow(name string) string {
	f := future.NewFuture[vivid.Message](nil, 0, func() {})
	parked, release := make(chan struct{}), make(chan struct{})
	var once sync.Once
	verifhook.Install(func(site string, obj any) {
		if site == "fut.close.write" && obj == any(f) {
			once.Do(func() { close(parked) })
			<-release
		}
	})
	defer verifhook.Install(nil)
	wantErr := name == "wait-window"
	go func() {
		if wantErr {
			f.Close(vivid.ErrorFutureTimeout)
		} else {
			f.EnqueueMessage("reply-42")
		}
	}()
	select {
	case <-parked:
	case <-time.After(2 * time.Second):
		close(release)
		return "HARNESS: the completer never reached the yield site fut.close.write"
	}
	type res struct {
		m   vivid.Message
		err error
	}
	out := make(chan res, 1)
	go func() {
		if wantErr {
			out <- res{nil, f.Wait()}
		} else {
			m, err := f.Result()
			out <- res{m, err}
		}
	}()
	early := ""
	select {
	case r := <-out:
		early = fmt.Sprintf("RESULT-BEFORE-DONE: a waiter that arrived while the completion was in progress (claimed, result not stored yet) returned (%v, %v) instead of blocking", r.m, r.err)
		out <- r
	case <-time.After(150 * time.Millisecond):
	}
	close(release)
	select {
	case r := <-out:
		if early != "" {
			return early
		}
		if wantErr && (r.err == nil || !strings.Contains(r.err.Error(), vivid.ErrorFutureTimeout.GetMessage())) {
			return fmt.Sprintf("ASK-ONCE: Wait() on a future closed with the timeout error returned %v", r.err)
		}
		if !wantErr && (r.err != nil || r.m != "reply-42") {
			return fmt.Sprintf("ASK-REPLY: Result() returned (%v, %v), the future was completed with reply-42", r.m, r.err)
		}
	case <-time.After(2 * time.Second):
		return "ASK-HANG: the waiter did not return after the completion had finished"
	}
	return early
}

func askScenario(name string) string {
	if name == "result-window" || name == "wait-window" {
		return askWindow(name)
	}
	ctx, cancel := context.WithCancel(context.Background())
	defer cancel()
	sys := actor.NewSystem(vivid.WithActorSystemContext(ctx), vivid.WithActorSystemLogger(log.NewSilentLogger()))
	if err := sys.Start(); err != nil {
		return "start: " + err.Error()
	}
	defer sys.Stop(time.Second)
	echo, _ := sys.ActorOf(vivid.ActorFN(func(c vivid.ActorContext) {
		if m, ok := c.Message().(*askQ); ok && c.Sender() != nil {
			c.Reply(&askQ{m.N + 1000})
		}
	}))
	hole, _ := sys.ActorOf(vivid.ActorFN(func(c vivid.ActorContext) {}))
	slow, _ := sys.ActorOf(vivid.ActorFN(func(c vivid.ActorContext) {
		if m, ok := c.Message().(*askQ); ok && c.Sender() != nil {
			time.Sleep(120 * time.Millisecond)
			c.Reply(&askQ{m.N + 2000})
		}
	}))
	var mu sync.Mutex
	var holes, echoes []vivid.Future[vivid.Message]
	asked := make(chan struct{}, 4)
	asker, _ := sys.ActorOf(vivid.ActorFN(func(c vivid.ActorContext) {
		switch m := c.Message().(type) {
		case *askGo:
			mu.Lock()
			for i := 0; i < m.Holes; i++ {
				holes = append(holes, c.Ask(hole, &askQ{i}, 4*time.Second))
				if i < m.Echoes {
					echoes = append(echoes, c.Ask(echo, &askQ{i}, 4*time.Second))
				}
			}
			for i := m.Holes; i < m.Echoes; i++ {
				echoes = append(echoes, c.Ask(echo, &askQ{i}, 4*time.Second))
			}
			mu.Unlock()
			asked <- struct{}{}
		case string:
			if m == "boom" {
				panic("askrt scripted failure")
			}
		}
	}), vivid.WithActorName("asker"))
	registryEmpty := func(what string) string {
		deadline := time.Now().Add(time.Second)
		for {
			_, fut := sys.VerifRegistered()
			ag := sys.VerifFutureAgents()
			if fut == 0 && ag == 0 {
				return ""
			}
			if time.Now().After(deadline) {
				return fmt.Sprintf("ASK-REGISTRY: %s: %d future(s) still registered as mailboxes and %d still indexed by asker after every Ask has completed", what, fut, ag)
			}
			time.Sleep(10 * time.Millisecond)
		}
	}
	isDead := func(err error) bool {
		return err != nil && strings.Contains(err.Error(), vivid.ErrorActorDeaded.GetMessage())
	}
	switch name {
	case "reply":
		f := sys.Ask(echo, &askQ{5}, time.Second)
		r, err := f.Result()
		if q, ok := r.(*askQ); err != nil || !ok || q.N != 1005 {
			return fmt.Sprintf("ASK-REPLY: Ask returned (%v, %v), not its own reply", r, err)
		}
		if r2, err2 := f.Result(); err2 != nil || r2 != r {
			return "ASK-REPLY: a second Result differs from the first"
		}
		return registryEmpty(name)
	case "timeout":
		t0 := time.Now()
		f := sys.Ask(hole, &askQ{1}, 80*time.Millisecond)
		_, err := f.Result()
		d := time.Since(t0)
		if err == nil || d < 75*time.Millisecond || d > 600*time.Millisecond {
			return fmt.Sprintf("ASK-TIMEOUT: an unanswered Ask(80 ms) returned %v after %v", err, d)
		}
		return registryEmpty(name)
	case "late-reply":
		f := sys.Ask(slow, &askQ{1}, 40*time.Millisecond)
		_, err := f.Result()
		if err == nil {
			return "ASK-TIMEOUT: a reply that comes after the timeout was delivered as the result"
		}
		time.Sleep(200 * time.Millisecond) // the late reply arrives now: it must change nothing
		if r, err2 := f.Result(); err2 == nil || r != nil {
			return fmt.Sprintf("ASK-ONCE: the outcome changed after completion: now (%v, %v)", r, err2)
		}
		return registryEmpty(name)
	case "asker-dies-1-0", "asker-dies-3-0", "asker-dies-1-1", "asker-dies-1-3", "asker-dies-2-3", "asker-dies-3-1", "asker-restarts":
		// asker-dies-<h>-<e>: h Asks that stay outstanding, e Asks that are answered before the asker dies
		g := &askGo{Holes: 2, Echoes: 2}
		fmt.Sscanf(name, "asker-dies-%d-%d", &g.Holes, &g.Echoes)
		sys.Tell(asker, g)
		<-asked
		mu.Lock()
		hs, es := append([]vivid.Future[vivid.Message](nil), holes...), append([]vivid.Future[vivid.Message](nil), echoes...)
		mu.Unlock()
		for i, f := range es {
			if r, err := f.Result(); err != nil {
				return fmt.Sprintf("ASK-REPLY: echo ask %d returned (%v, %v)", i, r, err)
			}
		}
		time.Sleep(30 * time.Millisecond)
		t0 := time.Now()
		if name == "asker-restarts" {
			sys.Tell(asker, "boom") // default supervision of the root: the failed actor is stopped
		} else {
			sys.Kill(asker, false, "askrt")
		}
		for i, f := range hs {
			_, err := f.Result()
			if d := time.Since(t0); !isDead(err) || d > 1500*time.Millisecond {
				return fmt.Sprintf("ASKER-DEAD: the asking actor terminated with %d Ask(s) outstanding (%d others had completed before): outstanding Ask %d returned %v after %v — expected the actor-dead error at once", len(hs), len(es), i, err, d.Round(time.Millisecond))
			}
		}
		return registryEmpty(name)
	case "asker-dies-racing":
		// the asker is killed while half of its 3000 outstanding Asks are being answered from another goroutine:
		// the kill path walks a snapshot of the registrations while replies remove entries from it. Whatever the
		// interleaving, once the asker has terminated every Ask has completed — with its reply or with actor-dead.
		const n = 3000
		var kmu sync.Mutex
		var senders []vivid.ActorRef
		keeper, _ := sys.ActorOf(vivid.ActorFN(func(c vivid.ActorContext) {
			switch m := c.Message().(type) {
			case *askQ:
				kmu.Lock()
				senders = append(senders, c.Sender())
				kmu.Unlock()
			case string:
				if m == "answer-evens" {
					kmu.Lock()
					ss := append([]vivid.ActorRef(nil), senders...)
					kmu.Unlock()
					for i, s := range ss {
						if i%2 == 0 {
							c.Tell(s, &askQ{i + 5000})
						}
					}
				}
			}
		}))
		var futs []vivid.Future[vivid.Message]
		gone := make(chan struct{})
		racer, _ := sys.ActorOf(vivid.ActorFN(func(c vivid.ActorContext) {
			switch m := c.Message().(type) {
			case *askGo:
				mu.Lock()
				for i := 0; i < m.Holes; i++ {
					futs = append(futs, c.Ask(keeper, &askQ{i}, 20*time.Second))
				}
				mu.Unlock()
				asked <- struct{}{}
			case *vivid.OnKilled:
				if m.Ref.Equals(c.Ref()) {
					close(gone)
				}
			}
		}), vivid.WithActorName("racer"))
		sys.Tell(racer, &askGo{Holes: n})
		<-asked
		for dl := time.Now().Add(3 * time.Second); time.Now().Before(dl); time.Sleep(5 * time.Millisecond) {
			kmu.Lock()
			k := len(senders)
			kmu.Unlock()
			if k == n {
				break
			}
		}
		sys.Tell(keeper, "answer-evens")
		sys.Kill(racer, false, "askrt")
		select {
		case <-gone:
		case <-time.After(3 * time.Second):
			return "ASKER-DEAD: the asking actor did not terminate within 3 s"
		}
		mu.Lock()
		fs := append([]vivid.Future[vivid.Message](nil), futs...)
		mu.Unlock()
		var pending, wrong int32
		var wg sync.WaitGroup
		for i, f := range fs {
			wg.Add(1)
			go func(i int, f vivid.Future[vivid.Message]) {
				defer wg.Done()
				res := make(chan error, 1)
				var r vivid.Message
				go func() {
					var err error
					r, err = f.Result()
					res <- err
				}()
				select {
				case err := <-res:
					if q, ok := r.(*askQ); !(isDead(err) || (err == nil && ok && q.N == i+5000)) {
						atomic.AddInt32(&wrong, 1)
					}
				case <-time.After(2 * time.Second):
					atomic.AddInt32(&pending, 1)
				}
			}(i, f)
		}
		wg.Wait()
		if pending > 0 || wrong > 0 {
			return fmt.Sprintf("ASKER-DEAD: the asking actor terminated while replies to half of its %d outstanding Asks were arriving: 2 s later %d Ask(s) are still pending and %d completed with something other than their own reply or the actor-dead error", n, pending, wrong)
		}
		return ""
	case "close":
		f := sys.Ask(slow, &askQ{1}, time.Second)
		f.Close(fmt.Errorf("caller gave up"))
		_, err := f.Result()
		if err == nil || !strings.Contains(err.Error(), "caller gave up") {
			return fmt.Sprintf("ASK-ONCE: a closed Ask returned %v", err)
		}
		time.Sleep(200 * time.Millisecond)
		if _, err2 := f.Result(); err2 == nil || !strings.Contains(err2.Error(), "caller gave up") {
			return fmt.Sprintf("ASK-ONCE: the outcome changed after Close: %v", err2)
		}
		return registryEmpty(name)
	}
	return "HARNESS: unknown scenario " + name
}

func (e *askrtEngine) Exec(line string) (string, string) {
	tk := strings.Fields(line)
	if len(tk) == 2 && tk[0] == "ask" {
		v := askScenario(tk[1])
		if v != "" {
			// timing-dependent: report only what reproduces twice in isolation
			for i := 0; i < 2; i++ {
				if askScenario(tk[1]) == "" {
					return "-", ""
				}
			}
			return "-", v
		}
	}
	return "-", ""
}

var askScenarios = []string{"result-window", "wait-window", "reply", "timeout", "late-reply", "close", "asker-dies-1-0", "asker-dies-3-0", "asker-dies-1-1", "asker-dies-1-3", "asker-dies-2-3", "asker-dies-3-1", "asker-restarts", "asker-dies-racing"}

func (e *askrtEngine) Generate(c *Ctx) {
	reps := 1
	if c.Thorough() {
		reps = 10
	}
	for r := 0; r < reps; r++ {
		for _, sc := range askScenarios {
			c.Case("ask " + sc)
			c.R.Nontrivial()
			c.R.Hit("ask:" + sc)
		}
	}
}
