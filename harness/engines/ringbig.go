package engines

import (
	"fmt"
	"runtime"
	"runtime/debug"
	"strings"

	"github.com/kercylan98/vivid/internal/queues"
)

// Engine ringbig (C02, monitor only): the real queues.RingQueue at queue lengths the lock-step with the
// Lean driver cannot afford - across the growth boundaries 2^k for k up to 23 (quick) / 25 (thorough),
// each crossed with a wrapped head (some items are popped before the boundary so that head != 0 when the
// buffer is copied). The reference FIFO is two counters: the items pushed are 0, 1, 2, ... so the next
// item popped must be the number of items popped so far. The theorem C02_ring_refines_fifo covers every
// length for the *modelled* growth rule (always doubling, new tail = old capacity); this monitor is what
// looks for a failing input when the real growth code stops following that rule at a size the lock-step
// never reaches.
//
//	rb <initial size> <max boundary exponent> <pop numerator 0..3>   (pops num/4 of the items before every boundary)
type ringBigEngine struct{}

func init() { Register("ringbig", func() Engine { return &ringBigEngine{} }) }

func (*ringBigEngine) Name() string { return "ringbig" }

func rbRun(initial int64, maxExp int, popNum int64) (obs string, viol string) {
	defer func() {
		if r := recover(); r != nil {
			viol = fmt.Sprintf("RING-BIG: panic %v (initial size %d, boundaries up to 2^%d, popping %d/4 before each)", r, initial, maxExp, popNum)
		}
		runtime.GC()
		debug.FreeOSMemory()
	}()
	q := queues.New(initial)
	var pushed, popped int64
	popOne := func(where string) string {
		v, ok := q.Pop()
		if !ok {
			return fmt.Sprintf("RING-BIG: Pop reports empty with %d items pending (%s; initial size %d, %d pushed, %d popped)", pushed-popped, where, initial, pushed, popped)
		}
		x, isInt := v.(int64)
		if !isInt || x != popped {
			return fmt.Sprintf("RING-BIG: FIFO broken: Pop returned %v, want %d (%s; initial size %d, %d pushed, %d popped)", v, popped, where, initial, pushed, popped)
		}
		popped++
		return ""
	}
	boundaries := 0
	for k := 1; k <= maxExp; k++ {
		target := int64(1) << uint(k) // pending length to reach: crossing it forces a growth for every capacity <= 2^k
		// pop a fraction first so that the head is away from 0 when the buffer is copied
		np := (pushed - popped) * popNum / 4
		if np > 1<<16 {
			np = 1<<16 + np%7 // bounded work; still an arbitrary head offset
		}
		for i := int64(0); i < np; i++ {
			if s := popOne(fmt.Sprintf("before boundary 2^%d", k)); s != "" {
				return "-", s
			}
		}
		for pushed-popped <= target {
			q.Push(pushed)
			pushed++
		}
		if l := q.Length(); l != pushed-popped {
			return "-", fmt.Sprintf("RING-BIG: Length() = %d with %d pending after crossing 2^%d (initial size %d)", l, pushed-popped, k, initial)
		}
		boundaries++
	}
	// drain everything: every item exactly once, in order
	for popped < pushed {
		if s := popOne("final drain"); s != "" {
			return "-", s
		}
	}
	if _, ok := q.Pop(); ok {
		return "-", fmt.Sprintf("RING-BIG: Pop returns an item from a drained queue (initial size %d, %d pushed)", initial, pushed)
	}
	return fmt.Sprintf("ok pushed=%d boundaries=%d", pushed, boundaries), ""
}

func (e *ringBigEngine) Exec(line string) (string, string) {
	tk := strings.Fields(line)
	if len(tk) != 4 || tk[0] != "rb" {
		return "bad-op", ""
	}
	var initial, popNum int64
	var maxExp int
	fmt.Sscan(tk[1], &initial)
	fmt.Sscan(tk[2], &maxExp)
	fmt.Sscan(tk[3], &popNum)
	if initial < 1 || maxExp < 1 || maxExp > 26 || popNum < 0 || popNum > 3 {
		return "bad-op", ""
	}
	return rbRun(initial, maxExp, popNum)
}

func (e *ringBigEngine) Generate(c *Ctx) {
	c.Guard = true
	maxExp := 23
	if c.Thorough() {
		maxExp = 25
	}
	for _, init := range []int64{256, 1, 3} {
		for _, pn := range []int64{0, 1, 3} {
			if init != 256 && pn == 0 {
				continue
			}
			c.Case(fmt.Sprintf("rb %d %d %d", init, maxExp, pn))
			c.R.Nontrivial()
			c.R.Hit("rb:boundaries-to-2^23")
			if pn > 0 {
				c.R.Hit("rb:wrapped-head")
			}
		}
	}
}
