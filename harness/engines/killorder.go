package engines

import (
	"context"
	"fmt"
	"strings"
	"time"

	"github.com/kercylan98/vivid"
	"github.com/kercylan98/vivid/internal/actor"
	"github.com/kercylan98/vivid/pkg/log"
	"github.com/kercylan98/vivid/pkg/ves"
	"github.com/kercylan98/vivid/verifharness/gen"
	"github.com/kercylan98/vivid/verifharness/sched"
)

// Engine killorder (C06, monitor only): the real actor.System under the baton scheduler with extra
// scheduling points inside the termination clean-up (yield sites kh.* in killed_handler.go, placed
// after each group of notifications, where no lock is held), so other actors' handlers can run
// between "X's termination was reported" and the rest of X's clean-up. What the handler-atomic
// model of M10 cannot see is checked here at the moment a termination is *reported*: when a parent or a watcher observes
// OnKilled{X}, X and all its descendants are already unregistered and X's name is free again.
//
//	ko <variant> <seed>     variant: bits 1 = grandchild, 2 = watcher, 4 = poison, 8 = two subscribers
type koEv struct{}

type koEngine struct{}

func init() { Register("killorder", func() Engine { return &koEngine{} }) }

func (*koEngine) Name() string { return "killorder" }

func koRun(variant int, seed uint64) (string, string) {
	s := sched.New()
	s.Coarse = true
	s.Watchdog = 3 * time.Second
	s.IsSpawn = func(site string) bool {
		return site == "mb.enq.go" || site == "mb.resume.go" || site == "mb.release.go" || site == "sys.guardian.go" || site == "ctx.pipe.go" || site == "ctx.entrust.go"
	}
	s.IsExit = func(site string) bool { return site == "mb.proc.exit" || site == "ctx.pipe.exit" || site == "exit" }
	s.Filter = func(site string, obj any) bool {
		return site == "mb.ph.pops" || site == "sys.guardian.wait" || site == "start" || strings.HasPrefix(site, "kh.")
	}
	s.Install()
	defer sched.Uninstall()
	ctx, cancel := context.WithCancel(context.Background())
	defer cancel()
	sys := actor.NewSystem(vivid.WithActorSystemContext(ctx), vivid.WithActorSystemLogger(log.NewSilentLogger()), vivid.WithActorSystemStopTimeout(time.Second))
	if err := sys.Start(); err != nil {
		return "-", "HARNESS: " + err.Error()
	}
	if !s.WaitIdle() {
		return "-", "HARNESS: stuck at start"
	}
	rng := gen.New(seed)
	viol := ""
	doomed := map[*actor.Context]bool{} // the contexts of the subtree that was asked to terminate
	steps := 0
	run := func() bool {
		for i := 0; i < 4000; i++ {
			var r []*sched.Thread
			for _, t := range s.Runnable() {
				if t.Site != "sys.guardian.wait" { // the guardian blocks on the system context: never resumed here
					r = append(r, t)
				}
			}
			if len(r) == 0 {
				return true
			}
			if !s.Step(r[rng.Intn(len(r))]) {
				return false
			}
			steps++
		}
		return false
	}
	reported := func(who string, c vivid.ActorContext, m *vivid.OnKilled) {
		if m.Ref == nil || m.Ref.Equals(c.Ref()) || viol != "" {
			return
		}
		path := m.Ref.GetPath()
		// identity, not path: the name may already belong to a successor
		if c := sys.VerifLookup(path); c != nil && doomed[c] {
			viol = fmt.Sprintf("NOT-RELEASED-AT-NOTIFICATION: %s is told OnKilled{%s} while that very actor is still registered (FindActor still resolves it, its name cannot be reused yet)", who, path)
			return
		}
		paths, _ := sys.VerifRegistered()
		for _, p := range paths {
			if strings.HasPrefix(p, path+"/") {
				if c := sys.VerifLookup(p); c != nil && doomed[c] {
					viol = fmt.Sprintf("CHILDREN-FIRST-AT-NOTIFICATION: %s is told OnKilled{%s} while its descendant %s is still registered", who, path, p)
					return
				}
			}
		}
	}
	// every worker subscribes to koEv at launch; gotEv counts the deliveries per context (C19: the re-created
	// namesake keeps its subscription whatever the clean-up of the dead instance does later)
	gotEv := map[*actor.Context]int{}
	var worker func() vivid.Actor
	worker = func() vivid.Actor {
		return vivid.ActorFN(func(c vivid.ActorContext) {
			switch c.Message().(type) {
			case *vivid.OnLaunch:
				if !strings.HasSuffix(c.Ref().GetPath(), "/g") {
					c.EventStream().Subscribe(c, koEv{})
					if variant&1 != 0 {
						c.ActorOf(vivid.ActorFN(func(vivid.ActorContext) {}), vivid.WithActorName("g"))
					}
				}
			case koEv:
				if x := sys.VerifLookup(c.Ref().GetPath()); x != nil {
					gotEv[x]++
				}
			}
		})
	}
	respawned := 0
	var child vivid.ActorRef
	nsub := 1
	if variant&8 != 0 {
		nsub = 2
	}
	// every call into the system runs on a managed thread: its sends are scheduling points too
	act := func(fn func()) bool {
		if s.Go("harness", fn) == nil {
			return false
		}
		return run()
	}
	for i := 0; i < nsub; i++ {
		i := i
		if !act(func() {
			sys.ActorOf(vivid.ActorFN(func(c vivid.ActorContext) {
				if _, ok := c.Message().(*vivid.OnLaunch); ok {
					c.EventStream().Subscribe(c, ves.ActorKilledEvent{})
				}
			}), vivid.WithActorName(fmt.Sprintf("sub%d", i)))
		}) {
			return "-", "HARNESS: subscriber setup did not quiesce: " + s.Stuck
		}
	}
	parent := vivid.ActorFN(func(c vivid.ActorContext) {
		switch m := c.Message().(type) {
		case *vivid.OnLaunch:
			child, _ = c.ActorOf(worker(), vivid.WithActorName("w"))
		case *vivid.OnKilled:
			reported("the parent /p", c, m)
			if m.Ref != nil && m.Ref.GetPath() == "/p/w" && respawned < 2 && viol == "" {
				respawned++
				if _, err := c.ActorOf(worker(), vivid.WithActorName("w")); err != nil {
					viol = fmt.Sprintf("NOT-RELEASED-AT-NOTIFICATION: the parent, told OnKilled{/p/w}, cannot re-create its child under the same name: %v", err)
				}
			}
		}
	})
	if !act(func() { sys.ActorOf(parent, vivid.WithActorName("p")) }) {
		return "-", "HARNESS: setup did not quiesce: " + s.Stuck
	}
	if variant&2 != 0 && child != nil {
		watcher := vivid.ActorFN(func(c vivid.ActorContext) {
			switch m := c.Message().(type) {
			case *vivid.OnLaunch:
				c.Watch(child)
			case *vivid.OnKilled:
				reported("the watcher /watch", c, m)
			}
		})
		if !act(func() { sys.ActorOf(watcher, vivid.WithActorName("watch")) }) {
			return "-", "HARNESS: watcher setup did not quiesce"
		}
	}
	for round := 0; round < 2 && viol == ""; round++ {
		if c := sys.VerifLookup("/p/w"); c != nil {
			ref := c.Ref()
			paths, _ := sys.VerifRegistered()
			for _, p := range paths {
				if p == "/p/w" || strings.HasPrefix(p, "/p/w/") {
					if x := sys.VerifLookup(p); x != nil {
						doomed[x] = true
					}
				}
			}
			if !act(func() { sys.Kill(ref, variant&4 != 0, "probe") }) {
				return "-", "HARNESS: kill did not quiesce: " + s.Stuck
			}
		}
	}
	// C19: whoever is registered under /p/w now subscribed at its launch: a publication reaches it, once
	if viol == "" {
		if !act(func() { sys.EventStream().Publish(sys, koEv{}) }) {
			return "-", "HARNESS: publish did not quiesce: " + s.Stuck
		}
		if x := sys.VerifLookup("/p/w"); x != nil && x.VerifState().State == 0 && gotEv[x] != 1 {
			viol = fmt.Sprintf("SUBSCRIPTION-LOST: /p/w (re-created %d time(s)) subscribed at its launch but received the event published afterwards %d time(s) — the subscription of the live actor was removed by the clean-up of its dead namesake", respawned, gotEv[x])
		}
		if bySub, _ := sys.VerifSubscriptions(); viol == "" {
			for _, e := range bySub {
				if strings.Contains(e, "/p/w") && sys.VerifLookup("/p/w") == nil {
					viol = "SUBSCRIPTION-LEFT: /p/w is terminated and not re-created, yet the event stream still holds " + e
				}
			}
		}
	}
	// no orderly Stop: under the baton it costs seconds per case; the parked goroutines of this system are
	// abandoned (they hold no lock) and the system context is cancelled by the deferred cancel()
	return fmt.Sprintf("# steps=%d respawned=%d", steps, respawned), viol
}

func (e *koEngine) Exec(line string) (string, string) {
	tk := strings.Fields(line)
	if len(tk) != 3 || tk[0] != "ko" {
		return "bad-op", ""
	}
	var variant int
	var seed uint64
	fmt.Sscan(tk[1], &variant)
	fmt.Sscan(tk[2], &seed)
	return koRun(variant, seed)
}

func (e *koEngine) Generate(c *Ctx) {
	c.Guard = true
	n := 12
	if c.Thorough() {
		n = 200
	}
	for variant := 0; variant < 16; variant++ {
		for i := 0; i < n; i++ {
			c.Case(fmt.Sprintf("ko %d %d", variant, c.Rng.U64()%1000000))
			c.R.Nontrivial()
			c.R.Hit(fmt.Sprintf("variant:%d", variant))
		}
	}
}
