package engines

// The reflective reader (`Reader.Read` / `ReadInto` on Go slices and structs — the API a user's
// CustomMessageReader is handed): lock-step against the schema decoder of the Lean model for a family
// of destination types, under the same allocation meter as the registered messages, plus the
// clause of C13 that only exists on the Go side: a failed decode leaves the destination (and every
// slice backing array reachable from it) as it was.
//
//	rfl <kind> x<hex>                         -> ok <tokens> rest=<n> | err
//	rflinto <kind> <prefill tokens> | x<hex>  -> ok <tokens> | err <tokens of the destination afterwards>

import (
	"encoding/hex"
	"fmt"
	"reflect"
	"runtime"
	"strings"

	"github.com/kercylan98/vivid/internal/messages"
)

type reflRec struct {
	A uint32
	B string
}
type reflOuter struct {
	A uint16
	B []uint32
	C string
}

// element types whose encoding is empty (like the library's own field-less messages): a slice of them is a bare count
type reflEmpty struct{}
type reflBatch struct {
	A uint32
	B []reflEmpty
	C uint16
}

var reflKinds = map[string]reflect.Type{
	"u64s":   reflect.TypeOf([]uint64(nil)),
	"strs":   reflect.TypeOf([]string(nil)),
	"recs":   reflect.TypeOf([]reflRec(nil)),
	"nested": reflect.TypeOf([][]uint16(nil)),
	"rec":    reflect.TypeOf(reflOuter{}),
	"units":  reflect.TypeOf([]reflEmpty(nil)),
	"batch":  reflect.TypeOf(reflBatch{}),
}
var reflKindNames = []string{"u64s", "strs", "recs", "nested", "rec", "units", "batch"}

// kinds with zero-width elements: the count is bounded by nothing but the reader's patience (and the model's
// memory), so damaged counts are kept below 256 and the hostile-count block is skipped
var reflZeroWidth = map[string]int{"units": 0, "batch": 4} // offset of the count

// reflTokens prints v in the token syntax of the model; full=true prints slices up to their capacity
// (the whole backing array), which is what must not change when a decode fails.
func reflTokens(v reflect.Value, w *tokW, full bool) {
	switch v.Kind() {
	case reflect.Uint16, reflect.Uint32, reflect.Uint64:
		w.u(v.Uint())
	case reflect.String:
		w.s(v.String())
	case reflect.Slice:
		if full && v.Cap() > v.Len() {
			v = v.Slice(0, v.Cap())
		}
		w.count(v.Len())
		for i := 0; i < v.Len(); i++ {
			reflTokens(v.Index(i), w, full)
		}
	case reflect.Struct:
		for i := 0; i < v.NumField(); i++ {
			reflTokens(v.Field(i), w, full)
		}
	}
}

// reflBuild builds a value of type t from tokens; slices get two spare elements of capacity.
func reflBuild(t reflect.Type, r *tokR) reflect.Value {
	v := reflect.New(t).Elem()
	switch t.Kind() {
	case reflect.Uint16, reflect.Uint32, reflect.Uint64:
		v.SetUint(r.u())
	case reflect.String:
		v.SetString(r.s())
	case reflect.Slice:
		n := r.count()
		s := reflect.MakeSlice(t, n, n+2)
		for i := 0; i < n; i++ {
			s.Index(i).Set(reflBuild(t.Elem(), r))
		}
		v.Set(s)
	case reflect.Struct:
		for i := 0; i < t.NumField(); i++ {
			v.Field(i).Set(reflBuild(t.Field(i).Type, r))
		}
	}
	return v
}

func (e *codecEngine) execReflect(tk []string) (obs string, viol string) {
	t, ok := reflKinds[tk[1]]
	if !ok {
		return "bad-op", ""
	}
	hx := tk[len(tk)-1]
	if !strings.HasPrefix(hx, "x") {
		return "bad-op", ""
	}
	data, err := hex.DecodeString(hx[1:])
	if err != nil {
		return "bad-op", ""
	}
	dst := reflect.New(t)
	var before string
	var alias reflect.Value
	if tk[0] == "rflinto" {
		bar := -1
		for i, x := range tk {
			if x == "|" {
				bar = i
			}
		}
		if bar < 0 || bar != len(tk)-2 {
			return "bad-op", ""
		}
		r := &tokR{ts: tk[2:bar]}
		pv := reflBuild(t, r)
		if r.bad || r.i != len(r.ts) {
			return "bad-op", ""
		}
		dst.Elem().Set(pv)
		alias = reflect.New(t).Elem()
		alias.Set(pv) // shares every backing array with the destination, like any other holder of the old value
		w := &tokW{}
		reflTokens(alias, w, true)
		before = strings.Join(w.ts, " ")
	}
	var ms0, ms1 runtime.MemStats
	runtime.ReadMemStats(&ms0)
	rd := messages.NewReader(data)
	derr := rd.Read(dst.Interface())
	runtime.ReadMemStats(&ms1)
	if alloc := ms1.TotalAlloc - ms0.TotalAlloc; alloc > codecAllocBudget+64*uint64(len(data)) {
		viol = fmt.Sprintf("ALLOC: reflective decode of %d bytes into %s allocated %d bytes", len(data), t, alloc)
	}
	w := &tokW{}
	reflTokens(dst.Elem(), w, false)
	if tk[0] == "rfl" {
		if derr != nil {
			return "err", viol
		}
		return strings.Join(append(append([]string{"ok"}, w.ts...), fmt.Sprintf("rest=%d", rd.RemainingSize())), " "), viol
	}
	if derr != nil {
		wa := &tokW{}
		reflTokens(alias, wa, true)
		wd := &tokW{}
		reflTokens(dst.Elem(), wd, true)
		if after := strings.Join(wa.ts, " "); after != before && viol == "" {
			viol = fmt.Sprintf("DEST-MODIFIED: a failed decode (%v) into a %s wrote into the caller's previous value: backing data before [%s] after [%s]", derr, t, before, after)
		} else if d := strings.Join(wd.ts, " "); d != before && viol == "" {
			viol = fmt.Sprintf("DEST-MODIFIED: a failed decode (%v) into a %s changed the destination: before [%s] after [%s]", derr, t, before, d)
		}
		return strings.TrimSpace("err " + strings.Join(w.ts, " ")), viol
	}
	return strings.TrimSpace("ok " + strings.Join(w.ts, " ")), viol
}

// reflValue: a random value of the kind, as tokens (counts 0..4, short strings, boundary integers).
func (g *codecGen) reflValue(t reflect.Type) []string {
	switch t.Kind() {
	case reflect.Uint16:
		return []string{fmt.Sprint(g.c.Rng.U64() % 65536)}
	case reflect.Uint32:
		return []string{fmt.Sprint(g.c.Rng.U64() % (1 << 32))}
	case reflect.Uint64:
		return []string{g.u64()}
	case reflect.String:
		return []string{g.tok(g.str())}
	case reflect.Slice:
		n := g.c.Rng.Intn(5)
		out := []string{fmt.Sprintf("#%d", n)}
		for i := 0; i < n; i++ {
			out = append(out, g.reflValue(t.Elem())...)
		}
		return out
	case reflect.Struct:
		var out []string
		for i := 0; i < t.NumField(); i++ {
			out = append(out, g.reflValue(t.Field(i).Type)...)
		}
		return out
	}
	return nil
}

func (e *codecEngine) reflectiveCases(c *Ctx, g *codecGen, cfg string) {
	n := 40
	if c.Thorough() {
		n = 600
	}
	for _, kind := range reflKindNames {
		t := reflKinds[kind]
		for i := 0; i < n; i++ {
			c.Case(cfg)
			toks := g.reflValue(t)
			r := &tokR{ts: toks}
			v := reflBuild(t, r)
			wr := messages.NewWriter()
			if err := wr.Write(v.Interface()).Err(); err != nil {
				c.R.Violate("codec", fmt.Sprintf("ROUND-TRIP(reflective): Writer.Write(%s) fails: %v", t, err))
				continue
			}
			raw := append([]byte(nil), wr.Bytes()...)
			o := c.Do("rfl " + kind + " x" + hex.EncodeToString(raw))
			if want := "ok " + strings.Join(toks, " ") + " rest=0"; strings.Join(strings.Fields(o), " ") != strings.Join(strings.Fields(want), " ") {
				c.R.Violate("codec", fmt.Sprintf("ROUND-TRIP(reflective): %s [%s] decodes as [%s]", t, strings.Join(toks, " "), o))
			}
			c.R.Nontrivial()
			c.R.Hit("rfl:" + kind)
			// every truncation and a corruption per byte, into a fresh destination and into one that still
			// holds an earlier value with room to spare
			pre := g.reflValue(t)
			for cut := 0; cut <= len(raw); cut++ {
				o := c.Do("rfl " + kind + " x" + hex.EncodeToString(raw[:cut]))
				c.R.Hit("rfl-truncated:" + strings.Fields(o)[0])
				o = c.Do("rflinto " + kind + " " + strings.Join(pre, " ") + " | x" + hex.EncodeToString(raw[:cut]))
				c.R.Hit("rflinto:" + strings.Fields(o)[0])
			}
			for pos := 0; pos < len(raw); pos++ {
				b := append([]byte(nil), raw...)
				switch c.Rng.Intn(3) {
				case 0:
					b[pos] ^= 1 << uint(c.Rng.Intn(8))
				case 1:
					b[pos] = 0xFF
				default:
					b[pos] = byte(c.Rng.U64())
				}
				if pos < 4 && b[0] != 0 && kind != "rec" {
					b[0] = 0 // a count of 2^24 and more cannot be followed by that many elements here: keep those for the hostile block
				}
				if off, zw := reflZeroWidth[kind]; zw && len(b) >= off+4 {
					b[off], b[off+1], b[off+2] = 0, 0, 0
				}
				c.Do("rfl " + kind + " x" + hex.EncodeToString(b))
				o := c.Do("rflinto " + kind + " " + strings.Join(pre, " ") + " | x" + hex.EncodeToString(b))
				c.R.Hit("rflinto:" + strings.Fields(o)[0])
			}
		}
		if _, zw := reflZeroWidth[kind]; zw {
			// more elements than bytes left is legitimate here
			for _, raw := range [][]byte{{0, 0, 0, 3}, {0, 0, 0, 200}, {0, 0, 0, 5, 9}} {
				if kind == "batch" {
					raw = append(append([]byte{0, 0, 0, 7}, raw...), 0, 1)
				}
				c.Case(cfg)
				o := c.Do("rfl " + kind + " x" + hex.EncodeToString(raw))
				c.R.Hit("rfl-zero-width:" + strings.Fields(o)[0])
				c.R.Nontrivial()
			}
			continue
		}
		// hostile counts: a few bytes announcing up to 2^31 elements
		for _, hdr := range [][]byte{{0, 1, 0, 0}, {0, 0x10, 0, 0}, {0x04, 0, 0, 0}, {0x7f, 0xff, 0xff, 0xff}, {0xff, 0xff, 0xff, 0xff}} {
			c.Case(cfg)
			b := append([]byte(nil), hdr...)
			if kind == "rec" {
				b = append([]byte{0, 7}, hdr...)
			}
			for extra := 0; extra < 3; extra++ {
				o := c.Do("rfl " + kind + " x" + hex.EncodeToString(b))
				c.R.Hit("rfl-hostile:" + strings.Fields(o)[0])
				b = append(b, 0, 0, 0, 1)
			}
		}
	}
}
