package engines

import (
	"encoding/hex"
	"fmt"
	"sort"
	"strconv"
	"strings"

	"github.com/kercylan98/vivid/internal/cluster"
	"github.com/kercylan98/vivid/internal/messages"
)

// Engine vv: pure operations of cluster.VersionVector (M7).
type vvEngine struct{}

func init() {
	Register("vv", func() Engine { return &vvEngine{} })
	ConstUint("vvMaxCounterValue", cluster.VerifMaxCounterValue)
	ConstInt("vvMaxEntries", cluster.VerifMaxVersionVectorEntries)
	ConstInt("vvMaxNodeAddressLength", cluster.VerifMaxNodeAddressLength)
}

func (*vvEngine) Name() string { return "vv" }

func decodeName(t string) string {
	if t == "~" {
		return ""
	}
	if strings.HasPrefix(t, "@") {
		if n, err := strconv.Atoi(t[1:]); err == nil {
			return strings.Repeat("n", n)
		}
	}
	return t
}

func parseVVMap(t string) (map[string]uint64, bool) {
	m := map[string]uint64{}
	if t == "-" {
		return m, true
	}
	for _, e := range strings.Split(t, ",") {
		kv := strings.Split(e, ":")
		if len(kv) != 2 {
			return nil, false
		}
		c, err := strconv.ParseUint(kv[1], 10, 64)
		if err != nil {
			return nil, false
		}
		m[decodeName(kv[0])] = c
	}
	return m, true
}

func showVVMap(m map[string]uint64) string {
	if len(m) == 0 {
		return "-"
	}
	ks := make([]string, 0, len(m))
	for k := range m {
		ks = append(ks, k)
	}
	sort.Strings(ks)
	var sb strings.Builder
	for i, k := range ks {
		if i > 0 {
			sb.WriteByte(',')
		}
		fmt.Fprintf(&sb, "%s:%d", k, m[k])
	}
	return sb.String()
}

func hexOrDash(b []byte) string {
	if len(b) == 0 {
		return "-"
	}
	return hex.EncodeToString(b)
}

// showVVMapHex: like showVVMap with the node names in hex (names read from arbitrary bytes).
func showVVMapHex(m map[string]uint64) string {
	if len(m) == 0 {
		return "-"
	}
	ks := make([]string, 0, len(m))
	for k := range m {
		ks = append(ks, k)
	}
	sort.Strings(ks)
	var sb strings.Builder
	for i, k := range ks {
		if i > 0 {
			sb.WriteByte(',')
		}
		fmt.Fprintf(&sb, "%s:%d", hexOrDash([]byte(k)), m[k])
	}
	return sb.String()
}

func sameMap(a, b map[string]uint64) bool {
	if len(a) != len(b) {
		return false
	}
	for k, v := range a {
		if w, ok := b[k]; !ok || w != v {
			return false
		}
	}
	return true
}

func showOrder(o cluster.VersionOrder) string {
	switch o {
	case cluster.VersionEqual:
		return "equal"
	case cluster.VersionBefore:
		return "before"
	case cluster.VersionAfter:
		return "after"
	case cluster.VersionConcurrent:
		return "concurrent"
	}
	return fmt.Sprintf("order(%d)", int(o))
}

func parseNodes(t string) []string {
	if t == "-" {
		return nil
	}
	var out []string
	for _, n := range strings.Split(t, ",") {
		out = append(out, decodeName(n))
	}
	return out
}

// Exec runs one op. Every operand is rebuilt from the line, and after the call its entries
// are compared with the line again: "operations never modify their operands".
func (*vvEngine) Exec(line string) (obs string, viol string) {
	defer func() {
		if r := recover(); r != nil {
			obs = "panic"
			viol = fmt.Sprintf("panic in %q: %v", line, r)
		}
	}()
	obs = vvExec(line)
	if strings.Contains(obs, "MUTATED") {
		viol = "operand modified by " + line
	}
	if v := vvMonitor(line, obs); v != "" {
		viol = v
	}
	if tk := strings.Fields(line); len(tk) == 2 && tk[0] == "ser" && obs != "bad-op" {
		// C16: a vector within the documented limits survives serialisation unchanged
		if m, ok := parseVVMap(tk[1]); ok {
			within := len(m) <= cluster.VerifMaxVersionVectorEntries
			for k, cnt := range m {
				if k == "" || len(k) > cluster.VerifMaxNodeAddressLength || cnt > cluster.VerifMaxCounterValue {
					within = false
				}
			}
			if within {
				f := strings.Fields(obs)
				if len(f) != 3 {
					viol = fmt.Sprintf("SERIALISE: a vector within the limits (%s) is refused by the writer or by the reader of its own bytes", tk[1])
				} else if f[1] != showVVMapHex(m) || f[2] != "left=0" {
					viol = fmt.Sprintf("SERIALISE: %s comes back as %s %s", showVVMapHex(m), f[1], f[2])
				}
			}
		}
	}
	if tk := strings.Fields(line); len(tk) == 3 && tk[0] == "wide" && obs != "bad-op" {
		n, _ := strconv.Atoi(tk[1])
		k, _ := strconv.Atoi(tk[2])
		if v := vvWide(n, k); v != "" {
			viol = "WIDE: " + v
		}
	}
	return
}

// vvMonitor is the property oracle on the real outputs, independent of the Lean model:
// Compare must decide the component-wise order, Merge must be the component-wise max,
// Increment must add one at its key and leave the rest.
func vvMonitor(line, obs string) string {
	tk := strings.Fields(line)
	if len(tk) < 3 {
		return ""
	}
	get := func(m map[string]uint64, k string) uint64 { return m[k] }
	switch tk[0] {
	case "cmp", "merge":
		a, ok1 := parseVVMap(tk[1])
		b, ok2 := parseVVMap(tk[2])
		if !ok1 || !ok2 {
			return ""
		}
		keys := map[string]bool{}
		for k := range a {
			keys[k] = true
		}
		for k := range b {
			keys[k] = true
		}
		if tk[0] == "cmp" {
			less, greater := false, false
			for k := range keys {
				if get(a, k) < get(b, k) {
					less = true
				}
				if get(a, k) > get(b, k) {
					greater = true
				}
			}
			want := "equal"
			switch {
			case less && greater:
				want = "concurrent"
			case less:
				want = "before"
			case greater:
				want = "after"
			}
			if obs != want {
				return fmt.Sprintf("Compare(%s,%s)=%s, component-wise order is %s", tk[1], tk[2], obs, want)
			}
			return ""
		}
		r, ok := parseVVMap(strings.Fields(obs)[0])
		if !ok {
			return "Merge result unparsable: " + obs
		}
		for k := range keys {
			w := get(a, k)
			if get(b, k) > w {
				w = get(b, k)
			}
			if get(r, k) != w {
				return fmt.Sprintf("Merge(%s,%s)[%s]=%d, max is %d", tk[1], tk[2], k, get(r, k), w)
			}
		}
		for k := range r {
			if !keys[k] {
				return "Merge invented key " + k
			}
		}
	case "inc":
		a, ok1 := parseVVMap(tk[1])
		if !ok1 || strings.HasPrefix(obs, "err:") {
			n := decodeName(tk[2])
			if ok1 && strings.HasPrefix(obs, "err:") && n != "" && len(n) <= 256 && a[n] < cluster.VerifMaxCounterValue {
				return "Increment failed on a valid input: " + line + " => " + obs
			}
			return ""
		}
		r, ok := parseVVMap(strings.Fields(obs)[0])
		if !ok {
			return "Increment result unparsable: " + obs
		}
		n := decodeName(tk[2])
		if r[n] != a[n]+1 {
			return fmt.Sprintf("Increment(%s,%s): counter %d -> %d", tk[1], tk[2], a[n], r[n])
		}
		for k, v := range a {
			if k != n && r[k] != v {
				return "Increment changed another key: " + line + " => " + obs
			}
		}
		// strictly After its input
		av, rv := cluster.VerifVVFromMap(a), cluster.VerifVVFromMap(r)
		if rv.Compare(av) != cluster.VersionAfter {
			return "Increment result not After its input: " + line
		}
	}
	return ""
}

func wideVV(n int, prefix string, c uint64) cluster.VersionVector {
	m := make(map[string]uint64, n)
	for i := 0; i < n; i++ {
		m[fmt.Sprintf("%s%d", prefix, i)] = c
	}
	return cluster.VerifVVFromMap(m)
}

// vvWide: the lattice laws on wide vectors, checked on the real outputs (independent of the model).
func vvWide(n, k int) string {
	w, e := wideVV(n, "w", 1), wideVV(k, "e", 2)
	a, b := cluster.VerifVVMap(w.Merge(e)), cluster.VerifVVMap(e.Merge(w))
	if len(a) != n+k || len(b) != n+k {
		return fmt.Sprintf("Merge of a %d-entry and a disjoint %d-entry vector has %d / %d entries (other order), the join has %d", n, k, len(a), len(b), n+k)
	}
	if !sameMap(a, b) {
		return fmt.Sprintf("Merge is not commutative on a %d-entry and a %d-entry vector", n, k)
	}
	r := w.Merge(e)
	if o := r.Compare(w); k > 0 && showOrder(o) != "after" {
		return fmt.Sprintf("Merge(W,E) is %s W (|W|=%d, |E|=%d), the join is after it", showOrder(o), n, k)
	}
	if o := r.Compare(e); n > 0 && k > 0 && showOrder(o) != "after" {
		return fmt.Sprintf("Merge(W,E) is %s E (|W|=%d, |E|=%d), the join is after it", showOrder(o), n, k)
	}
	if len(cluster.VerifVVMap(w)) != n || len(cluster.VerifVVMap(e)) != k {
		return "Merge modified an operand"
	}
	return ""
}

func vvExec(line string) (obs string) {
	tk := strings.Fields(line)
	if len(tk) == 0 {
		return "bad-op"
	}
	mutated := func(v cluster.VersionVector, m map[string]uint64) string {
		if !sameMap(cluster.VerifVVMap(v), m) {
			return " OPERAND-MUTATED"
		}
		return ""
	}
	switch {
	case tk[0] == "cmp" && len(tk) == 3:
		ma, ok1 := parseVVMap(tk[1])
		mb, ok2 := parseVVMap(tk[2])
		if !ok1 || !ok2 {
			return "bad-op"
		}
		a, b := cluster.VerifVVFromMap(ma), cluster.VerifVVFromMap(mb)
		r := a.Compare(b)
		return showOrder(r) + mutated(a, ma) + mutated(b, mb)
	case tk[0] == "merge" && len(tk) == 3:
		ma, ok1 := parseVVMap(tk[1])
		mb, ok2 := parseVVMap(tk[2])
		if !ok1 || !ok2 {
			return "bad-op"
		}
		a, b := cluster.VerifVVFromMap(ma), cluster.VerifVVFromMap(mb)
		r := a.Merge(b)
		return showVVMap(cluster.VerifVVMap(r)) + mutated(a, ma) + mutated(b, mb)
	case tk[0] == "inc" && len(tk) == 3:
		ma, ok1 := parseVVMap(tk[1])
		if !ok1 {
			return "bad-op"
		}
		a := cluster.VerifVVFromMap(ma)
		r, err := a.Increment(decodeName(tk[2]))
		if err != nil {
			s := "err:other"
			switch {
			case strings.Contains(err.Error(), cluster.ErrInvalidNodeAddress.Error()):
				s = "err:invalid"
			case strings.Contains(err.Error(), cluster.ErrVersionOverflow.Error()):
				s = "err:overflow"
			}
			return s + mutated(a, ma)
		}
		return showVVMap(cluster.VerifVVMap(r)) + mutated(a, ma)
	case tk[0] == "ser" && len(tk) == 2:
		// WriteVersionVector, then ReadVersionVector of the bytes written
		ma, ok1 := parseVVMap(tk[1])
		if !ok1 {
			return "bad-op"
		}
		a := cluster.VerifVVFromMap(ma)
		w := messages.NewWriter()
		if err := cluster.WriteVersionVector(w, a); err != nil {
			return "err" + mutated(a, ma)
		}
		bs := append([]byte(nil), w.Bytes()...)
		r := messages.NewReader(bs)
		v, err := cluster.ReadVersionVector(r)
		if err != nil {
			return "err" + mutated(a, ma)
		}
		return fmt.Sprintf("%s %s left=%d", hexOrDash(bs), showVVMapHex(cluster.VerifVVMap(v)), r.RemainingSize()) + mutated(a, ma)
	case tk[0] == "rd" && len(tk) == 2:
		var bs []byte
		if tk[1] != "-" {
			var err error
			if bs, err = hex.DecodeString(tk[1]); err != nil {
				return "bad-op"
			}
		}
		r := messages.NewReader(bs)
		v, err := cluster.ReadVersionVector(r)
		if err != nil {
			return "err"
		}
		return fmt.Sprintf("%s left=%d", showVVMapHex(cluster.VerifVVMap(v)), r.RemainingSize())
	case tk[0] == "wide" && len(tk) == 3:
		// wide <n> <k>: W = {w0..w(n-1) -> 1}, E = {e0..e(k-1) -> 2}: the join laws on vectors around the
		// serialisation limit, summarised (the Go side also checks every law on the maps, see vvWide)
		n, err1 := strconv.Atoi(tk[1])
		k, err2 := strconv.Atoi(tk[2])
		if err1 != nil || err2 != nil || n < 0 || k < 0 || n > 70000 || k > 8 {
			return "bad-op"
		}
		w, e := wideVV(n, "w", 1), wideVV(k, "e", 2)
		r := w.Merge(e)
		g := ""
		for i := 0; i < k; i++ {
			g += fmt.Sprintf(",%d", r.Get(fmt.Sprintf("e%d", i)))
		}
		return fmt.Sprintf("size=%d get=%s c1=%s c2=%s", len(cluster.VerifVVMap(r)), strings.TrimPrefix(g, ","), showOrder(r.Compare(e)), showOrder(e.Compare(r)))
	case tk[0] == "get" && len(tk) == 3:
		ma, ok1 := parseVVMap(tk[1])
		if !ok1 {
			return "bad-op"
		}
		a := cluster.VerifVVFromMap(ma)
		return strconv.FormatUint(a.Get(decodeName(tk[2])), 10) + mutated(a, ma)
	case tk[0] == "compact" && len(tk) == 2:
		ma, ok1 := parseVVMap(tk[1])
		if !ok1 {
			return "bad-op"
		}
		a := cluster.VerifVVFromMap(ma)
		r := a.Compact()
		return showVVMap(cluster.VerifVVMap(r)) + mutated(a, ma)
	case tk[0] == "prune" && len(tk) == 4:
		ma, ok1 := parseVVMap(tk[1])
		mx, err := strconv.Atoi(tk[2])
		if !ok1 || err != nil {
			return "bad-op"
		}
		a := cluster.VerifVVFromMap(ma)
		ns := parseNodes(tk[3])
		keep := append([]string(nil), ns...)
		r := a.PruneWithMax(ns, mx)
		s := showVVMap(cluster.VerifVVMap(r)) + mutated(a, ma)
		for i := range keep {
			if keep[i] != ns[i] {
				s += " ARG-MUTATED"
				break
			}
		}
		return s
	}
	return "bad-op"
}

var vvCounterClasses = []uint64{0, 1, 2, cluster.VerifMaxCounterValue - 1, cluster.VerifMaxCounterValue}

// enumVVs enumerates all vectors over keys with each key absent or in one of the classes.
func enumVVs(keys []string) []string {
	res := []string{""}
	for _, k := range keys {
		var next []string
		for _, p := range res {
			next = append(next, p) // absent
			for _, c := range vvCounterClasses {
				e := fmt.Sprintf("%s:%d", k, c)
				if p == "" {
					next = append(next, e)
				} else {
					next = append(next, p+","+e)
				}
			}
		}
		res = next
	}
	for i := range res {
		if res[i] == "" {
			res[i] = "-"
		}
	}
	return res
}

func (e *vvEngine) Generate(c *Ctx) {
	// (1) exhaustive pairs over <=3 keys x {absent,0,1,2,max-1,max}: 216 vectors, 46656 pairs
	keys := []string{"a", "b", "c"}
	if c.Thorough() {
		keys = []string{"a", "b", "c", "d"}
	}
	all := enumVVs(keys)
	c.R.Extra["exhaustive_vectors"] = len(all)
	pairStride := 1
	if c.Thorough() {
		pairStride = 7 // 1296^2/7 pairs, still every vector on both sides
	}
	i := 0
	for _, a := range all {
		for _, b := range all {
			i++
			if i%pairStride != 0 {
				continue
			}
			o := c.Case("cmp " + a + " " + b)
			c.R.Hit("cmp:" + o)
			if a != b && a != "-" && b != "-" {
				c.R.Nontrivial()
			}
			c.Do("merge " + a + " " + b)
		}
	}
	// (1b) vectors around the entry limit of the codec (65535): the join laws have no size exception
	for _, n := range []int{0, 1, 1000, 65534, 65535, 65536, 70000} {
		for _, k := range []int{0, 1, 3} {
			c.Case(fmt.Sprintf("wide %d %d", n, k))
			c.R.Nontrivial()
			c.R.Hit("wide")
			if n >= 65535 && k > 0 {
				c.R.Hit("wide:over-limit")
			}
		}
	}
	// (1c) serialisation: every enumerated vector (counters 0, 1, 2, max-1, max), counters above the maximum,
	// addresses of 0 / 256 / 257 bytes; then reads of damaged encodings
	for _, a := range all {
		if a == "-" || c.Thorough() || c.Rng.Chance(1, 2) {
			o := c.Case("ser " + a)
			c.R.Nontrivial()
			c.R.Hit("ser:ok")
			if strings.Contains(a, fmt.Sprint(cluster.VerifMaxCounterValue)) {
				c.R.Hit("ser:max-counter")
			}
			if f := strings.Fields(o); len(f) == 3 && f[0] != "-" && c.Rng.Chance(1, 4) {
				h := f[0]
				cut := 2 * c.Rng.Intn(len(h)/2)
				c.Do("rd " + h[:cut])
				c.R.Hit("rd:truncated")
				b, _ := hex.DecodeString(h)
				b[c.Rng.Intn(len(b))] ^= byte(1 << c.Rng.Intn(8))
				c.Do("rd " + hex.EncodeToString(b))
				c.Do("rd " + h + "00ff")
				c.R.Hit("rd:damaged")
			}
		}
	}
	for _, a := range []string{
		"a:9223372036854775808", "a:18446744073709551615", "a:1,b:9223372036854775808",
		"@256:1", "@257:1", "@256:9223372036854775807,b:0", "~:1", "a:0", "a:0,b:0,c:0",
	} {
		o := c.Case("ser " + a)
		c.R.Nontrivial()
		if o == "err" {
			c.R.Hit("ser:refused")
		}
	}
	c.Case("rd -")
	c.Do("rd 00000000")
	c.Do("rd 0000ffff")
	c.Do("rd 00010000")
	c.Do("rd ffffffff")
	c.Do("rd 000000020000000161000000000000000100000001610000000000000002") // a:1 then a:2: the last one wins
	// (2) increment on every vector x every key + invalid names
	for _, a := range all {
		for _, k := range append(append([]string(nil), keys...), "z", "~", "@256", "@257") {
			o := c.Case("inc " + a + " " + k)
			if strings.HasPrefix(o, "err:") {
				c.R.Hit(o)
			} else {
				c.R.Hit("inc:ok")
			}
			c.R.Nontrivial()
		}
		c.Case("compact " + a)
	}
	// (3) random larger vectors: merge/compare/prune, incl. associativity triples by ops
	n := 4000
	if c.Thorough() {
		n = 200000
	}
	names := []string{"a", "b", "c", "d", "e", "f", "g", "h", "n1", "n2", "node-10", "10.0.0.1_8080"}
	randVV := func() string {
		k := c.Rng.Intn(len(names) + 1)
		if k == 0 {
			return "-"
		}
		perm := append([]string(nil), names...)
		var parts []string
		for j := 0; j < k; j++ {
			x := c.Rng.Intn(len(perm))
			nm := perm[x]
			perm = append(perm[:x], perm[x+1:]...)
			var cnt uint64
			switch c.Rng.Intn(6) {
			case 0:
				cnt = 0
			case 1:
				cnt = cluster.VerifMaxCounterValue - uint64(c.Rng.Intn(2))
			case 2:
				cnt = c.Rng.U64() >> 1
			default:
				cnt = uint64(c.Rng.Intn(5))
			}
			parts = append(parts, fmt.Sprintf("%s:%d", nm, cnt))
		}
		return strings.Join(parts, ",")
	}
	for j := 0; j < n; j++ {
		a, b := randVV(), randVV()
		o := c.Case("cmp " + a + " " + b)
		c.R.Hit("cmp:" + o)
		c.R.Nontrivial()
		c.Do("merge " + a + " " + b)
		c.Do("cmp " + b + " " + a)
		// prune with random active list and limit
		var act []string
		for _, nm := range names {
			if c.Rng.Chance(1, 2) {
				act = append(act, nm)
			}
		}
		c.Rng.Intn(2)
		for x := len(act) - 1; x > 0; x-- {
			y := c.Rng.Intn(x + 1)
			act[x], act[y] = act[y], act[x]
		}
		as := "-"
		if len(act) > 0 {
			as = strings.Join(act, ",")
		}
		mx := c.Rng.Intn(8) - 1
		c.Do(fmt.Sprintf("prune %s %d %s", a, mx, as))
		if mx > 0 && len(act) > mx {
			c.R.Hit("prune:truncated")
		}
	}
}
