package engines

// esrt: the ordering clause of C19 on a real actor system (monitor only): events from one publisher reach
// every subscriber in publication order, each exactly once — for a handful of subscribers and for many
// (a fan-out of a dozen and of forty), with the publications made back to back from one handler, and from
// two publishers at once (each publisher's events stay in its own order).
//
//	es <subscribers> <events> <publishers>     -> "-" (violations through the monitor channel)

import (
	"fmt"
	"strings"
	"sync"
	"time"

	"github.com/kercylan98/vivid"
	"github.com/kercylan98/vivid/internal/actor"
	"github.com/kercylan98/vivid/pkg/log"
)

type esrtEngine struct{}

func init() { Register("esrt", func() Engine { return &esrtEngine{} }) }

func (*esrtEngine) Name() string { return "esrt" }

type esrtEv struct{ Pub, Seq int }
type esrtGo struct{ N int }

func esrtScenario(subs, n, pubs int) string {
	sys := actor.NewSystem(vivid.WithActorSystemLogger(log.NewSilentLogger()))
	if err := sys.Start(); err != nil {
		return "start: " + err.Error()
	}
	defer sys.Stop(2 * time.Second)
	var mu sync.Mutex
	got := make([][]esrtEv, subs)
	ready := make(chan struct{}, subs)
	for i := 0; i < subs; i++ {
		i := i
		sys.ActorOf(vivid.ActorFN(func(c vivid.ActorContext) {
			switch m := c.Message().(type) {
			case *vivid.OnLaunch:
				c.EventStream().Subscribe(c, esrtEv{})
				ready <- struct{}{}
			case esrtEv:
				mu.Lock()
				got[i] = append(got[i], m)
				mu.Unlock()
			}
		}))
	}
	for i := 0; i < subs; i++ {
		select {
		case <-ready:
		case <-time.After(2 * time.Second):
			return "HARNESS: a subscriber did not launch"
		}
	}
	for p := 0; p < pubs; p++ {
		p := p
		ref, _ := sys.ActorOf(vivid.ActorFN(func(c vivid.ActorContext) {
			if g, ok := c.Message().(*esrtGo); ok {
				for s := 1; s <= g.N; s++ {
					c.EventStream().Publish(c, esrtEv{Pub: p, Seq: s})
				}
			}
		}))
		sys.Tell(ref, &esrtGo{N: n})
	}
	deadline := time.Now().Add(3 * time.Second)
	for {
		mu.Lock()
		full := true
		for i := range got {
			if len(got[i]) < n*pubs {
				full = false
			}
		}
		mu.Unlock()
		if full || time.Now().After(deadline) {
			break
		}
		time.Sleep(5 * time.Millisecond)
	}
	time.Sleep(30 * time.Millisecond) // anything delivered twice would arrive now
	mu.Lock()
	defer mu.Unlock()
	for i := range got {
		next := make([]int, pubs)
		for k, e := range got[i] {
			if e.Seq != next[e.Pub]+1 {
				lo := k - 2
				if lo < 0 {
					lo = 0
				}
				hi := k + 3
				if hi > len(got[i]) {
					hi = len(got[i])
				}
				var win []string
				for _, x := range got[i][lo:hi] {
					win = append(win, fmt.Sprintf("%d.%d", x.Pub, x.Seq))
				}
				return fmt.Sprintf("EVENT-ORDER: subscriber %d of %d received event %d of publisher %d when event %d was due (publisher.sequence around it: %s): events from one publisher reach a subscriber in publication order, each once", i, subs, e.Seq, e.Pub, next[e.Pub]+1, strings.Join(win, " "))
			}
			next[e.Pub] = e.Seq
		}
		for p := range next {
			if next[p] != n {
				return fmt.Sprintf("EVENT-MISSED: subscriber %d of %d received %d of the %d events of publisher %d", i, subs, next[p], n, p)
			}
		}
	}
	return ""
}

func (e *esrtEngine) Exec(line string) (string, string) {
	tk := strings.Fields(line)
	if len(tk) == 4 && tk[0] == "es" {
		var subs, n, pubs int
		fmt.Sscan(tk[1], &subs)
		fmt.Sscan(tk[2], &n)
		fmt.Sscan(tk[3], &pubs)
		if subs < 1 || subs > 100 || n < 1 || n > 5000 || pubs < 1 || pubs > 4 {
			return "bad-op", ""
		}
		return "-", esrtScenario(subs, n, pubs)
	}
	return "bad-op", ""
}

func (e *esrtEngine) Generate(c *Ctx) {
	reps := 2
	if c.Thorough() {
		reps = 20
	}
	for r := 0; r < reps; r++ {
		for _, sc := range []string{"es 3 200 1", "es 8 200 1", "es 9 200 1", "es 12 300 1", "es 40 200 2", "es 12 100 2"} {
			c.Case(sc)
			c.R.Nontrivial()
			c.R.Hit("es:" + strings.Fields(sc)[1] + "-subscribers")
		}
	}
}
