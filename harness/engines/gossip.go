package engines

import (
	"fmt"
	"sort"
	"strconv"
	"strings"
	"time"

	"github.com/kercylan98/vivid"
	"github.com/kercylan98/vivid/internal/actor"
	"github.com/kercylan98/vivid/internal/cluster"
	"github.com/kercylan98/vivid/internal/future"
	"github.com/kercylan98/vivid/pkg/log"
	"github.com/kercylan98/vivid/pkg/metrics"
	"github.com/kercylan98/vivid/pkg/ves"
)

// Engine gossip (C18): real cluster.NodeActor instances driven through a fake ActorContext: the
// harness is the network (a bag of captured gossip messages it delivers, drops or reorders), the
// scheduler (ticks are ops) and the clock (cluster.VerifNow). Lock-step with Vivid.Gossip.
//
//	cfg <timeout ms> <nodes> <seed idx,...>   reset; node i has address a(i)
//	start <i> <via>                           OnLaunch of a fresh incarnation of node i: bootstrap if it is a seed, else join;
//	                                          the real code tries the seeds in random order: only seed <via> answers (- : none)
//	tick <i>                                  GossipTick: observation = targets; messages go to the bag
//	fd <i>                                    FailureDetectionTick
//	recv <i> <k>: <from> <member;...>         deliver bag message k (content echoed for the model) to node i
//	adv <ms>                                  advance the clock
//	crash <i>                                 node i stops without notice
//	state <i> / check                         members / every running node's members and leader
type gossipEngine struct {
	confirm time.Duration // SuspectConfirmDuration of the nodes (0: a stale member is removed at once)
	timeout time.Duration
	base    time.Time
	now     time.Time
	nodes   []*gnode
	seeds   []int
	bag     []gmsg
	via     int // the only seed that answers an Ask right now (-1: none)
}

type gnode struct {
	idx   int
	inc   int
	alive bool
	act   *cluster.NodeActor
	ref   vivid.ActorRef
	// periodic messages the node has registered with its scheduler
	loopGossip, loopFD bool
	// the last ClusterLeaderChangedEvent the node published: what its users believe
	announced bool
	annLeader string
	annIAm    bool
}

type gmsg struct {
	from, to int
	view     *cluster.ClusterView
}

func init() { Register("gossip", func() Engine { return &gossipEngine{} }) }

func (*gossipEngine) Name() string { return "gossip" }

func gAddr(i int) string { return fmt.Sprintf("127.0.0.1:%d", 30000+i) }
func gIdx(addr string) int {
	p, _ := strconv.Atoi(addr[strings.LastIndex(addr, ":")+1:])
	return p - 30000
}

// ---- fake ActorContext

type gctx struct {
	vivid.ActorContext // nil: any method the cluster code starts using and we did not provide panics loudly
	e                  *gossipEngine
	n                  *gnode
	msg                any
	sender             vivid.ActorRef
	reply              any
	replied            bool
	sent               []string
}

type gsys struct {
	vivid.ActorSystem
}

func (gsys) CreateRef(address, path string) (vivid.ActorRef, error) {
	return actor.NewRef(address, path)
}

// gsched records which periodic messages the node has asked its scheduler for: the harness delivers a
// GossipTick / FailureDetectionTick only to a node that registered the corresponding loop.
type gsched struct {
	vivid.Scheduler
	n *gnode
}

func (g gsched) Loop(_ vivid.ActorRef, _ time.Duration, m vivid.Message, _ ...vivid.ScheduleOption) error {
	switch m.(type) {
	case *cluster.GossipTick:
		g.n.loopGossip = true
	case *cluster.FailureDetectionTick:
		g.n.loopFD = true
	}
	return nil
}
func (g gsched) Once(vivid.ActorRef, time.Duration, vivid.Message, ...vivid.ScheduleOption) error {
	return nil
}
func (g gsched) Cancel(ref string) error {
	switch ref {
	case cluster.SchedRefGossip:
		g.n.loopGossip = false
	case cluster.SchedRefFailureDetection:
		g.n.loopFD = false
	}
	return nil
}

type ges struct {
	vivid.EventStream
	n *gnode
}

func (g ges) Publish(_ vivid.EventStreamContext, m vivid.Message) {
	if ev, ok := m.(ves.ClusterLeaderChangedEvent); ok && g.n != nil {
		g.n.announced, g.n.annLeader, g.n.annIAm = true, ev.LeaderAddr, ev.IAmLeader
	}
}

func (c *gctx) Message() vivid.Message         { return c.msg }
func (c *gctx) Sender() vivid.ActorRef         { return c.sender }
func (c *gctx) Ref() vivid.ActorRef            { return c.n.ref }
func (c *gctx) Logger() log.Logger             { return log.NewSilentLogger() }
func (c *gctx) System() vivid.ActorSystem      { return gsys{} }
func (c *gctx) Scheduler() vivid.Scheduler     { return gsched{n: c.n} }
func (c *gctx) EventStream() vivid.EventStream { return ges{n: c.n} }
func (c *gctx) MetricsEnabled() bool           { return false }
func (c *gctx) Metrics() metrics.Metrics       { return nil }
func (c *gctx) Reply(m vivid.Message)          { c.reply, c.replied = m, true }
func (c *gctx) TellSelf(m vivid.Message)       {}

func (c *gctx) Tell(to vivid.ActorRef, m vivid.Message) {
	if g, ok := m.(*cluster.GossipMessage); ok {
		i := gIdx(to.GetAddress())
		c.sent = append(c.sent, fmt.Sprint(i))
		c.e.bag = append(c.e.bag, gmsg{from: c.n.idx, to: i, view: g.View.Snapshot()})
	}
}

// Ask: the join handshake is synchronous in the harness: the request is handled by the target
// node right away (if it runs), the reply comes back as a completed future.
func (c *gctx) Ask(to vivid.ActorRef, m vivid.Message, _ ...time.Duration) vivid.Future[vivid.Message] {
	i := gIdx(to.GetAddress())
	if i != c.e.via || i < 0 || i >= len(c.e.nodes) || c.e.nodes[i] == nil || !c.e.nodes[i].alive {
		return future.NewFutureFail[vivid.Message](vivid.ErrorFutureTimeout)
	}
	t := c.e.nodes[i]
	sub := &gctx{e: c.e, n: t, msg: m, sender: c.n.ref}
	t.act.OnReceive(sub)
	f := future.NewFuture[vivid.Message](nil, 0, nil)
	switch r := sub.reply.(type) {
	case error:
		f.Close(r)
	case nil:
		f.Close(vivid.ErrorFutureTimeout)
	default:
		f.EnqueueMessage(r)
	}
	return f
}

// ---- rendering

func (e *gossipEngine) rel(ns int64) int64 { return (ns - e.base.UnixNano()) / int64(time.Millisecond) }

func stName(s cluster.MemberStatus) string {
	switch s {
	case cluster.MemberStatusUp:
		return "up"
	case cluster.MemberStatusSuspect:
		return "suspect"
	case cluster.MemberStatusJoining:
		return "joining"
	}
	return fmt.Sprintf("st%d", int(s))
}

// member tokens: id,addr,gen,clock,ts,status,seen
func (e *gossipEngine) memTok(m *cluster.NodeState) string {
	return fmt.Sprintf("%s,%d,%d,%d,%d,%s,%d", m.ID, gIdx(m.Address), m.Generation, m.LogicalClock, e.rel(m.Timestamp), stName(m.Status), e.rel(m.LastSeen))
}

func (e *gossipEngine) viewTok(ms map[string]*cluster.NodeState) string {
	var a []string
	for _, m := range ms {
		a = append(a, e.memTok(m))
	}
	sort.Strings(a)
	if len(a) == 0 {
		return "-"
	}
	return strings.Join(a, ";")
}

func (e *gossipEngine) state(n *gnode) string {
	_, ms := n.act.VerifMembers()
	mm := map[string]*cluster.NodeState{}
	for _, m := range ms {
		mm[m.ID] = m
	}
	return e.viewTok(mm)
}

func (e *gossipEngine) node(tok string) *gnode {
	i, err := strconv.Atoi(tok)
	if err != nil || i < 0 || i >= len(e.nodes) {
		return nil
	}
	return e.nodes[i]
}

func (e *gossipEngine) Exec(line string) (string, string) {
	tk := strings.Fields(line)
	if len(tk) == 0 {
		return "bad-op", ""
	}
	cluster.VerifNow = func() time.Time { return e.now }
	switch tk[0] {
	case "cfg":
		// cfg <timeout ms> <nodes> <seeds> [<suspect confirm ms>]
		if len(tk) != 4 && len(tk) != 5 {
			return "bad-op", ""
		}
		ms, _ := strconv.Atoi(tk[1])
		n, _ := strconv.Atoi(tk[2])
		e.confirm = 0
		if len(tk) == 5 {
			d, _ := strconv.Atoi(tk[4])
			e.confirm = time.Duration(d) * time.Millisecond
		}
		e.timeout = time.Duration(ms) * time.Millisecond
		e.base = time.Unix(1_700_000_000, 0)
		e.now = e.base.Add(time.Second) // t = 1000 ms
		e.nodes = make([]*gnode, n)
		e.bag = nil
		e.seeds = nil
		for _, s := range strings.Split(tk[3], ",") {
			if i, err := strconv.Atoi(s); err == nil {
				e.seeds = append(e.seeds, i)
			}
		}
		return "ok", ""
	case "start":
		if len(tk) != 3 {
			return "bad-op", ""
		}
		e.via = -1
		if v, err := strconv.Atoi(tk[2]); err == nil {
			e.via = v
		}
		i, err := strconv.Atoi(tk[1])
		if err != nil || i < 0 || i >= len(e.nodes) {
			return "bad-op", ""
		}
		inc := 1
		if old := e.nodes[i]; old != nil {
			if old.alive {
				return "bad-op", ""
			}
			inc = old.inc + 1
		}
		var seeds []string
		for _, s := range e.seeds {
			seeds = append(seeds, gAddr(s))
		}
		opts := vivid.NewClusterOptions(
			vivid.WithClusterNodeID(fmt.Sprintf("%d.%d", i, inc)),
			vivid.WithClusterSeeds(seeds),
			vivid.WithClusterFailureDetectionTimeout(e.timeout),
			vivid.WithClusterSuspectConfirmDuration(e.confirm))
		n := &gnode{idx: i, inc: inc, alive: true}
		n.act = cluster.NewNodeActor(gAddr(i), *opts)
		n.act.VerifSetBirth(e.now.UnixNano())
		n.ref, _ = actor.NewRef(gAddr(i), "/@cluster")
		e.nodes[i] = n
		c := &gctx{e: e, n: n, msg: &vivid.OnLaunch{}}
		n.act.OnReceive(c)
		return e.state(n), ""
	case "retry":
		// retry <i> <via>: JoinRetryTick of a node whose join has not succeeded yet
		if len(tk) != 3 {
			return "bad-op", ""
		}
		n := e.node(tk[1])
		if n == nil || !n.alive || e.joined(n) {
			return "bad-op", ""
		}
		e.via = -1
		if v, err := strconv.Atoi(tk[2]); err == nil {
			e.via = v
		}
		n.act.OnReceive(&gctx{e: e, n: n, msg: &cluster.JoinRetryTick{}})
		return e.state(n), ""
	case "tick", "fd", "state":
		n := e.node(tk[len(tk)-1])
		if len(tk) != 2 || n == nil || !n.alive {
			return "bad-op", ""
		}
		// a periodic tick exists only if the node asked its scheduler for it
		if (tk[0] == "tick" && !n.loopGossip) || (tk[0] == "fd" && !n.loopFD) {
			return "not-scheduled", ""
		}
		switch tk[0] {
		case "tick":
			c := &gctx{e: e, n: n, msg: &cluster.GossipTick{}}
			n.act.OnReceive(c)
			sort.Strings(c.sent)
			viol := ""
			// the periodic round is the heartbeat: every other known member must be addressed
			_, ms := n.act.VerifMembers()
			for _, m := range ms {
				if gIdx(m.Address) != n.idx && !containsStr(c.sent, fmt.Sprint(gIdx(m.Address))) {
					viol = fmt.Sprintf("HEARTBEAT: the gossip round of node %d sent nothing to its member %s: that member only refreshes node %d's LastSeen on direct gossip and will remove it", n.idx, m.ID, n.idx)
				}
			}
			if len(c.sent) == 0 {
				return "-", viol
			}
			return strings.Join(c.sent, ","), viol
		case "fd":
			c := &gctx{e: e, n: n, msg: &cluster.FailureDetectionTick{}}
			n.act.OnReceive(c)
		}
		return e.state(n), ""
	case "recv":
		// recv <i> <k>: <from> <members>   (everything after the colon is derived; the harness re-derives it)
		if len(tk) < 3 {
			return "bad-op", ""
		}
		n := e.node(tk[1])
		k, err := strconv.Atoi(strings.TrimSuffix(tk[2], ":"))
		if n == nil || !n.alive || err != nil || k < 0 || k >= len(e.bag) {
			return "bad-op", ""
		}
		m := e.bag[k]
		from, _ := actor.NewRef(gAddr(m.from), "/@cluster")
		c := &gctx{e: e, n: n, msg: &cluster.GossipMessage{View: m.view.Snapshot()}, sender: from}
		n.act.OnReceive(c)
		return e.state(n), ""
	case "adv":
		if len(tk) != 2 {
			return "bad-op", ""
		}
		ms, _ := strconv.Atoi(tk[1])
		e.now = e.now.Add(time.Duration(ms) * time.Millisecond)
		return "ok", ""
	case "crash":
		n := e.node(tk[len(tk)-1])
		if len(tk) != 2 || n == nil || !n.alive {
			return "bad-op", ""
		}
		n.alive = false
		return "ok", ""
	case "check":
		var parts []string
		for _, n := range e.nodes {
			if n != nil && n.alive {
				l := n.act.VerifLeader()
				ls := "-"
				if l != "" {
					ls = fmt.Sprint(gIdx(l))
				}
				parts = append(parts, fmt.Sprintf("n%d[leader=%s %s]", n.idx, ls, e.state(n)))
			}
		}
		return strings.Join(parts, " "), ""
	}
	return "bad-op", ""
}

// joined: the node is a member of its own view (bootstrap or successful join happened).
func (e *gossipEngine) joined(n *gnode) bool {
	self, _ := n.act.VerifMembers()
	return self.Status == cluster.MemberStatusUp
}

func containsStr(a []string, x string) bool {
	for _, y := range a {
		if y == x {
			return true
		}
	}
	return false
}

// recvLine renders the op that delivers bag message k to its addressee.
func (e *gossipEngine) recvLine(k int) string {
	m := e.bag[k]
	return fmt.Sprintf("recv %d %d: %d %s", m.to, k, m.from, e.viewTok(m.view.Members))
}

// converged: every running node sees exactly the running nodes (current incarnations), all up,
// and the same leader.
func (e *gossipEngine) convergenceProblem() string {
	want := map[string]bool{}
	for _, n := range e.nodes {
		if n != nil && n.alive {
			want[fmt.Sprintf("%d.%d", n.idx, n.inc)] = true
		}
	}
	leader := ""
	for _, n := range e.nodes {
		if n == nil || !n.alive {
			continue
		}
		_, ms := n.act.VerifMembers()
		got := map[string]bool{}
		for _, m := range ms {
			got[m.ID] = true
			if !want[m.ID] {
				return fmt.Sprintf("node %d still lists %s, which is not a running node", n.idx, m.ID)
			}
			if m.Status != cluster.MemberStatusUp {
				return fmt.Sprintf("node %d lists %s as %s", n.idx, m.ID, stName(m.Status))
			}
		}
		for id := range want {
			if !got[id] {
				return fmt.Sprintf("node %d does not know the running node %s", n.idx, id)
			}
		}
		l := n.act.VerifLeader()
		if leader == "" {
			leader = l
		} else if l != leader {
			return fmt.Sprintf("nodes disagree on the leader (%s vs %s)", leader, l)
		}
	}
	// what the nodes told their users (the last ClusterLeaderChangedEvent each published) agrees with that:
	// exactly one node considers itself leader
	iam := 0
	for _, n := range e.nodes {
		if n == nil || !n.alive || !n.announced {
			continue
		}
		if n.annLeader != leader {
			return fmt.Sprintf("node %d last announced leader %q (IAmLeader=%v) to its users, but the leader of its (converged) view is %q: the announcement was never corrected", n.idx, n.annLeader, n.annIAm, leader)
		}
		if n.annIAm {
			iam++
		}
	}
	if iam > 1 {
		return fmt.Sprintf("%d nodes consider themselves leader", iam)
	}
	return ""
}

func (e *gossipEngine) Generate(c *Ctx) {
	c.Guard = true
	defer func() { cluster.VerifNow = nil }()
	birth := map[int]time.Time{}
	var do func(op string) string
	do = func(op string) string {
		if strings.HasPrefix(op, "start ") && len(strings.Fields(op)) == 2 {
			// two incarnations of one node never share a birth timestamp (wall clock, nanoseconds)
			i, _ := strconv.Atoi(strings.Fields(op)[1])
			if b, ok := birth[i]; ok && !e.now.After(b) {
				do("adv 1")
			}
			birth[i] = e.now
		}
		if (strings.HasPrefix(op, "start ") || strings.HasPrefix(op, "retry ")) && len(strings.Fields(op)) == 2 {
			// choose the seed that answers: a running seed other than the node itself, by the seeded PRNG
			i, _ := strconv.Atoi(strings.Fields(op)[1])
			var cands []int
			for _, s := range e.seeds {
				if s != i && e.nodes[s] != nil && e.nodes[s].alive {
					cands = append(cands, s)
				}
			}
			via := "-"
			if len(cands) > 0 {
				via = fmt.Sprint(cands[c.Rng.Intn(len(cands))])
			}
			op += " " + via
		}
		return c.Do(op)
	}
	alive := func() []int { // running and joined: the nodes whose gossip and detection loops run
		var a []int
		for _, n := range e.nodes {
			if n != nil && n.alive && e.joined(n) {
				a = append(a, n.idx)
			}
		}
		return a
	}
	unjoined := func() []int {
		var a []int
		for _, n := range e.nodes {
			if n != nil && n.alive && !e.joined(n) {
				a = append(a, n.idx)
			}
		}
		return a
	}
	// settle: rounds of (everybody ticks, everything in the bag is delivered in a seeded order, time
	// advances, everybody runs failure detection) — the "faults have stopped" phase
	settle := func(rounds int, stepMs int) {
		for r := 0; r < rounds; r++ {
			for _, i := range unjoined() {
				do(fmt.Sprintf("retry %d", i)) // the join retry timer
			}
			from := len(e.bag)
			for _, i := range alive() {
				do(fmt.Sprintf("tick %d", i))
			}
			idx := c.Rng.Fork()
			order := make([]int, 0, len(e.bag)-from)
			for k := from; k < len(e.bag); k++ {
				order = append(order, k)
			}
			for i := len(order) - 1; i > 0; i-- {
				j := idx.Intn(i + 1)
				order[i], order[j] = order[j], order[i]
			}
			for _, k := range order {
				if t := e.nodes[e.bag[k].to]; t != nil && t.alive {
					do(e.recvLine(k))
				}
			}
			do(fmt.Sprintf("adv %d", stepMs))
			for _, i := range alive() {
				do(fmt.Sprintf("fd %d", i))
			}
		}
	}
	finish := func(tag string) {
		do("check")
		c.R.Nontrivial()
		c.R.Hit("scenario:" + tag)
		if p := e.convergenceProblem(); p != "" {
			c.R.Violate("gossip", fmt.Sprintf("CONVERGENCE: %s: after the faults stopped and %d full rounds of gossip + failure detection (timeout %v): %s", tag, 12, e.timeout, p))
		}
	}
	scen := func(header string, tag string, body func()) {
		c.Case(header)
		body()
		settle(12, 400)
		finish(tag)
	}
	for _, n := range []int{2, 3, 5, 7} {
		if n > 3 && !c.Thorough() {
			continue
		}
		all := func() {
			for i := 0; i < n; i++ {
				do(fmt.Sprintf("start %d", i))
			}
		}
		scen(fmt.Sprintf("cfg 2000 %d 0", n), "join", all)
		scen(fmt.Sprintf("cfg 2000 %d 0", n), "idle-long", func() { all(); settle(30, 400) })
		scen(fmt.Sprintf("cfg 2000 %d 0", n), "crash", func() { all(); settle(3, 400); do(fmt.Sprintf("crash %d", n-1)) })
		scen(fmt.Sprintf("cfg 2000 %d 0", n), "restart", func() {
			all()
			settle(3, 400)
			do(fmt.Sprintf("crash %d", n-1))
			do("adv 300")
			do(fmt.Sprintf("start %d", n-1))
		})
		scen(fmt.Sprintf("cfg 2000 %d 0", n), "seed-crash", func() { all(); settle(3, 400); do("crash 0") })
		scen(fmt.Sprintf("cfg 2000 %d 0", n), "seed-restart", func() {
			all()
			settle(3, 400)
			do("crash 0")
			do("adv 300")
			do("start 0")
		})
		if n >= 3 {
			// partition: for longer than the timeout only messages inside a group are delivered; then it heals
			for _, cut := range []int{1, n / 2, n - 1} {
				cut := cut
				scen(fmt.Sprintf("cfg 2000 %d 0", n), "partition", func() {
					all()
					settle(3, 400)
					side := func(i int) bool { return i < cut }
					for r := 0; r < 9; r++ {
						from := len(e.bag)
						for _, i := range alive() {
							do(fmt.Sprintf("tick %d", i))
						}
						for k := from; k < len(e.bag); k++ {
							if side(e.bag[k].from) == side(e.bag[k].to) {
								do(e.recvLine(k))
							}
						}
						do("adv 400")
						for _, i := range alive() {
							do(fmt.Sprintf("fd %d", i))
						}
					}
				})
			}
			// suspicion: with a confirmation period a partition shorter than timeout + confirmation only makes the
			// other side Suspect; direct gossip after the heal must clear it (one leader again)
			for _, cut := range []int{1, n - 1} {
				cut := cut
				scen(fmt.Sprintf("cfg 2000 %d 0 1500", n), "partition-suspect", func() {
					all()
					settle(3, 400)
					side := func(i int) bool { return i < cut }
					for r := 0; r < 7; r++ {
						from := len(e.bag)
						for _, i := range alive() {
							do(fmt.Sprintf("tick %d", i))
						}
						for k := from; k < len(e.bag); k++ {
							if side(e.bag[k].from) == side(e.bag[k].to) {
								do(e.recvLine(k))
							}
						}
						do("adv 400")
						for _, i := range alive() {
							do(fmt.Sprintf("fd %d", i))
						}
					}
				})
			}
			// one-way loss: what the leader sends to the last node is lost for longer than the timeout but shorter than
			// timeout + confirmation (the others hear everybody): that node suspects the leader and announces another
			// one; after the heal the suspicion is cleared by direct gossip and the announcement must follow
			scen(fmt.Sprintf("cfg 2000 %d 0 1500", n), "oneway-suspect", func() {
				all()
				settle(3, 400)
				ld := gIdx(e.nodes[0].act.VerifLeader())
				x := n - 1
				if ld == x {
					x = 0
				}
				for r := 0; r < 7; r++ {
					from := len(e.bag)
					for _, i := range alive() {
						do(fmt.Sprintf("tick %d", i))
					}
					for k := from; k < len(e.bag); k++ {
						if !(e.bag[k].from == ld && e.bag[k].to == x) {
							do(e.recvLine(k))
						}
					}
					do("adv 400")
					for _, i := range alive() {
						do(fmt.Sprintf("fd %d", i))
					}
				}
			})
			scen(fmt.Sprintf("cfg 2000 %d 0 1500", n), "crash-suspect", func() { all(); settle(3, 400); do(fmt.Sprintf("crash %d", n-1)) })
			scen(fmt.Sprintf("cfg 2000 %d 0,1", n), "two-seeds", all)
			scen(fmt.Sprintf("cfg 2000 %d 0", n), "late-crash-messages", func() {
				// messages of the crashed node are still in flight and arrive after the others removed it
				all()
				settle(3, 400)
				from := len(e.bag)
				do(fmt.Sprintf("tick %d", n-1))
				do(fmt.Sprintf("crash %d", n-1))
				settle(8, 400)
				for k := from; k < len(e.bag); k++ {
					if e.bag[k].from == n-1 {
						if t := e.nodes[e.bag[k].to]; t != nil && t.alive {
							do(e.recvLine(k))
						}
					}
				}
			})
		}
	}
	// random fault phases: losses, reorderings, duplicates, partitions (a node's messages held back), crashes,
	// restarts, timer phase offsets — then the settle phase
	nr := 6
	if c.Thorough() {
		nr = 120
	}
	for r := 0; r < nr; r++ {
		n := 2 + c.Rng.Intn(4)
		if c.Thorough() {
			n = 2 + c.Rng.Intn(6)
		}
		seeds := "0"
		if n >= 3 && c.Rng.Chance(1, 3) {
			seeds = "0,1"
		}
		c.Case(fmt.Sprintf("cfg 2000 %d %s", n, seeds))
		do("start 0")
		steps := 20 + c.Rng.Intn(40)
		for s := 0; s < steps; s++ {
			al := alive()
			switch c.Rng.Intn(10) {
			case 0:
				// start a node that is not running (first start or restart)
				i := c.Rng.Intn(n)
				if e.nodes[i] == nil || !e.nodes[i].alive {
					do(fmt.Sprintf("start %d", i))
					c.R.Hit("rand:start")
				}
			case 1:
				if u := unjoined(); len(u) > 0 && c.Rng.Chance(1, 2) {
					do(fmt.Sprintf("retry %d", u[c.Rng.Intn(len(u))]))
					c.R.Hit("rand:retry")
				} else if len(al) > 1 && c.Rng.Chance(1, 2) {
					do(fmt.Sprintf("crash %d", al[c.Rng.Intn(len(al))]))
					c.R.Hit("rand:crash")
				}
			case 2, 3:
				if len(al) > 0 {
					do(fmt.Sprintf("tick %d", al[c.Rng.Intn(len(al))]))
				}
			case 4:
				if len(al) > 0 {
					do(fmt.Sprintf("fd %d", al[c.Rng.Intn(len(al))]))
				}
			case 5:
				do(fmt.Sprintf("adv %d", 50+c.Rng.Intn(900)))
			default:
				// deliver any message of the bag, old ones and duplicates included (loss = never chosen)
				if len(e.bag) > 0 {
					k := c.Rng.Intn(len(e.bag))
					if t := e.nodes[e.bag[k].to]; t != nil && t.alive {
						do(e.recvLine(k))
						c.R.Hit("rand:recv")
					}
				}
			}
		}
		// nodes that never started stay out; the fault phase is over; a cluster needs a running seed to re-form
		if e.nodes[0] == nil || !e.nodes[0].alive {
			do("start 0")
		}
		settle(14, 400)
		finish("random")
	}
}
